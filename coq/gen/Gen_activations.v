(* GENERATED: translation of /tmp/seedwt_C01_relu_int_dtype/reservoirpy/activationsfunc.py FAILED -- translation rejected: line 215: unsupported expression IfExp *)
Definition translation_failed : True := 0.
