(* GENERATED: translation of /tmp/seedwt_C18_relu_closed_form_overflow/reservoirpy/activationsfunc.py FAILED -- translation rejected: line 215: re-assignment of 'x' *)
Definition translation_failed : True := 0.
