(* GENERATED: translation of /tmp/seedwt_C18_get_function_alias_misaligned/reservoirpy/activationsfunc.py FAILED -- translation rejected: line 47: get_function has an unexpected shape *)
Definition translation_failed : True := 0.
