(* ValPrelude2 — the node-object vocabulary used by the code GENERATED from  _base.py :: register_teacher, _check_node_io, check_xy
   (tools/vlib/py2coq_val2.py -> coq/gen/Gen_validation2.v, tie (T) of property C12, second unit).  It extends ValPrelude.v (data
   descriptors, expected-dimension objects, the `res` exception monad) and, like it, is trusted as the MEANING of the vocabulary.

   Nodes are records of what this code reads or writes: name (a key; names are unique inside a model), input_dim / output_dim (None | int |
   tuple, as Python objects), the flags is_trained_online and fitted, and the `_teacher` slot.  The ONLY mutation in the translated code
   is  caller._teacher = DistantFeedback(sender=teacher, ..)  in register_teacher; it is made explicit: every translated function runs in
   the state-and-exception monad  M A = heap -> heap * res A  where the heap is the list of the node objects reachable from the caller
   (the caller itself for a Node; the model's nodes for a Model), and an exception RETURNS THE HEAP AS IT IS AT THAT POINT — so "a refused
   call leaves no teacher registered" is a statement about the first component.  The attributes read through a node VALUE (name, dims,
   flags) are never written by this code, so reading them from the value or from the heap is the same; nothing here reads `_teacher`.

   Values:  pyval = None | one data descriptor (array / list / number / other / a Node given as data: DTeacher) | a dict from node names to
   descriptors, as an association list in insertion order (first binding of a key is the live one; keys inserted are fresh or replaced in place).
   VData DOther as the WHOLE x / y of a Model caller is outside the modelled domain (the harness' DOther is a str or a dict, is_mapping holds
   of both but only the dict has .copy()): map_copy fails closed on it.
   No proofs in this file. *)
From Coq Require Import List Arith Bool.
From RV Require Import model.Shapes base.ValPrelude.
Import ListNotations.

(* ------------------------------------------------------------------------------------------------ objects *)
Record pynode := mkPyNode {
  pn_name : nat;
  pn_input_dim : pyobj;
  pn_output_dim : pyobj;
  pn_online : bool;                 (* node.is_trained_online *)
  pn_fitted : bool;                 (* node.fitted *)
  pn_teacher : option data          (* node._teacher: None, or the sender of the registered DistantFeedback *)
}.

(* a Model, as far as check_xy looks at it: hasattr input_nodes / trainable_nodes, and an input_dim / output_dim nobody uses *)
Record pymodel := mkPyModel {
  pm_input_nodes : list pynode;
  pm_trainable_nodes : list pynode;
  pm_input_dim : pyobj;
  pm_output_dim : pyobj
}.

Inductive pycaller := CNode (n : pynode) | CModel (m : pymodel).

Inductive pyval := VNone | VData (d : data) | VMap (m : list (nat * data)).

Inductive iotype := IoInput | IoTarget.              (* the string io_type: "input" | "target" *)
Definition iotype_eqb (a b : iotype) : bool :=
  match a, b with IoInput, IoInput | IoTarget, IoTarget => true | _, _ => false end.

(* ------------------------------------------------------------------------------------------------ state + exceptions *)
Definition heap := list pynode.
Definition M (A : Type) : Type := heap -> heap * res A.
Definition mret {A : Type} (a : A) : M A := fun h => (h, ROk a).
Definition mraise {A : Type} (e : exn) : M A := fun h => (h, RErr e).
Definition mlift {A : Type} (r : res A) : M A := fun h => (h, r).           (* a pure operation that can raise *)
Definition mbind {A B : Type} (m : M A) (k : A -> M B) : M B :=
  fun h => match m h with (h', ROk a) => k a h' | (h', RErr e) => (h', RErr e) end.

(* for node in <list of nodes>: body — the body receives the node and the loop state and returns the new state; `continue` and the end
   of the body both return the current state; the first exception ends the loop (with the heap as it is then) *)
Definition for_nodes {St : Type} (body : pynode -> St -> M St) : list pynode -> St -> M St :=
  fix go (l : list pynode) (st : St) : M St :=
    match l with
    | [] => mret st
    | n :: r => mbind (body n st) (fun st' => go r st')
    end.

(* ------------------------------------------------------------------------------------------------ values *)
(* a value used where data is expected (check_n_sequences, the is-a-node test): None is "anything else that is not a node", a dict too *)
Definition val_data (v : pyval) : data := match v with VData d => d | _ => DOther end.
Definition val_is_none (v : pyval) : bool := match v with VNone => true | _ => false end.
(* utils.validation.is_mapping: a Mapping, or anything with items/get, or anything subscriptable that is not a list / tuple / array:
   true of a dict and of a str (DOther), false of None, numbers, arrays, lists and Nodes *)
Definition is_mapping (v : pyval) : bool :=
  match v with VMap _ => true | VData DOther => true | _ => false end.
(* x.copy() where is_mapping(x) was established: a new dict with the same bindings; a str has no .copy (AttributeError) *)
Definition map_copy (v : pyval) : res (list (nat * data)) :=
  match v with VMap m => ROk m | _ => RErr OtherError end.
(* len(x) where is_mapping(x) was established (lazy `and`): the number of bindings of a dict; the only other value is_mapping holds of
   is DOther, a str / dict the harness always takes non-empty ("abc", {"a": 1.0}) — and check_n_sequences never returns one *)
Definition val_len (v : pyval) : nat := match v with VMap m => length m | _ => 1 end.

(* dict operations on association lists *)
Fixpoint map_mem (k : nat) (m : list (nat * data)) : bool :=                              (* k in m *)
  match m with [] => false | (k', _) :: r => (k =? k') || map_mem k r end.
Fixpoint map_get (m : list (nat * data)) (k : nat) : res data :=                          (* m[k]: KeyError *)
  match m with [] => RErr KeyError | (k', v) :: r => if k =? k' then ROk v else map_get r k end.
Fixpoint map_set (m : list (nat * data)) (k : nat) (v : data) : list (nat * data) :=      (* m[k] = v *)
  match m with
  | [] => [(k, v)]
  | (k', v') :: r => if k =? k' then (k, v) :: r else (k', v') :: map_set r k v
  end.
Fixpoint map_remove (m : list (nat * data)) (k : nat) : list (nat * data) :=
  match m with [] => [] | (k', v) :: r => if k =? k' then r else (k', v) :: map_remove r k end.
Definition map_pop (m : list (nat * data)) (k : nat) : res (data * list (nat * data)) :=  (* m.pop(k): the value and the dict without k *)
  match map_get m k with ROk v => ROk (v, map_remove m k) | RErr e => RErr e end.
(* {n.name: v for n in nodes}: later nodes with the same name overwrite *)
Definition dict_comp (nodes : list pynode) (v : data) : list (nat * data) :=
  fold_left (fun m n => map_set m (pn_name n) v) nodes [].

(* ------------------------------------------------------------------------------------------------ a Node given as data *)
(* teacher.is_initialized / teacher.output_dim on a descriptor: DTeacher (Some d) = initialised, output_dim d; DTeacher None = never
   initialised, no declared dimension; anything else has neither attribute (AttributeError) *)
Definition teacher_is_initialized (t : data) : res bool :=
  match t with DTeacher (Some _) => ROk true | DTeacher None => ROk false | _ => RErr OtherError end.
Definition teacher_output_dim (t : data) : res pyobj :=
  match t with DTeacher (Some d) => ROk (PInt d) | DTeacher None => ROk PNone | _ => RErr OtherError end.

(* ------------------------------------------------------------------------------------------------ the caller *)
(* hasattr(caller, ..): Node and Model both have input_dim / output_dim; only a Model has input_nodes / trainable_nodes *)
Definition caller_has_input_dim (c : pycaller) : bool := true.
Definition caller_has_output_dim (c : pycaller) : bool := true.
Definition caller_has_input_nodes (c : pycaller) : bool := match c with CModel _ => true | CNode _ => false end.
Definition caller_has_trainable_nodes (c : pycaller) : bool := match c with CModel _ => true | CNode _ => false end.
Definition caller_input_dim (c : pycaller) : res pyobj :=
  match c with CNode n => ROk (pn_input_dim n) | CModel m => ROk (pm_input_dim m) end.
Definition caller_output_dim (c : pycaller) : res pyobj :=
  match c with CNode n => ROk (pn_output_dim n) | CModel m => ROk (pm_output_dim m) end.
Definition caller_input_nodes (c : pycaller) : res (list pynode) :=
  match c with CModel m => ROk (pm_input_nodes m) | CNode _ => RErr OtherError end.
Definition caller_trainable_nodes (c : pycaller) : res (list pynode) :=
  match c with CModel m => ROk (pm_trainable_nodes m) | CNode _ => RErr OtherError end.
(* caller.is_trained_online: a Node's flag; a Model's is not modelled (never reached from check_xy: a Model always goes through the
   receiver_nodes branch) — fail closed *)
Definition caller_is_trained_online (c : pycaller) : res bool :=
  match c with CNode n => ROk (pn_online n) | CModel _ => RErr OtherError end.

(* ------------------------------------------------------------------------------------------------ the one mutation *)
Definition with_teacher (n : pynode) (t : option data) : pynode :=
  mkPyNode (pn_name n) (pn_input_dim n) (pn_output_dim n) (pn_online n) (pn_fitted n) t.
(* caller._teacher = DistantFeedback(sender=teacher, receiver=caller, callback_type="teacher"): the node object of that name in the heap
   gets the teacher; on a Model object the assignment creates an attribute no node sees (never reached from check_xy) *)
Definition set_teacher (c : pycaller) (t : data) : M unit :=
  fun h => match c with
           | CNode n => (map (fun m => if pn_name m =? pn_name n then with_teacher m (Some t) else m) h, ROk tt)
           | CModel _ => (h, ROk tt)
           end.
