(* Vocabulary of the generated coq/gen/Gen_mrun.v (translator tools/vlib/py2coq_mrun.py): the per-sequence loop `Model._run`.
   Definitions only (lemmas: proofs/Gen_mrun_eq.v).  The monad is CtxPrelude.M (the world survives a raise).

   wlog         : the arrays `states = allocate_returned_states(..)` seen through the writes made to them: `states[k][i, :] = v` appends
                  the write (k, i, v) ([set_row]); a row reads as its LAST write ([row_get]; None: still the allocated zeros).
   py_enumerate : `enumerate(l)`.
   py_foldM     : `for v in l: BODY` threading the variable the body rebinds; the first raise ends the loop.
   items_for    : `for name, value in d.items(): BODY` over the insertion-ordered dict of MCallPrelude (a pure body). *)
From Coq Require Import List Bool Arith.
From RV Require Import base.PyColl base.MCallPrelude base.CtxPrelude.
Import ListNotations.

Definition wlog (D : Type) := list (node * nat * D).
Definition set_row {D : Type} (s : wlog D) (k : node) (i : nat) (v : D) : wlog D := s ++ [(k, i, v)].
Fixpoint row_get {D : Type} (s : wlog D) (k : node) (i : nat) : option D :=
  match s with
  | [] => None
  | (k', i', v) :: s' => match row_get s' k i with
                         | Some v' => Some v'
                         | None => if Nat.eqb k k' && Nat.eqb i i' then Some v else None
                         end
  end.

Definition py_enumerate {A : Type} (l : list A) : list (nat * A) := combine (seq 0 (length l)) l.

Fixpoint py_foldM {S A B : Type} (l : list B) (f : A -> B -> M S A) (a : A) : M S A :=
  match l with
  | [] => ret a
  | x :: rest => bind (f a x) (fun a' => py_foldM rest f a')
  end.

Definition items_for {D A : Type} (d : sdict D) (f : A -> node -> D -> A) (a : A) : A :=
  fold_left (fun acc kv => f acc (fst kv) (snd kv)) d a.
