(* PyColl — the meaning of the Python collections used by reservoirpy/utils/graphflow.py, as read by the translator
   tools/vlib/py2coq_graph.py (tie T of C03).  TRUSTED: this file is the statement of what `set`, `defaultdict(list)`,
   `deque`, `list`, `for`, `while` and `raise` mean; it contains definitions only (lemmas: proofs/Gen_graphflow_eq.v).

   * A node is a [nat] standing for the identity of a Python object (hash/eq of reservoirpy nodes are by identity);
     an edge is a pair of nodes.  [PyEq] is Python's `==` on these values.
   * list  : [list A], left to right.  `l.append(x)` = [l ++ [x]];  `l.remove(x)` removes the FIRST occurrence and raises
     ValueError when there is none;  `l + m` = [l ++ m];  `len`.
   * set   : a duplicate-free [list A] in a representation order that carries NO meaning: the translator never lets that
     order out -- every conversion of a set into a sequence (`list(s)`, `deque(s)`, `for x in s`, a comprehension over s)
     is emitted as [ord k s] where [ord] is a parameter of the generated code (one site number [k] per place in the
     source) about which the theorems assume only [Permutation (ord k s) s].
     `set(l)` = [py_set l];  `a - b`, `a | b`, `a & b`;  `s.remove(x)` raises KeyError when x is absent;  `len`.
   * defaultdict(list) : association list key |-> list.  `d[k]` (read) returns the value, or [] for a missing key AND
     inserts the key ([dd_touch], emitted by the translator before the read);  `d[k] += l` = [dd_iadd];
     `d.get(k, dflt)` / `d.get(k)` never insert ([dd_get] / [dd_lookup], `is None` = [is_none]).
   * deque : [list A], left end first.  `d.pop()` takes the RIGHT end (IndexError when empty), `d.append(x)` adds at the
     right end, `d.popleft()` takes the left end, `d.appendleft(x)` adds at the left end.
   * a computation that may raise or loop is a [py A]: [Val a] normal completion, [Exc e] an exception left the function,
     [OutOfFuel] the artefact of cutting `while` after [fuel] iterations (proved unreachable for enough fuel).
     `for x in l: body` = [py_for] (left to right, an exception stops the loop);  `while c: body` = [py_while]. *)
From Coq Require Import List Arith Bool.
Import ListNotations.

Definition node := nat.
Definition edge := (node * node)%type.

Class PyEq (A : Type) := { py_eqb : A -> A -> bool; py_eqb_spec : forall a b, reflect (a = b) (py_eqb a b) }.

#[global] Instance PyEq_nat : PyEq nat := { py_eqb := Nat.eqb; py_eqb_spec := Nat.eqb_spec }.

Lemma pair_eqb_spec {A B} `{PyEq A} `{PyEq B} (a b : A * B) :
  reflect (a = b) (py_eqb (fst a) (fst b) && py_eqb (snd a) (snd b)).
Proof. destruct a as [a1 a2], b as [b1 b2]; simpl.
  destruct (py_eqb_spec a1 b1), (py_eqb_spec a2 b2); simpl; constructor; congruence. Qed.
#[global] Instance PyEq_pair {A B} `{PyEq A} `{PyEq B} : PyEq (A * B) :=
  { py_eqb := fun a b => py_eqb (fst a) (fst b) && py_eqb (snd a) (snd b); py_eqb_spec := pair_eqb_spec }.

(* ------------------------------------------------------------------ exceptions, loops *)
Inductive pyexc := RuntimeError | KeyError | ValueError | IndexError.
Inductive py (A : Type) := Val (a : A) | Exc (e : pyexc) | OutOfFuel.
Arguments Val {A} a. Arguments Exc {A} e. Arguments OutOfFuel {A}.

Definition py_bind {A B} (x : py A) (f : A -> py B) : py B :=
  match x with Val a => f a | Exc e => Exc e | OutOfFuel => OutOfFuel end.

Fixpoint py_for {A S} (l : list A) (body : S -> A -> py S) (s : S) : py S :=
  match l with
  | [] => Val s
  | x :: l' => match body s x with Val s' => py_for l' body s' | Exc e => Exc e | OutOfFuel => OutOfFuel end
  end.

Fixpoint py_while {S} (fuel : nat) (cond : S -> bool) (body : S -> py S) (s : S) : py S :=
  match fuel with
  | 0 => OutOfFuel
  | S f => if cond s
           then match body s with Val s' => py_while f cond body s' | Exc e => Exc e | OutOfFuel => OutOfFuel end
           else Val s
  end.

(* a loop whose body cannot raise *)
Definition pure_for {A S} (l : list A) (body : S -> A -> S) (s : S) : S := fold_left body l s.

Definition is_none {A} (o : option A) : bool := match o with None => true | Some _ => false end.

Section Coll.
Context {A : Type} `{PyEq A}.

Definition py_in (x : A) (l : list A) : bool := existsb (py_eqb x) l.

(* ------------------------------------------------------------------ list *)
Definition list_append (l : list A) (x : A) : list A := l ++ [x].
Fixpoint remove_first (x : A) (l : list A) : option (list A) :=
  match l with
  | [] => None
  | y :: l' => if py_eqb x y then Some l'
               else match remove_first x l' with Some r => Some (y :: r) | None => None end
  end.
Definition list_remove (x : A) (l : list A) : py (list A) :=
  match remove_first x l with Some r => Val r | None => Exc ValueError end.

(* ------------------------------------------------------------------ set *)
Fixpoint py_set (l : list A) : list A :=                       (* set(l): first occurrences kept *)
  match l with [] => [] | x :: l' => x :: filter (fun y => negb (py_eqb x y)) (py_set l') end.
Definition set_diff (a b : list A) : list A := filter (fun x => negb (py_in x b)) a.
Definition set_inter (a b : list A) : list A := filter (fun x => py_in x b) a.
Definition set_union (a b : list A) : list A := a ++ set_diff b a.
Definition set_remove (x : A) (s : list A) : py (list A) :=
  match remove_first x s with Some r => Val r | None => Exc KeyError end.

(* ------------------------------------------------------------------ deque *)
Definition deque_append (d : list A) (x : A) : list A := d ++ [x].
Definition deque_appendleft (d : list A) (x : A) : list A := x :: d.
Fixpoint pop_right (d : list A) : option (A * list A) :=
  match d with
  | [] => None
  | x :: d' => match pop_right d' with None => Some (x, []) | Some (y, r) => Some (y, x :: r) end
  end.
Definition deque_pop (d : list A) : py (A * list A) :=
  match pop_right d with Some p => Val p | None => Exc IndexError end.
Definition deque_popleft (d : list A) : py (A * list A) :=
  match d with x :: d' => Val (x, d') | [] => Exc IndexError end.
End Coll.

(* ------------------------------------------------------------------ defaultdict(list) *)
Section DD.
Context {K V : Type} `{PyEq K}.
Definition ddict := list (K * list V).

Fixpoint dd_lookup (d : ddict) (k : K) : option (list V) :=
  match d with [] => None | (k', v) :: d' => if py_eqb k k' then Some v else dd_lookup d' k end.
Fixpoint dd_set (d : ddict) (k : K) (v : list V) : ddict :=
  match d with
  | [] => [(k, v)]
  | (k', v') :: d' => if py_eqb k k' then (k', v) :: d' else (k', v') :: dd_set d' k v
  end.
Definition dd_get (d : ddict) (k : K) (dflt : list V) : list V :=
  match dd_lookup d k with Some v => v | None => dflt end.
Definition dd_getitem (d : ddict) (k : K) : list V := dd_get d k [].            (* value of `d[k]` *)
Definition dd_touch (d : ddict) (k : K) : ddict :=                             (* side effect of reading `d[k]` *)
  match dd_lookup d k with Some _ => d | None => dd_set d k [] end.
Definition dd_iadd (d : ddict) (k : K) (l : list V) : ddict := dd_set d k (dd_getitem d k ++ l).   (* d[k] += l *)
End DD.
Arguments ddict K V : clear implicits.
