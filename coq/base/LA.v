(* Executable linear algebra on lists (row-major matrices), polymorphic over Num.
   This file is the *meaning* given to the numpy operations used by reservoirpy. *)
From Coq Require Import List Bool Arith ZArith.
From RV Require Import base.Num.
Import ListNotations.

Section LA.
Context {F : Type} `{Num F}.

Notation vec := (list F).
Notation mat := (list (list F)).

Fixpoint dot (a b : vec) : F :=
  match a, b with
  | x :: a', y :: b' => nadd (nmul x y) (dot a' b')
  | _, _ => n0
  end.
Fixpoint vzip (f : F -> F -> F) (a b : vec) : vec :=
  match a, b with
  | x :: a', y :: b' => f x y :: vzip f a' b'
  | _, _ => []
  end.
Definition vadd := vzip nadd.
Definition vsub := vzip nsub.
Definition vmul := vzip nmul.           (* Hadamard *)
Definition vscale (c : F) (v : vec) : vec := map (nmul c) v.
Definition vopp (v : vec) : vec := map nopp v.
Definition vzeros (n : nat) : vec := repeat n0 n.
Definition vones (n : nat) : vec := repeat n1 n.
Fixpoint vsum (v : vec) : F := match v with [] => n0 | x :: v' => nadd x (vsum v') end.

(* matrix . column-vector : numpy  A @ v *)
Definition mv (A : mat) (v : vec) : vec := map (fun row => dot row v) A.
(* row-vector . matrix : numpy  v @ A   (= A^T v) *)
Fixpoint vm (v : vec) (A : mat) (ncols : nat) : vec :=
  match v, A with
  | x :: v', row :: A' => vadd (vscale x row) (vm v' A' ncols)
  | _, _ => vzeros ncols
  end.
Fixpoint transpose (A : mat) (ncols : nat) : mat :=
  match ncols with
  | O => []
  | S k => map (fun row => hd n0 row) A :: transpose (map (@tl F) A) k
  end.
Definition mm (A B : mat) (ncolsB : nat) : mat := map (fun row => vm row B ncolsB) A.
Definition madd (A B : mat) : mat := map (fun p => vadd (fst p) (snd p)) (combine A B).
Definition msub (A B : mat) : mat := map (fun p => vsub (fst p) (snd p)) (combine A B).
Definition mscale (c : F) (A : mat) : mat := map (vscale c) A.
Definition outer (u v : vec) : mat := map (fun x => vscale x v) u.
Definition mzeros (r c : nat) : mat := repeat (vzeros c) r.
Fixpoint unitv (n i : nat) : vec :=
  match n with
  | O => []
  | S k => match i with O => n1 :: vzeros k | S j => n0 :: unitv k j end
  end.
Definition eye (n : nat) : mat := map (unitv n) (seq 0 n).

Definition vget (v : vec) (i : nat) : F := nth i v n0.
Definition mget (A : mat) (i j : nat) : F := nth j (nth i A []) n0.

End LA.

(* ---- Gauss-Jordan solve over Q, used only by the runners (an executable stand-in for LAPACK) ---- *)
From Coq Require Import QArith.
Section Solve.
Definition qvec := list Q.
Definition qmat := list qvec.
Definition qnz (a : Q) : bool := negb (Qeq_bool a 0).
(* find first row (index >= 0 in the list) whose column c entry is non-zero; return it and the rest *)
Fixpoint pick_pivot (c : nat) (rows : list (qvec * qvec)) : option ((qvec * qvec) * list (qvec * qvec)) :=
  match rows with
  | [] => None
  | r :: rs => if qnz (nth c (fst r) 0%Q) then Some (r, rs)
               else match pick_pivot c rs with
                    | Some (p, rest) => Some (p, r :: rest)
                    | None => None
                    end
  end.
Definition qscale (c : Q) (v : qvec) : qvec := map (fun x => Qred (c * x)) v.
Definition qaxpy (c : Q) (x y : qvec) : qvec := (* y - c x *)
  map (fun p => Qred (snd p - c * fst p)) (combine x y).
(* augmented rows (a_i | b_i).  done: rows already pivoted (in pivot order), todo: remaining rows *)
Fixpoint gj (n c : nat) (done todo : list (qvec * qvec)) : option (list (qvec * qvec)) :=
  match n with
  | O => Some done
  | S k =>
    match pick_pivot c todo with
    | None => None
    | Some ((pa, pb), rest) =>
      let piv := nth c pa 0%Q in
      let pa' := qscale (/ piv) pa in
      let pb' := qscale (/ piv) pb in
      let elim := fun r : qvec * qvec =>
        let f := nth c (fst r) 0%Q in (qaxpy f pa' (fst r), qaxpy f pb' (snd r)) in
      gj k (S c) (map elim done ++ [(pa', pb')]) (map elim rest)
    end
  end.
(* solve A X = B ; A is n x n, B is n x m; result n x m *)
Definition qsolve (A B : qmat) : option qmat :=
  match gj (length A) 0 [] (combine A B) with
  | Some rows => Some (map snd rows)
  | None => None
  end.
End Solve.
