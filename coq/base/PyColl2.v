(* PyColl2 — second prelude of Python-collection vocabulary, for the translator tools/vlib/py2coq_staging.py (tie T of C06:
   get_offline_subgraphs, _get_required_nodes, _get_links of reservoirpy/utils/graphflow.py).  It EXTENDS base/PyColl.v (which is
   imported, not modified) and is TRUSTED in the same way: this file is the statement of what the extra constructs mean.
   Definitions only (lemmas: proofs/Gen_staging_eq.v).

   * Exceptions.  `for p in d.get(k)` raises TypeError when the key is absent ('NoneType' object is not iterable), which PyColl's
     exception type does not have: this file re-declares the result monad with one more exception.  The names [py], [Val],
     [Exc], [OutOfFuel], [py_bind], [py_for], [py_while] and the exception constructors below SHADOW those of PyColl in every
     file that imports PyColl2 after PyColl (the generated coq/gen/Gen_staging.v does).  Same meaning as in PyColl.
     [py_let x := t in b] is [py_bind t (fun x => b)].
   * [py_iter o]       : the sequence iterated by `for x in o` / a comprehension over o, for o = `d.get(k)`: TypeError on None.
   * [py_getitem l i]  : `l[i]` on a list for ANY Python int i (negative indices count from the end; IndexError outside
                         -len <= i < len).  Indices are computed in Z ([Z.of_nat] of a `range` variable, minus a constant), so
                         `l[i - 1]` with i = 0 IS `l[-1]`, as in Python.
   * [py_range a b]    : `range(a, b)` for naturals (empty when b <= a).
   * [set_add s x]     : `s.add(x)`; a set is a duplicate-free list (PyColl), a new element goes to the end -- the
                         representation order never escapes except through the [ord_n] / [ord_e] parameters.
   * [py_set_eqb a b]  : `a == b` on sets (mutual inclusion; both duplicate-free).
   * [py_all l]        : `all(l)` on a list of booleans.
   * `[e for x in it if c]` is [map (fun x => e) (filter (fun x => c) it)];  `list(zip(a, b))` is [combine a b];
     `l.copy()` is [list_copy l] = l (a functional value cannot be aliased).
   * node attributes `n.is_trained_offline` / `n.is_trained_online` are Section variables of the generated file (arbitrary
     predicates on nodes);  `n.name` is [node_name n]: names ARE node identities (a Model refuses two nodes with one name).
   * a plain `dict` keyed by names with list values (the `links` of _get_links) is an insertion-ordered association list:
     `{}` = [], `d[k] = v` = PyColl's [dd_set] (value replaced in place for a present key, appended otherwise). *)
From Coq Require Import List Arith Bool ZArith.
From RV Require Import base.PyColl.
Import ListNotations.

Inductive pyexc := RuntimeError | KeyError | ValueError | IndexError | TypeError.
Inductive py (A : Type) := Val (a : A) | Exc (e : pyexc) | OutOfFuel.
Arguments Val {A} a. Arguments Exc {A} e. Arguments OutOfFuel {A}.

Definition py_bind {A B} (x : py A) (f : A -> py B) : py B :=
  match x with Val a => f a | Exc e => Exc e | OutOfFuel => OutOfFuel end.
Notation "'py_let' x ':=' t 'in' b" := (py_bind t (fun x => b)) (at level 200, x name, b at level 200, only parsing).

Fixpoint py_for {A S} (l : list A) (body : S -> A -> py S) (s : S) : py S :=
  match l with
  | [] => Val s
  | x :: l' => match body s x with Val s' => py_for l' body s' | Exc e => Exc e | OutOfFuel => OutOfFuel end
  end.

Fixpoint py_while {S} (fuel : nat) (cond : S -> bool) (body : S -> py S) (s : S) : py S :=
  match fuel with
  | 0 => OutOfFuel
  | S f => if cond s
           then match body s with Val s' => py_while f cond body s' | Exc e => Exc e | OutOfFuel => OutOfFuel end
           else Val s
  end.

Definition py_iter {A} (o : option (list A)) : py (list A) :=
  match o with Some l => Val l | None => Exc TypeError end.

Definition py_getitem {A} (l : list A) (i : Z) : py A :=
  let n := Z.of_nat (length l) in
  let j := if (i <? 0)%Z then (n + i)%Z else i in
  if ((0 <=? j)%Z && (j <? n)%Z)%bool
  then match nth_error l (Z.to_nat j) with Some a => Val a | None => Exc IndexError end
  else Exc IndexError.

Definition py_range (a b : nat) : list nat := seq a (b - a).
Definition py_all (l : list bool) : bool := forallb (fun b => b) l.
Definition list_copy {A} (l : list A) : list A := l.
Definition node_name (n : node) : node := n.

Section Coll2.
Context {A : Type} `{PyEq A}.
Definition set_add (s : list A) (x : A) : list A := if py_in x s then s else s ++ [x].
Definition py_set_eqb (a b : list A) : bool := forallb (fun x => py_in x b) a && forallb (fun x => py_in x a) b.
End Coll2.
