(* Finite sums over nat indices at R, and the bridge from the list-level linear algebra of LA.v
   (instantiated at R) to index-level formulas.  Proof pattern: expand the summand point-wise with
   [apply bsum_ext; intros; ring], push sums out with [rewrite !bsum_plus, !bsum_scal], fold, finish with field/nra. *)
From Coq Require Import Reals Lra Lia Arith List.
From RV Require Import base.Num base.LA.
Import ListNotations.
Open Scope R_scope.

Fixpoint bsum (n : nat) (f : nat -> R) : R := match n with O => 0 | S k => bsum k f + f k end.

Lemma bsum_ext n f g : (forall i, (i < n)%nat -> f i = g i) -> bsum n f = bsum n g.
Proof. induction n; intros H; simpl; [reflexivity|]. rewrite IHn, H; auto. Qed.
Lemma bsum_0 n : bsum n (fun _ => 0) = 0.
Proof. induction n; simpl; lra. Qed.
Lemma bsum_plus n f g : bsum n (fun i => f i + g i) = bsum n f + bsum n g.
Proof. induction n; simpl; [lra| rewrite IHn; lra]. Qed.
Lemma bsum_minus n f g : bsum n (fun i => f i - g i) = bsum n f - bsum n g.
Proof. induction n; simpl; [lra| rewrite IHn; lra]. Qed.
Lemma bsum_scal n c f : bsum n (fun i => c * f i) = c * bsum n f.
Proof. induction n; simpl; [lra| rewrite IHn; lra]. Qed.
Lemma bsum_scal_r n c f : bsum n (fun i => f i * c) = bsum n f * c.
Proof. induction n; simpl; [lra| rewrite IHn; lra]. Qed.
Lemma bsum_opp n f : bsum n (fun i => - f i) = - bsum n f.
Proof. induction n; simpl; [lra| rewrite IHn; lra]. Qed.
Lemma bsum_swap n m (f : nat -> nat -> R) :
  bsum n (fun i => bsum m (fun j => f i j)) = bsum m (fun j => bsum n (fun i => f i j)).
Proof. induction n; simpl. - induction m; simpl; lra. - rewrite IHn, <- bsum_plus. reflexivity. Qed.
Lemma bsum_ge0 n f : (forall i, (i < n)%nat -> 0 <= f i) -> 0 <= bsum n f.
Proof. induction n; intros Hf; simpl; [lra|]. assert (0 <= f n) by (apply Hf; lia).
  assert (0 <= bsum n f) by (apply IHn; intros; apply Hf; lia). lra. Qed.
Lemma bsum_le n f g : (forall i, (i < n)%nat -> f i <= g i) -> bsum n f <= bsum n g.
Proof. induction n; intros Hf; simpl; [lra|]. assert (f n <= g n) by (apply Hf; lia).
  assert (bsum n f <= bsum n g) by (apply IHn; intros; apply Hf; lia). lra. Qed.
Lemma bsum_sq_ge0 n f : 0 <= bsum n (fun i => f i * f i).
Proof. induction n; simpl; [lra| nra]. Qed.
Lemma bsum_sq_0 n f : bsum n (fun i => f i * f i) = 0 -> forall i, (i < n)%nat -> f i = 0.
Proof. induction n; intros H i Hi; [lia|]. simpl in H. pose proof (bsum_sq_ge0 n f).
  assert (f n * f n = 0 /\ bsum n (fun i => f i * f i) = 0) as [H1 H2] by nra.
  destruct (Nat.eq_dec i n) as [->|]; [nra| apply IHn; auto; lia]. Qed.
Lemma bsum_shift n f : bsum (S n) f = f O + bsum n (fun i => f (S i)).
Proof. induction n; simpl in *; [lra|]. rewrite IHn. lra. Qed.
(* Kronecker delta *)
Lemma bsum_delta n f j : (j < n)%nat -> bsum n (fun i => f i * (if Nat.eqb i j then 1 else 0)) = f j.
Proof.
  induction n; intros Hj; [lia|]. simpl. destruct (Nat.eqb_spec n j) as [->|Hne].
  - rewrite (bsum_ext j _ (fun _ => 0)). 2:{ intros i Hi. destruct (Nat.eqb_spec i j); [lia|ring]. }
    rewrite bsum_0. ring.
  - rewrite IHn by lia. ring.
Qed.
(* Cauchy-Schwarz *)
Lemma cs_step (A B C P Q : R) : 0 <= A -> 0 <= B -> C * C <= A * B ->
  (C + P * Q) * (C + P * Q) <= (A + P * P) * (B + Q * Q).
Proof.
  intros HA HB HC.
  set (x := 2 * C * (P * Q)). set (y := A * (Q * Q) + B * (P * P)).
  assert (Hy : 0 <= y) by (unfold y; nra).
  assert (Hsq : x * x <= y * y).
  { assert (H1 : 0 <= (P * Q) * (P * Q)) by nra.
    assert (H2 : (C * C) * ((P * Q) * (P * Q)) <= (A * B) * ((P * Q) * (P * Q))) by (apply Rmult_le_compat_r; assumption).
    pose proof (Rle_0_sqr (A * (Q * Q) - B * (P * P))) as H3; unfold Rsqr in H3.
    assert (E : y * y - x * x = (A * (Q * Q) - B * (P * P)) * (A * (Q * Q) - B * (P * P))
                 + 4 * ((A * B) * ((P * Q) * (P * Q)) - (C * C) * ((P * Q) * (P * Q)))) by (unfold x, y; ring).
    lra. }
  assert (Hxy : x <= y).
  { destruct (Rle_dec x y) as [|Hn]; [assumption|]. exfalso. apply Rnot_le_lt in Hn.
    assert (0 < (x - y) * (x + y)) by (apply Rmult_lt_0_compat; lra). nra. }
  unfold x, y in Hxy. nra.
Qed.
Lemma bsum_cauchy_schwarz n f g :
  (bsum n (fun i => f i * g i)) * (bsum n (fun i => f i * g i)) <=
  bsum n (fun i => f i * f i) * bsum n (fun i => g i * g i).
Proof.
  induction n; simpl; [lra|].
  apply cs_step; [apply bsum_sq_ge0|apply bsum_sq_ge0|assumption].
Qed.

(* ---- bridge: list-level LA at R  <->  index-level sums ---- *)
Lemma dot_bsum (a b : list R) : forall n, length a = n -> length b = n ->
  dot a b = bsum n (fun i => nth i a 0 * nth i b 0).
Proof.
  revert b; induction a as [|x a IH]; intros [|y b] n Ha Hb; simpl in *; subst; try discriminate; [reflexivity|].
  rewrite bsum_shift. simpl. rewrite (IH b (length a)) by (auto; lia). reflexivity.
Qed.
Lemma nth_map_R {A} (f : A -> R) (l : list A) i d : (i < length l)%nat -> nth i (map f l) 0 = f (nth i l d).
Proof. revert i; induction l; intros [|i] Hi; simpl in *; try lia; auto. apply IHl. lia. Qed.
Lemma nth_mv (A : list (list R)) (v : list R) i : (i < length A)%nat ->
  nth i (mv A v) 0 = dot (nth i A []) v.
Proof. intros Hi. unfold mv. exact (nth_map_R (fun row => dot row v) A i [] Hi). Qed.
Lemma nth_vzip (f : R -> R -> R) : forall (a b : list R) i, length a = length b -> (i < length a)%nat ->
  nth i (vzip f a b) 0 = f (nth i a 0) (nth i b 0).
Proof. induction a as [|x a IH]; intros [|y b] i Hl Hi; simpl in *; try lia.
  destruct i; [reflexivity| apply IH; lia]. Qed.
Lemma length_vzip (f : R -> R -> R) : forall (a b : list R), length a = length b -> length (vzip f a b) = length a.
Proof. induction a as [|x a IH]; intros [|y b] Hl; simpl in *; try lia. rewrite IH; lia. Qed.
Lemma length_mv (A : list (list R)) v : length (mv A v) = length A.
Proof. unfold mv. apply map_length. Qed.
