(* Vocabulary added for the translation of reservoirpy/ops.py :: merge (tools/vlib/py2coq_ops.py; trusted, like base/PyColl.v).
   * [py4] : the result of a function that may also raise TypeError ([PyColl.pyexc] has no TypeError and is not changed):
     [Val4 a] | [Exc4 TypeError] | [Exc4 (Py e)] for an exception e of PyColl.  No while loop, hence no OutOfFuel.
   * [operand] : one element of a `*models` argument: an object ([ONode n], n the identity of the Python object, whatever
     its class) or a list / tuple of objects ([OSeq l]).  `if isinstance(m, (list, tuple)): ops.extend(m) else: ops.append(m)`
     is [ops ++ opnd_flat m].
   * [mres] : what `merge` returns: [MNew V E] = `Model(nodes=V, edges=E, name=name)` (a NEW Model built from the two
     lists), [MUpdate m V E] = `m.update_graph(V, E)` (V, E the two Python sets handed over: duplicate-free lists whose
     order means nothing).  Model.__init__ / Model.update_graph themselves are NOT translated (hand model Graph.mk_model /
     Graph.update_graph, tie H). *)
From Coq Require Import List.
From RV Require Import base.PyColl.
Import ListNotations.

Inductive pyexc4 := TypeError | Py (e : pyexc).
Inductive py4 (A : Type) := Val4 (a : A) | Exc4 (e : pyexc4).
Arguments Val4 {A} a. Arguments Exc4 {A} e.

Definition py4_bind {A B} (x : py4 A) (f : A -> py4 B) : py4 B :=
  match x with Val4 a => f a | Exc4 e => Exc4 e end.

Fixpoint py4_for {A S} (l : list A) (body : S -> A -> py4 S) (s : S) : py4 S :=
  match l with
  | [] => Val4 s
  | x :: l' => match body s x with Val4 s' => py4_for l' body s' | Exc4 e => Exc4 e end
  end.

Inductive operand := ONode (n : node) | OSeq (l : list node).
Definition opnd_flat (o : operand) : list node := match o with ONode n => [n] | OSeq l => l end.

Inductive mres := MNew (V : list node) (E : list edge) | MUpdate (m : node) (V : list node) (E : list edge).

(* Added for the translation of reservoirpy/ops.py :: link (py2coq_ops v3).
   * [py4_lift] : a call, from a py4 function, of a callee translated over [py] (`_link_1to1`): its exceptions become [Py e].
     The translator lifts only callees translated WITHOUT fuel (no `while`), which never yield [OutOfFuel]
     (proofs/Gen_ops_eq.v: gen_link_1to1_is_model shows the only results are Val / Exc ValueError); the [OutOfFuel] line is
     there only to make the function total.
   * the parameters of `link` are [operand]s too: `isinstance(x, Sequence)` / `isinstance(x, Iterable)` holds exactly for
     [OSeq l] (a list / tuple of objects; a str or any other Sequence / Iterable argument is outside the representation). *)
Definition py4_lift {A} (x : py A) : py4 A :=
  match x with Val a => Val4 a | Exc e => Exc4 (Py e) | OutOfFuel => Exc4 (Py RuntimeError) end.
