(* RunPrelude — the Python vocabulary added by the code GENERATED from the RUN LOOPS of reservoirpy
   (tools/vlib/py2coq_run.py -> coq/gen/Gen_run.v, tie (T) of property C07):
       reservoirpy/node.py    Node.run
   on top of base/CtxPrelude.v (a computation is heap -> heap * outcome A; the heap survives a raise).

   This file is trusted as the MEANING of that vocabulary and is written independently of the hand model: it imports only
   base/Num.v, base/LA.v (the zero vector) and base/CtxPrelude.v.  Definitions only, no proofs.

   The trusted part, in one paragraph.  `for i in range(T): BODY` where BODY rebinds / updates in place ONE local array `acc`
   that exists before the loop is a left-to-right fold that threads the world and `acc` and stops at the first raise
   ([py_for_acc]; `progress(it, ..)` is the identity on the iteration -- pinned textually by the translator).
   `np.zeros((T, n))` is T rows of n zeros ([np_zeros_2d]); `a[i, :] = s` for a (T, n) array `a`, 0 <= i < T and a (1, n) array s
   replaces row i and nothing else ([mat_set_row]; the translator accepts only the loop variable of `range(T)` as the index, so
   negative / out-of-range indices never reach it; a row of another width is a numpy broadcasting error that is NOT modelled:
   widths are C12's subject).  The checked input `X_` returned by check_xy is an abstract datum of which the generated code
   only uses `isinstance(X_, np.ndarray)`, `isinstance(X_, (list, tuple))`, `X_.shape[0]` / `X_[0].shape[0]` and the
   step extractions `np.atleast_2d(X_[i])` / `[np.atleast_2d(Xi[i]) for Xi in X_]`: those are `Section` functions of Gen_run.v. *)
From Coq Require Import List Arith Bool.
From RV Require Import base.Num base.LA base.CtxPrelude.
Import ListNotations.

(* for x in l: acc = f x acc   (stops at the first raise; what was assigned to the world before it stays assigned) *)
Fixpoint py_for_acc {S B C : Type} (l : list B) (f : B -> C -> M S C) (acc : C) : M S C :=
  match l with
  | [] => ret acc
  | x :: rest => bind (f x acc) (fun acc' => py_for_acc rest f acc')
  end.

(* range(n) *)
Definition py_range (n : nat) : list nat := seq 0 n.

(* np.zeros((T, n)) *)
Definition np_zeros_2d {F : Type} `{Num F} (T n : nat) : list (list F) := repeat (vzeros n) T.

(* a[i, :] = s *)
Fixpoint mat_set_row {F : Type} (a : list (list F)) (i : nat) (s : list F) : list (list F) :=
  match a, i with
  | [], _ => []
  | _ :: rest, 0 => s :: rest
  | r :: rest, S j => r :: mat_set_row rest j s
  end.
