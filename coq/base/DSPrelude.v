(* Vocabulary of the GENERATED dataset helpers (coq/gen/Gen_datasets.v, tools/vlib/py2coq_ds.py): the meaning given to the
   Python / numpy constructs that reservoirpy/datasets/__init__.py::to_forecasting and datasets/_utils.py::one_hot_encode use.
   Written from the Python / numpy reference semantics, NOT from model/Datasets.v (the equalities between the two are
   proved in proofs/Gen_datasets_eq.v).  Definitions only, no proofs.  TRUSTED for exactly this: each definition below is what
   the Python expression quoted above it computes.

   Representation.  An array is seen along its first axis: a time-major series is a `list row` for any type `row` of what lies
   behind the time axis (a number, a vector, ...).  Python ints are `Z` (lengths and `forecast` are `nat`, injected with
   Z.of_nat where Python does signed arithmetic on them); a Python float that is only multiplied and rounded is its exact
   rational value (`Q`).  A function that may `raise` returns an `option` (None = the exception). *)
From Coq Require Import List Arith Bool ZArith QArith Qround.
From RV Require Import base.Num base.LA.
Import ListNotations.
Close Scope Q_scope.

(* sequencing of statements one of which may raise *)
Definition py_bind {X Y : Type} (o : option X) (f : X -> option Y) : option Y :=
  match o with Some x => f x | None => None end.

(* ------------------------------------------------------------------------------------------------ a[lo:hi] *)
Section PySlice.
Context {B : Type}.
(* Python's normalisation of ONE slice bound b against a sequence of length n (step 1):
     b < 0  ->  max(b + n, 0)          b >= 0  ->  min(b, n)
   so  -0 = 0  is the bound 0:  a[:-0] = a[:0] is empty and a[-0:] = a[0:] is everything. *)
Definition py_bound (n : nat) (b : Z) : nat :=
  if (b <? 0)%Z then Z.to_nat (Z.max 0 (b + Z.of_nat n)) else Nat.min (Z.to_nat b) n.
(* a[lo:hi]; an omitted bound is None (start: 0, stop: len(a)); empty when stop <= start *)
Definition py_slice (lo hi : option Z) (a : list B) : list B :=
  let n := length a in
  let start := match lo with None => 0 | Some b => py_bound n b end in
  let stop := match hi with None => n | Some b => py_bound n b end in
  firstn (stop - start) (skipn start a).
End PySlice.

(* ------------------------------------------------------------------------------------------------ test_size *)
(* the argument  test_size : Optional[Union[int, float]]  (np.integer values are ints) *)
Inductive py_arg := PyNone | PyInt (k : Z) | PyFloat (x : Q).
(* `a is None`, `isinstance(a, float)`, `isinstance(a, (int, np.integer))` *)
Definition py_is_none (a : py_arg) : bool := match a with PyNone => true | _ => false end.
Definition py_is_float (a : py_arg) : bool := match a with PyFloat _ => true | _ => false end.
Definition py_is_int (a : py_arg) : bool := match a with PyInt _ => true | _ => false end.
(* the number itself; the translator only emits these where an isinstance test has established the constructor *)
Definition py_float_val (a : py_arg) : Q := match a with PyFloat x => x | PyInt k => inject_Z k | PyNone => 0%Q end.
Definition py_int_val (a : py_arg) : Z := match a with PyInt k => k | _ => 0%Z end.

(* a < b on rationals (Coq's library has only Qle_bool) *)
Definition Qltb (a b : Q) : bool := negb (Qle_bool b a).
(* round(x) with one argument: nearest integer, ties to the even one *)
Definition py_round (x : Q) : Z :=
  let f := Qfloor x in
  match Qcompare (x + x) (inject_Z (2 * f + 1)) with       (* x ? f + 1/2 *)
  | Lt => f
  | Gt => (f + 1)%Z
  | Eq => if Z.even f then f else (f + 1)%Z
  end.
(* int(x) on a float: truncation towards zero *)
Definition py_trunc (x : Q) : Z := if Qle_bool 0 x then Qfloor x else Qceiling x.

(* ------------------------------------------------------------------------------------------------ np.moveaxis *)
(* np.moveaxis(a, axis, 0) brings the time axis first; np.moveaxis(p, 0, axis) puts it back.  `axis` is a parameter of the
   generated function through this record; the two instances are the two cases model/Datasets.v covers.  A list of rows that
   has NO row has forgotten how long its rows were (numpy has not: shapes are stored), so the way back is given the original
   array, from which the length of the non-time axis is read; slicing along the time axis never changes that length. *)
Record axis_view (arr row : Type) := {
  mv_in : arr -> list row;               (* np.moveaxis(a, axis, 0)                          *)
  mv_out : arr -> list row -> arr        (* np.moveaxis(p, 0, axis), p a time-slice of mv_in a *)
}.
Arguments mv_in {arr row}.
Arguments mv_out {arr row}.
(* axis = 0, any number of dimensions: both moves are the identity *)
Definition axis0_view (row : Type) : axis_view (list row) row :=
  {| mv_in := fun a => a; mv_out := fun _ p => p |}.
(* axis = 1 of a 2-D array (R, T): both moves are the transposition (T rows of length R, and back) *)
Definition axis1_view (F : Type) `{Num F} : axis_view (list (list F)) (list F) :=
  {| mv_in := fun a => transpose a (length (hd [] a));
     mv_out := fun a p => transpose p (length a) |}.

(* ------------------------------------------------------------------------------------------------ label arrays *)
(* an ndarray with 1 or 2 axes (also: a Python list of scalars, which np.array turns into the 1-axis case) *)
Inductive ndarr (B : Type) := A1 (l : list B) | A2 (rows : list (list B)).
Arguments A1 {B}.
Arguments A2 {B}.

Section NdArr.
Context {B : Type}.
(* y.ndim *)
Definition nd_ndim (y : ndarr B) : nat := match y with A1 _ => 1 | A2 _ => 2 end.
(* y.shape[-1] *)
Definition nd_shape_last (y : ndarr B) : nat := match y with A1 l => length l | A2 rows => length (hd [] rows) end.
(* y.reshape(y.shape[:-1]): legal exactly when the last axis has length 1 (same number of elements); C order *)
Definition nd_reshape_drop_last (y : ndarr B) : option (ndarr B) :=
  match y with
  | A1 _ => None
  | A2 rows => if length (hd [] rows) =? 1 then Some (A1 (concat rows)) else None
  end.
(* the elements in C order (what np.unique / ravel see) *)
Definition nd_flat (y : ndarr B) : list B := match y with A1 l => l | A2 rows => concat rows end.
(* flat.reshape((n, m)): n consecutive chunks of m *)
Fixpoint chunks {C : Type} (n m : nat) (flat : list C) : list (list C) :=
  match n with O => [] | S k => firstn m flat :: chunks k m (skipn m flat) end.
(* flat.reshape(y.shape) *)
Definition nd_reshape_like {C : Type} (y : ndarr B) (flat : list C) : ndarr C :=
  match y with A1 _ => A1 flat | A2 rows => A2 (chunks (length rows) (length (hd [] rows)) flat) end.
(* table[idx] with an integer index array: one row of `table` per index, in the shape of idx (indices are in range here:
   they come from np.unique's inverse) *)
Definition nd_take (table : list (list B)) (idx : ndarr nat) : ndarr (list B) :=
  match idx with
  | A1 l => A1 (map (fun i => nth i table []) l)
  | A2 rows => A2 (map (map (fun i => nth i table [])) rows)
  end.
(* np.concatenate(list of 1-axis arrays) *)
Definition np_concatenate (seqs : list (list B)) : ndarr B := A1 (concat seqs).
(* a[lo:hi] for 0 <= lo, hi given as nats *)
Definition nat_slice {C : Type} (lo : nat) (hi : option nat) (a : list C) : list C :=
  py_slice (Some (Z.of_nat lo)) (option_map Z.of_nat hi) a.
(* np.split(a, [i1; ...; ik]) along axis 0:  a[:i1], a[i1:i2], ..., a[ik:] *)
Fixpoint np_split_from {C : Type} (prev : nat) (idx : list nat) (a : list C) : list (list C) :=
  match idx with
  | [] => [nat_slice prev None a]
  | i :: idx' => nat_slice prev (Some i) a :: np_split_from i idx' a
  end.
Definition nd_split (a : ndarr B) (idx : list nat) : list (ndarr B) :=
  match a with
  | A1 l => map A1 (np_split_from 0 idx l)
  | A2 rows => map A2 (np_split_from 0 idx rows)
  end.
End NdArr.

(* np.cumsum on a list of ints *)
Fixpoint np_cumsum_from (acc : nat) (l : list nat) : list nat :=
  match l with [] => [] | x :: l' => (acc + x) :: np_cumsum_from (acc + x) l' end.
Definition np_cumsum (l : list nat) : list nat := np_cumsum_from 0 l.

(* np.unique(y, return_inverse=True) for labels ordered by `leb` (numpy's sort order on the dtype): the sorted duplicate-free
   array of the values, and for every element (C order) the position of its value in that array *)
Section NpUnique.
Context {A : Type} (leb : A -> A -> bool).
Definition lab_eqb (a b : A) : bool := leb a b && leb b a.
(* a at its place in a sorted list *)
Fixpoint insert_sorted (a : A) (s : list A) : list A :=
  match s with [] => [a] | b :: s' => if leb a b then a :: s else b :: insert_sorted a s' end.
(* the values seen so far, sorted, each once *)
Definition np_unique (l : list A) : list A :=
  fold_right (fun a seen => if existsb (lab_eqb a) seen then seen else insert_sorted a seen) [] l.
(* position of the first entry equal to a *)
Fixpoint position (a : A) (s : list A) : nat :=
  match s with [] => 0 | b :: s' => if lab_eqb a b then 0 else S (position a s') end.
Definition np_unique_inverse (y : ndarr A) : list A * list nat :=
  let flat := nd_flat y in
  let classes := np_unique flat in
  (classes, map (fun a => position a classes) flat).
End NpUnique.
