(* Homomorphisms of the [Num] class, and the fact that [Q2R] is one.

   Every model function of this development is ONE Gallina term over [Num F]; it is proved about at [F := R] and executed
   at [F := Q] (with [Qred] after every operation).  This file closes the gap between the two instances by proof:

   1. [NumHom phi]: [phi : F -> G] commutes with every operation of the class and preserves both boolean comparisons.
   2. [Q2R_hom : NumHom Q2R]: the embedding of the rationals is one.  Division needs NO side condition: [Qinv 0 = 0] in Q
      and [/ 0 = 0] in Coq 8.16's reals ([Rinv_0]), so the two instances agree on x/0 too.
   3. Every operation of base/LA.v and base/GenPrelude.v commutes with the entry-wise embedding
      [ev := map phi] / [em := map (map phi)], for any [NumHom] -- plain list inductions, NO shape hypothesis anywhere.

   All results are Leibniz equalities in the target ([Q2R (op_Q x) = op_R (Q2R x)]), not setoid equalities.
   The per-property consequences (C01, C10, C04, C17) are in proofs/QR_bridge_*.v. *)
From Coq Require Import Reals QArith Qreals Qabs ZArith Bool List Lra.
From Coq Require Import micromega.RMicromega.
From RV Require Import base.Num base.LA base.GenPrelude.
Import ListNotations.
Close Scope Q_scope.

Class NumHom {F G : Type} {NF : Num F} {NG : Num G} (phi : F -> G) : Prop := {
  hom_0   : phi n0 = n0;
  hom_1   : phi n1 = n1;
  hom_add : forall a b, phi (nadd a b) = nadd (phi a) (phi b);
  hom_sub : forall a b, phi (nsub a b) = nsub (phi a) (phi b);
  hom_mul : forall a b, phi (nmul a b) = nmul (phi a) (phi b);
  hom_div : forall a b, phi (ndiv a b) = ndiv (phi a) (phi b);
  hom_opp : forall a, phi (nopp a) = nopp (phi a);
  hom_ltb : forall a b, nltb a b = nltb (phi a) (phi b);
  hom_leb : forall a b, nleb a b = nleb (phi a) (phi b);
  hom_ofZ : forall z, phi (nofZ z) = nofZ z
}.

Arguments hom_0 {F G NF NG} phi {_}.
Arguments hom_1 {F G NF NG} phi {_}.
Arguments hom_add {F G NF NG} phi {_} a b.
Arguments hom_sub {F G NF NG} phi {_} a b.
Arguments hom_mul {F G NF NG} phi {_} a b.
Arguments hom_div {F G NF NG} phi {_} a b.
Arguments hom_opp {F G NF NG} phi {_} a.
Arguments hom_ltb {F G NF NG} phi {_} a b.
Arguments hom_leb {F G NF NG} phi {_} a b.
Arguments hom_ofZ {F G NF NG} phi {_} z.

(* ------------------------------------------------------------------ Q2R is a homomorphism of the class *)
Lemma Q2R_Qred (q : Q) : Q2R (Qred q) = Q2R q.
Proof. apply Qeq_eqR, Qred_correct. Qed.

Lemma Q2R_n0 : Q2R n0 = n0.
Proof. cbn. unfold Q2R. cbn. lra. Qed.
Lemma Q2R_n1 : Q2R n1 = n1.
Proof. cbn. unfold Q2R. cbn. lra. Qed.
Lemma Q2R_nadd (a b : Q) : Q2R (nadd a b) = nadd (Q2R a) (Q2R b).
Proof. change (Q2R (Qred (a + b)) = (Q2R a + Q2R b)%R). rewrite Q2R_Qred. apply Q2R_plus. Qed.
Lemma Q2R_nsub (a b : Q) : Q2R (nsub a b) = nsub (Q2R a) (Q2R b).
Proof. change (Q2R (Qred (a - b)) = (Q2R a - Q2R b)%R). rewrite Q2R_Qred. apply Q2R_minus. Qed.
Lemma Q2R_nmul (a b : Q) : Q2R (nmul a b) = nmul (Q2R a) (Q2R b).
Proof. change (Q2R (Qred (a * b)) = (Q2R a * Q2R b)%R). rewrite Q2R_Qred. apply Q2R_mult. Qed.
Lemma Q2R_nopp (a : Q) : Q2R (nopp a) = nopp (Q2R a).
Proof. change (Q2R (- a) = (- Q2R a)%R). apply Q2R_opp. Qed.
(* total inverse: both sides are 0 at 0 *)
Lemma Q2R_inv_total (b : Q) : Q2R (/ b)%Q = (/ Q2R b)%R.
Proof.
  rewrite Q2R_inv_ext. destruct (Qeq_bool b 0) eqn:E; [|reflexivity].
  apply Qeq_bool_eq in E. rewrite (Qeq_eqR _ _ E). change (Q2R 0) with (Q2R n0). rewrite Q2R_n0. cbn. symmetry. apply Rinv_0.
Qed.
Lemma Q2R_ndiv (a b : Q) : Q2R (ndiv a b) = ndiv (Q2R a) (Q2R b).
Proof. change (Q2R (Qred (a / b)) = (Q2R a / Q2R b)%R). rewrite Q2R_Qred. unfold Qdiv, Rdiv. rewrite Q2R_mult, Q2R_inv_total. reflexivity. Qed.
Lemma Q2R_nofZ (z : Z) : Q2R (nofZ z) = nofZ z.
Proof. change (Q2R (inject_Z z) = IZR z). unfold Q2R, inject_Z. simpl Qnum. simpl Qden. lra. Qed.
Lemma Q2R_nleb (a b : Q) : nleb a b = nleb (Q2R a) (Q2R b).
Proof.
  cbn. destruct (Rle_dec (Q2R a) (Q2R b)) as [L|L].
  - apply Qle_bool_iff, Rle_Qle, L.
  - destruct (Qle_bool a b) eqn:E; [|reflexivity]. exfalso. apply L, Qle_Rle, Qle_bool_iff, E.
Qed.
Lemma Q2R_nltb (a b : Q) : nltb a b = nltb (Q2R a) (Q2R b).
Proof.
  cbn. destruct (Rlt_dec (Q2R a) (Q2R b)) as [L|L].
  - destruct (Qle_bool b a) eqn:E; [|reflexivity]. exfalso.
    apply Qle_bool_iff, Qle_Rle in E. apply (Rlt_irrefl (Q2R a)). eapply Rlt_le_trans; eassumption.
  - apply Rnot_lt_le, Rle_Qle, Qle_bool_iff in L. rewrite L. reflexivity.
Qed.

#[export] Instance Q2R_hom : NumHom Q2R := {
  hom_0 := Q2R_n0; hom_1 := Q2R_n1; hom_add := Q2R_nadd; hom_sub := Q2R_nsub; hom_mul := Q2R_nmul; hom_div := Q2R_ndiv;
  hom_opp := Q2R_nopp; hom_ltb := Q2R_nltb; hom_leb := Q2R_nleb; hom_ofZ := Q2R_nofZ
}.

(* the embedding is injective: distinct normal forms that denote the same rational are identified, nothing else *)
Lemma Q2R_inj_Qeq (a b : Q) : Q2R a = Q2R b -> (a == b)%Q.
Proof. apply eqR_Qeq. Qed.

(* [nabs] of GenPrelude at R is the real absolute value, and Q's [Qabs] embeds onto it *)
Lemma nabs_R_Rabs (x : R) : nabs x = Rabs x.
Proof.
  unfold nabs. cbn. destruct (Rlt_dec x 0) as [L|L].
  - symmetry. apply Rabs_left, L.
  - symmetry. apply Rabs_right. apply Rle_ge, Rnot_lt_le, L.
Qed.

(* ------------------------------------------------------------------ generic lifting to lists of lists *)
(* list facts missing from 8.16's List *)
Lemma map_repeat' {A B} (f : A -> B) (a : A) n : map f (repeat a n) = repeat (f a) n.
Proof. induction n; cbn; congruence. Qed.
Lemma map_removelast {A B} (f : A -> B) (l : list A) : map f (removelast l) = removelast (map f l).
Proof. induction l as [|a [|b l] IH]; cbn in *; congruence. Qed.
Lemma map_last_dflt {A B} (f : A -> B) (l : list A) (d : A) : f (last l d) = last (map f l) (f d).
Proof. induction l as [|a [|b l] IH]; cbn in *; congruence. Qed.
Lemma map_hd {A B} (f : A -> B) (l : list A) (d : A) : f (hd d l) = hd (f d) (map f l).
Proof. destruct l; reflexivity. Qed.
Lemma map_tl {A B} (f : A -> B) (l : list A) : map f (tl l) = tl (map f l).
Proof. destruct l; reflexivity. Qed.

Section Lift.
Context {F G : Type} {NF : Num F} {NG : Num G} (phi : F -> G) {HH : NumHom phi}.
Local Notation ev := (map phi).
Local Notation em := (map (map phi)).

Lemma hom_nabs (x : F) : phi (nabs x) = nabs (phi x).
Proof. unfold nabs. rewrite (hom_ltb phi x n0), (hom_0 phi). destruct (nltb (phi x) n0); [apply (hom_opp phi) | reflexivity]. Qed.

Lemma ev_length (v : list F) : length (ev v) = length v.          Proof. apply map_length. Qed.
Lemma em_length (A : list (list F)) : length (em A) = length A.   Proof. apply map_length. Qed.
Lemma ev_nil : ev [] = [].                                        Proof. reflexivity. Qed.

Lemma ev_vzip (f : F -> F -> F) (g : G -> G -> G) : (forall x y, phi (f x y) = g (phi x) (phi y)) ->
  forall a b, ev (vzip f a b) = vzip g (ev a) (ev b).
Proof. intros E. induction a as [|x a IH]; intros [|y b]; cbn; try reflexivity. rewrite E, IH. reflexivity. Qed.
Lemma ev_vadd a b : ev (vadd a b) = vadd (ev a) (ev b).   Proof. apply ev_vzip, (hom_add phi). Qed.
Lemma ev_vsub a b : ev (vsub a b) = vsub (ev a) (ev b).   Proof. apply ev_vzip, (hom_sub phi). Qed.
Lemma ev_vmul a b : ev (vmul a b) = vmul (ev a) (ev b).   Proof. apply ev_vzip, (hom_mul phi). Qed.
Lemma ev_vdiv a b : ev (vdiv a b) = vdiv (ev a) (ev b).   Proof. apply ev_vzip, (hom_div phi). Qed.
Lemma ev_dot a b : phi (dot a b) = dot (ev a) (ev b).
Proof. revert b. induction a as [|x a IH]; intros [|y b]; cbn; try apply (hom_0 phi). rewrite (hom_add phi), (hom_mul phi), IH. reflexivity. Qed.
Lemma ev_vscale c v : ev (vscale c v) = vscale (phi c) (ev v).
Proof. unfold vscale. rewrite !map_map. apply map_ext. intros; apply (hom_mul phi). Qed.
Lemma ev_vopp v : ev (vopp v) = vopp (ev v).
Proof. unfold vopp. rewrite !map_map. apply map_ext. intros; apply (hom_opp phi). Qed.
Lemma ev_vzeros n : ev (vzeros n) = vzeros n.
Proof. unfold vzeros. rewrite map_repeat', (hom_0 phi). reflexivity. Qed.
Lemma ev_vones n : ev (vones n) = vones n.
Proof. unfold vones. rewrite map_repeat', (hom_1 phi). reflexivity. Qed.
Lemma ev_vsum v : phi (vsum v) = vsum (ev v).
Proof. induction v as [|x v IH]; cbn; [apply (hom_0 phi)|]. rewrite (hom_add phi), IH. reflexivity. Qed.
Lemma ev_mv A v : ev (mv A v) = mv (em A) (ev v).
Proof. unfold mv. rewrite !map_map. apply map_ext. intros; apply ev_dot. Qed.
Lemma ev_vm v A n : ev (vm v A n) = vm (ev v) (em A) n.
Proof.
  revert A. induction v as [|x v IH]; intros [|row A]; cbn; try apply ev_vzeros.
  rewrite ev_vadd, ev_vscale, IH. reflexivity.
Qed.
Lemma em_transpose A n : em (transpose A n) = transpose (em A) n.
Proof.
  revert A. induction n as [|n IH]; intros A; cbn; [reflexivity|]. f_equal.
  - rewrite !map_map. apply map_ext. intros row. rewrite (map_hd phi), (hom_0 phi). reflexivity.
  - rewrite IH. f_equal. rewrite !map_map. apply map_ext. intros; apply map_tl.
Qed.
Lemma em_mm A B n : em (mm A B n) = mm (em A) (em B) n.
Proof. unfold mm. rewrite !map_map. apply map_ext. intros; apply ev_vm. Qed.
Lemma em_madd A B : em (madd A B) = madd (em A) (em B).
Proof. unfold madd. revert B. induction A as [|a A IH]; intros [|b B]; cbn; try reflexivity. rewrite ev_vadd, IH. reflexivity. Qed.
Lemma em_msub A B : em (msub A B) = msub (em A) (em B).
Proof. unfold msub. revert B. induction A as [|a A IH]; intros [|b B]; cbn; try reflexivity. rewrite ev_vsub, IH. reflexivity. Qed.
Lemma em_mscale c A : em (mscale c A) = mscale (phi c) (em A).
Proof. unfold mscale. rewrite !map_map. apply map_ext. intros; apply ev_vscale. Qed.
Lemma em_outer u v : em (outer u v) = outer (ev u) (ev v).
Proof. unfold outer. rewrite !map_map. apply map_ext. intros; apply ev_vscale. Qed.
Lemma em_mzeros r c : em (mzeros r c) = mzeros r c.
Proof. unfold mzeros. rewrite map_repeat', ev_vzeros. reflexivity. Qed.
Lemma ev_unitv n i : ev (unitv n i) = unitv n i.
Proof.
  revert i. induction n as [|n IH]; intros [|i]; cbn; try reflexivity.
  - rewrite (hom_1 phi), ev_vzeros. reflexivity.
  - rewrite (hom_0 phi), IH. reflexivity.
Qed.
Lemma em_eye n : em (eye n) = eye n.
Proof. unfold eye. rewrite map_map. apply map_ext. intros; apply ev_unitv. Qed.
Lemma ev_vget v i : phi (vget v i) = vget (ev v) i.
Proof. unfold vget. rewrite <- (hom_0 phi). symmetry. apply map_nth. Qed.
Lemma em_nth_row A i : ev (nth i A []) = nth i (em A) [].
Proof. symmetry. apply (map_nth (map phi) A [] i). Qed.
Lemma em_mget A i j : phi (mget A i j) = mget (em A) i j.
Proof. unfold mget. rewrite <- em_nth_row, <- (hom_0 phi). symmetry. apply map_nth. Qed.

(* ---- GenPrelude ---- *)
Lemma em_mcols A : mcols (em A) = mcols A.
Proof. destruct A; cbn; [reflexivity | apply map_length]. Qed.
Lemma em_mT A : em (mT A) = mT (em A).
Proof. unfold mT. rewrite em_transpose, em_mcols. reflexivity. Qed.
Lemma em_mmul A B : em (mmul A B) = mmul (em A) (em B).
Proof. unfold mmul. rewrite em_mm, em_mcols. reflexivity. Qed.
Lemma ev_vmm v A : ev (vmm v A) = vmm (ev v) (em A).
Proof. unfold vmm. rewrite ev_vm, em_mcols. reflexivity. Qed.
Lemma ev_add_bias_row x : ev (add_bias_row x) = add_bias_row (ev x).
Proof. unfold add_bias_row. cbn. rewrite (hom_1 phi). reflexivity. Qed.
Lemma em_add_bias_mat X : em (add_bias_mat X) = add_bias_mat (em X).
Proof. unfold add_bias_mat. rewrite !map_map. apply map_ext. intros; cbn. rewrite (hom_1 phi). reflexivity. Qed.
Lemma em_roll1 A : em (roll1 A) = roll1 (em A).
Proof.
  destruct A as [|a A]; [reflexivity|].
  change (em (last (a :: A) [] :: removelast (a :: A)) = last (em (a :: A)) [] :: removelast (em (a :: A))).
  rewrite <- (map_removelast (map phi) (a :: A)). change (@nil G) with (map phi []).
  rewrite <- (map_last_dflt (map phi) (a :: A) []). reflexivity.
Qed.
Lemma em_set_row0 A x : em (set_row0 A x) = set_row0 (em A) (ev x).
Proof. destruct A; reflexivity. Qed.
Lemma map_take_every_from {A B} (f : A -> B) s k (l : list A) : map f (take_every_from s k l) = take_every_from s k (map f l).
Proof. revert k. induction l as [|a l IH]; intros [|k]; cbn; try reflexivity; rewrite IH; reflexivity. Qed.
Lemma map_take_every {A B} (f : A -> B) s (l : list A) : map f (take_every s l) = take_every s (map f l).
Proof. apply map_take_every_from. Qed.
Lemma ev_vset_prefix out v : ev (vset_prefix out v) = vset_prefix (ev out) (ev v).
Proof. unfold vset_prefix. rewrite map_app, map_length, skipn_map. reflexivity. Qed.
Lemma ev_vset_from out k v : ev (vset_from out k v) = vset_from (ev out) k (ev v).
Proof. unfold vset_from. rewrite map_app, firstn_map. reflexivity. Qed.
Lemma ev_fold_prod (l : list F) : phi (fold_right nmul n1 l) = fold_right nmul n1 (ev l).
Proof. induction l as [|a l IH]; cbn; [apply (hom_1 phi)|]. rewrite (hom_mul phi), IH. reflexivity. Qed.
Lemma ev_gather_prod lin idx : ev (gather_prod lin idx) = gather_prod (ev lin) idx.
Proof.
  unfold gather_prod. rewrite map_map. apply map_ext. intros c. rewrite ev_fold_prod, map_map. f_equal.
  apply map_ext. intros i. rewrite <- (hom_0 phi). symmetry. apply map_nth.
Qed.
Lemma em_dq_appendleft m buf x : em (dq_appendleft m buf x) = dq_appendleft m (em buf) (ev x).
Proof. unfold dq_appendleft. rewrite <- firstn_map. reflexivity. Qed.
Lemma em_dq_pop buf : (ev (fst (dq_pop buf)), em (snd (dq_pop buf))) = dq_pop (em buf).
Proof. unfold dq_pop. cbn. rewrite map_removelast. f_equal. apply (map_last_dflt (map phi) buf []). Qed.
Lemma ev_vupd i v l : ev (vupd i v l) = vupd i (phi v) (ev l).
Proof. revert i. induction l as [|x l IH]; intros [|i]; cbn; try reflexivity. rewrite IH. reflexivity. Qed.
Lemma em_mupd_row i r A : em (mupd_row i r A) = mupd_row i (ev r) (em A).
Proof. revert i. induction A as [|x A IH]; intros [|i]; cbn; try reflexivity. rewrite IH. reflexivity. Qed.
Lemma em_mupd i j v A : em (mupd i j v A) = mupd i j (phi v) (em A).
Proof. unfold mupd. rewrite em_mupd_row, ev_vupd, em_nth_row. reflexivity. Qed.
Lemma ev_vslice_sum y lo hi : phi (vslice_sum y lo hi) = vslice_sum (ev y) lo hi.
Proof. unfold vslice_sum. rewrite ev_vsum, <- firstn_map, <- skipn_map. reflexivity. Qed.

(* nth with the class zero as default *)
Lemma ev_nth0 v i : phi (nth i v n0) = nth i (ev v) n0.
Proof. rewrite <- (hom_0 phi). symmetry. apply map_nth. Qed.
End Lift.

(* ------------------------------------------------------------------ the instance everybody uses: Q -> R *)
Notation qv2r := (map Q2R).
Notation qm2r := (map (map Q2R)).

(* sanity: a concrete dot product, a concrete matrix-vector product and a division by zero, on both sides *)
Example Q2R_dot_example :
  dot (qv2r [(1#2)%Q; (-3#4)%Q]) (qv2r [(2#1)%Q; (1#3)%Q]) = Q2R (3#4)%Q.
Proof. rewrite <- (ev_dot Q2R). apply Qeq_eqR. vm_compute. reflexivity. Qed.
Example Q2R_div0_example : ndiv (Q2R (5#2)%Q) (Q2R 0%Q) = Q2R 0%Q.
Proof. rewrite <- (hom_div Q2R). apply Qeq_eqR. vm_compute. reflexivity. Qed.

(* the class statement spelled out for the instance Q -> R (quoted by the property files) *)
Lemma Q2R_hom_spelled :
  Q2R n0 = n0 /\ Q2R n1 = n1 /\
  (forall a b : Q, Q2R (nadd a b) = nadd (Q2R a) (Q2R b)) /\ (forall a b : Q, Q2R (nsub a b) = nsub (Q2R a) (Q2R b)) /\
  (forall a b : Q, Q2R (nmul a b) = nmul (Q2R a) (Q2R b)) /\ (forall a b : Q, Q2R (ndiv a b) = ndiv (Q2R a) (Q2R b)) /\
  (forall a : Q, Q2R (nopp a) = nopp (Q2R a)) /\ (forall z : Z, Q2R (nofZ z) = nofZ z) /\
  (forall a : Q, Q2R (nabs a) = nabs (Q2R a)) /\
  (forall a b : Q, nltb a b = nltb (Q2R a) (Q2R b)) /\ (forall a b : Q, nleb a b = nleb (Q2R a) (Q2R b)).
Proof.
  repeat split; intros.
  - apply Q2R_n0. - apply Q2R_n1. - apply Q2R_nadd. - apply Q2R_nsub. - apply Q2R_nmul. - apply Q2R_ndiv.
  - apply Q2R_nopp. - apply Q2R_nofZ. - apply (hom_nabs Q2R). - apply Q2R_nltb. - apply Q2R_nleb.
Qed.
Print Assumptions Q2R_hom_spelled.

(* ------------------------------------------------------------------ the tolerance test of the runners, read at R
   [qclose m o] (base/Num.v) is the only comparison the correspondence runners make between the model's value m and the
   observed value o.  It is equivalent to the same inequality between the embedded reals:
       |m - o| <= 1e-9 * max(1, |m|).
   With the embedding theorems of proofs/QR_bridge_*.v, a verdict [chk_* = true] therefore becomes a statement about the
   R-instance of the model (the one the theorems are about). *)
Definition rclose (m o : R) : Prop := (Rabs (m - o) <= Q2R tol * Rmax 1 (Rabs m))%R.
Definition vrclose (m o : list R) : Prop := Forall2 rclose m o.
Definition mrclose (m o : list (list R)) : Prop := Forall2 vrclose m o.

Lemma Q2R_tol : Q2R tol = (1 / 1000000000)%R.
Proof. unfold tol, Q2R. cbn. lra. Qed.
Lemma Q2R_Qabs (x : Q) : Q2R (Qabs x) = Rabs (Q2R x).
Proof.
  apply (Qabs_case x (fun y => Q2R y = Rabs (Q2R x))); intros Hx.
  - symmetry. apply Rabs_right. apply Rle_ge. apply Qle_Rle in Hx. change (Q2R 0) with (Q2R n0) in Hx. rewrite Q2R_n0 in Hx. exact Hx.
  - rewrite Q2R_opp. symmetry. apply Rabs_left1. apply Qle_Rle in Hx. change (Q2R 0) with (Q2R n0) in Hx. rewrite Q2R_n0 in Hx. exact Hx.
Qed.
Lemma Q2R_qmax (a b : Q) : Q2R (qmax a b) = Rmax (Q2R a) (Q2R b).
Proof.
  unfold qmax, Rmax. destruct (Rle_dec (Q2R a) (Q2R b)) as [L|L].
  - apply Rle_Qle, Qle_bool_iff in L. rewrite L. reflexivity.
  - destruct (Qle_bool a b) eqn:E; [|reflexivity]. exfalso. apply L, Qle_Rle, Qle_bool_iff, E.
Qed.
Lemma qclose_rclose (m o : Q) : qclose m o = true <-> rclose (Q2R m) (Q2R o).
Proof.
  unfold qclose, rclose, qabs. rewrite Qle_bool_iff.
  assert (E1 : Q2R (Qabs (Qred (m - o))) = Rabs (Q2R m - Q2R o)) by (rewrite Q2R_Qabs, Q2R_Qred, Q2R_minus; reflexivity).
  assert (E2 : Q2R (Qred (tol * qmax 1 (Qabs m))) = (Q2R tol * Rmax 1 (Rabs (Q2R m)))%R).
  { rewrite Q2R_Qred, Q2R_mult, Q2R_qmax, Q2R_Qabs. change (Q2R 1) with (Q2R n1). rewrite Q2R_n1. reflexivity. }
  rewrite <- E1, <- E2. split; [apply Qle_Rle | apply Rle_Qle].
Qed.
Lemma vclose_vrclose (m o : list Q) : vclose m o = true <-> vrclose (qv2r m) (qv2r o).
Proof.
  revert o. induction m as [|a m IH]; intros [|b o]; cbn; split; intros Hx; try discriminate; try constructor; try (inversion Hx; fail).
  - apply andb_true_iff in Hx. apply qclose_rclose, Hx.
  - apply andb_true_iff in Hx. apply IH, Hx.
  - inversion Hx; subst. apply andb_true_iff. split; [apply qclose_rclose | apply IH]; assumption.
Qed.
Lemma mclose_mrclose (m o : list (list Q)) : mclose m o = true <-> mrclose (qm2r m) (qm2r o).
Proof.
  revert o. induction m as [|a m IH]; intros [|b o]; cbn; split; intros Hx; try discriminate; try constructor; try (inversion Hx; fail).
  - apply andb_true_iff in Hx. apply vclose_vrclose, Hx.
  - apply andb_true_iff in Hx. apply IH, Hx.
  - inversion Hx; subst. apply andb_true_iff. split; [apply vclose_vrclose | apply IH]; assumption.
Qed.
(* what [rclose] gives in plain terms *)
Lemma rclose_abs (m o : R) : rclose m o -> (Rabs (m - o) <= 1 / 1000000000 * Rmax 1 (Rabs m))%R.
Proof. unfold rclose. rewrite Q2R_tol. tauto. Qed.
