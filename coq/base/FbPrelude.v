(* FbPrelude — what the code GENERATED from the feedback machinery of reservoirpy needs beyond base/CtxPrelude.v
   (tools/vlib/py2coq_fb.py -> coq/gen/Gen_feedback.v, tie (T) of property C05):
       reservoirpy/node.py    Node.state_proxy, Node.set_state_proxy, Node.with_feedback (and zero_state / state, re-emitted)
       reservoirpy/model.py   Model._load_proxys, Model._clean_proxys, Model.with_feedback
       reservoirpy/_base.py   DistantFeedback.call_distant_node, DistantFeedback.clamp

   Trusted as the MEANING of that vocabulary; written independently of the hand models (model/ProxySem.v, model/SubSender.v): it imports
   only base/Num.v, base/LA.v and base/CtxPrelude.v.  Definitions only, no proofs.

   The trusted part, in one paragraph.  The monad, try_finally, the generator-as-function-of-the-with-body reading of @contextmanager and
   ExitStack are CtxPrelude's, unchanged.  The heap of node objects is CtxPrelude's heap too; what a node object carries beyond the five
   attributes of CtxPrelude sits in its `a_params` slot, which is instantiated with the record [fbx]: `_state_proxy`, and - for a node
   that receives feedback - the two mutable attributes of the DistantFeedback object it owns (`node._feedback._clamped`,
   `node._feedback._clamped_value`).  A DistantFeedback is therefore named by the number of its receiver.  Its IMMUTABLE attributes are
   parameters of the generated section: [has_fb n] is `n._feedback is not None`; [fb_kind n] says what `n._feedback._sender` /
   `._reduced_sender` are, in the two shapes DistantFeedback.initialize() leaves behind (its text, that of __init__ and of __call__ are
   pinned by the translator): the sender is a Node and `_reduced_sender` is None, or the sender is a Model and `_reduced_sender` is the
   sender without its input nodes (a Node when one node remains, else a Model).  The translator turns the test `self._reduced_sender is
   not None` into the case split on [fb_kind] and accepts `self._sender.<model attribute>` only in its Model branch and
   `self._sender.state_proxy()` only in its Node branch.  What the reduced sender does when it is called, and what
   `_distant_model_inputs` collects, are parameters too (model/SubSender.v is a model of them). *)
From Coq Require Import List Arith Bool.
From RV Require Import base.Num base.LA base.CtxPrelude.
Import ListNotations.

Section FbObjects.
Context {F : Type} `{Num F}.
Variable P : Type.                      (* what a node keeps besides (params, buffers): touched by its forward function only *)
Notation vec := (list F).

Record fbx := mkFbx {
  x_proxy : option vec;                 (* node._state_proxy : None | array *)
  x_clamped : bool;                     (* node._feedback._clamped *)
  x_clamped_value : option vec;         (* node._feedback._clamped_value : None | array (stays behind when `_clamped` goes back to False) *)
  x_rest : P }.

Notation fobj := (@obj F fbx).
Notation fheap := (@heap F fbx).

Definition a_state_proxy (o : fobj) : option vec := x_proxy (a_params o).
Definition a_clamped (o : fobj) : bool := x_clamped (a_params o).
Definition a_clamped_value (o : fobj) : option vec := x_clamped_value (a_params o).

Definition set_proxy_x (x : fbx) (v : option vec) : fbx := mkFbx v (x_clamped x) (x_clamped_value x) (x_rest x).
Definition set_clamped_x (x : fbx) (b : bool) : fbx := mkFbx (x_proxy x) b (x_clamped_value x) (x_rest x).
Definition set_clamped_value_x (x : fbx) (v : option vec) : fbx := mkFbx (x_proxy x) (x_clamped x) v (x_rest x).

(* node._state_proxy = v   /   dfb._clamped = b   /   dfb._clamped_value = v   (dfb: the DistantFeedback owned by receiver n) *)
Definition wr_state_proxy (n : nat) (v : option vec) : M fheap unit :=
  fun h => (hupd h n (set_params (h n) (set_proxy_x (a_params (h n)) v)), Ok tt).
Definition wr_clamped (n : nat) (b : bool) : M fheap unit :=
  fun h => (hupd h n (set_params (h n) (set_clamped_x (a_params (h n)) b)), Ok tt).
Definition wr_clamped_value (n : nat) (v : option vec) : M fheap unit :=
  fun h => (hupd h n (set_params (h n) (set_clamped_value_x (a_params (h n)) v)), Ok tt).

(* a Model used as feedback sender, as far as the translated code looks at it *)
Record smodel := mkSModel {
  sm_name : nat;                        (* sender.name (the key under which Model.with_feedback looks a forced value up) *)
  sm_nodes : list nat;                  (* sender.nodes *)
  sm_inputs : list nat;                 (* sender.input_nodes *)
  sm_outputs : list nat;                (* sender.output_nodes *)
  sm_red_is_model : bool;               (* hasattr(self._reduced_sender, "nodes") *)
  sm_red_name : nat }.                  (* self._reduced_sender.name *)
(* the immutable part of an initialised DistantFeedback *)
Inductive dfb_kind :=
| DNode (sender : nat)                  (* _sender is a Node, _reduced_sender is None *)
| DModel (sm : smodel).                 (* _sender is a Model, _reduced_sender is not None *)
(* DistantFeedback.name = self._sender.name *)
Definition dfb_name (k : dfb_kind) : nat := match k with DNode s => s | DModel sm => sm_name sm end.

(* the value a feedback read returns: one array (None when the sender has no state yet), or the list of the output nodes' arrays *)
Inductive fbval := FbArr (v : option vec) | FbList (l : list (option vec)).

(* np.unique on a list of Python bools: the distinct values, sorted *)
Definition np_unique_bool (l : list bool) : list bool :=
  (if existsb negb l then [false] else []) ++ (if existsb (fun b => b) l then [true] else []).

(* l[0]: IndexError on an empty list.  The code that does this runs inside a node's forward function (node.feedback()), so the exception
   is one "the forward function raises" *)
Definition py_item0 {S A : Type} (l : list A) : M S A :=
  match l with x :: _ => ret x | [] => raise ForwardError end.

(* check_n_sequences(value, expected_dim=dfb._sender.output_dim, caller=dfb._sender, allow_n_sequences=False): the array itself when it
   is accepted, else the check's exception.  Which arrays are accepted for the DistantFeedback of receiver n is a parameter; C12 is about
   that function. *)
Definition py_check_n_sequences (ok : nat -> vec -> bool) (n : nat) (v : vec) : M fheap vec :=
  fun h => if ok n v then (h, Ok v) else (h, Exc CheckError).

End FbObjects.

Arguments mkFbx {F P} _ _ _ _.
Arguments x_proxy {F P} _.
Arguments x_clamped {F P} _.
Arguments x_clamped_value {F P} _.
Arguments x_rest {F P} _.
Arguments a_state_proxy {F P} _.
Arguments a_clamped {F P} _.
Arguments a_clamped_value {F P} _.
Arguments set_proxy_x {F P} _ _.
Arguments set_clamped_x {F P} _ _.
Arguments set_clamped_value_x {F P} _ _.
Arguments wr_state_proxy {F P} _ _ _.
Arguments wr_clamped {F P} _ _ _.
Arguments wr_clamped_value {F P} _ _ _.
Arguments FbArr {F} _.
Arguments FbList {F} _.
Arguments py_check_n_sequences {F P} _ _ _ _.
