(* CtxPrelude — the Python vocabulary used by the code GENERATED from the state machinery of reservoirpy
   (tools/vlib/py2coq_state.py -> coq/gen/Gen_state.v, tie (T) of property C08):
       reservoirpy/node.py    Node.zero_state, Node.state, Node.reset, Node._flag_feedback, Node.with_state
       reservoirpy/_base.py   call
       reservoirpy/model.py   Model.reset, Model.with_state

   This file is trusted as the MEANING of that vocabulary and is written independently of the hand model (model/ModelSem.v,
   model/ProxySem.v): it imports only base/Num.v and base/LA.v (for the zero vector).  Definitions only, no proofs.

   The trusted part, in one paragraph.  A Python computation over a mutable world S is a function S -> S * outcome A: the world
   SURVIVES an exception (what was assigned before the raise stays assigned).  `try: b finally: f` runs b, then f in BOTH
   outcomes, and hands on b's outcome unless f itself raises ([try_finally]).  A `@contextmanager` generator is the code of the
   generator with the body of the `with` statement in the place of its single `yield` (contextlib: the generator is resumed
   with next() when the body completes and with throw(exc) when it raises, so the exception surfaces AT the yield; a `finally`
   around the yield therefore runs in both cases and a plain statement after it only in the first): the translator emits the
   generator as a function of the body.  [with_cm enter exit] is the same thing said as an (enter, exit) pair.  An `ExitStack`
   on which the contexts c1 .. cn were entered in that order and which then runs the body is `with c1: with c2: .. with cn:
   body` ([exit_stack]): exits in reverse order, also when the body or a later enter raises. *)
From Coq Require Import List Arith Bool.
From RV Require Import base.Num base.LA.
Import ListNotations.

(* ------------------------------------------------------------------------------------------------ outcomes *)
Inductive pyexc :=
| RuntimeError        (* raise RuntimeError(..) *)
| TypeError           (* raise TypeError(..) *)
| CheckError          (* the ValueError / TypeError of utils.validation check_one_sequence *)
| ForwardError.       (* whatever the node's forward function raises *)
Inductive outcome (A : Type) := Ok (a : A) | Exc (e : pyexc).
Arguments Ok {A} a.
Arguments Exc {A} e.

Definition M (S A : Type) : Type := S -> S * outcome A.
Definition ret {S A : Type} (a : A) : M S A := fun s => (s, Ok a).
Definition raise {S A : Type} (e : pyexc) : M S A := fun s => (s, Exc e).
Definition bind {S A B : Type} (m : M S A) (k : A -> M S B) : M S B :=
  fun s => match m s with
           | (s1, Ok a) => k a s1
           | (s1, Exc e) => (s1, Exc e)
           end.

(* try: body  finally: fin *)
Definition try_finally {S A : Type} (body : M S A) (fin : M S unit) : M S A :=
  fun s => let '(s1, r) := body s in
           match fin s1 with
           | (s2, Ok _) => (s2, r)
           | (s2, Exc e) => (s2, Exc e)
           end.

(* the same as a pair: `with cm: body` for a generator `enter-code; try: yield finally: exit-code`, where the value handed from
   enter to exit stands for the generator's frame (the locals alive at the yield) *)
Definition with_cm {S V A : Type} (enter : M S V) (exit_ : V -> M S unit) (body : M S A) : M S A :=
  bind enter (fun v => try_finally body (exit_ v)).
(* ... and for a generator WITHOUT the try/finally (`enter-code; yield; exit-code`): the exit code runs only when the body completed *)
Definition with_cm_unprotected {S V A : Type} (enter : M S V) (exit_ : V -> M S unit) (body : M S A) : M S A :=
  bind enter (fun v => bind body (fun r => bind (exit_ v) (fun _ => ret r))).

(* with ExitStack() as stack: [stack.enter_context(c) for c in cms]; body *)
Fixpoint exit_stack {S A : Type} (cms : list (M S A -> M S A)) (body : M S A) : M S A :=
  match cms with
  | [] => body
  | c :: rest => c (exit_stack rest body)
  end.

(* for x in l: f x *)
Fixpoint py_for {S B : Type} (l : list B) (f : B -> M S unit) : M S unit :=
  match l with
  | [] => ret tt
  | x :: rest => bind (f x) (fun _ => py_for rest f)
  end.
(* [f x for x in l]   (the elements are computed in order; the first raise ends it) *)
Fixpoint py_map {S B C : Type} (l : list B) (f : B -> M S C) : M S (list C) :=
  match l with
  | [] => ret []
  | x :: rest => bind (f x) (fun y => bind (py_map rest f) (fun ys => ret (y :: ys)))
  end.

(* ------------------------------------------------------------------------------------------------ node objects *)
Section Objects.
Context {F : Type} `{Num F}.
Variable P : Type.                      (* everything a node keeps outside `_state` (params, buffers): touched by its forward function only *)
Notation vec := (list F).               (* a state array of shape (1, n) *)

(* the attributes the translated code touches.  A node is named by a number; `node.name` is that number (names are unique in a model) *)
Record obj := mkObj {
  a_state : option vec;                 (* _state : None | array *)
  a_is_initialized : bool;              (* _is_initialized *)
  a_output_dim : option nat;            (* _output_dim : None | int *)
  a_fb_flag : bool;                     (* _fb_flag *)
  a_params : P }.
Definition heap := nat -> obj.
Definition hupd (h : heap) (n : nat) (o : obj) : heap := fun k => if Nat.eqb k n then o else h k.

Definition set_state (o : obj) (v : option vec) : obj := mkObj v (a_is_initialized o) (a_output_dim o) (a_fb_flag o) (a_params o).
Definition set_fb_flag (o : obj) (b : bool) : obj := mkObj (a_state o) (a_is_initialized o) (a_output_dim o) b (a_params o).
Definition set_params (o : obj) (p : P) : obj := mkObj (a_state o) (a_is_initialized o) (a_output_dim o) (a_fb_flag o) p.

(* node.<attr>  /  node.<attr> = v *)
Definition rd {A : Type} (f : obj -> A) (n : nat) : M heap A := fun h => (h, Ok (f (h n))).
Definition wr_state (n : nat) (v : option vec) : M heap unit := fun h => (hupd h n (set_state (h n) v), Ok tt).
Definition wr_fb_flag (n : nat) (b : bool) : M heap unit := fun h => (hupd h n (set_fb_flag (h n) b), Ok tt).

(* np.zeros((1, n), dtype=node.dtype) *)
Definition np_zeros_row (n : nat) : vec := vzeros n.
(* a.astype(node.dtype): the identity on numbers (the dtype of a node is not modelled) *)
Definition py_astype (v : vec) : vec := v.

(* check_one_sequence(v, node.output_dim, allow_timespans=False, caller=node): the array itself when it is accepted, else the check's
   exception.  Which arrays are accepted is a parameter ([ok dim v]); C12 is about that function. *)
Definition py_check_one_sequence (ok : option nat -> vec -> bool) (v : vec) (dim : option nat) : M heap vec :=
  fun h => if ok dim v then (h, Ok v) else (h, Exc CheckError).

(* node._forward(node, x): reads the node object and x, may replace the node's params, returns the new state array or raises;
   when it raises nothing has been written.  [fw n o x] = None when it raises. *)
Definition py_forward {X : Type} (fw : nat -> obj -> X -> option (vec * P)) (n : nat) (x : X) : M heap vec :=
  fun h => match fw n (h n) x with
           | Some (s, p) => (hupd h n (set_params (h n) p), Ok s)
           | None => (h, Exc ForwardError)
           end.

(* the `state` argument of Model.with_state: None | a dict name -> array (only `.get(name)` is used) | an ndarray *)
Inductive mstate := SNone | SDict (d : nat -> option vec) | SArray.
Definition mstate_is_none (s : mstate) : bool := match s with SNone => true | _ => false end.
Definition mstate_is_ndarray (s : mstate) : bool := match s with SArray => true | _ => false end.
(* state.get(name) once `state` is a dict; `{}` for None *)
Definition mstate_dict (s : mstate) : nat -> option vec := match s with SDict d => d | _ => fun _ => None end.

(* a dict built by the code: name -> value in insertion order; .items() iterates in that order *)
Definition pydict := list (nat * option vec).
Definition dict_of (keys : list nat) (vals : list (option vec)) : pydict := combine keys vals.
Definition dict_items (d : pydict) : list (nat * option vec) := d.

End Objects.

Arguments mkObj {F P} _ _ _ _ _.
Arguments a_state {F P} _.
Arguments a_is_initialized {F P} _.
Arguments a_output_dim {F P} _.
Arguments a_fb_flag {F P} _.
Arguments a_params {F P} _.
Arguments hupd {F P} _ _ _ _.
Arguments set_state {F P} _ _.
Arguments set_fb_flag {F P} _ _.
Arguments set_params {F P} _ _.
Arguments rd {F P A} _ _ _.
Arguments wr_state {F P} _ _ _.
Arguments wr_fb_flag {F P} _ _ _.
Arguments np_zeros_row {F _} _.
Arguments py_astype {F} _.
Arguments py_check_one_sequence {F P} _ _ _ _.
Arguments py_forward {F P X} _ _ _ _.
Arguments SNone {F}.
Arguments SDict {F} _.
Arguments SArray {F}.
Arguments mstate_is_none {F} _.
Arguments mstate_is_ndarray {F} _.
Arguments mstate_dict {F} _ _.
Arguments dict_of {F} _ _.
Arguments dict_items {F} _.
