(* PyColl3 — third prelude of Python vocabulary, for the translator tools/vlib/py2coq_dispatch.py (tie T of C02: the class
   DataDispatcher of reservoirpy/utils/graphflow.py and `forward(model, x)` of reservoirpy/model.py).  It EXTENDS base/PyColl.v and
   base/PyColl2.v (imported, not modified) and is TRUSTED in the same way: this file is the statement of what the extra constructs
   mean.  Definitions only (lemmas: proofs/Gen_dispatch_eq.v).  The result monad [py] / [py_let] / [py_for] is PyColl2's.

   [D] is the type of array values (one timestep of data, a node state): abstract.

   * [src D]      : an element of the lists held by `DataDispatcher._parents`: a node object (`isinstance(p, _Node)`) or an array.
                    `if isinstance(p, _Node): A else: B` is [match p with SrcNode p => A | SrcData p => B end].
   * [xval D]     : a Python variable that holds EITHER one array ([XBare]) or a list of arrays ([XList]): the `x` of
                    `if len(x) == 1: x = x[0]`.  The translator injects with the constructor that matches the kind the
                    variable has on each path; it never converts one into the other.
   * [pymap D]    : a name-keyed mapping of arrays seen through `m.get(name)`: [None] when the name is absent or None is stored.
                    Names are node identities (a Model refuses two nodes with one name; PyColl2.node_name).  Inside
                    `if m.get(k) is not None:` the translator reads `m[k]` as the value `m.get(k)` has just returned.
   * [pyinput D]  : what a caller hands to `load` / `forward`: an array or a mapping; `is_mapping(X)` decides which
                    (`if is_mapping(X): A else: B` is [match X with InMap X => A | InArr X => B end]).
   * [datapoint D]: `DataPoint = namedtuple("DataPoint", "x, y")` (text pinned by the translator): the pair (x, y).
   * [safe_defaultdict_copy] : reservoirpy/utils/__init__.py (text pinned by the translator): a new defaultdict(list) with the
                    same keys in the same order, every value a NEW list with the same elements -- here also the place where a list
                    of node objects becomes a list of [src].  The copy is what allows `d[k] += [...]` on it without touching the
                    original.
   * [pdict K V]  : a plain `dict`: insertion-ordered association list; `dict()` = [], `d.get(k, None)` = [pd_lookup]. *)
From Coq Require Import List Arith Bool.
From RV Require Import base.PyColl base.PyColl2.
Import ListNotations.

Section Data.
Context {D : Type}.

Inductive src := SrcNode (n : node) | SrcData (a : D).
Inductive xval := XBare (a : D) | XList (l : list D).
Definition pymap := node -> option D.
Inductive pyinput := InArr (a : D) | InMap (m : pymap).
Definition map_get (m : pymap) (k : node) : option D := m k.

Definition datapoint := (xval * option D)%type.
Definition dp_x (d : datapoint) : xval := fst d.
Definition dp_y (d : datapoint) : option D := snd d.

Definition safe_defaultdict_copy (d : ddict node node) : ddict node src :=
  map (fun kv => (fst kv, map SrcNode (snd kv))) d.
End Data.
Arguments src D : clear implicits.
Arguments xval D : clear implicits.
Arguments pymap D : clear implicits.
Arguments pyinput D : clear implicits.
Arguments datapoint D : clear implicits.

Section PD.
Context {K V : Type} `{PyEq K}.
Definition pdict := list (K * V).
Fixpoint pd_lookup (d : pdict) (k : K) : option V :=
  match d with [] => None | (k', v) :: d' => if py_eqb k k' then Some v else pd_lookup d' k end.
End PD.
Arguments pdict K V : clear implicits.
