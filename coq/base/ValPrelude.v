(* ValPrelude — the Python / numpy vocabulary used by the code GENERATED from the input validation functions of reservoirpy
   (tools/vlib/py2coq_val.py -> coq/gen/Gen_validation.v, tie (T) of property C12).

   This file is trusted as the MEANING of that vocabulary on data descriptors.  It imports model/Shapes.v for its three TYPES only —
   [data] (DArr numeric shape | DList items | DNum | DOther | DTeacher dim), [exn] and [res] — so that the generated checks and the
   hand model talk about the same descriptors and no conversion stands between them; none of the FUNCTIONS of Shapes.v is used here
   (np.atleast_2d, the dimension test, the timestep comparison ... are defined again, from what Python / numpy do).

   Reading of the descriptors (as in the harness, tools/props/c12.py):  DArr num sh = a numpy.ndarray of shape sh whose dtype is
   (num = true) or is not (bool / object / str) a sub-dtype of np.number;  DList = a Python list (a tuple behaves the same in every
   test translated here);  DNum = a Python int / float;  DOther = a str or a dict;  DTeacher = a reservoirpy Node.
   Exceptions: TypeError and ValueError are themselves; AttributeError and IndexError are OtherError (the harness' mapping).
   No proofs in this file. *)
From Coq Require Import List Arith Bool.
From RV Require Import model.Shapes.
Import ListNotations.

(* ------------------------------------------------------------------------------------------------ exceptions *)
Definition bind {A B : Type} (m : res A) (k : A -> res B) : res B :=
  match m with ROk a => k a | RErr e => RErr e end.

(* ------------------------------------------------------------- Python objects used as "expected dimension" *)
(* None | an int | a tuple (of such objects: the code's comment says  expected_dim = ((m, n), o, (p, q, r), ...) ) *)
Inductive pyobj := PNone | PInt (n : nat) | PTuple (l : list pyobj).

Fixpoint obj_eqb (a b : pyobj) {struct a} : bool :=            (* == between ints / tuples / None *)
  match a, b with
  | PNone, PNone => true
  | PInt n, PInt m => n =? m
  | PTuple la, PTuple lb =>
      (fix go (la lb : list pyobj) {struct la} : bool :=
         match la, lb with
         | [], [] => true
         | x :: la', y :: lb' => obj_eqb x y && go la' lb'
         | _, _ => false
         end) la lb
  | _, _ => false
  end.

Definition obj_is_none (o : pyobj) : bool := match o with PNone => true | _ => false end.          (* o is None *)
(* hasattr(o, "__iter__") and hasattr(o, "__len__"): true of tuples, false of ints and None *)
Definition obj_is_tuple (o : pyobj) : bool := match o with PTuple _ => true | _ => false end.
Definition obj_len (o : pyobj) : res nat :=                                                       (* len(o) *)
  match o with PTuple l => ROk (length l) | _ => RErr TypeError end.
Definition obj_iter (o : pyobj) : res (list pyobj) :=                                             (* for v in o *)
  match o with PTuple l => ROk l | _ => RErr TypeError end.
Definition obj_get (o : pyobj) (i : nat) : res pyobj :=                                           (* o[i], i >= 0 *)
  match o with
  | PTuple l => match nth_error l i with Some v => ROk v | None => RErr OtherError end            (* IndexError *)
  | _ => RErr TypeError                                                                           (* not subscriptable *)
  end.
(* a tuple of ints (a .shape, or a tuple display of ints) seen as an object *)
Definition obj_of_shape (s : list nat) : pyobj := PTuple (map PInt s).

(* ------------------------------------------------------------------------------------------------ tuples of ints *)
Definition tuple_get (s : list nat) (i : nat) : res nat :=                                        (* s[i], i >= 0 *)
  match nth_error s i with Some v => ROk v | None => RErr OtherError end.                         (* IndexError *)

(* ------------------------------------------------------------------------------------------------ descriptors *)
Definition is_ndarray (x : data) : bool := match x with DArr _ _ => true | _ => false end.        (* isinstance(x, np.ndarray) *)
Definition is_number (x : data) : bool := match x with DNum => true | _ => false end.             (* isinstance(x, numbers.Number) *)
(* callable(x) and hasattr(x, "initialize") and hasattr(x, "is_initialized") and hasattr(x, "output_dim") *)
Definition is_node (x : data) : bool := match x with DTeacher _ => true | _ => false end.
(* x.shape: only arrays have one (int, float, str, dict, list, Node: AttributeError) *)
Definition attr_shape (x : data) : res (list nat) :=
  match x with DArr _ sh => ROk sh | _ => RErr OtherError end.
(* np.issubdtype(x.dtype, np.number): x.dtype is an AttributeError on anything but an array *)
Definition np_issubdtype_number (x : data) : res bool :=
  match x with DArr num _ => ROk num | _ => RErr OtherError end.
(* np.asarray(x) for a Python int / float (emitted only under an established isinstance(x, numbers.Number)): a 0-d numeric array *)
Definition np_asarray_number (x : data) : data :=
  match x with DNum => DArr true [] | _ => x end.
(* np.atleast_2d(x) for an ndarray x (emitted only where x is established to be an ndarray) *)
Definition np_atleast_2d (x : data) : data :=
  match x with
  | DArr num [] => DArr num [1; 1]
  | DArr num [n] => DArr num [1; n]
  | _ => x
  end.
(* len(x) for an ndarray x: the first axis; TypeError ("len() of unsized object") for a 0-d array *)
Definition arr_len (x : data) : res nat :=
  match x with DArr _ (n :: _) => ROk n | _ => RErr TypeError end.
(* the rows x[0], .., x[len(x)-1] of an ndarray: views with the same dtype and the remaining axes *)
Definition arr_rows (x : data) : list data :=
  match x with DArr num (n :: sh) => repeat (DArr num sh) n | _ => [] end.

(* x[i] = v for every row: numpy broadcasts v to the row's shape (ValueError otherwise) and casts to x's dtype; x keeps its
   descriptor.  A numeric value can be stored in any array; storing non-numeric values in a numeric array depends on the
   values (never the case for a row that went through check_vector) and is counted as a ValueError here. *)
Fixpoint bcast_rev (v r : list nat) {struct v} : bool :=       (* reversed shapes: v broadcastable to r *)
  match v, r with
  | [], _ => true
  | a :: v', b :: r' => ((a =? b) || (a =? 1)) && bcast_rev v' r'
  | a :: v', [] => (a =? 1) && bcast_rev v' []
  end.
Definition assignable (row v : data) : bool :=
  match row, v with
  | DArr rnum rsh, DArr vnum vsh => bcast_rev (rev vsh) (rev rsh) && (vnum || negb rnum)
  | _, _ => false
  end.
Definition arr_assign_rows (x : data) (vs : list data) : res data :=
  match x with
  | DArr num (n :: sh) => if forallb (assignable (DArr num sh)) vs then ROk x else RErr ValueError
  | _ => RErr TypeError
  end.

(* ------------------------------------------------------------------------------------------------ loops *)
(*   L = [X[j] for j in range(len(X))]           (or  L = X  for an ndarray X: items = arr_rows X)
     for i in range(n):  <body reading X[i], L[i], assigning L[i] and some state variables>
   The items are visited in order; the body receives the index, the item and the state, and returns the new L[i] and state;
   the first exception ends the loop; items beyond n are left as they are; X[i] with i >= len(X) is an IndexError.
   (A Definition around a fix on the list, so that a recursive call of the enclosing function on the item is structural.) *)
Definition for_items {St : Type} (body : nat -> data -> St -> res (data * St))
  : nat -> nat -> list data -> St -> res (list data * St) :=
  fix go (i n : nat) (l : list data) (st : St) {struct l} : res (list data * St) :=
    match n with
    | 0 => ROk (l, st)
    | S n' =>
        match l with
        | [] => RErr OtherError
        | xi :: r =>
            bind (body i xi st) (fun vs =>
            bind (go (S i) n' r (snd vs)) (fun rs =>
            ROk (fst vs :: fst rs, snd rs)))
        end
    end.

(* for v in items: <body without assignment> *)
Definition for_each {A : Type} (body : A -> res unit) : list A -> res unit :=
  fix go (l : list A) : res unit :=
    match l with
    | [] => ROk tt
    | a :: r => bind (body a) (fun _ => go r)
    end.

(* [e(v) for v in items] when e can raise: evaluated in order, the first exception wins *)
Definition map_res {A B : Type} (f : A -> res B) : list A -> res (list B) :=
  fix go (l : list A) : res (list B) :=
    match l with
    | [] => ROk []
    | a :: r => bind (f a) (fun b => bind (go r) (fun r' => ROk (b :: r')))
    end.

(* ------------------------------------------------------------------------------------------------ pinned test *)
(* np.unique on a list of ints: the distinct values (sorted by numpy; only the NUMBER of distinct values is used) *)
Definition np_unique (l : list nat) : list nat := nodup Nat.eq_dec l.

(* The test of check_n_sequences (pinned: the translator compares the source text of the test with this text)
     len(np.unique([len(t) for t in timesteps])) > 1 or any([len(np.unique([t[i] for t in timesteps])) > 1
                                                             for i in range(len(timesteps[0]))])
   `or` is lazy; the list inside any() is built completely (every t[i] is evaluated) before any() looks at it. *)
Definition timesteps_differ (ts : list (list nat)) : res bool :=
  if 1 <? length (np_unique (map (@length nat) ts)) then ROk true
  else match ts with
       | [] => RErr OtherError                                                                    (* timesteps[0]: IndexError *)
       | t0 :: _ =>
           bind (map_res (fun i => bind (map_res (fun t => tuple_get t i) ts)
                                        (fun col => ROk (1 <? length (np_unique col))))
                         (seq 0 (length t0)))
                (fun bs => ROk (existsb (fun b => b) bs))
       end.
