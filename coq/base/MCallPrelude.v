(* Vocabulary of the generated coq/gen/Gen_mcall.v (translator tools/vlib/py2coq_mcall.py): what `return_states` selects in
   Model._call and what the method returns.  Definitions only (lemmas: proofs/Gen_mcall_eq.v).  The result monad [py] is PyColl2's.

   retsel    : the three cases Model._call distinguishes on its `return_states` argument, in the order it tests them:
               `return_states == "all"` | `hasattr(return_states, "__iter__")` (an iterable of node names; names are node ids) |
               anything else (None, the default).
   sdict     : the dict `state = {}` built by the method: insertion-ordered, `d[k] = v` overwrites in place.
   selstate  : what `_call` returns: that dict, or the bare state array of the only output node. *)
From Coq Require Import List Bool Arith.
From RV Require Import base.PyColl.
Import ListNotations.

Inductive retsel := RsAll | RsNames (names : list node) | RsDefault.

Section SD.
Context {D : Type}.
Definition sdict := list (node * D).
Fixpoint sd_set (d : sdict) (k : node) (v : D) : sdict :=
  match d with
  | [] => [(k, v)]
  | (k', v') :: d' => if Nat.eqb k k' then (k, v) :: d' else (k', v') :: sd_set d' k v
  end.
Fixpoint sd_get (d : sdict) (k : node) : option D :=
  match d with [] => None | (k', v) :: d' => if Nat.eqb k k' then Some v else sd_get d' k end.
Inductive selstate := SelMap (d : sdict) | SelBare (a : D).
End SD.
Arguments sdict D : clear implicits.
Arguments selstate D : clear implicits.
