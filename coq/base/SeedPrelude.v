(* SeedPrelude — the Python / numpy vocabulary used by the code GENERATED from the seed plumbing of reservoirpy
   (tools/vlib/py2coq_seed.py -> coq/gen/Gen_seed.v, tie (T) of property C14):
       reservoirpy/utils/random.py     set_seed, rand_generator, noise
       reservoirpy/datasets/_seed.py   get_seed, set_seed
       reservoirpy/nodes/reservoirs/reservoir.py + base.py   which of W / Win / bias / Wfb / noise_generator receives `seed` resp. `rng`

   This file is trusted as the MEANING of that vocabulary in the provenance style of model/Prov.v.  It imports model/Prov.v for its
   TYPES only -- [root], [gstate] (root, requests served so far), [req], [draw], [mat], [gid] (names of generator objects) -- so that the
   generated functions and the hand model talk about the same provenance terms and no conversion stands between them.  None of the
   FUNCTIONS of Prov.v that model reservoirpy (do_set_seed, draw_src, noise, construct, do_init, ...) is used here: the dispatch on the
   seed argument, the module-level globals, object allocation and the draw at the stream's cursor are defined again, from what Python and
   numpy do.  The equalities between the two are proved in proofs/Gen_seed_eq.v.  Definitions only, no proofs. *)
From Coq Require Import List Arith Bool.
From RV Require Import model.Prov.
Import ListNotations.

(* ------------------------------------------------------------------------------------------------ exceptions *)
(* TypeError is itself.  Unmodelled: the construct leaves the provenance vocabulary (default_rng(None) = OS entropy with a root nobody
   can name; a seed that is a sequence / SeedSequence / BitGenerator; drawing from a copy of a legacy RandomState).  The generated
   functions are proved never to produce it on the argument forms of the model (None | int | Generator). *)
Inductive pyexc := TypeError | Unmodelled.
Inductive res (A : Type) := Ok (a : A) | Raise (e : pyexc).
Arguments Ok {A} a.
Arguments Raise {A} e.
Definition bind {A B : Type} (m : res A) (k : A -> res B) : res B :=
  match m with Ok a => k a | Raise e => Raise e end.

(* ------------------------------------------------------------------------------------------------ values of a `seed` argument *)
Inductive pyval :=
| VNone
| VInt (s : nat)            (* a Python int (non-negative: default_rng refuses the others); `type(v) is int` *)
| VNpInt (s : nat)          (* a numpy integer scalar: isinstance(v, np.integer) but `type(v) is int` is False *)
| VGenerator (g : gid)      (* a reference to a numpy.random.Generator object (shared, stateful) *)
| VRandomState (k : nat)    (* a legacy numpy.random.RandomState object whose get_state() is named k *)
| VBool (b : bool)          (* True / False: isinstance(v, int) holds (bool is a subclass of int) but `type(v) is int` does not *)
| VOther.                   (* anything else: float, str, list, SeedSequence ... *)

Definition py_is_none (v : pyval) : bool := match v with VNone => true | _ => false end.                  (* v is None *)
Definition py_type_is_int (v : pyval) : bool := match v with VInt _ => true | _ => false end.            (* type(v) is int *)
Definition py_isinstance_pyint (v : pyval) : bool :=                                                     (* isinstance(v, int) *)
  match v with VInt _ | VBool _ => true | _ => false end.
Definition py_isinstance_int (v : pyval) : bool :=                                                       (* isinstance(v, (int, np.integer)) *)
  match v with VInt _ | VNpInt _ | VBool _ => true | _ => false end.
Definition py_isinstance_Generator (v : pyval) : bool := match v with VGenerator _ => true | _ => false end.
Definition py_isinstance_RandomState (v : pyval) : bool := match v with VRandomState _ => true | _ => false end.

(* ------------------------------------------------------------------------------------------------ generator values *)
(* what an expression of type Generator evaluates to: a reference to an object that already exists, a brand-new object (position 0,
   referenced by nobody else yet), or a brand-new object over an MT19937 bit generator whose state is a copy of a RandomState's *)
Inductive genval := GRef (g : gid) | GNew (s : gstate) | GLegacyCopy (k : nat).

(* numpy.random.default_rng(v): an int roots a fresh stream in that int; a Generator is returned as it is *)
Definition default_rng (v : pyval) : res genval :=
  match v with
  | VInt s | VNpInt s => Ok (GNew (Seeded s, []))
  | VGenerator g => Ok (GRef g)
  | VNone | VRandomState _ | VBool _ | VOther => Raise Unmodelled
  end.
(* `seed` used as a Generator; the translator emits it only under an established isinstance(seed, Generator) *)
Definition generator_of (v : pyval) : res genval :=
  match v with VGenerator g => Ok (GRef g) | _ => Raise Unmodelled end.
(* the three pinned statements   mt19937 = MT19937(); mt19937.state = seed.get_state(); return Generator(mt19937) *)
Definition legacy_generator (v : pyval) : res genval :=
  match v with VRandomState k => Ok (GLegacyCopy k) | _ => Raise Unmodelled end.

(* ------------------------------------------------------------------------------------------------ module-level state *)
(* the heap of Generator objects and the module globals the translated functions read and write *)
Record world := mkWorld {
  w_SEED : pyval;             (* reservoirpy.utils.random.__SEED *)
  w_global_rg : gid;          (* reservoirpy.utils.random.__global_rg : a reference *)
  w_binds : nat;              (* how many new objects have been bound to __global_rg since import (names the next one, Prov.v's GGlob) *)
  w_np_seed : pyval;          (* numpy's legacy global RandomState: the argument of the last np.random.seed *)
  w_heap : gid -> gstate;     (* the Generator objects: root and requests served *)
  w_ds_seed : pyval }.        (* reservoirpy.datasets._seed._DEFAULT_SEED *)

Definition gid_same (a b : gid) : bool :=
  match a, b with
  | GGlob x, GGlob y | GUser x, GUser y | GPriv x, GPriv y => x =? y
  | _, _ => false
  end.
Definition heap_set (h : gid -> gstate) (k : gid) (v : gstate) : gid -> gstate :=
  fun k' => if gid_same k k' then v else h k'.
Definition with_heap (w : world) (h : gid -> gstate) : world :=
  mkWorld (w_SEED w) (w_global_rg w) (w_binds w) (w_np_seed w) h (w_ds_seed w).

(* reading a global *)
Definition read_SEED (w : world) : pyval := w_SEED w.
Definition read_global_rg (w : world) : genval := GRef (w_global_rg w).
Definition read_DEFAULT_SEED (w : world) : pyval := w_ds_seed w.
(* `global X` ... `X = e` *)
Definition assign_SEED (w : world) (v : pyval) : world :=
  mkWorld v (w_global_rg w) (w_binds w) (w_np_seed w) (w_heap w) (w_ds_seed w).
Definition assign_DEFAULT_SEED (w : world) (v : pyval) : world :=
  mkWorld (w_SEED w) (w_global_rg w) (w_binds w) (w_np_seed w) (w_heap w) v.
(* binding a brand-new object to the global allocates it (named by its rank, as Prov.v names the successive global generators);
   objects that captured the old one keep it: nothing is removed from the heap *)
Definition assign_global_rg (w : world) (v : genval) : res world :=
  match v with
  | GRef g => Ok (mkWorld (w_SEED w) g (w_binds w) (w_np_seed w) (w_heap w) (w_ds_seed w))
  | GNew s => let g := GGlob (S (w_binds w)) in
              Ok (mkWorld (w_SEED w) g (S (w_binds w)) (w_np_seed w) (heap_set (w_heap w) g s) (w_ds_seed w))
  | GLegacyCopy _ => Raise Unmodelled
  end.
(* np.random.seed(v) *)
Definition np_random_seed (w : world) (v : pyval) : res world :=
  match v with
  | VNone | VInt _ | VNpInt _ => Ok (mkWorld (w_SEED w) (w_global_rg w) (w_binds w) v (w_heap w) (w_ds_seed w))
  | VBool _ => Raise Unmodelled
  | VGenerator _ | VRandomState _ | VOther => Raise TypeError
  end.

(* ------------------------------------------------------------------------------------------------ draws *)
(* getattr(rng, dist)( **kwargs, size=shape): ONE request served at the cursor of the stream of the object rng; the produced array is the
   provenance term (root, requests served before, this request); the object advances by this request.  dist / kwargs are interned
   (Prov.v: q_dist, q_args), shape = (rows, cols). *)
Definition rng_draw (w : world) (rng : gid) (dist kwargs : nat) (shape : nat * nat) : world * draw :=
  let s := w_heap w rng in
  let r := mkReq dist (fst shape) (snd shape) kwargs in
  (with_heap w (heap_set (w_heap w) rng (fst s, snd s ++ [r])), mkDraw (fst s) (snd s) r 0).
(* gain * <fresh draw>: the gain is recorded as the post-processing of the draw (gains are interned; 0 <-> 0.0) *)
Definition py_scale (gain : nat) (d : draw) : mat := MDraw (mkDraw (d_root d) (d_trace d) (d_req d) gain).
(* abs(gain) > 0.0 *)
Definition py_abs_gt0 (gain : nat) : bool := negb (gain =? 0).
(* np.zeros(shape) *)
Definition np_zeros (shape : nat * nat) : mat := MZero (fst shape) (snd shape).

(* ------------------------------------------------------------------------------------------------ what callers do with a generator *)
(* mat_gen._random_sparse & co:  rg = rand_generator(seed); rg.<dist>(...)  -- one draw on the value, post-processed by `post`.
   A brand-new object is dropped afterwards (nothing in the heap changes). *)
Definition draw_on (w : world) (v : genval) (r : req) (post : nat) : res (world * draw) :=
  match v with
  | GRef g => let s := w_heap w g in
              Ok (with_heap w (heap_set (w_heap w) g (fst s, snd s ++ [r])), mkDraw (fst s) (snd s) r post)
  | GNew s => Ok (w, mkDraw (fst s) (snd s) r post)
  | GLegacyCopy _ => Raise Unmodelled
  end.
(* Reservoir.__init__:  rng = rand_generator(seed); ... partial(noise, rng=rng)  -- the value is KEPT by the node; a brand-new object
   is allocated under the name `name` (Prov.v: GPriv i for node i) *)
Definition keep_gen (w : world) (name : gid) (v : genval) : res (world * gid) :=
  match v with
  | GRef g => Ok (w, g)
  | GNew s => Ok (with_heap w (heap_set (w_heap w) name s), name)
  | GLegacyCopy _ => Raise Unmodelled
  end.

(* ------------------------------------------------------------------------------------------------ the Reservoir seed table *)
Inductive component := CW | CWin | CBias | CWfb | CNoise.
(* the expression a component's initialiser receives as `seed=` (resp. noise receives as `rng=`) in Reservoir.__init__:
   the constructor's `seed` argument as given, the local `rng`, or the literal None *)
Inductive seed_expr := ESeed | ERng | ENone.
Definition component_eqb (a b : component) : bool :=
  match a, b with CW, CW | CWin, CWin | CBias, CBias | CWfb, CWfb | CNoise, CNoise => true | _, _ => false end.
Fixpoint table_get (t : list (component * seed_expr)) (c : component) : option seed_expr :=
  match t with
  | [] => None
  | (c', e) :: t' => if component_eqb c c' then Some e else table_get t' c
  end.
(* the generator a component draws from: every initialiser starts with  rg = rand_generator(seed)  on what it received
   (rand_gen = the translated rand_generator; rng = the object kept by the node) *)
Definition receives (rand_gen : world -> pyval -> res genval) (e : option seed_expr) (w : world) (seed : pyval) (rng : gid) : res genval :=
  match e with
  | Some ESeed => rand_gen w seed
  | Some ERng => rand_gen w (VGenerator rng)
  | Some ENone => rand_gen w VNone
  | None => Raise Unmodelled
  end.
