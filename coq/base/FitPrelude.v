(* FitPrelude — the Python vocabulary used by the code GENERATED from the offline-training skeleton of reservoirpy
   (tools/vlib/py2coq_fit.py -> coq/gen/Gen_fit.v, tie (T) of property C11):
       reservoirpy/node.py   Node.is_trainable (getter and setter), Node.is_trained_offline, Node.is_trained_online, Node.initialize_buffers, Node.clean_buffers,
                             Node.get_buffer, _partial_backward_default, Node.partial_fit, Node.fit

   This file is trusted as the MEANING of that vocabulary and is written independently of the hand model (model/TrainSem.v): it
   imports nothing of the development.  Definitions only, no proofs.

   Relation to base/CtxPrelude.v (the vocabulary of the C08 translator, which tools/vlib/py2coq_fit.py subclasses).  The monad is the
   same -- a computation over a mutable world S is S -> S * outcome A, the world SURVIVES an exception -- and [ret], [raise], [bind],
   [py_for] below are, letter for letter, the definitions of CtxPrelude.  They are repeated here instead of imported for one reason:
   CtxPrelude's exception type is a closed enumeration of four classes (RuntimeError, TypeError, CheckError, ForwardError) and this
   code raises ValueError (warm-up), IndexError (Y[i]), AttributeError (get_buffer), KeyError (d[k]), TypeError (calling an attribute that is None)
   and RE-RAISES whatever a learning-rule callback raised ([Raised k]: any other exception, k names it).  What is new here:
     * [try_except_reraise body handler]  =  try: body  except Exception: handler; raise
       (the handler runs only when the body raised; the SAME exception is raised again afterwards, unless the handler itself
       raises, in which case that one propagates).  Every class of [pyexc] is a subclass of Exception; KeyboardInterrupt /
       SystemExit / GeneratorExit, which `except Exception` does not catch, are outside the model.
     * Python list OBJECTS: `[]` allocates a fresh reference ([new_list]); an attribute holds the reference; `l.append(x)` updates the
       object in the store ([list_append]).  Hence `self._X = self._Y = []` (one evaluation of `[]`, two attribute writes) makes both
       attributes denote ONE object, and an append through either name is seen through the other.
     * the `_buffers` dict: an association list name -> array in insertion order; `len(d)`, `dict()`, `d.get(k)`, `d[k]`.
     * sequences: `X[i]` on a Python list ([py_index]: IndexError outside 0 <= i < len -- i is a loop index of range(len(..)), never
       negative), `a.shape[0]` = number of rows, `a[w:]` = [skipn w] for a NATURAL w (a negative warm-up, for which Python would count
       from the end, is outside the model: `warmup` has type nat).
     * the callbacks stored on the node (`_backward`, `_partial_backward`, `_buffers_initializer`) are ARBITRARY computations over the
       world (parameters of the generated section): they may read and write any object and may raise anything at any point.  Calling
       an attribute that is None is Python's TypeError ([py_call_attr]). *)
From Coq Require Import List Arith Bool.
Import ListNotations.

(* ------------------------------------------------------------------------------------------------ outcomes *)
Inductive pyexc :=
| TypeError | RuntimeError | ValueError | IndexError | AttributeError | KeyError
| Raised (k : nat).      (* any other exception (subclass of Exception) raised inside a callback; k identifies it *)
Inductive outcome (A : Type) := Ok (a : A) | Exc (e : pyexc).
Arguments Ok {A} a.
Arguments Exc {A} e.

Definition M (S A : Type) : Type := S -> S * outcome A.
Definition ret {S A : Type} (a : A) : M S A := fun s => (s, Ok a).
Definition raise {S A : Type} (e : pyexc) : M S A := fun s => (s, Exc e).
Definition bind {S A B : Type} (m : M S A) (k : A -> M S B) : M S B :=
  fun s => match m s with
           | (s1, Ok a) => k a s1
           | (s1, Exc e) => (s1, Exc e)
           end.

(* try: body  except Exception: handler; raise *)
Definition try_except_reraise {S A : Type} (body : M S A) (handler : M S unit) : M S A :=
  fun s => match body s with
           | (s1, Ok a) => (s1, Ok a)
           | (s1, Exc e) => match handler s1 with
                            | (s2, Ok _) => (s2, Exc e)
                            | (s2, Exc e') => (s2, Exc e')
                            end
           end.

(* for x in l: f x *)
Fixpoint py_for {S B : Type} (l : list B) (f : B -> M S unit) : M S unit :=
  match l with
  | [] => ret tt
  | x :: rest => bind (f x) (fun _ => py_for rest f)
  end.

(* ------------------------------------------------------------------------------------------------ the world *)
Section Objects.
Variable P : Type.          (* everything a node keeps outside the attributes below (params, hypers, state): touched by callbacks only *)
Variable Row : Type.        (* one timestep of data; a sequence (an array of shape (timesteps, features)) is a list of rows *)
Variable Buf : Type.        (* the content of one buffer array *)
Notation B := (list Row).

(* the attributes the translated code touches.  A node is named by a number. *)
Record obj := mkObj {
  a_trainable : bool;                 (* _trainable *)
  a_has_backward : bool;              (* _backward is not None *)
  a_has_train : bool;                 (* _train is not None *)
  a_has_partial_backward : bool;      (* _partial_backward is not None *)
  a_has_buffers_initializer : bool;   (* _buffers_initializer is not None *)
  a_is_initialized : bool;            (* _is_initialized *)
  a_fitted : bool;                    (* _fitted *)
  a_buffers : list (nat * Buf);       (* _buffers : dict name -> array *)
  a_X : nat;                          (* _X : a reference to a list object *)
  a_Y : nat;                          (* _Y : a reference to a list object *)
  a_params : P }.
(* the store of node objects, the store of list objects, the next unused reference *)
Record world := mkWorld { w_obj : nat -> obj; w_list : nat -> list B; w_next : nat }.

Definition oupd (h : nat -> obj) (n : nat) (o : obj) : nat -> obj := fun k => if Nat.eqb k n then o else h k.
Definition set_fitted (o : obj) (b : bool) : obj :=
  mkObj (a_trainable o) (a_has_backward o) (a_has_train o) (a_has_partial_backward o) (a_has_buffers_initializer o) (a_is_initialized o) b
        (a_buffers o) (a_X o) (a_Y o) (a_params o).
Definition set_buffers (o : obj) (d : list (nat * Buf)) : obj :=
  mkObj (a_trainable o) (a_has_backward o) (a_has_train o) (a_has_partial_backward o) (a_has_buffers_initializer o) (a_is_initialized o) (a_fitted o)
        d (a_X o) (a_Y o) (a_params o).
Definition set_X (o : obj) (r : nat) : obj :=
  mkObj (a_trainable o) (a_has_backward o) (a_has_train o) (a_has_partial_backward o) (a_has_buffers_initializer o) (a_is_initialized o) (a_fitted o)
        (a_buffers o) r (a_Y o) (a_params o).
Definition set_Y (o : obj) (r : nat) : obj :=
  mkObj (a_trainable o) (a_has_backward o) (a_has_train o) (a_has_partial_backward o) (a_has_buffers_initializer o) (a_is_initialized o) (a_fitted o)
        (a_buffers o) (a_X o) r (a_params o).
Definition set_trainable (o : obj) (b : bool) : obj :=
  mkObj b (a_has_backward o) (a_has_train o) (a_has_partial_backward o) (a_has_buffers_initializer o) (a_is_initialized o) (a_fitted o)
        (a_buffers o) (a_X o) (a_Y o) (a_params o).
Definition wupd (w : world) (n : nat) (o : obj) : world := mkWorld (oupd (w_obj w) n o) (w_list w) (w_next w).

(* node.<attr>  /  node.<attr> = v *)
Definition rd {A : Type} (f : obj -> A) (n : nat) : M world A := fun w => (w, Ok (f (w_obj w n))).
Definition wr_trainable (n : nat) (b : bool) : M world unit := fun w => (wupd w n (set_trainable (w_obj w n) b), Ok tt).
Definition wr_fitted (n : nat) (b : bool) : M world unit := fun w => (wupd w n (set_fitted (w_obj w n) b), Ok tt).
Definition wr_buffers (n : nat) (d : list (nat * Buf)) : M world unit := fun w => (wupd w n (set_buffers (w_obj w n) d), Ok tt).
Definition wr_X (n : nat) (r : nat) : M world unit := fun w => (wupd w n (set_X (w_obj w n) r), Ok tt).
Definition wr_Y (n : nat) (r : nat) : M world unit := fun w => (wupd w n (set_Y (w_obj w n) r), Ok tt).

(* []  : a NEW list object *)
Definition new_list : M world nat :=
  fun w => (mkWorld (w_obj w) (fun r => if Nat.eqb r (w_next w) then [] else w_list w r) (S (w_next w)), Ok (w_next w)).
(* l.append(x) on the list object r *)
Definition list_append (r : nat) (x : B) : M world unit :=
  fun w => (mkWorld (w_obj w) (fun k => if Nat.eqb k r then w_list w r ++ [x] else w_list w k) (w_next w), Ok tt).

(* l[i] for a loop index i >= 0 *)
Definition py_index {S T : Type} (l : list T) (i : nat) : M S T :=
  match nth_error l i with Some x => ret x | None => raise IndexError end.
(* a.shape[0], a[w:] *)
Definition py_shape0 (a : B) : nat := length a.
Definition py_slice_from (w : nat) (a : B) : B := skipn w a.

(* the _buffers dict *)
Definition dict_len (d : list (nat * Buf)) : nat := length d.
Definition dict_empty : list (nat * Buf) := [].
Fixpoint dict_get (d : list (nat * Buf)) (k : nat) : option Buf :=
  match d with
  | [] => None
  | (k', v) :: r => if Nat.eqb k' k then Some v else dict_get r k
  end.
(* d[k] *)
Definition dict_item (d : list (nat * Buf)) (k : nat) : M world Buf :=
  match dict_get d k with Some v => ret v | None => raise KeyError end.

(* an arbitrary Python object handed to a setter, as far as `type(v) is bool` can tell: Some b = the bool b, None = anything else
   (an int, a numpy bool_, a subclass instance ... : `type(v) is bool` is False for all of them) *)
Definition pyval := option bool.

(* clean_tempfile(node)  (utils/parallel.py, pinned textually by the translator): gc.collect() and os.remove of the node's memmap
   files, OSError swallowed; temp_registry is a defaultdict(list), so the lookup cannot raise.  Nothing of the world changes. *)
Definition py_clean_tempfile (n : nat) : M world unit := ret tt.

(* node.<callback>(..) where the attribute may be None: calling None is a TypeError *)
Definition py_call_attr {A : Type} (present : bool) (m : M world A) : M world A := if present then m else raise TypeError.

End Objects.

Arguments mkObj {P Buf} _ _ _ _ _ _ _ _ _ _ _.
Arguments a_trainable {P Buf} _.
Arguments a_has_backward {P Buf} _.
Arguments a_has_train {P Buf} _.
Arguments a_has_partial_backward {P Buf} _.
Arguments a_has_buffers_initializer {P Buf} _.
Arguments a_is_initialized {P Buf} _.
Arguments a_fitted {P Buf} _.
Arguments a_buffers {P Buf} _.
Arguments a_X {P Buf} _.
Arguments a_Y {P Buf} _.
Arguments a_params {P Buf} _.
Arguments mkWorld {P Row Buf} _ _ _.
Arguments w_obj {P Row Buf} _ _.
Arguments w_list {P Row Buf} _ _.
Arguments w_next {P Row Buf} _.
Arguments oupd {P Buf} _ _ _ _.
Arguments set_fitted {P Buf} _ _.
Arguments set_trainable {P Buf} _ _.
Arguments set_buffers {P Buf} _ _.
Arguments set_X {P Buf} _ _.
Arguments set_Y {P Buf} _ _.
Arguments wupd {P Row Buf} _ _ _.
Arguments rd {P Row Buf A} _ _ _.
Arguments wr_fitted {P Row Buf} _ _ _.
Arguments wr_trainable {P Row Buf} _ _ _.
Arguments wr_buffers {P Row Buf} _ _ _.
Arguments wr_X {P Row Buf} _ _ _.
Arguments wr_Y {P Row Buf} _ _ _.
Arguments new_list {P Row Buf} _.
Arguments list_append {P Row Buf} _ _ _.
Arguments py_index {S T} _ _ _.
Arguments py_shape0 {Row} _.
Arguments py_slice_from {Row} _ _.
Arguments dict_len {Buf} _.
Arguments dict_empty {Buf}.
Arguments dict_get {Buf} _ _.
Arguments dict_item {P Row Buf} _ _ _.
Arguments py_clean_tempfile {P Row Buf} _ _.
Arguments py_call_attr {P Row Buf A} _ _ _.
