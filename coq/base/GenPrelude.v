(* Vocabulary used by the GENERATED kernel definitions (coq/gen/Gen_*.v, tools/vlib/py2coq_la.py) on top of base/LA.v:
   dimension-free variants of the LA operations (numpy knows the shape of every array; the generated code does not carry
   dimensions, so the number of columns is read off the first row) and the two pinned primitives (add_bias).
   No proofs here; the laws used to relate generated definitions to the hand-written models are in proofs/Gen_*_eq.v. *)
From Coq Require Import List Bool Arith ZArith.
From RV Require Import base.Num base.LA.
Import ListNotations.

Section GenPrelude.
Context {F : Type} `{Num F}.
Notation vec := (list F).
Notation mat := (list (list F)).

(* abs(x) on a Python float *)
Definition nabs (x : F) : F := if nltb x n0 then nopp x else x.
(* A.shape[1] *)
Definition mcols (A : mat) : nat := match A with [] => 0 | r :: _ => length r end.
(* A.T  (2-D) *)
Definition mT (A : mat) : mat := transpose A (mcols A).
(* A @ B  (2-D @ 2-D) *)
Definition mmul (A B : mat) : mat := mm A B (mcols B).
(* v @ A  ((1,n) @ (n,m)) *)
Definition vmm (v : vec) (A : mat) : vec := vm v A (mcols A).
(* element-wise division of two vectors of the same shape *)
Definition vdiv := vzip (F:=F) ndiv.
(* utils/validation.py add_bias on one row (1, d) and on a (T, d) array: the constant 1 is the FIRST column *)
Definition add_bias_row (x : vec) : vec := n1 :: x.
Definition add_bias_mat (X : mat) : mat := map (cons n1) X.
End GenPrelude.
