(* Vocabulary used by the GENERATED kernel definitions (coq/gen/Gen_*.v, tools/vlib/py2coq_la.py) on top of base/LA.v:
   dimension-free variants of the LA operations (numpy knows the shape of every array; the generated code does not carry
   dimensions, so the number of columns is read off the first row) and the two pinned primitives (add_bias).
   No proofs here; the laws used to relate generated definitions to the hand-written models are in proofs/Gen_*_eq.v. *)
From Coq Require Import List Bool Arith ZArith.
From RV Require Import base.Num base.LA.
Import ListNotations.

Section GenPrelude.
Context {F : Type} `{Num F}.
Notation vec := (list F).
Notation mat := (list (list F)).

(* abs(x) on a Python float *)
Definition nabs (x : F) : F := if nltb x n0 then nopp x else x.
(* A.shape[1] *)
Definition mcols (A : mat) : nat := match A with [] => 0 | r :: _ => length r end.
(* A.T  (2-D) *)
Definition mT (A : mat) : mat := transpose A (mcols A).
(* A @ B  (2-D @ 2-D) *)
Definition mmul (A B : mat) : mat := mm A B (mcols B).
(* v @ A  ((1,n) @ (n,m)) *)
Definition vmm (v : vec) (A : mat) : vec := vm v A (mcols A).
(* element-wise division of two vectors of the same shape *)
Definition vdiv := vzip (F:=F) ndiv.
(* utils/validation.py add_bias on one row (1, d) and on a (T, d) array: the constant 1 is the FIRST column *)
Definition add_bias_row (x : vec) : vec := n1 :: x.
Definition add_bias_mat (X : mat) : mat := map (cons n1) X.
End GenPrelude.

(* ---- vocabulary of the window nodes (nodes/reservoirs/nvar.py, nodes/delay.py, nodes/concat.py) ---- *)
Section GenWindows.
Context {F : Type} `{Num F}.
Notation vec := (list F).
Notation mat := (list (list F)).

(* np.roll(A, 1, axis=0): the last row comes first *)
Definition roll1 (A : mat) : mat := match A with [] => [] | _ => last A [] :: removelast A end.
(* A[0] = x *)
Definition set_row0 (A : mat) (x : vec) : mat := match A with [] => [] | _ :: A' => x :: A' end.
(* A[::s, :] : rows 0, s, 2s, ...  (k = distance to the next selected row) *)
Fixpoint take_every_from {A} (s k : nat) (l : list A) : list A :=
  match l with
  | [] => []
  | a :: l' => match k with O => a :: take_every_from s (s - 1) l' | S k' => take_every_from s k' l' end
  end.
Definition take_every {A} (s : nat) (l : list A) : list A := take_every_from s 0 l.
(* out[:len(v)] = v  and  out[k:] = v  on a 1-column array (numpy requires the shapes to agree: see the side conditions of the
   equality lemmas) *)
Definition vset_prefix (out v : vec) : vec := v ++ skipn (length v) out.
Definition vset_from (out : vec) (k : nat) (v : vec) : vec := firstn k out ++ v.
(* np.prod(lin[idx], axis=1): one product of selected components per index tuple *)
Definition gather_prod (lin : vec) (idx : list (list nat)) : vec :=
  map (fun c => fold_right nmul n1 (map (fun i => nth i lin n0) c)) idx.
(* collections.deque(maxlen=m): appendleft drops the right end when full; pop takes the right end *)
Definition dq_appendleft (m : nat) (buf : mat) (x : vec) : mat := firstn m (x :: buf).
Definition dq_pop (buf : mat) : vec * mat := (last buf [], removelast buf).
End GenWindows.

(* ---- vocabulary of the dataset loops (datasets/_chaos.py): arrays filled element by element inside `for i in range(a, b)` ---- *)
Section GenLoops.
Context {F : Type} `{Num F}.
Notation vec := (list F).
Notation mat := (list (list F)).
(* X[i] = v   (no effect out of bounds: numpy would raise IndexError; the equality lemmas carry the bounds) *)
Fixpoint vupd (i : nat) (v : F) (l : vec) : vec :=
  match l with
  | [] => []
  | x :: l' => match i with O => v :: l' | S j => x :: vupd j v l' end
  end.
(* A[i] = row   and   A[i][j] = v *)
Fixpoint mupd_row (i : nat) (r : vec) (A : mat) : mat :=
  match A with
  | [] => []
  | x :: A' => match i with O => r :: A' | S j => x :: mupd_row j r A' end
  end.
Definition mupd (i j : nat) (v : F) (A : mat) : mat := mupd_row i (vupd j v (nth i A [])) A.
(* np.sum(y[lo:hi]) on a 1-column array *)
Definition vslice_sum (y : vec) (lo hi : nat) : F := vsum (firstn (hi - lo) (skipn lo y)).
(* for i in range(a, b): st = body st i *)
Definition for_range {St} (a b : nat) (body : St -> nat -> St) (st : St) : St := fold_left body (seq a (b - a)) st.
End GenLoops.
