(* ParPrelude — the meaning of the Python / joblib constructs used by the parallel glue of reservoirpy/nodes/esn.py
   (_sort_and_unpack, the ESN.run and ESN.fit dispatches), as read by the translator tools/vlib/py2coq_par.py
   (tie T of C09).  TRUSTED: definitions only (lemmas: proofs/Gen_parallel_eq.v).

   * a computation that may raise is a [res A]: [Ok a] | [Raise e].  [Opaque] is raised by an operation on a payload the
     vocabulary does not interpret (len / [0] of an ndarray): the model fails closed instead of guessing.
   * tuple (idx, states, last_states) returned by _run_fn : [nat * pdict V * L]  ([tup0] [tup1] [tup2]).
   * dict : insertion-ordered association list with string keys.  [dict_set] overwrites IN PLACE an existing key (Python keeps the
     position of a key that is re-assigned) and appends a new one; `d[k]` = [dict_get] (KeyError); `d.keys()`; `len(d)`.
     `{k: e for k in ks}` = [dict_comp] (left to right, later duplicates overwrite); `[e for s in l]` = [list_comp].
   * a value stored in the RESULT dict is a [pv V]: a list of payloads ([PList]) or one payload ([PItem]); `len`, `[i]`.
   * `sorted(l, key=k)` = [py_sorted k l]: STABLE insertion sort on a natural key (Python's sorted is stable).
   * `for n, s in d.items(): body` = [for_items]: the items of d at loop entry, left to right, the dict threaded through the body.
     The translator only accepts bodies whose single write is `d[n] = e` on the key being visited, for which iterating the
     snapshot and iterating the live dict coincide.
   * `enumerate(zip(a, b))` = [py_enumerate (py_zip a b)] (zip stops at the shorter list).
   * `Parallel(n_jobs, backend)(delayed(f)(args) for ...)` = [parallel order f tasks]: [tasks] is the list of argument tuples in
     GENERATION order; they are executed -- and their results handed back -- in the order [order] (a list of task numbers), about
     which the theorems assume only [Permutation order (seq 0 (length tasks))].  joblib itself returns the results in
     submission order: this is a deliberately WEAKER contract (results in COMPLETION order), so that what is proved about
     _sort_and_unpack does not depend on joblib's ordering guarantee.  n_jobs and backend do not occur in the meaning.
   * [parallel_w]: the same for tasks with an effect on a shared world W that may raise: tasks are run one after the other in
     the order [order]; the first exception stops the dispatch and leaves the world as it was at that point (interleavings
     INSIDE the tasks are the business of model/Conc.v, not of this vocabulary).
   * `try: B except Exception: H; raise` = [try_reraise B H]. *)
From Coq Require Import List Arith Bool ZArith.
From Coq Require String.
Import ListNotations.

Inductive pexc := KeyError | IndexError | Opaque | TaskError.
Inductive res (A : Type) := Ok (a : A) | Raise (e : pexc).
Arguments Ok {A} a. Arguments Raise {A} e.
Definition bind {A B} (x : res A) (f : A -> res B) : res B := match x with Ok a => f a | Raise e => Raise e end.

Definition key := String.string.
Definition pdict (V : Type) := list (key * V).

Definition is_none {A} (o : option A) : bool := match o with None => true | Some _ => false end.

Section Tup.
Context {V L : Type}.
Definition tup0 (s : nat * pdict V * L) : nat := fst (fst s).
Definition tup1 (s : nat * pdict V * L) : pdict V := snd (fst s).
Definition tup2 (s : nat * pdict V * L) : L := snd s.
End Tup.

Section Dict.
Context {V : Type}.
Fixpoint dict_lookup (d : pdict V) (k : key) : option V :=
  match d with [] => None | (k', v) :: d' => if String.eqb k k' then Some v else dict_lookup d' k end.
Definition dict_get (d : pdict V) (k : key) : res V := match dict_lookup d k with Some v => Ok v | None => Raise KeyError end.
Fixpoint dict_set (d : pdict V) (k : key) (v : V) : pdict V :=
  match d with
  | [] => [(k, v)]
  | (k', v') :: d' => if String.eqb k k' then (k', v) :: d' else (k', v') :: dict_set d' k v
  end.
Definition dict_keys (d : pdict V) : list key := map fst d.
Definition dict_len (d : pdict V) : nat := length d.
Fixpoint dict_comp_from (acc : pdict V) (ks : list key) (f : key -> res V) : res (pdict V) :=
  match ks with
  | [] => Ok acc
  | k :: ks' => bind (f k) (fun v => dict_comp_from (dict_set acc k v) ks' f)
  end.
Definition dict_comp (ks : list key) (f : key -> res V) : res (pdict V) := dict_comp_from [] ks f.
Fixpoint for_items {W : Type} (items : list (key * W)) (body : pdict V -> key -> W -> res (pdict V)) (d : pdict V) : res (pdict V) :=
  match items with
  | [] => Ok d
  | (k, s) :: items' => bind (body d k s) (fun d' => for_items items' body d')
  end.
End Dict.

Fixpoint list_comp {A B} (l : list A) (f : A -> res B) : res (list B) :=
  match l with
  | [] => Ok []
  | a :: l' => bind (f a) (fun b => bind (list_comp l' f) (fun r => Ok (b :: r)))
  end.

Definition list_get {A} (l : list A) (i : nat) : res A := match nth_error l i with Some a => Ok a | None => Raise IndexError end.
Definition list_last {A} (l : list A) : res A := match rev l with a :: _ => Ok a | [] => Raise IndexError end.     (* l[-1] *)

Inductive pv (V : Type) := PItem (v : V) | PList (l : list V).
Arguments PItem {V} v. Arguments PList {V} l.
Definition pv_len {V} (s : pv V) : res nat := match s with PList l => Ok (length l) | PItem _ => Raise Opaque end.
Definition pv_get {V} (s : pv V) (i : nat) : res (pv V) :=
  match s with
  | PList l => match nth_error l i with Some v => Ok (PItem v) | None => Raise IndexError end
  | PItem _ => Raise Opaque
  end.

(* what _sort_and_unpack returns: the dict, or one of its values *)
Inductive unpacked (V : Type) := UDict (d : pdict (pv V)) | UVal (s : pv V).
Arguments UDict {V} d. Arguments UVal {V} s.

Section Sorted.
Context {A : Type}.
Variable k : A -> nat.
Fixpoint insert_key (p : A) (l : list A) : list A :=
  match l with
  | [] => [p]
  | q :: l' => if k p <=? k q then p :: l else q :: insert_key p l'
  end.
Fixpoint py_sorted (l : list A) : list A :=
  match l with [] => [] | p :: l' => insert_key p (py_sorted l') end.
End Sorted.

Definition py_zip {A B} (a : list A) (b : list B) : list (A * B) := combine a b.
Definition py_enumerate {A} (l : list A) : list (nat * A) := combine (seq 0 (length l)) l.

Definition parallel {T R} (order : list nat) (f : T -> R) (tasks : list T) : list R :=
  flat_map (fun j => match nth_error tasks j with Some t => [f t] | None => [] end) order.

Fixpoint parallel_w_from {W T R} (order : list nat) (f : T -> W -> W * res R) (tasks : list T) (w : W) (acc : list R) : W * res (list R) :=
  match order with
  | [] => (w, Ok acc)
  | j :: order' =>
      match nth_error tasks j with
      | None => parallel_w_from order' f tasks w acc
      | Some t => match f t w with
                  | (w', Ok r) => parallel_w_from order' f tasks w' (acc ++ [r])
                  | (w', Raise e) => (w', Raise e)
                  end
      end
  end.
Definition parallel_w {W T R} (order : list nat) (f : T -> W -> W * res R) (tasks : list T) (w : W) : W * res (list R) :=
  parallel_w_from order f tasks w [].

Definition try_reraise {W A} (body : W -> W * res A) (handler : W -> W) (w : W) : W * res A :=
  match body w with
  | (w', Ok a) => (w', Ok a)
  | (w', Raise e) => (handler w', Raise e)
  end.

(* `self.backend != "sequential"`: the backend attribute is None or a string *)
Definition backend_ne (b : option String.string) (s : String.string) : bool :=
  match b with None => true | Some b' => negb (String.eqb b' s) end.
