(* List lemmas missing from the 8.16 standard library. *)
From Coq Require Import List Arith Lia.
Import ListNotations.

Lemma nth_firstn_lt {A} (l : list A) : forall n i d, i < n -> nth i (firstn n l) d = nth i l d.
Proof.
  induction l as [|a l IH]; intros n i d Hi.
  - rewrite firstn_nil. reflexivity.
  - destruct n as [|n]; [lia|]. destruct i as [|i]; cbn; [reflexivity|]. apply IH. lia.
Qed.

Lemma nth_repeat_any {A} (a d : A) n i : i < n -> nth i (repeat a n) d = a.
Proof. revert i; induction n as [|n IH]; intros i Hi; [lia|]. destruct i; cbn; [reflexivity|]. apply IH. lia. Qed.

Lemma firstn_app_le {A} (l1 l2 : list A) n : n <= length l1 -> firstn n (l1 ++ l2) = firstn n l1.
Proof. intros Hn. rewrite firstn_app. replace (n - length l1) with 0 by lia. cbn. apply app_nil_r. Qed.

Lemma firstn_snoc_drop {A} (R bt : list A) (x b0 : A) :
  firstn (S (length bt)) (R ++ x :: bt ++ [b0]) = firstn (S (length bt)) (R ++ x :: bt).
Proof.
  replace (R ++ x :: bt ++ [b0]) with ((R ++ x :: bt) ++ [b0]) by (rewrite <- app_assoc; reflexivity).
  apply firstn_app_le. rewrite app_length. cbn. lia.
Qed.
