(* Vocabulary used by the GENERATED definitions of coq/gen/Gen_matgen.v (tools/vlib/py2coq_mg.py, tie T of C13) on top of
   base/LA.v and of the DATA TYPES of model/MatGen.v (a Python dict is the association list [kwargs V] with kw_get / kw_set /
   kw_update / kw_del / kw_has; an Initializer object is the record [initializer V]; what a call evaluates is a [result V];
   scipy.sparse.coo_matrix((data, (i, j))) is [coo_make] / [coo_dense]).  Only the meaning of Python / numpy / scipy PRIMITIVES
   lives here; the logic of mat_gen.py is regenerated from its source text on every run.  No proofs here. *)
From Coq Require Import List Bool Arith.
From Coq Require String.
From RV Require Import base.Num base.LA model.MatGen.
Import ListNotations.

Section PyDict.
Variable V : Type.
Variable pynone : V.                (* the Python object None *)
(* d.get(k)  (None when absent);  also d[k] / d.pop(k) where the translator has checked a `k in d` guard *)
Definition kw_get_d (k : String.string) (kw : kwargs V) : V := match kw_get k kw with Some v => v | None => pynone end.
(* obj._kwargs = kw  on a deep copy (every other attribute kept) *)
Definition with_kwargs (i : initializer V) (kw : kwargs V) : initializer V :=
  mkInit (i_func i) kw (i_autorize_sr i) (i_autorize_is i) (i_autorize_rescaling i).
End PyDict.
Arguments kw_get_d {V}. Arguments with_kwargs {V}.

Section NP.
Context {F : Type} `{Num F}.
Notation vec := (list F).
Notation mat := (list (list F)).
(* np.arange(a, b) *)
Definition np_arange (a b : nat) : list nat := seq a (b - a).
(* np.roll(l, shift=1): the last element comes first  (shift=-1 is MatGen.roll_left) *)
Definition roll_right (l : list nat) : list nat := match l with [] => [] | _ => last l 0 :: removelast l end.
(* numpy / scipy.sparse broadcasting of an element-wise product  W * s  (np.multiply(W, s), W.multiply(s), W * s on arrays):
   s a scalar; s of shape (n,) or (1, n): one factor per COLUMN; s of shape (m, 1): one factor per ROW *)
Definition bmul_scalar (W : mat) (s : F) : mat := map (map (fun x => nmul x s)) W.
Definition bmul_row (W : mat) (s : vec) : mat := map (fun row => vmul row s) W.
Definition bmul_col (W : mat) (s : vec) : mat := map (fun p => map (fun x => nmul x (snd p)) (fst p)) (combine W s).
(* W *= c  /  c * W  with a scalar c *)
Definition mscale_r (W : mat) (c : F) : mat := mscale c W.
(* A.T (2-D), number of columns read off the first row *)
Definition mT_mg (A : mat) : mat := transpose A (match A with [] => 0 | r :: _ => length r end).
End NP.
