(* Numeric foundation: one class of field-like operations, two instances.
   Model functions are written once over [Num F]; theorems instantiate F := R,
   the correspondence runs instantiate F := Q (normalised by Qred). *)
From Coq Require Import Reals QArith Qabs ZArith Bool List.
Import ListNotations.

Class Num (F : Type) := {
  n0 : F; n1 : F;
  nadd : F -> F -> F; nsub : F -> F -> F; nmul : F -> F -> F; ndiv : F -> F -> F;
  nopp : F -> F;
  nltb : F -> F -> bool;   (* strict  <  *)
  nleb : F -> F -> bool;   (* large   <= *)
  nofZ : Z -> F
}.

#[export] Instance NumR : Num R := {
  n0 := 0%R; n1 := 1%R;
  nadd := Rplus; nsub := Rminus; nmul := Rmult; ndiv := Rdiv; nopp := Ropp;
  nltb := fun x y => if Rlt_dec x y then true else false;
  nleb := fun x y => if Rle_dec x y then true else false;
  nofZ := IZR
}.

#[export] Instance NumQ : Num Q := {
  n0 := 0%Q; n1 := 1%Q;
  nadd := fun a b => Qred (Qplus a b); nsub := fun a b => Qred (Qminus a b);
  nmul := fun a b => Qred (Qmult a b); ndiv := fun a b => Qred (Qdiv a b);
  nopp := fun a => Qopp a;
  nltb := fun x y => negb (Qle_bool y x);
  nleb := fun x y => Qle_bool x y;
  nofZ := inject_Z
}.

(* Unfold the R instance so that lra / nra / field see plain real arithmetic. *)
Ltac numR := cbn [n0 n1 nadd nsub nmul ndiv nopp nltb nleb nofZ NumR] in *.

Lemma nltb_R_true (x y : R) : nltb x y = true <-> (x < y)%R.
Proof. cbn. destruct (Rlt_dec x y); split; intros; auto; discriminate. Qed.
Lemma nltb_R_false (x y : R) : nltb x y = false <-> (y <= x)%R.
Proof. cbn. destruct (Rlt_dec x y); split; intros; auto; try discriminate.
  - exfalso; apply (Rlt_irrefl x); eapply Rlt_le_trans; eauto.
  - apply Rnot_lt_le; assumption. Qed.
Lemma nleb_R_true (x y : R) : nleb x y = true <-> (x <= y)%R.
Proof. cbn. destruct (Rle_dec x y); split; intros; auto; discriminate. Qed.
Lemma nleb_R_false (x y : R) : nleb x y = false <-> (y < x)%R.
Proof. cbn. destruct (Rle_dec x y); split; intros; auto; try discriminate.
  - exfalso; apply (Rlt_irrefl x); eapply Rle_lt_trans; eauto.
  - apply Rnot_le_lt; assumption. Qed.

(* ---- tolerance comparison used by every correspondence runner (Q only) ---- *)
Definition qabs (a : Q) : Q := Qabs a.
Definition qmax (a b : Q) : Q := if Qle_bool a b then b else a.
Definition tol : Q := (1 # 1000000000)%Q.
(* |model - observed| <= 1e-9 * max(1, |model|) *)
Definition qclose (m o : Q) : bool :=
  Qle_bool (qabs (Qred (m - o))) (Qred (tol * qmax 1 (qabs m))).
Fixpoint vclose (m o : list Q) : bool :=
  match m, o with
  | [], [] => true
  | a :: m', b :: o' => qclose a b && vclose m' o'
  | _, _ => false
  end.
Fixpoint mclose (m o : list (list Q)) : bool :=
  match m, o with
  | [], [] => true
  | a :: m', b :: o' => vclose a b && mclose m' o'
  | _, _ => false
  end.
(* indices of the cases whose check returned false *)
Fixpoint failing_from (i : nat) (l : list bool) : list nat :=
  match l with
  | [] => []
  | b :: l' => if b then failing_from (S i) l' else i :: failing_from (S i) l'
  end.
Definition failing (l : list bool) : list nat := failing_from 0 l.
