(* Vocabulary of the GENERATED metric definitions (coq/gen/Gen_metrics.v, tools/vlib/py2coq_nd.py): the meaning given to numpy's
   reductions over 1-D / 2-D / 3-D arrays with an [axis] argument, to element-wise arithmetic and to ndarray.shape.
   Arrays are rectangular nested lists: rank 1 [list F], rank 2 [list (list F)] (row-major), rank 3 [list (list (list F))].
   This file is TRUSTED as "what numpy computes" (exact arithmetic; float rounding is the business of the correspondence
   tolerance): every reduction along an axis is *defined* as the 1-D reduction of each lane ("apply along axis"),
        np.f(a, axis=0)[j]      = f(a[:, j])                 (a 2-D)
        np.f(a, axis=(0,1))[k]  = f(a[:, :, k])              (a 3-D; the lane lists the entries in row-major order)
        np.f(a, axis=None)      = f(a.ravel())
   independently of how model/Metrics.v accumulates (row by row).  No proofs here; the laws relating the generated
   definitions to model/Metrics.v are in proofs/Gen_metrics_eq.v. *)
From Coq Require Import List Bool Arith ZArith.
From RV Require Import base.Num base.LA.
Import ListNotations.

(* raise / propagate an exception: None *)
Definition obind {A B} (o : option A) (f : A -> option B) : option B :=
  match o with Some a => f a | None => None end.

(* tuple equality of two shapes (tuples of different lengths are different) *)
Fixpoint shape_eqb (a b : list nat) : bool :=
  match a, b with
  | [], [] => true
  | x :: a', y :: b' => Nat.eqb x y && shape_eqb a' b'
  | _, _ => false
  end.

(* element-wise binary operation on two arrays of the same shape (one level; nest it for rank 2 and 3) *)
Fixpoint zip_with {A B C} (f : A -> B -> C) (a : list A) (b : list B) : list C :=
  match a, b with
  | x :: a', y :: b' => f x y :: zip_with f a' b'
  | _, _ => []
  end.

Section NDPrelude.
Context {F : Type} `{Num F}.
Notation vec := (list F).
Notation mat := (list (list F)).
Notation ten := (list (list (list F))).

(* ---- ndarray.shape ---- *)
Definition shape1 (v : vec) : list nat := [length v].
Definition shape2 (m : mat) : list nat := [length m; length (hd [] m)].
Definition shape3 (t : ten) : list nat := [length t; length (hd [] t); length (hd [] (hd [] t))].

(* ---- a.ravel(): all the entries in row-major order (axis=None) ---- *)
Definition flat1 (v : vec) : vec := v.
Definition flat2 (m : mat) : vec := concat m.
Definition flat3 (t : ten) : vec := concat (concat t).

(* ---- lanes ---- *)
(* a[:, j] of a 2-D array *)
Definition column (j : nat) (m : mat) : vec := map (fun r => nth j r n0) m.
(* f(a, axis=0), a 2-D of shape (n, c): one value per column *)
Definition along0 {T} (f : vec -> T) (m : mat) : list T :=
  map (fun j => f (column j m)) (seq 0 (length (hd [] m))).
(* f(a, axis=(0,1)), a 3-D of shape (s, n, c): one value per a[:, :, k], i.e. per column of a.reshape(s*n, c) *)
Definition along01 {T} (f : vec -> T) (t : ten) : list T :=
  map (fun k => f (column k (concat t))) (seq 0 (length (hd [] (hd [] t)))).

(* ---- 1-D reductions ---- *)
Definition npow2 (x : F) : F := nmul x x.                                   (* x ** 2 *)
Definition np_count (v : vec) : F := nofZ (Z.of_nat (length v)).            (* a.size as a float *)
Definition np_sum1 (v : vec) : F := vsum v.                                 (* np.sum *)
Definition np_mean1 (v : vec) : F := ndiv (np_sum1 v) (np_count v).         (* np.mean *)
Definition np_var1 (v : vec) : F :=                                          (* a.var(), ddof = 0: mean(|a - a.mean()|**2) *)
  np_mean1 (map (fun x => npow2 (nsub x (np_mean1 v))) v).
Definition np_max2 (a b : F) : F := if nltb a b then b else a.
Definition np_min2 (a b : F) : F := if nltb b a then b else a.
Definition np_max1 (v : vec) : F := match v with [] => n0 | x :: v' => fold_right np_max2 x v' end.
Definition np_min1 (v : vec) : F := match v with [] => n0 | x :: v' => fold_right np_min2 x v' end.
Definition np_ptp1 (v : vec) : F := nsub (np_max1 v) (np_min1 v).           (* np.ptp = max - min *)
(* np.sort (insertion sort) *)
Fixpoint np_ins (x : F) (l : vec) : vec :=
  match l with
  | [] => [x]
  | y :: l' => if nleb x y then x :: l else y :: np_ins x l'
  end.
Definition np_sort (v : vec) : vec := fold_right np_ins [] v.
(* np.quantile(v, a/b), default method 'linear': virtual index a(n-1)/b in the sorted data, linear interpolation between the
   two neighbours *)
Definition np_quantile1 (a b : nat) (v : vec) : F :=
  let n := length v in
  let s := np_sort v in
  let pos := a * (n - 1) in
  let lo := pos / b in
  let hi := Nat.min (S lo) (n - 1) in
  let g := ndiv (nofZ (Z.of_nat (pos mod b))) (nofZ (Z.of_nat b)) in
  nadd (nth lo s n0) (nmul (nsub (nth hi s n0) (nth lo s n0)) g).
End NDPrelude.
