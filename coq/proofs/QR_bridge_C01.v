(* C01: the reservoir model run at Q, then embedded in R, IS the reservoir model run at R on the embedded data.

   model/Reservoir.v is one term over [Num F].  The theorems of props/C01.v are about its instance at R; the correspondence
   run (run/RunC01.v, [chk_res]) evaluates its instance at Q.  Here: for every homomorphism [phi] of the class
   (base/NumHom.v), in particular [Q2R], every function of the model commutes with the entry-wise embedding -- kernel, noise,
   scalar and per-unit leak, with and without feedback, both equations, one step and a whole run, the Win/bias conventions of
   initialize().  Activations are arbitrary functions on the column; they only have to be related
   ([act_rel]: [ev (f_Q v) = f_R (ev v)]), which is proved for the four exactly computable activations the harness passes to
   reservoirpy (identity, relu, hard-tanh clip, x/2).  No shape hypothesis, no side condition.

   Consequence: when [chk_res ... = true] (computed at Q by vm_compute) on a scenario with exact activations, the numbers that
   were compared with reservoirpy's output are, after [Q2R], exactly the values of the R-model the theorems speak about, on
   exactly those (rational) parameters and inputs: the verdict of the correspondence run is a statement about the R-model. *)
From Coq Require Import Reals QArith Qreals List Bool Arith Lra.
From RV Require Import base.Num base.LA base.NumHom model.Reservoir.
Import ListNotations.
Close Scope Q_scope.

Section BridgeC01.
Context {F G : Type} {NF : Num F} {NG : Num G} (phi : F -> G) {HH : NumHom phi}.
Local Notation ev := (map phi).
Local Notation em := (map (map phi)).

(* ---- embedding of the data of the model ---- *)
Definition eleak (l : leak F) : leak G := match l with LrS a => LrS (phi a) | LrV v => LrV (ev v) end.
Definition ein (x : rin F) : rin G :=
  {| i_u := ev (i_u x); i_fb := ev (i_fb x); xi_in := ev (xi_in x); xi_fb := ev (xi_fb x); xi_rc := ev (xi_rc x) |}.
Definition est (st : rstate F) : rstate G := (ev (fst st), ev (snd st)).
(* two activations (functions on the whole column) are related when they commute with the embedding *)
Definition act_rel (f : list F -> list F) (g : list G -> list G) : Prop := forall v, ev (f v) = g (ev v).
(* the configuration: every array and scalar is embedded, the two activations are replaced by their counterparts *)
Definition ecfg (c : rcfg F) (fG gG : list G -> list G) : rcfg G :=
  {| rW := em (rW c); rWin := em (rWin c); rbias := ev (rbias c); rWfb := option_map em (rWfb c); rlr := eleak (rlr c);
     ract := fG; rfbact := gG; g_in := phi (g_in c); g_fb := phi (g_fb c); g_rc := phi (g_rc c) |}.

(* ---- element-wise activations ---- *)
Lemma act_rel_map (f : F -> F) (g : G -> G) : (forall x, phi (f x) = g (phi x)) -> act_rel (map f) (map g).
Proof. intros E v. rewrite !map_map. apply map_ext. exact E. Qed.
Lemma hom_a_id x : phi (a_id x) = a_id (phi x).
Proof. reflexivity. Qed.
Lemma hom_a_relu x : phi (a_relu x) = a_relu (phi x).
Proof. unfold a_relu. rewrite (hom_ltb phi x n0), (hom_0 phi). destruct (nltb (phi x) n0); [apply (hom_0 phi) | reflexivity]. Qed.
Lemma hom_a_hardtanh x : phi (a_hardtanh x) = a_hardtanh (phi x).
Proof.
  unfold a_hardtanh. rewrite (hom_ltb phi x (nopp n1)), (hom_ltb phi n1 x), (hom_opp phi), (hom_1 phi).
  destruct (nltb (phi x) (nopp n1)); [rewrite (hom_opp phi), (hom_1 phi); reflexivity|].
  destruct (nltb n1 (phi x)); [apply (hom_1 phi) | reflexivity].
Qed.
Lemma hom_a_half x : phi (a_half x) = a_half (phi x).
Proof. unfold a_half. rewrite (hom_div phi), (hom_ofZ phi). reflexivity. Qed.
Lemma act_rel_id : act_rel (map a_id) (map a_id).             Proof. apply act_rel_map, hom_a_id. Qed.
Lemma act_rel_relu : act_rel (map a_relu) (map a_relu).       Proof. apply act_rel_map, hom_a_relu. Qed.
Lemma act_rel_hardtanh : act_rel (map a_hardtanh) (map a_hardtanh). Proof. apply act_rel_map, hom_a_hardtanh. Qed.
Lemma act_rel_half : act_rel (map a_half) (map a_half).       Proof. apply act_rel_map, hom_a_half. Qed.

(* ---- noise, leak, kernel ---- *)
Lemma hom_gain_on g : gain_on (phi g) = gain_on g.
Proof. unfold gain_on. rewrite (hom_ltb phi n0 g), (hom_ltb phi g n0), (hom_0 phi). reflexivity. Qed.
Lemma ev_noise g xi n : ev (noise g xi n) = noise (phi g) (ev xi) n.
Proof. unfold noise. rewrite hom_gain_on. destruct (gain_on g); [apply (ev_vscale phi) | apply (ev_vzeros phi)]. Qed.
Lemma ev_lr_mul l x : ev (lr_mul l x) = lr_mul (eleak l) (ev x).
Proof. destruct l; cbn; [apply (ev_vscale phi) | apply (ev_vmul phi)]. Qed.
Lemma ev_lr_cmul l x : ev (lr_cmul l x) = lr_cmul (eleak l) (ev x).
Proof.
  destruct l; cbn.
  - rewrite (ev_vscale phi), (hom_sub phi), (hom_1 phi). reflexivity.
  - rewrite (ev_vmul phi). f_equal. rewrite !map_map. apply map_ext. intros a. rewrite (hom_sub phi), (hom_1 phi). reflexivity.
Qed.

Section WithActs.
Variables (c : rcfg F) (fG gG : list G -> list G).
Hypothesis Hact : act_rel (ract c) fG.
Hypothesis Hfb : act_rel (rfbact c) gG.

Lemma ev_kernel r x : ev (kernel c r x) = kernel (ecfg c fG gG) (ev r) (ein x).
Proof.
  unfold kernel. cbn [ecfg rW rWin rbias rWfb g_in g_fb rfbact ein i_u i_fb xi_in xi_fb].
  destruct (rWfb c) as [Wfb|]; cbn [option_map].
  - rewrite !(ev_vadd phi), !(ev_mv phi), !(ev_vadd phi), !ev_noise, Hfb, !map_length. reflexivity.
  - rewrite !(ev_vadd phi), !(ev_mv phi), !(ev_vadd phi), !ev_noise, !map_length. reflexivity.
Qed.

Lemma est_step_internal st x : est (step_internal c st x) = step_internal (ecfg c fG gG) (est st) (ein x).
Proof.
  destruct st as [s r]. unfold step_internal, est. cbn [fst snd]. f_equal.
  rewrite !(ev_vadd phi), ev_lr_cmul, ev_lr_mul, ev_noise, Hact, ev_kernel, map_length. reflexivity.
Qed.
Lemma est_step_external st x : est (step_external c st x) = step_external (ecfg c fG gG) (est st) (ein x).
Proof.
  destruct st as [s r]. unfold step_external, est. cbn [fst snd].
  rewrite Hact, !(ev_vadd phi), ev_lr_cmul, ev_lr_mul, ev_noise, ev_kernel, map_length. reflexivity.
Qed.
Lemma est_step e st x : est (step e c st x) = step e (ecfg c fG gG) (est st) (ein x).
Proof. destruct e; [apply est_step_internal | apply est_step_external]. Qed.

Lemma est_run_states e st xs : map est (run_states e c st xs) = run_states e (ecfg c fG gG) (est st) (map ein xs).
Proof. revert st. induction xs as [|x xs IH]; intros st; cbn; [reflexivity|]. rewrite est_step, IH, est_step. reflexivity. Qed.
Lemma est_run_final e st xs : est (run_final e c st xs) = run_final e (ecfg c fG gG) (est st) (map ein xs).
Proof. unfold run_final. revert st. induction xs as [|x xs IH]; intros st; cbn; [reflexivity|]. rewrite IH, est_step. reflexivity. Qed.
Lemma em_run_outputs e st xs : em (run_outputs e c st xs) = run_outputs e (ecfg c fG gG) (est st) (map ein xs).
Proof.
  unfold run_outputs. rewrite <- est_run_states, !map_map. apply map_ext. intros [s r]; reflexivity.
Qed.
End WithActs.

(* ---- initialize(): Win / bias conventions ---- *)
Lemma em_ncols A : ncols (em A) = ncols A.
Proof. destruct A; cbn; [reflexivity | apply map_length]. Qed.
Lemma e_init_win_bias ib Win bias_arg in_dim :
  option_map (fun p => (em (fst p), ev (snd p))) (init_win_bias ib Win bias_arg in_dim)
  = init_win_bias ib (em Win) (ev bias_arg) in_dim.
Proof.
  unfold init_win_bias. rewrite em_ncols.
  destruct (ncols Win =? S in_dim).
  - destruct ib; cbn; [|reflexivity]. do 2 f_equal.
    + rewrite !map_map. apply map_ext. intros; apply map_tl.
    + rewrite !map_map. apply map_ext. intros row. rewrite (map_hd phi), (hom_0 phi). reflexivity.
  - destruct (ncols Win =? in_dim); [|reflexivity]. cbn. destruct ib; [reflexivity|].
    rewrite (ev_vzeros phi), map_length. reflexivity.
Qed.
Lemma hom_vnorm2 v : phi (vnorm2 v) = vnorm2 (ev v).
Proof. apply (ev_dot phi). Qed.
End BridgeC01.

(* ================================================================== the instance Q -> R *)
Notation st2r := (est Q2R).
Notation in2r := (ein Q2R).
Notation leak2r := (eleak Q2R).
Notation cfg2r := (ecfg Q2R).

(* one step of either equation: Q then embed = embed then R *)
Lemma Qstep_embeds_in_Rstep (e : equation) (c : rcfg Q) (fR gR : list R -> list R) (st : rstate Q) (x : rin Q) :
  (forall v, qv2r (ract c v) = fR (qv2r v)) -> (forall v, qv2r (rfbact c v) = gR (qv2r v)) ->
  st2r (step e c st x) = step e (cfg2r c fR gR) (st2r st) (in2r x).
Proof. intros Ha Hf. apply (est_step Q2R c fR gR Ha Hf). Qed.

(* a whole run: every intermediate (internal_state, state) pair, every emitted row, and the final pair *)
Lemma Qrun_embeds_in_Rrun (e : equation) (c : rcfg Q) (fR gR : list R -> list R) (st : rstate Q) (xs : list (rin Q)) :
  (forall v, qv2r (ract c v) = fR (qv2r v)) -> (forall v, qv2r (rfbact c v) = gR (qv2r v)) ->
  map st2r (run_states e c st xs) = run_states e (cfg2r c fR gR) (st2r st) (map in2r xs) /\
  qm2r (run_outputs e c st xs) = run_outputs e (cfg2r c fR gR) (st2r st) (map in2r xs) /\
  st2r (run_final e c st xs) = run_final e (cfg2r c fR gR) (st2r st) (map in2r xs).
Proof.
  intros Ha Hf. split; [|split].
  - apply (est_run_states Q2R c fR gR Ha Hf).
  - apply (em_run_outputs Q2R c fR gR Ha Hf).
  - apply (est_run_final Q2R c fR gR Ha Hf).
Qed.

(* the four exactly computable activations of the harness are related to themselves *)
Lemma Qexact_activations_embed :
  (forall v, qv2r (map a_id v) = map a_id (qv2r v)) /\ (forall v, qv2r (map a_relu v) = map a_relu (qv2r v)) /\
  (forall v, qv2r (map a_hardtanh v) = map a_hardtanh (qv2r v)) /\ (forall v, qv2r (map a_half v) = map a_half (qv2r v)).
Proof.
  repeat split; intros v.
  - apply (act_rel_id Q2R). - apply (act_rel_relu Q2R). - apply (act_rel_hardtanh Q2R). - apply (act_rel_half Q2R).
Qed.
(* ... and at R they are the usual real functions *)
Lemma a_relu_R (x : R) : a_relu x = Rmax x 0.
Proof.
  unfold a_relu. cbn. destruct (Rlt_dec x 0) as [L|L].
  - symmetry. apply Rmax_right. apply Rlt_le, L.
  - symmetry. apply Rmax_left. apply Rnot_lt_le, L.
Qed.
Lemma a_half_R (x : R) : a_half x = (x / 2)%R.
Proof. reflexivity. Qed.
Lemma a_hardtanh_R (x : R) : a_hardtanh x = Rmax (-1) (Rmin 1 x).
Proof.
  unfold a_hardtanh. numR. unfold Rmax, Rmin.
  destruct (Rlt_dec x (- (1))); destruct (Rlt_dec 1 x); destruct (Rle_dec 1 x);
    match goal with |- context [Rle_dec ?a ?b] => destruct (Rle_dec a b) end; lra.
Qed.

(* initialize(): the (Win, bias) the Q run starts from is the embedding-preimage of what the R model starts from *)
Lemma Qinit_embeds (ib : bool) (Win : list (list Q)) (bias_arg : list Q) (in_dim : nat) :
  option_map (fun p => (qm2r (fst p), qv2r (snd p))) (init_win_bias ib Win bias_arg in_dim)
  = init_win_bias ib (qm2r Win) (qv2r bias_arg) in_dim.
Proof. apply (e_init_win_bias Q2R). Qed.

(* a concrete instance: 2 units, feedback, per-unit leak, hard-tanh, external equation, two steps.
   The R-model on the embedded data yields exactly the embedded numbers the Q run computed. *)
Definition exW : list (list Q) := [[(1#2)%Q; (-1#4)%Q]; [(3#4)%Q; (1#8)%Q]].
Definition exWin : list (list Q) := [[(2#1)%Q]; [(-1#2)%Q]].
Definition exWfb : list (list Q) := [[(1#2)%Q]; [(1#4)%Q]].
Definition excfg : rcfg Q :=
  {| rW := exW; rWin := exWin; rbias := [(1#8)%Q; (-1#8)%Q]; rWfb := Some exWfb; rlr := LrV [(1#2)%Q; (3#4)%Q];
     ract := map a_hardtanh; rfbact := map a_relu; g_in := 0%Q; g_fb := 0%Q; g_rc := 0%Q |}.
Definition exin (u fb : Q) : rin Q := {| i_u := [u]; i_fb := [fb]; xi_in := []; xi_fb := []; xi_rc := [] |}.
Example Qrun_embeds_example :
  run_outputs External (cfg2r excfg (map a_hardtanh) (map a_relu)) (qv2r [0%Q; 0%Q], qv2r [(1#2)%Q; (-1#2)%Q])
              [in2r (exin (1#4) (1#2)); in2r (exin (-1#2) (-1#1))]
  = qm2r [[(5#8)%Q; (9#64)%Q]; [(7#512)%Q; (1011#2048)%Q]].
Proof.
  change (qv2r [0%Q; 0%Q], qv2r [(1#2)%Q; (-1#2)%Q]) with (st2r ([0%Q; 0%Q], [(1#2)%Q; (-1#2)%Q])).
  change [in2r (exin (1#4) (1#2)); in2r (exin (-1#2) (-1#1))] with (map in2r [exin (1#4) (1#2); exin (-1#2) (-1#1)]).
  rewrite <- (em_run_outputs Q2R excfg _ _ (act_rel_hardtanh Q2R) (act_rel_relu Q2R)).
  vm_compute run_outputs. reflexivity.
Qed.

(* ================================================================== the verdict of the correspondence runner, read at R
   [chk_res] (run/RunC01.v) is the boolean the C01 / C15 correspondence run evaluates at Q with vm_compute for every scenario.
   With exactly computable activations, [chk_res ... = true] implies: the R-instance of the model -- the object of the theorems
   of props/C01.v -- initialised and run on the embedded parameters and inputs, produces rows, a final state and a final
   internal state that are each within 1e-9*max(1,|model|) of the (embedded) values observed on reservoirpy's node. *)
From RV Require Import run.RunC01.

Definition exact_act (a : actc) : bool := match a with ATab _ => false | _ => true end.
Definition act_funR (a : actc) : list R -> list R :=
  match a with AId => map a_id | ARelu => map a_relu | AHard => map a_hardtanh | AHalf => map a_half | ATab _ => fun v => v end.
Lemma act_fun_rel (a : actc) : exact_act a = true -> forall v, qv2r (act_fun a v) = act_funR a (qv2r v).
Proof.
  destruct a; cbn; intros E v; try discriminate.
  - apply (act_rel_id Q2R). - apply (act_rel_relu Q2R). - apply (act_rel_hardtanh Q2R). - apply (act_rel_half Q2R).
Qed.
(* the R configuration the verdict is about, spelled out: embedded arrays, real activations, the three noise gains are 0 *)
Lemma cfg2r_mkcfg W Win bias Wfb lr act fbact :
  cfg2r (mkcfg W Win bias Wfb lr act fbact) (act_funR act) (act_funR fbact)
  = {| rW := qm2r W; rWin := qm2r Win; rbias := qv2r bias; rWfb := option_map qm2r Wfb; rlr := leak2r lr;
       ract := act_funR act; rfbact := act_funR fbact; g_in := 0%R; g_fb := 0%R; g_rc := 0%R |}.
Proof. unfold ecfg, mkcfg. cbn [rW rWin rbias rWfb rlr g_in g_fb g_rc]. change (Q2R 0) with (Q2R n0). rewrite Q2R_n0. reflexivity. Qed.

Lemma chk_res_is_about_R_model (e : equation) (W : list (list Q)) (ib : bool) (Win_arg : list (list Q)) (bias_arg : list Q)
    (in_dim : nat) (Wfb : option (list (list Q))) (lr : leak Q) (act fbact : actc) (s0 r0 : list Q) (us fbs : list (list Q))
    (outs : list (list Q)) (sfin rfin : list Q) (obsWin : list (list Q)) (obsbias : list Q) :
  exact_act act = true -> exact_act fbact = true ->
  chk_res e W ib Win_arg bias_arg in_dim Wfb lr act fbact s0 r0 us fbs outs sfin rfin obsWin obsbias = true ->
  exists (Win : list (list Q)) (bias : list Q),
    init_win_bias ib (qm2r Win_arg) (qv2r bias_arg) in_dim = Some (qm2r Win, qv2r bias) /\
    let cR := cfg2r (mkcfg W Win bias Wfb lr act fbact) (act_funR act) (act_funR fbact) in
    let xs := map in2r (map mkin (combine us fbs)) in
    let st0 := (qv2r s0, qv2r r0) in
    mrclose (qm2r Win) (qm2r obsWin) /\ vrclose (qv2r bias) (qv2r obsbias) /\
    mrclose (run_outputs e cR st0 xs) (qm2r outs) /\
    vrclose (fst (run_final e cR st0 xs)) (qv2r sfin) /\ vrclose (snd (run_final e cR st0 xs)) (qv2r rfin).
Proof.
  intros Ea Ef. unfold chk_res.
  pose proof (Qinit_embeds ib Win_arg bias_arg in_dim) as Hi.
  destruct (init_win_bias ib Win_arg bias_arg in_dim) as [[Win bias]|]; [|discriminate].
  intros Hc. exists Win, bias. split; [symmetry; exact Hi|].
  repeat (apply andb_true_iff in Hc; destruct Hc as [Hc ?]).
  cbv zeta. change (qv2r s0, qv2r r0) with (st2r (s0, r0)).
  set (c := mkcfg W Win bias Wfb lr act fbact) in *.
  assert (Ha : forall v, qv2r (ract c v) = act_funR act (qv2r v)) by (apply act_fun_rel, Ea).
  assert (Hf : forall v, qv2r (rfbact c v) = act_funR fbact (qv2r v)) by (apply act_fun_rel, Ef).
  rewrite <- (em_run_outputs Q2R c _ _ Ha Hf), <- (est_run_final Q2R c _ _ Ha Hf).
  unfold est. cbn [fst snd].
  repeat split; first [apply mclose_mrclose | apply vclose_vrclose]; assumption.
Qed.
(* the premises are satisfiable: a scenario on which the runner answers true (observed values = a float-like perturbation
   of the exact ones would do as well; here the exact ones) *)
Example chk_res_example :
  chk_res Internal exW false exWin [] 1 None (LrS (1#2)%Q) AHard AId [0%Q; 0%Q] [(1#2)%Q; (-1#2)%Q] [[(1#4)%Q]] [[]]
          [[(11#16)%Q; (-5#32)%Q]] [0%Q; 0%Q] [(11#16)%Q; (-5#32)%Q] exWin [0%Q; 0%Q] = true.
Proof. vm_compute. reflexivity. Qed.
