(* C13: proofs about model/MatGen.v — part 2, over the reals: spectral-radius rescaling, ring / line entries,
   dense entries of the degree-assembled matrix. *)
From Coq Require Import List Arith Bool Lia Reals Lra.
From RV Require Import base.Num base.LA base.ListX model.MatGen proofs.MatGen_proofs.
Import ListNotations.

Local Open Scope R_scope.

(* ------------------------------------------------------------------------------------------ _scale_spectral_radius *)
Lemma null_radius_false (eps rho : R) : eps <= rho -> null_radius eps rho = false.
Proof.
  intros H. unfold null_radius. apply andb_false_intro2. apply nltb_R_false. exact H.
Qed.
Lemma null_radius_true (eps rho : R) : - eps < rho < eps -> null_radius eps rho = true.
Proof.
  intros [H1 H2]. unfold null_radius. apply andb_true_intro. split; apply nltb_R_true; numR; assumption.
Qed.

Section SpectralRadius.
(* the spectral radius is an oracle (ARPACK / LAPACK); the only law used is its absolute homogeneity *)
Variable rho : list (list R) -> R.
Hypothesis rho_hom : forall (c : R) (W : list (list R)), rho (mscale c W) = Rabs c * rho W.

Lemma sr_scaling (eps sr : R) (W0 : list (list R)) :
  0 < eps -> eps <= rho W0 -> 0 < sr ->
  let W := scale_sr eps W0 (rho W0) sr in
  W = mscale (sr / rho W0) W0 /\ 0 < sr / rho W0 /\ rho W = sr.
Proof.
  intros He Hr Hs W. unfold W, scale_sr. rewrite (null_radius_false _ _ Hr). numR.
  assert (Hp : 0 < sr / rho W0) by (apply Rdiv_lt_0_compat; lra).
  repeat split; [exact Hp|].
  rewrite rho_hom, Rabs_pos_eq by lra. field. lra.
Qed.

(* for any requested value (also sr <= 0): the radius of the result is |sr| *)
Lemma sr_scaling_abs (eps sr : R) (W0 : list (list R)) :
  0 < eps -> eps <= rho W0 -> rho (scale_sr eps W0 (rho W0) sr) = Rabs sr.
Proof.
  intros He Hr. unfold scale_sr. rewrite (null_radius_false _ _ Hr). numR.
  rewrite rho_hom. unfold Rdiv. rewrite Rabs_mult, Rabs_inv, (Rabs_pos_eq (rho W0)) by lra. field. lra.
Qed.
End SpectralRadius.

Lemma sr_null (eps r sr : R) (W0 : list (list R)) : - eps < r < eps -> scale_sr eps W0 r sr = W0.
Proof. intros H. unfold scale_sr. rewrite (null_radius_true _ _ H). reflexivity. Qed.

Lemma sr_prefix_null (eps r sr : R) (W0 : list (list R)) :
  - eps < r < eps -> scale_sr_prefix eps W0 r sr = mscale (sr / eps) W0.
Proof. intros H. unfold scale_sr_prefix. rewrite (null_radius_true _ _ H). reflexivity. Qed.

(* ------------------------------------------------------------------------------------------ COO matrices over R *)
Lemma coo_get_cons (p : nat * nat) (v : R) (es : coo) (i j : nat) :
  coo_get ((p, v) :: es) i j = if (fst p =? i)%nat && (snd p =? j)%nat then v + coo_get es i j else coo_get es i j.
Proof. reflexivity. Qed.

Lemma coo_get_notin (es : coo (F:=R)) (i j : nat) : ~ In (i, j) (map fst es) -> coo_get es i j = 0.
Proof.
  induction es as [|[[a b] v] es IH]; intros Hn; [reflexivity|].
  rewrite coo_get_cons. cbn [fst snd].
  destruct (Nat.eqb_spec a i) as [->|Ha]; destruct (Nat.eqb_spec b j) as [->|Hb]; cbn [andb];
    try (apply IH; intros H; apply Hn; right; exact H).
  exfalso. apply Hn. left. reflexivity.
Qed.

(* distinct stored positions: nothing is summed, the dense entry is the stored value *)
Lemma coo_get_unique (es : coo (F:=R)) (i j : nat) (v : R) :
  NoDup (map fst es) -> In ((i, j), v) es -> coo_get es i j = v.
Proof.
  induction es as [|[[a b] w] es IH]; intros Hn Hin; [contradiction|].
  cbn [map fst] in Hn. inversion Hn as [|? ? Hx Hn']; subst.
  rewrite coo_get_cons. cbn [fst snd]. destruct Hin as [E|Hin].
  - injection E as -> -> ->. rewrite !Nat.eqb_refl. cbn [andb]. rewrite (coo_get_notin es i j Hx). numR. lra.
  - destruct (Nat.eqb_spec a i) as [->|Ha]; destruct (Nat.eqb_spec b j) as [->|Hb]; cbn [andb];
      try (apply IH; assumption).
    exfalso. apply Hx. apply (in_map fst) in Hin. exact Hin.
Qed.

(* rows paired with the columns a, a+1, ..., a+L-1 (both _ring and _line use col = arange) *)
Lemma coo_get_arange (L : nat) : forall (a : nat) (rows : list nat) (vals : list R) (i j : nat),
  length rows = L -> length vals = L ->
  coo_get (coo_make rows (seq a L) vals) i j =
    if (a <=? j)%nat && (j <? a + L)%nat && (nth (j - a) rows 0%nat =? i)%nat then nth (j - a) vals 0 else 0.
Proof.
  induction L as [|L IH]; intros a rows vals i j Hr Hv.
  - destruct rows; [|discriminate].
    assert (E : ((a <=? j)%nat && (j <? a + 0)%nat) = false).
    { destruct (Nat.leb_spec a j), (Nat.ltb_spec j (a + 0)); cbn; try reflexivity; lia. }
    rewrite E. reflexivity.
  - destruct rows as [|r rows]; [discriminate|]. destruct vals as [|v vals]; [discriminate|].
    cbn [seq coo_make combine]. fold (coo_make rows (seq (S a) L) vals).
    rewrite coo_get_cons. cbn [fst snd]. rewrite (IH (S a) rows vals i j) by (cbn in *; lia).
    destruct (Nat.eqb_spec a j) as [->|Haj].
    + replace (j - j)%nat with 0%nat by lia. cbn [nth].
      assert (E1 : (j <=? j)%nat = true) by (apply Nat.leb_le; lia).
      assert (E2 : (j <? j + S L)%nat = true) by (apply Nat.ltb_lt; lia).
      assert (E3 : (S j <=? j)%nat = false) by (apply Nat.leb_gt; lia).
      rewrite E1, E2, E3. cbn [andb]. destruct (r =? i)%nat; cbn [andb]; [numR; lra|reflexivity].
    + rewrite andb_false_r.
      destruct (Nat.leb_spec (S a) j) as [Hle|Hgt].
      * assert (E1 : (a <=? j)%nat = true) by (apply Nat.leb_le; lia). rewrite E1.
        replace (j - a)%nat with (S (j - S a)) by lia. cbn [nth andb].
        replace (j <? a + S L)%nat with (j <? S a + L)%nat by (f_equal; lia). reflexivity.
      * assert (E1 : (a <=? j)%nat = false) by (apply Nat.leb_gt; lia). rewrite E1. reflexivity.
Qed.

(* np.roll(np.arange(n), -1)[k] = (k + 1) mod n *)
Lemma roll_left_seq_nth (n k : nat) : (k < n)%nat -> nth k (roll_left (seq 0 n)) 0%nat = (S k mod n)%nat.
Proof.
  intros Hk. destruct n as [|n]; [lia|]. unfold roll_left. cbn [seq tl firstn].
  destruct (Nat.eq_dec k n) as [->|Hne].
  - rewrite app_nth2 by (rewrite seq_length; lia). rewrite seq_length, Nat.sub_diag. cbn [nth].
    rewrite Nat.mod_same by lia. reflexivity.
  - rewrite app_nth1 by (rewrite seq_length; lia). rewrite seq_nth by lia.
    rewrite Nat.mod_small by lia. reflexivity.
Qed.
Lemma roll_left_length (l : list nat) : length (roll_left l) = length l.
Proof. destruct l as [|x l]; [reflexivity|]. unfold roll_left. cbn. rewrite app_length. cbn. lia. Qed.

(* ring: W[(j+1) mod n, j] = w_j, everything else 0 *)
Lemma ring_entry (n : nat) (w : list R) (i j : nat) :
  length w = n -> (i < n)%nat -> (j < n)%nat ->
  mget (ring n w) i j = if (i =? S j mod n)%nat then nth j w 0 else 0.
Proof.
  intros Hw Hi Hj. unfold ring. rewrite mget_coo_dense by assumption. unfold ring_coo.
  rewrite (coo_get_arange n 0) by (rewrite ?roll_left_length, ?seq_length; auto).
  rewrite Nat.sub_0_r, roll_left_seq_nth by assumption.
  assert (E2 : (j <? 0 + n)%nat = true) by (apply Nat.ltb_lt; lia). rewrite E2. cbn [Nat.leb andb].
  rewrite Nat.eqb_sym. reflexivity.
Qed.

(* line: W[j+1, j] = w_j, everything else 0 *)
Lemma line_entry (n : nat) (w : list R) (i j : nat) :
  length w = (n - 1)%nat -> (i < n)%nat -> (j < n)%nat ->
  mget (line n w) i j = if (i =? S j)%nat then nth j w 0 else 0.
Proof.
  intros Hw Hi Hj. unfold line. rewrite mget_coo_dense by assumption. unfold line_coo.
  rewrite (coo_get_arange (n - 1) 0) by (rewrite ?seq_length; auto).
  rewrite Nat.sub_0_r. cbn [Nat.leb andb]. change (0 + (n - 1))%nat with (n - 1)%nat.
  destruct (Nat.ltb_spec j (n - 1)) as [Hlt|Hge]; cbn [andb].
  - rewrite seq_nth by assumption. rewrite Nat.eqb_sym. reflexivity.
  - destruct (Nat.eqb_spec i (S j)) as [->|_]; [lia|reflexivity].
Qed.

(* where the 1 of each column / row of the ring sits *)
Lemma ring_position_inverse (n i j : nat) : (i < n)%nat -> (j < n)%nat -> (i = S j mod n <-> j = (i + n - 1) mod n)%nat.
Proof.
  intros Hi Hj. destruct (Nat.eq_dec (S j) n) as [E|Hne].
  - rewrite E, Nat.mod_same by lia. split; intros H.
    + subst i. replace (0 + n - 1)%nat with (n - 1)%nat by lia. rewrite Nat.mod_small by lia. lia.
    + destruct i as [|i]; [reflexivity|]. exfalso.
      replace (S i + n - 1)%nat with (i + 1 * n)%nat in H by lia.
      rewrite Nat.mod_add, Nat.mod_small in H by lia. lia.
  - rewrite (Nat.mod_small (S j)) by lia. split; intros H.
    + subst i. replace (S j + n - 1)%nat with (j + 1 * n)%nat by lia. rewrite Nat.mod_add, Nat.mod_small by lia. reflexivity.
    + destruct i as [|i].
      * replace (0 + n - 1)%nat with (n - 1)%nat in H by lia. rewrite Nat.mod_small in H by lia. lia.
      * replace (S i + n - 1)%nat with (i + 1 * n)%nat in H by lia. rewrite Nat.mod_add, Nat.mod_small in H by lia. lia.
Qed.

(* ------------------------------------------------------------------------------------------ degree matrices, densely *)
(* every stored entry of the assembled matrix shows up unchanged in the dense matrix (no two entries collide) *)
Lemma degree_out_dense_entry (choice : nat -> list nat) (m n d : nat) (vals : list R) (i j : nat) (v : R) :
  (forall c, (c < n)%nat -> choice_ok m d (choice c)) -> length vals = (n * d)%nat ->
  In ((i, j), v) (degree_coo_out choice n d vals) ->
  (i < m)%nat /\ (j < n)%nat /\ mget (coo_dense m n (degree_coo_out choice n d vals)) i j = v.
Proof.
  intros Hc Hl Hin. destruct (degree_out_exact choice m n d Hc) as [Hnd [Hlen [Hrange _]]].
  assert (Hp : map fst (degree_coo_out choice n d vals) = positions_out choice n d)
    by (apply degree_coo_out_positions; lia).
  assert (Hij : In (i, j) (positions_out choice n d)) by (rewrite <- Hp; apply (in_map fst) in Hin; exact Hin).
  destruct (Hrange _ Hij) as [H1 H2]. cbn in H1, H2. repeat split; try assumption.
  rewrite mget_coo_dense by assumption. apply coo_get_unique; [rewrite Hp; exact Hnd|exact Hin].
Qed.
Lemma degree_in_dense_entry (choice : nat -> list nat) (m n d : nat) (vals : list R) (i j : nat) (v : R) :
  (forall r, (r < m)%nat -> choice_ok n d (choice r)) -> length vals = (m * d)%nat ->
  In ((i, j), v) (degree_coo_in choice m d vals) ->
  (i < m)%nat /\ (j < n)%nat /\ mget (coo_dense m n (degree_coo_in choice m d vals)) i j = v.
Proof.
  intros Hc Hl Hin. destruct (degree_in_exact choice m n d Hc) as [Hnd [Hlen [Hrange _]]].
  assert (Hp : map fst (degree_coo_in choice m d vals) = positions_in choice m d)
    by (apply degree_coo_in_positions; lia).
  assert (Hij : In (i, j) (positions_in choice m d)) by (rewrite <- Hp; apply (in_map fst) in Hin; exact Hin).
  destruct (Hrange _ Hij) as [H1 H2]. cbn in H1, H2. repeat split; try assumption.
  rewrite mget_coo_dense by assumption. apply coo_get_unique; [rewrite Hp; exact Hnd|exact Hin].
Qed.
