(* Tie (T) for C19: the metrics of reservoirpy/observables.py as GENERATED on this run from the current source text
   (coq/gen/Gen_metrics.v: _check_arrays, mse, rmse, nrmse, rsquare per rank and per value of `dimensionwise`, and the matrix
   effective_spectral_radius hands to spectral_radius), written in the numpy vocabulary of base/NDPrelude.v (a reduction along
   an axis = the 1-D reduction of every lane), ARE the hand-written model/Metrics.v (row-by-row accumulation) about which the
   C19 theorems are stated.
   Part 1 (every Num instance, every input): _check_arrays, all the rank-1 metrics, the effective matrix.
   Part 2 (F := R, rectangular arrays): the rank-2 and rank-3 metrics, global and dimensionwise. *)
From Coq Require Import List Bool Arith ZArith Lia.
From RV Require Import base.Num base.LA base.NDPrelude gen.Gen_metrics model.Metrics.
Import ListNotations.

(* the keys of the `norms` table of nrmse are the four norms of the model *)
Definition nk (k : normk) : GenMetrics.norm_name :=
  match k with Minmax => GenMetrics.Nm_minmax | Var => GenMetrics.Nm_var | Mean => GenMetrics.Nm_mean | Q1Q3 => GenMetrics.Nm_q1q3 end.

Ltac open_check :=
  unfold GenMetrics.check_arrays, mse, rsquare, rmse_sq, mse, rsquare_parts, nrmse_parts, nrmse_parts_nv, reduce, check_arrays, obind;
  cbn [shape shape1 shape2 shape3]; change shape_eqb with lnat_eqb.

Section GenMetricsEq.
Context {F : Type} `{Num F}.
Notation vec := (list F).
Notation mat := (list (list F)).
Notation ten := (list (list (list F))).

(* ndarray.shape of the model's arrays, in the generated vocabulary *)
Definition shp (a : arr F) : list nat :=
  match a with A1 v => shape1 v | A2 m => shape2 m | A3 t => shape3 t end.

Lemma shape_eqb_lnat (a b : list nat) : shape_eqb a b = lnat_eqb a b.
Proof. reflexivity. Qed.
Lemma zip_with_vzip (f : F -> F -> F) : forall a b, zip_with f a b = vzip f a b.
Proof. induction a as [|x a IH]; intros [|y b]; cbn; try reflexivity. now rewrite IH. Qed.
Lemma sqdiff_gen : forall y p : vec, map npow2 (zip_with nsub y p) = sqdiff y p.
Proof. induction y as [|x y IH]; intros [|z p]; cbn; try reflexivity. now rewrite IH. Qed.
Lemma center_gen (mu : F) (y : vec) : map npow2 (map (fun x => nsub x mu) y) = map sq (map (fun x => nsub x mu) y).
Proof. reflexivity. Qed.
Lemma var_gen (v : vec) : np_var1 v = var1 v.
Proof. unfold np_var1, var1, center. rewrite map_map. reflexivity. Qed.
Lemma sort_gen (v : vec) : np_sort v = isort v.
Proof. reflexivity. Qed.
Lemma quantile_gen a b (v : vec) : np_quantile1 a b v = quantile a b v.
Proof. reflexivity. Qed.
Lemma ptp_gen (v : vec) : np_ptp1 v = ptp v.
Proof. reflexivity. Qed.
Lemma mean_gen (v : vec) : np_mean1 v = mean v.
Proof. reflexivity. Qed.

(* ---- _check_arrays: for ANY two arrays, of equal or different rank ---- *)
Lemma gen_check_arrays_eq (y p : arr F) : GenMetrics.check_arrays shp shp y p = check_arrays y p.
Proof.
  unfold GenMetrics.check_arrays, check_arrays. rewrite shape_eqb_lnat.
  replace (shp y) with (shape y) by (destruct y; reflexivity). replace (shp p) with (shape p) by (destruct p; reflexivity).
  destruct (lnat_eqb (shape y) (shape p)); reflexivity.
Qed.

(* ---- rank 1: every metric, dimensionwise or not (axis = 0 of a 1-D array is the whole array) ---- *)

Lemma gen_mse_r1_eq (y p : vec) :
  option_map RS (GenMetrics.mse_r1_g y p) = mse false (A1 y) (A1 p) /\
  option_map RS (GenMetrics.mse_r1_dw y p) = mse true (A1 y) (A1 p).
Proof.
  unfold GenMetrics.mse_r1_g, GenMetrics.mse_r1_dw. open_check.
  cbn; destruct (length y =? length p); cbn; rewrite ?sqdiff_gen; split; reflexivity.
Qed.
Lemma gen_rmse_sq_r1_eq (y p : vec) :
  option_map RS (GenMetrics.rmse_sq_r1_g y p) = rmse_sq false (A1 y) (A1 p) /\
  option_map RS (GenMetrics.rmse_sq_r1_dw y p) = rmse_sq true (A1 y) (A1 p).
Proof.
  unfold GenMetrics.rmse_sq_r1_g, GenMetrics.rmse_sq_r1_dw, GenMetrics.mse_r1_g, GenMetrics.mse_r1_dw. open_check.
  cbn; destruct (length y =? length p); cbn; rewrite ?sqdiff_gen; split; reflexivity.
Qed.
Lemma gen_rsquare_r1_eq (y p : vec) :
  option_map RS (GenMetrics.rsquare_r1_g y p) = rsquare false (A1 y) (A1 p) /\
  option_map RS (GenMetrics.rsquare_r1_dw y p) = rsquare true (A1 y) (A1 p) /\
  option_map inl (GenMetrics.rsquare_parts_r1_g y p) = rsquare_parts false (A1 y) (A1 p) /\
  option_map inl (GenMetrics.rsquare_parts_r1_dw y p) = rsquare_parts true (A1 y) (A1 p).
Proof.
  unfold GenMetrics.rsquare_r1_g, GenMetrics.rsquare_r1_dw, GenMetrics.rsquare_parts_r1_g, GenMetrics.rsquare_parts_r1_dw. open_check.
  cbn; destruct (length y =? length p); cbn; rewrite ?sqdiff_gen; repeat split; reflexivity.
Qed.
Lemma norm_gen (k : normk) (v : vec) :
  match nk k with
  | GenMetrics.Nm_minmax => np_ptp1 v | GenMetrics.Nm_var => np_var1 v | GenMetrics.Nm_mean => np_mean1 v
  | GenMetrics.Nm_q1q3 => nsub (np_quantile1 3 4 v) (np_quantile1 1 4 v)
  end = norm1 k v.
Proof. destruct k; cbn [nk norm1]; [reflexivity | apply var_gen | reflexivity | reflexivity]. Qed.
Lemma gen_nrmse_r1_eq (k : normk) (nv : F) (y p : vec) :
  option_map inl (GenMetrics.nrmse_parts_r1_g y p (nk k)) = nrmse_parts false k (A1 y) (A1 p) /\
  option_map inl (GenMetrics.nrmse_parts_r1_dw y p (nk k)) = nrmse_parts true k (A1 y) (A1 p) /\
  option_map inl (GenMetrics.nrmse_parts_nv_r1_g y p nv) = nrmse_parts_nv false nv (A1 y) (A1 p) /\
  option_map inl (GenMetrics.nrmse_parts_nv_r1_dw y p nv) = nrmse_parts_nv true nv (A1 y) (A1 p).
Proof.
  unfold GenMetrics.nrmse_parts_r1_g, GenMetrics.nrmse_parts_r1_dw, GenMetrics.nrmse_parts_nv_r1_g, GenMetrics.nrmse_parts_nv_r1_dw,
    GenMetrics.rmse_sq_r1_g, GenMetrics.rmse_sq_r1_dw, GenMetrics.mse_r1_g, GenMetrics.mse_r1_dw. open_check.
  cbn; destruct (length y =? length p); cbn; rewrite ?sqdiff_gen, ?norm_gen; repeat split; reflexivity.
Qed.

(* ---- the matrix handed to spectral_radius ---- *)
Lemma zip2_madd : forall A B : mat, zip_with (zip_with nadd) A B = madd A B.
Proof.
  unfold madd. induction A as [|r A IH]; intros [|s B]; cbn; try reflexivity. rewrite IH, zip_with_vzip. reflexivity.
Qed.
Lemma gen_effective_matrix_eq (lr : F) (W : mat) : GenMetrics.effective_matrix W lr = eff_matrix lr W.
Proof. unfold GenMetrics.effective_matrix, eff_matrix. cbn [shape2 nth]. rewrite zip2_madd. reflexivity. Qed.
End GenMetricsEq.

(* ================================================================================================================ *)
(* Part 2: rank 2 and rank 3, at F := R, for rectangular arrays.  A reduction along axis 0 / axes (0,1) defined lane by lane
   (NDPrelude) is the row-by-row accumulation of model/Metrics.v (sum0 / mean0 / var0 / max0 / min0 ...).               *)
From Coq Require Import Reals Lra.
From RV Require Import base.BSum proofs.Metrics_proofs.

Section GenMetricsEqR.
Open Scope R_scope.
Notation vec := (list R).
Notation mat := (list (list R)).
Notation ten := (list (list (list R))).

(* ---- structure of the element-wise expressions ---- *)
Lemma zip2_msqdiff : forall y p : mat, map (map npow2) (zip_with (zip_with nsub) y p) = msqdiff y p.
Proof.
  unfold msqdiff. induction y as [|r y IH]; intros [|s p]; cbn [zip_with map combine fst snd]; try reflexivity.
  rewrite IH, sqdiff_gen. reflexivity.
Qed.
Lemma bc_msq_subrow (mu : vec) (y : mat) :
  map (map npow2) (map (fun r => zip_with nsub r mu) y) = msq (subrow y mu).
Proof.
  unfold msq, subrow, vsub. f_equal. apply map_ext; intros r. apply zip_with_vzip.
Qed.
Lemma vzip_app (f : R -> R -> R) : forall a b a' b' : vec, length a = length b ->
  vzip f (a ++ a') (b ++ b') = vzip f a b ++ vzip f a' b'.
Proof. induction a as [|x a IH]; intros [|z b] a' b' Hl; cbn in *; try lia; [reflexivity|]. rewrite IH by lia. reflexivity. Qed.
Lemma concat_msqdiff c : forall y p : mat, rect c y -> rect c p -> concat (msqdiff y p) = sqdiff (concat y) (concat p).
Proof.
  unfold msqdiff. induction y as [|r y IH]; intros [|s p] Hy Hp; cbn [combine map concat fst snd]; try reflexivity.
  - cbn. destruct (r ++ concat y); reflexivity.
  - inversion Hy; inversion Hp; subst. rewrite IH by assumption. unfold sqdiff. rewrite vzip_app by congruence. reflexivity.
Qed.
Lemma rect_hd c (m : mat) : rect c m -> m <> [] -> length (hd [] m) = c.
Proof. intros Hm Hne. destruct m; [congruence|]. inversion Hm; assumption. Qed.
Lemma along0_cols {T} (f : vec -> T) c (m : mat) : rect c m -> m <> [] ->
  along0 f m = map (fun j => f (col j m)) (seq 0 c).
Proof. intros Hm Hne. unfold along0. rewrite (rect_hd c) by assumption. reflexivity. Qed.

(* ---- lane-wise reductions = row-by-row accumulations ---- *)
Lemma along0_sum c m : rect c m -> m <> [] -> along0 np_sum1 m = sum0 c m.
Proof. intros. rewrite (along0_cols _ c), sum0_cols by assumption. reflexivity. Qed.
Lemma along0_mean c m : rect c m -> m <> [] -> along0 np_mean1 m = mean0 c m.
Proof. intros. rewrite (along0_cols _ c), mean0_cols by assumption. reflexivity. Qed.
Lemma along0_var c m : rect c m -> m <> [] -> along0 np_var1 m = var0 c m.
Proof. intros. rewrite (along0_cols _ c), var0_cols by assumption. apply map_ext; intros; apply var_gen. Qed.
Lemma along0_ptp c m : rect c m -> m <> [] -> along0 np_ptp1 m = ptp0 m.
Proof. intros. rewrite (along0_cols _ c), (ptp0_cols c) by assumption. reflexivity. Qed.
Lemma along0_q1q3 c m : rect c m -> m <> [] ->
  zip_with nsub (along0 (np_quantile1 3 4) m) (along0 (np_quantile1 1 4) m) = q1q3_0 c m.
Proof.
  intros. rewrite !(along0_cols _ c), zip_with_vzip by assumption. unfold q1q3_0, cols. rewrite map_map.
  exact (vzip_map_map Rminus (fun j => np_quantile1 3 4 (col j m)) (fun j => np_quantile1 1 4 (col j m)) (seq 0 c)).
Qed.
Lemma along0_norm k c m : rect c m -> m <> [] ->
  match nk k with
  | GenMetrics.Nm_minmax => along0 np_ptp1 m | GenMetrics.Nm_var => along0 np_var1 m | GenMetrics.Nm_mean => along0 np_mean1 m
  | GenMetrics.Nm_q1q3 => zip_with nsub (along0 (np_quantile1 3 4) m) (along0 (np_quantile1 1 4) m)
  end = norm0 k c m.
Proof.
  intros. destruct k; cbn [nk norm0]; [apply (along0_ptp c) | apply along0_var | apply along0_mean | apply along0_q1q3]; assumption.
Qed.

(* ---- rank 2 ---- *)
Lemma shape2_eq (y p : mat) : lnat_eqb (shape2 y) (shape2 p) = true -> length y = length p.
Proof. intros E. apply lnat_eqb_eq in E. unfold shape2 in E. congruence. Qed.
Lemma msqdiff_ne r s (y p : mat) : msqdiff (r :: y) (s :: p) <> [].
Proof. unfold msqdiff. cbn. discriminate. Qed.
Ltac r2_cases y p E :=
  pose proof (shape2_eq y p E) as El;
  destruct y as [|ry y]; [destruct p; [|discriminate El] | destruct p as [|rp p]; [discriminate El|]].

Lemma gen_mse_r2_eq (y p : mat) : rect (length (hd [] y)) y -> rect (length (hd [] y)) p ->
  option_map RS (GenMetrics.mse_r2_g y p) = mse false (A2 y) (A2 p) /\
  option_map RV (GenMetrics.mse_r2_dw y p) = mse true (A2 y) (A2 p).
Proof.
  intros Hy Hp. unfold GenMetrics.mse_r2_g, GenMetrics.mse_r2_dw. open_check.
  destruct (lnat_eqb _ _) eqn:E; [|split; reflexivity].
  cbn [negb option_map tores rows2 nfeat flat shape last]. unfold flat2. rewrite zip2_msqdiff. split.
  - rewrite (concat_msqdiff _ _ _ Hy Hp). reflexivity.
  - r2_cases y p E; [reflexivity|].
    rewrite (along0_mean (length (hd [] (ry :: y)))) by (try apply msqdiff_rect; try apply msqdiff_ne; assumption). reflexivity.
Qed.

Lemma obind_some {A} (o : option A) : obind o (fun x => Some x) = o.
Proof. destruct o; reflexivity. Qed.
Lemma gen_rmse_sq_r2_eq (y p : mat) : rect (length (hd [] y)) y -> rect (length (hd [] y)) p ->
  option_map RS (GenMetrics.rmse_sq_r2_g y p) = rmse_sq false (A2 y) (A2 p) /\
  option_map RV (GenMetrics.rmse_sq_r2_dw y p) = rmse_sq true (A2 y) (A2 p).
Proof. unfold GenMetrics.rmse_sq_r2_g, GenMetrics.rmse_sq_r2_dw. rewrite !obind_some. apply gen_mse_r2_eq. Qed.

Lemma concat_center (mu : R) (y : mat) :
  concat (map (map npow2) (map (map (fun x => nsub x mu)) y)) = map sq (map (fun x => nsub x mu) (concat y)).
Proof. rewrite <- !concat_map. reflexivity. Qed.
Lemma map_zip_fuse (g : R -> R) (f : R -> R -> R) : forall a b : vec, map g (zip_with f a b) = vzip (fun x y => g (f x y)) a b.
Proof. induction a as [|x a IH]; intros [|z b]; cbn; try reflexivity. rewrite IH. reflexivity. Qed.
Lemma centered_ne c r (y : mat) : msq (subrow (r :: y) c) <> [].
Proof. cbn. discriminate. Qed.

Lemma gen_rsquare_r2_eq (y p : mat) : rect (length (hd [] y)) y -> rect (length (hd [] y)) p ->
  option_map RS (GenMetrics.rsquare_r2_g y p) = rsquare false (A2 y) (A2 p) /\
  option_map RV (GenMetrics.rsquare_r2_dw y p) = rsquare true (A2 y) (A2 p) /\
  option_map inl (GenMetrics.rsquare_parts_r2_g y p) = rsquare_parts false (A2 y) (A2 p) /\
  option_map inr (GenMetrics.rsquare_parts_r2_dw y p) = rsquare_parts true (A2 y) (A2 p).
Proof.
  intros Hy Hp. unfold GenMetrics.rsquare_r2_g, GenMetrics.rsquare_r2_dw, GenMetrics.rsquare_parts_r2_g, GenMetrics.rsquare_parts_r2_dw.
  open_check. destruct (lnat_eqb _ _) eqn:E; [|repeat split; reflexivity].
  cbn [negb option_map tores rows2 nfeat flat shape last]. unfold flat2. rewrite zip2_msqdiff, concat_center.
  rewrite (concat_msqdiff _ _ _ Hy Hp).
  assert (DW : forall (y p : mat), rect (length (hd [] y)) y -> rect (length (hd [] y)) p -> lnat_eqb (shape2 y) (shape2 p) = true ->
    along0 np_sum1 (msqdiff y p) = sum0 (length (hd [] y)) (msqdiff y p) /\
    along0 np_sum1 (map (map npow2) (map (fun r_ => zip_with nsub r_ (along0 np_mean1 y)) y))
    = sum0 (length (hd [] y)) (msq (subrow y (mean0 (length (hd [] y)) y)))).
  { clear. intros y p Hy Hp E. r2_cases y p E; [split; reflexivity|].
    rewrite bc_msq_subrow, (along0_mean _ _ Hy) by discriminate.
    rewrite !(along0_sum (length (hd [] (ry :: y))))
      by (try apply msqdiff_rect; try apply centered_rect; try apply msqdiff_ne; try apply centered_ne; assumption).
    split; reflexivity. }
  destruct (DW y p Hy Hp E) as [D1 D2]. rewrite D1, D2. repeat split; try reflexivity.
  unfold rsquare0. rewrite map_zip_fuse. reflexivity.
Qed.

Lemma gen_nrmse_r2_eq (k : normk) (nv : R) (y p : mat) : rect (length (hd [] y)) y -> rect (length (hd [] y)) p ->
  option_map inl (GenMetrics.nrmse_parts_r2_g y p (nk k)) = nrmse_parts false k (A2 y) (A2 p) /\
  option_map inr (GenMetrics.nrmse_parts_r2_dw y p (nk k)) = nrmse_parts true k (A2 y) (A2 p) /\
  option_map inl (GenMetrics.nrmse_parts_nv_r2_g y p nv) = nrmse_parts_nv false nv (A2 y) (A2 p) /\
  option_map inr (GenMetrics.nrmse_parts_nv_r2_dw y p nv) = nrmse_parts_nv true nv (A2 y) (A2 p).
Proof.
  intros Hy Hp.
  unfold GenMetrics.nrmse_parts_r2_g, GenMetrics.nrmse_parts_r2_dw, GenMetrics.nrmse_parts_nv_r2_g, GenMetrics.nrmse_parts_nv_r2_dw,
    GenMetrics.rmse_sq_r2_g, GenMetrics.rmse_sq_r2_dw, GenMetrics.mse_r2_g, GenMetrics.mse_r2_dw.
  open_check. destruct (lnat_eqb _ _) eqn:E; [|repeat split; reflexivity].
  cbn [negb option_map tores rows2 nfeat flat shape last]. unfold flat2. rewrite zip2_msqdiff.
  rewrite (concat_msqdiff _ _ _ Hy Hp), (norm_gen k (concat y)).
  repeat split; try reflexivity.
  - r2_cases y p E; [destruct k; reflexivity|].
    rewrite (along0_norm k _ _ Hy) by discriminate.
    rewrite (along0_mean (length (hd [] (ry :: y)))) by (try apply msqdiff_rect; try apply msqdiff_ne; assumption). reflexivity.
  - r2_cases y p E; [reflexivity|].
    rewrite (along0_mean (length (hd [] (ry :: y)))) by (try apply msqdiff_rect; try apply msqdiff_ne; assumption). reflexivity.
Qed.

(* ---- rank 3: axes (0,1) of an (s, n, c) array = axis 0 of its (s*n, c) reshape, [concat] ---- *)
Definition rect3 (n c : nat) (t : ten) : Prop := Forall (fun m => length m = n /\ rect c m) t.

Lemma rect3_concat n c t : rect3 n c t -> rect c (concat t).
Proof. intros Ht. apply Forall_concat. eapply Forall_impl; [|exact Ht]. intros m [_ Hm]. exact Hm. Qed.
Lemma concat_len0 c (t : ten) : rect3 0 c t -> concat t = [].
Proof. induction 1 as [|m t [Hm _] _ IH]; [reflexivity|]. destruct m; [|discriminate]. exact IH. Qed.
Lemma length_concat_rect3 n c (t : ten) : rect3 n c t -> length (concat t) = (length t * n)%nat.
Proof. induction 1 as [|m t [Hm _] _ IH]; [reflexivity|]. cbn. rewrite app_length, IH, Hm. reflexivity. Qed.
Lemma hd_concat c (t : ten) : rect3 (length (hd [] t)) c t -> length (hd [] (concat t)) = length (hd [] (hd [] t)).
Proof.
  intros Ht. destruct t as [|[|r a] t]; [reflexivity| |reflexivity].
  cbn [hd length] in *. rewrite (concat_len0 _ _ Ht). reflexivity.
Qed.
Lemma msqdiff_app : forall a b ys ps : mat, length a = length b -> msqdiff (a ++ ys) (b ++ ps) = msqdiff a b ++ msqdiff ys ps.
Proof.
  unfold msqdiff. induction a as [|r a IH]; intros [|s b] ys ps Hl; cbn in *; try lia; [reflexivity|]. rewrite IH by lia. reflexivity.
Qed.
Lemma zip3_concat n c : forall y p : ten, rect3 n c y -> rect3 n c p ->
  concat (map (map (map npow2)) (zip_with (zip_with (zip_with nsub)) y p)) = msqdiff (concat y) (concat p).
Proof.
  induction y as [|a y IH]; intros [|b p] Hy Hp; cbn [zip_with map concat]; try reflexivity.
  - unfold msqdiff. destruct (a ++ concat y); reflexivity.
  - inversion Hy as [|? ? [La _] Hy']; inversion Hp as [|? ? [Lb _] Hp']; subst.
    rewrite IH by assumption. rewrite zip2_msqdiff, msqdiff_app by congruence. reflexivity.
Qed.
Lemma concat_bc (mu : vec) (y : ten) :
  concat (map (map (map npow2)) (map (map (fun r => zip_with nsub r mu)) y)) = msq (subrow (concat y) mu).
Proof.
  rewrite <- bc_msq_subrow, <- !concat_map. reflexivity.
Qed.
Lemma zip_with_length {A B C} (f : A -> B -> C) : forall a b, length (zip_with f a b) = Nat.min (length a) (length b).
Proof. induction a as [|x a IH]; intros [|z b]; cbn; try reflexivity. rewrite IH. reflexivity. Qed.
Lemma shape3_eq (y p : ten) : lnat_eqb (shape3 y) (shape3 p) = true ->
  length y = length p /\ length (hd [] y) = length (hd [] p) /\ length (hd [] (hd [] y)) = length (hd [] (hd [] p)).
Proof. intros E. apply lnat_eqb_eq in E. unfold shape3 in E. injection E; auto. Qed.
Lemma bound_zip3 (g : R -> R) (f : R -> R -> R) (y p : ten) :
  length y = length p -> length (hd [] y) = length (hd [] p) -> length (hd [] (hd [] y)) = length (hd [] (hd [] p)) ->
  length (hd [] (hd [] (map (map (map g)) (zip_with (zip_with (zip_with f)) y p)))) = length (hd [] (hd [] y)).
Proof.
  destruct y as [|[|r a] y], p as [|[|s b] p]; cbn; intros; try discriminate; try reflexivity.
  rewrite map_length, zip_with_length. lia.
Qed.
Lemma bound_bc3 (g : R -> R) (f : R -> R -> R) (mu : vec) (y : ten) : length mu = length (hd [] (hd [] y)) ->
  length (hd [] (hd [] (map (map (map g)) (map (map (fun r => zip_with f r mu)) y)))) = length (hd [] (hd [] y)).
Proof.
  destruct y as [|[|r a] y]; cbn; intros; try reflexivity. rewrite map_length, zip_with_length. lia.
Qed.

(* after a successful shape check, on the (s*n, c) reshapes Y, P *)
Section Post.
Variables (c : nat) (Y P : mat).
Hypotheses (HY : rect c Y) (HP : rect c P) (HL : length Y = length P) (HC : length (hd [] Y) = c).
Lemma post_sq_hd : length (hd [] (msqdiff Y P)) = c.
Proof.
  destruct Y as [|r Y']; [exact HC|]. destruct P as [|s P']; [discriminate HL|].
  apply rect_hd; [apply msqdiff_rect; assumption | apply msqdiff_ne].
Qed.
Lemma post_mean : map (fun j => np_mean1 (column j Y)) (seq 0 c) = mean0 c Y.
Proof. rewrite mean0_cols by assumption. reflexivity. Qed.
Lemma post_mse : map (fun j => np_mean1 (column j (msqdiff Y P))) (seq 0 c) = mse0 c Y P.
Proof. unfold mse0. rewrite mean0_cols by (apply msqdiff_rect; assumption). reflexivity. Qed.
Lemma post_sum (M : mat) : rect c M -> map (fun j => np_sum1 (column j M)) (seq 0 c) = sum0 c M.
Proof. intros HM. rewrite sum0_cols by assumption. reflexivity. Qed.
Lemma post_norm k :
  match nk k with
  | GenMetrics.Nm_minmax => map (fun j => np_ptp1 (column j Y)) (seq 0 c)
  | GenMetrics.Nm_var => map (fun j => np_var1 (column j Y)) (seq 0 c)
  | GenMetrics.Nm_mean => map (fun j => np_mean1 (column j Y)) (seq 0 c)
  | GenMetrics.Nm_q1q3 => zip_with nsub (map (fun j => np_quantile1 3 4 (column j Y)) (seq 0 c))
                                      (map (fun j => np_quantile1 1 4 (column j Y)) (seq 0 c))
  end = norm0 k c Y.
Proof.
  destruct Y as [|r Y'] eqn:EY.
  - cbn in HC. subst c. destruct k; reflexivity.
  - rewrite <- EY in *. assert (Hne : Y <> []) by (rewrite EY; discriminate).
    destruct k; cbn [nk norm0].
    + rewrite (ptp0_cols c) by assumption. reflexivity.
    + rewrite var0_cols by assumption. apply map_ext; intros; apply var_gen.
    + rewrite mean0_cols by assumption. reflexivity.
    + rewrite zip_with_vzip. unfold q1q3_0, cols. rewrite map_map.
      exact (vzip_map_map Rminus (fun j => np_quantile1 3 4 (col j Y)) (fun j => np_quantile1 1 4 (col j Y)) (seq 0 c)).
Qed.
End Post.

Lemma gen_mse_r3_eq (y p : ten) :
  rect3 (length (hd [] y)) (length (hd [] (hd [] y))) y -> rect3 (length (hd [] y)) (length (hd [] (hd [] y))) p ->
  option_map RS (GenMetrics.mse_r3_g y p) = mse false (A3 y) (A3 p) /\
  option_map RV (GenMetrics.mse_r3_dw y p) = mse true (A3 y) (A3 p).
Proof.
  intros Hy Hp. unfold GenMetrics.mse_r3_g, GenMetrics.mse_r3_dw. open_check.
  destruct (lnat_eqb _ _) eqn:E; [|split; reflexivity].
  destruct (shape3_eq y p E) as (L1 & L2 & L3).
  cbn [negb option_map tores rows2 nfeat flat shape last]. unfold flat3, along01.
  rewrite bound_zip3 by assumption. rewrite (zip3_concat _ _ y p Hy Hp).
  pose proof (rect3_concat _ _ _ Hy) as RY. pose proof (rect3_concat _ _ _ Hp) as RP. split.
  - rewrite (concat_msqdiff _ _ _ RY RP). reflexivity.
  - rewrite post_mse by assumption. reflexivity.
Qed.
Lemma gen_rmse_sq_r3_eq (y p : ten) :
  rect3 (length (hd [] y)) (length (hd [] (hd [] y))) y -> rect3 (length (hd [] y)) (length (hd [] (hd [] y))) p ->
  option_map RS (GenMetrics.rmse_sq_r3_g y p) = rmse_sq false (A3 y) (A3 p) /\
  option_map RV (GenMetrics.rmse_sq_r3_dw y p) = rmse_sq true (A3 y) (A3 p).
Proof. unfold GenMetrics.rmse_sq_r3_g, GenMetrics.rmse_sq_r3_dw. rewrite !obind_some. apply gen_mse_r3_eq. Qed.

Lemma concat_center3 (mu : R) (y : ten) :
  concat (concat (map (map (map npow2)) (map (map (map (fun x => nsub x mu))) y)))
  = map sq (map (fun x => nsub x mu) (concat (concat y))).
Proof. rewrite <- !concat_map. reflexivity. Qed.

Lemma gen_rsquare_r3_eq (y p : ten) :
  rect3 (length (hd [] y)) (length (hd [] (hd [] y))) y -> rect3 (length (hd [] y)) (length (hd [] (hd [] y))) p ->
  option_map RS (GenMetrics.rsquare_r3_g y p) = rsquare false (A3 y) (A3 p) /\
  option_map RV (GenMetrics.rsquare_r3_dw y p) = rsquare true (A3 y) (A3 p) /\
  option_map inl (GenMetrics.rsquare_parts_r3_g y p) = rsquare_parts false (A3 y) (A3 p) /\
  option_map inr (GenMetrics.rsquare_parts_r3_dw y p) = rsquare_parts true (A3 y) (A3 p).
Proof.
  intros Hy Hp. unfold GenMetrics.rsquare_r3_g, GenMetrics.rsquare_r3_dw, GenMetrics.rsquare_parts_r3_g, GenMetrics.rsquare_parts_r3_dw.
  open_check. destruct (lnat_eqb _ _) eqn:E; [|repeat split; reflexivity].
  destruct (shape3_eq y p E) as (L1 & L2 & L3).
  pose proof (rect3_concat _ _ _ Hy) as RY. pose proof (rect3_concat _ _ _ Hp) as RP.
  cbn [negb option_map tores rows2 nfeat flat shape last]. unfold flat3, along01.
  rewrite concat_center3, (post_mean _ _ RY).
  rewrite bound_zip3 by assumption. rewrite bound_bc3 by (apply mean0_length; assumption).
  rewrite (zip3_concat _ _ y p Hy Hp), concat_bc.
  rewrite (concat_msqdiff _ _ _ RY RP).
  rewrite !post_sum by (try apply msqdiff_rect; try apply centered_rect; assumption).
  repeat split; try reflexivity.
  unfold rsquare0. rewrite map_zip_fuse. reflexivity.
Qed.

Lemma gen_nrmse_r3_eq (k : normk) (nv : R) (y p : ten) :
  rect3 (length (hd [] y)) (length (hd [] (hd [] y))) y -> rect3 (length (hd [] y)) (length (hd [] (hd [] y))) p ->
  option_map inl (GenMetrics.nrmse_parts_r3_g y p (nk k)) = nrmse_parts false k (A3 y) (A3 p) /\
  option_map inr (GenMetrics.nrmse_parts_r3_dw y p (nk k)) = nrmse_parts true k (A3 y) (A3 p) /\
  option_map inl (GenMetrics.nrmse_parts_nv_r3_g y p nv) = nrmse_parts_nv false nv (A3 y) (A3 p) /\
  option_map inr (GenMetrics.nrmse_parts_nv_r3_dw y p nv) = nrmse_parts_nv true nv (A3 y) (A3 p).
Proof.
  intros Hy Hp.
  unfold GenMetrics.nrmse_parts_r3_g, GenMetrics.nrmse_parts_r3_dw, GenMetrics.nrmse_parts_nv_r3_g, GenMetrics.nrmse_parts_nv_r3_dw,
    GenMetrics.rmse_sq_r3_g, GenMetrics.rmse_sq_r3_dw, GenMetrics.mse_r3_g, GenMetrics.mse_r3_dw.
  open_check. destruct (lnat_eqb _ _) eqn:E; [|repeat split; reflexivity].
  destruct (shape3_eq y p E) as (L1 & L2 & L3).
  pose proof (rect3_concat _ _ _ Hy) as RY. pose proof (rect3_concat _ _ _ Hp) as RP.
  cbn [negb option_map tores rows2 nfeat flat shape last]. unfold flat3, along01.
  rewrite bound_zip3 by assumption. rewrite (zip3_concat _ _ y p Hy Hp).
  rewrite (concat_msqdiff _ _ _ RY RP), (norm_gen k (concat (concat y))).
  rewrite (post_norm _ _ (concat y) RY RY eq_refl (hd_concat _ _ Hy) k), post_mse by assumption.
  repeat split; reflexivity.
Qed.
End GenMetricsEqR.
