(* C11: the training state machine run with the Q kernels, then embedded in R, IS the state machine run with the R kernels on
   the embedded store and operations.

   model/TrainSem.v is generic in the types of the fixed side, the learned side, the state, a data row and the buffers, and in
   six kernels (fresh buffers, one accumulation, the two backward rules, the online loop, the forward state).  The theorems of
   props/C11.v hold for every choice of them.  The correspondence run (run/RunC11.v, chk_hist) instantiates them at Q
   (model/TrainSemQ.v: Ridge accumulation and Gauss-Jordan solve, the default-buffer learner, RLS / LMS).

   Part A (no numbers): a MORPHISM OF KERNELS is a simulation of the whole machine.  Given maps on the five carrier types that
   commute with the six kernels, every function of TrainSem.v -- init_buffers, clean_buffers, partial_backward, the
   partial_fit loop and its rejection, backward, Node.fit with its three clean-ups, Node.train, Node.run, freeze, Model.fit
   (every outcome: Done, Rejected, FailedPartial, FailedBackward), Model.train, one [step], a whole history [run_ops], the
   [trace] of outcomes and the [targets] predicate -- commutes with the node-wise map, for every clean-up configuration.

   Part B: the kernels of TrainSemQ.v, written once over [Num F] ([hypF], [acc0F] ... [fwdF]; the linear solver is a parameter).
   For every homomorphism [phi] of the class out of Q (base/NumHom.v), in particular [Q2R], the Q kernels are mapped onto
   the F kernels by the entry-wise embedding: Ridge accumulation (QR_bridge_C04), np.concatenate and the sums of the default
   learner, RLS / LMS online loops (QR_bridge_C10), unconditionally; the Ridge backward for ANY solver on the target side that
   is related to Gauss-Jordan [LA.qsolve] on the source side ([option_map em (qsolve A B) = solveG (em A) (em B)]: same
   failure on a singular system, embedded solution otherwise).  That relation is the only hypothesis; it is what stays
   trusted of the Q instance (the soundness of LA.qsolve is not proved in this development).

   Part C: the verdict of the runner.  [chk_hist st h = true] implies [hist_close]: the R machine, started from the embedded
   store and fed the embedded operations, produces after every operation the observed outcome code, the observed flags /
   buffer counts / aliasing on every node, learned parameters within 1e-9*max(1,|.|) of the observed ones (real
   inequality), and the frame conditions (no fixed array changed; a learned array changed only on a target). *)
From Coq Require Import Reals QArith Qreals List Bool Arith ZArith.
From RV Require Import base.Num base.LA base.NumHom model.Ridge model.Online model.TrainSem model.TrainSemQ.
From RV Require Import proofs.QR_bridge_C04 proofs.QR_bridge_C10.
Import ListNotations.
Close Scope Q_scope.

(* ================================================================== Part A: a morphism of kernels is a simulation *)
Section Sim.
Variables (P1 L1 St1 Row1 A1 P2 L2 St2 Row2 A2 : Type).
Variable acc0_1 : P1 -> A1.
Variable acc_step_1 : P1 -> A1 -> list Row1 -> option (list Row1) -> A1.
Variable bk_buf_1 : P1 -> A1 -> option L1.
Variable bk_def_1 : P1 -> list (list Row1) -> list (list Row1) -> option L1.
Variable train_fn_1 : P1 -> L1 -> St1 -> list Row1 -> option (list Row1) -> L1 * St1.
Variable fwd_1 : P1 -> L1 -> St1 -> list Row1 -> St1.
Variable acc0_2 : P2 -> A2.
Variable acc_step_2 : P2 -> A2 -> list Row2 -> option (list Row2) -> A2.
Variable bk_buf_2 : P2 -> A2 -> option L2.
Variable bk_def_2 : P2 -> list (list Row2) -> list (list Row2) -> option L2.
Variable train_fn_2 : P2 -> L2 -> St2 -> list Row2 -> option (list Row2) -> L2 * St2.
Variable fwd_2 : P2 -> L2 -> St2 -> list Row2 -> St2.

Variables (eP : P1 -> P2) (eL : L1 -> L2) (eS : St1 -> St2) (eR : Row1 -> Row2) (eA : A1 -> A2).
Notation eB := (map eR).

Hypothesis H_acc0 : forall p, eA (acc0_1 p) = acc0_2 (eP p).
Hypothesis H_acc_step : forall p a x y, eA (acc_step_1 p a x y) = acc_step_2 (eP p) (eA a) (eB x) (option_map eB y).
Hypothesis H_bk_buf : forall p a, option_map eL (bk_buf_1 p a) = bk_buf_2 (eP p) (eA a).
Hypothesis H_bk_def : forall p X Y, option_map eL (bk_def_1 p X Y) = bk_def_2 (eP p) (map eB X) (map eB Y).
Hypothesis H_train_fn : forall p l s x y,
  (eL (fst (train_fn_1 p l s x y)), eS (snd (train_fn_1 p l s x y))) = train_fn_2 (eP p) (eL l) (eS s) (eB x) (option_map eB y).
Hypothesis H_fwd : forall p l s x, eS (fwd_1 p l s x) = fwd_2 (eP p) (eL l) (eS s) (eB x).

Notation node1 := (node P1 L1 St1 Row1 A1).
Notation node2 := (node P2 L2 St2 Row2 A2).

Definition enode (n : node1) : node2 :=
  mkNode (n_kind n) (eP (n_fixed n)) (eL (n_learned n)) (eS (n_state n)) (n_trainable n) (n_fitted n)
         (option_map eA (n_buffers n)) (map eB (n_X n)) (map eB (n_Y n)) (n_aliased n).
Definition eD (d : list Row1 * option (list Row1)) : list Row2 * option (list Row2) := (eB (fst d), option_map eB (snd d)).
Definition eix {T U} (f : T -> U) (p : nat * T) : nat * U := (fst p, f (snd p)).
Definition eop (o : op Row1) : op Row2 :=
  match o with
  | ORun xs => ORun (map (eix eB) xs)
  | OPartialFit i w seqs => OPartialFit i w (map eD seqs)
  | OFit i w seqs => OFit i w (option_map (map eD) seqs)
  | OTrain i d => OTrain i (eD d)
  | OFreeze i v => OFreeze i v
  | OMFit ms w runs seqs => OMFit ms w (map (eix eB) runs) (map (map (eix eD)) seqs)
  | OMTrain ms runs ds => OMTrain ms (map (eix eB) runs) (map (eix eD) ds)
  end.
Notation estore := (map enode).

(* ---- predicates and setters ---- *)
Lemma sim_offline n : is_trained_offline (enode n) = is_trained_offline n.   Proof. reflexivity. Qed.
Lemma sim_online n : is_trained_online (enode n) = is_trained_online n.      Proof. reflexivity. Qed.
Lemma sim_set_trainable v n : enode (set_trainable v n) = set_trainable v (enode n).
Proof. unfold set_trainable. rewrite sim_offline, sim_online. destruct (_ || _); reflexivity. Qed.
Lemma sim_clean_buffers n : enode (clean_buffers n) = clean_buffers (enode n).
Proof. reflexivity. Qed.
Lemma sim_init_buffers n : enode (init_buffers acc0_1 n) = init_buffers acc0_2 (enode n).
Proof.
  unfold init_buffers. cbn [enode n_kind n_buffers n_fixed]. destruct (n_kind n); try reflexivity.
  destruct (n_buffers n); cbn [option_map]; [reflexivity|]. unfold set_buffers, enode. cbn. rewrite H_acc0. reflexivity.
Qed.
Lemma map_opt_list {T U} (f : T -> U) (o : option T) : map f (opt_list o) = opt_list (option_map f o).
Proof. destruct o; reflexivity. Qed.
Lemma sim_partial_backward n x y :
  enode (partial_backward acc_step_1 n x y) = partial_backward acc_step_2 (enode n) (eB x) (option_map eB y).
Proof.
  unfold partial_backward. cbn [enode n_kind n_aliased n_fixed n_buffers n_X n_Y].
  assert (EB : enode (set_buffers (option_map (fun a => acc_step_1 (n_fixed n) a x y) (n_buffers n)) n)
               = set_buffers (option_map (fun a => acc_step_2 (eP (n_fixed n)) a (eB x) (option_map eB y)) (option_map eA (n_buffers n)))
                             (enode n)).
  { unfold set_buffers, enode. cbn. f_equal. destruct (n_buffers n); cbn; [rewrite H_acc_step|]; reflexivity. }
  assert (EX : enode (if n_aliased n then let l := n_X n ++ [x] ++ opt_list y in set_xy l l true n
                      else set_xy (n_X n ++ [x]) (n_Y n ++ opt_list y) false n)
               = (if n_aliased n then let l := map eB (n_X n) ++ [eB x] ++ opt_list (option_map eB y) in set_xy l l true (enode n)
                  else set_xy (map eB (n_X n) ++ [eB x]) (map eB (n_Y n) ++ opt_list (option_map eB y)) false (enode n))).
  { destruct (n_aliased n); cbv zeta; unfold set_xy, enode; cbn; rewrite ?map_app; cbn [map]; rewrite ?map_opt_list; reflexivity. }
  destruct (n_kind n); assumption.
Qed.
Lemma sim_pstep w n d : option_map enode (pstep acc_step_1 w n d) = pstep acc_step_2 w (enode n) (eD d).
Proof.
  unfold pstep, eD. cbn [fst snd]. rewrite map_length. destruct (length (fst d) <=? w); [reflexivity|]. cbn [option_map].
  rewrite sim_partial_backward, skipn_map. do 2 f_equal. destruct (snd d); cbn; [rewrite skipn_map|]; reflexivity.
Qed.
Definition enb (r : node1 * bool) : node2 * bool := (enode (fst r), snd r).
Lemma sim_pf_loop w seqs : forall n, enb (pf_loop acc_step_1 w n seqs) = pf_loop acc_step_2 w (enode n) (map eD seqs).
Proof.
  induction seqs as [|d r IH]; intros n; [reflexivity|]. cbn [pf_loop map]. rewrite <- sim_pstep.
  destruct (pstep acc_step_1 w n d); cbn [option_map]; [apply IH | reflexivity].
Qed.
Definition eno (r : node1 * outcome) : node2 * outcome := (enode (fst r), snd r).
Lemma sim_partial_fit w n seqs :
  eno (partial_fit acc0_1 acc_step_1 w n seqs) = partial_fit acc0_2 acc_step_2 w (enode n) (map eD seqs).
Proof.
  unfold partial_fit. rewrite sim_offline. destruct (is_trained_offline n); [|reflexivity].
  rewrite <- sim_init_buffers, <- sim_pf_loop. destruct (pf_loop acc_step_1 w (init_buffers acc0_1 n) seqs) as [n' ok]. reflexivity.
Qed.
Lemma sim_backward n : option_map eL (backward bk_buf_1 bk_def_1 n) = backward bk_buf_2 bk_def_2 (enode n).
Proof.
  unfold backward. cbn [enode n_kind n_buffers n_fixed n_X n_Y]. destruct (n_kind n); try reflexivity.
  - destruct (n_buffers n); cbn [option_map]; [apply H_bk_buf | reflexivity].
  - apply H_bk_def.
Qed.
Lemma sim_finish c n : eno (finish bk_buf_1 bk_def_1 c n) = finish bk_buf_2 bk_def_2 c (enode n).
Proof.
  unfold finish. rewrite <- sim_backward. destruct (backward bk_buf_1 bk_def_1 n); cbn [option_map]; [reflexivity|].
  destruct (cl_bk c); reflexivity.
Qed.
Lemma sim_fit c w n seqs :
  eno (fit acc0_1 acc_step_1 bk_buf_1 bk_def_1 c w n seqs)
  = fit acc0_2 acc_step_2 bk_buf_2 bk_def_2 c w (enode n) (option_map (map eD) seqs).
Proof.
  unfold fit. rewrite sim_offline. destruct (is_trained_offline n); [|reflexivity].
  destruct seqs as [sq|]; cbn [option_map].
  - change (set_fitted false (enode n)) with (enode (set_fitted false n)).
    rewrite <- sim_init_buffers, <- sim_pf_loop.
    destruct (pf_loop acc_step_1 w (init_buffers acc0_1 (set_fitted false n)) sq) as [n1 ok]. cbn [enb fst snd].
    destruct ok; [apply sim_finish|]. destruct (cl_pf_node c); reflexivity.
  - apply (sim_finish c (set_fitted false n)).
Qed.
Lemma sim_train n d : eno (train train_fn_1 n d) = train train_fn_2 (enode n) (eD d).
Proof.
  unfold train. rewrite sim_online. destruct (is_trained_online n); [|reflexivity].
  cbn [enode n_fixed n_learned n_state eD fst snd]. rewrite <- H_train_fn.
  destruct (train_fn_1 (n_fixed n) (n_learned n) (n_state n) (fst d) (snd d)) as [l s]. reflexivity.
Qed.
Lemma sim_run n x : enode (run fwd_1 n x) = run fwd_2 (enode n) (eB x).
Proof. unfold run, set_state, enode. cbn. rewrite H_fwd. reflexivity. Qed.

(* ---- stores ---- *)
Lemma sim_nth_error st i : nth_error (estore st) i = option_map enode (nth_error st i).
Proof. apply nth_error_map. Qed.
Lemma sim_upd (f : node1 -> node1) (g : node2 -> node2) : (forall n, enode (f n) = g (enode n)) ->
  forall st i, estore (upd i f st) = upd i g (estore st).
Proof. intros E. induction st as [|n r IH]; intros [|i]; cbn; try reflexivity; [rewrite E | rewrite IH]; reflexivity. Qed.
Lemma sim_put i n st : estore (put i n st) = put i (enode n) (estore st).
Proof. apply (sim_upd (fun _ => n) (fun _ => enode n)). reflexivity. Qed.
Lemma sim_upd_all (f : node1 -> node1) (g : node2 -> node2) : (forall n, enode (f n) = g (enode n)) ->
  forall is st, estore (upd_all is f st) = upd_all is g (estore st).
Proof.
  intros E. unfold upd_all. induction is as [|i is IH]; intros st; [reflexivity|]. cbn [fold_left].
  rewrite IH, (sim_upd f g E). reflexivity.
Qed.
Lemma sim_run_all xs : forall st, estore (run_all fwd_1 xs st) = run_all fwd_2 (map (eix eB) xs) (estore st).
Proof.
  unfold run_all. induction xs as [|p xs IH]; intros st; [reflexivity|]. cbn [fold_left map eix fst snd].
  rewrite IH. f_equal. apply sim_upd. intros; apply sim_run.
Qed.
Definition eso (r : list node1 * outcome) : list node2 * outcome := (estore (fst r), snd r).
Definition esb (r : list node1 * bool) : list node2 * bool := (estore (fst r), snd r).
Lemma sim_on_node i (f : node1 -> node1 * outcome) (g : node2 -> node2 * outcome) st :
  (forall n, eno (f n) = g (enode n)) -> eso (on_node i f st) = on_node i g (estore st).
Proof.
  intros E. unfold on_node. rewrite sim_nth_error. destruct (nth_error st i) as [n|]; cbn [option_map]; [|reflexivity].
  rewrite <- E. destruct (f n) as [n' o]. unfold eso, eno. cbn [fst snd]. rewrite sim_put. reflexivity.
Qed.
Lemma sim_offline_at st i : offline_at (estore st) i = offline_at st i.
Proof. unfold offline_at. rewrite sim_nth_error. destruct (nth_error st i); reflexivity. Qed.
Lemma sim_filter_offline st ms : filter (offline_at (estore st)) ms = filter (offline_at st) ms.
Proof. apply filter_ext. intros; apply sim_offline_at. Qed.

(* ---- Model.fit ---- *)
Lemma sim_mseq w ds : forall st, esb (mseq acc0_1 acc_step_1 w st ds) = mseq acc0_2 acc_step_2 w (estore st) (map (eix eD) ds).
Proof.
  induction ds as [|[i d] r IH]; intros st; [reflexivity|]. cbn [mseq map eix fst snd].
  rewrite sim_nth_error. destruct (nth_error st i) as [n|]; cbn [option_map]; [|apply IH].
  rewrite sim_offline. destruct (is_trained_offline n); [|apply IH].
  rewrite <- sim_init_buffers, <- sim_pstep. destruct (pstep acc_step_1 w (init_buffers acc0_1 n) d) as [n'|]; cbn [option_map]; [|reflexivity].
  rewrite <- sim_put. apply IH.
Qed.
Lemma sim_mloop w seqs : forall st,
  esb (mloop acc0_1 acc_step_1 w st seqs) = mloop acc0_2 acc_step_2 w (estore st) (map (map (eix eD)) seqs).
Proof.
  induction seqs as [|s r IH]; intros st; [reflexivity|]. cbn [mloop map]. rewrite <- sim_mseq.
  destruct (mseq acc0_1 acc_step_1 w st s) as [st1 ok]. cbn [esb fst snd]. destruct ok; [apply IH | reflexivity].
Qed.
Lemma sim_mfinish c offl : forall st,
  esb (mfinish acc0_1 acc_step_1 bk_buf_1 bk_def_1 c st offl) = mfinish acc0_2 acc_step_2 bk_buf_2 bk_def_2 c (estore st) offl.
Proof.
  induction offl as [|i r IH]; intros st; [reflexivity|]. cbn [mfinish].
  rewrite sim_nth_error. destruct (nth_error st i) as [n|]; cbn [option_map]; [|apply IH].
  pose proof (sim_fit c 0 n None) as E. cbn [option_map] in E. rewrite <- E.
  destruct (fit acc0_1 acc_step_1 bk_buf_1 bk_def_1 c 0 n None) as [n' o]. cbn [eno fst snd].
  destruct o; try (unfold esb; cbn [fst snd]; rewrite sim_put; reflexivity).
  rewrite <- sim_put. apply IH.
Qed.
Lemma sim_model_fit c ms w runs seqs st :
  eso (model_fit acc0_1 acc_step_1 bk_buf_1 bk_def_1 fwd_1 c ms w runs seqs st)
  = model_fit acc0_2 acc_step_2 bk_buf_2 bk_def_2 fwd_2 c ms w (map (eix eB) runs) (map (map (eix eD)) seqs) (estore st).
Proof.
  unfold model_fit. rewrite sim_filter_offline. destruct (filter (offline_at st) ms) as [|i0 offl] eqn:EF; [reflexivity|].
  rewrite <- (sim_upd_all (init_buffers acc0_1) (init_buffers acc0_2) sim_init_buffers), <- sim_run_all, <- sim_mloop.
  destruct (mloop acc0_1 acc_step_1 w (run_all fwd_1 runs (upd_all ms (init_buffers acc0_1) st)) seqs) as [st2 ok].
  cbn [esb fst snd]. destruct ok.
  - rewrite <- sim_mfinish. destruct (mfinish acc0_1 acc_step_1 bk_buf_1 bk_def_1 c st2 (i0 :: offl)) as [st3 ok3].
    cbn [esb fst snd]. destruct ok3; [reflexivity|]. unfold eso. cbn [fst snd].
    destruct (cl_bk c); [|reflexivity]. rewrite (sim_upd_all clean_buffers clean_buffers sim_clean_buffers). reflexivity.
  - unfold eso. cbn [fst snd]. destruct (cl_pf_model c); [|reflexivity].
    rewrite (sim_upd_all clean_buffers clean_buffers sim_clean_buffers). reflexivity.
Qed.

(* ---- Model.train ---- *)
Lemma sim_mtrain1 st p : estore (mtrain1 train_fn_1 st p) = mtrain1 train_fn_2 (estore st) (eix eD p).
Proof.
  unfold mtrain1. cbn [eix fst snd]. rewrite sim_nth_error. destruct (nth_error st (fst p)) as [n|]; cbn [option_map]; [|reflexivity].
  rewrite sim_online. destruct (is_trained_online n); [|reflexivity]. rewrite <- sim_train, sim_put. reflexivity.
Qed.
Lemma sim_model_train ms runs ds st :
  eso (model_train train_fn_1 fwd_1 ms runs ds st) = model_train train_fn_2 fwd_2 ms (map (eix eB) runs) (map (eix eD) ds) (estore st).
Proof.
  unfold model_train.
  assert (EB : existsb (fun i => match nth_error (estore st) i with Some n => blocks_online n | None => false end) ms
               = existsb (fun i => match nth_error st i with Some n => blocks_online n | None => false end) ms).
  { induction ms as [|i r IH]; [reflexivity|]. cbn [existsb]. rewrite IH, sim_nth_error. destruct (nth_error st i); reflexivity. }
  rewrite EB. clear EB. destruct (existsb _ ms); [reflexivity|]. unfold eso. cbn [fst snd]. f_equal.
  rewrite <- sim_run_all. generalize (run_all fwd_1 runs st). induction ds as [|p r IH]; intros s; [reflexivity|].
  cbn [fold_left map]. rewrite IH, sim_mtrain1. reflexivity.
Qed.

(* ---- one operation, a history, the trace, the targets ---- *)
Notation step1 := (step acc0_1 acc_step_1 bk_buf_1 bk_def_1 train_fn_1 fwd_1).
Notation step2 := (step acc0_2 acc_step_2 bk_buf_2 bk_def_2 train_fn_2 fwd_2).
Theorem sim_step c st o : eso (step1 c st o) = step2 c (estore st) (eop o).
Proof.
  destruct o as [xs|i w seqs|i w seqs|i d|i v|ms w runs seqs|ms runs ds]; cbn [step eop].
  - unfold eso. cbn [fst snd]. rewrite sim_run_all. reflexivity.
  - apply sim_on_node. intros; apply sim_partial_fit.
  - apply sim_on_node. intros; apply sim_fit.
  - apply sim_on_node. intros; apply sim_train.
  - unfold eso. cbn [fst snd]. rewrite (sim_upd (set_trainable v) (set_trainable v) (sim_set_trainable v)). reflexivity.
  - apply sim_model_fit.
  - apply sim_model_train.
Qed.
Theorem sim_run_ops c ops : forall st,
  estore (run_ops acc0_1 acc_step_1 bk_buf_1 bk_def_1 train_fn_1 fwd_1 c st ops)
  = run_ops acc0_2 acc_step_2 bk_buf_2 bk_def_2 train_fn_2 fwd_2 c (estore st) (map eop ops).
Proof.
  unfold run_ops. induction ops as [|o r IH]; intros st; [reflexivity|]. cbn [fold_left map].
  rewrite IH, <- sim_step. reflexivity.
Qed.
Theorem sim_trace c ops : forall st,
  map eso (trace acc0_1 acc_step_1 bk_buf_1 bk_def_1 train_fn_1 fwd_1 c st ops)
  = trace acc0_2 acc_step_2 bk_buf_2 bk_def_2 train_fn_2 fwd_2 c (estore st) (map eop ops).
Proof.
  induction ops as [|o r IH]; intros st; [reflexivity|]. cbn [trace map]. rewrite <- sim_step. cbn [eso fst]. rewrite IH. reflexivity.
Qed.
Lemma sim_targets st o i : targets (estore st) (eop o) i = targets st o i.
Proof.
  destruct o as [xs|j w seqs|j w seqs|j d|j v|ms w runs seqs|ms runs ds]; cbn [targets eop]; try reflexivity.
  - rewrite sim_offline_at. reflexivity.
  - rewrite sim_nth_error. destruct (nth_error st i); reflexivity.
  - rewrite sim_offline_at. reflexivity.
  - rewrite sim_nth_error. f_equal; [|destruct (nth_error st i); reflexivity].
    induction ds as [|p r IH]; [reflexivity|]. cbn [existsb map eix fst]. rewrite IH. reflexivity.
Qed.
End Sim.

Arguments enode {P1 L1 St1 Row1 A1 P2 L2 St2 Row2 A2}.
Arguments eD {Row1 Row2}.
Arguments eop {Row1 Row2}.
Arguments eso {P1 L1 St1 Row1 A1 P2 L2 St2 Row2 A2}.

(* ================================================================== Part B: the kernels of TrainSemQ.v over any [Num F] *)
Section KernelsF.
Context {F : Type} `{Num F}.
Notation vec := (list F).
Notation mat := (list (list F)).
(* scipy.linalg.solve; None = LinAlgError (Gauss-Jordan [LA.qsolve] at Q) *)
Variable solve : mat -> mat -> option mat.

Record hypF := mkHypF { f_bias : bool; f_lam : F; f_din : nat; f_dout : nat; f_rls : bool; f_alpha : F }.
Definition fixedF := (hypF * nat)%type.
Definition learnedF := rdo (F:=F).
Definition accF := (mat * mat)%type.

Definition acc0F (p : fixedF) : accF := buffers0 (f_bias (fst p)) (f_din (fst p)) (f_dout (fst p)).
Definition acc_stepF (p : fixedF) (a : accF) (x : mat) (y : option mat) : accF :=
  Ridge.partial_backward (f_bias (fst p)) (f_din (fst p)) (f_dout (fst p)) a x (match y with Some y' => y' | None => [] end).
Definition bk_bufF (p : fixedF) (a : accF) : option learnedF :=
  let h := fst p in
  match solve (ridge_system (f_bias h) (f_lam h) (f_din h) (fst a)) (transpose (snd a) (aug_dim (f_bias h) (f_din h))) with
  | Some Wo => let '(W, b) := split_wo (f_bias h) (f_dout h) Wo in Some {| Wout := W; bias := b; Pm := []; cursor := 0 |}
  | None => None
  end.
Definition widthT {T} (b : list (list T)) : nat := length (hd [] b).
Definition np_concatT {T} (l : list (list (list T))) : option (list (list T)) :=
  match l with
  | [] => None
  | b :: r => if forallb (fun b' => widthT b' =? widthT b) r then Some (concat l) else None
  end.
Definition msumF (m : mat) : F := vsum (map (vsum (F:=F)) m).
Definition bk_defF (p : fixedF) (X Y : list mat) : option learnedF :=
  match np_concatT X, np_concatT Y with
  | Some x, Some y =>
      Some {| Wout := []; bias := [msumF x; msumF y; nofZ (Z.of_nat (length x)); nofZ (Z.of_nat (length y))];
              Pm := []; cursor := 0 |}
  | _, _ => None
  end.
Definition train_fnF (p : fixedF) (l : learnedF) (s : nat) (x : mat) (y : option mat) : learnedF * nat :=
  let h := fst p in
  let xy := combine x (match y with Some y' => y' | None => [] end) in
  (if f_rls h then fst (rls_train (f_bias h) (f_dout h) 1 l xy)
   else fst (lms_train ([], f_alpha h) (f_bias h) (f_dout h) 1 l xy), s + length x).
Definition fwdF (p : fixedF) (l : learnedF) (s : nat) (x : mat) : nat := s + length x.

Definition stepF (c : cfg) : list (node fixedF learnedF nat vec accF) -> op vec -> list (node fixedF learnedF nat vec accF) * outcome :=
  step acc0F acc_stepF bk_bufF bk_defF train_fnF fwdF c.
Definition run_opsF (c : cfg) := run_ops acc0F acc_stepF bk_bufF bk_defF train_fnF fwdF c.
Definition traceF (c : cfg) := trace acc0F acc_stepF bk_bufF bk_defF train_fnF fwdF c.
Definition fitF (c : cfg) := fit (St:=nat) acc0F acc_stepF bk_bufF bk_defF c.
Definition partial_fitF := partial_fit (L:=learnedF) (St:=nat) acc0F acc_stepF.
Definition trainF := train (A:=accF) train_fnF.
Definition runF := run (A:=accF) fwdF.

Definition learned0F (k : kind) (h : hypF) : learnedF :=
  match k with
  | KOnline => if f_rls h then rls_init (f_bias h) (f_din h) (f_dout h) (f_alpha h) else lms_init (f_din h) (f_dout h)
  | KDef => {| Wout := []; bias := []; Pm := []; cursor := 0 |}
  | _ => {| Wout := mzeros (f_din h) (f_dout h); bias := vzeros (f_dout h); Pm := []; cursor := 0 |}
  end.
Definition freshF (k : kind) (h : hypF) : node fixedF learnedF nat vec accF := fresh k (h, 0) (learned0F k h) 0.
End KernelsF.
Arguments hypF F : clear implicits.
Arguments fixedF F : clear implicits.

(* at F := Q with Gauss-Jordan, these ARE the kernels of model/TrainSemQ.v, up to the name of the record of hypers *)
Definition hyp2F (h : hyp) : hypF Q := mkHypF (h_bias h) (h_lam h) (h_din h) (h_dout h) (h_rls h) (h_alpha h).
Definition fx2F (p : fixedQ) : fixedF Q := (hyp2F (fst p), snd p).
Lemma kernelsQ_are_kernelsF :
  (forall p, acc0Q p = acc0F (fx2F p)) /\ (forall p a x y, acc_stepQ p a x y = acc_stepF (fx2F p) a x y) /\
  (forall p a, bk_bufQ p a = bk_bufF qsolve (fx2F p) a) /\ (forall p X Y, bk_defQ p X Y = bk_defF (fx2F p) X Y) /\
  (forall p l s x y, train_fnQ p l s x y = train_fnF (fx2F p) l s x y) /\ (forall p l s x, fwdQ p l s x = fwdF (fx2F p) l s x).
Proof. repeat split; reflexivity. Qed.

(* ------------------------------------------------------------------ the Q kernels are mapped onto the G kernels *)
Section BridgeC11.
Context {G : Type} {NG : Num G} (phi : Q -> G) {HH : NumHom phi}.
Local Notation ev := (map phi).
Local Notation em := (map (map phi)).
Variable solveG : list (list G) -> list (list G) -> option (list (list G)).
Hypothesis Hsolve : forall A B, option_map em (qsolve A B) = solveG (em A) (em B).

Definition ehyp (h : hyp) : hypF G := mkHypF (h_bias h) (phi (h_lam h)) (h_din h) (h_dout h) (h_rls h) (phi (h_alpha h)).
Definition efx (p : fixedQ) : fixedF G := (ehyp (fst p), snd p).
Definition est (s : nat) : nat := s.

Lemma K_acc0 p : eacc phi (acc0Q p) = acc0F (efx p).
Proof. apply (e_buffers0 phi). Qed.
Lemma K_acc_step p a x y : eacc phi (acc_stepQ p a x y) = acc_stepF (efx p) (eacc phi a) (em x) (option_map em y).
Proof. unfold acc_stepQ, acc_stepF. rewrite (e_partial_backward phi). destruct y; reflexivity. Qed.
Lemma K_bk_buf p a : option_map (erdo phi) (bk_bufQ p a) = bk_bufF solveG (efx p) (eacc phi a).
Proof.
  unfold bk_bufQ, bk_bufF. cbv zeta. cbn [efx ehyp fst snd f_bias f_lam f_din f_dout eacc].
  rewrite <- (em_ridge_system phi), <- (em_transpose phi), <- Hsolve.
  destruct (qsolve _ _) as [Wo|]; cbn [option_map]; [|reflexivity].
  rewrite <- (e_split_wo phi). destruct (split_wo (h_bias (fst p)) (h_dout (fst p)) Wo) as [W b]. reflexivity.
Qed.
Lemma widthT_em (b : qm) : widthT (em b) = widthT b.
Proof. destruct b; cbn; [reflexivity | apply map_length]. Qed.
Lemma e_np_concat (l : list qm) : option_map em (np_concat l) = np_concatT (map em l).
Proof.
  destruct l as [|b r]; [reflexivity|]. cbn [np_concat np_concatT map].
  assert (E : forallb (fun b' => widthT b' =? widthT (em b)) (map em r) = forallb (fun b' => width b' =? width b) r).
  { induction r as [|b' r IH]; [reflexivity|]. cbn [forallb map]. rewrite IH, !widthT_em. reflexivity. }
  rewrite E. destruct (forallb _ r); [|reflexivity]. cbn [option_map]. f_equal.
  change (em b :: map em r) with (map em (b :: r)). rewrite concat_map. reflexivity.
Qed.
Lemma hom_msum (m : qm) : phi (msum m) = msumF (em m).
Proof. unfold msum, msumF. rewrite (ev_vsum phi), !map_map. f_equal. apply map_ext. intros; apply (ev_vsum phi). Qed.
Lemma K_bk_def p X Y : option_map (erdo phi) (bk_defQ p X Y) = bk_defF (efx p) (map em X) (map em Y).
Proof.
  unfold bk_defQ, bk_defF. rewrite <- !e_np_concat.
  destruct (np_concat X) as [x|]; cbn [option_map]; [|reflexivity].
  destruct (np_concat Y) as [y|]; cbn [option_map]; [|reflexivity].
  unfold erdo. cbn [Wout bias Pm cursor map]. rewrite !hom_msum, !map_length.
  change (inject_Z (Z.of_nat (length x))) with (nofZ (F:=Q) (Z.of_nat (length x))).
  change (inject_Z (Z.of_nat (length y))) with (nofZ (F:=Q) (Z.of_nat (length y))).
  rewrite !(hom_ofZ phi). reflexivity.
Qed.
Lemma map_exy_combine (x y : qm) : map (exy phi) (combine x y) = combine (em x) (em y).
Proof. revert y. induction x as [|a x IH]; intros [|b y]; cbn; try reflexivity. rewrite IH. reflexivity. Qed.
Lemma K_train_fn p l s x y :
  (erdo phi (fst (train_fnQ p l s x y)), est (snd (train_fnQ p l s x y))) = train_fnF (efx p) (erdo phi l) (est s) (em x) (option_map em y).
Proof.
  unfold train_fnQ, train_fnF, est. cbv zeta. cbn [fst snd efx ehyp f_bias f_dout f_rls f_alpha]. rewrite map_length. f_equal.
  assert (E : combine (em x) (match option_map em y with Some y' => y' | None => [] end)
              = map (exy phi) (combine x (match y with Some y' => y' | None => [] end))).
  { rewrite map_exy_combine. destruct y; reflexivity. }
  rewrite E. destruct (h_rls (fst p)).
  - rewrite <- (e_rls_train phi). reflexivity.
  - change (@nil G, phi (h_alpha (fst p))) with (esched phi ([], h_alpha (fst p))). rewrite <- (e_lms_train phi). reflexivity.
Qed.
Lemma K_fwd p l s x : est (fwdQ p l s x) = fwdF (efx p) (erdo phi l) (est s) (em x).
Proof. unfold fwdQ, fwdF, est. rewrite map_length. reflexivity. Qed.

(* the embedding of a node, of an operation, of a store *)
Definition enodeQ : nodeQ -> node (fixedF G) (learnedF (F:=G)) nat (list G) (accF (F:=G)) := enode efx (erdo phi) est ev (eacc phi).
Definition eopQ : opQ -> op (list G) := eop ev.
Definition esoQ (r : list nodeQ * outcome) := (map enodeQ (fst r), snd r).
Definition enoQ (r : nodeQ * outcome) := (enodeQ (fst r), snd r).
Definition eDQ : qm * option qm -> list (list G) * option (list (list G)) := eD ev.

(* one operation of any kind with any outcome; a whole history; the outcomes along it; the targets *)
Theorem e_stepQ c st o : esoQ (stepQ c st o) = stepF solveG c (map enodeQ st) (eopQ o).
Proof.
  apply (sim_step _ _ _ _ _ _ _ _ _ _ acc0Q acc_stepQ bk_bufQ bk_defQ train_fnQ fwdQ acc0F acc_stepF (bk_bufF solveG) bk_defF train_fnF fwdF
                efx (erdo phi) est ev (eacc phi) K_acc0 K_acc_step K_bk_buf K_bk_def K_train_fn K_fwd).
Qed.
Theorem e_run_opsQ c ops st : map enodeQ (run_opsQ c st ops) = run_opsF solveG c (map enodeQ st) (map eopQ ops).
Proof.
  apply (sim_run_ops _ _ _ _ _ _ _ _ _ _ acc0Q acc_stepQ bk_bufQ bk_defQ train_fnQ fwdQ acc0F acc_stepF (bk_bufF solveG) bk_defF train_fnF fwdF
                   efx (erdo phi) est ev (eacc phi) K_acc0 K_acc_step K_bk_buf K_bk_def K_train_fn K_fwd).
Qed.
Theorem e_traceQ c ops st :
  map esoQ (trace acc0Q acc_stepQ bk_bufQ bk_defQ train_fnQ fwdQ c st ops) = traceF solveG c (map enodeQ st) (map eopQ ops).
Proof.
  apply (sim_trace _ _ _ _ _ _ _ _ _ _ acc0Q acc_stepQ bk_bufQ bk_defQ train_fnQ fwdQ acc0F acc_stepF (bk_bufF solveG) bk_defF train_fnF fwdF
                 efx (erdo phi) est ev (eacc phi) K_acc0 K_acc_step K_bk_buf K_bk_def K_train_fn K_fwd).
Qed.
Lemma e_targetsQ (st : list nodeQ) (o : opQ) i : targets (map enodeQ st) (eopQ o) i = targets st o i.
Proof. apply sim_targets. Qed.
(* the node-level operations *)
Theorem e_fitQ c w n seqs : enoQ (fitQ c w n seqs) = fitF solveG c w (enodeQ n) (option_map (map eDQ) seqs).
Proof.
  apply (sim_fit _ _ _ _ _ _ _ _ _ _ acc0Q acc_stepQ bk_bufQ bk_defQ acc0F acc_stepF (bk_bufF solveG) bk_defF
               efx (erdo phi) est ev (eacc phi) K_acc0 K_acc_step K_bk_buf K_bk_def).
Qed.
(* partial_fit, train and run do not solve anything: no hypothesis on the solver is used (see Print Assumptions / the section
   discharge: [Hsolve] does not appear in their statements) *)
Theorem e_partial_fitQ w n seqs : enoQ (partial_fit acc0Q acc_stepQ w n seqs) = partial_fitF w (enodeQ n) (map eDQ seqs).
Proof. apply (sim_partial_fit _ _ _ _ _ _ _ _ _ _ acc0Q acc_stepQ acc0F acc_stepF efx (erdo phi) est ev (eacc phi) K_acc0 K_acc_step). Qed.
Theorem e_trainQ n d : enoQ (train train_fnQ n d) = trainF (enodeQ n) (eDQ d).
Proof. apply (sim_train _ _ _ _ _ _ _ _ _ _ train_fnQ train_fnF efx (erdo phi) est ev (eacc phi) K_train_fn). Qed.
Theorem e_runQ n x : enodeQ (run fwdQ n x) = runF (enodeQ n) (em x).
Proof. apply (sim_run _ _ _ _ _ _ _ _ _ _ fwdQ fwdF efx (erdo phi) est ev (eacc phi) K_fwd). Qed.

(* the nodes the harness starts from *)
Lemma e_freshQ k h : enodeQ (freshQ k h) = freshF k (ehyp h).
Proof.
  unfold freshQ, freshF, fresh, enodeQ, enode. cbn. f_equal.
  destruct k; cbn [learned0 learned0F ehyp f_rls f_bias f_din f_dout f_alpha].
  - unfold erdo. cbn. rewrite (em_mzeros phi), (ev_vzeros phi). reflexivity.
  - unfold erdo. cbn. rewrite (em_mzeros phi), (ev_vzeros phi). reflexivity.
  - reflexivity.
  - destruct (h_rls h); [apply (e_rls_init phi) | apply (e_lms_init phi)].
Qed.
End BridgeC11.

(* ================================================================== the instance Q -> R *)
Notation nodeR := (node (fixedF R) (learnedF (F:=R)) nat (list R) (accF (F:=R))).
Notation opR := (op (list R)).
Notation node2r := (enodeQ Q2R).
Notation op2r := (eopQ Q2R).
Notation hyp2r := (ehyp Q2R).
Notation D2r := (eDQ Q2R).
Definition related_solvers (solveR : list (list R) -> list (list R) -> option (list (list R))) : Prop :=
  forall A B : list (list Q), option_map qm2r (qsolve A B) = solveR (qm2r A) (qm2r B).

(* every operation (run, partial_fit, fit, train, freeze, Model.fit, Model.train), every outcome, every clean-up configuration *)
Lemma Qstep_embeds solveR (c : cfg) (st : list nodeQ) (o : opQ) : related_solvers solveR ->
  (map node2r (fst (stepQ c st o)), snd (stepQ c st o)) = stepF solveR c (map node2r st) (op2r o).
Proof. intros Hs. apply (e_stepQ Q2R solveR Hs). Qed.
Lemma Qrun_ops_embeds solveR (c : cfg) (ops : list opQ) (st : list nodeQ) : related_solvers solveR ->
  map node2r (run_opsQ c st ops) = run_opsF solveR c (map node2r st) (map op2r ops).
Proof. intros Hs. apply (e_run_opsQ Q2R solveR Hs). Qed.
Lemma Qtrace_embeds solveR (c : cfg) (ops : list opQ) (st : list nodeQ) : related_solvers solveR ->
  map (fun r => (map node2r (fst r), snd r)) (trace acc0Q acc_stepQ bk_bufQ bk_defQ train_fnQ fwdQ c st ops)
  = traceF solveR c (map node2r st) (map op2r ops).
Proof. intros Hs. apply (e_traceQ Q2R solveR Hs). Qed.
Lemma Qtargets_embed (st : list nodeQ) (o : opQ) (i : nat) : targets (map node2r st) (op2r o) i = targets st o i.
Proof. apply (e_targetsQ Q2R). Qed.
Lemma Qfit_node_embeds solveR (c : cfg) (w : nat) (n : nodeQ) (seqs : option (list (qm * option qm))) : related_solvers solveR ->
  (node2r (fst (fitQ c w n seqs)), snd (fitQ c w n seqs)) = fitF solveR c w (node2r n) (option_map (map D2r) seqs).
Proof. intros Hs. apply (e_fitQ Q2R solveR Hs). Qed.
(* no solver involved: partial_fit (accumulation and rejection), the online train, run *)
Lemma Qsolverfree_embed (w : nat) (n : nodeQ) (seqs : list (qm * option qm)) (d : qm * option qm) (x : qm) :
  (node2r (fst (partial_fit acc0Q acc_stepQ w n seqs)), snd (partial_fit acc0Q acc_stepQ w n seqs))
    = partial_fitF w (node2r n) (map D2r seqs) /\
  (node2r (fst (train train_fnQ n d)), snd (train train_fnQ n d)) = trainF (node2r n) (D2r d) /\
  node2r (run fwdQ n x) = runF (node2r n) (qm2r x).
Proof. split; [apply (e_partial_fitQ Q2R) | split; [apply (e_trainQ Q2R) | apply (e_runQ Q2R)]]. Qed.
Lemma Qfresh_embeds (k : kind) (h : hyp) : node2r (freshQ k h) = freshF k (hyp2r h).
Proof. apply (e_freshQ Q2R). Qed.

(* a concrete instance: an RLS readout (bias, 2 inputs, 1 output, alpha = 1/2) trained online on two samples, then run.
   The R machine on the embedded store ends in exactly the embedded node the Q run computes. *)
Definition ex_rls : nodeQ := freshQ KOnline (mkHyp true 0 2 1 true (1#2)).
Definition ex_d : qm * option qm := ([[(1#2)%Q; (-1#1)%Q]; [(1#4)%Q; (2#1)%Q]], Some [[(3#4)%Q]; [(-1#2)%Q]]).
Example Qtrain_example :
  trainF (freshF KOnline (hyp2r (mkHyp true 0 2 1 true (1#2)))) (D2r ex_d)
  = (node2r (mkNode KOnline (mkHyp true 0 2 1 true (1#2), 0)
               {| Wout := [[(18#155)%Q]; [(-331#930)%Q]]; bias := [(193#930)%Q];
                  Pm := [[(286#465)%Q; (-88#155)%Q; (-52#465)%Q]; [(-88#155)%Q; (272#155)%Q; (16#155)%Q];
                         [(-52#465)%Q; (16#155)%Q; (94#465)%Q]]; cursor := 0 |} 2 true true None [] [] false), Done).
Proof.
  rewrite <- Qfresh_embeds. destruct (Qsolverfree_embed 0 (freshQ KOnline (mkHyp true 0 2 1 true (1#2))) [] ex_d []) as (_ & E & _).
  rewrite <- E. vm_compute train. reflexivity.
Qed.

(* a failure outcome: a Ridge node (bias, 2 inputs, 1 output), warm-up 1, second sequence of one row: the R machine rejects
   it (FailedPartial) after having accumulated the first one, as the Q run does *)
Definition ex_bad : list (qm * option qm) :=
  [([[1%Q; 2%Q]; [3%Q; 4%Q]], Some [[1%Q]; [2%Q]]); ([[5%Q; 6%Q]], Some [[3%Q]])].
Example Qpartial_fit_reject_example :
  snd (partial_fitF 1 (freshF KBuf (hyp2r (mkHyp true (1#2) 2 1 false 0))) (map D2r ex_bad)) = FailedPartial /\
  n_buffers (fst (partial_fitF 1 (freshF KBuf (hyp2r (mkHyp true (1#2) 2 1 false 0))) (map D2r ex_bad)))
  = Some (acc2r ([[1%Q; 3%Q; 4%Q]; [3%Q; 9%Q; 12%Q]; [4%Q; 12%Q; 16%Q]], [[2%Q; 6%Q; 8%Q]])).
Proof.
  rewrite <- Qfresh_embeds. destruct (Qsolverfree_embed 1 (freshQ KBuf (mkHyp true (1#2) 2 1 false 0)) ex_bad ex_d []) as (E & _ & _).
  rewrite <- E. cbn [fst snd]. split; [vm_compute; reflexivity|].
  unfold enodeQ, enode. cbn [n_buffers]. vm_compute partial_fit. reflexivity.
Qed.

(* ================================================================== Part C: the verdict of the runner, read at R *)
From RV Require Import run.RunC11.

(* the number-free part of [chk_node]: frame conditions, buffer count, aliasing, list lengths, flags *)
Definition struct_ok {P L St Row A} (tgt : bool) (n' : node P L St Row A) (o : nobs) : bool :=
  negb (ob_fixed_changed o)
  && implb (ob_learned_changed o) tgt
  && Bool.eqb (ob_nbuf o =? 0) (is_none (n_buffers n'))
  && Bool.eqb (ob_alias o) (n_aliased n')
  && (ob_lx o =? length (n_X n')) && (ob_ly o =? length (n_Y n'))
  && Bool.eqb (ob_fitted o) (n_fitted n') && Bool.eqb (ob_trainable o) (n_trainable n').
Definition node_close (tgt : bool) (n' : nodeR) (o : nobs) : Prop :=
  struct_ok tgt n' o = true /\
  match ob_W o with
  | Some (W, b) => mrclose (Wout (n_learned n')) (qm2r W) /\ vrclose (bias (n_learned n')) (qv2r b)
  | None => True
  end.
Fixpoint nodes_close (st : list nodeR) (o : opR) (i : nat) (st' : list nodeR) (obs : list nobs) : Prop :=
  match st', obs with
  | [], [] => True
  | n' :: r, ob :: robs => node_close (targets st o i) n' ob /\ nodes_close st o (S i) r robs
  | _, _ => False
  end.
(* the walk of [chk_hist], performed with the R machine *)
Fixpoint hist_close (solveR : list (list R) -> list (list R) -> option (list (list R)))
         (st : list nodeR) (h : list (opR * (nat * list nobs))) : Prop :=
  match h with
  | [] => True
  | (o, (code, obs)) :: r =>
      outcome_code (snd (stepF solveR HEAD st o)) = code /\
      nodes_close st o 0 (fst (stepF solveR HEAD st o)) obs /\
      hist_close solveR (fst (stepF solveR HEAD st o)) r
  end.
Definition hist2r (h : list (opQ * (nat * list nobs))) : list (opR * (nat * list nobs)) :=
  map (fun p => (op2r (fst p), snd p)) h.

Lemma is_none_map {T U} (f : T -> U) (o : option T) : is_none (option_map f o) = is_none o.
Proof. destruct o; reflexivity. Qed.
Lemma struct_ok_embed tgt (n' : nodeQ) o : struct_ok tgt (node2r n') o = struct_ok tgt n' o.
Proof.
  unfold struct_ok, enodeQ, enode. cbn [n_buffers n_aliased n_X n_Y n_fitted n_trainable]. rewrite !map_length, is_none_map. reflexivity.
Qed.
Lemma chk_node_close tgt (n' : nodeQ) o : chk_node tgt n' o = true -> node_close tgt (node2r n') o.
Proof.
  intros Hx. change (chk_node tgt n' o) with
    (struct_ok tgt n' o && match ob_W o with Some (W, b) => mclose (Wout (n_learned n')) W && vclose (bias (n_learned n')) b | None => true end) in Hx.
  apply andb_true_iff in Hx. destruct Hx as [Hs Hw]. split; [rewrite struct_ok_embed; exact Hs|].
  destruct (ob_W o) as [[W b]|]; [|exact I]. apply andb_true_iff in Hw. destruct Hw as [H1 H2].
  split; [apply mclose_mrclose, H1 | apply vclose_vrclose, H2].
Qed.
Lemma chk_nodes_close (st : list nodeQ) (o : opQ) : forall st' i obs,
  chk_nodes st o i st' obs = true -> nodes_close (map node2r st) (op2r o) i (map node2r st') obs.
Proof.
  induction st' as [|n' r IH]; intros i [|ob robs]; cbn [chk_nodes nodes_close map]; intros Hx; try discriminate; try exact I.
  apply andb_true_iff in Hx. destruct Hx as [H1 H2]. split; [rewrite Qtargets_embed; apply chk_node_close, H1 | apply IH, H2].
Qed.
Lemma chk_hist_is_about_R_model solveR : related_solvers solveR ->
  forall (h : list (opQ * (nat * list nobs))) (st : list nodeQ),
  chk_hist st h = true -> hist_close solveR (map node2r st) (hist2r h).
Proof.
  intros Hs. induction h as [|[o [code obs]] r IH]; intros st Hx; [exact I|].
  cbn [chk_hist] in Hx. cbn [hist_close hist2r map fst snd].
  pose proof (Qstep_embeds solveR HEAD st o Hs) as E. rewrite <- E. clear E.
  destruct (stepQ HEAD st o) as [st' oc]. cbn [fst snd].
  repeat (apply andb_true_iff in Hx; destruct Hx as [Hx ?]).
  split; [apply Nat.eqb_eq; assumption|]. split; [apply chk_nodes_close; assumption | apply IH; assumption].
Qed.

(* the premise is satisfiable (solver-free history: an RLS readout trained online on the two samples of [Qtrain_example],
   observed exactly; then frozen) *)
Example chk_hist_example :
  chk_hist [nd_rls true (1#2) 2 1]
    [(OTrain 0 ex_d, (0, [mkObs false true 0 false 0 0 true true (Some ([[(18#155)%Q]; [(-331#930)%Q]], [(193#930)%Q]))]));
     (OFreeze 0 false, (0, [mkObs false false 0 false 0 0 true false None]))] = true.
Proof. vm_compute. reflexivity. Qed.
