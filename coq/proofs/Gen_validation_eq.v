(* Tie (T) of C12: the validation functions GENERATED from the current source (gen/Gen_validation.v, translator
   tools/vlib/py2coq_val.py, vocabulary base/ValPrelude.v) are equal to the hand model model/Shapes.v, for ALL descriptors. *)
From Coq Require Import List Arith Bool Lia.
From RV Require Import model.Shapes base.ValPrelude gen.Gen_validation proofs.Shapes_proofs.
Import ListNotations.

(* the model returns the checked SHAPE where the code returns the checked ARRAY (numeric by then) *)
Definition as_array (r : res (list nat)) : res data :=
  match r with ROk sh => ROk (DArr true sh) | RErr e => RErr e end.

(* the model's expected dimension (None | a tuple of ints) as the Python object the code receives *)
Definition emb (ed : option (list nat)) : pyobj :=
  match ed with None => PNone | Some l => obj_of_shape l end.

Lemma bind_ret {A} (m : res A) : bind m (fun a => ROk a) = m.
Proof. destruct m; reflexivity. Qed.

(* ------------------------------------------------------------------------------------------------ check_vector *)
Lemma gen_check_vector_eq (x : data) (ats : bool) :
  Gen_validation.check_vector x true ats = as_array (Shapes.check_vector x ats).
Proof.
  unfold Gen_validation.check_vector, Shapes.check_vector.
  destruct x as [num sh| | | |]; try reflexivity; [|destruct ats; reflexivity].
  destruct num; [|reflexivity].
  destruct sh as [|a [|b l]]; destruct ats; simpl; try reflexivity;
    destruct (1 <? a); reflexivity.
Qed.

(* ------------------------------------------------------------------------------------------------ check_one_sequence *)
Lemma for_each_raise {A} (P : A -> bool) (e : exn) (l : list A) :
  for_each (fun a => if P a then RErr e else ROk tt) l = if existsb P l then RErr e else ROk tt.
Proof.
  induction l as [|a l IH]; simpl; [reflexivity|].
  destruct (P a); simpl; [reflexivity|exact IH].
Qed.

Lemma forallb_id_map {A} (f : A -> bool) (l : list A) : forallb (fun b => b) (map f l) = forallb f l.
Proof. induction l as [|a l IH]; simpl; [reflexivity|rewrite IH; reflexivity]. Qed.

Lemma existsb_map {A B} (f : A -> B) (P : B -> bool) (l : list A) : existsb P (map f l) = existsb (fun a => P (f a)) l.
Proof. induction l as [|a l IH]; simpl; [reflexivity|rewrite IH; reflexivity]. Qed.

Lemma existsb_ext' {A} (f g : A -> bool) (l : list A) : (forall a, f a = g a) -> existsb f l = existsb g l.
Proof. intro H. induction l as [|a l IH]; simpl; [reflexivity|rewrite H, IH; reflexivity]. Qed.

Lemma skipn1_tl {A} (l : list A) : skipn 1 l = tl l.
Proof. destruct l; reflexivity. Qed.

(* after check_vector: the dimension test of the code is dims_ok *)
Lemma gen_dim_test (ed sh : list nat) :
  bind (obj_len (obj_of_shape ed)) (fun t3 =>
    if negb (t3 =? length (skipn 1 sh)) then RErr ValueError
    else bind (obj_iter (obj_of_shape ed)) (fun t4 =>
         bind (for_each (fun dim => if forallb (fun b => b) (map (fun ddim => negb (obj_eqb dim (PInt ddim))) (skipn 1 sh))
                                    then RErr ValueError else ROk tt) t4)
              (fun _ => ROk tt)))
  = if dims_ok ed (tl sh) then ROk tt else RErr ValueError.
Proof.
  rewrite !skipn1_tl. unfold dims_ok, obj_of_shape; simpl. rewrite map_length.
  destruct (length ed =? length (tl sh)); simpl; [|reflexivity].
  rewrite (for_each_raise (fun dim => forallb (fun b => b) (map (fun ddim => negb (obj_eqb dim (PInt ddim))) (tl sh)))).
  rewrite existsb_map.
  rewrite (existsb_ext' _ (fun dim => forallb (fun dd => negb (dim =? dd)) (tl sh))).
  - destruct (existsb _ ed); reflexivity.
  - intro a. rewrite forallb_id_map. reflexivity.
Qed.

Lemma none_shape (l : list nat) : obj_is_none (obj_of_shape l) = false. Proof. reflexivity. Qed.
Lemma tuple_shape (l : list nat) : obj_is_tuple (obj_of_shape l) = true. Proof. reflexivity. Qed.

Lemma gen_check_one_sequence_eq (x : data) (ed : option (list nat)) (ats : bool) :
  Gen_validation.check_one_sequence x (emb ed) ats = as_array (Shapes.check_one_sequence x ed ats).
Proof.
  unfold Gen_validation.check_one_sequence, Shapes.check_one_sequence.
  rewrite gen_check_vector_eq.
  destruct ed as [ed|]; unfold emb.
  - rewrite none_shape, tuple_shape. cbn [negb andb bind].
    destruct (Shapes.check_vector x ats) as [sh|e]; cbn [as_array bind attr_shape]; [|reflexivity].
    cbn [negb]. rewrite (gen_dim_test ed sh). destruct (dims_ok ed (tl sh)); reflexivity.
  - destruct (Shapes.check_vector x ats) as [sh|e]; reflexivity.
Qed.

(* an int given as expected dimension is the 1-tuple (the normalisation `expected_dim = (expected_dim,)`) *)
Lemma gen_check_one_sequence_int (x : data) (d : nat) (ats : bool) :
  Gen_validation.check_one_sequence x (PInt d) ats = as_array (Shapes.check_one_sequence x (Some [d]) ats).
Proof. rewrite <- gen_check_one_sequence_eq. reflexivity. Qed.

(* ------------------------------------------------------------------------------------------------ check_n_sequences *)
Definition cns_eq (x : data) : Prop :=
  forall ans ani ats,
    Gen_validation.check_n_sequences x PNone ans ani ats = Shapes.check_n_sequences x None ans ani ats.

(* a loop whose body is "L[i] = g(X[i])" is the monadic map of g *)
Lemma for_items_stateless (body : nat -> data -> unit -> res (data * unit)) (g : data -> res data) (l : list data) :
  (forall i xi st, In xi l -> body i xi st = bind (g xi) (fun v => ROk (v, tt))) ->
  forall i n, n = length l -> for_items body i n l tt = bind (map_res g l) (fun l' => ROk (l', tt)).
Proof.
  induction l as [|a r IH]; intros Hb i n ->; [reflexivity|].
  simpl. rewrite Hb by (left; reflexivity). destruct (g a) as [v|e]; simpl; [|reflexivity].
  rewrite IH by (solve [reflexivity] || (intros; apply Hb; right; assumption)). destruct (map_res g r); reflexivity.
Qed.

Lemma model_go_map (g : data -> res data) (l : list data) :
  (fix go (l : list data) : res (list data) :=
     match l with
     | [] => ROk []
     | it :: r => match g it with
                  | ROk v => match go r with ROk r' => ROk (v :: r') | RErr e => RErr e end
                  | RErr e => RErr e
                  end
     end) l = map_res g l.
Proof.
  induction l as [|a r IH]; [reflexivity|]. simpl. rewrite IH.
  destruct (g a); simpl; [|reflexivity]. destruct (map_res g r); reflexivity.
Qed.

Lemma map_res_ext {A B} (f g : A -> res B) (l : list A) : (forall a, In a l -> f a = g a) -> map_res f l = map_res g l.
Proof.
  induction l as [|a r IH]; intro H; [reflexivity|]. simpl. rewrite (H a) by (left; reflexivity).
  rewrite IH by (intros; apply H; right; assumption). reflexivity.
Qed.

(* --- expected_dim None --- *)
Lemma cns_none_list (items : list data) : Forall cns_eq items -> forall ans ani ats,
  Gen_validation.check_n_sequences (DList items) PNone ans ani ats = Shapes.check_n_sequences (DList items) None ans ani ats.
Proof.
  intros HF ans ani ats. cbn -[for_items]. rewrite !bind_ret.
  rewrite (model_go_map (fun it => if ani then Shapes.check_n_sequences it None ans false ats
                                   else if ans then Shapes.check_n_sequences it None false false ats else RErr TypeError)).
  rewrite (for_items_stateless _ (fun it => if ani then Shapes.check_n_sequences it None ans false ats
                                   else if ans then Shapes.check_n_sequences it None false false ats else RErr TypeError)).
  - destruct (map_res _ items); reflexivity.
  - intros i xi st Hin. rewrite Forall_forall in HF. pose proof (HF xi Hin) as E. unfold cns_eq in E.
    rewrite !bind_ret. rewrite !E. destruct ani; [reflexivity|]. destruct ans; reflexivity.
  - reflexivity.
Qed.

Lemma cns_none_nonlist (x : data) : (forall l, x <> DList l) -> forall ans ani ats,
  Gen_validation.check_n_sequences x PNone ans ani ats = Shapes.check_n_sequences x None ans ani ats.
Proof.
  intros H ans ani ats.
  destruct x as [num sh|l| | |]; [| exfalso; apply (H l); reflexivity | | |];
    cbn -[Gen_validation.check_one_sequence Shapes.check_one_sequence]; rewrite !bind_ret;
    rewrite (gen_check_one_sequence_eq _ None ats);
    match goal with |- as_array ?m = _ => destruct m; reflexivity end.
Qed.

(* --- expected_dim a single int / 1-tuple: branch "L" --- *)
Lemma model_go_c1s (d : nat) (ats : bool) (l : list data) :
  (fix go (l : list data) : res (list data) :=
     match l with
     | [] => ROk []
     | it :: r => match Shapes.check_one_sequence it (Some [d]) ats with
                  | ROk sh => match go r with ROk r' => ROk (DArr true sh :: r') | RErr e => RErr e end
                  | RErr e => RErr e
                  end
     end) l = map_res (fun it => as_array (Shapes.check_one_sequence it (Some [d]) ats)) l.
Proof.
  induction l as [|a r IH]; [reflexivity|]. simpl. rewrite IH.
  destruct (Shapes.check_one_sequence a (Some [d]) ats); simpl; [|reflexivity]. destruct (map_res _ r); reflexivity.
Qed.

Lemma cns_one_list (items : list data) (d : nat) ans ani ats :
  Gen_validation.check_n_sequences (DList items) (emb (Some [d])) ans ani ats
  = Shapes.check_n_sequences (DList items) (Some [d]) ans ani ats.
Proof.
  cbn -[for_items Gen_validation.check_one_sequence Shapes.check_one_sequence]. rewrite !bind_ret.
  destruct ans; [|reflexivity]. cbn [negb].
  rewrite model_go_c1s.
  rewrite (for_items_stateless _ (fun it => as_array (Shapes.check_one_sequence it (Some [d]) ats))).
  - destruct (map_res _ items); reflexivity.
  - intros i xi st _. change (PTuple [PInt d]) with (emb (Some [d])). rewrite gen_check_one_sequence_eq. reflexivity.
  - reflexivity.
Qed.

Lemma map_res_repeat {A B} (g : A -> res B) (a : A) (n : nat) :
  map_res g (repeat a n)
  = match n with 0 => ROk [] | S _ => match g a with ROk v => ROk (repeat v n) | RErr e => RErr e end end.
Proof.
  induction n as [|n IH]; [reflexivity|]. simpl. destruct (g a) as [v|e] eqn:E; simpl; [|reflexivity].
  rewrite IH. destruct n; reflexivity.
Qed.

Lemma c1s_2d (num : bool) (a b : nat) ed ats sh' :
  Shapes.check_one_sequence (DArr num [a; b]) ed ats = ROk sh' -> sh' = [a; b].
Proof.
  unfold Shapes.check_one_sequence, Shapes.check_vector. destruct num; simpl; [|intro H; discriminate H].
  destruct (negb ats && (1 <? a)); [intro H; discriminate H|].
  destruct ed as [ed|]; [destruct (dims_ok ed _); [|intro H; discriminate H]|]; intro H; injection H as <-; reflexivity.
Qed.

Lemma forallb_repeat {A} (P : A -> bool) (a : A) (n : nat) : P a = true -> forallb P (repeat a n) = true.
Proof. intro H. induction n; simpl; [reflexivity|rewrite H, IHn; reflexivity]. Qed.

Lemma cns_one_arr num sh (d : nat) ans ani ats :
  Gen_validation.check_n_sequences (DArr num sh) (emb (Some [d])) ans ani ats
  = Shapes.check_n_sequences (DArr num sh) (Some [d]) ans ani ats.
Proof.
  cbn -[for_items Gen_validation.check_one_sequence Shapes.check_one_sequence Nat.leb Nat.eqb arr_len arr_rows arr_assign_rows].
  rewrite !bind_ret. change (1 <? 1) with false. cbv iota. change (PTuple [PInt d]) with (emb (Some [d])).
  destruct (length sh <=? 2).
  - rewrite gen_check_one_sequence_eq. destruct (Shapes.check_one_sequence _ _ _); reflexivity.
  - destruct (length sh =? 3) eqn:E3; [|reflexivity].
    destruct sh as [|n [|a [|b [|c r]]]]; try discriminate E3.
    cbn [arr_len arr_rows bind hd tl].
    rewrite (for_items_stateless _ (fun it => as_array (Shapes.check_one_sequence it (Some [d]) ats))).
    + rewrite map_res_repeat. destruct n as [|n]; [reflexivity|].
      change (S n =? 0) with false. cbv iota.
      destruct (Shapes.check_one_sequence (DArr num [a; b]) (Some [d]) ats) as [sh'|e] eqn:E; [|reflexivity].
      apply c1s_2d in E. subst sh'. cbn [as_array bind fst arr_assign_rows].
      rewrite forallb_repeat; [reflexivity|].
      cbn. rewrite !Nat.eqb_refl. reflexivity.
    + intros i xi st _. rewrite gen_check_one_sequence_eq. reflexivity.
    + rewrite repeat_length. reflexivity.
Qed.

Lemma cns_one_other (x : data) (d : nat) ans ani ats : (forall n s, x <> DArr n s) -> (forall l, x <> DList l) ->
  Gen_validation.check_n_sequences x (emb (Some [d])) ans ani ats = Shapes.check_n_sequences x (Some [d]) ans ani ats.
Proof.
  intros H1 H2. destruct x as [n s|l| | |]; [exfalso; apply (H1 n s); reflexivity|exfalso; apply (H2 l); reflexivity| | |]; reflexivity.
Qed.

Lemma cns_empty_tuple (x : data) ans ani ats :
  Gen_validation.check_n_sequences x (emb (Some [])) ans ani ats = Shapes.check_n_sequences x (Some []) ans ani ats.
Proof. destruct x; reflexivity. Qed.

Lemma cns_one (x : data) (d : nat) ans ani ats :
  Gen_validation.check_n_sequences x (emb (Some [d])) ans ani ats = Shapes.check_n_sequences x (Some [d]) ans ani ats.
Proof.
  destruct x as [n s|l| | |]; [apply cns_one_arr|apply cns_one_list| | |]; apply cns_one_other; intros; discriminate.
Qed.

(* --- expected_dim a tuple of two or more ints: branch "I" (one entry per input) --- *)
(* what a single-input check returns: a list of 2-D (or more) arrays, or an array with 2 or 3 axes *)
Definition ts_form (v : data) : Prop :=
  (exists l, v = DList l /\ Forall (fun a => exists sh, a = DArr true sh /\ 2 <= length sh) l)
  \/ (exists num sh, v = DArr num sh /\ (length sh = 2 \/ length sh = 3)).

Lemma c1s_len2 (x : data) ed ats sh : Shapes.check_one_sequence x ed ats = ROk sh -> 2 <= length sh.
Proof.
  unfold Shapes.check_one_sequence. destruct (Shapes.check_vector x ats) as [sh'|e] eqn:E; [|intro H; discriminate H].
  assert (L : 2 <= length sh').
  { unfold Shapes.check_vector in E. destruct x as [num s| | | |]; try discriminate E.
    - destruct (negb num); [discriminate E|]. destruct (negb ats && _); [discriminate E|]. injection E as <-.
      destruct s as [|a [|b s]]; simpl; lia.
    - injection E as <-. simpl. lia. }
  destruct ed as [ed|]; [destruct (dims_ok ed (tl sh')); [|intro H; discriminate H]|]; intro H; injection H as <-; exact L.
Qed.

Lemma map_res_Forall {A B} (g : A -> res B) (P : B -> Prop) (l : list A) (l' : list B) :
  (forall a b, g a = ROk b -> P b) -> map_res g l = ROk l' -> Forall P l'.
Proof.
  intro H. revert l'. induction l as [|a r IH]; intros l' E; simpl in E.
  - injection E as <-. constructor.
  - destruct (g a) as [b|e] eqn:Ea; simpl in E; [|discriminate E].
    destruct (map_res g r) as [r'|e]; simpl in E; [|discriminate E]. injection E as <-.
    constructor; [exact (H a b Ea)|apply IH; reflexivity].
Qed.

Lemma cns_one_form (x : data) (e : nat) ans ani ats v :
  Shapes.check_n_sequences x (Some [e]) ans ani ats = ROk v -> ts_form v.
Proof.
  destruct x as [num sh|items| | |]; try (intro H; discriminate H).
  - cbn -[Shapes.check_one_sequence Nat.leb Nat.eqb]. destruct (length sh <=? 2) eqn:L2.
    + destruct (Shapes.check_one_sequence (DArr num sh) (Some [e]) ats) as [sh'|err] eqn:E; [|intro H; discriminate H].
      intro H; injection H as <-. right. exists true, sh'. split; [reflexivity|]. left.
      pose proof (c1s_len2 _ _ _ _ E) as G. unfold Shapes.check_one_sequence in E.
      destruct (Shapes.check_vector (DArr num sh) ats) as [s2|]; [|discriminate E].
      destruct (dims_ok [e] (tl s2)) eqn:D; [|discriminate E]. injection E as ->.
      apply dims_ok_length in D. destruct sh' as [|a [|b [|c s]]]; simpl in *; try lia; discriminate D.
    + destruct (length sh =? 3) eqn:L3; [|intro H; discriminate H]. apply Nat.eqb_eq in L3.
      assert (G : forall w, w = ROk v -> w = ROk (DArr num sh) -> ts_form v).
      { intros w -> H. injection H as ->. right. exists num, sh. split; [reflexivity|right; exact L3]. }
      destruct (hd 0 sh =? 0); [intro H; apply (G _ H); reflexivity|].
      destruct (Shapes.check_one_sequence (DArr num (tl sh)) (Some [e]) ats); [|intro H; discriminate H].
      intro H; apply (G _ H); reflexivity.
  - cbn -[Shapes.check_one_sequence]. destruct (negb ans); [intro H; discriminate H|].
    rewrite model_go_c1s. destruct (map_res _ items) as [l|err] eqn:E; [|intro H; discriminate H].
    intro H; injection H as <-. left. exists l. split; [reflexivity|].
    refine (map_res_Forall _ _ _ _ _ E).
    intros a b Hab. cbv beta in Hab. destruct (Shapes.check_one_sequence a (Some [e]) ats) as [sh|] eqn:Ea; [|discriminate Hab].
    injection Hab as <-. exists sh. split; [reflexivity|exact (c1s_len2 _ _ _ _ Ea)].
Qed.

Lemma map_res_shape0 (l : list data) :
  Forall (fun a => exists sh, a = DArr true sh /\ 2 <= length sh) l ->
  map_res (fun x_ => bind (attr_shape x_) (fun t4 => bind (tuple_get t4 0) (fun t5 => ROk t5))) l
  = ROk (map (fun it => match it with DArr _ sh => hd 0 sh | _ => 0 end) l).
Proof.
  induction 1 as [|a r [sh [-> L]] _ IH]; [reflexivity|]. simpl.
  destruct sh as [|n sh]; [simpl in L; lia|]. simpl. rewrite IH. reflexivity.
Qed.

Lemma obj_get_mid (pre : list nat) (e : nat) (eds : list nat) :
  obj_get (obj_of_shape (pre ++ e :: eds)) (length pre) = ROk (PInt e).
Proof.
  unfold obj_get, obj_of_shape. rewrite map_app. rewrite nth_error_app2; rewrite map_length; [|lia].
  rewrite Nat.sub_diag. reflexivity.
Qed.

Lemma for_items_cons {St} (body : nat -> data -> St -> res (data * St)) i n a r st :
  for_items body i (S n) (a :: r) st
  = bind (body i a st) (fun vs => bind (for_items body (S i) n r (snd vs)) (fun rs => ROk (fst vs :: fst rs, snd rs))).
Proof. reflexivity. Qed.

Section Multi.
(* the pinned numpy test (np.unique on the lengths, then on every column) says "not all timestep tuples are equal" *)
Hypothesis timesteps_spec : forall ts, ts <> [] -> timesteps_differ ts = ROk (negb (all_same ts)).

Lemma cns_multi_list (items : list data) (d1 d2 : nat) (r : list nat) ans ani ats :
  Gen_validation.check_n_sequences (DList items) (emb (Some (d1 :: d2 :: r))) ans ani ats
  = Shapes.check_n_sequences (DList items) (Some (d1 :: d2 :: r)) ans ani ats.
Proof.
  cbn -[for_items timesteps_differ obj_get Nat.eqb firstn all_same]. rewrite !bind_ret. rewrite map_length.
  destruct (length items =? S (S (length r))) eqn:EL; cbn [negb]; [|reflexivity].
  match goal with |- bind (for_items ?b _ _ _ _) _ = _ => set (body := b) end.
  match goal with |- _ = match ?g items _ with _ => _ end => set (GO := g) end.
  assert (LOOP : forall its eds pre acc, pre ++ eds = d1 :: d2 :: r ->
     for_items body (length pre) (length eds) its acc =
     match GO its eds with
     | RErr e => RErr e
     | ROk l' => ROk (l', acc ++ map timesteps_of (firstn (length eds) l'))
     end).
  { induction its as [|it rest IH]; intros eds pre acc Hpe.
    - destruct eds; simpl; [rewrite app_nil_r|]; reflexivity.
    - destruct eds as [|e eds'].
      + simpl. rewrite app_nil_r. reflexivity.
      + simpl length. rewrite for_items_cons.
        replace (GO (it :: rest) (e :: eds')) with
          (match Shapes.check_n_sequences it (Some [e]) ans ani ats with
           | ROk v => match GO rest eds' with ROk r' => ROk (v :: r') | RErr err => RErr err end
           | RErr err => RErr err
           end) by reflexivity.
        unfold body at 1. rewrite <- Hpe, obj_get_mid. cbn [bind].
        change (PTuple [PInt e]) with (emb (Some [e])). rewrite cns_one.
        destruct (Shapes.check_n_sequences it (Some [e]) ans ani ats) as [v|err] eqn:Ev; [|reflexivity].
        cbn [bind].
        replace (S (length pre)) with (length (pre ++ [e])) by (rewrite app_length; simpl; lia).
        assert (Hpe' : (pre ++ [e]) ++ eds' = d1 :: d2 :: r) by (rewrite <- app_assoc; exact Hpe).
        destruct (cns_one_form _ _ _ _ _ _ Ev) as [[l [-> Fl]]|[num [sh [-> Lsh]]]].
        * rewrite map_res_shape0 by exact Fl. cbn [bind snd fst].
          rewrite (IH eds' (pre ++ [e]) _ Hpe').
          destruct (GO rest eds'); cbn [bind fst snd]; [|reflexivity].
          cbn [firstn map timesteps_of]. rewrite <- app_assoc. reflexivity.
        * destruct sh as [|a [|b [|c [|dd s]]]]; simpl in Lsh; try (exfalso; lia).
          -- cbn. rewrite (IH eds' (pre ++ [e]) _ Hpe').
             destruct (GO rest eds'); cbn [bind fst snd]; [|reflexivity].
             cbn [firstn map]. rewrite <- app_assoc. reflexivity.
          -- cbn. rewrite (IH eds' (pre ++ [e]) _ Hpe').
             destruct (GO rest eds'); cbn [bind fst snd]; [|reflexivity].
             cbn [firstn map]. rewrite <- app_assoc. reflexivity. }
  pose proof (LOOP items (d1 :: d2 :: r) [] [] eq_refl) as LP. simpl length in LP. rewrite LP. clear LP LOOP.
  destruct (GO items (d1 :: d2 :: r)) as [l'|e] eqn:EG; [|reflexivity].
  cbn [bind snd fst app].
  rewrite timesteps_spec.
  - destruct (all_same _); reflexivity.
  - destruct items as [|it rest]; [discriminate EL|].
    unfold GO in EG. simpl in EG.
    destruct (Shapes.check_n_sequences it (Some [d1]) ans ani ats); [|discriminate EG].
    match type of EG with match ?m with _ => _ end = _ => destruct m; [|discriminate EG] end.
    injection EG as <-. simpl. discriminate.
Qed.
End Multi.

Lemma cns_multi_nonlist (x : data) (d1 d2 : nat) (r : list nat) ans ani ats : (forall l, x <> DList l) ->
  Gen_validation.check_n_sequences x (emb (Some (d1 :: d2 :: r))) ans ani ats
  = Shapes.check_n_sequences x (Some (d1 :: d2 :: r)) ans ani ats.
Proof. intro H. destruct x as [n s|l| | |]; [|exfalso; apply (H l); reflexivity| | |]; reflexivity. Qed.

(* --- induction over nested lists --- *)
Fixpoint data_nested_ind (P : data -> Prop)
    (HA : forall n s, P (DArr n s)) (HL : forall l, Forall P l -> P (DList l))
    (HN : P DNum) (HO : P DOther) (HT : forall d, P (DTeacher d)) (x : data) {struct x} : P x :=
  match x with
  | DArr n s => HA n s
  | DList l => HL l ((fix go (l : list data) : Forall P l :=
                        match l with
                        | [] => Forall_nil P
                        | a :: r => Forall_cons a (data_nested_ind P HA HL HN HO HT a) (go r)
                        end) l)
  | DNum => HN
  | DOther => HO
  | DTeacher d => HT d
  end.

(* no expected dimension, one expected dimension, an empty tuple: for ALL descriptors (lists nested to any depth), no hypothesis *)
Lemma gen_check_n_sequences_single (x : data) :
  forall ed ans ani ats, length (match ed with Some l => l | None => [] end) <= 1 ->
  Gen_validation.check_n_sequences x (emb ed) ans ani ats = Shapes.check_n_sequences x ed ans ani ats.
Proof.
  induction x as [n s|l IH| | |d] using data_nested_ind; intros ed ans ani ats Hl;
    (destruct ed as [[|d1 [|d2 r]]|]; [apply cns_empty_tuple|apply cns_one|simpl in Hl; lia|]).
  - apply cns_none_nonlist; intros; discriminate.
  - apply cns_none_list. revert IH. apply Forall_impl. intros a Ha ans' ani' ats'. apply (Ha None). simpl; lia.
  - apply cns_none_nonlist; intros; discriminate.
  - apply cns_none_nonlist; intros; discriminate.
  - apply cns_none_nonlist; intros; discriminate.
Qed.

(* every expected dimension, under the specification of the pinned timestep test (a closed statement about ValPrelude.timesteps_differ
   and Shapes.all_same: it does not mention the code) *)
Definition timesteps_test_spec : Prop :=
  forall ts : list (list nat), ts <> [] -> timesteps_differ ts = ROk (negb (all_same ts)).

Lemma gen_check_n_sequences_eq : timesteps_test_spec ->
  forall (x : data) (ed : option (list nat)) (ans ani ats : bool),
  Gen_validation.check_n_sequences x (emb ed) ans ani ats = Shapes.check_n_sequences x ed ans ani ats.
Proof.
  intros Hts x ed ans ani ats.
  destruct ed as [[|d1 [|d2 r]]|]; try (apply gen_check_n_sequences_single; simpl; lia).
  destruct x as [n s|l| | |d]; try (apply cns_multi_nonlist; intros; discriminate).
  apply cns_multi_list. exact Hts.
Qed.

(* an int given as expected dimension is the 1-tuple *)
Lemma gen_check_n_sequences_int (x : data) (d : nat) ans ani ats :
  Gen_validation.check_n_sequences x (PInt d) ans ani ats = Shapes.check_n_sequences x (Some [d]) ans ani ats.
Proof.
  rewrite <- gen_check_n_sequences_single by (simpl; lia). destruct x; reflexivity.
Qed.

(* --- the pinned timestep test: its premise, discharged --- *)
Lemma np_unique_le1 (l : list nat) :
  (1 <? length (np_unique l)) = false <-> (forall x y, In x l -> In y l -> x = y).
Proof.
  unfold np_unique. rewrite Nat.ltb_ge. split.
  - intros H x y Hx Hy. apply (nodup_In Nat.eq_dec) in Hx, Hy.
    destruct (nodup Nat.eq_dec l) as [|a [|b r]]; simpl in *; [contradiction| |lia].
    destruct Hx as [<-|[]], Hy as [<-|[]]; reflexivity.
  - intros H. pose proof (NoDup_nodup Nat.eq_dec l) as N.
    destruct (nodup Nat.eq_dec l) as [|a [|b r]] eqn:E; simpl; try lia. exfalso.
    assert (a = b) by (apply H; apply (nodup_In Nat.eq_dec); rewrite E; simpl; auto).
    subst. inversion N as [|? ? Hn]. apply Hn. left; reflexivity.
Qed.

Lemma tuple_get_nth (t : list nat) (i : nat) : i < length t -> tuple_get t i = ROk (nth i t 0).
Proof. intro H. unfold tuple_get. rewrite (nth_error_nth' t 0 H). reflexivity. Qed.

Lemma map_res_pure {A B} (f : A -> res B) (g : A -> B) (l : list A) :
  (forall a, In a l -> f a = ROk (g a)) -> map_res f l = ROk (map g l).
Proof.
  induction l as [|a r IH]; intro H; [reflexivity|]. simpl. rewrite (H a) by (left; reflexivity). simpl.
  rewrite IH by (intros; apply H; right; assumption). reflexivity.
Qed.

Lemma lnat_neq_nth (a b : list nat) : length a = length b -> lnat_eqb a b = false ->
  exists i, i < length a /\ nth i a 0 <> nth i b 0.
Proof.
  revert b. induction a as [|x a IH]; intros [|y b] L E; simpl in *; try discriminate.
  apply andb_false_iff in E. destruct E as [E|E].
  - exists 0. split; [lia|]. simpl. apply Nat.eqb_neq. exact E.
  - destruct (IH b (eq_add_S _ _ L) E) as [i [Hi Hn]]. exists (S i). split; [lia|exact Hn].
Qed.

Lemma forallb_false_ex {A} (P : A -> bool) (l : list A) : forallb P l = false -> exists a, In a l /\ P a = false.
Proof.
  induction l as [|a r IH]; simpl; intro E; [discriminate|]. apply andb_false_iff in E. destruct E as [E|E].
  - exists a. split; [left; reflexivity|exact E].
  - destruct (IH E) as [t [Ht Et]]. exists t. split; [right; exact Ht|exact Et].
Qed.

Lemma timesteps_test_spec_holds : timesteps_test_spec.
Proof.
  intros ts Hne. destruct ts as [|t0 rest]; [contradiction|]. clear Hne.
  unfold timesteps_differ. cbn [all_same].
  destruct (1 <? length (np_unique (map (@length nat) (t0 :: rest)))) eqn:EL.
  - f_equal. symmetry. apply negb_true_iff.
    destruct (forallb (lnat_eqb t0) rest) eqn:EA; [|reflexivity]. exfalso.
    assert (C : (1 <? length (np_unique (map (@length nat) (t0 :: rest)))) = false); [|congruence].
    apply np_unique_le1. rewrite forallb_forall in EA.
    assert (Q : forall t, In t (t0 :: rest) -> t = t0).
    { intros t [<-|Ht]; [reflexivity|]. symmetry. apply lnat_eqb_eq. apply EA. exact Ht. }
    intros x y Hx Hy. apply in_map_iff in Hx, Hy. destruct Hx as [tx [<- Htx]], Hy as [ty [<- Hty]].
    rewrite (Q tx Htx), (Q ty Hty). reflexivity.
  - pose proof (proj1 (np_unique_le1 _) EL) as EL'. clear EL. rename EL' into EL.
    assert (HL : forall t, In t (t0 :: rest) -> length t = length t0).
    { intros t Ht. apply EL; apply in_map; [exact Ht|left; reflexivity]. }
    rewrite (map_res_pure _ (fun i => 1 <? length (np_unique (map (fun t => nth i t 0) (t0 :: rest))))).
    2:{ intros i Hi. apply in_seq in Hi. rewrite (map_res_pure _ (fun t => nth i t 0)); [reflexivity|].
        intros t Ht. apply tuple_get_nth. rewrite (HL t Ht). lia. }
    cbn [bind]. f_equal.
    destruct (forallb (lnat_eqb t0) rest) eqn:EA; cbn [negb].
    + apply not_true_is_false. intro HE. apply existsb_exists in HE. destruct HE as [b [Hb Eb]]. subst b.
      apply in_map_iff in Hb. destruct Hb as [i [Hi _]].
      assert (C : (1 <? length (np_unique (map (fun t => nth i t 0) (t0 :: rest)))) = false); [|congruence].
      apply np_unique_le1. rewrite forallb_forall in EA.
      assert (Q : forall t, In t (t0 :: rest) -> t = t0).
      { intros t [<-|Ht]; [reflexivity|]. symmetry. apply lnat_eqb_eq. apply EA. exact Ht. }
      intros x y Hx Hy. apply in_map_iff in Hx, Hy. destruct Hx as [tx [<- Htx]], Hy as [ty [<- Hty]].
      rewrite (Q tx Htx), (Q ty Hty). reflexivity.
    + destruct (forallb_false_ex _ _ EA) as [t [Ht Et]].
      assert (Lt : length t0 = length t) by (symmetry; apply HL; right; exact Ht).
      destruct (lnat_neq_nth t0 t Lt Et) as [i [Hi Hn]].
      apply existsb_exists. exists true. split; [|reflexivity].
      apply in_map_iff. exists i. split; [|apply in_seq; lia].
      destruct (1 <? length (np_unique (map (fun t => nth i t 0) (t0 :: rest)))) eqn:EC; [reflexivity|]. exfalso.
      pose proof (proj1 (np_unique_le1 _) EC) as EC'. apply Hn. apply EC'; apply in_map_iff; [exists t0|exists t]; (split; [reflexivity|]);
        [left; reflexivity|right; exact Ht].
Qed.

(* hence: for EVERY expected dimension, no premise *)
Lemma gen_check_n_sequences_all (x : data) (ed : option (list nat)) (ans ani ats : bool) :
  Gen_validation.check_n_sequences x (emb ed) ans ani ats = Shapes.check_n_sequences x ed ans ani ats.
Proof. exact (gen_check_n_sequences_eq timesteps_test_spec_holds x ed ans ani ats). Qed.

(* --- transfer: a rejection by the TRANSLATED check is a rejection of the operation in the checking phase, node unchanged --- *)
Lemma gen_run_rejects (n : node) (x : data) (e : exn) : is_node x = false ->
  Gen_validation.check_n_sequences x (emb (input_dim n)) false true true = RErr e ->
  step n (ORun x) = Err PCheck e n.
Proof.
  intros Hx Hg. rewrite gen_check_n_sequences_all in Hg.
  unfold step. cbn [supported negb]. unfold check_xy.
  destruct x; try discriminate Hx; rewrite Hg; reflexivity.
Qed.

Lemma gen_call_rejects (n : node) (x : data) (e : exn) : is_node x = false ->
  Gen_validation.check_n_sequences x (emb (input_dim n)) false true false = RErr e ->
  step n (OCall x) = Err PCheck e n.
Proof.
  intros Hx Hg. rewrite gen_check_n_sequences_all in Hg.
  unfold step. cbn [supported negb]. unfold check_xy.
  destruct x; try discriminate Hx; rewrite Hg; reflexivity.
Qed.

(* and what the translated check accepts is what the model's check_xy hands to the rest of the operation *)
Lemma gen_check_x_accepts (n : node) (x x' : data) (ans ani ats : bool) : is_node x = false ->
  Gen_validation.check_n_sequences x (emb (input_dim n)) ans ani ats = ROk x' ->
  check_xy n x None ans ani ats = ROk (x', YNone).
Proof.
  intros Hx Hg. rewrite gen_check_n_sequences_all in Hg.
  unfold check_xy. destruct x; try discriminate Hx; rewrite Hg; reflexivity.
Qed.

(* the target side of check_xy (arrays / lists given as target of a node with a known output dimension) *)
Lemma gen_check_y_rejects (n : node) (x x' y : data) (e : exn) (ans ani ats : bool) : is_node x = false -> is_node y = false ->
  Gen_validation.check_n_sequences x (emb (input_dim n)) ans ani ats = ROk x' ->
  Gen_validation.check_n_sequences y (emb (option_map (fun d => [d]) (output_dim n))) ans false ats = RErr e ->
  check_xy n x (Some y) ans ani ats = RErr e.
Proof.
  intros Hx Hy Hg Hgy. rewrite gen_check_n_sequences_all in Hg, Hgy.
  unfold check_xy. destruct x; try discriminate Hx; rewrite Hg; destruct y; try discriminate Hy; rewrite Hgy; reflexivity.
Qed.
