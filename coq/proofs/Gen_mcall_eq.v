(* Tie (T) for Model._call: the GENERATED coq/gen/Gen_mcall.v (translated from reservoirpy/model.py by tools/vlib/py2coq_mcall.py on
   every run of ./check C07) against the hand model model/ModelSem.v.

   Part A (any world, any forward function, any `submodel[k]`): closed forms of the three selections.
   Part B: with `self._forward` instantiated by the generated forward pass of coq/gen/Gen_dispatch.v (GenDispatch.forward, proved equal
           to ModelSem.forward in proofs/Gen_dispatch_eq.v) and `_base.call` read in the hand model with the proxies / clamps of one
           timestep, the generated `_call` IS ModelSem.step: same environment, same failure, and it returns the states of the nodes
           `return_states` selects read in the environment AFTER the step; hence it is the one-step run_op with the default flags.
   No axioms. *)
From Coq Require Import List Bool Arith ZArith Lia.
From RV Require Import base.Num base.LA base.PyColl base.PyColl2 base.PyColl3 base.MCallPrelude.
From RV Require Import gen.Gen_dispatch gen.Gen_mcall model.ModelSem proofs.ModelSem_proofs proofs.Gen_dispatch_eq.
Import ListNotations.

(* ================================================================================================ Part A: closed forms *)
Section Generic.
Variable datum : Type.
Variable world : Type.
Variable node_state : world -> node -> datum.
Variable forward : world -> pyinput datum -> py (world * list datum).
Variable model_nodes model_output_nodes : list node.
Variable model_getitem : node -> py node.

Notation gen_call := (GenMCall.Model__call datum world node_state forward model_nodes model_output_nodes model_getitem).

(* the dict built by `for n in l: state[n.name] = n.state()` from `acc` *)
Definition states_from (w : world) (l : list node) (acc : sdict datum) : sdict datum :=
  fold_left (fun s n => sd_set s n (node_state w n)) l acc.
Definition states_of (w : world) (l : list node) : sdict datum := states_from w l [].

Lemma sd_set_fresh (d : sdict datum) k v : ~ In k (map fst d) -> sd_set d k v = d ++ [(k, v)].
Proof.
  induction d as [|[k' v'] d IH]; intros Hk; [reflexivity|]. cbn in *.
  destruct (Nat.eqb_spec k k') as [E|NE]; [exfalso; apply Hk; left; symmetry; exact E|].
  rewrite IH; [reflexivity|]. intros Hin. apply Hk. right. exact Hin.
Qed.

(* distinct names: the dict lists the selected nodes in order, each with its state *)
Lemma states_from_nodup w : forall l acc, NoDup l -> (forall k, In k l -> ~ In k (map fst acc)) ->
  states_from w l acc = acc ++ map (fun n => (n, node_state w n)) l.
Proof.
  induction l as [|n l IH]; intros acc Hnd Hd; [cbn; rewrite app_nil_r; reflexivity|].
  inversion Hnd as [|? ? Hn Hl]; subst. cbn [states_from fold_left map].
  rewrite sd_set_fresh by (apply Hd; left; reflexivity). unfold states_from in IH. rewrite IH.
  - rewrite <- app_assoc. reflexivity.
  - exact Hl.
  - intros k Hk. rewrite map_app, in_app_iff. cbn. intros [Hin|[E|[]]].
    + exact (Hd k (or_intror Hk) Hin).
    + subst k. exact (Hn Hk).
Qed.
Theorem states_of_nodup w l : NoDup l -> states_of w l = map (fun n => (n, node_state w n)) l.
Proof. intros Hnd. unfold states_of. rewrite states_from_nodup; [reflexivity|exact Hnd|intros k _ []]. Qed.

(* `return_states == "all"`: every node of the model, read AFTER the forward pass *)
Theorem gen_call_all w x :
  gen_call w x RsAll = py_bind (forward w x) (fun r => Val (fst r, SelMap (states_of (fst r) model_nodes))).
Proof. unfold GenMCall.Model__call. destruct (forward w x) as [[w' o]| |]; reflexivity. Qed.

(* default: the bare state of the only output node, the dict of the output nodes when there are several, IndexError for none *)
Definition sel_default (w : world) : py (selstate datum) :=
  match model_output_nodes with
  | [] => Exc IndexError
  | [o] => Val (SelBare (node_state w o))
  | l => Val (SelMap (states_of w l))
  end.
Theorem gen_call_default w x :
  gen_call w x RsDefault = py_bind (forward w x) (fun r => py_bind (sel_default (fst r)) (fun s => Val (fst r, s))).
Proof.
  unfold GenMCall.Model__call, sel_default. destruct (forward w x) as [[w' o]| |]; [|reflexivity|reflexivity]. cbn [py_bind fst].
  destruct model_output_nodes as [|a [|b l]]; reflexivity.
Qed.

(* an iterable of names: looked up one after the other, the first unknown name raises *)
Theorem gen_call_names w x names :
  gen_call w x (RsNames names)
  = py_bind (forward w x) (fun r =>
      py_bind (py_for names (fun s k => py_bind (model_getitem k) (fun n => Val (sd_set s k (node_state (fst r) n)))) [])
              (fun s => Val (fst r, SelMap s))).
Proof. unfold GenMCall.Model__call. destruct (forward w x) as [[w' o]| |]; reflexivity. Qed.
End Generic.

(* ================================================================================================ Part B: ModelSem *)
Section Sem.
Context {F : Type} `{Num F}.
Notation vec := (list F).
Notation env := (@env F).
Notation model := (@model F).

Variable m : model.
Variable inputs : list node.
Variable edges : list edge.
Variable sorted_by_name : list edge -> list edge.
Variable trainables : list node.
Let nodes := map nid (order m).

(* Model.__getitem__ read in the hand model: names are node ids, a name outside the model raises KeyError *)
Definition sem_getitem (k : node) : py node := if @py_in nat _ k nodes then Val k else Exc KeyError.

(* what `_call` returns, read in the environment after the step *)
Definition sel_of (rs : retsel) (e : env) : py (selstate vec) :=
  match rs with
  | RsAll => Val (SelMap (states_of vec env st_of e nodes))
  | RsNames l => if forallb (fun k => @py_in nat _ k nodes) l then Val (SelMap (states_of vec env st_of e l)) else Exc KeyError
  | RsDefault => sel_default vec env st_of (outputs m) e
  end.

Lemma names_loop (e : env) : forall l acc,
  py_for l (fun s k => py_bind (sem_getitem k) (fun n => Val (sd_set s k (st_of e n)))) acc
  = if forallb (fun k => @py_in nat _ k nodes) l then Val (states_from vec env st_of e l acc) else Exc KeyError.
Proof.
  induction l as [|k l IH]; intros acc; [reflexivity|]. cbn [py_for forallb]. unfold sem_getitem at 1.
  destruct (@py_in nat _ k nodes) eqn:E; cbn [py_bind andb].
  - rewrite IH. reflexivity.
  - reflexivity.
Qed.

(* the generated Model._call, run on the hand model's environments with the generated forward pass of Gen_dispatch.v *)
Definition g_call (forced : nat -> option vec) (e : env) (X : pyinput vec) (rs : retsel) : py (env * selstate vec) :=
  GenMCall.Model__call vec env st_of
    (GenDispatch.forward vec env st_of (sem_call m (proxies m forced e) (clamps m forced)) nodes inputs (outputs m) trainables edges
                         sorted_by_name)
    nodes (outputs m) sem_getitem e X rs.

(* STEP: one generated `_call` is one ModelSem.step on the external input map [ext_of X]; a raising node is a failed step; what it
   returns is read after the step; a mapping that omits an entry node is refused before any node is called *)
Theorem gen_mcall_is_step forced (X : pyinput vec) rs (e : env) :
  NoDup nodes -> NoDup inputs -> (forall n, In n nodes -> parents m n = dd_get (parents_dict edges sorted_by_name) n []) ->
  g_call forced e X rs
  = if inputs_named vec inputs X then
      let '(e', ok) := step m forced (ext_of vec inputs nodes X) e in
      if ok then py_bind (sel_of rs e') (fun s => Val (e', s)) else Exc RuntimeError
    else Exc KeyError.
Proof.
  intros Hn Hi Hp. unfold g_call.
  assert (Hf := gen_forward_eq m inputs edges sorted_by_name trainables (proxies m forced e) (clamps m forced) X e Hn Hi Hp).
  fold nodes in Hf.
  destruct rs as [|names|].
  - rewrite gen_call_all, Hf. destruct (inputs_named vec inputs X); [|reflexivity]. unfold step, gen_result.
    destruct (ModelSem.forward m (proxies m forced e) (clamps m forced) (ext_of vec inputs nodes X) e) as [e' [|]]; reflexivity.
  - rewrite gen_call_names, Hf. destruct (inputs_named vec inputs X); [|reflexivity]. unfold step, gen_result.
    destruct (ModelSem.forward m (proxies m forced e) (clamps m forced) (ext_of vec inputs nodes X) e) as [e' [|]]; [|reflexivity].
    cbn [snd fst py_bind sel_of]. rewrite names_loop. unfold states_of.
    destruct (forallb (fun k => @py_in nat _ k nodes) names); reflexivity.
  - rewrite gen_call_default, Hf. destruct (inputs_named vec inputs X); [|reflexivity]. unfold step, gen_result.
    destruct (ModelSem.forward m (proxies m forced e) (clamps m forced) (ext_of vec inputs nodes X) e) as [e' [|]]; reflexivity.
Qed.

(* the default selection carries exactly ModelSem.out_states: bare for one output node, name-keyed for several distinct ones *)
Definition sel_values (s : selstate vec) : list vec := match s with SelMap d => map snd d | SelBare a => [a] end.
Theorem sel_default_out_states (e : env) s :
  NoDup (outputs m) -> sel_of RsDefault e = Val s -> sel_values s = out_states m e.
Proof.
  intros Hnd. unfold sel_of, sel_default, out_states. destruct (outputs m) as [|a [|b l]] eqn:Ho; intros Hs; [discriminate| |].
  - injection Hs as <-. reflexivity.
  - injection Hs as <-. cbn [sel_values]. rewrite states_of_nodup by exact Hnd. rewrite map_map. reflexivity.
Qed.

(* RUN_OP: with the default flags, one generated `_call` is run_op on the one-step sequence *)
Theorem gen_mcall_is_run_op forced (X : pyinput vec) rs (e : env) :
  NoDup nodes -> NoDup inputs -> (forall n, In n nodes -> parents m n = dd_get (parents_dict edges sorted_by_name) n []) ->
  inputs_named vec inputs X = true ->
  let '(e', outs, ok) := run_op m true false (fun _ => None) [(ext_of vec inputs nodes X, forced)] e in
  g_call forced e X rs = (if ok then py_bind (sel_of rs e') (fun s => Val (e', s)) else Exc RuntimeError) /\
  (ok = true -> outs = [out_states m e']).
Proof.
  intros Hn Hi Hp Hx. rewrite gen_mcall_is_step by assumption. rewrite Hx. unfold run_op. rewrite start_env_noop. cbn [run_steps].
  destruct (step m forced (ext_of vec inputs nodes X) e) as [e' [|]]; split; try reflexivity. intros; discriminate.
Qed.
End Sem.

(* ================================================================================================ Part C: Model.call *)
(* The generated OPERATION Model.call (module GenMCallOp: check_xy, first-use initialisation, try / with_state / _load_proxys /
   with_feedback / _call / finally _clean_proxys, the copying return) with its callees read in the hand model:
     world           the current environment, the environment the proxies were loaded from, the forced-feedback mapping in force
     with_state      start_env on entry; on exit -- also after a raise -- restore_st of the entry snapshot unless stateful
                     (what proofs/Gen_state_eq.v proves of the generated Model.with_state)
     _load_proxys    the proxies are the CURRENT states (proofs/Gen_feedback_eq.v: load_proxys)
     with_feedback   the mapping is in force inside the body and withdrawn after it, also after a raise
     _call           one forward pass with the proxies / clamps in force (Part B: the generated `_call` is this pass); a raising
                     node leaves the environment of the raise point
     _clean_proxys   does not touch the states; check_xy accepts, the model is initialised, the copy is the identity on values.
   Then the generated composition IS run_op on the one-step sequence for EVERY flag combination, from_state, forced feedback and
   both outcomes (the returned states and the recorded outputs are read in the same environment: the one after the step, before the
   restoration of a non-stateful call): in particular the proxies are loaded from the states `with_state` installed (from_state / reset), not from the
   states before it. *)
Section CallOp.
Context {F : Type} `{Num F}.
Notation vec := (list F).
Notation env := (@env F).
Notation model := (@model F).
Variable m : model.
Variable RES : Type.
Variable sel : env -> RES.          (* what `_call` returns, read in the environment after the pass (Part B: [sel_of]) *)

Record cworld := mkCW { cur : env; prx : env; fbm : nat -> option vec }.

Definition sem_with_state (from : nat -> option vec) (stateful reset : bool) (body : CtxPrelude.M cworld RES) : CtxPrelude.M cworld RES :=
  fun w => let '(w1, r) := body (mkCW (start_env m reset from (cur w)) (prx w) (fbm w)) in
           ((if stateful then w1 else mkCW (restore_st (ids_of m) (cur w) (cur w1)) (prx w1) (fbm w1)), r).
Definition sem_with_feedback (forced : nat -> option vec) (stateful reset : bool) (body : CtxPrelude.M cworld RES) : CtxPrelude.M cworld RES :=
  fun w => let '(w1, r) := body (mkCW (cur w) (prx w) forced) in (mkCW (cur w1) (prx w1) (fbm w), r).
Definition sem_load_proxys (keep : bool) : CtxPrelude.M cworld unit := fun w => (mkCW (cur w) (cur w) (fbm w), CtxPrelude.Ok tt).
Definition sem_clean_proxys : CtxPrelude.M cworld unit := fun w => (w, CtxPrelude.Ok tt).
Definition sem__call (ext : nat -> option vec) (rs : unit) : CtxPrelude.M cworld RES :=
  fun w => let '(e1, ok) := ModelSem.forward m (proxies m (fbm w) (prx w)) (clamps m (fbm w)) ext (cur w) in
           (mkCW e1 (prx w) (fbm w), if ok then CtxPrelude.Ok (sel e1) else CtxPrelude.Exc CtxPrelude.RuntimeError).

Definition g_call_op (ext : nat -> option vec) forced from stateful reset : CtxPrelude.M cworld RES :=
  GenMCallOp.Model_call cworld (nat -> option vec) (nat -> option vec) (nat -> option vec) (nat -> option vec) unit RES
    (fun x => CtxPrelude.ret x) (fun _ => true) (fun _ => CtxPrelude.ret tt)
    sem_with_state sem_with_feedback sem_load_proxys sem__call sem_clean_proxys (fun r => r)
    ext forced from stateful reset tt.

Theorem gen_call_op_is_run_op ext forced from stateful reset (w : cworld) :
  let '(w', r) := g_call_op ext forced from stateful reset w in
  let '(e', outs, ok) := run_op m stateful reset from [(ext, forced)] (cur w) in
  cur w' = e' /\ fbm w' = fbm w /\
  match r with
  | CtxPrelude.Ok s => ok = true /\ exists e1, s = sel e1 /\ outs = [out_states m e1] /\ (stateful = true -> e1 = e')
  | CtxPrelude.Exc _ => ok = false
  end.
Proof.
  unfold g_call_op, GenMCallOp.Model_call, run_op. cbn [run_steps]. unfold step.
  unfold CtxPrelude.bind, CtxPrelude.ret, CtxPrelude.try_finally, sem_with_state, sem_with_feedback, sem_load_proxys, sem__call,
    sem_clean_proxys. cbn [negb cur prx fbm].
  destruct (ModelSem.forward m (proxies m forced (start_env m reset from (cur w))) (clamps m forced) ext (start_env m reset from (cur w)))
    as [e1 [|]]; cbn [cur prx fbm]; destruct stateful; cbn [cur prx fbm]; repeat split; try reflexivity;
    exists e1; repeat split; try reflexivity; intros; discriminate.
Qed.
End CallOp.
