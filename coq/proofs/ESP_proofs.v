(* C15: echo-state contraction and boundedness of the 'internal' reservoir step of model/Reservoir.v, at R. *)
From Coq Require Import Reals Lra Lia Arith List Bool.
From RV Require Import base.Num base.LA base.BSum model.Reservoir proofs.Reservoir_proofs.
Import ListNotations.
Open Scope R_scope.

(* ------------------------------------------------------------------ norms of list vectors *)
Definition vnorm (v : list R) : R := sqrt (vnorm2 v).

Lemma vnorm2_bsum (v : list R) n : length v = n -> vnorm2 v = bsum n (fun i => nth i v 0 * nth i v 0).
Proof. intros. unfold vnorm2. now apply dot_bsum. Qed.
Lemma vnorm2_ge0 (v : list R) : 0 <= vnorm2 v.
Proof. rewrite (vnorm2_bsum v (length v) eq_refl). apply bsum_sq_ge0. Qed.
Lemma length_vsub (a b : list R) : length a = length b -> length (vsub a b) = length a.
Proof. apply length_vzip. Qed.

Lemma dot_vsub : forall (a b c : list R), length b = length c -> dot a (vsub b c) = dot a b - dot a c.
Proof.
  induction a as [|x a IH]; intros [|y b] [|z c] Hl; cbn [length] in *; try lia;
    unfold vsub; cbn [vzip dot]; numR; try lra.
  change (vzip Rminus b c) with (vsub b c). rewrite IH by lia. lra.
Qed.

Lemma sq_le_of_abs (y w : R) : Rabs y <= Rabs w -> y * y <= w * w.
Proof. intros Hle. apply Rsqr_le_abs_1 in Hle. exact Hle. Qed.

(* ------------------------------------------------------------------ the algebraic core (index level) *)
Lemma contraction_core n (d y : nat -> R) (a sg : R) :
  0 <= a <= 1 -> 0 <= sg ->
  bsum n (fun i => y i * y i) <= sg * sg * bsum n (fun i => d i * d i) ->
  bsum n (fun i => ((1 - a) * d i + a * y i) * ((1 - a) * d i + a * y i))
  <= ((1 - a) + a * sg) * ((1 - a) + a * sg) * bsum n (fun i => d i * d i).
Proof.
  intros Ha Hsg HY.
  set (D := bsum n (fun i => d i * d i)) in *. set (Y := bsum n (fun i => y i * y i)) in *.
  set (C := bsum n (fun i => d i * y i)).
  assert (HD : 0 <= D) by apply bsum_sq_ge0. assert (HY0 : 0 <= Y) by apply bsum_sq_ge0.
  assert (HCS : C * C <= D * Y) by apply bsum_cauchy_schwarz.
  assert (E : bsum n (fun i => ((1 - a) * d i + a * y i) * ((1 - a) * d i + a * y i))
              = (1 - a) * (1 - a) * D + 2 * ((1 - a) * a) * C + a * a * Y).
  { rewrite (bsum_ext n _ (fun i => ((1 - a) * (1 - a)) * (d i * d i) + ((2 * ((1 - a) * a)) * (d i * y i) + (a * a) * (y i * y i))))
      by (intros; ring).
    rewrite !bsum_plus, !bsum_scal. fold D Y C. ring. }
  rewrite E.
  assert (HC : C <= sg * D).
  { assert (H1 : D * Y <= D * (sg * sg * D)) by (apply Rmult_le_compat_l; assumption).
    assert (H2 : C * C <= (sg * D) * (sg * D)) by lra.
    assert (H3 : 0 <= sg * D) by (apply Rmult_le_pos; assumption).
    destruct (Rle_dec C (sg * D)) as [|Hn]; [assumption|]. exfalso. apply Rnot_le_lt in Hn.
    assert (0 < (C - sg * D) * (C + sg * D)) by (apply Rmult_lt_0_compat; lra). lra. }
  assert (Hp : 0 <= (1 - a) * a) by (apply Rmult_le_pos; lra).
  assert (Hq : 0 <= a * a) by (apply Rmult_le_pos; lra).
  assert (H4 : 2 * ((1 - a) * a) * C <= 2 * ((1 - a) * a) * (sg * D)) by (apply Rmult_le_compat_l; lra).
  assert (H5 : a * a * Y <= a * a * (sg * sg * D)) by (apply Rmult_le_compat_l; assumption).
  lra.
Qed.

(* ------------------------------------------------------------------ hypotheses *)
Definition lipschitz1 (f : R -> R) : Prop := forall a b, Rabs (f a - f b) <= Rabs (a - b).
(* sigma bounds the operator 2-norm of W on vectors of length n (squared form, and with square roots) *)
Definition opnorm2_le (W : list (list R)) (n : nat) (sg : R) : Prop :=
  forall v, length v = n -> vnorm2 (mv W v) <= sg * sg * vnorm2 v.
Definition opnorm_le (W : list (list R)) (n : nat) (sg : R) : Prop :=
  forall v, length v = n -> vnorm (mv W v) <= sg * vnorm v.

Lemma opnorm_sq W n sg : 0 <= sg -> opnorm_le W n sg -> opnorm2_le W n sg.
Proof.
  intros Hs Ho v Hv. specialize (Ho v Hv). unfold vnorm in Ho.
  pose proof (vnorm2_ge0 (mv W v)) as HA. pose proof (vnorm2_ge0 v) as HB.
  pose proof (sqrt_pos (vnorm2 (mv W v))) as PA. pose proof (sqrt_pos (vnorm2 v)) as PB.
  rewrite <- (sqrt_sqrt _ HA), <- (sqrt_sqrt _ HB).
  set (p := sqrt (vnorm2 (mv W v))) in *. set (q := sqrt (vnorm2 v)) in *.
  assert (0 <= sg * q) by (apply Rmult_le_pos; assumption).
  assert (p * p <= (sg * q) * (sg * q)) by (apply Rmult_le_compat; lra). lra.
Qed.

(* the Frobenius norm bounds the operator norm: makes the hypothesis checkable by exact arithmetic *)
Fixpoint frob2 (W : list (list R)) : R := match W with [] => 0 | row :: W' => vnorm2 row + frob2 W' end.
Lemma frob2_ge0 W : 0 <= frob2 W.
Proof. induction W as [|row W IH]; cbn; [lra|]. pose proof (vnorm2_ge0 row). lra. Qed.
Lemma dot_cs (a b : list R) : length a = length b -> dot a b * dot a b <= vnorm2 a * vnorm2 b.
Proof.
  intros Hl. rewrite (dot_bsum a b (length a)), (vnorm2_bsum a (length a)), (vnorm2_bsum b (length a)) by lia.
  apply bsum_cauchy_schwarz.
Qed.
Lemma frobenius_bound (W : list (list R)) n sg :
  Forall (fun row => length row = n) W -> frob2 W <= sg * sg -> opnorm2_le W n sg.
Proof.
  intros HW Hf v Hv. apply Rle_trans with (frob2 W * vnorm2 v).
  - clear Hf. induction HW as [|row W Hrow HW IH]; cbn.
    + unfold vnorm2; cbn. numR. lra.
    + unfold vnorm2 at 1. cbn [mv map dot]. fold (mv W v). fold (vnorm2 (mv W v)). numR.
      pose proof (dot_cs row v ltac:(lia)) as Hcs. fold (vnorm2 row). nra.
  - apply Rmult_le_compat_r; [apply vnorm2_ge0 | assumption].
Qed.

(* ------------------------------------------------------------------ one step *)
Section Step.
Variables (n : nat) (c : rcfg R) (f : R -> R) (a sg : R).
Hypothesis Hshape : shaped n c.
Hypothesis Hquiet : quiet c.
Hypothesis Hact : forall v, ract c v = map f v.
Hypothesis Hlr : rlr c = LrS a.
Hypothesis Hlip : lipschitz1 f.
Hypothesis Ha : 0 <= a <= 1.
Hypothesis Hsg : 0 <= sg.
Hypothesis HW : opnorm2_le (rW c) n sg.

Definition rho := (1 - a) + a * sg.
Definition out (st : rstate R) (x : rin R) : list R := snd (step_internal c st x).

Lemma out_nth s r x i : length r = n -> (i < n)%nat ->
  nth i (out (s, r) x) 0 = (1 - a) * nth i r 0 + a * f (law_pre c r x i).
Proof.
  intros Hr Hi. unfold out. rewrite (internal_step_law_elementwise n c f) by assumption.
  rewrite Hlr. reflexivity.
Qed.
Lemma out_length st x : st_len n st -> length (out st x) = n.
Proof. intros Hst. pose proof (step_len n Internal c st x Hshape Hquiet Hst) as [_ L]. exact L. Qed.

Lemma law_pre_diff r1 r2 x i : length r1 = n -> length r2 = n -> (i < n)%nat ->
  law_pre c r1 x i - law_pre c r2 x i = nth i (mv (rW c) (vsub r1 r2)) 0.
Proof.
  intros H1 H2 Hi. destruct Hshape as (HWl & _). rewrite nth_mv by lia. rewrite dot_vsub by lia.
  unfold law_pre. lra.
Qed.

Lemma step_contraction_sq s1 s2 r1 r2 x : length r1 = n -> length r2 = n -> length s1 = n -> length s2 = n ->
  vnorm2 (vsub (out (s1, r1) x) (out (s2, r2) x)) <= rho * rho * vnorm2 (vsub r1 r2).
Proof.
  intros H1 H2 H3 H4.
  assert (L1 : length (out (s1, r1) x) = n) by (apply out_length; split; assumption).
  assert (L2 : length (out (s2, r2) x) = n) by (apply out_length; split; assumption).
  assert (Ld : length (vsub r1 r2) = n) by (rewrite length_vsub; lia).
  rewrite (vnorm2_bsum _ n) by (rewrite length_vsub; lia). rewrite (vnorm2_bsum (vsub r1 r2) n) by assumption.
  set (d := fun i => nth i r1 0 - nth i r2 0).
  set (y := fun i => f (law_pre c r1 x i) - f (law_pre c r2 x i)).
  rewrite (bsum_ext n _ (fun i => ((1 - a) * d i + a * y i) * ((1 - a) * d i + a * y i))).
  2:{ intros i Hi. rewrite nth_vsub by lia. rewrite !out_nth by assumption. unfold d, y. ring. }
  rewrite (bsum_ext n (fun i => nth i (vsub r1 r2) 0 * nth i (vsub r1 r2) 0) (fun i => d i * d i)).
  2:{ intros i Hi. rewrite nth_vsub by lia. reflexivity. }
  apply contraction_core; [assumption|assumption|].
  apply Rle_trans with (bsum n (fun i => nth i (mv (rW c) (vsub r1 r2)) 0 * nth i (mv (rW c) (vsub r1 r2)) 0)).
  - apply bsum_le. intros i Hi. apply sq_le_of_abs. unfold y. rewrite <- (law_pre_diff r1 r2 x i) by assumption. apply Hlip.
  - destruct Hshape as (HWl & _).
    rewrite <- (vnorm2_bsum (mv (rW c) (vsub r1 r2)) n) by (rewrite length_mv; assumption).
    rewrite (bsum_ext n (fun i => d i * d i) (fun i => nth i (vsub r1 r2) 0 * nth i (vsub r1 r2) 0)).
    2:{ intros i Hi. rewrite nth_vsub by lia. reflexivity. }
    rewrite <- (vnorm2_bsum (vsub r1 r2) n) by assumption. now apply HW.
Qed.

Lemma rho_ge0 : 0 <= rho.
Proof. unfold rho. assert (0 <= a * sg) by (apply Rmult_le_pos; lra). lra. Qed.

Lemma step_contraction s1 s2 r1 r2 x : length r1 = n -> length r2 = n -> length s1 = n -> length s2 = n ->
  vnorm (vsub (out (s1, r1) x) (out (s2, r2) x)) <= rho * vnorm (vsub r1 r2).
Proof.
  intros H1 H2 H3 H4. unfold vnorm. pose proof rho_ge0 as Hr.
  rewrite <- (sqrt_square rho) at 1 by assumption. rewrite <- sqrt_mult by (try apply vnorm2_ge0; nra).
  apply sqrt_le_1; [apply vnorm2_ge0 | |now apply step_contraction_sq].
  apply Rmult_le_pos; [nra | apply vnorm2_ge0].
Qed.

(* ---- runs: geometric forgetting of the initial state ---- *)
Lemma run_contraction_sq : forall xs st1 st2 t d, st_len n st1 -> st_len n st2 -> (t < length xs)%nat ->
  vnorm2 (vsub (snd (nth t (run_states Internal c st1 xs) d)) (snd (nth t (run_states Internal c st2 xs) d)))
  <= (rho * rho) ^ (S t) * vnorm2 (vsub (snd st1) (snd st2)).
Proof.
  induction xs as [|x xs IH]; intros st1 st2 t d Hs1 Hs2 Ht; cbn [length] in Ht; [lia|].
  assert (Hone : vnorm2 (vsub (snd (step Internal c st1 x)) (snd (step Internal c st2 x))) <= rho * rho * vnorm2 (vsub (snd st1) (snd st2))).
  { destruct st1 as [s1 r1], st2 as [s2 r2]. destruct Hs1, Hs2. cbn [fst snd step] in *. now apply (step_contraction_sq s1 s2 r1 r2 x). }
  destruct t as [|t]; cbn [run_states nth].
  - rewrite pow_1. exact Hone.
  - eapply Rle_trans; [apply IH; try (apply step_len; assumption); lia|].
    change ((rho * rho) ^ S (S t)) with ((rho * rho) * (rho * rho) ^ S t).
    assert (0 <= (rho * rho) ^ S t) by (apply pow_le; nra).
    rewrite (Rmult_comm (rho * rho)), Rmult_assoc. apply Rmult_le_compat_l; assumption.
Qed.

Lemma run_contraction xs st1 st2 t d : st_len n st1 -> st_len n st2 -> (t < length xs)%nat ->
  vnorm (vsub (snd (nth t (run_states Internal c st1 xs) d)) (snd (nth t (run_states Internal c st2 xs) d)))
  <= rho ^ (S t) * vnorm (vsub (snd st1) (snd st2)).
Proof.
  intros Hs1 Hs2 Ht. unfold vnorm. pose proof rho_ge0 as Hr.
  assert (Hp : 0 <= rho ^ S t) by (apply pow_le; assumption).
  rewrite <- (sqrt_square (rho ^ S t)) by assumption. rewrite <- sqrt_mult by (try apply vnorm2_ge0; nra).
  apply sqrt_le_1; [apply vnorm2_ge0 | apply Rmult_le_pos; [nra | apply vnorm2_ge0] |].
  replace (rho ^ S t * rho ^ S t) with ((rho * rho) ^ S t) by (rewrite Rpow_mult_distr; reflexivity).
  now apply run_contraction_sq.
Qed.

Lemma rho_lt1 : 0 < a -> sg < 1 -> rho < 1.
Proof. intros. unfold rho. nra. Qed.

(* the initial state is forgotten: below any eps after finitely many steps, whatever the inputs *)
Lemma run_forgets (D0 eps : R) : 0 < a -> sg < 1 -> 0 < eps -> 0 <= D0 ->
  exists N : nat, forall xs st1 st2 t d, st_len n st1 -> st_len n st2 -> vnorm (vsub (snd st1) (snd st2)) <= D0 ->
    (N <= t)%nat -> (t < length xs)%nat ->
    vnorm (vsub (snd (nth t (run_states Internal c st1 xs) d)) (snd (nth t (run_states Internal c st2 xs) d))) < eps.
Proof.
  intros Ha0 Hs1 He HD. pose proof rho_ge0 as Hr0. pose proof (rho_lt1 Ha0 Hs1) as Hr1.
  destruct (pow_lt_1_zero rho) with (y := eps / (D0 + 1)) as [N HN].
  - rewrite Rabs_right; lra.
  - apply Rdiv_lt_0_compat; lra.
  - exists N. intros xs st1 st2 t d H1 H2 H0 HNt Ht.
    eapply Rle_lt_trans; [now apply run_contraction|].
    specialize (HN (S t) ltac:(lia)). rewrite Rabs_right in HN by (apply Rle_ge, pow_le; assumption).
    assert (0 <= rho ^ S t) by (apply pow_le; assumption).
    apply Rle_lt_trans with (rho ^ S t * D0); [apply Rmult_le_compat_l; assumption|].
    apply Rle_lt_trans with (rho ^ S t * (D0 + 1)); [apply Rmult_le_compat_l; lra|].
    apply Rmult_lt_compat_r with (r := D0 + 1) in HN; [|lra]. unfold Rdiv in HN. rewrite Rmult_assoc, Rinv_l, Rmult_1_r in HN by lra.
    exact HN.
Qed.
End Step.

(* ------------------------------------------------------------------ boundedness *)
Definition boxed (n : nat) (v : list R) : Prop := forall i, (i < n)%nat -> -1 <= nth i v 0 <= 1.
Definition act_boxed (c : rcfg R) : Prop := forall v i, (i < length v)%nat -> -1 <= nth i (ract c v) 0 <= 1.
Definition lr_unit (n : nat) (l : leak R) : Prop := forall i, (i < n)%nat -> 0 <= lr_at l i <= 1.

Lemma step_boxed n c s r x : shaped n c -> quiet c -> act_boxed c -> lr_unit n (rlr c) -> length r = n ->
  boxed n r -> boxed n (snd (step_internal c (s, r) x)).
Proof.
  intros Hs Hq Hb Hl Hr Hbox i Hi. destruct (internal_step_law n c s r x i Hs Hq Hr Hi) as [_ ->].
  specialize (Hl i Hi). specialize (Hbox i Hi).
  assert (Hk : -1 <= nth i (ract c (kernel c r x)) 0 <= 1) by (apply Hb; rewrite (kernel_length n); assumption).
  set (l := lr_at (rlr c) i) in *. set (p := nth i r 0) in *. set (k := nth i (ract c (kernel c r x)) 0) in *. nra.
Qed.

Lemma run_boxed n c : forall xs st, shaped n c -> quiet c -> act_boxed c -> lr_unit n (rlr c) -> st_len n st ->
  boxed n (snd st) -> Forall (fun st' => boxed n (snd st')) (run_states Internal c st xs).
Proof.
  induction xs as [|x xs IH]; intros st Hs Hq Hb Hl Hst Hbox; cbn [run_states]; constructor.
  - destruct st as [s r]. destruct Hst. cbn [step fst snd] in *. now apply step_boxed.
  - apply IH; auto; [now apply step_len|]. destruct st as [s r]. destruct Hst. cbn [step fst snd] in *. now apply step_boxed.
Qed.

Lemma act_boxed_map c (f : R -> R) : (forall v, ract c v = map f v) -> (forall z, -1 <= f z <= 1) -> act_boxed c.
Proof. intros Hf Hr v i Hi. rewrite Hf, (nth_map_R f v i 0 Hi). apply Hr. Qed.

(* ------------------------------------------------------------------ instances *)
Lemma id_lipschitz : lipschitz1 (a_id (F:=R)).
Proof. intros a b. unfold a_id. lra. Qed.

Lemma relu_R x : a_relu (F:=R) x = Rmax x 0.
Proof. unfold a_relu. cbn. destruct (Rlt_dec x 0); unfold Rmax; destruct (Rle_dec x 0); lra. Qed.
Lemma relu_lipschitz : lipschitz1 (a_relu (F:=R)).
Proof.
  intros a b. rewrite !relu_R. unfold Rmax. destruct (Rle_dec a 0), (Rle_dec b 0); unfold Rabs;
  repeat match goal with |- context [Rcase_abs ?z] => destruct (Rcase_abs z) end; lra.
Qed.

Lemma hardtanh_range x : -1 <= a_hardtanh (F:=R) x <= 1.
Proof. unfold a_hardtanh. cbn. destruct (Rlt_dec x (- (1))); [|destruct (Rlt_dec 1 x)]; lra. Qed.
Lemma hardtanh_lipschitz : lipschitz1 (a_hardtanh (F:=R)).
Proof.
  intros a b. unfold a_hardtanh. cbn.
  destruct (Rlt_dec a (- (1))); [|destruct (Rlt_dec 1 a)]; (destruct (Rlt_dec b (- (1))); [|destruct (Rlt_dec 1 b)]);
  unfold Rabs; repeat match goal with |- context [Rcase_abs ?z] => destruct (Rcase_abs z) end; lra.
Qed.

(* tanh (Rtrigo_def.tanh = sinh / cosh) *)
Lemma exp_mul_neg x : exp x * exp (- x) = 1.
Proof. rewrite <- exp_plus. replace (x + - x) with 0 by lra. apply exp_0. Qed.
Lemma cosh2_sinh2 x : cosh x * cosh x - sinh x * sinh x = 1.
Proof. unfold cosh, sinh. rewrite <- (exp_mul_neg x). field. Qed.
Lemma cosh_ge1 x : 1 <= cosh x.
Proof.
  unfold cosh. pose proof (exp_mul_neg x) as E. pose proof (exp_pos x) as P1. pose proof (exp_pos (- x)) as P2.
  set (e := exp x) in *. set (g := exp (- x)) in *.
  pose proof (Rle_0_sqr (e - g)) as S1. unfold Rsqr in S1.
  assert (S2 : 4 <= (e + g) * (e + g)) by lra.
  destruct (Rle_dec 2 (e + g)) as [|Hn]; [lra|]. exfalso. apply Rnot_le_lt in Hn.
  assert ((e + g) * (e + g) < 2 * 2) by (apply Rmult_le_0_lt_compat; lra). lra.
Qed.
Lemma tanh_range x : -1 <= tanh x <= 1.
Proof.
  unfold tanh. pose proof (cosh_ge1 x) as Hc.
  assert (Hs : - cosh x <= sinh x <= cosh x).
  { unfold cosh, sinh. pose proof (exp_pos x). pose proof (exp_pos (- x)). lra. }
  split.
  - apply Rmult_le_reg_r with (cosh x); [lra|]. unfold Rdiv. rewrite Rmult_assoc, Rinv_l by lra. lra.
  - apply Rmult_le_reg_r with (cosh x); [lra|]. unfold Rdiv. rewrite Rmult_assoc, Rinv_l by lra. lra.
Qed.
Definition dtanh (x : R) : R := (cosh x * cosh x - sinh x * sinh x) / Rsqr (cosh x).
Lemma tanh_derivable x : derivable_pt_lim tanh x (dtanh x).
Proof.
  change tanh with (sinh / cosh)%F. unfold dtanh.
  apply derivable_pt_lim_div; [apply derivable_pt_lim_sinh | apply derivable_pt_lim_cosh |].
  pose proof (cosh_ge1 x). lra.
Qed.
Lemma dtanh_range x : 0 <= dtanh x <= 1.
Proof.
  unfold dtanh. rewrite cosh2_sinh2. pose proof (cosh_ge1 x) as Hc. unfold Rsqr.
  assert (H1 : 1 <= cosh x * cosh x) by nra.
  split.
  - apply Rlt_le, Rdiv_lt_0_compat; lra.
  - apply Rmult_le_reg_r with (cosh x * cosh x); [lra|]. unfold Rdiv. rewrite Rmult_assoc, Rinv_l by lra. lra.
Qed.
Lemma tanh_incr_bound a b : a < b -> 0 <= tanh b - tanh a <= b - a.
Proof.
  intros Hab. destruct (MVT_cor2 tanh dtanh a b Hab) as [cc [E _]]; [intros; apply tanh_derivable|].
  rewrite E. pose proof (dtanh_range cc). nra.
Qed.
Lemma tanh_lipschitz : lipschitz1 tanh.
Proof.
  intros a b. destruct (Rtotal_order a b) as [Hlt|[->|Hgt]].
  - pose proof (tanh_incr_bound a b Hlt). unfold Rabs; repeat match goal with |- context [Rcase_abs ?z] => destruct (Rcase_abs z) end; lra.
  - replace (tanh b - tanh b) with 0 by lra. replace (b - b) with 0 by lra. lra.
  - pose proof (tanh_incr_bound b a Hgt). unfold Rabs; repeat match goal with |- context [Rcase_abs ?z] => destruct (Rcase_abs z) end; lra.
Qed.
