(* C10: proofs over R about model/Online.v — the RLS invariant (Sherman-Morrison, ridge normal equations),
   the LMS step, the intrinsic-plasticity gradient kernels. *)
From Coq Require Import Reals Lra Lia Arith List Bool.
From RV Require Import base.Num base.LA base.BSum base.ListX model.Online proofs.Online_loop_proofs.
Import ListNotations.
Open Scope R_scope.

Definition delta (i j : nat) : R := if Nat.eqb i j then 1 else 0.
Definition lsum (l : list R) : R := fold_right Rplus 0 l.
Definition Mx := nat -> nat -> R.
Definition Vx := nat -> R.

(* ================================================================== index level *)
Section SM.
Variables n m : nat.     (* n = augmented input dimension, m = output dimension *)
Definition sym (A : Mx) := forall i j, (i < n)%nat -> (j < n)%nat -> A i j = A j i.
Definition isinv (P A : Mx) := forall i j, (i < n)%nat -> (j < n)%nat -> bsum n (fun l => P i l * A l j) = delta i j.
Definition psd (A : Mx) := forall v : Vx, 0 <= bsum n (fun i => bsum n (fun l => v i * A i l * v l)).
Definition normal (A W B : Mx) := forall i j, (i < n)%nat -> (j < m)%nat -> bsum n (fun l => A i l * W l j) = B i j.
Record Inv (P A W B : Mx) : Prop :=
  { inv_symP : sym P; inv_symA : sym A; inv_inv : isinv P A; inv_psd : psd A; inv_norm : normal A W B }.

(* one RLS step, index level (same shape as rls._rls + rls.train) *)
Definition kvec (P : Mx) (r : Vx) : Vx := fun i => bsum n (fun l => P i l * r l).
Definition rPr (P : Mx) (r : Vx) : R := bsum n (fun l => r l * kvec P r l).
Definition gain (P : Mx) (r : Vx) : R := 1 / (1 + rPr P r).
Definition errv (W : Mx) (r y : Vx) : Vx := fun j => bsum n (fun l => r l * W l j) - y j.
Definition stepP (P : Mx) (r : Vx) : Mx := fun i j => P i j - gain P r * (kvec P r i * kvec P r j).
Definition stepA (A : Mx) (r : Vx) : Mx := fun i j => A i j + r i * r j.
Definition stepW (P W : Mx) (r y : Vx) : Mx := fun i j => W i j + (- gain P r) * (kvec P r i * errv W r y j).
Definition stepB (B : Mx) (r y : Vx) : Mx := fun i j => B i j + r i * y j.

Section Step.
Variables (P A W B : Mx) (r y : Vx).
Hypothesis HI : Inv P A W B.

Lemma kA j : (j < n)%nat -> bsum n (fun l => kvec P r l * A l j) = r j.
Proof.
  intros Hj. destruct HI as [HP _ Hinv _ _]. unfold kvec.
  transitivity (bsum n (fun l => bsum n (fun q => r q * (P q l * A l j)))).
  { apply bsum_ext; intros l Hl. rewrite <- bsum_scal_r. apply bsum_ext; intros q Hq. rewrite (HP l q) by assumption. ring. }
  rewrite bsum_swap.
  transitivity (bsum n (fun q => r q * (if Nat.eqb q j then 1 else 0))).
  { apply bsum_ext; intros q Hq. rewrite bsum_scal. f_equal. apply Hinv; auto. }
  apply bsum_delta. exact Hj.
Qed.

Lemma Ak i : (i < n)%nat -> bsum n (fun l => A i l * kvec P r l) = r i.
Proof.
  intros Hi. rewrite <- (kA i Hi). apply bsum_ext; intros l Hl.
  rewrite (inv_symA _ _ _ _ HI i l) by assumption. ring.
Qed.

Lemma rPr_ge0 : 0 <= rPr P r.
Proof.
  unfold rPr.
  rewrite (bsum_ext n _ (fun i => bsum n (fun l => kvec P r i * A i l * kvec P r l))).
  - apply (inv_psd _ _ _ _ HI).
  - intros i Hi. rewrite <- (Ak i Hi) at 1. rewrite <- bsum_scal_r. apply bsum_ext; intros; ring.
Qed.

Lemma den_pos : 0 < 1 + rPr P r.
Proof. pose proof rPr_ge0. lra. Qed.

Lemma gain_den : gain P r * (1 + rPr P r) = 1.
Proof. unfold gain. pose proof den_pos. field. apply Rgt_not_eq; lra. Qed.

Lemma step_inv : isinv (stepP P r) (stepA A r).
Proof.
  intros i j Hi Hj. unfold stepP, stepA.
  transitivity (bsum n (fun l => P i l * A l j + r j * (P i l * r l) + (- gain P r * kvec P r i) * (kvec P r l * A l j)
                                 + (- gain P r * kvec P r i * r j) * (r l * kvec P r l))).
  { apply bsum_ext; intros; ring. }
  rewrite !bsum_plus, !bsum_scal.
  change (bsum n (fun l => P i l * r l)) with (kvec P r i).
  change (bsum n (fun l => r l * kvec P r l)) with (rPr P r).
  rewrite kA by assumption. rewrite (inv_inv _ _ _ _ HI) by assumption.
  pose proof gain_den as G.
  replace (delta i j + r j * kvec P r i + - gain P r * kvec P r i * r j + - gain P r * kvec P r i * r j * rPr P r)
    with (delta i j + r j * kvec P r i * (1 - gain P r * (1 + rPr P r))) by ring.
  rewrite G. ring.
Qed.

Lemma step_symP : sym (stepP P r).
Proof. intros i j Hi Hj. unfold stepP. rewrite (inv_symP _ _ _ _ HI i j) by assumption. ring. Qed.
Lemma step_symA : sym (stepA A r).
Proof. intros i j Hi Hj. unfold stepA. rewrite (inv_symA _ _ _ _ HI i j) by assumption. ring. Qed.

Lemma step_psd : psd (stepA A r).
Proof.
  intros v. unfold stepA.
  set (S := bsum n (fun l => r l * v l)).
  rewrite (bsum_ext n _ (fun i => bsum n (fun l => v i * A i l * v l) + (v i * r i) * S)).
  2:{ intros i Hi. unfold S. rewrite <- bsum_scal, <- bsum_plus. apply bsum_ext; intros; ring. }
  rewrite bsum_plus, bsum_scal_r.
  replace (bsum n (fun i => v i * r i)) with S by (unfold S; apply bsum_ext; intros; ring).
  pose proof (inv_psd _ _ _ _ HI v). nra.
Qed.

Lemma step_normal : normal (stepA A r) (stepW P W r y) (stepB B r y).
Proof.
  intros i j Hi Hj. unfold stepA, stepW, stepB.
  transitivity (bsum n (fun l => A i l * W l j + r i * (r l * W l j) + (- gain P r * errv W r y j) * (A i l * kvec P r l)
                                 + (- gain P r * errv W r y j * r i) * (r l * kvec P r l))).
  { apply bsum_ext; intros; ring. }
  rewrite !bsum_plus, !bsum_scal.
  change (bsum n (fun l => r l * kvec P r l)) with (rPr P r).
  rewrite Ak by assumption. rewrite (inv_norm _ _ _ _ HI) by assumption.
  replace (bsum n (fun l => r l * W l j)) with (errv W r y j + y j) by (unfold errv; ring).
  pose proof gain_den as G.
  replace (B i j + r i * (errv W r y j + y j) + - gain P r * errv W r y j * r i + - gain P r * errv W r y j * r i * rPr P r)
    with (B i j + r i * y j + r i * errv W r y j * (1 - gain P r * (1 + rPr P r))) by ring.
  rewrite G. ring.
Qed.

Theorem step_Inv : Inv (stepP P r) (stepA A r) (stepW P W r y) (stepB B r y).
Proof. constructor; [apply step_symP|apply step_symA|apply step_inv|apply step_psd|apply step_normal]. Qed.
End Step.

(* the invariant only reads the in-range entries *)
Lemma Inv_ext P A W B P2 W2 :
  (forall i j, (i < n)%nat -> (j < n)%nat -> P2 i j = P i j) ->
  (forall i j, (i < n)%nat -> (j < m)%nat -> W2 i j = W i j) ->
  Inv P A W B -> Inv P2 A W2 B.
Proof.
  intros EP EW [HP HA Hinv Hpsd Hn]. constructor; auto.
  - intros i j Hi Hj. rewrite !EP by assumption. auto.
  - intros i j Hi Hj. rewrite <- (Hinv i j Hi Hj). apply bsum_ext; intros l Hl. rewrite EP by assumption. reflexivity.
  - intros i j Hi Hj. rewrite <- (Hn i j Hi Hj). apply bsum_ext; intros l Hl. rewrite EW by assumption. reflexivity.
Qed.

(* initial state: P = I/alpha, A = alpha I, W = 0, B = 0 *)
Lemma init_Inv (alpha : R) : 0 < alpha ->
  Inv (fun i j => delta i j / alpha) (fun i j => alpha * delta i j) (fun _ _ => 0) (fun _ _ => 0).
Proof.
  intros Ha. constructor.
  - intros i j _ _. unfold delta. rewrite (Nat.eqb_sym i j). reflexivity.
  - intros i j _ _. unfold delta. rewrite (Nat.eqb_sym i j). reflexivity.
  - intros i j Hi Hj.
    rewrite (bsum_ext n _ (fun l => (delta i l) * (if Nat.eqb l j then 1 else 0))).
    2:{ intros l Hl. unfold delta. field. apply Rgt_not_eq; lra. }
    rewrite bsum_delta by assumption. reflexivity.
  - intros v.
    apply bsum_ge0. intros i Hi.
    rewrite (bsum_ext n _ (fun l => (v i * alpha * v l) * (if Nat.eqb l i then 1 else 0))).
    2:{ intros l Hl. unfold delta. rewrite (Nat.eqb_sym i l). ring. }
    rewrite bsum_delta by assumption. nra.
  - intros i j _ _. rewrite (bsum_ext n _ (fun _ => 0)) by (intros; ring). apply bsum_0.
Qed.

(* what A and B are after a list of samples *)
Lemma fold_stepA (rs : list (Vx * Vx)) : forall A i j,
  fold_left (fun A p => stepA A (fst p)) rs A i j = A i j + lsum (map (fun p : Vx * Vx => fst p i * fst p j) rs).
Proof.
  induction rs as [|p rs IH]; intros A i j; cbn [fold_left map lsum fold_right]; [lra|].
  rewrite IH. unfold stepA. unfold lsum. ring.
Qed.
Lemma fold_stepB (rs : list (Vx * Vx)) : forall B i j,
  fold_left (fun B p => stepB B (fst p) (snd p)) rs B i j = B i j + lsum (map (fun p : Vx * Vx => fst p i * snd p j) rs).
Proof.
  induction rs as [|p rs IH]; intros B i j; cbn [fold_left map lsum fold_right]; [lra|].
  rewrite IH. unfold stepB. unfold lsum. ring.
Qed.

(* A P = I follows from P A = I and the symmetries *)
Lemma inv_right P A W B : Inv P A W B -> forall i j, (i < n)%nat -> (j < n)%nat -> bsum n (fun l => A i l * P l j) = delta i j.
Proof.
  intros [HP HA Hinv _ _] i j Hi Hj.
  rewrite (bsum_ext n _ (fun l => P j l * A l i)).
  - rewrite Hinv by assumption. unfold delta. rewrite (Nat.eqb_sym j i). reflexivity.
  - intros l Hl. rewrite (HA i l), (HP l j) by assumption. ring.
Qed.

(* ... hence W = P B : the weights are THE solution of the regularised normal equations *)
Lemma inv_solution P A W B : Inv P A W B -> forall i j, (i < n)%nat -> (j < m)%nat -> W i j = bsum n (fun l => P i l * B l j).
Proof.
  intros HI i j Hi Hj. destruct HI as [HP HA Hinv Hpsd Hn].
  transitivity (bsum n (fun l => bsum n (fun q => P i l * (A l q * W q j)))).
  2:{ apply bsum_ext; intros l Hl. rewrite bsum_scal. f_equal. apply Hn; assumption. }
  rewrite bsum_swap.
  transitivity (bsum n (fun q => W q j * (if Nat.eqb q i then 1 else 0))).
  { rewrite bsum_delta by assumption. reflexivity. }
  apply bsum_ext; intros q Hq.
  rewrite (bsum_ext n _ (fun l => W q j * (P i l * A l q))) by (intros; ring).
  rewrite bsum_scal. f_equal. rewrite Hinv by assumption. unfold delta. rewrite (Nat.eqb_sym i q). reflexivity.
Qed.
End SM.

(* ================================================================== list level (LA.v at R) *)
Notation lvec := (list R).
Notation lmat := (list (list R)).
Definition Mof (A : lmat) : Mx := fun i j => mget A i j.
Definition Vof (v : lvec) : Vx := fun i => vget v i.
Definition wfm (n m : nat) (A : lmat) : Prop := length A = n /\ Forall (fun r => length r = m) A.

Lemma nth_map_lt {A B} (f : A -> B) (l : list A) i d d' : (i < length l)%nat -> nth i (map f l) d' = f (nth i l d).
Proof. revert i; induction l; intros [|i] Hi; cbn in *; try lia; auto. apply IHl. lia. Qed.

Lemma wfm_row n m A i : wfm n m A -> (i < n)%nat -> length (nth i A []) = m.
Proof. intros [Hl Hf] Hi. rewrite Forall_forall in Hf. apply Hf. apply nth_In. lia. Qed.

Lemma wfm_map2 (f : R -> R -> R) n m A B : wfm n m A -> wfm n m B ->
  wfm n m (map (fun p => vzip f (fst p) (snd p)) (combine A B)).
Proof.
  intros [HA FA] [HB FB]. split.
  - rewrite map_length, combine_length. lia.
  - rewrite Forall_forall in *. intros row Hin. apply in_map_iff in Hin as [[a b] [<- Hin]].
    cbn [fst snd]. rewrite length_vzip.
    + apply FA. eapply in_combine_l; eauto.
    + rewrite (FA a), (FB b); [reflexivity| eapply in_combine_r; eauto | eapply in_combine_l; eauto].
Qed.

Lemma mget_map2 (f : R -> R -> R) n m A B i j : wfm n m A -> wfm n m B -> (i < n)%nat -> (j < m)%nat ->
  mget (map (fun p => vzip f (fst p) (snd p)) (combine A B)) i j = f (mget A i j) (mget B i j).
Proof.
  intros WA WB Hi Hj. unfold mget.
  rewrite (nth_map_lt _ _ i ([], [])) by (rewrite combine_length; destruct WA, WB; lia).
  rewrite combine_nth by (destruct WA, WB; lia). cbn [fst snd].
  pose proof (wfm_row _ _ _ i WA Hi). pose proof (wfm_row _ _ _ i WB Hi).
  apply nth_vzip; lia.
Qed.

Lemma wfm_mscale c n m A : wfm n m A -> wfm n m (mscale c A).
Proof.
  intros [HA FA]. split; [unfold mscale; rewrite map_length; exact HA|].
  rewrite Forall_forall in *. intros row Hin. apply in_map_iff in Hin as [a [<- Hin]].
  unfold vscale. rewrite map_length. auto.
Qed.
Lemma mget_mscale c n m A i j : wfm n m A -> (i < n)%nat -> (j < m)%nat -> mget (mscale c A) i j = c * mget A i j.
Proof.
  intros WA Hi Hj. unfold mget, mscale.
  rewrite (nth_map_lt _ _ i []) by (destruct WA; lia).
  unfold vscale. rewrite (nth_map_R _ _ j 0) by (rewrite (wfm_row _ _ _ i WA Hi); lia). reflexivity.
Qed.
Lemma wfm_outer (u v : lvec) : wfm (length u) (length v) (outer u v).
Proof.
  split; [unfold outer; apply map_length|]. rewrite Forall_forall. intros row Hin.
  apply in_map_iff in Hin as [a [<- Hin]]. unfold vscale. apply map_length.
Qed.
Lemma mget_outer (u v : lvec) i j : (i < length u)%nat -> (j < length v)%nat -> mget (outer u v) i j = vget u i * vget v j.
Proof.
  intros Hi Hj. unfold mget, outer. rewrite (nth_map_lt _ _ i 0) by lia.
  unfold vscale. rewrite (nth_map_R _ _ j 0) by lia. reflexivity.
Qed.

Lemma vget_vzeros k j : vget (vzeros k) j = 0.
Proof. unfold vget, vzeros. revert j; induction k; intros [|j]; cbn; auto. Qed.

(* v @ A *)
Lemma vm_spec : forall (x : lvec) (A : lmat) n m, length x = n -> wfm n m A ->
  length (vm x A m) = m /\ forall j, (j < m)%nat -> vget (vm x A m) j = bsum n (fun l => vget x l * mget A l j).
Proof.
  induction x as [|a x IH]; intros [|row A] n m Hx [HA FA]; cbn [length] in *; subst; try discriminate.
  - cbn. split; [apply repeat_length|]. intros. apply vget_vzeros.
  - injection HA as HA. inversion FA as [|? ? Hrow FA']; subst.
    destruct (IH A (length x) (length row) eq_refl (conj HA FA')) as [L G].
    cbn [vm]. split.
    + unfold vadd. rewrite length_vzip; unfold vscale; rewrite map_length; [reflexivity| lia].
    + intros j Hj. rewrite bsum_shift. unfold vget, vadd.
      rewrite nth_vzip by (unfold vscale; rewrite map_length; lia).
      unfold vscale at 1. rewrite (nth_map_R _ _ j 0) by lia.
      specialize (G j Hj). unfold vget in G. numR. rewrite G. reflexivity.
Qed.

Lemma nth_unitv : forall n i j, (i < n)%nat -> nth j (unitv (F:=R) n i) 0 = delta i j /\ length (unitv (F:=R) n i) = n.
Proof.
  induction n as [|n IH]; intros i j Hi; [lia|]. cbn [unitv]. destruct i as [|i].
  - split; [|cbn; unfold vzeros; rewrite repeat_length; reflexivity].
    destruct j as [|j]; cbn; [reflexivity|]. apply vget_vzeros.
  - destruct (IH i (pred j) ltac:(lia)) as [G L]. split; [|cbn; rewrite L; reflexivity].
    destruct j as [|j]; cbn [nth]; [reflexivity|]. cbn [pred] in G. rewrite G. reflexivity.
Qed.

Definition P0 (n : nat) (alpha : R) : lmat := map (map (fun v => ndiv v alpha)) (eye n).
Lemma wfm_P0 n alpha : wfm n n (P0 n alpha).
Proof.
  split; [unfold P0, eye; rewrite !map_length, seq_length; reflexivity|].
  rewrite Forall_forall. intros row Hin. unfold P0, eye in Hin. rewrite map_map in Hin.
  apply in_map_iff in Hin as [i [<- Hin]]. apply in_seq in Hin. rewrite map_length. apply (nth_unitv n i 0%nat). lia.
Qed.
Lemma mget_P0 n alpha i j : (i < n)%nat -> (j < n)%nat -> mget (P0 n alpha) i j = delta i j / alpha.
Proof.
  intros Hi Hj. unfold mget, P0, eye. rewrite map_map.
  rewrite (nth_map_lt _ _ i 0%nat) by (rewrite seq_length; lia). rewrite seq_nth by lia. cbn [plus].
  destruct (nth_unitv n i j Hi) as [G L].
  rewrite (nth_map_R _ _ j 0) by lia. rewrite G. reflexivity.
Qed.
Lemma wfm_mzeros n m : wfm n m (mzeros (F:=R) n m).
Proof. split; [apply repeat_length|]. rewrite Forall_forall. intros row Hin. apply repeat_spec in Hin. subst. apply repeat_length. Qed.
Lemma mget_mzeros n m i j : mget (mzeros (F:=R) n m) i j = 0.
Proof.
  unfold mget, mzeros. destruct (lt_dec i n).
  - rewrite nth_repeat_any by assumption. apply vget_vzeros.
  - rewrite (nth_overflow (repeat (vzeros m) n)) by (rewrite repeat_length; lia). destruct j; reflexivity.
Qed.


Lemma split_save_spec (hb : bool) (idim odim : nat) (s : rdo (F:=R)) (wo P : lmat) (cur : nat) :
  wfm (if hb then S idim else idim) odim wo -> wfm idim odim (Wout s) -> length (bias s) = odim ->
  let s' := split_save hb s wo P cur in
  assemble hb s' = wo /\ wfm idim odim (Wout s') /\ length (bias s') = odim /\
  (hb = false -> bias s' = bias s) /\ Pm s' = P.
Proof.
  intros WW WWo Hb. unfold split_save, assemble. destruct hb; cbn [Wout bias Pm].
  - destruct wo as [|b w]; [destruct WW; discriminate|].
    destruct WW as [HL HF]. inversion HF; subst. cbn in HL. cbn [hd tl].
    repeat split; auto; try lia; try discriminate.
  - repeat split; auto; try apply WW.
Qed.

(* ------------------------------------------------------------------ RLS: list-level step = index-level step *)
Section RLSList.
Variables (hb : bool) (idim odim : nat).
Definition adim : nat := if hb then S idim else idim.
Notation n := adim.

Lemma length_augment (x : lvec) : length x = idim -> length (augment hb x) = n.
Proof. intros Hx. unfold augment, adim. destruct hb; cbn; lia. Qed.

Lemma kvec_bridge (Pl : lmat) (rl : lvec) i : wfm n n Pl -> length rl = n -> (i < n)%nat ->
  vget (mv Pl rl) i = kvec n (Mof Pl) (Vof rl) i.
Proof.
  intros WP Hr Hi. unfold vget. rewrite nth_mv by (destruct WP; lia).
  rewrite (dot_bsum _ _ n) by (auto; apply (wfm_row _ _ _ i WP Hi)). reflexivity.
Qed.
Lemma length_mvP (Pl : lmat) (rl : lvec) : wfm n n Pl -> length (mv Pl rl) = n.
Proof. intros [HP _]. rewrite length_mv. exact HP. Qed.
Lemma rPr_bridge (Pl : lmat) (rl : lvec) : wfm n n Pl -> length rl = n ->
  dot rl (mv Pl rl) = rPr n (Mof Pl) (Vof rl).
Proof.
  intros WP Hr. rewrite (dot_bsum _ _ n) by (auto; apply length_mvP; auto).
  unfold rPr. apply bsum_ext; intros l Hl. f_equal. apply kvec_bridge; auto.
Qed.
Lemma gain_bridge (Pl : lmat) (rl : lvec) : wfm n n Pl -> length rl = n ->
  rls_gain Pl rl = gain n (Mof Pl) (Vof rl).
Proof. intros WP Hr. unfold rls_gain, gain. numR. rewrite rPr_bridge by auto. reflexivity. Qed.

Lemma rls_P_bridge (Pl : lmat) (rl : lvec) : wfm n n Pl -> length rl = n ->
  wfm n n (rls_P Pl rl) /\
  forall i j, (i < n)%nat -> (j < n)%nat -> mget (rls_P Pl rl) i j = stepP n (Mof Pl) (Vof rl) i j.
Proof.
  intros WP Hr. unfold rls_P.
  assert (WO : wfm n n (outer (mv Pl rl) (mv Pl rl))).
  { pose proof (wfm_outer (mv Pl rl) (mv Pl rl)) as Wo. rewrite (length_mvP Pl rl WP) in Wo. exact Wo. }
  pose proof (wfm_mscale (rls_gain Pl rl) _ _ _ WO) as WS.
  split; [apply (wfm_map2 nsub); assumption|].
  intros i j Hi Hj. unfold msub, vsub. rewrite (mget_map2 nsub n n) by assumption.
  rewrite (mget_mscale _ n n) by assumption.
  rewrite mget_outer by (rewrite length_mvP; assumption).
  rewrite !kvec_bridge, gain_bridge by assumption. reflexivity.
Qed.

Lemma rls_wo_bridge (Pl wo : lmat) (rl el : lvec) : wfm n n Pl -> wfm n odim wo -> length rl = n -> length el = odim ->
  wfm n odim (rls_wo Pl wo rl el) /\
  forall i j, (i < n)%nat -> (j < odim)%nat ->
    mget (rls_wo Pl wo rl el) i j = mget wo i j + (- gain n (Mof Pl) (Vof rl)) * (kvec n (Mof Pl) (Vof rl) i * vget el j).
Proof.
  intros WP WW Hr He. unfold rls_wo.
  assert (WO : wfm n odim (outer (mv Pl rl) el)).
  { pose proof (wfm_outer (mv Pl rl) el) as Wo. rewrite (length_mvP Pl rl WP), He in Wo. exact Wo. }
  pose proof (wfm_mscale (nopp (rls_gain Pl rl)) _ _ _ WO) as WS.
  split; [apply (wfm_map2 nadd); assumption|].
  intros i j Hi Hj. unfold madd, vadd. rewrite (mget_map2 nadd n odim) by assumption.
  rewrite (mget_mscale _ n odim) by assumption.
  rewrite mget_outer by (rewrite ?length_mvP; lia || assumption).
  rewrite kvec_bridge, gain_bridge by assumption. reflexivity.
Qed.

Record LInv (s : rdo (F:=R)) (A B : Mx) : Prop := {
  li_P : wfm n n (Pm s);
  li_W : wfm idim odim (Wout s);
  li_b : length (bias s) = odim;
  li_b0 : hb = false -> bias s = vzeros odim;
  li_inv : Inv n odim (Mof (Pm s)) A (Mof (assemble hb s)) B }.

Lemma wfm_assemble s A B : LInv s A B -> wfm n odim (assemble hb s).
Proof.
  intros [WP [HW FW] Hb _ _]. unfold assemble, adim. destruct hb; [|split; assumption].
  split; [cbn; lia| constructor; assumption].
Qed.

Lemma forward_bridge s A B (x : lvec) : LInv s A B -> length x = idim ->
  length (readout_forward odim s x) = odim /\
  forall j, (j < odim)%nat ->
    vget (readout_forward odim s x) j = bsum n (fun l => vget (augment hb x) l * mget (assemble hb s) l j).
Proof.
  intros LI Hx. destruct LI as [WP WW Hb Hb0 _].
  destruct (vm_spec x (Wout s) idim odim Hx WW) as [L G].
  unfold readout_forward. split.
  - unfold vadd. rewrite length_vzip; lia.
  - intros j Hj. unfold vget, vadd. rewrite nth_vzip by lia.
    specialize (G j Hj). unfold vget in G. numR. rewrite G.
    unfold adim, augment, assemble. destruct hb.
    + rewrite bsum_shift. cbn [nth mget]. unfold mget. cbn [nth]. numR. ring.
    + rewrite (Hb0 eq_refl). pose proof (vget_vzeros odim j) as Z. unfold vget in Z. numR. rewrite Z. ring.
Qed.

Theorem rls_step_LInv s A B (x y : lvec) : LInv s A B -> length x = idim -> length y = odim ->
  LInv (learn1 (readout_forward odim) (rls_update hb) s (x, y))
       (stepA A (Vof (augment hb x))) (stepB B (Vof (augment hb x)) (Vof y)).
Proof.
  intros LI Hx Hy.
  pose proof (wfm_assemble _ _ _ LI) as WW.
  destruct (forward_bridge _ _ _ x LI Hx) as [Lf Gf].
  pose proof (length_augment x Hx) as Hr.
  unfold learn1. cbn [fst snd]. unfold rls_update.
  set (r := augment hb x) in *.
  set (e := rerror (readout_forward odim s x) y).
  assert (He : length e = odim) by (unfold e, rerror, vsub; rewrite length_vzip; lia).
  destruct (rls_P_bridge (Pm s) r (li_P _ _ _ LI) Hr) as [WP' GP].
  destruct (rls_wo_bridge (Pm s) (assemble hb s) r e (li_P _ _ _ LI) WW Hr He) as [WW' GW].
  assert (Ee : forall j, (j < odim)%nat -> vget e j = errv n (Mof (assemble hb s)) (Vof r) (Vof y) j).
  { intros j Hj. unfold e, rerror, vsub, vget. rewrite nth_vzip by lia.
    specialize (Gf j Hj). unfold vget in Gf. numR. rewrite Gf. reflexivity. }
  pose proof (step_Inv n odim _ _ _ _ (Vof r) (Vof y) (li_inv _ _ _ LI)) as SI.
  set (wo' := rls_wo (Pm s) (assemble hb s) r e) in *.
  set (P' := rls_P (Pm s) r) in *.
  assert (EI : Inv n odim (Mof P') (stepA A (Vof r)) (Mof wo') (stepB B (Vof r) (Vof y))).
  { eapply Inv_ext; [| |exact SI].
    - intros i j Hi Hj. unfold Mof. apply GP; assumption.
    - intros i j Hi Hj. unfold Mof. rewrite GW by assumption. unfold stepW. rewrite Ee by assumption. reflexivity. }
  destruct LI as [WP WWo Hb Hb0 HI]. clear GP GW SI.
  destruct (split_save_spec hb idim odim s wo' P' (cursor s) WW' WWo Hb) as (E1 & E2 & E3 & E4 & E5).
  constructor; rewrite ?E1, ?E5; auto.
  intros Hf. rewrite (E4 Hf). auto.
Qed.

(* initial node *)
Lemma rls_init_LInv (alpha : R) : 0 < alpha ->
  LInv (rls_init hb idim odim alpha) (fun i j => alpha * delta i j) (fun _ _ => 0).
Proof.
  intros Ha. unfold rls_init. fold adim. fold (P0 n alpha).
  constructor; cbn [Pm Wout bias].
  - apply wfm_P0.
  - apply wfm_mzeros.
  - apply repeat_length.
  - reflexivity.
  - eapply Inv_ext; [| |apply (init_Inv n odim alpha Ha)].
    + intros i j Hi Hj. apply mget_P0; assumption.
    + intros i j Hi Hj. unfold Mof, assemble, mget. cbn [Wout bias].
      destruct hb.
      * destruct i; [apply vget_vzeros| apply mget_mzeros].
      * apply mget_mzeros.
Qed.

(* any number of updates *)
Definition idx_samples (samples : list (lvec * lvec)) : list (Vx * Vx) :=
  map (fun p => (Vof (augment hb (fst p)), Vof (snd p))) samples.

Lemma rls_fold_LInv (samples : list (lvec * lvec)) : forall s A B,
  LInv s A B -> Forall (fun p => length (fst p) = idim /\ length (snd p) = odim) samples ->
  LInv (fold_left (learn1 (readout_forward odim) (rls_update hb)) samples s)
       (fold_left (fun A p => stepA A (fst p)) (idx_samples samples) A)
       (fold_left (fun B p => stepB B (fst p) (snd p)) (idx_samples samples) B).
Proof.
  induction samples as [|[x y] rest IH]; intros s A B LI HF; [exact LI|].
  inversion HF as [|? ? [Hx Hy] HF']; subst. cbn [fst snd] in *.
  cbn [fold_left idx_samples map fst snd]. apply IH; [|assumption].
  apply rls_step_LInv; assumption.
Qed.

(* the regularised covariance and the cross-moment of the learned samples *)
Definition covA (alpha : R) (samples : list (lvec * lvec)) : Mx :=
  fun i j => alpha * delta i j + lsum (map (fun p : lvec * lvec => vget (augment hb (fst p)) i * vget (augment hb (fst p)) j) samples).
Definition crossB (samples : list (lvec * lvec)) : Mx :=
  fun i j => lsum (map (fun p : lvec * lvec => vget (augment hb (fst p)) i * vget (snd p) j) samples).

Theorem rls_invariant (alpha : R) (samples : list (lvec * lvec)) :
  0 < alpha -> Forall (fun p => length (fst p) = idim /\ length (snd p) = odim) samples ->
  let s := fold_left (learn1 (readout_forward odim) (rls_update hb)) samples (rls_init hb idim odim alpha) in
  let P := Mof (Pm s) in let W := Mof (assemble hb s) in
  let A := covA alpha samples in let B := crossB samples in
  (forall i j, (i < n)%nat -> (j < n)%nat -> P i j = P j i) /\
  (forall i j, (i < n)%nat -> (j < n)%nat -> bsum n (fun l => P i l * A l j) = delta i j) /\
  (forall i j, (i < n)%nat -> (j < n)%nat -> bsum n (fun l => A i l * P l j) = delta i j) /\
  (forall i j, (i < n)%nat -> (j < odim)%nat -> bsum n (fun l => A i l * W l j) = B i j) /\
  (forall i j, (i < n)%nat -> (j < odim)%nat -> W i j = bsum n (fun l => P i l * B l j)).
Proof.
  intros Ha HF s P W A B.
  pose proof (rls_fold_LInv samples _ _ _ (rls_init_LInv alpha Ha) HF) as LI.
  fold s in LI. destruct LI as [_ _ _ _ HI]. fold P W in HI.
  assert (HI' : Inv n odim P A W B).
  { destruct HI as [HP HA Hinv Hpsd Hn].
    assert (EA : forall i j, fold_left (fun A p => stepA A (fst p)) (idx_samples samples) (fun i j => alpha * delta i j) i j = A i j).
    { intros i j. rewrite fold_stepA. unfold A, covA, idx_samples. rewrite map_map. reflexivity. }
    assert (EB : forall i j, fold_left (fun B p => stepB B (fst p) (snd p)) (idx_samples samples) (fun _ _ => 0) i j = B i j).
    { intros i j. rewrite fold_stepB. unfold B, crossB, idx_samples. rewrite map_map. cbn [fst snd]. unfold Vof. apply Rplus_0_l. }
    constructor.
    - exact HP.
    - intros i j Hi Hj. rewrite <- !EA. apply HA; assumption.
    - intros i j Hi Hj. rewrite <- (Hinv i j Hi Hj). apply bsum_ext; intros. rewrite EA. reflexivity.
    - intros v. specialize (Hpsd v). erewrite bsum_ext; [exact Hpsd|].
      intros i Hi. cbn beta. apply bsum_ext; intros l Hl. rewrite EA. reflexivity.
    - intros i j Hi Hj. rewrite <- EB, <- (Hn i j Hi Hj). apply bsum_ext; intros. rewrite EA. reflexivity. }
  split; [apply (inv_symP _ _ _ _ _ _ HI')|].
  split; [apply (inv_inv _ _ _ _ _ _ HI')|].
  split; [apply (inv_right _ _ _ _ _ _ HI')|].
  split; [apply (inv_norm _ _ _ _ _ _ HI')| apply (inv_solution _ _ _ _ _ _ HI')].
Qed.
End RLSList.

(* ------------------------------------------------------------------ LMS step *)
Lemma wfm_assemble_gen (hb : bool) (idim odim : nat) (s : rdo (F:=R)) :
  wfm idim odim (Wout s) -> length (bias s) = odim -> wfm (if hb then S idim else idim) odim (assemble hb s).
Proof.
  intros [HW FW] Hb. unfold assemble. destruct hb; [|split; assumption].
  split; [cbn; lia| constructor; assumption].
Qed.

Theorem lms_step (sc : sched (F:=R)) (hb : bool) (idim odim : nat) (s : rdo (F:=R)) (x y : lvec) :
  wfm idim odim (Wout s) -> length (bias s) = odim -> length x = idim -> length y = odim ->
  let s' := learn1 (readout_forward odim) (lms_update sc hb) s (x, y) in
  let a := sched_at sc (cursor s) in
  let r := augment hb x in
  let pred := readout_forward odim s x in
  cursor s' = S (cursor s) /\
  wfm idim odim (Wout s') /\ length (bias s') = odim /\ (hb = false -> bias s' = bias s) /\
  forall i j, (i < (if hb then S idim else idim))%nat -> (j < odim)%nat ->
    mget (assemble hb s') i j = mget (assemble hb s) i j - a * (vget pred j - vget y j) * vget r i.
Proof.
  intros WWo Hb Hx Hy s' a r pred.
  pose proof (wfm_assemble_gen hb idim odim s WWo Hb) as WW.
  set (n := if hb then S idim else idim) in *.
  assert (Hr : length r = n) by (unfold r, augment, n; destruct hb; cbn; lia).
  assert (Lp : length pred = odim).
  { unfold pred, readout_forward, vadd. destruct (vm_spec x (Wout s) idim odim Hx WWo) as [L _]. rewrite length_vzip; lia. }
  set (e := rerror pred y).
  assert (He : length e = odim) by (unfold e, rerror, vsub; rewrite length_vzip; lia).
  assert (WO : wfm n odim (outer r e)).
  { pose proof (wfm_outer r e) as Wo. rewrite Hr, He in Wo. exact Wo. }
  pose proof (wfm_mscale (nopp a) _ _ _ WO) as WS.
  assert (WW' : wfm n odim (lms_wo a (assemble hb s) r e)) by (apply (wfm_map2 nadd); assumption).
  unfold s', learn1, lms_update. cbn [fst snd]. fold r pred e a.
  destruct (split_save_spec hb idim odim s (lms_wo a (assemble hb s) r e) (Pm s) (S (cursor s)) WW' WWo Hb) as (E1 & E2 & E3 & E4 & E5).
  split; [unfold split_save; destruct hb; reflexivity|].
  split; [exact E2|]. split; [exact E3|]. split; [exact E4|].
  intros i j Hi Hj. rewrite E1. unfold lms_wo, madd, vadd.
  rewrite (mget_map2 nadd n odim) by assumption.
  rewrite (mget_mscale _ n odim) by assumption.
  rewrite mget_outer by lia.
  unfold e, rerror, vsub. unfold vget at 2. rewrite nth_vzip by lia. unfold vget. numR. ring.
Qed.

(* ------------------------------------------------------------------ intrinsic plasticity kernels over R *)
(* tanh units, Gaussian target N(mu, sigma):  delta_b = -eta(-mu/s^2 + y/s^2 (2 s^2 + 1 - y^2 + mu y)),  delta_a = eta/a + delta_b x
   (Schrauwen et al. 2008, the rule quoted by gaussian_gradients) *)
Definition doc_gauss_db (y mu sigma eta : R) : R :=
  - eta * (- (mu / (sigma * sigma)) + (y / (sigma * sigma)) * (2 * (sigma * sigma) + 1 - y * y + mu * y)).
(* sigmoid units, exponential target of mean mu:  delta_b = eta(1 - (2 + 1/mu) y + y^2/mu)   (Triesch 2005) *)
Definition doc_exp_db (y mu eta : R) : R := eta * (1 - (2 + 1 / mu) * y + (y * y) / mu).

Lemma gauss_db_doc y mu sigma eta : gauss_db y mu sigma eta = doc_gauss_db y mu sigma eta.
Proof. unfold gauss_db, doc_gauss_db, n2. numR. ring. Qed.
Lemma exp_db_doc y mu eta : exp_db y mu eta = doc_exp_db y mu eta.
Proof. unfold exp_db, doc_exp_db, n2. numR. ring. Qed.

Theorem ip_unit_tanh x y a b mu sigma eta :
  ip_unit true mu sigma eta x y a b =
    (a + (eta / a + doc_gauss_db y mu sigma eta * x), b + doc_gauss_db y mu sigma eta).
Proof. unfold ip_unit, ip_da. rewrite gauss_db_doc. numR. reflexivity. Qed.
Theorem ip_unit_sigmoid x y a b mu sigma eta :
  ip_unit false mu sigma eta x y a b =
    (a + (eta / a + doc_exp_db y mu eta * x), b + doc_exp_db y mu eta).
Proof. unfold ip_unit, ip_da. rewrite exp_db_doc. numR. reflexivity. Qed.

(* the same kernels as single fractions (what the rules are, as rational functions) *)
Lemma doc_gauss_db_frac y mu sigma eta : sigma <> 0 ->
  doc_gauss_db y mu sigma eta = eta * (mu - y * (2 * sigma * sigma + 1 - y * y + mu * y)) / (sigma * sigma).
Proof. intros Hs. unfold doc_gauss_db. field. exact Hs. Qed.
Lemma doc_exp_db_frac y mu eta : mu <> 0 ->
  doc_exp_db y mu eta = eta * (mu - (2 * mu + 1) * y + y * y) / mu.
Proof. intros Hm. unfold doc_exp_db. field. exact Hm. Qed.
(* sanity of the rules: the bias of a tanh unit is not moved when y solves the stationarity cubic; a sigmoid unit whose
   output is the fixed point y with y^2 - (2mu+1) y + mu = 0 is not moved either *)
Lemma doc_exp_db_zero y mu eta : mu <> 0 -> y * y - (2 * mu + 1) * y + mu = 0 -> doc_exp_db y mu eta = 0.
Proof. intros Hm E. rewrite doc_exp_db_frac by exact Hm. replace (mu - (2 * mu + 1) * y + y * y) with 0 by lra. field. exact Hm. Qed.

(* ------------------------------------------------------------------ RLS through the train loop *)
Lemma Forall_selected {A} (Pp : A -> Prop) k (xy : list A) :
  Forall Pp xy -> Forall Pp (map snd (filter (fun p => fst p mod k =? 0)%nat (combine (seq 0 (length xy)) xy))).
Proof.
  intros HF. rewrite Forall_forall in *. intros x Hin. apply in_map_iff in Hin as [[i x'] [<- Hin]].
  apply filter_In in Hin as [Hin _]. apply in_combine_r in Hin. cbn. auto.
Qed.

Theorem rls_train_calls_invariant (hb : bool) (idim odim k : nat) (alpha : R) (calls : list (list (lvec * lvec))) :
  0 < alpha ->
  Forall (Forall (fun p => length (fst p) = idim /\ length (snd p) = odim)) calls ->
  let samples := concat (map (selected k) calls) in
  let s := fst (train_calls (readout_forward odim) (rls_update hb) k (rls_init hb idim odim alpha) calls) in
  let n := adim hb idim in
  let P := Mof (Pm s) in let W := Mof (assemble hb s) in
  let A := covA hb alpha samples in let B := crossB hb samples in
  (forall i j, (i < n)%nat -> (j < n)%nat -> P i j = P j i) /\
  (forall i j, (i < n)%nat -> (j < n)%nat -> bsum n (fun l => P i l * A l j) = delta i j) /\
  (forall i j, (i < n)%nat -> (j < n)%nat -> bsum n (fun l => A i l * P l j) = delta i j) /\
  (forall i j, (i < n)%nat -> (j < odim)%nat -> bsum n (fun l => A i l * W l j) = B i j) /\
  (forall i j, (i < n)%nat -> (j < odim)%nat -> W i j = bsum n (fun l => P i l * B l j)).
Proof.
  intros Ha HF samples s. unfold s. rewrite train_calls_gate. fold samples.
  apply rls_invariant; [exact Ha|].
  unfold samples. clear -HF. induction calls as [|c cs IH]; cbn [map concat]; [constructor|].
  inversion HF; subst. apply Forall_app. split; [|apply IH; assumption].
  unfold selected. apply Forall_selected. assumption.
Qed.
