(* Tie (T) of C11: the functions GENERATED from the current source of Node.is_trainable (getter and setter) / is_trained_offline /
   is_trained_online / initialize_buffers / clean_buffers / get_buffer / partial_fit / fit and _partial_backward_default (reservoirpy/node.py) -- coq/gen/Gen_fit.v, vocabulary
   base/FitPrelude.v -- against the hand model model/TrainSem.v the theorems of C11 are stated about.

   Part 1 (world level, no hand model, ARBITRARY callbacks): whatever check_xy, _init_with_sequences, the buffers initialiser and the two
   learning-rule callbacks do to the world and wherever any of them raises, `fit` ends with the node's `_buffers` empty and `_X`, `_Y`
   ONE empty list object ([gen_fit_ends_clean]); the exception that leaves `fit` is the one that was raised inside.
   Part 2 (through [view], the abstraction from the world to the node record of TrainSem -- `_X is _Y` is the equality of the two
   references): with the callbacks TrainSem assumes (a buffered rule rewrites `_buffers`, the default rule is the GENERATED
   _partial_backward_default, `_backward` sets the learned side or raises), the generated clean_buffers / initialize_buffers /
   _partial_backward_default / partial_fit / fit / is_trainable setter ARE TrainSem's clean_buffers / init_buffers / partial_backward /
   partial_fit / fit HEAD / set_trainable,
   outcome included, for all data, every warm-up and every failure point.  Hypotheses, stated where used: the node object is
   consistent with its class ([wf]: `_backward` present iff the class is offline, an initialiser iff it is buffered, `_partial_backward`
   present), and check_xy / _init_with_sequences accept the data and split it into the per-sequence pairs without touching the world
   (their rejections are C12's subject; what they leave behind when they raise is covered by Part 1). *)
From Coq Require Import List Arith Bool Lia.
From RV Require Import base.FitPrelude gen.Gen_fit model.TrainSem proofs.TrainSem_proofs.
Import ListNotations.

Section WorldLevel.
Context {P Row Buf Dat KW : Type}.
Notation wd := (@world P Row Buf).
Notation B := (list Row).
Notation obj := (@FitPrelude.obj P Buf).
Variable cb_check_xy : nat -> Dat -> option Dat -> M wd (Dat * option Dat).
Variable cb_init : nat -> Dat -> option Dat -> M wd (list B * option (list (option B))).
Variable cb_binit : nat -> M wd unit.
Variable cb_pb : nat -> B -> option B -> KW -> M wd unit.
Variable cb_bk : nat -> nat -> nat -> M wd unit.
Variable kw_empty : KW.

Notation g_offline := (@GenFit.Node_is_trained_offline P Row Buf).
Notation g_init := (@GenFit.Node_initialize_buffers P Row Buf cb_binit).
Notation g_clean := (@GenFit.Node_clean_buffers P Row Buf).
Notation g_pbd := (@GenFit.partial_backward_default P Row Buf).
Notation g_get_buffer := (@GenFit.Node_get_buffer P Row Buf).
Notation g_online := (@GenFit.Node_is_trained_online P Row Buf).
Notation g_set_trainable := (@GenFit.Node_set_is_trainable P Row Buf).
Notation g_partial_fit := (@GenFit.Node_partial_fit P Row Buf Dat KW cb_check_xy cb_init cb_binit cb_pb).
Notation g_fit := (@GenFit.Node_fit P Row Buf Dat KW cb_check_xy cb_init cb_binit cb_pb cb_bk kw_empty).

Lemma oupd_same (h : nat -> obj) n o : oupd h n o n = o.
Proof. unfold oupd. rewrite Nat.eqb_refl. reflexivity. Qed.
Lemma oupd_other (h : nat -> obj) n o k : k <> n -> oupd h n o k = h k.
Proof. intros Hk. unfold oupd. destruct (Nat.eqb_spec k n); [contradiction|reflexivity]. Qed.

(* ------------------------------------------------------------------------------------------------ the small functions *)
Lemma gen_is_trained_offline n (w : wd) : g_offline n w = (w, Ok (a_trainable (w_obj w n) && a_has_backward (w_obj w n))).
Proof. reflexivity. Qed.

Lemma gen_is_trained_online n (w : wd) : g_online n w = (w, Ok (a_trainable (w_obj w n) && a_has_train (w_obj w n))).
Proof. reflexivity. Qed.

(* the is_trainable setter: writes `_trainable` only when the node currently is trainable offline or online (so a node without a
   learning rule ignores it and a FROZEN node can never be unfrozen) and the value is exactly a bool; TypeError otherwise *)
Lemma gen_set_is_trainable n v (w : wd) :
  g_set_trainable n v w =
  if a_trainable (w_obj w n) && a_has_backward (w_obj w n) || a_trainable (w_obj w n) && a_has_train (w_obj w n)
  then match v with
       | Some b => (wupd w n (FitPrelude.set_trainable (w_obj w n) b), Ok tt)
       | None => (w, Exc TypeError)
       end
  else (w, Ok tt).
Proof.
  unfold GenFit.Node_set_is_trainable. unfold bind at 1. rewrite gen_is_trained_offline. unfold bind at 1. rewrite gen_is_trained_online.
  destruct (a_trainable (w_obj w n) && a_has_backward (w_obj w n) || a_trainable (w_obj w n) && a_has_train (w_obj w n)); [|reflexivity].
  destruct v; reflexivity.
Qed.

(* get_buffer: the array stored under the name, AttributeError when there is none; nothing is written *)
Lemma gen_get_buffer n name (w : wd) :
  g_get_buffer n name w = match dict_get (a_buffers (w_obj w n)) name with Some v => (w, Ok v) | None => (w, Exc AttributeError) end.
Proof.
  unfold GenFit.Node_get_buffer, bind, rd, ret, raise, dict_item.
  destruct (dict_get (a_buffers (w_obj w n)) name) eqn:E; cbn; rewrite ?E; reflexivity.
Qed.

(* clean_buffers: `_buffers` is the empty dict; `_X` and `_Y` are ONE new, empty list object; nothing else changes; it cannot raise *)
Definition clean_post (n : nat) (w w' : wd) : Prop :=
  w_next w' = S (w_next w) /\
  (forall k, k <> n -> w_obj w' k = w_obj w k) /\
  w_obj w' n = set_Y (set_X (FitPrelude.set_buffers (w_obj w n) []) (w_next w)) (w_next w) /\
  (forall r, w_list w' r = if Nat.eqb r (w_next w) then [] else w_list w r).

Lemma gen_clean_buffers n (w : wd) : exists w', g_clean n w = (w', Ok tt) /\ clean_post n w w'.
Proof.
  unfold GenFit.Node_clean_buffers, bind, rd, ret, wr_buffers, py_clean_tempfile, new_list, wr_X, wr_Y, dict_len, dict_empty, wupd.
  destruct (a_buffers (w_obj w n)) as [|b l] eqn:E; cbn [length Nat.ltb Nat.leb w_obj w_list w_next].
  - eexists; split; [reflexivity|]. unfold clean_post; cbn [w_obj w_list w_next].
    repeat split; intros; rewrite ?oupd_same, ?oupd_other by assumption; try reflexivity.
    destruct (w_obj w n); cbn in *; subst; reflexivity.
  - eexists; split; [reflexivity|]. unfold clean_post; cbn [w_obj w_list w_next].
    repeat split; intros; rewrite ?oupd_same, ?oupd_other by assumption; reflexivity.
Qed.

(* no session data on node n: no buffer, nothing under `_X`, and `_Y` is the same object *)
Definition session_clean_w (n : nat) (w : wd) : Prop :=
  a_buffers (w_obj w n) = [] /\ w_list w (a_X (w_obj w n)) = [] /\ a_Y (w_obj w n) = a_X (w_obj w n).

Lemma clean_post_clean n w w' : clean_post n w w' -> session_clean_w n w'.
Proof.
  intros (_ & _ & Ho & Hl). unfold session_clean_w. rewrite Ho, Hl. cbn. rewrite Nat.eqb_refl. auto.
Qed.

(* ------------------------------------------------------------------------------------------------ fit ends clean, whatever the callbacks do *)
Definition ends_clean {A} (n : nat) (m : M wd A) : Prop := forall w, session_clean_w n (fst (m w)).
Definition exc_clean {A} (n : nat) (m : M wd A) : Prop := forall w w' e, m w = (w', Exc e) -> session_clean_w n w'.

Lemma ends_clean_cl n : ends_clean n (bind (g_clean n) (fun _ => ret tt)).
Proof.
  intros w. destruct (gen_clean_buffers n w) as (w' & E & Hp). unfold bind. rewrite E. cbn. eapply clean_post_clean; eauto.
Qed.

Lemma ends_clean_bind {A C} n (m : M wd A) (k : A -> M wd C) : exc_clean n m -> (forall a, ends_clean n (k a)) -> ends_clean n (bind m k).
Proof.
  intros Hm Hk w. unfold bind. destruct (m w) as [w1 [a|e]] eqn:E; [apply Hk|]. cbn. eapply Hm; eauto.
Qed.

(* `try: body except Exception: clean_buffers(); raise`: when it raises, the node is clean -- for EVERY body *)
Lemma exc_clean_try {A} n (body : M wd A) : exc_clean n (try_except_reraise body (bind (g_clean n) (fun _ => ret tt))).
Proof.
  intros w w' e. unfold try_except_reraise. destruct (body w) as [w1 [a|e1]]; [discriminate|].
  pose proof (ends_clean_cl n w1) as Hc. destruct (bind (g_clean n) (fun _ => ret tt) w1) as [w2 [u|e2]]; cbn in Hc; intros E; inversion E; subst; exact Hc.
Qed.

Lemma exc_clean_never {A} n (m : M wd A) : (forall w, exists w' a, m w = (w', Ok a)) -> exc_clean n m.
Proof. intros Hm w w' e E. destruct (Hm w) as (w1 & a & E1). rewrite E1 in E. discriminate. Qed.

(* the tail of fit: try: _backward(..) except: clean; raise -- _fitted = True -- clean_buffers() *)
Lemma tail_ends_clean n (bk : M wd unit) :
  ends_clean n (bind (try_except_reraise bk (bind (g_clean n) (fun _ => ret tt))) (fun _ =>
                bind (wr_fitted n true) (fun _ => bind (g_clean n) (fun _ => ret tt)))).
Proof.
  apply ends_clean_bind; [apply exc_clean_try|]. intros _. apply ends_clean_bind; [|intros _; apply ends_clean_cl].
  apply exc_clean_never. intros w. eexists _, _. reflexivity.
Qed.

Theorem gen_fit_ends_clean n X Y warmup (w : wd) :
  a_trainable (w_obj w n) && a_has_backward (w_obj w n) = true ->
  (X = None -> a_is_initialized (w_obj w n) = true) ->
  session_clean_w n (fst (g_fit n X Y warmup w)).
Proof.
  intros Hoff Hini. unfold GenFit.Node_fit. unfold bind at 1. rewrite gen_is_trained_offline, Hoff. cbn [negb].
  unfold bind at 1. unfold wr_fitted at 1.
  destruct X as [X|].
  - unfold bind at 1. unfold rd at 1. destruct (a_has_partial_backward _).
    + apply ends_clean_bind; [apply exc_clean_try|]. intros _. apply tail_ends_clean.
    + apply tail_ends_clean.
  - unfold bind at 1. unfold rd at 1. cbn [w_obj wupd]. rewrite oupd_same.
    replace (a_is_initialized (FitPrelude.set_fitted (w_obj w n) false)) with true by (symmetry; apply Hini; reflexivity).
    cbn [negb]. apply tail_ends_clean.
Qed.

End WorldLevel.

(* ================================================================================================ Part 2: against model/TrainSem.v *)
(* what a node keeps outside the attributes of FitPrelude.obj, in TrainSem's terms *)
Record nparams (P0 L St : Type) := mkNP { np_kind : kind; np_fixed : P0; np_learned : L; np_state : St }.
Arguments mkNP {P0 L St}. Arguments np_kind {P0 L St}. Arguments np_fixed {P0 L St}. Arguments np_learned {P0 L St}. Arguments np_state {P0 L St}.

Section TrainSemLevel.
Context {P0 L St Row BufT Dat KW : Type}.
Notation B := (list Row).
Notation D := (B * option B)%type.
(* TrainSem's buffer contents: the `_buffers` dict when it is NOT empty (None = {}) *)
Notation A := ((nat * BufT) * list (nat * BufT))%type.
Notation PP := (nparams P0 L St).
Notation wd := (@world PP Row BufT).
Notation obj := (@FitPrelude.obj PP BufT).
Notation node := (TrainSem.node P0 L St Row A).
Variable acc0 : P0 -> A.
Variable acc_step : P0 -> A -> B -> option B -> A.
Variable bk_buf : P0 -> A -> option L.
Variable bk_def : P0 -> list B -> list B -> option L.
Variable cb_check_xy : nat -> Dat -> option Dat -> M wd (Dat * option Dat).
Variable cb_init : nat -> Dat -> option Dat -> M wd (list B * option (list (option B))).
Variable kw_empty : KW.

Definition to_dict (a : A) : list (nat * BufT) := fst a :: snd a.
Definition abs_buf (d : list (nat * BufT)) : option A := match d with [] => None | h :: t => Some (h, t) end.
Lemma abs_to_dict a : abs_buf (to_dict a) = Some a.
Proof. destruct a; reflexivity. Qed.

(* ---- the abstraction: node n of the world as a TrainSem node record; `_X is _Y` is the equality of the two references *)
Definition view (w : wd) (n : nat) : node :=
  let o := w_obj w n in
  mkNode (np_kind (a_params o)) (np_fixed (a_params o)) (np_learned (a_params o)) (np_state (a_params o))
         (a_trainable o) (a_fitted o) (abs_buf (a_buffers o)) (w_list w (a_X o)) (w_list w (a_Y o)) (Nat.eqb (a_X o) (a_Y o)).

(* the node object is consistent with its class (Node.__init__ of a KBuf / KDef / KPlain / KOnline node) *)
Definition is_kbuf (k : kind) : bool := match k with KBuf => true | _ => false end.
Definition wf (w : wd) (n : nat) : Prop :=
  let o := w_obj w n in
  a_has_backward o = has_offline (np_kind (a_params o)) /\ a_has_buffers_initializer o = is_kbuf (np_kind (a_params o)) /\
  a_has_partial_backward o = true.

(* ---- the callbacks TrainSem assumes *)
(* buffers_initializer of a buffered rule: creates the (non-empty) set of buffers acc0 *)
Definition i_binit (n : nat) : M wd unit := fun w => wr_buffers n (to_dict (acc0 (np_fixed (a_params (w_obj w n))))) w.
(* _partial_backward: a buffered rule rewrites its buffers (with no buffer it has nothing to do -- never reached: partial_fit has just run
   the initialiser); every other node has the default rule, i.e. the GENERATED _partial_backward_default *)
Definition i_pb (n : nat) (x : B) (y : option B) (_ : KW) : M wd unit :=
  fun w => let o := w_obj w n in
           match np_kind (a_params o) with
           | KBuf => match abs_buf (a_buffers o) with
                     | Some a => wr_buffers n (to_dict (acc_step (np_fixed (a_params o)) a x y)) w
                     | None => (w, Ok tt)
                     end
           | _ => @GenFit.partial_backward_default PP Row BufT n x y w
           end.
Definition set_learned_o (o : obj) (l : L) : obj :=
  mkObj (a_trainable o) (a_has_backward o) (a_has_train o) (a_has_partial_backward o) (a_has_buffers_initializer o) (a_is_initialized o)
        (a_fitted o) (a_buffers o) (a_X o) (a_Y o) (mkNP (np_kind (a_params o)) (np_fixed (a_params o)) l (np_state (a_params o))).
(* _backward(node, X, Y) on the two list objects it is handed: sets the learned side, or raises (Raised 0) and writes nothing *)
Definition i_bk (n rx ry : nat) : M wd unit :=
  fun w => let o := w_obj w n in
           match match np_kind (a_params o) with
                 | KBuf => match abs_buf (a_buffers o) with Some a => bk_buf (np_fixed (a_params o)) a | None => None end
                 | KDef => bk_def (np_fixed (a_params o)) (w_list w rx) (w_list w ry)
                 | _ => None
                 end with
           | Some l => (wupd w n (set_learned_o o l), Ok tt)
           | None => (w, Exc (Raised 0))
           end.

Notation g_init := (@GenFit.Node_initialize_buffers PP Row BufT i_binit).
Notation g_clean := (@GenFit.Node_clean_buffers PP Row BufT).
Notation g_pbd := (@GenFit.partial_backward_default PP Row BufT).
Notation g_partial_fit := (@GenFit.Node_partial_fit PP Row BufT Dat KW cb_check_xy cb_init i_binit i_pb).
Notation g_fit := (@GenFit.Node_fit PP Row BufT Dat KW cb_check_xy cb_init i_binit i_pb i_bk kw_empty).
Notation m_init := (TrainSem.init_buffers acc0).
Notation m_pb := (TrainSem.partial_backward acc_step).
Notation m_pf_loop := (TrainSem.pf_loop acc_step).
Notation m_partial_fit := (TrainSem.partial_fit acc0 acc_step).
Notation m_fit := (TrainSem.fit acc0 acc_step bk_buf bk_def).

(* how an outcome of the generated code reads in TrainSem: TypeError = no offline rule, ValueError = a sequence not longer than the
   warm-up, (Raised _) = the learning rule raised *)
Definition abs_out {T} (r : FitPrelude.outcome T) : TrainSem.outcome :=
  match r with
  | Ok _ => Done
  | Exc ValueError => FailedPartial
  | Exc (Raised _) => FailedBackward
  | Exc _ => Rejected
  end.

(* ------------------------------------------------------------------------------------------------ clean_buffers, initialize_buffers *)
Theorem gen_clean_buffers_view n (w : wd) :
  exists w', g_clean n w = (w', Ok tt) /\ view w' n = TrainSem.clean_buffers (view w n) /\ (wf w n -> wf w' n) /\
             a_is_initialized (w_obj w' n) = a_is_initialized (w_obj w n).
Proof.
  destruct (gen_clean_buffers n w) as (w' & E & (_ & _ & Ho & Hl)). exists w'. split; [exact E|].
  unfold view, wf, TrainSem.clean_buffers, TrainSem.set_xy, TrainSem.set_buffers. rewrite Ho. cbn. rewrite !Hl, Nat.eqb_refl. auto.
Qed.

Lemma view_wupd n (w : wd) (o : obj) :
  view (wupd w n o) n =
  mkNode (np_kind (a_params o)) (np_fixed (a_params o)) (np_learned (a_params o)) (np_state (a_params o))
         (a_trainable o) (a_fitted o) (abs_buf (a_buffers o)) (w_list w (a_X o)) (w_list w (a_Y o)) (Nat.eqb (a_X o) (a_Y o)).
Proof. unfold view. cbn [w_obj w_list wupd]. rewrite oupd_same. reflexivity. Qed.
Lemma wf_wupd n (w : wd) (o : obj) :
  a_has_backward o = a_has_backward (w_obj w n) -> a_has_buffers_initializer o = a_has_buffers_initializer (w_obj w n) ->
  a_has_partial_backward o = a_has_partial_backward (w_obj w n) -> np_kind (a_params o) = np_kind (a_params (w_obj w n)) ->
  wf w n -> wf (wupd w n o) n.
Proof. unfold wf. cbn [w_obj wupd]. rewrite oupd_same. intros -> -> -> ->. auto. Qed.

Lemma m_init_view n (w : wd) :
  m_init (view w n) = match np_kind (a_params (w_obj w n)), a_buffers (w_obj w n) with
                      | KBuf, [] => TrainSem.set_buffers (Some (acc0 (np_fixed (a_params (w_obj w n))))) (view w n)
                      | _, _ => view w n
                      end.
Proof.
  unfold TrainSem.init_buffers, view. cbn [n_kind n_buffers n_fixed].
  destruct (np_kind (a_params (w_obj w n))); destruct (a_buffers (w_obj w n)); reflexivity.
Qed.

Theorem gen_initialize_buffers_view n (w : wd) :
  wf w n ->
  exists w', g_init n w = (w', Ok tt) /\ view w' n = m_init (view w n) /\ wf w' n.
Proof.
  intros Hwf. pose proof Hwf as (Hb & Hi & Hp). rewrite m_init_view. unfold GenFit.Node_initialize_buffers.
  unfold bind at 1. unfold rd at 1. rewrite Hi.
  destruct (np_kind (a_params (w_obj w n))) eqn:Ek; cbn [is_kbuf]; try (exists w; split; [reflexivity|split; [reflexivity|exact Hwf]]).
  unfold bind at 1. unfold rd at 1. unfold dict_len.
  destruct (a_buffers (w_obj w n)) as [|b l] eqn:Eb; cbn [length Nat.eqb abs_buf]; [|exists w; split; [reflexivity|split; [reflexivity|exact Hwf]]].
  unfold bind at 1. unfold rd at 1. rewrite Hi. cbn [is_kbuf py_call_attr].
  unfold bind, i_binit, wr_buffers, ret.
  eexists. split; [reflexivity|]. split.
  - rewrite view_wupd. unfold view, TrainSem.set_buffers. cbn. destruct (acc0 _). rewrite Ek. reflexivity.
  - apply wf_wupd; auto.
Qed.

(* ------------------------------------------------------------------------------------------------ the is_trainable setter *)
Definition wf_train (w : wd) (n : nat) : Prop := a_has_train (w_obj w n) = has_online (np_kind (a_params (w_obj w n))).

(* node.is_trainable = b is TrainSem's set_trainable (the OFreeze operation): a frozen node stays frozen *)
Theorem gen_set_is_trainable_view n (b : bool) (w : wd) :
  wf w n -> wf_train w n ->
  let r := @GenFit.Node_set_is_trainable PP Row BufT n (Some b) w in
  snd r = Ok tt /\ view (fst r) n = TrainSem.set_trainable b (view w n) /\ wf (fst r) n /\ wf_train (fst r) n.
Proof.
  intros Hwf Ht. pose proof Hwf as (Hb & _). cbn zeta. rewrite gen_set_is_trainable.
  unfold TrainSem.set_trainable, is_trained_offline, is_trained_online, view. cbn [n_trainable n_kind]. rewrite Hb, Ht.
  destruct (a_trainable (w_obj w n) && has_offline (np_kind (a_params (w_obj w n)))
            || a_trainable (w_obj w n) && has_online (np_kind (a_params (w_obj w n)))).
  - cbn [fst snd]. split; [reflexivity|]. split; [|split].
    + cbn [w_obj w_list wupd]. rewrite oupd_same. reflexivity.
    + apply wf_wupd; auto.
    + unfold wf_train. cbn [w_obj wupd]. rewrite oupd_same. exact Ht.
  - cbn [fst snd]. auto.
Qed.
(* ... and anything that is not exactly a bool is refused with TypeError, nothing written (when the node is trainable; ignored otherwise) *)
Theorem gen_set_is_trainable_not_bool n (w : wd) :
  fst (@GenFit.Node_set_is_trainable PP Row BufT n None w) = w.
Proof. rewrite gen_set_is_trainable. destruct (_ || _); reflexivity. Qed.

(* ------------------------------------------------------------------------------------------------ _partial_backward_default *)
(* the generated default rule appends to the list OBJECTS: when `_X is _Y` both appends land in the one list (TrainSem's aliased
   branch, the open finding refit:XY-aliased-default-buffers), otherwise each list gets its own *)
Theorem gen_partial_backward_default_view n x y (w : wd) :
  exists w', g_pbd n x y w = (w', Ok tt) /\ w_obj w' = w_obj w /\
    view w' n = (if Nat.eqb (a_X (w_obj w n)) (a_Y (w_obj w n))
                 then let l := n_X (view w n) ++ [x] ++ opt_list y in TrainSem.set_xy l l true (view w n)
                 else TrainSem.set_xy (n_X (view w n) ++ [x]) (n_Y (view w n) ++ opt_list y) false (view w n)).
Proof.
  unfold GenFit.partial_backward_default, bind, rd, ret, list_append.
  destruct y as [y|]; cbn [w_obj w_list w_next]; (eexists; split; [reflexivity|]; split; [reflexivity|]);
    unfold view, TrainSem.set_xy; cbn [w_obj w_list w_next n_kind n_fixed n_learned n_state n_trainable n_fitted n_buffers n_X n_Y opt_list];
    destruct (Nat.eqb_spec (a_X (w_obj w n)) (a_Y (w_obj w n))) as [E|E].
  - rewrite <- E, !Nat.eqb_refl. cbn zeta. rewrite <- app_assoc. reflexivity.
  - rewrite !Nat.eqb_refl. destruct (Nat.eqb_spec (a_X (w_obj w n)) (a_Y (w_obj w n))); [contradiction|].
    destruct (Nat.eqb_spec (a_Y (w_obj w n)) (a_X (w_obj w n))); [congruence|]. reflexivity.
  - rewrite <- E, !Nat.eqb_refl. cbn zeta. rewrite app_nil_r. reflexivity.
  - rewrite !Nat.eqb_refl. destruct (Nat.eqb_spec (a_Y (w_obj w n)) (a_X (w_obj w n))); [congruence|]. rewrite app_nil_r. reflexivity.
Qed.

Lemma wf_same_obj (w w' : wd) n : w_obj w' = w_obj w -> wf w n -> wf w' n.
Proof. unfold wf. intros ->. auto. Qed.

(* the callback TrainSem assumes for `_partial_backward` is TrainSem's partial_backward *)
Lemma i_pb_view n x y kw (w : wd) :
  exists w', i_pb n x y kw w = (w', Ok tt) /\ view w' n = m_pb (view w n) x y /\ (wf w n -> wf w' n).
Proof.
  unfold i_pb, TrainSem.partial_backward. unfold view at 2. cbn [n_kind n_aliased].
  destruct (np_kind (a_params (w_obj w n))) eqn:Ek.
  1,3,4: destruct (gen_partial_backward_default_view n x y w) as (w' & E & Ho & Hv); exists w'; split; [exact E|]; split;
    [exact Hv|apply wf_same_obj; exact Ho].
  unfold view at 2 3 4. cbn [n_buffers n_fixed].
  destruct (a_buffers (w_obj w n)) as [|b l] eqn:Eb; cbn [abs_buf option_map].
  - exists w. split; [reflexivity|]. split; [|auto]. unfold view, TrainSem.set_buffers. cbn. rewrite Eb. reflexivity.
  - unfold wr_buffers. eexists. split; [reflexivity|]. split.
    + rewrite view_wupd. unfold FitPrelude.set_buffers. cbn [a_params a_trainable a_fitted a_buffers a_X a_Y]. rewrite abs_to_dict.
      unfold TrainSem.set_buffers, view. cbn. rewrite Ek. reflexivity.
    + apply wf_wupd; reflexivity.
Qed.

(* ------------------------------------------------------------------------------------------------ the loop of partial_fit *)
(* a loop over range(len(X)) whose body does on sequence i what TrainSem's pstep does is pf_loop: the sequences before the first
   rejected one have been accumulated, the rejected one and the later ones have not *)
Lemma loop_eq n warmup (body : nat -> M wd unit) (seqs : list D) :
  (forall i d w, nth_error seqs i = Some d -> wf w n ->
     match TrainSem.pstep acc_step warmup (view w n) d with
     | Some n' => exists w', body i w = (w', Ok tt) /\ view w' n = n' /\ wf w' n
     | None => body i w = (w, Exc ValueError)
     end) ->
  forall rest done w, seqs = done ++ rest -> wf w n ->
  let r := py_for (seq (length done) (length rest)) body w in
  let m := m_pf_loop warmup (view w n) rest in
  view (fst r) n = fst m /\ snd r = (if snd m then Ok tt else Exc ValueError) /\ wf (fst r) n.
Proof.
  intros Hbody. induction rest as [|d rest IH]; intros done w Hs Hwf; cbn zeta.
  - cbn. auto.
  - cbn [length seq py_for TrainSem.pf_loop].
    assert (Hn : nth_error seqs (length done) = Some d).
    { rewrite Hs, nth_error_app2, Nat.sub_diag by lia. reflexivity. }
    specialize (Hbody _ _ w Hn Hwf). unfold bind.
    destruct (TrainSem.pstep acc_step warmup (view w n) d) as [n'|].
    + destruct Hbody as (w' & E & Hv & Hwf'). rewrite E.
      specialize (IH (done ++ [d]) w'). rewrite app_length in IH. cbn [length] in IH. rewrite Nat.add_1_r in IH.
      rewrite <- Hv. apply IH; [rewrite <- app_assoc; exact Hs|exact Hwf'].
    + rewrite Hbody. cbn. auto.
Qed.

Lemma bind_index {T C : Type} (l : list T) i x (k : T -> M wd C) (w : wd) :
  nth_error l i = Some x -> bind (py_index l i) k w = k x w.
Proof. intros E. unfold bind, py_index. rewrite E. reflexivity. Qed.

(* check_xy and _init_with_sequences accept the data and split it into the per-sequence (inputs, targets) pairs [seqs] without touching
   the world (the node is initialised; rejections are C12's subject) *)
Definition accepts (n : nat) (X : Dat) (Y : option Dat) (seqs : list D) : Prop :=
  exists X' Y', (forall w, cb_check_xy n X Y w = (w, Ok (X', Y'))) /\
                (forall w, cb_init n X' Y' w = (w, Ok (map fst seqs, Some (map snd seqs)))).

Lemma offline_view n (w : wd) : wf w n -> is_trained_offline (view w n) = a_trainable (w_obj w n) && a_has_backward (w_obj w n).
Proof. intros (Hb & _). unfold is_trained_offline, view. cbn. rewrite Hb. reflexivity. Qed.

(* ------------------------------------------------------------------------------------------------ partial_fit *)
Theorem gen_partial_fit_eq n X Y warmup kw seqs (w : wd) :
  wf w n -> accepts n X Y seqs ->
  let r := g_partial_fit n X Y warmup kw w in
  (view (fst r) n, abs_out (snd r)) = m_partial_fit warmup (view w n) seqs /\ wf (fst r) n.
Proof.
  intros Hwf (X' & Y' & Hc & Hi). cbn zeta. unfold TrainSem.partial_fit. rewrite (offline_view n w Hwf).
  destruct (g_partial_fit n X Y warmup kw w) as [wr rr] eqn:Er. cbn [fst snd]. revert Er.
  unfold GenFit.Node_partial_fit. unfold bind at 1. rewrite gen_is_trained_offline.
  destruct (a_trainable (w_obj w n) && a_has_backward (w_obj w n)); cbn [negb];
    [|intros Er; inversion Er; subst; split; [reflexivity|exact Hwf]].
  unfold bind at 1. rewrite Hc. unfold bind at 1. rewrite Hi.
  destruct (gen_initialize_buffers_view n w Hwf) as (w1 & E1 & Hv1 & Hwf1).
  unfold bind at 1. rewrite E1. rewrite map_length.
  match goal with |- context [py_for _ ?b] => pose proof (loop_eq n warmup b seqs) as Hl end.
  cbn zeta in Hl. specialize (fun H => Hl H seqs [] w1 eq_refl Hwf1). cbn [length] in Hl.
  rewrite <- Hv1. unfold bind at 1.
  match goal with |- context [py_for ?l ?b ?x] => destruct (py_for l b x) as [w2 r2] eqn:E2 end.
  destruct (m_pf_loop warmup (view w1 n) seqs) as [n' ok] eqn:Em. cbn [fst snd] in Hl.
  lapply Hl; [clear Hl; intros (Hv2 & Hr2 & Hwf2)|clear Hl].
  - subst r2. rewrite <- Hv2. destruct ok; intros Er; inversion Er; subst wr rr; (split; [reflexivity|exact Hwf2]).
  - (* the body of the loop is pstep *)
    clear E2. intros i d w0 Hd Hwf0. pose proof Hwf0 as (_ & _ & Hp0).
    rewrite (bind_index _ _ _ _ w0 (map_nth_error fst _ _ Hd)). rewrite (bind_index _ _ _ _ w0 (map_nth_error snd _ _ Hd)).
    unfold TrainSem.pstep, py_shape0. destruct (length (fst d) <=? warmup); [reflexivity|].
    destruct (snd d) as [y|]; cbn [option_map]; unfold bind at 1; unfold rd at 1; rewrite Hp0; cbn [py_call_attr]; unfold py_slice_from.
    + destruct (i_pb_view n (skipn warmup (fst d)) (Some (skipn warmup y)) kw w0) as (w' & E & Hv & Hw).
      exists w'. unfold bind. rewrite E. auto.
    + destruct (i_pb_view n (skipn warmup (fst d)) None kw w0) as (w' & E & Hv & Hw).
      exists w'. unfold bind. rewrite E. auto.
Qed.

(* ------------------------------------------------------------------------------------------------ the tail of fit *)
Lemma i_bk_backward n (w : wd) :
  i_bk n (a_X (w_obj w n)) (a_Y (w_obj w n)) w =
  match TrainSem.backward bk_buf bk_def (view w n) with
  | Some l => (wupd w n (set_learned_o (w_obj w n) l), Ok tt)
  | None => (w, Exc (Raised 0))
  end.
Proof.
  unfold i_bk, TrainSem.backward, view. cbn [n_kind n_buffers n_fixed n_X n_Y].
  destruct (np_kind (a_params (w_obj w n))); try reflexivity.
Qed.

(* try: self._backward(self, self._X, self._Y) except Exception: clean_buffers(); raise -- self._fitted = True -- clean_buffers()
   is TrainSem's [finish] with the clean-up of HEAD *)
Lemma tail_eq n (w wr : wd) rr :
  wf w n -> is_trained_offline (view w n) = true ->
  bind (try_except_reraise
          (bind (rd a_has_backward n) (fun t => bind (rd a_X n) (fun rx => bind (rd a_Y n) (fun ry =>
           bind (py_call_attr t (i_bk n rx ry)) (fun _ => ret tt)))))
          (bind (g_clean n) (fun _ => ret tt)))
       (fun _ => bind (wr_fitted n true) (fun _ => bind (g_clean n) (fun _ => ret tt))) w = (wr, rr) ->
  (view wr n, abs_out rr) = TrainSem.finish bk_buf bk_def HEAD (view w n) /\ wf wr n.
Proof.
  intros Hwf Hoff. pose proof Hwf as (Hb & _).
  assert (Hbt : a_has_backward (w_obj w n) = true).
  { rewrite Hb. unfold is_trained_offline in Hoff. apply andb_prop in Hoff. exact (proj2 Hoff). }
  unfold TrainSem.finish. cbn [cl_bk HEAD].
  unfold bind at 1. unfold try_except_reraise. unfold bind at 1. unfold rd at 1. rewrite Hbt.
  unfold bind at 1. unfold rd at 1. unfold bind at 1. unfold rd at 1. cbn [py_call_attr].
  unfold bind at 1. rewrite i_bk_backward.
  destruct (TrainSem.backward bk_buf bk_def (view w n)) as [l|].
  - unfold ret at 1. unfold bind at 1. unfold wr_fitted.
    match goal with |- context [bind (g_clean n) _ ?x] => set (w2 := x) end.
    destruct (gen_clean_buffers_view n w2) as (w3 & E3 & Hv3 & Hw3 & _).
    unfold bind, ret. rewrite E3. intros Er; inversion Er; subst wr rr. cbn [abs_out]. rewrite Hv3.
    assert (Hw2 : wf w2 n).
    { unfold w2. apply wf_wupd; try reflexivity. apply wf_wupd; try reflexivity. exact Hwf. }
    split; [|auto]. f_equal. f_equal. unfold w2. rewrite view_wupd. cbn [w_obj w_list wupd]. rewrite oupd_same.
    unfold view, TrainSem.set_fitted, TrainSem.set_learned. reflexivity.
  - destruct (gen_clean_buffers_view n w) as (w3 & E3 & Hv3 & Hw3 & _).
    unfold bind at 1. rewrite E3. unfold ret. intros Er; inversion Er; subst wr rr. cbn [abs_out]. rewrite Hv3. auto.
Qed.

Lemma view_set_fitted n (w : wd) b :
  view (wupd w n (FitPrelude.set_fitted (w_obj w n) b)) n = TrainSem.set_fitted b (view w n) /\
  (wf w n -> wf (wupd w n (FitPrelude.set_fitted (w_obj w n) b)) n).
Proof. split; [rewrite view_wupd; reflexivity|apply wf_wupd; reflexivity]. Qed.

(* ------------------------------------------------------------------------------------------------ fit *)
(* fit(X, Y, warmup): for all data, every warm-up and every failure point the generated fit is TrainSem's fit under HEAD's clean-ups *)
Theorem gen_fit_eq n X Y warmup seqs (w : wd) :
  wf w n -> accepts n X Y seqs ->
  let r := g_fit n (Some X) Y warmup w in
  (view (fst r) n, abs_out (snd r)) = m_fit HEAD warmup (view w n) (Some seqs) /\ wf (fst r) n.
Proof.
  intros Hwf Hacc. cbn zeta. unfold TrainSem.fit. pose proof (offline_view n w Hwf) as Hov.
  destruct (g_fit n (Some X) Y warmup w) as [wr rr] eqn:Er. cbn [fst snd]. revert Er.
  unfold GenFit.Node_fit. unfold bind at 1. rewrite gen_is_trained_offline. rewrite <- Hov.
  destruct (is_trained_offline (view w n)) eqn:Hoff; cbn [negb];
    [|intros Er; inversion Er; subst; split; [reflexivity|exact Hwf]].
  unfold bind at 1. unfold wr_fitted at 1.
  destruct (view_set_fitted n w false) as (Hv0 & Hw0). specialize (Hw0 Hwf).
  set (w0 := wupd w n (FitPrelude.set_fitted (w_obj w n) false)) in *.
  unfold bind at 1. unfold rd at 1. replace (a_has_partial_backward (w_obj w0 n)) with true by (symmetry; apply Hw0).
  pose proof (gen_partial_fit_eq n X Y warmup kw_empty seqs w0 Hw0 Hacc) as Hpf. cbn zeta in Hpf.
  unfold TrainSem.partial_fit in Hpf. rewrite Hv0 in Hpf.
  assert (Hoff0 : is_trained_offline (TrainSem.set_fitted false (view w n)) = true) by exact Hoff.
  rewrite Hoff0 in Hpf. rewrite <- Hv0.
  unfold bind at 1. unfold try_except_reraise at 1. unfold bind at 1.
  destruct (g_partial_fit n X Y warmup kw_empty w0) as [w1 r1] eqn:E1. cbn [fst snd] in Hpf. destruct Hpf as (Hpf & Hw1).
  rewrite Hv0 in *.
  destruct (m_pf_loop warmup (m_init (TrainSem.set_fitted false (view w n))) seqs) as [n1 ok] eqn:El.
  assert (Hoff1 : is_trained_offline n1 = true).
  { rewrite <- Hoff0. apply (pr_offline acc0 acc_step bk_buf bk_def (fun _ l s _ _ => (l, s)) (fun _ _ s _ => s)).
    apply (prl_pr acc0 acc_step bk_buf bk_def (fun _ l s _ _ => (l, s)) (fun _ _ s _ => s)).
    eapply (prl_trans acc0 acc_step bk_buf bk_def (fun _ l s _ _ => (l, s)) (fun _ _ s _ => s)).
    - apply (init_buffers_prl acc0 acc_step bk_buf bk_def (fun _ l s _ _ => (l, s)) (fun _ _ s _ => s)).
    - eapply (pf_loop_prl acc0 acc_step bk_buf bk_def (fun _ l s _ _ => (l, s)) (fun _ _ s _ => s)). exact El. }
  inversion Hpf as [[Hv1 Ho1]]. destruct r1 as [u|e].
  - (* partial_fit completed *)
    destruct ok; [|discriminate Ho1]. unfold ret at 1.
    intros Er. rewrite <- Hv1 in Hoff1. exact (tail_eq n w1 wr rr Hw1 Hoff1 Er).
  - (* partial_fit raised: clean_buffers(), the same exception again *)
    destruct ok; [destruct e; discriminate Ho1|].
    destruct (gen_clean_buffers_view n w1) as (w3 & E3 & Hv3 & Hw3 & _).
    unfold bind at 1. rewrite E3. unfold ret at 1.
    intros Er; inversion Er; subst wr rr. cbn [cl_pf_node HEAD]. rewrite Hv3, Hv1. split; [|auto].
    f_equal. exact Ho1.
Qed.

(* fit() without data, after partial_fit calls: only the tail *)
Theorem gen_fit_nodata_eq n Y warmup (w : wd) :
  wf w n -> a_is_initialized (w_obj w n) = true ->
  let r := g_fit n None Y warmup w in
  (view (fst r) n, abs_out (snd r)) = m_fit HEAD warmup (view w n) None /\ wf (fst r) n.
Proof.
  intros Hwf Hini. cbn zeta. unfold TrainSem.fit. pose proof (offline_view n w Hwf) as Hov.
  destruct (g_fit n None Y warmup w) as [wr rr] eqn:Er. cbn [fst snd]. revert Er.
  unfold GenFit.Node_fit. unfold bind at 1. rewrite gen_is_trained_offline. rewrite <- Hov.
  destruct (is_trained_offline (view w n)) eqn:Hoff; cbn [negb];
    [|intros Er; inversion Er; subst; split; [reflexivity|exact Hwf]].
  unfold bind at 1. unfold wr_fitted at 1.
  destruct (view_set_fitted n w false) as (Hv0 & Hw0). specialize (Hw0 Hwf).
  unfold bind at 1. unfold rd at 1. cbn [w_obj wupd]. rewrite oupd_same.
  replace (a_is_initialized (FitPrelude.set_fitted (w_obj w n) false)) with true by (symmetry; exact Hini). cbn [negb].
  intros Er. rewrite <- Hv0. apply (tail_eq n _ wr rr Hw0); [rewrite Hv0; exact Hoff|exact Er].
Qed.

(* ------------------------------------------------------------------------------------------------ the theorems of C11 on the generated code *)
Notation tf0 := (fun (_ : P0) (l : L) (s : St) (_ : B) (_ : option B) => (l, s)).
Notation fw0 := (fun (_ : P0) (_ : L) (s : St) (_ : B) => s).

(* every fit that got past the class test ends with no session data, `_X is _Y`; a failed one leaves the learned side as it was,
   a completed one is fitted *)
Theorem gen_fit_session_clean n X Y warmup seqs (w : wd) :
  wf w n -> accepts n X Y seqs ->
  let r := g_fit n (Some X) Y warmup w in
  abs_out (snd r) <> Rejected ->
  session_clean (view (fst r) n) /\ n_aliased (view (fst r) n) = true /\
  (abs_out (snd r) = Done -> n_fitted (view (fst r) n) = true) /\
  (abs_out (snd r) <> Done -> n_learned (view (fst r) n) = n_learned (view w n)).
Proof.
  intros Hwf Hacc. cbn zeta. destruct (gen_fit_eq n X Y warmup seqs w Hwf Hacc) as (E & _). symmetry in E. intros Hnr.
  destruct (abs_out (snd (g_fit n (Some X) Y warmup w))) eqn:Eo; try contradiction.
  - destruct (fit_completed_clean acc0 acc_step bk_buf bk_def tf0 fw0 _ _ _ _ _ E) as (Hc & Ha & Hf).
    repeat split; try apply Hc; auto. intros H; contradiction.
  - destruct (fit_failed_clean_HEAD acc0 acc_step bk_buf bk_def tf0 fw0 _ _ _ _ _ E (or_introl eq_refl)) as (Hc & Ha & Hl).
    repeat split; try apply Hc; auto. intros H; discriminate.
  - destruct (fit_failed_clean_HEAD acc0 acc_step bk_buf bk_def tf0 fw0 _ _ _ _ _ E (or_intror eq_refl)) as (Hc & Ha & Hl).
    repeat split; try apply Hc; auto. intros H; discriminate.
Qed.

(* session isolation on the generated code: after ANY two fits (any worlds, any data, completed or failed at any point), the next fit of
   the node on the same data ends the same way in both worlds and, when it completes, yields the same learned parameters *)
Theorem gen_session_isolated n (wa wb : wd) Xa Ya seqsa ua Xb Yb seqsb ub X Y seqs warmup :
  wf wa n -> wf wb n -> accepts n Xa Ya seqsa -> accepts n Xb Yb seqsb -> accepts n X Y seqs ->
  let ra := g_fit n (Some Xa) Ya ua wa in
  let rb := g_fit n (Some Xb) Yb ub wb in
  abs_out (snd ra) <> Rejected -> abs_out (snd rb) <> Rejected ->
  n_kind (view (fst ra) n) = n_kind (view (fst rb) n) -> n_fixed (view (fst ra) n) = n_fixed (view (fst rb) n) ->
  is_trained_offline (view (fst ra) n) = true -> is_trained_offline (view (fst rb) n) = true ->
  let sa := g_fit n (Some X) Y warmup (fst ra) in
  let sb := g_fit n (Some X) Y warmup (fst rb) in
  abs_out (snd sa) = abs_out (snd sb) /\
  (abs_out (snd sa) = Done -> n_learned (view (fst sa) n) = n_learned (view (fst sb) n)).
Proof.
  intros Hwa Hwb Haa Hab Hacc. cbn zeta. intros Hra Hrb Hk Hf Hoa Hob.
  destruct (gen_fit_session_clean n Xa Ya ua seqsa wa Hwa Haa Hra) as (Hca & Hala & _).
  destruct (gen_fit_session_clean n Xb Yb ub seqsb wb Hwb Hab Hrb) as (Hcb & Halb & _).
  destruct (gen_fit_eq n Xa Ya ua seqsa wa Hwa Haa) as (_ & Hwa').
  destruct (gen_fit_eq n Xb Yb ub seqsb wb Hwb Hab) as (_ & Hwb').
  destruct (gen_fit_eq n X Y warmup seqs _ Hwa' Hacc) as (Ea & _).
  destruct (gen_fit_eq n X Y warmup seqs _ Hwb' Hacc) as (Eb & _).
  pose proof (fit_function_of_data acc0 acc_step bk_buf bk_def tf0 fw0 HEAD warmup _ _ (Some seqs) Hk Hf) as Hfd.
  rewrite <- Ea, <- Eb in Hfd. cbn [fst snd] in Hfd. apply Hfd; auto.
  - unfold is_trained_offline in Hoa, Hob. apply andb_prop in Hoa, Hob. rewrite (proj1 Hoa), (proj1 Hob). reflexivity.
  - intros _. rewrite Hala, Halb. reflexivity.
Qed.

End TrainSemLevel.

(* ================================================================================================ non-vacuity (run by computation) *)
(* a default-buffer learner (class KDef: rows are numbers, `_backward` returns the concatenation of the two lists it is handed) in a
   world with one node; check_xy is the identity and _init_with_sequences splits a list of (inputs, targets) pairs *)
Definition ex_seq := (list nat * option (list nat))%type.
Definition ex_check (n : nat) (X : list ex_seq) (Y : option (list ex_seq)) : M (@world (nparams unit (list (list nat)) unit) nat nat) _ :=
  ret (X, Y).
Definition ex_split (n : nat) (X : list ex_seq) (Y : option (list ex_seq)) : M (@world (nparams unit (list (list nat)) unit) nat nat) _ :=
  ret (map fst X, Some (map snd X)).
Definition ex_world : @world (nparams unit (list (list nat)) unit) nat nat :=
  mkWorld (fun _ => mkObj true true false true false true false [] 0 1 (mkNP KDef tt [] tt)) (fun _ => []) 2.
Definition ex_fit (X : list ex_seq) (warmup : nat) :=
  @GenFit.Node_fit _ nat nat (list ex_seq) unit ex_check ex_split
    (i_binit (fun _ => ((0, 0), [])))
    (i_pb (fun _ a _ _ => a))
    (i_bk (fun _ _ => None) (fun _ xs ys => Some (xs ++ ys))) tt 0 (Some X) None warmup.

Lemma ex_accepts X : accepts ex_check ex_split 0 X None X.
Proof. exists X, None. split; reflexivity. Qed.
Lemma ex_wf : wf ex_world 0.
Proof. repeat split. Qed.

(* a first fit sees inputs and targets apart; it ends with `_X is _Y`, and the SECOND fit of the same data hands `_backward` the
   inputs and the targets mixed in one list under both names (the open finding refit:XY-aliased-default-buffers, here on the
   translated code) *)
Example ex_refit_mixes :
  let r1 := ex_fit [([1; 2], Some [3; 4])] 0 ex_world in
  let r2 := ex_fit [([1; 2], Some [3; 4])] 0 (fst r1) in
  snd r1 = Ok tt /\ np_learned (a_params (w_obj (fst r1) 0)) = [[1; 2]; [3; 4]] /\
  snd r2 = Ok tt /\ np_learned (a_params (w_obj (fst r2) 0)) = [[1; 2]; [3; 4]; [1; 2]; [3; 4]] /\
  session_clean_w 0 (fst r2).
Proof. vm_compute. repeat split. Qed.

(* a fit whose second sequence is not longer than the warm-up: ValueError leaves fit, the first sequence had been stored, and
   nothing of it is left *)
Example ex_failed_fit_clean :
  let r := ex_fit [([1; 2; 3], Some [4; 5; 6]); ([7], Some [8])] 1 ex_world in
  snd r = Exc ValueError /\ session_clean_w 0 (fst r) /\ a_fitted (w_obj (fst r) 0) = false.
Proof. vm_compute. repeat split. Qed.
