(* C13: proofs about model/MatGen.v — part 1: kwargs dictionaries, Initializer.__call__, heap purity, COO index structure
   of _random_degree.  No real numbers here (see MatGen_proofsR.v). *)
From Coq Require Import List Arith Bool Lia.
From Coq Require String FinFun.
From RV Require Import base.Num base.LA base.ListX model.MatGen.
Import ListNotations.
Import String.StringSyntax.
Delimit Scope string_scope with string.

(* ------------------------------------------------------------------------------------------ dictionaries *)
Section KwargsProofs.
Variable V : Type.
Variable is_none : V -> bool.
Notation key := String.string.
Notation kwargs := (kwargs V).

Lemma kw_update_cons (kw u : kwargs) (a : key) (b : V) : kw_update kw ((a, b) :: u) = kw_update (kw_set a b kw) u.
Proof. reflexivity. Qed.

Lemma keys_set (k a : key) (b : V) (kw : kwargs) :
  In k (keys (kw_set a b kw)) <-> k = a \/ In k (keys kw).
Proof.
  induction kw as [|[x y] r IH]; cbn.
  - intuition.
  - destruct (String.eqb a x) eqn:E; cbn.
    + apply String.eqb_eq in E. subst. intuition.
    + rewrite IH. intuition.
Qed.

Lemma keys_set_nodup (a : key) (b : V) (kw : kwargs) : NoDup (keys kw) -> NoDup (keys (kw_set a b kw)).
Proof.
  induction kw as [|[x y] r IH]; cbn; intros Hn.
  - constructor; [intros []|constructor].
  - inversion Hn as [|? ? Hx Hr]; subst.
    destruct (String.eqb a x) eqn:E; cbn.
    + apply String.eqb_eq in E. subst. constructor; assumption.
    + constructor; [|apply IH; assumption].
      intros Hin. apply keys_set in Hin. destruct Hin as [->|Hin]; [|contradiction].
      rewrite String.eqb_refl in E. discriminate.
Qed.

Lemma keys_update_nodup (u kw : kwargs) : NoDup (keys kw) -> NoDup (keys (kw_update kw u)).
Proof.
  revert kw. induction u as [|[a b] u IH]; intros kw Hn; [assumption|].
  rewrite kw_update_cons. apply IH. apply keys_set_nodup. assumption.
Qed.

Lemma keys_update (u kw : kwargs) (k : key) : In k (keys (kw_update kw u)) <-> In k (keys kw) \/ In k (keys u).
Proof.
  revert kw. induction u as [|[a b] u IH]; intros kw.
  - cbn. intuition.
  - rewrite kw_update_cons, IH, keys_set. cbn. intuition.
Qed.

Lemma kw_get_set (k a : key) (b : V) (kw : kwargs) :
  kw_get k (kw_set a b kw) = if String.eqb k a then Some b else kw_get k kw.
Proof.
  induction kw as [|[x y] r IH]; cbn.
  - reflexivity.
  - destruct (String.eqb a x) eqn:E; cbn.
    + apply String.eqb_eq in E. subst. destruct (String.eqb k x); reflexivity.
    + rewrite IH. destruct (String.eqb k x) eqn:E2; [|reflexivity].
      apply String.eqb_eq in E2. subst. rewrite String.eqb_sym, E. reflexivity.
Qed.

Lemma kw_get_notin (k : key) (kw : kwargs) : ~ In k (keys kw) -> kw_get k kw = None.
Proof.
  induction kw as [|[x y] r IH]; cbn; intros Hn; [reflexivity|].
  destruct (String.eqb k x) eqn:E.
  - apply String.eqb_eq in E. subst. exfalso. apply Hn. left. reflexivity.
  - apply IH. intros Hin. apply Hn. right. assumption.
Qed.

Lemma kw_get_in (k : key) (kw : kwargs) : In k (keys kw) -> exists v, kw_get k kw = Some v.
Proof.
  induction kw as [|[x y] r IH]; cbn; intros Hin; [contradiction|].
  destruct (String.eqb k x) eqn:E; [eexists; reflexivity|].
  destruct Hin as [->|Hin]; [rewrite String.eqb_refl in E; discriminate|]. apply IH. assumption.
Qed.

Lemma kw_del_notin (k : key) (kw : kwargs) : ~ In k (keys kw) -> kw_del k kw = kw.
Proof.
  induction kw as [|[x y] r IH]; cbn; intros Hn; [reflexivity|].
  destruct (String.eqb k x) eqn:E.
  - apply String.eqb_eq in E. subst. exfalso. apply Hn. left. reflexivity.
  - f_equal. apply IH. intros Hin. apply Hn. right. assumption.
Qed.

(* d.update(u) is "u overrides d": lookup goes to u first *)
Lemma kw_get_update (u kw : kwargs) (k : key) :
  NoDup (keys u) ->
  kw_get k (kw_update kw u) = match kw_get k u with Some v => Some v | None => kw_get k kw end.
Proof.
  revert kw. induction u as [|[a b] u IH]; intros kw Hn; [reflexivity|].
  inversion Hn as [|? ? Ha Hu]; subst.
  rewrite kw_update_cons, IH by assumption. rewrite kw_get_set. cbn [kw_get].
  destruct (String.eqb k a) eqn:E.
  - apply String.eqb_eq in E. subst. rewrite (kw_get_notin a u Ha). reflexivity.
  - reflexivity.
Qed.

Lemma kw_has_update (u kw : kwargs) (k : key) :
  NoDup (keys u) -> kw_has k (kw_update kw u) = kw_has k kw || kw_has k u.
Proof.
  intros Hn. unfold kw_has. rewrite kw_get_update by assumption.
  destruct (kw_get k u), (kw_get k kw); reflexivity.
Qed.

(* assignments to two different keys commute once the first key is present (its position is then fixed) *)
Lemma kw_set_comm (k a : key) (v b : V) (kw : kwargs) :
  k <> a -> In k (keys kw) -> kw_set k v (kw_set a b kw) = kw_set a b (kw_set k v kw).
Proof.
  intros Hne. induction kw as [|[x y] r IH]; cbn; intros Hin; [contradiction|].
  destruct (String.eqb k x) eqn:Ek; destruct (String.eqb a x) eqn:Ea; cbn; rewrite ?Ek, ?Ea.
  - apply String.eqb_eq in Ek, Ea. congruence.
  - apply String.eqb_eq in Ek. subst x.
    assert (E : String.eqb a k = false) by (apply String.eqb_neq; congruence). rewrite E. reflexivity.
  - apply String.eqb_eq in Ea. subst x.
    assert (E : String.eqb k a = false) by (apply String.eqb_neq; congruence). rewrite E. reflexivity.
  - f_equal. apply IH. destruct Hin as [->|Hin]; [rewrite String.eqb_refl in Ek; discriminate|assumption].
Qed.

Lemma kw_set_set (k : key) (v v' : V) (kw : kwargs) : kw_set k v (kw_set k v' kw) = kw_set k v kw.
Proof.
  induction kw as [|[x y] r IH]; cbn.
  - rewrite String.eqb_refl. reflexivity.
  - destruct (String.eqb k x) eqn:E; cbn.
    + rewrite String.eqb_refl. reflexivity.
    + rewrite E. f_equal. apply IH.
Qed.

Lemma kw_set_update_fresh (r : kwargs) : forall (kw : kwargs) (k : key) (v : V),
  In k (keys kw) -> ~ In k (keys r) -> kw_set k v (kw_update kw r) = kw_update (kw_set k v kw) r.
Proof.
  induction r as [|[a b] r IH]; intros kw k v Hin Hn; [reflexivity|].
  cbn in Hn. rewrite !kw_update_cons, IH.
  - f_equal. apply kw_set_comm; [intros ->; apply Hn; left; reflexivity|assumption].
  - apply keys_set. right. assumption.
  - intros H. apply Hn. right. assumption.
Qed.

Lemma kw_update_set (k1 : kwargs) : forall (kw0 : kwargs) (k : key) (v : V),
  NoDup (keys k1) -> kw_update kw0 (kw_set k v k1) = kw_set k v (kw_update kw0 k1).
Proof.
  induction k1 as [|[x y] r IH]; intros kw0 k v Hn; [reflexivity|].
  inversion Hn as [|? ? Hx Hr]; subst.
  cbn [kw_set]. destruct (String.eqb k x) eqn:E.
  - apply String.eqb_eq in E. subst x. rewrite !kw_update_cons.
    rewrite kw_set_update_fresh; [|apply keys_set; left; reflexivity|assumption].
    rewrite kw_set_set. reflexivity.
  - rewrite !kw_update_cons. apply IH. assumption.
Qed.

(* dict.update is associative:  (d + k1) + k2 = d + (k1 + k2), as ordered dictionaries *)
Lemma kw_update_assoc (k2 : kwargs) : forall (kw0 k1 : kwargs),
  NoDup (keys k1) -> kw_update kw0 (kw_update k1 k2) = kw_update (kw_update kw0 k1) k2.
Proof.
  induction k2 as [|[a b] k2 IH]; intros kw0 k1 Hn; [reflexivity|].
  rewrite !kw_update_cons, IH by (apply keys_set_nodup; assumption).
  f_equal. apply kw_update_set. assumption.
Qed.

Lemma kw_update_nonempty (u kw : kwargs) : kw <> [] -> kw_update kw u <> [].
Proof.
  revert kw. induction u as [|[a b] u IH]; intros kw Hk; [assumption|].
  rewrite kw_update_cons. apply IH. destruct kw as [|[x y] r]; cbn; [discriminate|]. destruct (String.eqb a x); discriminate.
Qed.

(* ------------------------------------------------------------------------------------------ __call__ *)
Definition no_deprecated (kw : kwargs) : Prop := forall k, In k deprecated_keys -> ~ In k (keys kw).

Lemma filter_deprecated_id (kw : kwargs) : no_deprecated kw -> filter_deprecated is_none kw = ([], kw).
Proof.
  intros Hd. unfold filter_deprecated.
  assert (H1 : ~ In "proba"%string (keys kw)) by (apply Hd; cbn; tauto).
  assert (H2 : ~ In "typefloat"%string (keys kw)) by (apply Hd; cbn; tauto).
  assert (H3 : ~ In "N"%string (keys kw)) by (apply Hd; cbn; tauto).
  assert (H4 : ~ In "dim_input"%string (keys kw)) by (apply Hd; cbn; tauto).
  rewrite (kw_get_notin _ _ H1), (kw_del_notin _ _ H1), (kw_get_notin _ _ H2), (kw_del_notin _ _ H2),
          (kw_get_notin _ _ H3), (kw_del_notin _ _ H3), (kw_get_notin _ _ H4), (kw_del_notin _ _ H4).
  reflexivity.
Qed.

Lemma no_deprecated_update (k1 k2 : kwargs) : no_deprecated k1 -> no_deprecated k2 -> no_deprecated (kw_update k1 k2).
Proof. intros H1 H2 k Hk Hin. apply keys_update in Hin. destruct Hin; [eapply H1|eapply H2]; eauto. Qed.

Lemma kw_get_some_in (k : key) (kw : kwargs) (v : V) : kw_get k kw = Some v -> In k (keys kw).
Proof.
  induction kw as [|[x y] r IH]; cbn; [discriminate|].
  destruct (String.eqb k x) eqn:E; [apply String.eqb_eq in E; auto|]. intros H. right. apply IH. exact H.
Qed.
Lemma kw_get_none_notin (k : key) (kw : kwargs) : kw_get k kw = None -> ~ In k (keys kw).
Proof. intros H Hin. destruct (kw_get_in k kw Hin) as [v E]. congruence. Qed.

(* a value that the update overrides anyway does not matter *)
Lemma kw_update_set_overridden (k2 : kwargs) : forall (X : kwargs) (k : key) (c : V),
  In k (keys X) -> In k (keys k2) -> kw_update (kw_set k c X) k2 = kw_update X k2.
Proof.
  induction k2 as [|[a b] k2 IH]; intros X k c HX H2; [contradiction|].
  rewrite !kw_update_cons. destruct (String.eqb a k) eqn:E.
  - apply String.eqb_eq in E. subst a. rewrite kw_set_set. reflexivity.
  - assert (Hne : a <> k) by (intros ->; rewrite String.eqb_refl in E; discriminate).
    destruct H2 as [H2|H2]; [cbn in H2; congruence|].
    rewrite <- kw_set_comm by (auto; congruence). apply IH; [apply keys_set; right; assumption|assumption].
Qed.

Lemma keep_seed_compose (kw0 k1 k2 : kwargs) :
  NoDup (keys k1) -> NoDup (keys k2) ->
  (forall v, kw_get "seed"%string k2 = Some v -> is_none v = false) ->
  let K1 := keep_seed is_none kw0 (kw_update kw0 k1) in
  keep_seed is_none K1 (kw_update K1 k2) = keep_seed is_none kw0 (kw_update kw0 (kw_update k1 k2)).
Proof.
  intros N1 N2 Hs K1. rewrite (kw_update_assoc k2 kw0 k1 N1). set (X := kw_update kw0 k1) in *.
  unfold keep_seed at 1 2. rewrite !kw_get_update by assumption.
  destruct (kw_get "seed"%string k2) as [v|] eqn:E2.
  - cbn [not_none]. rewrite (Hs v eq_refl).
    unfold K1, keep_seed. destruct (not_none is_none (kw_get "seed"%string X)) eqn:EX; [reflexivity|].
    destruct (not_none is_none (kw_get "seed"%string kw0)) as [c|] eqn:E0; [|reflexivity].
    apply kw_update_set_overridden; [|eapply kw_get_some_in; eassumption].
    apply keys_update. left. unfold not_none in E0. destruct (kw_get "seed"%string kw0) eqn:G; [|discriminate].
    eapply kw_get_some_in; eassumption.
  - destruct (not_none is_none (kw_get "seed"%string K1)) eqn:EK; [|].
    + unfold K1, keep_seed in *.
      destruct (not_none is_none (kw_get "seed"%string X)) eqn:EX; [reflexivity|].
      destruct (not_none is_none (kw_get "seed"%string kw0)) as [c|] eqn:E0; [|reflexivity].
      symmetry. apply kw_set_update_fresh; [|apply kw_get_none_notin; assumption].
      apply keys_update. left. unfold not_none in E0. destruct (kw_get "seed"%string kw0) eqn:G; [|discriminate].
      eapply kw_get_some_in; eassumption.
    + unfold K1, keep_seed in *.
      destruct (not_none is_none (kw_get "seed"%string X)) eqn:EX; [congruence|].
      destruct (not_none is_none (kw_get "seed"%string kw0)) as [c|] eqn:E0; [|reflexivity].
      symmetry. apply kw_set_update_fresh; [|apply kw_get_none_notin; assumption].
      apply keys_update. left. unfold not_none in E0. destruct (kw_get "seed"%string kw0) eqn:G; [|discriminate].
      eapply kw_get_some_in; eassumption.
Qed.

Lemma keep_seed_restores (old new : kwargs) (c : V) :
  not_none is_none (kw_get "seed"%string old) = Some c -> not_none is_none (kw_get "seed"%string new) = None ->
  kw_get "seed"%string (keep_seed is_none old new) = Some c.
Proof. intros Ho Hn. unfold keep_seed. rewrite Hn, Ho, kw_get_set, String.eqb_refl. reflexivity. Qed.

Lemma keep_seed_nonempty (old new : kwargs) : new <> [] -> keep_seed is_none old new <> [].
Proof.
  intros Hn. unfold keep_seed. destruct (not_none is_none (kw_get "seed"%string new)); [assumption|].
  destruct (not_none is_none (kw_get "seed"%string old)); [|assumption].
  destruct new as [|[x y] r]; [contradiction|]. cbn [kw_set]. destruct (String.eqb _ x); discriminate.
Qed.

(* partial application composes like dict update (a later seed=None excepted: it does not erase a curried seed) *)
Lemma call_compose (i i1 : initializer V) (k1 k2 : kwargs) (shape : list V) :
  NoDup (keys k1) -> NoDup (keys k2) -> no_deprecated k1 -> no_deprecated k2 ->
  (shape <> [] \/ k2 <> []) ->
  (forall v, kw_get "seed"%string k2 = Some v -> is_none v = false) ->
  call is_none i [] k1 = RInit i1 ->
  call is_none i1 shape k2 = call is_none i shape (kw_update k1 k2).
Proof.
  intros N1 N2 D1 D2 Hne Hseed Hc.
  unfold call in Hc. rewrite (filter_deprecated_id k1 D1) in Hc.
  destruct (kw_has "sr"%string k1 && negb (i_autorize_sr i)) eqn:A1; [discriminate|].
  destruct (kw_has "input_scaling"%string k1 && negb (i_autorize_is i)) eqn:A2; [discriminate|].
  assert (Hk1 : k1 <> []) by (intros ->; discriminate).
  assert (Hi1 : i1 = mkInit (i_func i) (keep_seed is_none (i_kwargs i) (kw_update (i_kwargs i) k1)) (i_autorize_sr i) (i_autorize_is i) (i_autorize_rescaling i)).
  { destruct k1; [contradiction|]. injection Hc as <-. reflexivity. }
  clear Hc. subst i1.
  unfold call. cbn [i_autorize_sr i_autorize_is i_autorize_rescaling i_func i_kwargs].
  rewrite (filter_deprecated_id k2 D2).
  rewrite (filter_deprecated_id _ (no_deprecated_update _ _ D1 D2)).
  rewrite !kw_has_update by assumption.
  rewrite !andb_orb_distrib_l, A1, A2. cbn [orb].
  destruct (kw_has "sr"%string k2 && negb (i_autorize_sr i)); [reflexivity|].
  destruct (kw_has "input_scaling"%string k2 && negb (i_autorize_is i)); [reflexivity|].
  rewrite (keep_seed_compose (i_kwargs i) k1 k2 N1 N2 Hseed).
  destruct shape as [|s0 shape]; [|reflexivity].
  destruct Hne as [Hne|Hne]; [contradiction|].
  destruct k2 as [|p2 k2'] eqn:E2; [contradiction|]. rewrite <- E2.
  destruct (kw_update k1 k2) eqn:E; [|reflexivity].
  exfalso. revert E. apply kw_update_nonempty. assumption.
Qed.

(* ------------------------------------------------------------------------------------------ heap purity *)
Lemma hcall_extends (h : heap V) r shape kw : exists t, fst (hcall is_none h r shape kw) = h ++ t.
Proof.
  unfold hcall. destruct (nth_error h r); cbn; [|exists []; rewrite app_nil_r; reflexivity].
  destruct (call is_none i shape kw); cbn; try (exists []; rewrite app_nil_r; reflexivity). eexists; reflexivity.
Qed.

Lemma hrun_extends (ops : list (nat * list V * kwargs)) : forall h : heap V, exists t, fst (hrun is_none h ops) = h ++ t.
Proof.
  induction ops as [|[[r shape] kw] ops IH]; intros h; cbn.
  - exists []. rewrite app_nil_r. reflexivity.
  - destruct (hcall_extends h r shape kw) as [t1 E1].
    destruct (hcall is_none h r shape kw) as [h1 res]. cbn in E1. subst h1.
    destruct (IH (h ++ t1)) as [t2 E2].
    destruct (hrun is_none (h ++ t1) ops) as [h2 rs]. cbn in *. subst h2.
    exists (t1 ++ t2). rewrite app_assoc. reflexivity.
Qed.

(* whatever is called, in whatever order, on whichever objects: an existing initializer object is never modified *)
Lemma heap_pure (ops : list (nat * list V * kwargs)) (h : heap V) (r : nat) (i : initializer V) :
  nth_error h r = Some i -> nth_error (fst (hrun is_none h ops)) r = Some i.
Proof.
  intros Hr. destruct (hrun_extends ops h) as [t E]. rewrite E.
  rewrite nth_error_app1; [assumption|]. apply nth_error_Some. rewrite Hr. discriminate.
Qed.

(* the call on a given object is a function of that object and the arguments only: replaying the same call on the
   original after any history gives the same answer *)
Lemma call_after_history (ops : list (nat * list V * kwargs)) (h : heap V) (r : nat) shape kw :
  r < length h ->
  snd (hcall is_none (fst (hrun is_none h ops)) r shape kw) = snd (hcall is_none h r shape kw).
Proof.
  intros Hr. destruct (nth_error h r) as [i|] eqn:E; [|apply nth_error_None in E; lia].
  unfold hcall. rewrite (heap_pure ops h r i E), E. reflexivity.
Qed.
End KwargsProofs.

(* ------------------------------------------------------------------------------------------ stored Generator *)
(* deepcopy semantics: the store only grows and existing cells are never written *)
Lemma gstep_deep_extends (g : gstate) (o : gop) :
  exists t u, g_store (fst (gstep true g o)) = g_store g ++ t /\ g_partials (fst (gstep true g o)) = g_partials g ++ u.
Proof.
  destruct o as [r|r]; cbn.
  - do 2 eexists. split; [reflexivity|]. symmetry. apply app_nil_r.
  - do 2 eexists. split; reflexivity.
Qed.
Lemma grun_deep_extends (ops : list gop) : forall g,
  exists t u, g_store (fst (grun true g ops)) = g_store g ++ t /\ g_partials (fst (grun true g ops)) = g_partials g ++ u.
Proof.
  induction ops as [|o ops IH]; intros g.
  - exists [], []. cbn. rewrite !app_nil_r. split; reflexivity.
  - cbn [grun]. destruct (gstep_deep_extends g o) as [t1 [u1 [E1 E1']]].
    destruct (gstep true g o) as [g1 r]. cbn [fst] in E1, E1'.
    destruct (IH g1) as [t2 [u2 [E2 E2']]]. destruct (grun true g1 ops) as [g2 rs]. cbn [fst] in *.
    exists (t1 ++ t2), (u1 ++ u2). rewrite E2, E1, E2', E1', !app_assoc. split; reflexivity.
Qed.

(* after ANY history, a call of an existing partial draws from the position its generator had before the history,
   and the cell it stores (for partial 0: the caller's own Generator) has not moved *)
Lemma gen_deep_pure (ops : list gop) (g : gstate) (r : nat) :
  r < length (g_partials g) -> nth r (g_partials g) 0 < length (g_store g) ->
  let g' := fst (grun true g ops) in
  snd (gstep true g' (GCall r)) = snd (gstep true g (GCall r)) /\
  nth (nth r (g_partials g') 0) (g_store g') 0 = nth (nth r (g_partials g) 0) (g_store g) 0.
Proof.
  intros Hr Ha g'. destruct (grun_deep_extends ops g) as [t [u [E E']]]. fold g' in E, E'.
  assert (P : nth r (g_partials g') 0 = nth r (g_partials g) 0) by (rewrite E', app_nth1 by assumption; reflexivity).
  assert (S : nth (nth r (g_partials g) 0) (g_store g') 0 = nth (nth r (g_partials g) 0) (g_store g) 0)
    by (rewrite E, app_nth1 by assumption; reflexivity).
  split; [cbn; rewrite P, S; reflexivity|rewrite P; exact S].
Qed.

(* ------------------------------------------------------------------------------------------ generic list lemmas *)
Lemma NoDup_app_intro {A} (a b : list A) :
  NoDup a -> NoDup b -> (forall x, In x a -> ~ In x b) -> NoDup (a ++ b).
Proof.
  induction a as [|x a IH]; cbn; intros Ha Hb Hd; [assumption|].
  inversion Ha; subst. constructor.
  - rewrite in_app_iff. intros [H|H]; [contradiction|]. eapply Hd; [left; reflexivity|eassumption].
  - apply IH; auto.
Qed.

Lemma combine_app {A B} (a a' : list A) (b b' : list B) :
  length a = length b -> combine (a ++ a') (b ++ b') = combine a b ++ combine a' b'.
Proof.
  revert b. induction a as [|x a IH]; intros [|y b] Hl; cbn in *; try discriminate; [reflexivity|].
  f_equal. apply IH. lia.
Qed.

Lemma combine_repeat_r {A B} (l : list A) (c : B) : combine l (repeat c (length l)) = map (fun r => (r, c)) l.
Proof. induction l as [|x l IH]; cbn; [reflexivity|]. f_equal. exact IH. Qed.
Lemma combine_repeat_l {A B} (l : list A) (c : B) : combine (repeat c (length l)) l = map (fun r => (c, r)) l.
Proof. induction l as [|x l IH]; cbn; [reflexivity|]. f_equal. exact IH. Qed.

Lemma map_fst_combine_le {A B} (a : list A) (b : list B) : length a <= length b -> map fst (combine a b) = a.
Proof.
  revert b. induction a as [|x a IH]; intros [|y b] Hl; cbn in *; try lia; [reflexivity..|].
  f_equal. apply IH. lia.
Qed.

(* ------------------------------------------------------------------------------------------ _random_degree *)
Section Degree.
(* positions (row, col) in assembly order *)
Definition positions_out (choice : nat -> list nat) (n d : nat) : list (nat * nat) :=
  combine (degree_rows_out choice n) (degree_cols_out n d).
Definition positions_in (choice : nat -> list nat) (m d : nat) : list (nat * nat) :=
  combine (degree_rows_in m d) (degree_cols_in choice m).

Variable choice : nat -> list nat.
Variables bound d : nat.

(* blocks: one per column (out) / row (in) *)
Definition blocks_out (l : list nat) := flat_map (fun c => map (fun r => (r, c)) (choice c)) l.
Definition blocks_in (l : list nat) := flat_map (fun r => map (fun c => (r, c)) (choice r)) l.

Lemma positions_out_blocks (l : list nat) :
  (forall c, In c l -> length (choice c) = d) ->
  combine (flat_map choice l) (flat_map (fun c => repeat c d) l) = blocks_out l.
Proof.
  induction l as [|c l IH]; intros Hl; cbn; [reflexivity|].
  rewrite combine_app by (rewrite repeat_length; apply Hl; left; reflexivity).
  rewrite IH by (intros; apply Hl; right; assumption).
  f_equal. rewrite <- (Hl c (or_introl eq_refl)). apply combine_repeat_r.
Qed.
Lemma positions_in_blocks (l : list nat) :
  (forall c, In c l -> length (choice c) = d) ->
  combine (flat_map (fun c => repeat c d) l) (flat_map choice l) = blocks_in l.
Proof.
  induction l as [|c l IH]; intros Hl; cbn; [reflexivity|].
  rewrite combine_app by (rewrite repeat_length; symmetry; apply Hl; left; reflexivity).
  rewrite IH by (intros; apply Hl; right; assumption).
  f_equal. rewrite <- (Hl c (or_introl eq_refl)). apply combine_repeat_l.
Qed.

Lemma in_blocks_out (l : list nat) (p : nat * nat) : In p (blocks_out l) <-> In (snd p) l /\ In (fst p) (choice (snd p)).
Proof.
  unfold blocks_out. rewrite in_flat_map. split.
  - intros [c [Hc Hp]]. apply in_map_iff in Hp. destruct Hp as [r [<- Hr]]. cbn. auto.
  - intros [Hc Hr]. exists (snd p). split; [assumption|]. apply in_map_iff. exists (fst p). destruct p; auto.
Qed.
Lemma in_blocks_in (l : list nat) (p : nat * nat) : In p (blocks_in l) <-> In (fst p) l /\ In (snd p) (choice (fst p)).
Proof.
  unfold blocks_in. rewrite in_flat_map. split.
  - intros [c [Hc Hp]]. apply in_map_iff in Hp. destruct Hp as [r [<- Hr]]. cbn. auto.
  - intros [Hc Hr]. exists (fst p). split; [assumption|]. apply in_map_iff. exists (snd p). destruct p; auto.
Qed.

Lemma blocks_out_nodup (l : list nat) : NoDup l -> (forall c, In c l -> NoDup (choice c)) -> NoDup (blocks_out l).
Proof.
  induction l as [|c l IH]; intros Hn Hc; cbn; [constructor|].
  inversion Hn; subst. apply NoDup_app_intro.
  - apply FinFun.Injective_map_NoDup; [intros a b E; congruence|apply Hc; left; reflexivity].
  - apply IH; [assumption|intros; apply Hc; right; assumption].
  - intros p Hp Hq. apply in_map_iff in Hp. destruct Hp as [r [<- _]].
    apply (in_blocks_out l (r, c)) in Hq. cbn in Hq. tauto.
Qed.
Lemma blocks_in_nodup (l : list nat) : NoDup l -> (forall c, In c l -> NoDup (choice c)) -> NoDup (blocks_in l).
Proof.
  induction l as [|c l IH]; intros Hn Hc; cbn; [constructor|].
  inversion Hn; subst. apply NoDup_app_intro.
  - apply FinFun.Injective_map_NoDup; [intros a b E; congruence|apply Hc; left; reflexivity].
  - apply IH; [assumption|intros; apply Hc; right; assumption].
  - intros p Hp Hq. apply in_map_iff in Hp. destruct Hp as [r [<- _]].
    apply (in_blocks_in l (c, r)) in Hq. cbn in Hq. tauto.
Qed.

Lemma blocks_out_count (l : list nat) (c : nat) :
  NoDup l -> (forall c, In c l -> length (choice c) = d) ->
  length (filter (fun p => snd p =? c) (blocks_out l)) = if in_dec Nat.eq_dec c l then d else 0.
Proof.
  induction l as [|x l IH]; intros Hn Hl; cbn [blocks_out flat_map]; [reflexivity|].
  inversion Hn as [|? ? Hx Hn']; subst.
  rewrite filter_app, app_length. fold (blocks_out l). rewrite IH by (auto; intros; apply Hl; right; assumption).
  assert (E : filter (fun p : nat * nat => snd p =? c) (map (fun r => (r, x)) (choice x))
              = if x =? c then map (fun r => (r, x)) (choice x) else []).
  { induction (choice x) as [|r rs IHr]; cbn; [destruct (x =? c); reflexivity|].
    rewrite IHr. destruct (x =? c); reflexivity. }
  rewrite E. destruct (Nat.eqb_spec x c) as [->|Hne].
  - rewrite map_length, (Hl c (or_introl eq_refl)).
    destruct (in_dec Nat.eq_dec c (c :: l)) as [_|H]; [|exfalso; apply H; left; reflexivity].
    destruct (in_dec Nat.eq_dec c l); [contradiction|lia].
  - cbn [length]. destruct (in_dec Nat.eq_dec c (x :: l)) as [[H|H]|H]; [congruence| |].
    + destruct (in_dec Nat.eq_dec c l); [reflexivity|contradiction].
    + destruct (in_dec Nat.eq_dec c l) as [H'|_]; [exfalso; apply H; right; assumption|reflexivity].
Qed.
Lemma blocks_in_count (l : list nat) (c : nat) :
  NoDup l -> (forall c, In c l -> length (choice c) = d) ->
  length (filter (fun p => fst p =? c) (blocks_in l)) = if in_dec Nat.eq_dec c l then d else 0.
Proof.
  induction l as [|x l IH]; intros Hn Hl; cbn [blocks_in flat_map]; [reflexivity|].
  inversion Hn as [|? ? Hx Hn']; subst.
  rewrite filter_app, app_length. fold (blocks_in l). rewrite IH by (auto; intros; apply Hl; right; assumption).
  assert (E : filter (fun p : nat * nat => fst p =? c) (map (fun r => (x, r)) (choice x))
              = if x =? c then map (fun r => (x, r)) (choice x) else []).
  { induction (choice x) as [|r rs IHr]; cbn; [destruct (x =? c); reflexivity|].
    rewrite IHr. destruct (x =? c); reflexivity. }
  rewrite E. destruct (Nat.eqb_spec x c) as [->|Hne].
  - rewrite map_length, (Hl c (or_introl eq_refl)).
    destruct (in_dec Nat.eq_dec c (c :: l)) as [_|H]; [|exfalso; apply H; left; reflexivity].
    destruct (in_dec Nat.eq_dec c l); [contradiction|lia].
  - cbn [length]. destruct (in_dec Nat.eq_dec c (x :: l)) as [[H|H]|H]; [congruence| |].
    + destruct (in_dec Nat.eq_dec c l); [reflexivity|contradiction].
    + destruct (in_dec Nat.eq_dec c l) as [H'|_]; [exfalso; apply H; right; assumption|reflexivity].
Qed.

Lemma blocks_length (g : nat -> list (nat * nat)) (l : list nat) :
  (forall c, In c l -> length (g c) = d) -> length (flat_map g l) = length l * d.
Proof.
  induction l as [|x l IH]; intros Hl; cbn; [reflexivity|].
  rewrite app_length, IH by (intros; apply Hl; right; assumption). rewrite (Hl x (or_introl eq_refl)). lia.
Qed.
End Degree.

(* direction "out": n columns, each answered by choice(m, size=d, replace=False) *)
Lemma degree_out_exact (choice : nat -> list nat) (m n d : nat) :
  (forall c, c < n -> choice_ok m d (choice c)) ->
  let pos := positions_out choice n d in
  NoDup pos /\ length pos = n * d /\
  (forall p, In p pos -> fst p < m /\ snd p < n) /\
  (forall c, c < n -> length (filter (fun p => snd p =? c) pos) = d).
Proof.
  intros Hc pos.
  assert (Hl : forall c, In c (seq 0 n) -> length (choice c) = d).
  { intros c Hin. apply in_seq in Hin. apply Hc. lia. }
  assert (E : pos = blocks_out choice (seq 0 n)).
  { unfold pos, positions_out, degree_rows_out, degree_cols_out. apply positions_out_blocks. exact Hl. }
  rewrite E. repeat split.
  - apply blocks_out_nodup; [apply seq_NoDup|]. intros c Hin. apply in_seq in Hin. apply Hc. lia.
  - unfold blocks_out. rewrite (blocks_length d); [rewrite seq_length; reflexivity|].
    intros c Hin. rewrite map_length. apply Hl. assumption.
  - apply in_blocks_out in H. destruct H as [H1 H2]. apply in_seq in H1.
    destruct (Hc (snd p)) as [_ [Hb _]]; [lia|]. apply Hb. assumption.
  - apply in_blocks_out in H. destruct H as [H1 _]. apply in_seq in H1. lia.
  - intros c Hcn. rewrite (blocks_out_count choice d); [|apply seq_NoDup|exact Hl].
    destruct (in_dec Nat.eq_dec c (seq 0 n)) as [_|H]; [reflexivity|]. exfalso. apply H. apply in_seq. lia.
Qed.

(* direction "in": m rows, each answered by choice(n, size=d, replace=False) *)
Lemma degree_in_exact (choice : nat -> list nat) (m n d : nat) :
  (forall r, r < m -> choice_ok n d (choice r)) ->
  let pos := positions_in choice m d in
  NoDup pos /\ length pos = m * d /\
  (forall p, In p pos -> fst p < m /\ snd p < n) /\
  (forall r, r < m -> length (filter (fun p => fst p =? r) pos) = d).
Proof.
  intros Hc pos.
  assert (Hl : forall c, In c (seq 0 m) -> length (choice c) = d).
  { intros c Hin. apply in_seq in Hin. apply Hc. lia. }
  assert (E : pos = blocks_in choice (seq 0 m)).
  { unfold pos, positions_in, degree_rows_in, degree_cols_in. apply positions_in_blocks. exact Hl. }
  rewrite E. repeat split.
  - apply blocks_in_nodup; [apply seq_NoDup|]. intros c Hin. apply in_seq in Hin. apply Hc. lia.
  - unfold blocks_in. rewrite (blocks_length d); [rewrite seq_length; reflexivity|].
    intros c Hin. rewrite map_length. apply Hl. assumption.
  - apply in_blocks_in in H. destruct H as [H1 _]. apply in_seq in H1. lia.
  - apply in_blocks_in in H. destruct H as [H1 H2]. apply in_seq in H1.
    destruct (Hc (fst p)) as [_ [Hb _]]; [lia|]. apply Hb. assumption.
  - intros c Hcn. rewrite (blocks_in_count choice d); [|apply seq_NoDup|exact Hl].
    destruct (in_dec Nat.eq_dec c (seq 0 m)) as [_|H]; [reflexivity|]. exfalso. apply H. apply in_seq. lia.
Qed.

(* the stored positions of the assembled COO matrix are these positions, whatever the data vector *)
Lemma degree_coo_out_positions {F} `{Num F} (choice : nat -> list nat) (n d : nat) (vals : list F) :
  length vals = length (positions_out choice n d) ->
  map fst (degree_coo_out choice n d vals) = positions_out choice n d.
Proof. intros Hl. unfold degree_coo_out, coo_make. apply map_fst_combine_le. fold (positions_out choice n d). lia. Qed.
Lemma degree_coo_in_positions {F} `{Num F} (choice : nat -> list nat) (m d : nat) (vals : list F) :
  length vals = length (positions_in choice m d) ->
  map fst (degree_coo_in choice m d vals) = positions_in choice m d.
Proof. intros Hl. unfold degree_coo_in, coo_make. apply map_fst_combine_le. fold (positions_in choice m d). lia. Qed.

(* ------------------------------------------------------------------------------------------ entries of scaled inputs *)
Lemma nth_map_lt {A B} (f : A -> B) (l : list A) (i : nat) (da : A) (db : B) :
  i < length l -> nth i (map f l) db = f (nth i l da).
Proof. revert i. induction l as [|x l IH]; intros [|i] Hi; cbn in *; try lia; [reflexivity|]. apply IH. lia. Qed.

Section InputScaling.
Context {F : Type} `{Num F}.

Lemma nth_vzip (f : F -> F -> F) (a b : list F) (j : nat) (d : F) :
  j < length a -> j < length b -> nth j (vzip f a b) d = f (nth j a d) (nth j b d).
Proof.
  revert b j. induction a as [|x a IH]; intros [|y b] [|j] Ha Hb; cbn in *; try lia; [reflexivity|]. apply IH; lia.
Qed.

Lemma scale_inputs_scalar_entry (s : F) (W0 : list (list F)) (i j : nat) :
  i < length W0 -> j < length (nth i W0 []) ->
  mget (scale_inputs_scalar s W0) i j = nmul (mget W0 i j) s.
Proof.
  intros Hi Hj. unfold mget, scale_inputs_scalar.
  rewrite (nth_map_lt _ W0 i [] []) by assumption.
  rewrite (nth_map_lt _ _ j n0 n0) by assumption. reflexivity.
Qed.

Lemma scale_inputs_cols_entry (s : list F) (W0 : list (list F)) (i j : nat) :
  i < length W0 -> j < length (nth i W0 []) -> j < length s ->
  mget (scale_inputs_cols s W0) i j = nmul (mget W0 i j) (nth j s n0).
Proof.
  intros Hi Hj Hs. unfold mget, scale_inputs_cols.
  rewrite (nth_map_lt _ W0 i [] []) by assumption.
  unfold vmul. apply nth_vzip; assumption.
Qed.

Lemma mget_coo_dense (m n : nat) (es : coo) (i j : nat) :
  i < m -> j < n -> mget (coo_dense m n es) i j = coo_get es i j.
Proof.
  intros Hi Hj. unfold mget, coo_dense.
  rewrite (nth_map_lt _ (seq 0 m) i 0 []) by (rewrite seq_length; assumption).
  rewrite (nth_map_lt _ (seq 0 n) j 0 n0) by (rewrite seq_length; assumption).
  rewrite !seq_nth by assumption. reflexivity.
Qed.
End InputScaling.
