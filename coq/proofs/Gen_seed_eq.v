(* Tie (T) of C14: the functions GENERATED from the current source of reservoirpy/utils/random.py, datasets/_seed.py and the seed table
   extracted from Reservoir.__init__ / reservoirs/base.py (coq/gen/Gen_seed.v, vocabulary base/SeedPrelude.v) are equal to the
   provenance model model/Prov.v, for every program state and every argument form of the model (None | int | Generator).

   Reading.  [world_of st a b] is the Python-level world that the model state [st] stands for: __global_rg is the object
   GGlob (epoch st), the heap of Generator objects is [heap st], datasets._DEFAULT_SEED is [ds_default st]; [a] / [b] are the values of
   __SEED and of numpy's legacy global seed, which the model does not track (the equalities hold for every a, b).
   [val_of_src] injects the model's seed argument (SNone | SInt s | SGen u) into Python values. *)
From Coq Require Import List Arith Bool.
From RV Require Import model.Prov base.SeedPrelude gen.Gen_seed.
Import ListNotations.

Definition world_of (st : state) (a b : pyval) : world :=
  mkWorld a (GGlob (epoch st)) (epoch st) b (heap st) (VInt (ds_default st)).
Definition val_of_src (sd : src) : pyval :=
  match sd with SNone => VNone | SInt s => VInt s | SGen u => VGenerator (GUser u) end.
(* np.zeros(shape) / gain * draw  versus the model's  None / Some draw *)
Definition mat_of_noise (r : req) (o : option draw) : mat :=
  match o with None => MZero (q_rows r) (q_cols r) | Some d => MDraw d end.

(* ------------------------------------------------------------------------------------------------ utils/random.set_seed *)
Lemma gen_set_seed_eq (st : state) (a b : pyval) (s : nat) :
  GenSeed.set_seed (world_of st a b) (VInt s) = Ok (world_of (do_set_seed st s) (VInt s) (VInt s)).
Proof. reflexivity. Qed.

(* anything that is not exactly a Python int is refused, and no world comes back: nothing was changed *)
Lemma gen_set_seed_rejects (w : world) (v : pyval) :
  py_type_is_int v = false -> GenSeed.set_seed w v = Raise TypeError.
Proof. intros H. unfold GenSeed.set_seed. rewrite H. reflexivity. Qed.

(* set_seed re-creates the global generator: whatever the world was, __global_rg afterwards is a brand-new object at position 0 of the
   stream rooted in s, and every object that existed before is untouched *)
Lemma gen_set_seed_fresh_global (w : world) (s : nat) :
  exists w', GenSeed.set_seed w (VInt s) = Ok w' /\
    w_global_rg w' = GGlob (S (w_binds w)) /\ w_heap w' (w_global_rg w') = (Seeded s, []) /\
    (forall g, g <> GGlob (S (w_binds w)) -> w_heap w' g = w_heap w g).
Proof.
  eexists. split; [reflexivity|]. cbn. split; [reflexivity|]. split.
  - unfold heap_set. cbn. rewrite Nat.eqb_refl. reflexivity.
  - intros g Hg. unfold heap_set, gid_same. destruct g as [e|u|i]; try reflexivity.
    destruct (Nat.eqb_spec (S (w_binds w)) e) as [E|E]; [subst e; congruence | reflexivity].
Qed.

(* ------------------------------------------------------------------------------------------------ utils/random.rand_generator *)
(* the dispatch, for every world: None -> the global object; int / np.integer -> a brand-new stream rooted in it;
   Generator -> that object; RandomState -> a copy of its MT19937 state *)
Lemma gen_rand_generator_none (w : world) : GenSeed.rand_generator w VNone = Ok (GRef (w_global_rg w)).
Proof. reflexivity. Qed.
Lemma gen_rand_generator_int (w : world) (s : nat) : GenSeed.rand_generator w (VInt s) = Ok (GNew (Seeded s, [])).
Proof. reflexivity. Qed.
Lemma gen_rand_generator_npint (w : world) (s : nat) : GenSeed.rand_generator w (VNpInt s) = Ok (GNew (Seeded s, [])).
Proof. reflexivity. Qed.
Lemma gen_rand_generator_generator (w : world) (g : gid) : GenSeed.rand_generator w (VGenerator g) = Ok (GRef g).
Proof. reflexivity. Qed.
Lemma gen_rand_generator_randomstate (w : world) (k : nat) : GenSeed.rand_generator w (VRandomState k) = Ok (GLegacyCopy k).
Proof. reflexivity. Qed.

(* with an int seed the result does not depend on the world at all (in particular never on the global generator) *)
Lemma gen_rand_generator_int_world_free (w1 w2 : world) (s : nat) :
  GenSeed.rand_generator w1 (VInt s) = GenSeed.rand_generator w2 (VInt s).
Proof. reflexivity. Qed.

(* rand_generator(seed) followed by one draw  =  Prov.draw_src  (what every initialiser of mat_gen does with its `seed`) *)
Lemma gen_draw_src_eq (st : state) (a b : pyval) (sd : src) (r : req) (post : nat) :
  bind (GenSeed.rand_generator (world_of st a b) (val_of_src sd)) (fun g => draw_on (world_of st a b) g r post)
  = Ok (world_of (fst (draw_src st sd r post)) a b, snd (draw_src st sd r post)).
Proof. destruct sd; reflexivity. Qed.

(* rng = rand_generator(seed) kept by the node  =  Prov.construct: the object the node keeps and the heap afterwards *)
Lemma gen_construct_eq (st : state) (a b : pyval) (i : nat) (c : rcfg) :
  exists p,
    bind (GenSeed.rand_generator (world_of st a b) (val_of_src (c_src c))) (fun g => keep_gen (world_of st a b) (GPriv i) g)
    = Ok (world_of (construct st i c) a b, p)
    /\ nodes (construct st i c) i = Some (mkNode c p None None []).
Proof.
  unfold construct. destruct (c_src c); eexists; (split; [reflexivity|]); cbn; unfold upd; rewrite Nat.eqb_refl; reflexivity.
Qed.

(* ------------------------------------------------------------------------------------------------ utils/random.noise *)
Lemma gen_noise_eq (st : state) (a b : pyval) (p : gid) (gain : nat) (r : req) :
  GenSeed.noise (world_of st a b) p (q_dist r) (q_rows r, q_cols r) gain (q_args r)
  = Ok (world_of (fst (Prov.noise st p gain r)) a b, mat_of_noise r (snd (Prov.noise st p gain r))).
Proof.
  unfold GenSeed.noise, Prov.noise, py_abs_gt0. destruct r as [d rw cl ar]. destruct (gain =? 0); reflexivity.
Qed.

(* gain 0: literal zeros and the world is returned as it was, for EVERY world (no generator object is touched) *)
Lemma gen_noise_zero_gain (w : world) (rng : gid) (dist kwargs : nat) (shape : nat * nat) :
  GenSeed.noise w rng dist shape 0 kwargs = Ok (w, MZero (fst shape) (snd shape)).
Proof. reflexivity. Qed.

(* gain <> 0: exactly one request is served by the object rng, and by no other *)
Lemma gen_noise_draws_once (w : world) (rng : gid) (dist kwargs gain : nat) (shape : nat * nat) :
  gain <> 0 ->
  exists w' d, GenSeed.noise w rng dist shape gain kwargs = Ok (w', MDraw d) /\
    w_heap w' rng = (fst (w_heap w rng), snd (w_heap w rng) ++ [mkReq dist (fst shape) (snd shape) kwargs]) /\
    d_root d = fst (w_heap w rng) /\ d_trace d = snd (w_heap w rng) /\ d_post d = gain.
Proof.
  intros Hg. unfold GenSeed.noise, py_abs_gt0. apply Nat.eqb_neq in Hg. rewrite Hg. cbn.
  eexists. eexists. split; [reflexivity|]. cbn. unfold heap_set.
  assert (E : gid_same rng rng = true) by (destruct rng; cbn; apply Nat.eqb_refl).
  rewrite E. repeat split.
Qed.

(* ------------------------------------------------------------------------------------------------ datasets/_seed.py *)
Lemma gen_ds_get_seed_eq (st : state) (a b : pyval) :
  GenSeed.ds_get_seed (world_of st a b) = Ok (val_of_src (SInt (ds_default st))).
Proof. reflexivity. Qed.
Lemma gen_ds_set_seed_eq (st : state) (a b : pyval) (s : nat) :
  GenSeed.ds_set_seed (world_of st a b) (VInt s) = Ok (world_of (fst (step st (ODsSetSeed s))) a b).
Proof. reflexivity. Qed.
(* set then get *)
Lemma gen_ds_set_get (w w' : world) (v : pyval) :
  GenSeed.ds_set_seed w v = Ok w' -> GenSeed.ds_get_seed w' = Ok v.
Proof. unfold GenSeed.ds_set_seed. intros H. injection H as <-. reflexivity. Qed.

(* ------------------------------------------------------------------------------------------------ the Reservoir seed table *)
(* the extracted table is the expected one: the four matrices get the constructor's `seed` as given, the noise gets `rng`,
   and rng = rand_generator(seed) *)
Lemma gen_seed_table_eq :
  GenSeed.reservoir_seed_table = [(CW, ESeed); (CWin, ESeed); (CBias, ESeed); (CWfb, ESeed); (CNoise, ERng)]
  /\ GenSeed.reservoir_rng_arg = ESeed.
Proof. split; reflexivity. Qed.

(* one draw of the component c through the extracted table and the translated rand_generator *)
Definition table_draw (c : component) (w : world) (seed : pyval) (rng : gid) (r : req) (post : nat) : res (world * draw) :=
  bind (receives GenSeed.rand_generator (table_get GenSeed.reservoir_seed_table c) w seed rng) (fun g => draw_on w g r post).

(* each of the four matrices draws exactly like Prov.draw_src on the node's seed argument (which is what do_init / do_initfb use) *)
Lemma gen_table_matrix_draw (c : component) (st : state) (a b : pyval) (n : rnode) (r : req) (post : nat) :
  c <> CNoise ->
  table_draw c (world_of st a b) (val_of_src (c_src (n_cfg n))) (n_rng n) r post
  = Ok (world_of (fst (draw_src st (c_src (n_cfg n)) r post)) a b, snd (draw_src st (c_src (n_cfg n)) r post)).
Proof.
  intros Hc. destruct c; try congruence; apply gen_draw_src_eq.
Qed.

(* Prov.do_initfb is the table's draw for Wfb *)
Lemma gen_table_initfb (st : state) (a b : pyval) (i : nat) (n : rnode) (dfb : nat) :
  let c := n_cfg n in
  exists w' d,
    table_draw CWfb (world_of st a b) (val_of_src (c_src c)) (n_rng n) (mkReq DBERN (c_units c) dfb (fst (c_Fb c))) (snd (c_Fb c)) = Ok (w', d)
    /\ snd (do_initfb st i n dfb) = [mkEv (Some i) TAG_WFB (TMat (MDraw d))]
    /\ w' = world_of (fst (do_initfb st i n dfb)) a b.
Proof.
  intros c. unfold table_draw. cbn [table_get GenSeed.reservoir_seed_table component_eqb receives].
  rewrite gen_draw_src_eq. eexists. eexists. split; [reflexivity|].
  unfold do_initfb. fold c. destruct (draw_src st (c_src c) _ _) as [st1 d]. cbn. split; reflexivity.
Qed.

(* Prov.do_init is the table's draws for W, Win, bias, in this order *)
Lemma gen_table_init (st : state) (a b : pyval) (i : nat) (n : rnode) (din : nat) :
  let c := n_cfg n in
  let sd := val_of_src (c_src c) in
  exists w1 dW w2 dWin,
    table_draw CW (world_of st a b) sd (n_rng n) (mkReq DNORM (c_units c) (c_units c) (fst (c_W c))) (snd (c_W c)) = Ok (w1, dW)
    /\ table_draw CWin w1 sd (n_rng n) (mkReq DBERN (c_units c) din (fst (c_Win c))) (snd (c_Win c)) = Ok (w2, dWin)
    /\ (c_bias c = false ->
          snd (do_init st i n din)
          = [mkEv (Some i) TAG_W (TMat (MDraw dW)); mkEv (Some i) TAG_WIN (TMat (MDraw dWin)); mkEv (Some i) TAG_BIAS (TMat (MZero (c_units c) 1))]
          /\ w2 = world_of (fst (do_init st i n din)) a b)
    /\ (c_bias c = true -> exists w3 dB,
          table_draw CBias w2 sd (n_rng n) (mkReq DBERN (c_units c) 1 (fst (c_B c))) (snd (c_B c)) = Ok (w3, dB)
          /\ snd (do_init st i n din)
             = [mkEv (Some i) TAG_W (TMat (MDraw dW)); mkEv (Some i) TAG_WIN (TMat (MDraw dWin)); mkEv (Some i) TAG_BIAS (TMat (MDraw dB))]
          /\ w3 = world_of (fst (do_init st i n din)) a b).
Proof.
  intros c sd. subst sd c.
  assert (T : forall comp w r post, comp <> CNoise ->
            table_draw comp (world_of w a b) (val_of_src (c_src (n_cfg n))) (n_rng n) r post
            = Ok (world_of (fst (draw_src w (c_src (n_cfg n)) r post)) a b, snd (draw_src w (c_src (n_cfg n)) r post)))
    by (intros; apply gen_table_matrix_draw; assumption).
  unfold do_init. cbv zeta.
  destruct (draw_src st (c_src (n_cfg n)) (mkReq DNORM (c_units (n_cfg n)) (c_units (n_cfg n)) (fst (c_W (n_cfg n)))) (snd (c_W (n_cfg n))))
    as [st1 dW] eqn:E1.
  destruct (draw_src st1 (c_src (n_cfg n)) (mkReq DBERN (c_units (n_cfg n)) din (fst (c_Win (n_cfg n)))) (snd (c_Win (n_cfg n))))
    as [st2 dWin] eqn:E2.
  exists (world_of st1 a b), dW, (world_of st2 a b), dWin.
  split; [rewrite T by discriminate; rewrite E1; reflexivity|].
  split; [rewrite T by discriminate; rewrite E2; reflexivity|].
  split; intros Hb; rewrite Hb.
  - cbn. split; reflexivity.
  - destruct (draw_src st2 (c_src (n_cfg n)) (mkReq DBERN (c_units (n_cfg n)) 1 (fst (c_B (n_cfg n)))) (snd (c_B (n_cfg n))))
      as [st3 dB] eqn:E3.
    exists (world_of st3 a b), dB.
    split; [rewrite T by discriminate; rewrite E3; reflexivity|].
    cbn. split; reflexivity.
Qed.

(* the noise of a node is drawn on the object the node kept at construction: the table hands `rng` to noise, and rand_generator
   of a Generator is that Generator, so Prov.step_noise's  noise st (n_rng n) ..  is the translated noise on that object *)
Lemma gen_table_noise_generator (w : world) (seed : pyval) (rng : gid) :
  receives GenSeed.rand_generator (table_get GenSeed.reservoir_seed_table CNoise) w seed rng = Ok (GRef rng).
Proof. reflexivity. Qed.

(* consequence for the generated plumbing alone (no reference to Prov's functions): with an int seed, the draw of each of the four
   matrices is the draw at position 0 of default_rng(s), whatever the world and whatever the node's own generator has served, and
   the world is left as it was *)
Lemma gen_table_int_seed_position_zero (c : component) (w : world) (s : nat) (rng : gid) (r : req) (post : nat) :
  c <> CNoise -> table_draw c w (VInt s) rng r post = Ok (w, mkDraw (Seeded s) [] r post).
Proof. intros Hc. destruct c; try congruence; reflexivity. Qed.
