(* Proofs about model/ModelSem.v, for every Num instance and every family of node forward functions. *)
From Coq Require Import List Arith Bool Lia Permutation FunctionalExtensionality.
From RV Require Import base.Num base.LA model.ModelSem.
Import ListNotations.

Section Proofs.
Context {F : Type} `{Num F}.
Notation vec := (list F).
Notation env := (@env F).
Notation ndesc := (@ndesc F).
Notation model := (@model F).

Lemma upd_same (e : env) n s : upd e n s n = s.
Proof. unfold upd. rewrite Nat.eqb_refl. reflexivity. Qed.
Lemma upd_other (e : env) n s m : m <> n -> upd e n s m = e m.
Proof. intros Hn. unfold upd. destruct (Nat.eqb_spec m n); [contradiction|reflexivity]. Qed.

Lemma nstate_eq (a b : @nstate F) : st a = st b -> hid a = hid b -> a = b.
Proof. destruct a, b; cbn; intros -> ->; reflexivity. Qed.

(* every parent of every node of [ds] is strictly earlier in the order, or outside it *)
Fixpoint topo_ok (par : nat -> list nat) (ds : list ndesc) : Prop :=
  match ds with
  | [] => True
  | d :: rest => (forall p, In p (par (nid d)) -> p <> nid d /\ ~ In p (map nid rest)) /\ topo_ok par rest
  end.

Lemma gather_ext (m : model) (e1 e2 : env) ext n :
  (forall p, In p (parents m n) -> e1 p = e2 p) -> gather m e1 ext n = gather m e2 ext n.
Proof.
  intros Hp. unfold gather. f_equal. f_equal. apply map_ext_in. intros p Hin. rewrite (Hp p Hin). reflexivity.
Qed.

(* frame: forward touches only the nodes it calls *)
Lemma forward_from_frame (m : model) prev clamp ext : forall ds (e e' : env) ok,
  forward_from m prev clamp ext ds e = (e', ok) ->
  forall n, ~ In n (map nid ds) -> e' n = e n.
Proof.
  induction ds as [|d rest IH]; intros e e' ok Hf n Hn; cbn in Hf.
  - inversion Hf; reflexivity.
  - unfold call_node in Hf.
    destruct (nfwd d _ _ _ _) as [[s' h']|] eqn:E.
    + cbn in Hn. rewrite (IH _ _ _ Hf n) by tauto. apply upd_other. intros ->. apply Hn. left; reflexivity.
    + inversion Hf; reflexivity.
Qed.

(* the equation a node's new state satisfies: own PREVIOUS state and hidden memory, parents' NEW states *)
Definition node_eq (m : model) (prev : env) clamp ext (e0 e' : env) (d : ndesc) : Prop :=
  nfwd d (st (e0 (nid d))) (hid (e0 (nid d))) (gather m e' ext (nid d)) (fbvalue d prev clamp)
  = Some (st (e' (nid d)), hid (e' (nid d))).

Lemma forward_from_solution (m : model) prev clamp ext : forall ds (e e' : env),
  forward_from m prev clamp ext ds e = (e', true) ->
  NoDup (map nid ds) -> topo_ok (parents m) ds ->
  forall d, In d ds -> node_eq m prev clamp ext e e' d.
Proof.
  induction ds as [|d0 rest IH]; intros e e' Hf Hnd Ht d Hin; [destruct Hin|].
  cbn in Hf. unfold call_node in Hf.
  destruct (nfwd d0 (st (e (nid d0))) (hid (e (nid d0))) (gather m e ext (nid d0)) (fbvalue d0 prev clamp))
    as [[s' h']|] eqn:E; [|discriminate].
  cbn in Hnd. inversion Hnd as [|? ? Hnotin Hnd']; subst.
  destruct Ht as [Hpar Ht'].
  set (e1 := upd e (nid d0) (mkNS s' h')) in *.
  assert (Hframe : forall n, ~ In n (map nid rest) -> e' n = e1 n)
    by (intros n Hn; eapply forward_from_frame; eauto).
  destruct Hin as [<-|Hin].
  - unfold node_eq. rewrite (Hframe (nid d0) Hnotin). unfold e1. rewrite upd_same. cbn [st hid].
    rewrite <- E. f_equal. apply gather_ext. intros p Hp. destruct (Hpar p Hp) as [Hne Hnr].
    rewrite (Hframe p Hnr). unfold e1. apply upd_other. assumption.
  - specialize (IH e1 e' Hf Hnd' Ht' d Hin). unfold node_eq in *.
    assert (Hd : nid d <> nid d0).
    { intros Heq. apply Hnotin. rewrite <- Heq. apply in_map. assumption. }
    unfold e1 in IH at 1 2. rewrite !upd_other in IH by assumption. exact IH.
Qed.

Definition is_solution (m : model) (prev : env) clamp ext (e0 e' : env) : Prop :=
  (forall d, In d (order m) -> node_eq m prev clamp ext e0 e' d) /\
  (forall n, ~ In n (map nid (order m)) -> e' n = e0 n).

Definition well_formed (m : model) : Prop := NoDup (map nid (order m)) /\ topo_ok (parents m) (order m).

(* C02: when forward succeeds on a topologically ordered model, the resulting environment solves the graph's
   equations: each node evaluated once, on its predecessors' outputs of the same step *)
Theorem forward_is_solution (m : model) prev clamp ext (e0 e' : env) :
  well_formed m -> forward m prev clamp ext e0 = (e', true) -> is_solution m prev clamp ext e0 e'.
Proof.
  intros [Hnd Ht] Hf. split.
  - intros d Hd. eapply forward_from_solution; eauto.
  - intros n Hn. eapply forward_from_frame; eauto.
Qed.

Lemma topo_ok_app (par : nat -> list nat) : forall (pre : list ndesc) d suf,
  topo_ok par (pre ++ d :: suf) ->
  forall p, In p (par (nid d)) -> p <> nid d /\ ~ In p (map nid suf).
Proof.
  induction pre as [|a pre IH]; intros d suf Ht p Hp; cbn in Ht.
  - destruct Ht as [H1 _]. apply H1. assumption.
  - destruct Ht as [_ Ht]. eapply IH; eauto.
Qed.

(* ... and that solution is unique: the result does not depend on which valid order was used *)
Theorem solution_unique (m : model) prev clamp ext (e0 e1 e2 : env) :
  well_formed m -> is_solution m prev clamp ext e0 e1 -> is_solution m prev clamp ext e0 e2 ->
  forall n, e1 n = e2 n.
Proof.
  intros [Hnd Ht] [S1 F1] [S2 F2].
  assert (Hpre : forall pre suf, order m = pre ++ suf -> forall d, In d pre -> e1 (nid d) = e2 (nid d)).
  { induction pre as [|d pre IH] using rev_ind; intros suf Ho x Hx; [destruct Hx|].
    rewrite <- app_assoc in Ho. cbn in Ho.
    apply in_app_or in Hx. destruct Hx as [Hx|[<-|[]]].
    - eapply IH; eauto.
    - assert (Hd : In d (order m)) by (rewrite Ho; apply in_or_app; right; left; reflexivity).
      pose proof (S1 d Hd) as N1. pose proof (S2 d Hd) as N2. unfold node_eq in N1, N2.
      assert (G : gather m e1 ext (nid d) = gather m e2 ext (nid d)).
      { apply gather_ext. intros p Hp.
        rewrite Ho in Ht. destruct (topo_ok_app _ _ _ _ Ht p Hp) as [Hne Hns].
        destruct (in_dec Nat.eq_dec p (map nid pre)) as [Hin|Hnin].
        - apply in_map_iff in Hin. destruct Hin as (dp & <- & Hdp). eapply IH; eauto.
        - assert (Hout : ~ In p (map nid (order m))).
          { rewrite Ho, map_app. cbn [map]. intros Hc. apply in_app_or in Hc. destruct Hc as [Hc|[Hc|Hc]]; auto. }
          rewrite (F1 p Hout), (F2 p Hout). reflexivity. }
      rewrite G in N1. rewrite N1 in N2. inversion N2 as [[Hs Hh]]. apply nstate_eq; assumption. }
  intros n. destruct (in_dec Nat.eq_dec n (map nid (order m))) as [Hin|Hnin].
  - apply in_map_iff in Hin. destruct Hin as (d & <- & Hd). apply (Hpre (order m) []); [rewrite app_nil_r; reflexivity|assumption].
  - rewrite (F1 n Hnin), (F2 n Hnin). reflexivity.
Qed.

(* two valid execution orders of the same graph give the same step *)
Corollary forward_order_independent (m1 m2 : model) prev clamp ext (e0 e1 e2 : env) :
  well_formed m1 -> well_formed m2 -> Permutation (order m1) (order m2) ->
  (forall n, parents m1 n = parents m2 n) ->
  forward m1 prev clamp ext e0 = (e1, true) -> forward m2 prev clamp ext e0 = (e2, true) ->
  forall n, e1 n = e2 n.
Proof.
  intros W1 W2 P Hp F1 F2.
  pose proof (forward_is_solution m1 prev clamp ext e0 e1 W1 F1) as S1.
  pose proof (forward_is_solution m2 prev clamp ext e0 e2 W2 F2) as [S2a S2b].
  apply (solution_unique m1 prev clamp ext e0 e1 e2 W1 S1). split.
  - intros d Hd. assert (Hd2 : In d (order m2)) by (eapply Permutation_in; eauto).
    specialize (S2a d Hd2). unfold node_eq in *. rewrite <- S2a. f_equal.
    unfold gather. rewrite Hp. reflexivity.
  - intros n Hn. apply S2b. intros Hc. apply Hn.
    eapply Permutation_in; [apply Permutation_sym, Permutation_map; exact P|exact Hc].
Qed.

(* name-keyed input: external data reaches exactly the nodes it names *)
Lemma gather_no_ext (m : model) (e : env) ext n :
  ext n = None -> gather m e ext n = concat (map (fun p => st (e p)) (parents m n)).
Proof. intros Hn. unfold gather. rewrite Hn. apply app_nil_r. Qed.
Lemma gather_entry (m : model) (e : env) ext n x :
  parents m n = [] -> ext n = Some x -> gather m e ext n = x.
Proof. intros Hp Hx. unfold gather. rewrite Hp, Hx. reflexivity. Qed.

(* ---------------------------------------------------------------- runs: C02 pointwise / C07 chunking *)
Lemma run_steps_app (m : model) : forall xs ys (e : env),
  run_steps m (xs ++ ys) e =
    let '(e1, o1, ok1) := run_steps m xs e in
    if ok1 then let '(e2, o2, ok2) := run_steps m ys e1 in (e2, o1 ++ o2, ok2)
    else (e1, o1, false).
Proof.
  induction xs as [|[ext forced] xs IH]; intros ys e; cbn [app run_steps].
  - destruct (run_steps m ys e) as [[e2 o2] ok2]. reflexivity.
  - destruct (step m forced ext e) as [e1 ok] eqn:E. destruct ok.
    + rewrite IH. destruct (run_steps m xs e1) as [[e1' o1] ok1]. destruct ok1.
      * destruct (run_steps m ys e1') as [[e2 o2] ok2]. reflexivity.
      * reflexivity.
    + reflexivity.
Qed.

Lemma run_steps_outputs_length (m : model) : forall xs (e e' : env) outs,
  run_steps m xs e = (e', outs, true) -> length outs = length xs.
Proof.
  induction xs as [|[ext forced] xs IH]; intros e e' outs Hr; cbn in Hr.
  - inversion Hr; reflexivity.
  - destruct (step m forced ext e) as [e1 ok]. destruct ok; [|discriminate].
    destruct (run_steps m xs e1) as [[e2 o2] ok2] eqn:E. inversion Hr; subst. cbn. f_equal. eapply IH; eauto.
Qed.


(* ---------------------------------------------------------------- C07: any chunking *)
Fixpoint run_chunks (m : model) (chunks : list (list ((nat -> option vec) * (nat -> option vec)))) (e : env)
  : env * list (list vec) * bool :=
  match chunks with
  | [] => (e, [], true)
  | c :: rest =>
    let '(e1, o1, ok1) := run_steps m c e in
    if ok1 then let '(e2, o2, ok2) := run_chunks m rest e1 in (e2, o1 ++ o2, ok2) else (e1, o1, false)
  end.

Theorem run_chunks_concat (m : model) : forall chunks (e : env),
  run_chunks m chunks e = run_steps m (concat chunks) e.
Proof.
  induction chunks as [|c rest IH]; intros e; cbn [run_chunks concat]; [reflexivity|].
  rewrite run_steps_app. destruct (run_steps m c e) as [[e1 o1] ok1]. destruct ok1; [|reflexivity].
  rewrite IH. reflexivity.
Qed.

Lemma start_env_noop (m : model) (e : env) : start_env m false (fun _ => None) e = e.
Proof.
  unfold start_env. generalize (order m) as ds. intros ds. revert e.
  induction ds as [|d ds IH]; intros e; cbn; [reflexivity|apply IH].
Qed.

(* a plain stateful run (no reset, no from_state) is run_steps from the current environment *)
Lemma run_op_plain (m : model) steps (e : env) :
  run_op m true false (fun _ => None) steps e = run_steps m steps e.
Proof.
  unfold run_op. rewrite start_env_noop. destruct (run_steps m steps e) as [[e1 o] ok]. reflexivity.
Qed.

(* generic online training: a train call is a fold of a per-step function over the sequence (no per-call state but the
   update gate); cutting the sequence at a multiple of learn_every changes nothing *)
Section Train.
Context {S X O : Type}.
Variable fwd : S -> X -> S * O.        (* call the node: new state (incl. weights), output = pre-update prediction *)
Variable learn : S -> X -> S.          (* one learning-rule update *)
Fixpoint train_from (k i : nat) (xs : list X) (s : S) : S * list O :=
  match xs with
  | [] => (s, [])
  | x :: rest => let '(s1, o) := fwd s x in
                 let s2 := if Nat.eqb (i mod k) 0 then learn s1 x else s1 in
                 let '(s3, os) := train_from k (Datatypes.S i) rest s2 in (s3, o :: os)
  end.
Definition train (k : nat) (xs : list X) (s : S) := train_from k 0 xs s.

Lemma train_from_app k : forall xs ys i s,
  train_from k i (xs ++ ys) s =
    let '(s1, o1) := train_from k i xs s in let '(s2, o2) := train_from k (i + length xs) ys s1 in (s2, o1 ++ o2).
Proof.
  induction xs as [|x xs IH]; intros ys i s; cbn [app train_from length].
  - rewrite Nat.add_0_r. destruct (train_from k i ys s). reflexivity.
  - destruct (fwd s x) as [s1 o]. rewrite IH.
    destruct (train_from k (Datatypes.S i) xs _) as [s2 o1].
    replace (Datatypes.S i + length xs) with (i + Datatypes.S (length xs)) by lia.
    destruct (train_from k (i + Datatypes.S (length xs)) ys s2). reflexivity.
Qed.

Lemma train_from_shift k : 0 < k -> forall xs i s, train_from k (i + k) xs s = train_from k i xs s.
Proof.
  intros Hk. induction xs as [|x xs IH]; intros i s; cbn [train_from]; [reflexivity|].
  destruct (fwd s x) as [s1 o].
  replace ((i + k) mod k) with (i mod k).
  2:{ rewrite <- (Nat.mul_1_l k) at 2. rewrite Nat.mod_add by lia. reflexivity. }
  replace (Datatypes.S (i + k)) with (Datatypes.S i + k) by lia. rewrite IH. reflexivity.
Qed.

Theorem train_app_aligned k xs ys s : 0 < k -> (length xs) mod k = 0 ->
  train k (xs ++ ys) s = let '(s1, o1) := train k xs s in let '(s2, o2) := train k ys s1 in (s2, o1 ++ o2).
Proof.
  intros Hk Hm. unfold train. rewrite train_from_app. destruct (train_from k 0 xs s) as [s1 o1]. cbn [Nat.add].
  apply Nat.mod_divides in Hm; [|lia]. destruct Hm as [c Hc]. rewrite Hc.
  assert (G : forall c i zs t, train_from k (i + k * c) zs t = train_from k i zs t).
  { clear - Hk. induction c as [|c IHc]; intros i zs t.
    - rewrite Nat.mul_0_r, Nat.add_0_r. reflexivity.
    - replace (i + k * Datatypes.S c) with ((i + k * c) + k) by lia. rewrite train_from_shift by assumption. apply IHc. }
  change (k * c) with (0 + k * c). rewrite (G c 0 ys s1). reflexivity.
Qed.
End Train.

(* ---------------------------------------------------------------- C05: feedback timing *)
(* unforced: the value handed to a receiver is the sender's state in [prev], the environment at the end of the
   previous step, wherever the sender sits in the execution order *)
Lemma fbvalue_unforced_node (d : ndesc) (prev : env) clamp s :
  nfb d = Some (FbNode s) -> clamp (nid d) = None -> fbvalue d prev clamp = Some (st (prev s)).
Proof. intros Hf Hc. unfold fbvalue. rewrite Hf, Hc. reflexivity. Qed.
Lemma fbvalue_unforced_model (d : ndesc) (prev : env) clamp outs :
  nfb d = Some (FbModel outs) -> clamp (nid d) = None ->
  fbvalue d prev clamp = Some (concat (map (fun o => st (prev o)) outs)).
Proof. intros Hf Hc. unfold fbvalue. rewrite Hf, Hc. reflexivity. Qed.
Lemma fbvalue_forced (d : ndesc) (prev : env) clamp src v :
  nfb d = Some src -> clamp (nid d) = Some v -> fbvalue d prev clamp = Some v.
Proof. intros Hf Hc. unfold fbvalue. rewrite Hf, Hc. reflexivity. Qed.


(* without forced feedback the proxies are exactly the states at the end of the previous step and nothing is clamped *)
Lemma proxies_unforced (m : model) (e : env) n : proxies m (fun _ => None) e n = e n.
Proof. unfold proxies. destruct (find _ (order m)) as [d|]; [destruct (nfb d)|]; reflexivity. Qed.
Lemma clamps_unforced (m : model) n : clamps m (fun _ => None) n = None.
Proof.
  unfold clamps. destruct (find _ (order m)) as [d|]; [|reflexivity].
  unfold forced_value. destruct (nfb d) as [[s|outs]|]; reflexivity.
Qed.
(* the environment reached after the first k steps of a run *)
Fixpoint env_after (m : model) (steps : list ((nat -> option vec) * (nat -> option vec))) (e : env) (k : nat) : env :=
  match k, steps with
  | S k', (ext, forced) :: rest => env_after m rest (fst (step m forced ext e)) k'
  | _, _ => e
  end.
(* C05: in an unforced run, the feedback a node receives at step k is its sender's state at the end of step k-1
   (the pre-run state for k = 0), for a sender anywhere in the graph or outside it *)
Theorem run_feedback_delay (m : model) (d : ndesc) s steps (e : env) k :
  nfb d = Some (FbNode s) ->
  fbvalue d (proxies m (fun _ => None) (env_after m steps e k)) (clamps m (fun _ => None))
  = Some (st (env_after m steps e k s)).
Proof.
  intros Hf. unfold fbvalue. rewrite Hf, clamps_unforced, proxies_unforced. reflexivity.
Qed.

(* dispatch: with shifting, step 0 sees zeros and step t+1 sees Y[t]; without, step t sees Y[t] *)
Lemma shift_with_length (z : vec) ys : length (shift_with z ys) = length ys.
Proof.
  unfold shift_with. destruct ys as [|y ys]; [reflexivity|]. cbn [length]. f_equal.
  destruct ys as [|y2 ys] using rev_ind; [reflexivity|].
  change (y :: ys ++ [y2]) with ((y :: ys) ++ [y2]). rewrite removelast_last, app_length. cbn. lia.
Qed.
Lemma shift_with_0 (z : vec) ys d : ys <> [] -> nth 0 (shift_with z ys) d = z.
Proof. destruct ys; [congruence|reflexivity]. Qed.
Lemma shift_with_S (z : vec) ys t d : S t < length ys -> nth (S t) (shift_with z ys) d = nth t ys d.
Proof.
  intros Ht. unfold shift_with. destruct ys as [|y ys]; [cbn in Ht; lia|].
  destruct (exists_last (l := y :: ys)) as (l' & a & E); [discriminate|].
  rewrite E in *. cbn [nth]. rewrite removelast_last. rewrite app_length in Ht. cbn in Ht.
  rewrite app_nth1 by lia. reflexivity.
Qed.

(* ---------------------------------------------------------------- C08: stateless operations, reset, from_state *)
Lemma set_st_st (e : env) n v : st (set_st e n v n) = v.
Proof. unfold set_st. rewrite upd_same. reflexivity. Qed.
Lemma set_st_hid (e : env) n v m : hid (set_st e n v m) = hid (e m).
Proof. unfold set_st, upd. destruct (Nat.eqb_spec m n); [subst|]; reflexivity. Qed.
Lemma set_st_other (e : env) n v m : m <> n -> set_st e n v m = e m.
Proof. intros. unfold set_st. apply upd_other. assumption. Qed.

Lemma restore_st_spec (snap : env) : forall ids (e : env) n,
  st (restore_st ids snap e n) = if in_dec Nat.eq_dec n ids then st (snap n) else st (e n).
Proof.
  unfold restore_st. induction ids as [|i ids IH] using rev_ind; intros e n; cbn.
  - reflexivity.
  - rewrite fold_left_app. cbn [fold_left].
    destruct (Nat.eq_dec n i) as [->|Hne].
    + rewrite set_st_st. destruct (in_dec Nat.eq_dec i (ids ++ [i])) as [|Hn]; [reflexivity|].
      exfalso. apply Hn. apply in_or_app. right. left. reflexivity.
    + rewrite set_st_other by assumption. rewrite IH.
      destruct (in_dec Nat.eq_dec n ids) as [Hi|Hi], (in_dec Nat.eq_dec n (ids ++ [i])) as [Hj|Hj]; try reflexivity.
      * exfalso. apply Hj. apply in_or_app. left. assumption.
      * exfalso. apply in_app_or in Hj. destruct Hj as [Hj|[Hj|[]]]; [contradiction|congruence].
Qed.
Lemma restore_st_hid (snap : env) : forall ids (e : env) n, hid (restore_st ids snap e n) = hid (e n).
Proof.
  unfold restore_st. induction ids as [|i ids IH] using rev_ind; intros e n; cbn; [reflexivity|].
  rewrite fold_left_app. cbn [fold_left]. rewrite set_st_hid. apply IH.
Qed.


(* generic fold of per-node state assignments (start_env, reset_op) *)
Section FoldSet.
Variable g : env -> ndesc -> env.
Variable newst : ndesc -> vec -> vec.
Hypothesis g_other : forall e d n, n <> nid d -> g e d n = e n.
Hypothesis g_hid : forall e d n, hid (g e d n) = hid (e n).
Hypothesis g_st : forall e d, st (g e d (nid d)) = newst d (st (e (nid d))).

Lemma fold_g_frame : forall ds (e : env) n, ~ In n (map nid ds) -> fold_left g ds e n = e n.
Proof.
  induction ds as [|a ds IH]; intros e n Hn; cbn; [reflexivity|]. cbn in Hn.
  rewrite IH by tauto. apply g_other. intros ->. tauto.
Qed.
Lemma fold_g_hid : forall ds (e : env) n, hid (fold_left g ds e n) = hid (e n).
Proof. induction ds as [|a ds IH]; intros e n; cbn; [reflexivity|]. rewrite IH. apply g_hid. Qed.
Lemma fold_g_st : forall ds (e : env) d, NoDup (map nid ds) -> In d ds ->
  st (fold_left g ds e (nid d)) = newst d (st (e (nid d))).
Proof.
  induction ds as [|a ds IH]; intros e d Hnd Hin; [destruct Hin|]. cbn in Hnd. inversion Hnd as [|? ? Hna Hnd']; subst.
  cbn [fold_left]. destruct Hin as [<-|Hin].
  - rewrite fold_g_frame by assumption. apply g_st.
  - rewrite IH by assumption. f_equal. f_equal. apply g_other.
    intros Heq. apply Hna. rewrite <- Heq. apply in_map. assumption.
Qed.
End FoldSet.

Lemma reset_op_spec (m : model) (e : env) n :
  hid (reset_op m e n) = hid (e n) /\ (forall d, In d (order m) -> NoDup (map nid (order m)) -> st (reset_op m e (nid d)) = vzeros (odim d)).
Proof.
  unfold reset_op. split.
  - apply (fold_g_hid (fun acc d => set_st acc (nid d) (vzeros (odim d)))). intros; apply set_st_hid.
  - intros d Hd Hnd.
    apply (fold_g_st (fun acc d => set_st acc (nid d) (vzeros (odim d))) (fun d _ => vzeros (odim d))); auto.
    + intros; apply set_st_other; assumption.
    + intros; apply set_st_st.
Qed.

Lemma start_env_spec (m : model) reset from (e : env) d :
  In d (order m) -> NoDup (map nid (order m)) ->
  st (start_env m reset from e (nid d)) =
    match from (nid d) with Some v => v | None => if reset then vzeros (odim d) else st (e (nid d)) end.
Proof.
  intros Hd Hnd. unfold start_env.
  apply (fold_g_st (fun acc d => match from (nid d) with
                                 | Some v => set_st acc (nid d) v
                                 | None => if reset then set_st acc (nid d) (vzeros (odim d)) else acc end)
                   (fun d old => match from (nid d) with Some v => v | None => if reset then vzeros (odim d) else old end)); auto.
  - intros a x n Hn. destruct (from (nid x)); [apply set_st_other; assumption|].
    destruct reset; [apply set_st_other; assumption|reflexivity].
  - intros a x. destruct (from (nid x)); [apply set_st_st|]. destruct reset; [apply set_st_st|reflexivity].
Qed.

(* a stateful=False operation leaves the current state of every node as it was - whether or not it failed *)
Theorem stateless_preserves_state (m : model) reset from steps (e e' : env) outs ok :
  run_op m false reset from steps e = (e', outs, ok) -> forall n, st (e' n) = st (e n).
Proof.
  unfold run_op. destruct (run_steps m steps (start_env m reset from e)) as [[e1 o1] ok1] eqn:E.
  intros Hr n. inversion Hr; subst. rewrite restore_st_spec.
  destruct (in_dec Nat.eq_dec n (ids_of m)) as [Hin|Hnin]; [reflexivity|].
  (* nodes outside the model are not touched at all *)
  assert (Hs : forall (ds : list ndesc) (a : env), ~ In n (map nid ds) ->
            fold_left (fun acc d => match from (nid d) with
                                    | Some v => set_st acc (nid d) v
                                    | None => if reset then set_st acc (nid d) (vzeros (odim d)) else acc end) ds a n = a n).
  { induction ds as [|d ds IH] using rev_ind; intros a Hn; [reflexivity|].
    rewrite fold_left_app. cbn [fold_left]. rewrite map_app in Hn. cbn in Hn.
    assert (Hd : n <> nid d) by (intros ->; apply Hn; apply in_or_app; right; left; reflexivity).
    assert (Hds : ~ In n (map nid ds)) by (intros Hc; apply Hn; apply in_or_app; left; assumption).
    destruct (from (nid d)); [rewrite set_st_other by assumption; apply IH; assumption|].
    destruct reset; [rewrite set_st_other by assumption|]; apply IH; assumption. }
  assert (Hrun : forall xs (a a' : env) o k, run_steps m xs a = (a', o, k) -> a' n = a n).
  { induction xs as [|[ext forced] xs IH]; intros a a' o k Hx; cbn in Hx.
    - inversion Hx; reflexivity.
    - destruct (step m forced ext a) as [a1 ok1'] eqn:Es.
      assert (a1 n = a n) by (unfold step, forward in Es; eapply forward_from_frame; eauto).
      destruct ok1'.
      + destruct (run_steps m xs a1) as [[a2 o2] k2] eqn:Er. inversion Hx; subst. rewrite (IH _ _ _ _ Er). assumption.
      + inversion Hx; subst. assumption. }
  rewrite (Hrun _ _ _ _ _ E). unfold start_env. rewrite Hs by assumption. reflexivity.
Qed.

(* the result of an operation depends only on the states it starts from and on the hidden memory:
   repeating a stateless operation gives the same result when no node of the model changed its hidden memory *)
Theorem stateless_repeatable (m : model) reset from steps (e e1 e2 : env) o1 o2 k1 k2 :
  run_op m false reset from steps e = (e1, o1, k1) ->
  (forall n, hid (e1 n) = hid (e n)) ->
  run_op m false reset from steps e1 = (e2, o2, k2) ->
  (forall n, e1 n = e n) /\ o2 = o1 /\ k2 = k1.
Proof.
  intros H1 Hh H2.
  assert (E : forall n, e1 n = e n).
  { intros n. apply nstate_eq; [eapply stateless_preserves_state; eauto|apply Hh]. }
  split; [exact E|].
  assert (Ee : e1 = e) by (apply functional_extensionality; exact E).
  rewrite Ee in H2. rewrite H1 in H2. inversion H2; subst. split; reflexivity.
Qed.

End Proofs.
