(* Tie (T) of C07: the function GENERATED from the current source of Node.run (reservoirpy/node.py) -- coq/gen/Gen_run.v, vocabulary
   base/CtxPrelude.v + base/RunPrelude.v -- against the hand model model/ModelSem.v the theorems of C07 are stated about.

   Gen_run.v takes Node.with_state and _base.call as Section functions.  Here they are INSTANTIATED with the generated
   GenState.Node_with_state / GenState.call of coq/gen/Gen_state.v (translated from the same tree in the same run) and used only
   through their proved specifications [gen_with_state_outcomes] / [gen_call_spec] of proofs/Gen_state_eq.v.

   Part 1 (heap level, any forward function): Node.run on an initialised node whose input check_xy accepts = enter the state context
   once, fold the forward function over the steps ([obj_run]: `_state`, params and `_fb_flag` move at every successful step, the first
   raise stops the loop and leaves what the earlier steps wrote), leave the context (restore `_state` unless stateful, also on a
   raise); the array returned is the list of the states, row i = step i.
   Part 2: through [habs] that is run_op of ModelSem on the one-node model, for every flag combination and a forward function that
   raises at any step; C07_run_app / C07_run_op_plain then speak about the translated loop.
   Hypotheses, stated where used: the node is initialised with an int `_output_dim` and an array `_state` (a node after initialize());
   check_xy accepts X and does not write; the arrays handed to check_one_sequence by the contexts (the start state, then each state the
   forward function returns) are accepted by it -- rejections are C12's subject. *)
From Coq Require Import List Arith Bool Lia.
From RV Require Import base.Num base.LA base.CtxPrelude base.RunPrelude gen.Gen_state gen.Gen_run model.ModelSem proofs.ModelSem_proofs
  proofs.Gen_state_eq.
Import ListNotations.

Section HeapLevel.
Context {F : Type} `{Num F} {P IX IRAW IDATA : Type}.
Variable check_ok : option nat -> list F -> bool.
Variable fw : nat -> @obj F P -> IX -> option (list F * P).
Notation vec := (list F).
Notation hp := (@heap F P).
Notation obj := (@obj F P).
Variable check_xy : nat -> IRAW -> M hp IDATA.
Variable initialize : nat -> IX -> M hp unit.
Variable xd_is_ndarray xd_is_list : IDATA -> bool.
Variable xd_len_arr xd_len_multi : IDATA -> nat.
Variable xd_step_arr xd_step_multi : IDATA -> nat -> IX.

Notation g_call := (@GenState.call F _ P IX check_ok fw).
Definition g_run : nat -> IRAW -> option vec -> bool -> bool -> M hp (list vec) :=
  GenRun.Node_run check_xy initialize xd_is_ndarray xd_is_list xd_len_arr xd_len_multi xd_step_arr xd_step_multi
    (fun A => GenState.Node_with_state check_ok (A:=A)) g_call.

(* the steps of a checked input *)
Definition xd_len (d : IDATA) : nat := if xd_is_ndarray d then xd_len_arr d else xd_len_multi d.
Definition xd_step (d : IDATA) (i : nat) : IX := if xd_is_list d then xd_step_multi d i else xd_step_arr d i.
Definition xd_steps (d : IDATA) : list IX := map (xd_step d) (seq 0 (xd_len d)).

(* what a run does to the node object: one successful call writes `_state`, the params and flips `_fb_flag`; the first raise stops *)
Definition stepped (o : obj) (s : vec) (p : P) : obj := mkObj (Some s) (a_is_initialized o) (a_output_dim o) (negb (a_fb_flag o)) p.
Fixpoint obj_run (n : nat) (xs : list IX) (o : obj) : obj * list vec * bool :=
  match xs with
  | [] => (o, [], true)
  | x :: rest => match fw n o x with
                 | Some (s, p) => let '(o2, outs, ok) := obj_run n rest (stepped o s p) in (o2, s :: outs, ok)
                 | None => (o, [], false)
                 end
  end.

Lemma obj_run_length n : forall xs o o1 outs, obj_run n xs o = (o1, outs, true) -> length outs = length xs.
Proof.
  induction xs as [|x rest IH]; intros o o1 outs E; cbn in E.
  - inversion E. reflexivity.
  - destruct (fw n o x) as [[s p]|]; [|discriminate]. destruct (obj_run n rest (stepped o s p)) as [[o2 outs2] ok2] eqn:E2.
    inversion E; subst. cbn. f_equal. eapply IH. exact E2.
Qed.

(* a node as the per-step contexts need it: initialised, `_state` an array check_one_sequence accepts *)
Definition good_obj (o : obj) : Prop := a_is_initialized o = true /\ exists v, a_state o = Some v /\ check_ok (a_output_dim o) v = true.
(* the forward function returns arrays check_one_sequence accepts (its output has the node's output dimension) *)
Definition fw_accepted (n : nat) : Prop := forall o x s p, fw n o x = Some (s, p) -> check_ok (a_output_dim o) s = true.

Lemma set_state_same (o : obj) : set_state o (a_state o) = o.
Proof. destruct o; reflexivity. Qed.

(* one `call(self, x)` (from_state=None, stateful=True, reset=False) on a good node *)
Lemma gen_call_step n x (h : hp) : good_obj (h n) ->
  let '(h', r) := g_call n x None true false h in
  (forall k, k <> n -> h' k = h k) /\
  match fw n (h n) x with
  | Some (s, p) => r = Ok s /\ h' n = stepped (h n) s p
  | None => r = Exc ForwardError /\ h' n = h n
  end.
Proof.
  intros (Hi & v & Hv & Hc).
  assert (Hec : enter_check check_ok (h n) None false = true) by (unfold enter_check, start_state; rewrite Hv; exact Hc).
  pose proof (gen_call_spec check_ok fw n x None true false h Hi Hec) as Hsp.
  destruct (g_call n x None true false h) as [h' r]. destruct Hsp as (Hr & Hn & Hoth). split; [exact Hoth|].
  unfold call_result, call_obj0, entered_state, start_state in Hr, Hn. rewrite Hv in Hr, Hn. rewrite <- Hv in Hr, Hn.
  rewrite set_state_same in Hr, Hn.
  destruct (fw n (h n) x) as [[s p]|]; cbn [fst snd] in Hr, Hn.
  - split; [exact Hr|exact Hn].
  - split; [exact Hr|]. rewrite Hn. apply set_state_same.
Qed.

Lemma py_for_acc_ext {B C : Type} (f g : B -> C -> M hp C) : (forall i a h, f i a h = g i a h) ->
  forall l a h, py_for_acc l f a h = py_for_acc l g a h.
Proof.
  intros E. induction l as [|x rest IH]; intros a h; [reflexivity|]. cbn [py_for_acc]. unfold bind. rewrite E.
  destruct (g x a h) as [h1 [a1|e]]; [apply IH|reflexivity].
Qed.

Lemma bind_ext {A B : Type} (m : M hp A) (k1 k2 : A -> M hp B) (h : hp) :
  (forall a h', k1 a h' = k2 a h') -> bind m k1 h = bind m k2 h.
Proof. intros E. unfold bind. destruct (m h) as [h1 [a|e]]; [apply E|reflexivity]. Qed.
Lemma bind_ext_l {A B : Type} (m1 m2 : M hp A) (k : A -> M hp B) (h : hp) : m1 h = m2 h -> bind m1 k h = bind m2 k h.
Proof. intros E. unfold bind. rewrite E. reflexivity. Qed.

(* the rows written by the loop *)
Definition set_rows (a : list vec) (l : list nat) (outs : list vec) : list vec :=
  fold_left (fun acc p => mat_set_row acc (fst p) (snd p)) (combine l outs) a.

Lemma gen_loop_spec n (stepf : nat -> IX) : fw_accepted n -> forall (l : list nat) (h : hp) (a : list vec),
  good_obj (h n) ->
  let '(h', r) := py_for_acc l (fun i acc => bind (g_call n (stepf i) None true false) (fun s => ret (mat_set_row acc i s))) a h in
  let '(o1, outs, ok) := obj_run n (map stepf l) (h n) in
  h' n = o1 /\ (forall k, k <> n -> h' k = h k) /\
  match r with Ok a' => ok = true /\ a' = set_rows a l outs | Exc _ => ok = false end.
Proof.
  intros Hfw. induction l as [|i rest IH]; intros h a Hg.
  - cbn. repeat split; reflexivity.
  - cbn [py_for_acc map obj_run]. unfold bind at 1. unfold bind at 1.
    pose proof (gen_call_step n (stepf i) h Hg) as Hst. destruct (g_call n (stepf i) None true false h) as [h1 r1].
    destruct Hst as (Hoth & Hst). destruct (fw n (h n) (stepf i)) as [[s p]|] eqn:Ef.
    + destruct Hst as (-> & Hn). unfold ret at 1.
      assert (Hg1 : good_obj (h1 n)).
      { rewrite Hn. destruct Hg as (Hi & _). split; [exact Hi|]. exists s. split; [reflexivity|]. exact (Hfw _ _ _ _ Ef). }
      specialize (IH h1 (mat_set_row a i s) Hg1).
      destruct (py_for_acc rest _ (mat_set_row a i s) h1) as [h' r]. rewrite Hn in IH.
      destruct (obj_run n (map stepf rest) (stepped (h n) s p)) as [[o2 outs] ok]. destruct IH as (IH1 & IH2 & IH3).
      split; [exact IH1|]. split; [intros k Hk; rewrite IH2 by assumption; apply Hoth; assumption|].
      destruct r as [a'|e]; [|exact IH3]. destruct IH3 as (-> & ->). split; reflexivity.
    + destruct Hst as (-> & Hn). split; [exact Hn|]. split; [exact Hoth|reflexivity].
Qed.

(* np.zeros((T, n)) with row i := s_i for i = 0 .. T-1 is the list of the s_i *)
Lemma mat_set_row_app (pre : list vec) z rest s : mat_set_row (pre ++ z :: rest) (length pre) s = pre ++ s :: rest.
Proof. induction pre as [|r pre IH]; [reflexivity|]. cbn. rewrite IH. reflexivity. Qed.
Lemma set_rows_fill (z : vec) : forall (outs pre : list vec),
  set_rows (pre ++ repeat z (length outs)) (seq (length pre) (length outs)) outs = pre ++ outs.
Proof.
  unfold set_rows. induction outs as [|s outs IH]; intros pre; [reflexivity|].
  cbn [length repeat seq combine fold_left fst snd]. rewrite mat_set_row_app.
  replace (pre ++ s :: repeat z (length outs)) with ((pre ++ [s]) ++ repeat z (length outs)) by (rewrite <- app_assoc; reflexivity).
  replace (S (length pre)) with (length (pre ++ [s])) by (rewrite app_length; cbn; lia).
  rewrite IH. rewrite <- app_assoc. reflexivity.
Qed.

(* the body of the `with` statement of Node.run, as generated, is that loop *)
Definition run_body (n : nat) (d : IDATA) (T : nat) : M hp (list vec) :=
  bind (rd a_output_dim n) (fun t2 =>
  bind (match t2 with Some k => ret (np_zeros_2d T k) | None => raise TypeError end) (fun t3 =>
  bind (py_for_acc (py_range T) (fun i acc => bind (g_call n (xd_step d i) None true false) (fun s => ret (mat_set_row acc i s))) t3)
       (fun states => ret states))).

Lemma gen_run_unfold n X d from stateful reset (h : hp) :
  check_xy n X h = (h, Ok d) -> a_is_initialized (h n) = true ->
  g_run n X from stateful reset h = GenState.Node_with_state check_ok n from stateful reset (run_body n d (xd_len d)) h.
Proof.
  intros Hcx Hi. unfold g_run, GenRun.Node_run. unfold bind at 1. rewrite Hcx. unfold xd_len.
  assert (Hbody : forall T h0, bind (rd a_output_dim n) (fun t2 =>
      bind (match t2 with Some k => ret (np_zeros_2d T k) | None => raise TypeError end) (fun t3 =>
      let states := t3 in
      bind (py_for_acc (py_range T) (fun i states0 =>
        if xd_is_list d
        then (let x := xd_step_multi d i in bind (g_call n x None true false) (fun t4 => let s := t4 in let states1 := mat_set_row states0 i s in ret states1))
        else (let x := xd_step_arr d i in bind (g_call n x None true false) (fun t5 => let s := t5 in let states1 := mat_set_row states0 i s in ret states1)))
        states) (fun states0 => ret (states0)))) h0 = run_body n d T h0).
  { intros T h0. unfold run_body. apply bind_ext. intros t2 h1. apply bind_ext. intros t3 h2. cbv zeta.
    apply bind_ext_l. apply py_for_acc_ext. intros i a h3. unfold xd_step. destruct (xd_is_list d); reflexivity. }
  assert (Hws : forall T h0, bind (GenState.Node_with_state check_ok n from stateful reset
      (bind (rd a_output_dim n) (fun t2 =>
      bind (match t2 with Some k => ret (np_zeros_2d T k) | None => raise TypeError end) (fun t3 =>
      let states := t3 in
      bind (py_for_acc (py_range T) (fun i states0 =>
        if xd_is_list d
        then (let x := xd_step_multi d i in bind (g_call n x None true false) (fun t4 => let s := t4 in let states1 := mat_set_row states0 i s in ret states1))
        else (let x := xd_step_arr d i in bind (g_call n x None true false) (fun t5 => let s := t5 in let states1 := mat_set_row states0 i s in ret states1)))
        states) (fun states0 => ret (states0)))))) (fun states => ret states) h0
      = GenState.Node_with_state check_ok n from stateful reset (run_body n d T) h0).
  { intros T h0. rewrite bind_ret. rewrite !gen_with_state_is_cm, !with_cm_unfold.
    destruct (ws_enter check_ok n from reset h0) as [h1 [v|e]]; [|reflexivity]. unfold try_finally. rewrite Hbody. reflexivity. }
  destruct (xd_is_ndarray d).
  - unfold bind at 1. unfold rd at 1. rewrite Hi. cbn [negb]. cbv zeta. apply Hws.
  - unfold bind at 1. unfold rd at 1. rewrite Hi. cbn [negb]. cbv zeta. apply Hws.
Qed.

Theorem gen_node_run_spec n X d from stateful reset (h : hp) :
  check_xy n X h = (h, Ok d) -> fw_accepted n ->
  a_is_initialized (h n) = true -> enter_check check_ok (h n) from reset = true ->
  (exists k, a_output_dim (h n) = Some k) -> (exists v, a_state (h n) = Some v) ->
  let '(h', r) := g_run n X from stateful reset h in
  let '(o1, outs, ok) := obj_run n (xd_steps d) (call_obj0 (h n) from reset) in
  h' n = (if stateful then o1 else set_state o1 (a_state (h n))) /\ (forall k, k <> n -> h' k = h k) /\
  match r with Ok states => ok = true /\ states = outs | Exc _ => ok = false end.
Proof.
  intros Hcx Hfw Hi Hec (dim & Hdim) (v0 & Hv0).
  rewrite (gen_run_unfold n X d from stateful reset h Hcx Hi).
  rewrite gen_with_state_outcomes by assumption. cbv zeta.
  set (o0 := set_state (h n) (entered_state (h n) from reset)).
  change (call_obj0 (h n) from reset) with o0.
  set (h0 := hupd h n o0).
  assert (Hh0 : h0 n = o0) by (unfold h0; apply hupd_same).
  assert (Hg0 : good_obj (h0 n)).
  { rewrite Hh0. unfold o0, good_obj. cbn [set_state a_is_initialized a_state a_output_dim]. split; [exact Hi|].
    unfold enter_check in Hec. unfold entered_state.
    destruct (start_state (h n) from reset) as [v|] eqn:Es.
    - exists v. split; [reflexivity|exact Hec].
    - exfalso. unfold start_state in Es. destruct from; [discriminate|]. destruct reset.
      + unfold zero_of in Es. rewrite Hdim in Es. discriminate.
      + rewrite Hv0 in Es. discriminate. }
  unfold run_body. unfold bind at 1. unfold rd at 1. rewrite Hh0.
  assert (Hd0 : a_output_dim o0 = Some dim) by (unfold o0; cbn; exact Hdim). rewrite Hd0.
  unfold bind at 1. unfold ret at 1. rewrite bind_ret.
  pose proof (gen_loop_spec n (xd_step d) Hfw (py_range (xd_len d)) h0 (np_zeros_2d (xd_len d) dim) Hg0) as Hl.
  destruct (py_for_acc (py_range (xd_len d)) _ (np_zeros_2d (xd_len d) dim) h0) as [h1 r].
  rewrite Hh0 in Hl. unfold xd_steps. unfold py_range in Hl.
  destruct (obj_run n (map (xd_step d) (seq 0 (xd_len d))) o0) as [[o1 outs] ok] eqn:Eo.
  destruct Hl as (H1 & H2 & H3). split; [|split].
  - destruct stateful; [exact H1|]. rewrite hupd_same, H1. reflexivity.
  - intros k Hk. destruct stateful.
    + rewrite H2 by assumption. unfold h0. apply hupd_other. assumption.
    + rewrite hupd_other by assumption. rewrite H2 by assumption. unfold h0. apply hupd_other. assumption.
  - destruct r as [a'|e]; [|exact H3]. destruct H3 as (-> & ->). split; [reflexivity|].
    apply obj_run_length in Eo. rewrite map_length, seq_length in Eo.
    unfold np_zeros_2d. rewrite <- Eo. exact (set_rows_fill (vzeros dim) outs []).
Qed.

End HeapLevel.

(* ================================================================================================== Part 2: against model/ModelSem.v *)
Section ModelLevel.
Context {F : Type} `{Num F} {IRAW IDATA : Type}.
Variable check_ok : option nat -> list F -> bool.
Notation vec := (list F).
Notation hp := (@heap F (@hidden F)).
Notation obj := (@obj F (@hidden F)).
Notation env := (@env F).
Notation ndesc := (@ndesc F).
Notation model := (@model F).
Variable check_xy : nat -> IRAW -> M hp IDATA.
Variable initialize : nat -> vec -> M hp unit.
Variable xd_is_ndarray xd_is_list : IDATA -> bool.
Variable xd_len_arr xd_len_multi : IDATA -> nat.
Variable xd_step_arr xd_step_multi : IDATA -> nat -> vec.

(* a node run on its own: the step input is the datum, there is no feedback value *)
Definition fw_run (d : ndesc) : nat -> obj -> vec -> option (vec * @hidden F) := fun _ o x => nfwd d (sv o) (a_params o) x None.
Definition step_of (d : ndesc) (x : vec) : (nat -> option vec) * (nat -> option vec) :=
  (fun k => if Nat.eqb k (nid d) then Some x else None, fun _ => None).
Notation g_node_run d := (g_run check_ok (fw_run d) check_xy initialize xd_is_ndarray xd_is_list xd_len_arr xd_len_multi xd_step_arr xd_step_multi).
Notation steps_of xd := (xd_steps xd_is_ndarray xd_is_list xd_len_arr xd_len_multi xd_step_arr xd_step_multi xd).

Lemma obj_run_is_run_steps (d : ndesc) par : par (nid d) = [] -> nfb d = None ->
  forall (xs : list vec) (o : obj) (e : env), e (nid d) = mkNS (sv o) (a_params o) ->
  let '(o1, outs, ok) := obj_run (fw_run d) (nid d) xs o in
  let '(e1, outs', ok') := run_steps (one_node d par) (map (step_of d) xs) e in
  ok' = ok /\ outs' = map (fun s => [s]) outs /\ e1 (nid d) = mkNS (sv o1) (a_params o1) /\ forall k, k <> nid d -> e1 k = e k.
Proof.
  intros Hpar Hfb. induction xs as [|x rest IH]; intros o e He.
  - cbn. repeat split; try reflexivity. exact He.
  - cbn [map obj_run run_steps step_of]. unfold step, forward. cbn [order one_node forward_from]. unfold call_node.
    unfold gather, fbvalue. cbn [parents one_node]. rewrite Hpar, Hfb. cbn [map concat app]. rewrite Nat.eqb_refl.
    rewrite He. cbn [st hid]. unfold fw_run at 1.
    destruct (nfwd d (sv o) (a_params o) x None) as [[s p]|].
    + specialize (IH (stepped o s p) (upd e (nid d) (mkNS s p))). rewrite upd_same in IH. specialize (IH eq_refl).
      destruct (obj_run (fw_run d) (nid d) rest (stepped o s p)) as [[o2 outs] ok].
      destruct (run_steps (one_node d par) (map (step_of d) rest) (upd e (nid d) (mkNS s p))) as [[e2 outs2] ok2].
      destruct IH as (-> & -> & I3 & I4). split; [reflexivity|]. split.
      { unfold out_states. cbn [outputs one_node map]. rewrite upd_same. reflexivity. }
      split; [exact I3|]. intros k Hk. rewrite I4 by assumption. apply upd_other. assumption.
    + repeat split; try reflexivity. exact He.
Qed.

Theorem gen_node_run_is_run_op (d : ndesc) par from stateful reset X xd (h : hp) :
  par (nid d) = [] -> nfb d = None ->
  check_xy (nid d) X h = (h, Ok xd) ->
  heap_good (one_node d par) h -> starts_accepted check_ok (one_node d par) reset from h ->
  fw_accepted check_ok (fw_run d) (nid d) ->
  let m := one_node d par in
  let '(h', r) := g_node_run d (nid d) X (from (nid d)) stateful reset h in
  let '(e', outs, ok) := run_op m stateful reset from (map (step_of d) (steps_of xd)) (habs h) in
  (forall k, habs h' k = e' k) /\
  match r with Ok states => ok = true /\ outs = map (fun s => [s]) states | Exc _ => ok = false end.
Proof.
  intros Hpar Hfb Hcx Hg Hacc Hfw m.
  assert (Hnd : NoDup (ids_of m)) by (cbn; constructor; [intros []|constructor]).
  assert (Hd : In d (order m)) by (left; reflexivity).
  pose proof (entered_is_start m reset from h d Hd Hnd Hg) as Hst.
  destruct (Hg d Hd) as (Hi & Ho & v & Hv).
  assert (Hc : enter_check check_ok (h (nid d)) (from (nid d)) reset = true).
  { unfold enter_check. rewrite Hst, Ho. apply Hacc. assumption. }
  pose proof (gen_node_run_spec check_ok (fw_run d) check_xy initialize xd_is_ndarray xd_is_list xd_len_arr xd_len_multi xd_step_arr xd_step_multi
                (nid d) X xd (from (nid d)) stateful reset h Hcx Hfw Hi Hc (ex_intro _ _ Ho) (ex_intro _ _ Hv)) as Hsp.
  destruct (g_node_run d (nid d) X (from (nid d)) stateful reset h) as [h' r].
  set (o0 := call_obj0 (h (nid d)) (from (nid d)) reset) in *.
  unfold run_op. set (e0 := start_env m reset from (habs h)).
  assert (He0 : e0 (nid d) = mkNS (sv o0) (a_params o0)).
  { apply nstate_eq.
    - unfold o0, call_obj0, entered_state. rewrite Hst. reflexivity.
    - unfold e0. rewrite start_env_hid. reflexivity. }
  assert (He0' : forall k, k <> nid d -> e0 k = habs h k).
  { intros k Hk. unfold e0. apply start_env_frame. cbn. intros [E|[]]. congruence. }
  pose proof (obj_run_is_run_steps d par Hpar Hfb (steps_of xd) o0 e0 He0) as Hrs.
  destruct (obj_run (fw_run d) (nid d) (steps_of xd) o0) as [[o1 outs] ok].
  fold m in Hrs. destruct (run_steps m (map (step_of d) (steps_of xd)) e0) as [[e1 outs'] ok'].
  destruct Hrs as (-> & -> & R3 & R4). destruct Hsp as (S1 & S2 & S3). split.
  - intros k. destruct (Nat.eq_dec k (nid d)) as [->|Hk].
    + unfold habs at 1. rewrite S1. destruct stateful.
      * rewrite R3. reflexivity.
      * cbn [ids_of order one_node map restore_st fold_left m]. unfold set_st. rewrite upd_same. rewrite R3. cbn [st hid set_state a_state a_params].
        unfold habs, sv. cbn [st]. reflexivity.
    + unfold habs at 1. rewrite S2 by assumption. destruct stateful.
      * rewrite R4 by assumption. rewrite He0' by assumption. reflexivity.
      * cbn [ids_of order one_node map restore_st fold_left m]. rewrite set_st_other by assumption. rewrite R4 by assumption.
        rewrite He0' by assumption. reflexivity.
  - destruct r as [states|e]; [|exact S3]. destruct S3 as (-> & ->). split; reflexivity.
Qed.

(* default flags: the translated loop is run_steps from the node's current state, so C07_run_app / C07_chunking (statements about
   run_steps) are statements about what the translated Node.run computes *)
Corollary gen_node_run_default_is_run_steps (d : ndesc) par X xd (h : hp) :
  par (nid d) = [] -> nfb d = None ->
  check_xy (nid d) X h = (h, Ok xd) ->
  heap_good (one_node d par) h -> starts_accepted check_ok (one_node d par) false (fun _ => None) h ->
  fw_accepted check_ok (fw_run d) (nid d) ->
  let '(h', r) := g_node_run d (nid d) X None true false h in
  let '(e', outs, ok) := run_steps (one_node d par) (map (step_of d) (steps_of xd)) (habs h) in
  (forall k, habs h' k = e' k) /\
  match r with Ok states => ok = true /\ outs = map (fun s => [s]) states | Exc _ => ok = false end.
Proof.
  intros Hpar Hfb Hcx Hg Hacc Hfw.
  pose proof (gen_node_run_is_run_op d par (fun _ => None) true false X xd h Hpar Hfb Hcx Hg Hacc Hfw) as Hr. cbv zeta in Hr.
  rewrite run_op_plain in Hr. exact Hr.
Qed.

End ModelLevel.
