(* C09: the full reading of chk_solution at R, by the soundness of the Gauss-Jordan stand-in (proofs/QSolve_proofs.v).

   proofs/QR_bridge_C09.v left [chk_solution_full_statement] as an unproved Definition: the runner solves the model's regularised
   system with LA.qsolve, and nothing said that the rational matrix it returns solves that system.  QSolve_proofs.qsolve_sound
   says it does (A X == B entry-wise), for a square n x n system and an n x m right-hand side; the systems built by the runner
   ([sysQ] = XXT + ridge I on tabulated buffers, [rhsQ] = YXT^T) have these shapes unconditionally.  Hence a verdict [true] of
   chk_solution / chk_solutions means: SOME exact solution over R of the R-model's normal equations (the embedded output of the
   elimination) is within tolerance of the observed Wout / bias -- LA.qsolve is no longer trusted for it. *)
From Coq Require Import Reals QArith Qreals List Bool Arith Lia.
From RV Require Import base.Num base.LA base.NumHom model.Conc model.BatchAcc proofs.QSolve_proofs proofs.QR_bridge_C09 run.RunC09.
Import ListNotations.
Close Scope Q_scope.

Lemma shapeF_tabulate {F} `{Num F} r c (f : nat -> nat -> F) : shapeF r c (tabulate r c f).
Proof.
  unfold shapeF, tabulate. rewrite map_length, seq_length. split; [reflexivity|].
  unfold rowsF. rewrite Forall_map. apply Forall_forall. intros i _. rewrite map_length, seq_length. reflexivity.
Qed.

(* the system handed to the solver is n x n, the right-hand side n x dout: no hypothesis on the data *)
Lemma sysQ_rhsQ_wf (bias : bool) (din dout w : nat) (batches : list (list (list qrowT))) (ridge : Q) :
  wf_shapes (if bias then S din else din) dout (sysQ bias din w batches ridge) (rhsQ bias din dout w batches).
Proof.
  apply wf_shapes_of.
  - unfold sysQ. apply shapeF_madd; [apply shapeF_tabulate | apply shapeF_mscale, shapeF_eye].
  - unfold rhsQ. pose proof (shapeF_transpose (F:=Q) (if bias then S din else din) (YXT_of bias din dout w batches)) as HS.
    replace (length (YXT_of bias din dout w batches)) with dout in HS; [exact HS|].
    symmetry. apply (proj1 (shapeF_tabulate dout _ _)).
Qed.

(* whenever the runner's solver answers, its answer solves the R-model's normal equations exactly *)
Lemma model_solution_solves_R_system (bias : bool) (din dout w : nat) (batches : list (list (list qrowT))) (ridge : Q) (Wq : list (list Q)) :
  model_solution bias din dout w batches ridge = Some Wq ->
  shapeF (if bias then S din else din) dout (qm2r Wq) /\
  mm (sysR bias din w (qbatches2r batches) (Q2R ridge)) (qm2r Wq) dout = rhsR bias din dout w (qbatches2r batches).
Proof.
  unfold model_solution. cbv zeta. fold (sysQ bias din w batches ridge). fold (rhsQ bias din dout w batches). intros E.
  destruct (Qsolver_inputs_embed bias din dout w batches ridge) as [HA HB].
  fold (sysQ bias din w batches ridge) in HA. fold (rhsQ bias din dout w batches) in HB.
  unfold sysR, rhsR. rewrite <- HA, <- HB.
  apply (qsolve_sound_R _ _ _ _ _ (sysQ_rhsQ_wf bias din dout w batches ridge) E).
Qed.
(* ... and any other rational matrix of that shape that solves them is the same matrix *)
Lemma model_solution_unique (bias : bool) (din dout w : nat) (batches : list (list (list qrowT))) (ridge : Q) (Wq Y : list (list Q)) :
  model_solution bias din dout w batches ridge = Some Wq -> shapeF (if bias then S din else din) dout Y ->
  mm (sysR bias din w (qbatches2r batches) (Q2R ridge)) (qm2r Y) dout = rhsR bias din dout w (qbatches2r batches) ->
  qm2r Y = qm2r Wq.
Proof.
  unfold model_solution. cbv zeta. fold (sysQ bias din w batches ridge). fold (rhsQ bias din dout w batches). intros E SY HY.
  destruct (Qsolver_inputs_embed bias din dout w batches ridge) as [HA HB].
  fold (sysQ bias din w batches ridge) in HA. fold (rhsQ bias din dout w batches) in HB.
  unfold sysR, rhsR in HY. rewrite <- HA, <- HB in HY.
  apply (qsolve_unique_R _ _ _ _ _ Y (sysQ_rhsQ_wf bias din dout w batches ridge) E SY HY).
Qed.

(* ---- chk_solution, full reading ---- *)
Theorem chk_solution_full : chk_solution_full_statement.
Proof.
  intros bias din dout w batches ridge obsW obsB Hx.
  destruct (chk_solution_partial bias din dout w batches ridge obsW obsB Hx) as (Wq & Eq & _ & _ & Hc).
  exists (qm2r Wq). split; [|exact Hc].
  apply (model_solution_solves_R_system bias din dout w batches ridge Wq). exact Eq.
Qed.

(* with the shape of the solution and the rational witness spelled out *)
Lemma chk_solution_is_about_R_model (bias : bool) (din dout w : nat) (batches : list (list (list qrowT))) (ridge : Q)
      (obsW obsB : list (list Q)) :
  chk_solution bias din dout w batches ridge obsW obsB = true ->
  exists Wq : list (list Q),
    shapeF (if bias then S din else din) dout (qm2r Wq) /\
    mm (sysR bias din w (qbatches2r batches) (Q2R ridge)) (qm2r Wq) dout = rhsR bias din dout w (qbatches2r batches) /\
    weights_close bias (qm2r Wq) obsW obsB.
Proof.
  intros Hx. destruct (chk_solution_partial bias din dout w batches ridge obsW obsB Hx) as (Wq & Eq & _ & _ & Hc).
  exists Wq. destruct (model_solution_solves_R_system bias din dout w batches ridge Wq Eq) as [HS E]. split; [exact HS | split; [exact E | exact Hc]].
Qed.

(* chk_solutions: several observed solutions (presentations / worker counts / backends) against the same exact solution *)
Lemma chk_solutions_is_about_R_model (bias : bool) (din dout w : nat) (batches : list (list (list qrowT))) (ridge : Q)
      (obs : list (list (list Q) * list (list Q))) :
  chk_solutions bias din dout w batches ridge obs = true ->
  exists Wq : list (list Q),
    shapeF (if bias then S din else din) dout (qm2r Wq) /\
    mm (sysR bias din w (qbatches2r batches) (Q2R ridge)) (qm2r Wq) dout = rhsR bias din dout w (qbatches2r batches) /\
    Forall (fun o => weights_close bias (qm2r Wq) (fst o) (snd o)) obs.
Proof.
  unfold chk_solutions. destruct (model_solution bias din dout w batches ridge) as [Wq|] eqn:E; [|discriminate].
  intros Hx. exists Wq. destruct (model_solution_solves_R_system bias din dout w batches ridge Wq E) as [HS Em].
  split; [exact HS|]. split; [exact Em|].
  apply Forall_forall. intros o Ho. rewrite forallb_forall in Hx. specialize (Hx o Ho).
  unfold weights_close. destruct bias.
  - apply andb_true_iff in Hx. rewrite <- (map_tl (map Q2R)), firstn_map. split; apply mclose_mrclose, Hx.
  - apply mclose_mrclose, Hx.
Qed.

(* non-vacuity: the scenario of C09_chk_solution_example (W = 4/5 solves (17/4 + 3/4) W = 4) *)
Example chk_solution_full_example :
  chk_solution false 1 1 0 [[[([(2#1)%Q], [(1#1)%Q]); ([(1#2)%Q], [(4#1)%Q])]]] (3#4)%Q [[(4#5)%Q]] [] = true /\
  model_solution false 1 1 0 [[[([(2#1)%Q], [(1#1)%Q]); ([(1#2)%Q], [(4#1)%Q])]]] (3#4)%Q = Some [[(4#5)%Q]].
Proof. vm_compute. split; reflexivity. Qed.
