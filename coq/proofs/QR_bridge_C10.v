(* C10: the online learning rules run at Q, then embedded in R, ARE the rules run at R on the embedded data.

   model/Online.v is one term over [Num F]; the theorems of props/C10.v are about its instance at R, the correspondence run
   (run/RunC10.v: chk_rls, chk_lms, chk_ip) evaluates its instance at Q.  For every homomorphism [phi] of the class
   (base/NumHom.v), in particular [Q2R]: readout_forward, one RLS step (gain, P update, weight update, bias split), one LMS step
   (with the learning-rate schedule and its cursor), the initialisers, the whole online loop [train] for any [learn_every]
   and any number of successive calls, and the intrinsic-plasticity step all commute with the entry-wise embedding.

   Side condition for the RLS division by (1 + r'Pr): NONE.  The class division is total on both sides with x/0 = 0
   ([Qinv 0 = 0]; [Rinv_0] in Coq 8.16's reals), so [hom_div] is unconditional.  (The theorems of props/C10.v that give the
   division its meaning carry their own non-zero hypotheses; the embedding itself needs none.) *)
From Coq Require Import Reals QArith Qreals List Bool Arith.
From RV Require Import base.Num base.LA base.NumHom model.Online.
Import ListNotations.
Close Scope Q_scope.

Section BridgeC10.
Context {F G : Type} {NF : Num F} {NG : Num G} (phi : F -> G) {HH : NumHom phi}.
Local Notation ev := (map phi).
Local Notation em := (map (map phi)).

Definition erdo (s : rdo (F:=F)) : rdo (F:=G) :=
  {| Wout := em (Wout s); bias := ev (bias s); Pm := em (Pm s); cursor := cursor s |}.
Definition exy (p : list F * list F) : list G * list G := (ev (fst p), ev (snd p)).
Definition esched (sc : sched (F:=F)) : sched (F:=G) := (ev (fst sc), phi (snd sc)).

(* ---- readout ---- *)
Lemma ev_readout_forward odim s x : ev (readout_forward odim s x) = readout_forward odim (erdo s) (ev x).
Proof. unfold readout_forward. rewrite (ev_vadd phi), (ev_vm phi). reflexivity. Qed.
Lemma ev_augment hb x : ev (augment hb x) = augment hb (ev x).
Proof. destruct hb; cbn; [rewrite (hom_1 phi)|]; reflexivity. Qed.
Lemma em_assemble hb s : em (assemble hb s) = assemble hb (erdo s).
Proof. destruct hb; reflexivity. Qed.
Lemma e_split_save hb s wo P cur : erdo (split_save hb s wo P cur) = split_save hb (erdo s) (em wo) (em P) cur.
Proof. destruct hb; unfold split_save, erdo; cbn; [|reflexivity]. f_equal; [apply map_tl | apply (map_hd (map phi) wo [])]. Qed.
Lemma ev_rerror p y : ev (rerror p y) = rerror (ev p) (ev y).
Proof. apply (ev_vsub phi). Qed.

(* ---- RLS ---- *)
Lemma hom_rls_gain P r : phi (rls_gain P r) = rls_gain (em P) (ev r).
Proof. unfold rls_gain. rewrite (hom_div phi), (hom_1 phi), (hom_add phi), (hom_1 phi), (ev_dot phi), (ev_mv phi). reflexivity. Qed.
Lemma em_rls_P P r : em (rls_P P r) = rls_P (em P) (ev r).
Proof. unfold rls_P. rewrite (em_msub phi), (em_mscale phi), (em_outer phi), hom_rls_gain, (ev_mv phi). reflexivity. Qed.
Lemma em_rls_wo P wo r e : em (rls_wo P wo r e) = rls_wo (em P) (em wo) (ev r) (ev e).
Proof.
  unfold rls_wo. rewrite (em_madd phi), (em_mscale phi), (em_outer phi), (hom_opp phi), hom_rls_gain, (ev_mv phi). reflexivity.
Qed.
Lemma e_rls_update hb s x y p : erdo (rls_update hb s x y p) = rls_update hb (erdo s) (ev x) (ev y) (ev p).
Proof.
  unfold rls_update. rewrite e_split_save, em_rls_wo, em_rls_P, em_assemble, ev_augment, ev_rerror. reflexivity.
Qed.
Lemma em_map_map (f : F -> F) (g : G -> G) A : (forall x, phi (f x) = g (phi x)) -> em (map (map f) A) = map (map g) (em A).
Proof. intros E. rewrite !map_map. apply map_ext. intros row. rewrite !map_map. apply map_ext. exact E. Qed.
Lemma e_rls_init hb idim odim alpha : erdo (rls_init hb idim odim alpha) = rls_init hb idim odim (phi alpha).
Proof.
  unfold rls_init, erdo. cbn [Wout bias Pm cursor]. rewrite (em_mzeros phi), (ev_vzeros phi). f_equal.
  rewrite (em_map_map (fun v => ndiv v alpha) (fun v => ndiv v (phi alpha))) by (intros; apply (hom_div phi)).
  rewrite (em_eye phi). reflexivity.
Qed.

(* ---- LMS ---- *)
Lemma hom_sched_at sc k : phi (sched_at sc k) = sched_at (esched sc) k.
Proof. unfold sched_at, esched. cbn [fst snd]. symmetry. apply map_nth. Qed.
Lemma em_lms_wo a wo r e : em (lms_wo a wo r e) = lms_wo (phi a) (em wo) (ev r) (ev e).
Proof. unfold lms_wo. rewrite (em_madd phi), (em_mscale phi), (em_outer phi), (hom_opp phi). reflexivity. Qed.
Lemma e_lms_update sc hb s x y p : erdo (lms_update sc hb s x y p) = lms_update (esched sc) hb (erdo s) (ev x) (ev y) (ev p).
Proof.
  unfold lms_update. rewrite e_split_save, em_lms_wo, hom_sched_at, em_assemble, ev_augment, ev_rerror. reflexivity.
Qed.
Lemma e_lms_init idim odim : erdo (lms_init idim odim) = lms_init idim odim.
Proof. unfold lms_init, erdo. cbn [Wout bias Pm cursor]. rewrite (em_mzeros phi), (ev_vzeros phi). reflexivity. Qed.

(* ---- the online loop, generic in the learner ---- *)
Section Loop.
Context {S1 S2 : Type} (es : S1 -> S2).
Variables (fwd1 : S1 -> list F -> list F) (upd1 : S1 -> list F -> list F -> list F -> S1).
Variables (fwd2 : S2 -> list G -> list G) (upd2 : S2 -> list G -> list G -> list G -> S2).
Hypothesis Hfwd : forall s x, ev (fwd1 s x) = fwd2 (es s) (ev x).
Hypothesis Hupd : forall s x y p, es (upd1 s x y p) = upd2 (es s) (ev x) (ev y) (ev p).
Definition eres (r : S1 * list (list F)) : S2 * list (list G) := (es (fst r), em (snd r)).

Lemma e_train_loop k single i s xy :
  eres (train_loop fwd1 upd1 k single i s xy) = train_loop fwd2 upd2 k single i (es s) (map exy xy).
Proof.
  revert i s. induction xy as [|[x y] xy IH]; intros i s; [reflexivity|].
  cbn [train_loop map exy fst snd].
  specialize (IH (S i) (if gate k single i then upd1 s x y (fwd1 s x) else s)).
  destruct (train_loop fwd1 upd1 k single (S i) _ xy) as [s2 outs] eqn:E1.
  replace (if gate k single i then upd2 (es s) (ev x) (ev y) (fwd2 (es s) (ev x)) else es s)
    with (es (if gate k single i then upd1 s x y (fwd1 s x) else s))
    by (destruct (gate k single i); [rewrite Hupd, Hfwd|]; reflexivity).
  rewrite <- IH. unfold eres. cbn [fst snd map]. rewrite Hfwd. reflexivity.
Qed.
Lemma e_train k s xy : eres (train fwd1 upd1 k s xy) = train fwd2 upd2 k (es s) (map exy xy).
Proof. unfold train. rewrite map_length. apply e_train_loop. Qed.
Lemma e_train_calls k s calls :
  (es (fst (train_calls fwd1 upd1 k s calls)), map em (snd (train_calls fwd1 upd1 k s calls)))
  = train_calls fwd2 upd2 k (es s) (map (map exy) calls).
Proof.
  revert s. induction calls as [|c cs IH]; intros s; [reflexivity|].
  cbn [train_calls map]. rewrite <- e_train.
  destruct (train fwd1 upd1 k s c) as [s1 o]. unfold eres. cbn [fst snd].
  rewrite <- IH. destruct (train_calls fwd1 upd1 k s1 cs) as [s2 os]. reflexivity.
Qed.
Lemma e_learn1 s p : es (learn1 fwd1 upd1 s p) = learn1 fwd2 upd2 (es s) (exy p).
Proof. unfold learn1, exy. cbn [fst snd]. rewrite Hupd, Hfwd. reflexivity. Qed.
End Loop.

Lemma e_rls_train hb odim k s xy :
  eres erdo (rls_train hb odim k s xy) = rls_train hb odim k (erdo s) (map exy xy).
Proof. unfold rls_train. apply e_train; intros; [apply ev_readout_forward | apply e_rls_update]. Qed.
Lemma e_lms_train sc hb odim k s xy :
  eres erdo (lms_train sc hb odim k s xy) = lms_train (esched sc) hb odim k (erdo s) (map exy xy).
Proof. unfold lms_train. apply e_train; intros; [apply ev_readout_forward | apply e_lms_update]. Qed.

(* ---- intrinsic plasticity ---- *)
Lemma hom_n2 : phi n2 = n2.
Proof. unfold n2. rewrite (hom_add phi), (hom_1 phi). reflexivity. Qed.
Lemma hom_gauss_db y mu sg eta : phi (gauss_db y mu sg eta) = gauss_db (phi y) (phi mu) (phi sg) (phi eta).
Proof.
  unfold gauss_db. cbv zeta.
  repeat (rewrite ?(hom_mul phi), ?(hom_add phi), ?(hom_sub phi), ?(hom_div phi), ?(hom_opp phi), ?(hom_1 phi), ?hom_n2).
  reflexivity.
Qed.
Lemma hom_exp_db y mu eta : phi (exp_db y mu eta) = exp_db (phi y) (phi mu) (phi eta).
Proof.
  unfold exp_db.
  repeat (rewrite ?(hom_mul phi), ?(hom_add phi), ?(hom_sub phi), ?(hom_div phi), ?(hom_opp phi), ?(hom_1 phi), ?hom_n2).
  reflexivity.
Qed.
Lemma hom_ip_da x a eta db : phi (ip_da x a eta db) = ip_da (phi x) (phi a) (phi eta) (phi db).
Proof. unfold ip_da. rewrite (hom_add phi), (hom_div phi), (hom_mul phi). reflexivity. Qed.
Definition epair (p : F * F) : G * G := (phi (fst p), phi (snd p)).
Lemma e_ip_unit t mu sg eta x y a b :
  epair (ip_unit t mu sg eta x y a b) = ip_unit t (phi mu) (phi sg) (phi eta) (phi x) (phi y) (phi a) (phi b).
Proof.
  unfold ip_unit, epair. cbv zeta. cbn [fst snd]. rewrite !(hom_add phi), hom_ip_da.
  destruct t; [rewrite hom_gauss_db | rewrite hom_exp_db]; reflexivity.
Qed.
Lemma e_ip_units t mu sg eta xs ys a b :
  (ev (fst (ip_units t mu sg eta xs ys a b)), ev (snd (ip_units t mu sg eta xs ys a b)))
  = ip_units t (phi mu) (phi sg) (phi eta) (ev xs) (ev ys) (ev a) (ev b).
Proof.
  revert ys a b. induction xs as [|x xs IH]; intros [|y ys] [|a0 a] [|b0 b]; try reflexivity.
  cbn [ip_units map]. rewrite <- e_ip_unit, <- IH.
  destruct (ip_unit t mu sg eta x y a0 b0) as [a1 b1]. destruct (ip_units t mu sg eta xs ys a b) as [ar br]. reflexivity.
Qed.
Definition eipcfg (c : ipcfg (F:=F)) : ipcfg (F:=G) :=
  {| cW := em (cW c); cWin := em (cWin c); cbias := ev (cbias c); clr := phi (clr c); ctanh := ctanh c;
     cmu := phi (cmu c); csigma := phi (csigma c); ceta := phi (ceta c) |}.
Definition eipst (st : ipst (F:=F)) : ipst (F:=G) :=
  {| ia := ev (ia st); ib := ev (ib st); iout := ev (iout st); iint := ev (iint st) |}.
Lemma ev_res_pre c st u : ev (res_pre c st u) = res_pre (eipcfg c) (eipst st) (ev u).
Proof.
  unfold res_pre. cbn [eipcfg eipst cW cWin cbias clr iint iout].
  rewrite !(ev_vadd phi), !(ev_vscale phi), !(ev_vadd phi), !(ev_mv phi), (hom_sub phi), (hom_1 phi). reflexivity.
Qed.
Lemma ev_ip_arg st x : ev (ip_arg st x) = ip_arg (eipst st) (ev x).
Proof. unfold ip_arg. rewrite (ev_vadd phi), (ev_vmul phi). reflexivity. Qed.
Lemma e_ip_step_y c st u y : eipst (ip_step_y c st u y) = ip_step_y (eipcfg c) (eipst st) (ev u) (ev y).
Proof.
  unfold ip_step_y. cbv zeta. rewrite <- ev_res_pre.
  cbn [eipcfg eipst ctanh cmu csigma ceta ia ib]. rewrite <- e_ip_units.
  destruct (ip_units (ctanh c) (cmu c) (csigma c) (ceta c) (res_pre c st u) y (ia st) (ib st)) as [a1 b1]. reflexivity.
Qed.
Lemma e_ip_step (f : F -> F) (g : G -> G) c st u : (forall x, phi (f x) = g (phi x)) ->
  eipst (ip_step f c st u) = ip_step g (eipcfg c) (eipst st) (ev u).
Proof.
  intros E. unfold ip_step. rewrite e_ip_step_y. f_equal.
  rewrite <- ev_res_pre, <- ev_ip_arg, !map_map. apply map_ext. exact E.
Qed.
Lemma e_ip_init n : eipst (ip_init n) = ip_init n.
Proof. unfold ip_init, eipst. cbn [ia ib iout iint]. rewrite (ev_vones phi), (ev_vzeros phi). reflexivity. Qed.
End BridgeC10.

(* ================================================================== the instance Q -> R *)
Notation rdo2r := (erdo Q2R).
Notation xy2r := (exy Q2R).
Notation sched2r := (esched Q2R).

Lemma Qforward_embeds (odim : nat) (s : rdo (F:=Q)) (x : list Q) :
  qv2r (readout_forward odim s x) = readout_forward odim (rdo2r s) (qv2r x).
Proof. apply (ev_readout_forward Q2R). Qed.

(* one RLS step, no side condition: gain 1/(1 + r'Pr), P <- P - c k k', wo <- wo - c k e', bias split *)
Lemma Qrls_embeds (hb : bool) (s : rdo (F:=Q)) (x y p : list Q) :
  Q2R (rls_gain (Pm s) (augment hb x)) = rls_gain (Pm (rdo2r s)) (augment hb (qv2r x)) /\
  rdo2r (rls_update hb s x y p) = rls_update hb (rdo2r s) (qv2r x) (qv2r y) (qv2r p).
Proof.
  split; [|apply (e_rls_update Q2R)].
  rewrite (hom_rls_gain Q2R), (ev_augment Q2R). reflexivity.
Qed.
Lemma Qlms_embeds (sc : sched (F:=Q)) (hb : bool) (s : rdo (F:=Q)) (x y p : list Q) :
  rdo2r (lms_update sc hb s x y p) = lms_update (sched2r sc) hb (rdo2r s) (qv2r x) (qv2r y) (qv2r p).
Proof. apply (e_lms_update Q2R). Qed.

(* the whole online loop from the initial node, any learn_every, any list of successive train calls:
   final learned state and every returned output row *)
Lemma Qrls_train_calls_embed (hb : bool) (idim odim : nat) (alpha : Q) (k : nat) (calls : list (list (list Q * list Q))) :
  let rQ := train_calls (readout_forward odim) (rls_update hb) k (rls_init hb idim odim alpha) calls in
  (rdo2r (fst rQ), map qm2r (snd rQ))
  = train_calls (readout_forward odim) (rls_update hb) k (rls_init hb idim odim (Q2R alpha)) (map (map xy2r) calls).
Proof.
  cbv zeta. rewrite <- (e_rls_init Q2R).
  apply (e_train_calls Q2R rdo2r); intros; [apply (ev_readout_forward Q2R) | apply (e_rls_update Q2R)].
Qed.
Lemma Qlms_train_calls_embed (sc : sched (F:=Q)) (hb : bool) (idim odim k : nat) (calls : list (list (list Q * list Q))) :
  let rQ := train_calls (readout_forward odim) (lms_update sc hb) k (lms_init idim odim) calls in
  (rdo2r (fst rQ), map qm2r (snd rQ))
  = train_calls (readout_forward odim) (lms_update (sched2r sc) hb) k (lms_init idim odim) (map (map xy2r) calls).
Proof.
  cbv zeta. rewrite <- (e_lms_init Q2R idim odim).
  apply (e_train_calls Q2R rdo2r); intros; [apply (ev_readout_forward Q2R) | apply (e_lms_update Q2R)].
Qed.

(* intrinsic plasticity: one learning step given the activation value (what chk_ip evaluates) *)
Lemma Qip_step_embeds (c : ipcfg (F:=Q)) (st : ipst (F:=Q)) (u y : list Q) :
  eipst Q2R (ip_step_y c st u y) = ip_step_y (eipcfg Q2R c) (eipst Q2R st) (qv2r u) (qv2r y).
Proof. apply (e_ip_step_y Q2R). Qed.

(* a concrete instance: RLS with bias, 2 inputs, 1 output, alpha = 1/2, one call of two samples, learn_every = 1.
   The R-model on the embedded data ends in exactly the embedded learned state the Q run computes
   (divisions by 1 + r'Pr = 11/2 and 310/121... included), and returns the embedded predictions. *)
Definition excalls : list (list (list Q * list Q)) :=
  [[([(1#2)%Q; (-1#1)%Q], [(3#4)%Q]); ([(1#4)%Q; (2#1)%Q], [(-1#2)%Q])]].
Example Qrls_train_calls_example :
  train_calls (readout_forward 1) (rls_update true) 1 (rls_init true 2 1 (Q2R (1#2)%Q)) (map (map xy2r) excalls)
  = (rdo2r {| Wout := [[(18#155)%Q]; [(-331#930)%Q]]; bias := [(193#930)%Q];
              Pm := [[(286#465)%Q; (-88#155)%Q; (-52#465)%Q]; [(-88#155)%Q; (272#155)%Q; (16#155)%Q];
                     [(-52#465)%Q; (16#155)%Q; (94#465)%Q]]; cursor := 0 |},
     map qm2r [[[0%Q]; [(-21#88)%Q]]]).
Proof. rewrite <- (Qrls_train_calls_embed true 2 1 (1#2)%Q 1 excalls). vm_compute train_calls. reflexivity. Qed.

(* ================================================================== the verdict of the correspondence runner, read at R
   [chk_rls] / [chk_lms] (run/RunC10.v) are the booleans evaluated at Q.  [calls_close] is the same walk over the successive
   train calls performed with the R-instance of the model on the embedded samples, the comparisons being the real inequality
   [rclose] (|m - o| <= 1e-9*max(1,|m|)) against the embedded observations.  A verdict [true] implies it. *)
From RV Require Import run.RunC10.

Definition same_rdo_R (s : rdo (F:=R)) (o : obs) : Prop :=
  mrclose (Wout s) (qm2r (o_W o)) /\ vrclose (bias s) (qv2r (o_b o)) /\ mrclose (Pm s) (qm2r (o_P o)) /\
  match o_cur o with Some n => cursor s = n | None => True end.
Fixpoint calls_close (fwd : rdo (F:=R) -> list R -> list R) (upd : rdo (F:=R) -> list R -> list R -> list R -> rdo (F:=R))
         (k : nat) (s : rdo (F:=R)) (calls : list (bool * list (list R * list R))) (os : list obs) : Prop :=
  match calls, os with
  | [], [] => True
  | (true, _) :: cs, o :: os' => same_rdo_R s o /\ calls_close fwd upd k s cs os'
  | (false, c) :: cs, o :: os' =>
      mrclose (snd (train fwd upd k s c)) (qm2r (o_out o)) /\ same_rdo_R (fst (train fwd upd k s c)) o /\
      calls_close fwd upd k (fst (train fwd upd k s c)) cs os'
  | _, _ => False
  end.
Definition calls2r (calls : list (bool * list (list Q * list Q))) : list (bool * list (list R * list R)) :=
  map (fun c => (fst c, map xy2r (snd c))) calls.

Lemma same_rdo_R_of (s : rdo (F:=Q)) (o : obs) : same_rdo s o = true -> same_rdo_R (rdo2r s) o.
Proof.
  unfold same_rdo, same_rdo_R. intros Hx. repeat (apply andb_true_iff in Hx; destruct Hx as [Hx ?]).
  cbn [erdo Wout bias Pm cursor]. repeat split; try (apply mclose_mrclose; assumption); try (apply vclose_vrclose; assumption).
  destruct (o_cur o); [apply Nat.eqb_eq; assumption | exact I].
Qed.
Lemma chk_calls_close fwdQ updQ fwdR updR k :
  (forall s x, qv2r (fwdQ s x) = fwdR (rdo2r s) (qv2r x)) ->
  (forall s x y p, rdo2r (updQ s x y p) = updR (rdo2r s) (qv2r x) (qv2r y) (qv2r p)) ->
  forall calls s os, chk_calls fwdQ updQ k s calls os = true -> calls_close fwdR updR k (rdo2r s) (calls2r calls) os.
Proof.
  intros Hf Hu. induction calls as [|[[|] c] cs IH]; intros s [|o os]; cbn [chk_calls calls2r map calls_close fst snd]; intros Hx;
    try discriminate; try exact I.
  - apply andb_true_iff in Hx. destruct Hx as [H1 H2]. split; [apply same_rdo_R_of, H1 | apply IH, H2].
  - pose proof (e_train Q2R rdo2r fwdQ updQ fwdR updR Hf Hu k s c) as Et. unfold eres in Et.
    destruct (train fwdQ updQ k s c) as [s1 outs]. cbn [fst snd] in Et.
    repeat (apply andb_true_iff in Hx; destruct Hx as [Hx ?]).
    change (map (exy Q2R) c) with (map xy2r c). rewrite <- Et. cbn [fst snd].
    split; [apply mclose_mrclose; assumption|]. split; [apply same_rdo_R_of; assumption | apply IH; assumption].
Qed.

Lemma chk_rls_is_about_R_model (hb : bool) (idim odim : nat) (alpha : Q) (k : nat)
      (calls : list (bool * list (list Q * list Q))) (os : list obs) :
  chk_rls hb idim odim alpha k calls os = true ->
  calls_close (readout_forward odim) (rls_update hb) k (rls_init hb idim odim (Q2R alpha)) (calls2r calls) os.
Proof.
  unfold chk_rls. intros Hx. rewrite <- (e_rls_init Q2R).
  apply (chk_calls_close (readout_forward odim) (rls_update hb)); [| |exact Hx]; intros;
    [apply (ev_readout_forward Q2R) | apply (e_rls_update Q2R)].
Qed.
Lemma chk_lms_is_about_R_model (sc : list Q * Q) (hb : bool) (idim odim k : nat)
      (calls : list (bool * list (list Q * list Q))) (os : list obs) :
  chk_lms sc hb idim odim k calls os = true ->
  calls_close (readout_forward odim) (lms_update (sched2r sc) hb) k (lms_init idim odim) (calls2r calls) os.
Proof.
  unfold chk_lms. intros Hx. rewrite <- (e_lms_init Q2R idim odim).
  apply (chk_calls_close (readout_forward odim) (lms_update sc hb)); [| |exact Hx]; intros;
    [apply (ev_readout_forward Q2R) | apply (e_lms_update Q2R)].
Qed.
(* the premise is satisfiable: the scenario of [Qrls_train_calls_example], observed exactly *)
Example chk_rls_example :
  chk_rls true 2 1 (1#2)%Q 1 [(false, [([(1#2)%Q; (-1#1)%Q], [(3#4)%Q]); ([(1#4)%Q; (2#1)%Q], [(-1#2)%Q])])]
    [{| o_out := [[0%Q]; [(-21#88)%Q]]; o_W := [[(18#155)%Q]; [(-331#930)%Q]]; o_b := [(193#930)%Q];
        o_P := [[(286#465)%Q; (-88#155)%Q; (-52#465)%Q]; [(-88#155)%Q; (272#155)%Q; (16#155)%Q]; [(-52#465)%Q; (16#155)%Q; (94#465)%Q]];
        o_cur := None |}] = true.
Proof. vm_compute. reflexivity. Qed.
