(* C06: the staging loop of get_offline_subgraphs (model/FitSem.v, part 1) on an ARBITRARY DAG of any size given with a
   topological order (wf_dagb, proofs/FitSem_staging_proofs.v) is GREEDY: the converse of staging_respects_ancestors.
     scan_complete      one `for node in _nodes:` pass from (incl0, trn0) reaches every node all of whose strict ancestors
                        are runnable (not offline, or trained before the pass): it is included when it is runnable itself and
                        trained when it is offline;
     staging_earliest   if every offline strict ancestor of the offline node b is trained in a stage < k, then b is trained
                        in a stage <= k (k = 0: a readout without offline ancestors is trained in the first stage);
     staging_stage_exact with staging_respects_ancestors: the stage of b is EXACTLY the least k above the stages of all its
                        offline ancestors (its "offline depth"), so the staging is determined by the graph alone;
     staging_rounds_bound  every stage trains at least one node, hence the number of stages (rounds of the `while` loop) is
                        at most the number of offline nodes.
   Termination itself (the fuel of the model never runs out) is staging_terminates; it needs "a node is in `offlines` iff
   it is trained offline", which is how the model defines `offline` -- false of the real code for a node carrying both an
   offline and an online rule (open finding fit-staging:offline-and-online-node-hangs).
   NOT proved here: C06_staging_valid_full_statement (validity of the symbolic execution of Model.fit on the staging for
   general DAGs of any size); see the comment at the end of the file for what is missing.
   Nothing here edits the model. *)
From Coq Require Import List Arith Bool Lia.
From RV Require Import model.FitSem proofs.FitSem_staging_proofs.
Import ListNotations.

Lemma filter_app_split {A} (P : A -> bool) : forall l a v b, filter P l = a ++ v :: b ->
  exists l1 l2, l = l1 ++ v :: l2 /\ filter P l1 = a.
Proof.
  induction l as [|x l IH]; intros a v b H; simpl in H; [destruct a; discriminate|].
  destruct (P x) eqn:E.
  - destruct a as [|y a]; simpl in H; inversion H; subst.
    + exists [], l. split; reflexivity.
    + destruct (IH a v b H2) as [l1 [l2 [-> Hf]]]. exists (y :: l1), l2. split; [reflexivity|]. simpl. rewrite E, Hf. reflexivity.
  - destruct (IH a v b H) as [l1 [l2 [-> Hf]]]. exists (x :: l1), l2. split; [reflexivity|]. simpl. rewrite E. exact Hf.
Qed.

Lemma NoDup_app_disjoint {A} (l1 l2 : list A) x : NoDup (l1 ++ l2) -> In x l1 -> In x l2 -> False.
Proof.
  induction l1 as [|y l1 IH]; intros H H1 H2; [destruct H1|]. simpl in H. apply NoDup_cons_iff in H as [Ha Hb].
  destruct H1 as [<-|H1]; [apply Ha; apply in_or_app; right; exact H2|exact (IH Hb H1 H2)].
Qed.

Lemma NoDup_app_tail {A} (l1 l2 : list A) : NoDup (l1 ++ l2) -> NoDup l2.
Proof. induction l1 as [|y l1 IH]; intros H; [exact H|]. simpl in H. apply NoDup_cons_iff in H as [_ H]. exact (IH H). Qed.

Lemma NoDup_concat_unique {A} : forall (T : list (list A)) j j' X Y b,
  NoDup (concat T) -> nth_error T j = Some X -> nth_error T j' = Some Y -> In b X -> In b Y -> j = j'.
Proof.
  induction T as [|t T IH]; intros j j' X Y b ND Hj Hj' HX HY; [destruct j; discriminate|].
  simpl in ND. destruct j as [|j], j' as [|j']; simpl in Hj, Hj'.
  - reflexivity.
  - inversion Hj; subst t. exfalso. apply (NoDup_app_disjoint _ _ b ND HX).
    apply in_concat. exists Y. split; [exact (nth_error_In _ _ Hj')|exact HY].
  - inversion Hj'; subst t. exfalso. apply (NoDup_app_disjoint _ _ b ND HY).
    apply in_concat. exists X. split; [exact (nth_error_In _ _ Hj)|exact HX].
  - f_equal. apply (IH j j' X Y b); auto. exact (NoDup_app_tail _ _ ND).
Qed.

Lemma length_concat_nonempty {A} : forall (T : list (list A)), (forall t, In t T -> t <> []) -> length T <= length (concat T).
Proof.
  induction T as [|t T IH]; intros H; [apply le_n|]. simpl. rewrite app_length.
  assert (Ht : t <> []) by (apply H; left; reflexivity).
  assert (IH' : length T <= length (concat T)) by (apply IH; intros u Hu; apply H; right; exact Hu).
  destruct t; [congruence|simpl; lia].
Qed.

Lemma train_sets_length g : forall subs trained, length (train_sets g trained subs) = length subs.
Proof. induction subs as [|s r IH]; intros trained; simpl; [reflexivity|]. rewrite IH. reflexivity. Qed.

(* ------------------------------------------------------------------------------------------------ one pass is complete *)
Section ScanComplete.
Variable g : graph.
Notation st := (list nat * list nat * list nat)%type.

(* runnable before the pass: a forward node, or an offline node trained in an earlier round *)
Definition passable (trn0 : list nat) (v : nat) : Prop := offline g v = false \/ In v trn0.
Definition clear (trn0 : list nat) (v : nat) : Prop := forall a, anc g a v -> passable trn0 a.

Definition topo_done (incl0 done : list nat) : Prop :=
  forall l1 v l2, done = l1 ++ v :: l2 -> forall p, In p (parents g v) -> In p l1 \/ In p incl0.

Definition cq (incl0 trn0 done : list nat) (s : st) : Prop :=
  topo_done incl0 done ->
  let '(sub, incl, trn) := s in
  (forall x, In x incl0 -> In x incl) /\ (forall x, In x trn0 -> In x trn) /\
  (forall v, In v done -> clear trn0 v -> (passable trn0 v -> In v incl) /\ (offline g v = true -> In v trn)).

Lemma cq_step incl0 trn0 done s x : cq incl0 trn0 done s -> cq incl0 trn0 (done ++ [x]) (scan_step g s x).
Proof.
  intros H Ht. destruct s as [[sub incl] trn].
  assert (Ht' : topo_done incl0 done).
  { intros l1 v l2 E p Hp. apply (Ht l1 v (l2 ++ [x])); [|exact Hp]. rewrite E, <- app_assoc. reflexivity. }
  destruct (H Ht') as [A [B C]]. clear H.
  assert (Hpar : forall p, In p (parents g x) -> In p done \/ In p incl0).
  { intros p Hp. apply (Ht done x []); [reflexivity|exact Hp]. }
  assert (Hready : clear trn0 x -> is_input g x || forallb (fun p => mem p incl) (parents g x) = true).
  { intros Hc. apply ready_spec. intros p Hp.
    assert (Hpx : In (p, x) (g_edges g)) by (apply parents_in_In; exact Hp).
    destruct (Hpar p Hp) as [Hd|Hi]; [|apply A; exact Hi].
    apply (C p Hd).
    - intros a Ha. apply Hc. exact (anc_step g a p x Ha Hpx).
    - apply Hc. apply anc_edge. exact Hpx. }
  unfold scan_step.
  destruct (is_input g x || forallb (fun p => mem p incl) (parents g x)) eqn:Er.
  - destruct (offline g x && negb (mem x trn)) eqn:Eo.
    + split; [exact A|]. split; [intros y Hy; right; apply B; exact Hy|].
      intros v Hv Hc. apply in_app_iff in Hv as [Hv|[<-|[]]].
      * destruct (C v Hv Hc) as [C1 C2]. split; [exact C1|]. intros Ho. right. apply C2. exact Ho.
      * apply andb_prop in Eo as [Eo1 Eo2]. apply negb_true_iff, mem_false in Eo2. split.
        -- intros [Hp|Hp]; [congruence|]. exfalso. apply Eo2. apply B. exact Hp.
        -- intros _. left. reflexivity.
    + split; [intros y Hy; right; apply A; exact Hy|]. split; [exact B|].
      intros v Hv Hc. apply in_app_iff in Hv as [Hv|[<-|[]]].
      * destruct (C v Hv Hc) as [C1 C2]. split; [|exact C2]. intros Hp. right. apply C1. exact Hp.
      * split; [intros _; left; reflexivity|]. intros Ho. rewrite Ho in Eo. simpl in Eo.
        apply negb_false_iff in Eo. apply mem_In. exact Eo.
  - split; [exact A|]. split; [exact B|].
    intros v Hv Hc. apply in_app_iff in Hv as [Hv|[<-|[]]]; [exact (C v Hv Hc)|].
    assert (Hr := Hready Hc). congruence.
Qed.

Hypothesis Hwf : wf_dagb g = true.

Lemma todo_topo incl0 : topo_done incl0 (todo_of g incl0).
Proof.
  intros l1 v l2 E p Hp. unfold todo_of in E. apply filter_app_split in E as [m1 [m2 [En Ef]]].
  destruct (nodes_split g Hwf _ _ _ En) as [_ Hpar]. specialize (Hpar p Hp).
  destruct (In_dec_nat p incl0) as [Hd|Hd]; [right; exact Hd|left].
  rewrite <- Ef. apply filter_In. split; [exact Hpar|]. apply negb_true_iff, mem_false. exact Hd.
Qed.

(* one pass reaches every node whose strict ancestors are all runnable *)
Lemma scan_complete incl0 trn0 sub incl trn :
  fold_left (scan_step g) (todo_of g incl0) ([], incl0, trn0) = (sub, incl, trn) ->
  forall v, In v (g_nodes g) -> ~ In v incl0 -> clear trn0 v ->
    (passable trn0 v -> In v incl) /\ (offline g v = true -> In v trn).
Proof.
  intros E v Hv Hn Hc.
  assert (H := fold_left_prefix_ind (scan_step g) (cq incl0 trn0) (cq_step incl0 trn0) (todo_of g incl0) [] ([], incl0, trn0)).
  simpl app in H. rewrite E in H.
  destruct H as [_ [_ C]].
  - intros _. split; [auto|]. split; [auto|]. intros u [].
  - apply todo_topo.
  - apply C; [|exact Hc]. apply filter_In. split; [exact Hv|]. apply negb_true_iff, mem_false. exact Hn.
Qed.
End ScanComplete.

(* ------------------------------------------------------------------------------------------------ where a round stops *)
(* A pass defers a node only behind a node it did not include: if every parent of v is included at the end of the pass, v has
   been included or trained in that pass.  So the stage boundaries are exactly the readouts trained in the round. *)
Section NoDefer.
Variable g : graph.
Hypothesis Hwf : wf_dagb g = true.
Notation st := (list nat * list nat * list nat)%type.

Lemma scan_incl_mono x : forall l (s : st), In x (snd (fst s)) -> In x (snd (fst (fold_left (scan_step g) l s))).
Proof.
  induction l as [|n l IH]; intros s H; [exact H|]. simpl. apply IH.
  destruct s as [[sub incl] trn]. unfold scan_step.
  destruct (is_input g n || forallb (fun p => mem p incl) (parents g n)); [|exact H].
  destruct (offline g n && negb (mem n trn)); [exact H|right; exact H].
Qed.

Lemma scan_incl_back p : forall l (s : st), ~ In p l -> In p (snd (fst (fold_left (scan_step g) l s))) -> In p (snd (fst s)).
Proof.
  induction l as [|n l IH]; intros s Hn H; [exact H|]. simpl in H.
  apply IH in H; [|intros Hc; apply Hn; right; exact Hc].
  destruct s as [[sub incl] trn]. unfold scan_step in H.
  destruct (is_input g n || forallb (fun q => mem q incl) (parents g n)); [|exact H].
  destruct (offline g n && negb (mem n trn)); [exact H|].
  destruct H as [<-|H]; [exfalso; apply Hn; left; reflexivity|exact H].
Qed.

Lemma scan_no_defer incl0 trn0 sub incl trn :
  fold_left (scan_step g) (todo_of g incl0) ([], incl0, trn0) = (sub, incl, trn) ->
  forall v, In v (g_nodes g) -> (forall p, In p (parents g v) -> In p incl) -> In v incl \/ In v trn.
Proof.
  intros E v Hv Hpar.
  destruct (In_dec_nat v incl0) as [Hd|Hd].
  { left. assert (H := scan_incl_mono v (todo_of g incl0) ([], incl0, trn0) Hd). rewrite E in H. exact H. }
  assert (Hin : In v (todo_of g incl0)).
  { apply filter_In. split; [exact Hv|]. apply negb_true_iff, mem_false. exact Hd. }
  apply in_split in Hin as [l1 [l2 El]].
  assert (ND : NoDup (l1 ++ v :: l2)) by (rewrite <- El; apply NoDup_filter; exact (nodes_NoDup g Hwf)).
  assert (Htopo := todo_topo g Hwf incl0 l1 v l2 El).
  rewrite El, fold_left_app in E. cbn [fold_left] in E.
  destruct (fold_left (scan_step g) l1 ([], incl0, trn0)) as [[sub1 incl1] trn1] eqn:E1.
  assert (Hp1 : forall p, In p (parents g v) -> In p incl1).
  { intros p Hp. destruct (Htopo p Hp) as [Hl|Hi].
    - assert (Hnp : ~ In p (v :: l2)) by (intros Hc; exact (NoDup_app_disjoint _ _ p ND Hl Hc)).
      assert (H := Hpar p Hp).
      assert (H' : In p (snd (fst (fold_left (scan_step g) (v :: l2) (sub1, incl1, trn1))))) by (cbn [fold_left]; rewrite E; exact H).
      exact (scan_incl_back p (v :: l2) (sub1, incl1, trn1) Hnp H').
    - assert (H := scan_incl_mono p l1 ([], incl0, trn0) Hi). rewrite E1 in H. exact H. }
  assert (Er : is_input g v || forallb (fun p => mem p incl1) (parents g v) = true) by (apply ready_spec; exact Hp1).
  unfold scan_step in E at 2. rewrite Er in E.
  destruct (offline g v && negb (mem v trn1)).
  - right. assert (H := scan_trn_mono g v l2 (sub1 ++ [v], incl1, v :: trn1) (or_introl eq_refl)). rewrite E in H. exact H.
  - left. assert (H := scan_incl_mono v l2 ((if is_output g v then sub1 else sub1 ++ [v]), v :: incl1, trn1) (or_introl eq_refl)).
    rewrite E in H. exact H.
Qed.
End NoDefer.

(* ------------------------------------------------------------------------------------------------ the loop is greedy *)
Section Greedy.
Variable g : graph.
Hypothesis Hwf : wf_dagb g = true.

Definition Post2 (trn trained : list nat) (subs : list (list nat)) : Prop :=
  let T := train_sets g trained subs in
  (forall Tb, In Tb T -> Tb <> []) /\
  (forall k b, In b (g_nodes g) -> offline g b = true -> ~ In b trn ->
     (forall a, anc g a b -> offline g a = true -> In a trn \/ exists i Ta, i < k /\ nth_error T i = Some Ta /\ In a Ta) ->
     exists j Tb, j <= k /\ nth_error T j = Some Tb /\ In b Tb).

Lemma post2_done incl trn trained :
  Inv g incl trn -> set_eqb trn (filter (offline g) (g_nodes g)) = true -> Post2 trn trained [].
Proof.
  intros _ H. unfold set_eqb in H. apply andb_prop in H as [_ H]. rewrite subset_In in H.
  split; [intros Tb []|]. intros k b Hb Ho Hn _. exfalso. apply Hn. apply H. apply filter_In. split; assumption.
Qed.

Lemma loop_post2 : forall fuel incl trn r,
  Inv g incl trn -> stages_loop g fuel (todo_of g incl) incl trn [] = Some r ->
  forall trained, (forall x, In x trained <-> In x trn) -> Post2 trn trained (map fst r).
Proof.
  induction fuel as [|fuel IH]; intros incl trn r HI H trained Ht.
  - simpl in H. destruct (set_eqb trn (filter (offline g) (g_nodes g))) eqn:E; [|discriminate].
    inversion H; subst. apply (post2_done incl); assumption.
  - rewrite loop_S in H. destruct (set_eqb trn (filter (offline g) (g_nodes g))) eqn:E.
    { inversion H; subst. apply (post2_done incl); assumption. }
    destruct (fold_left (scan_step g) (todo_of g incl) ([], incl, trn)) as [[sub incl'] trn'] eqn:Es.
    rewrite (loop_acc g) in H. destruct (stages_loop g fuel (todo_of g incl') incl' trn' []) as [r'|] eqn:El; [|discriminate].
    simpl in H. inversion H; subst r. clear H. simpl map.
    assert (HB := scan_facts g Hwf _ _ _ _ _ Es).
    destruct (scan_Inv g _ _ _ _ _ HI HB) as [HI' Hfine].
    assert (Ex : existsb (untrained g trn) (g_nodes g) = true).
    { destruct (existsb (untrained g trn) (g_nodes g)) eqn:Ex; [reflexivity|apply (loop_done g _ _ HI) in Ex; congruence]. }
    destruct (scan_progress g Hwf _ _ _ _ _ HI Es Ex) as [u [Hu1 [Hu2 [Hu3 Hu4]]]].
    assert (HC := scan_complete g Hwf _ _ _ _ _ Es).
    destruct HB as [B1 [B2 [B3 [B4 [B5 B6]]]]].
    set (T0 := filter (fun n => offline g n && negb (mem n trained)) sub).
    assert (K : forall x, In x T0 <-> (In x trn' /\ ~ In x trn)).
    { intros x. unfold T0. rewrite filter_In. split.
      - intros [Hs Hx]. apply andb_prop in Hx as [Hx1 Hx2]. apply negb_true_iff, mem_false in Hx2.
        destruct (B5 x Hs) as [_ [Hc|[Hc1 Hc2]]]; [exact Hc|]. exfalso.
        destruct (B3 x Hc1) as [Hc|[_ [[Hc|Hc] _]]]; [exact (Hc2 Hc)|congruence|apply Hx2; apply Ht; exact Hc].
      - intros [Hx1 Hx2]. destruct (B4 x Hx1) as [Hc|[_ [Ho [_ [_ Hs]]]]]; [contradiction|]. split; [exact Hs|].
        rewrite Ho. simpl. apply negb_true_iff, mem_false. intros Hc. apply Hx2. apply Ht. exact Hc. }
    assert (Ht' : forall x, In x (T0 ++ trained) <-> In x trn').
    { intros x. rewrite in_app_iff, K, Ht. split.
      - intros [[Hx _]|Hx]; [exact Hx|apply B2; exact Hx].
      - intros Hx. destruct (In_dec_nat x trn) as [Hd|Hd]; [right; exact Hd|left; split; assumption]. }
    specialize (IH incl' trn' r' HI' El (T0 ++ trained) Ht').
    destruct IH as [P1 P2].
    unfold Post2. simpl train_sets. fold T0. split.
    + intros Tb [<-|Hin]; [|apply P1; exact Hin]. intros E0.
      assert (Hu : In u T0) by (apply K; split; assumption). rewrite E0 in Hu. destruct Hu.
    + intros k b Hb Ho Hn Hanc.
      destruct (In_dec_nat b trn') as [Hd|Hd].
      { exists 0, T0. split; [lia|]. split; [reflexivity|]. apply K. split; assumption. }
      destruct k as [|k].
      * exfalso. apply Hd. apply (HC b Hb); [| |exact Ho].
        -- intros Hi. apply Hn. apply (proj1 HI b Hi). exact Ho.
        -- intros a Ha. destruct (offline g a) eqn:Eoa; [|left; exact Eoa]. right.
           destruct (Hanc a Ha Eoa) as [Hc|[i [Ta [Hi _]]]]; [exact Hc|lia].
      * destruct (P2 k b Hb Ho Hd) as [j [Tb [Hj [Hn' Hin]]]].
        { intros a Ha Eoa. destruct (Hanc a Ha Eoa) as [Hc|[i [Ta [Hi [Hn' Hin]]]]]; [left; apply B2; exact Hc|].
          destruct i as [|i]; simpl in Hn'.
          - inversion Hn'; subst Ta. left. apply K in Hin. apply Hin.
          - right. exists i, Ta. split; [lia|]. split; assumption. }
        exists (S j), Tb. split; [lia|]. split; assumption.
Qed.

Lemma staging_post2 stg :
  get_offline_subgraphs g = Some stg -> Post2 [] [] (map s_nodes stg).
Proof.
  intros H. destruct (loop_result g Hwf) as [subs [H1 [_ H3]]]. rewrite H3 in H. destruct subs as [|s0 subs]; [discriminate|].
  inversion H; subst stg. rewrite stages_of_nodes. rewrite <- (todo_nil g) in H1.
  apply (loop_post2 _ _ _ _ (inv_init g) H1). intros x. tauto.
Qed.

(* GREEDY: an offline node all of whose offline strict ancestors are trained in stages < k is trained in a stage <= k *)
Theorem staging_earliest stg :
  get_offline_subgraphs g = Some stg ->
  let T := train_sets g [] (map s_nodes stg) in
  forall k b, In b (g_nodes g) -> offline g b = true ->
    (forall a, anc g a b -> offline g a = true -> exists i Ta, i < k /\ nth_error T i = Some Ta /\ In a Ta) ->
    exists j Tb, j <= k /\ nth_error T j = Some Tb /\ In b Tb.
Proof.
  intros H T k b Hb Ho Hanc. destruct (staging_post2 stg H) as [_ P2].
  apply (P2 k b Hb Ho); [intros []|]. intros a Ha Eoa. right. exact (Hanc a Ha Eoa).
Qed.

(* every stage trains at least one node *)
Theorem staging_stage_nonempty stg :
  get_offline_subgraphs g = Some stg ->
  forall Tb, In Tb (train_sets g [] (map s_nodes stg)) -> Tb <> [].
Proof. intros H. exact (proj1 (staging_post2 stg H)). Qed.

(* with staging_respects_ancestors: the stage j of b is the LEAST k such that every offline strict ancestor of b is trained in a
   stage < k -- the staging is a function of the graph alone (the "offline depth" of each readout) *)
Theorem staging_stage_exact stg :
  get_offline_subgraphs g = Some stg ->
  let T := train_sets g [] (map s_nodes stg) in
  forall j Tb b, nth_error T j = Some Tb -> In b Tb ->
    (forall a, anc g a b -> offline g a = true -> exists i Ta, i < j /\ nth_error T i = Some Ta /\ In a Ta) /\
    (forall k, (forall a, anc g a b -> offline g a = true -> exists i Ta, i < k /\ nth_error T i = Some Ta /\ In a Ta) -> j <= k).
Proof.
  intros H T j Tb b Hn Hb. split.
  - intros a Ha Ho. exact (staging_respects_ancestors g Hwf stg H j Tb a b Hn Hb Ha Ho).
  - intros k Hk. destruct (staging_trains_each_once g Hwf stg H) as [ND Hall].
    assert (Hc : In b (concat (train_sets g [] (map s_nodes stg)))).
    { apply in_concat. exists Tb. split; [exact (nth_error_In _ _ Hn)|exact Hb]. }
    apply Hall in Hc as [Hbn Hbo].
    destruct (staging_earliest stg H k b Hbn Hbo Hk) as [j' [Tb' [Hj' [Hn' Hb']]]].
    rewrite (NoDup_concat_unique _ j j' Tb Tb' b ND Hn Hn' Hb Hb'). exact Hj'.
Qed.

(* the `while` loop makes at most one round per offline node *)
Theorem staging_rounds_bound stg :
  get_offline_subgraphs g = Some stg -> length stg <= length (filter (offline g) (g_nodes g)).
Proof.
  intros H. destruct (staging_trains_each_once g Hwf stg H) as [ND Hall].
  assert (Hne := staging_stage_nonempty stg H).
  rewrite <- (map_length s_nodes stg), <- (train_sets_length g (map s_nodes stg) []).
  etransitivity; [apply length_concat_nonempty; exact Hne|].
  apply NoDup_incl_length; [exact ND|]. intros x Hx. apply Hall in Hx. apply filter_In. exact Hx.
Qed.

End Greedy.

(* non-vacuity: a 7-node DAG that is not a chain (a diamond 0 -> {1 >> 3, 2 >> 4} -> 5 >> 6), readouts 3, 4 (no offline
   ancestor: stage 0) and 6 (offline ancestors 3 and 4: stage 1) *)
Definition g_dag7 : graph := mkG [0; 1; 2; 3; 4; 5; 6] [(0, 1); (0, 2); (1, 3); (2, 4); (3, 5); (4, 5); (5, 6)] [3; 4; 6].
Lemma g_dag7_example :
  wf_dagb g_dag7 = true /\
  (exists stg, get_offline_subgraphs g_dag7 = Some stg /\
               map s_nodes stg = [[0; 1; 2; 3; 4]; [3; 4; 5; 6]] /\ train_sets g_dag7 [] (map s_nodes stg) = [[3; 4]; [6]]) /\
  anc g_dag7 3 6 /\ anc g_dag7 4 6 /\ (forall a, anc g_dag7 a 3 -> offline g_dag7 a = true -> False).
Proof.
  split; [vm_compute; reflexivity|]. split; [eexists; split; [vm_compute; reflexivity|split; vm_compute; reflexivity]|].
  split; [|split].
  - apply (anc_step _ 3 5 6); [apply anc_edge|]; simpl; tauto.
  - apply (anc_step _ 4 5 6); [apply anc_edge|]; simpl; tauto.
  - assert (K : forall a b, anc g_dag7 a b -> b = 3 -> a = 0 \/ a = 1).
    { induction 1 as [a b H|a c b H IH H']; intros ->.
      - simpl in H. repeat (destruct H as [H|H]; [inversion H; subst; try discriminate; tauto|]). destruct H.
      - simpl in H'. assert (c = 1).
        { repeat (destruct H' as [H'|H']; [inversion H'; subst; try discriminate; reflexivity|]). destruct H'. }
        subst c. clear IH. 
        assert (K1 : forall a b, anc g_dag7 a b -> b = 1 -> a = 0).
        { clear. induction 1 as [a b H|a c b H IH H']; intros ->.
          - simpl in H. repeat (destruct H as [H|H]; [inversion H; subst; try discriminate; reflexivity|]). destruct H.
          - simpl in H'. assert (c = 0).
            { repeat (destruct H' as [H'|H']; [inversion H'; subst; try discriminate; reflexivity|]). destruct H'. }
            subst c. exfalso. clear IH. 
            assert (K0 : forall a b, anc g_dag7 a b -> b = 0 -> False).
            { clear. induction 1 as [a b H|a c b H IH H']; intros ->.
              - simpl in H. repeat (destruct H as [H|H]; [inversion H|]). destruct H.
              - simpl in H'. repeat (destruct H' as [H'|H']; [inversion H'|]). destruct H'. }
            exact (K0 _ _ H eq_refl). }
        left. exact (K1 _ _ H eq_refl). }
    intros a Ha Ho. destruct (K a 3 Ha eq_refl) as [->| ->]; vm_compute in Ho; discriminate.
Qed.

(* ------------------------------------------------------------------------------------------------ the full statement *)
(* C06_staging_valid_full_statement (props/C06.v) quantifies over EVERY graph record, without wf_dagb.  As written it is
   FALSE: for the node list [1; 0] with the edge 0 -> 1 (NOT a topological order; Model.nodes always is one) the staging loop
   still finds the two stages [0], [1] and Model.fit trains the readout 1 on the output of 0, but the explicit procedure, which
   follows g_nodes, fits 1 before 0 has run.  The statement to prove therefore carries wf_dagb (staging_valid_dag_statement). *)
Definition g_unsorted : graph := mkG [1; 0] [(0, 1)] [1].
Lemma staging_full_statement_needs_topo_order :
  ~ (forall g stg, get_offline_subgraphs g = Some stg -> supportedb g stg = true ->
                   valid_stagingb g (filter (is_input g) (g_nodes g)) (filter (offline g) (g_nodes g)) stg = true).
Proof.
  intros H.
  assert (E : get_offline_subgraphs g_unsorted = Some [mkStage [0] [] [(0, [1])]; mkStage [1] [] []]) by (vm_compute; reflexivity).
  specialize (H _ _ E). vm_compute in H. specialize (H eq_refl). discriminate.
Qed.

(* the statement that remains open: general DAGs of any size, in topological order *)
Definition staging_valid_dag_statement : Prop :=
  forall g stg, wf_dagb g = true -> get_offline_subgraphs g = Some stg -> supportedb g stg = true ->
                valid_stagingb g (filter (is_input g) (g_nodes g)) (filter (offline g) (g_nodes g)) stg = true.
(* both examples of this file and of FitSem_staging_proofs.v are instances of it *)
Lemma staging_valid_dag_instances : default_valid g_dag7 = true /\ default_valid g_seven = true.
Proof. split; vm_compute; reflexivity. Qed.

(* WHAT IS MISSING for staging_valid_dag_statement.  Proved so far for every wf DAG: which offline nodes each stage trains
   (exactly those of offline depth = stage index: staging_stage_exact), each once, ancestors listed in earlier-or-equal
   stages (staging_ancestors_run), number of stages (staging_rounds_bound).  Not proved: the DATA PLUMBING of Model.fit
   on such a staging, i.e. the symbolic execution of run_stage on an arbitrary stage:
     (a) run_fwd over the forward sub-DAG of stage i returns, for every listed node v, the term the explicit procedure
         gives v -- needs: every parent of v is either in the same stage's forward part (edge kept by s_edges/fedges) or
         its term arrives through Xs under the key v (dist_states of stage i-1 via get_links), and the column order
         parents-then-external is preserved; supportedb S3 is exactly what makes this true for fan-in nodes;
     (b) dist_states never writes a key twice (the relation (n, cs) of get_links gives one writer per next-stage node:
         needs S1/S3) and, in the last stage, required_from's `currs -> nexts` links feed every remaining readout (S2);
     (c) fit_nodes finds dist[v] for every v trained in stage i (v has exactly one parent, S1, which runs in stage i).
   The chain proof (chain_run_fwd, chain_run_stage, chain_fit_fold in FitSem_staging_proofs.v) does (a)-(c) for the closed
   form of a chain's stages; for general DAGs the stage contents are only characterised by scan_body, and (a) needs an
   induction over the topological order inside a stage with the invariant "tr v = explicit term of v". *)

(* ------------------------------------------------------------------------------------------------ larger bounded sweeps *)
(* Evidence for staging_valid_dag_statement beyond the 5-node sweep of FitSem_proofs.v (every fan-in order):
     edge_lists_s n : every DAG on 0..n-1 in topological order, each fan-in in increasing order of the parents;
     edge_lists_f n : every FOREST on 0..n-1 in topological order (each node has at most one parent);
   with every non-empty set of single-parent offline nodes (labellings).  (Forests with 8 nodes: also true, 6 minutes of
   vm_compute, not kept in the build.) *)
Fixpoint edge_lists_s (n : nat) : list (list (nat * nat)) :=
  match n with
  | O => [[]]
  | S j => flat_map (fun es => map (fun ps => es ++ map (fun p => (p, j)) ps) (sublists (seq 0 j))) (edge_lists_s j)
  end.
Fixpoint edge_lists_f (n : nat) : list (list (nat * nat)) :=
  match n with
  | O => [[]]
  | S j => flat_map (fun es => es :: map (fun p => es ++ [(p, j)]) (seq 0 j)) (edge_lists_f j)
  end.
Definition sweep_okb (ess : list (list (nat * nat))) (n : nat) : bool :=
  forallb (fun es => forallb (fun off => staging_okb (mkG (seq 0 n) es off)) (labellings n es)) ess.

Lemma staging_sweep_sorted_6 : sweep_okb (edge_lists_s 6) 6 = true.
Proof. vm_cast_no_check (eq_refl true). Qed.
Lemma staging_sweep_forest_7 : sweep_okb (edge_lists_f 6) 6 && sweep_okb (edge_lists_f 7) 7 = true.
Proof. vm_cast_no_check (eq_refl true). Qed.

Lemma sweep_okb_spec ess n es off :
  sweep_okb ess n = true -> In es ess -> In off (labellings n es) ->
  let g := mkG (seq 0 n) es off in
  exists stg, get_offline_subgraphs g = Some stg /\
              (supportedb g stg = true ->
               valid_stagingb g (filter (is_input g) (g_nodes g)) (filter (offline g) (g_nodes g)) stg = true).
Proof.
  intros Hall Hes Hoff g. unfold sweep_okb in Hall. rewrite forallb_forall in Hall. specialize (Hall es Hes).
  rewrite forallb_forall in Hall. specialize (Hall off Hoff). fold g in Hall. unfold staging_okb in Hall.
  destruct (get_offline_subgraphs g) as [stg|]; [|discriminate].
  exists stg. split; [reflexivity|]. intros Hs. rewrite Hs in Hall. exact Hall.
Qed.

Theorem staging_valid_sorted_6 es off :
  In es (edge_lists_s 6) -> In off (labellings 6 es) ->
  let g := mkG (seq 0 6) es off in
  exists stg, get_offline_subgraphs g = Some stg /\
              (supportedb g stg = true ->
               valid_stagingb g (filter (is_input g) (g_nodes g)) (filter (offline g) (g_nodes g)) stg = true).
Proof. exact (sweep_okb_spec _ 6 es off staging_sweep_sorted_6). Qed.

Theorem staging_valid_forest_7 n es off :
  6 <= n <= 7 -> In es (edge_lists_f n) -> In off (labellings n es) ->
  let g := mkG (seq 0 n) es off in
  exists stg, get_offline_subgraphs g = Some stg /\
              (supportedb g stg = true ->
               valid_stagingb g (filter (is_input g) (g_nodes g)) (filter (offline g) (g_nodes g)) stg = true).
Proof.
  intros Hn. pose proof staging_sweep_forest_7 as H. apply andb_prop in H as [H6 H7].
  assert (E : n = 6 \/ n = 7) by lia. destruct E as [-> | ->]; apply sweep_okb_spec; assumption.
Qed.
