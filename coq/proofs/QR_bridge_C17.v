(* C17: the window nodes run at Q, then embedded in R, ARE the window nodes run at R on the embedded data.

   model/Windows.v is one term over [Num F]; the theorems of props/C17.v hold for every instance, the correspondence run
   (run/RunC17.v: chk_delay, chk_nvar, chk_concat, chk_fanin) evaluates the instance at Q.  For every homomorphism [phi] of the
   class (base/NumHom.v), in particular [Q2R]: the Delay step and run, the NVAR step (roll, strided selection, monomials of any
   order) and run, the zero store, Concat and the name-sorted fan-in all commute with the entry-wise embedding.
   No shape hypothesis, no side condition.  (This file is the only part of C17's cone that mentions the reals.) *)
From Coq Require Import Reals QArith Qreals List Bool Arith.
From Coq Require String.
From RV Require Import base.Num base.LA base.NumHom model.Windows.
Import ListNotations.
Close Scope Q_scope.

Section BridgeC17.
Context {F G : Type} {NF : Num F} {NG : Num G} (phi : F -> G) {HH : NumHom phi}.
Local Notation ev := (map phi).
Local Notation em := (map (map phi)).

(* ---- Delay ---- *)
Lemma e_delay_step buf x :
  (em (fst (delay_step buf x)), ev (snd (delay_step buf x))) = delay_step (em buf) (ev x).
Proof.
  unfold delay_step. cbv zeta. cbn [fst snd].
  rewrite (map_removelast (map phi) (x :: buf)), (map_last_dflt (map phi) (x :: buf) x). reflexivity.
Qed.
Lemma e_delay_run buf xs :
  (em (fst (delay_run buf xs)), em (snd (delay_run buf xs))) = delay_run (em buf) (em xs).
Proof.
  revert buf. induction xs as [|x xs IH]; intros buf; [reflexivity|].
  cbn [delay_run map]. rewrite <- e_delay_step.
  destruct (delay_step buf x) as [b1 o]. cbn [fst snd]. rewrite <- IH.
  destruct (delay_run b1 xs) as [b2 os]. reflexivity.
Qed.

(* ---- NVAR ---- *)
Lemma map_every_from {A B} (f : A -> B) s k (l : list A) : map f (every_from s k l) = every_from s k (map f l).
Proof. revert k. induction l as [|a l IH]; intros [|k]; cbn; try reflexivity; rewrite IH; reflexivity. Qed.
Lemma map_stride {A B} (f : A -> B) s (l : list A) : map f (stride s l) = stride s (map f l).
Proof. apply map_every_from. Qed.
Lemma hom_vprod v : phi (vprod v) = vprod (ev v).
Proof. apply (ev_fold_prod phi). Qed.
Lemma ev_monomials lin idx : ev (monomials lin idx) = monomials (ev lin) idx.
Proof.
  unfold monomials. rewrite map_map. apply map_ext. intros c. rewrite hom_vprod, map_map. f_equal.
  apply map_ext. intros i. apply (ev_nth0 phi).
Qed.
Lemma e_nvar_step order strides store x :
  (em (fst (nvar_step order strides store x)), ev (snd (nvar_step order strides store x)))
  = nvar_step order strides (em store) (ev x).
Proof.
  unfold nvar_step. cbv zeta. cbn [fst snd].
  rewrite <- (map_removelast (map phi) store).
  change (ev x :: em (removelast store)) with (em (x :: removelast store)).
  rewrite <- (map_stride (map phi)), <- concat_map, map_length, map_app, ev_monomials. reflexivity.
Qed.
Lemma e_nvar_run order strides store xs :
  (em (fst (nvar_run order strides store xs)), em (snd (nvar_run order strides store xs)))
  = nvar_run order strides (em store) (em xs).
Proof.
  revert store. induction xs as [|x xs IH]; intros store; [reflexivity|].
  cbn [nvar_run map]. rewrite <- e_nvar_step.
  destruct (nvar_step order strides store x) as [s1 o]. cbn [fst snd]. rewrite <- IH.
  destruct (nvar_run order strides s1 xs) as [s2 os]. reflexivity.
Qed.
Lemma em_nvar_init delay strides dim : em (nvar_init delay strides dim) = nvar_init delay strides dim.
Proof. unfold nvar_init. rewrite map_repeat', (ev_vzeros phi). reflexivity. Qed.

(* ---- Concat and the name-sorted fan-in ---- *)
Lemma ev_concat_forward data : ev (concat_forward data) = concat_forward (em data).
Proof. apply concat_map. Qed.
Definition ekv (p : String.string * list F) : String.string * list G := (fst p, ev (snd p)).
Lemma map_insert_key k a l : map ekv (insert_key k a l) = insert_key k (ev a) (map ekv l).
Proof.
  induction l as [|[k' a'] l IH]; [reflexivity|]. cbn [insert_key map ekv fst snd].
  destruct (String.ltb k k'); cbn [map ekv fst snd]; [reflexivity | rewrite IH; reflexivity].
Qed.
Lemma map_sort_keys l : map ekv (sort_keys l) = sort_keys (map ekv l).
Proof. unfold sort_keys. induction l as [|p l IH]; [reflexivity|]. cbn [fold_right map]. rewrite map_insert_key, IH. reflexivity. Qed.
Lemma ev_fanin_concat child parents : ev (fanin_concat child parents) = fanin_concat child (map ekv parents).
Proof.
  unfold fanin_concat. rewrite ev_concat_forward. f_equal.
  rewrite !map_map.
  rewrite (map_ext (fun p => ev (snd p)) (fun p => snd (ekv p))) by reflexivity.
  rewrite <- (map_map ekv snd), map_sort_keys, !map_map. reflexivity.
Qed.
End BridgeC17.

(* ================================================================== the instance Q -> R *)
(* one step of Delay and of NVAR (new buffer / store, emitted row); whole runs; fresh NVAR store; Concat; fan-in *)
Lemma Qwindows_embed :
  (forall (buf : list (list Q)) (x : list Q),
     (qm2r (fst (delay_step buf x)), qv2r (snd (delay_step buf x))) = delay_step (qm2r buf) (qv2r x)) /\
  (forall (order strides : nat) (store : list (list Q)) (x : list Q),
     (qm2r (fst (nvar_step order strides store x)), qv2r (snd (nvar_step order strides store x)))
     = nvar_step order strides (qm2r store) (qv2r x)).
Proof. split; intros; [apply (e_delay_step Q2R) | apply (e_nvar_step Q2R)]. Qed.

Lemma Qwindows_runs_embed :
  (forall (buf xs : list (list Q)),
     (qm2r (fst (delay_run buf xs)), qm2r (snd (delay_run buf xs))) = delay_run (qm2r buf) (qm2r xs)) /\
  (forall (delay order strides dim : nat) (xs : list (list Q)),
     let r := nvar_run order strides (nvar_init delay strides dim) xs in
     (qm2r (fst r), qm2r (snd r)) = nvar_run order strides (nvar_init delay strides dim) (qm2r xs)) /\
  (forall (data : list (list Q)), qv2r (concat_forward data) = concat_forward (qm2r data)) /\
  (forall (child : String.string) (parents : list (String.string * list Q)),
     qv2r (fanin_concat child parents) = fanin_concat child (map (ekv Q2R) parents)).
Proof.
  split; [|split; [|split]]; intros.
  - apply (e_delay_run Q2R).
  - subst r. rewrite (e_nvar_run Q2R), (em_nvar_init Q2R). reflexivity.
  - apply (ev_concat_forward Q2R).
  - apply (ev_fanin_concat Q2R).
Qed.

(* a concrete instance: NVAR delay 2, strides 1, order 2, dimension 2, three steps from the zero store *)
Definition exxs : list (list Q) := [[(1#2)%Q; (-3#1)%Q]; [(1#4)%Q; (2#1)%Q]; [(-3#2)%Q; (1#8)%Q]].
Example Qwindows_nvar_example :
  snd (nvar_run 2 1 (nvar_init 2 1 2) (qm2r exxs))
  = qm2r [[(1#2)%Q; (-3#1)%Q; 0%Q; 0%Q; (1#4)%Q; (-3#2)%Q; 0%Q; 0%Q; (9#1)%Q; 0%Q; 0%Q; 0%Q; 0%Q; 0%Q];
          [(1#4)%Q; (2#1)%Q; (1#2)%Q; (-3#1)%Q; (1#16)%Q; (1#2)%Q; (1#8)%Q; (-3#4)%Q; (4#1)%Q; (1#1)%Q; (-6#1)%Q; (1#4)%Q; (-3#2)%Q; (9#1)%Q];
          [(-3#2)%Q; (1#8)%Q; (1#4)%Q; (2#1)%Q; (9#4)%Q; (-3#16)%Q; (-3#8)%Q; (-3#1)%Q; (1#64)%Q; (1#32)%Q; (1#4)%Q; (1#16)%Q; (1#2)%Q; (4#1)%Q]].
Proof.
  destruct Qwindows_runs_embed as (_ & Hn & _). specialize (Hn 2 2 1 2 exxs). cbv zeta in Hn.
  rewrite <- Hn. cbn [snd]. vm_compute nvar_run. reflexivity.
Qed.
(* Delay with two initial rows, three inputs: final buffer and the emitted rows *)
Example Qwindows_delay_example :
  delay_run (qm2r [[(7#1)%Q]; [(9#2)%Q]]) (qm2r [[(1#2)%Q]; [(1#4)%Q]; [(-3#2)%Q]])
  = (qm2r [[(-3#2)%Q]; [(1#4)%Q]], qm2r [[(9#2)%Q]; [(7#1)%Q]; [(1#2)%Q]]).
Proof.
  destruct Qwindows_runs_embed as (Hd & _). rewrite <- Hd. vm_compute delay_run. reflexivity.
Qed.

(* ================================================================== the verdict of the correspondence runner, read at R
   [chk_delay], [chk_nvar], [chk_concat], [chk_fanin] (run/RunC17.v) are the booleans evaluated at Q; a verdict [true] says
   that the R-instance of the model on the embedded inputs is within 1e-9*max(1,|model|) of the embedded observations. *)
From RV Require Import run.RunC17.

Lemma chk_windows_are_about_R_model :
  (forall init xs outs buf : list (list Q), chk_delay init xs outs buf = true ->
     mrclose (snd (delay_run (qm2r init) (qm2r xs))) (qm2r outs) /\ mrclose (fst (delay_run (qm2r init) (qm2r xs))) (qm2r buf)) /\
  (forall (delay order strides dim : nat) (xs outs store : list (list Q)), chk_nvar delay order strides dim xs outs store = true ->
     let r := nvar_run order strides (nvar_init delay strides dim) (qm2r xs) in
     mrclose (snd r) (qm2r outs) /\ mrclose (fst r) (qm2r store)) /\
  (forall (data : list (list Q)) (obs : list Q), chk_concat data obs = true ->
     vrclose (concat_forward (qm2r data)) (qv2r obs)) /\
  (forall (child : String.string) (parents : list (String.string * list Q)) (obs : list Q), chk_fanin child parents obs = true ->
     vrclose (fanin_concat child (map (ekv Q2R) parents)) (qv2r obs)).
Proof.
  destruct Qwindows_runs_embed as (Hd & Hn & Hc & Hf).
  split; [|split; [|split]].
  - intros init xs outs buf. unfold chk_delay. rewrite <- Hd.
    destruct (delay_run init xs) as [b o]. cbn [fst snd]. intros Hx. apply andb_true_iff in Hx.
    split; apply mclose_mrclose, Hx.
  - intros delay order strides dim xs outs store. unfold chk_nvar. cbv zeta. specialize (Hn delay order strides dim xs).
    cbv zeta in Hn. rewrite <- Hn.
    destruct (nvar_run order strides (nvar_init delay strides dim) xs) as [s o]. cbn [fst snd]. intros Hx.
    apply andb_true_iff in Hx. split; apply mclose_mrclose, Hx.
  - intros data obs. unfold chk_concat. rewrite <- Hc. apply vclose_vrclose.
  - intros child parents obs. unfold chk_fanin. rewrite <- Hf. apply vclose_vrclose.
Qed.
