(* Tie (T) for C01 / C15: the definitions GENERATED on this run from the current source text of
   reservoirpy/nodes/reservoirs/base.py and reservoirpy/utils/random.py (coq/gen/Gen_reservoir.v, tools/vlib/py2coq_la.py)
   are, at R, the hand-written model/Reservoir.v about which every C01 / C15 theorem is stated.
   A source change that alters the recurrence (swapped leak terms, dropped bias, transposed product, kernel fed the wrong
   state, noise added in the wrong place ...) changes the generated term and one of these proofs stops checking. *)
From Coq Require Import Reals Lra List Bool.
From RV Require Import base.Num base.LA base.GenPrelude gen.Gen_reservoir model.Reservoir.
Import ListNotations.
Open Scope R_scope.

Notation rvec := (list R).
Notation rmat := (list (list R)).

(* the node attributes read by the generated code, from the configuration record of the hand model *)
Definition c_has_fb (c : rcfg R) : bool := match rWfb c with Some _ => true | None => false end.
Definition c_Wfb (c : rcfg R) : rmat := match rWfb c with Some Wfb => Wfb | None => [] end.

Lemma nabs_pos_iff (g : R) : nltb n0 (nabs g) = gain_on g.
Proof.
  unfold nabs, gain_on. cbn. destruct (Rlt_dec g 0) as [Hneg|Hneg]; destruct (Rlt_dec 0 g) as [Hpos|Hpos]; cbn.
  - destruct (Rlt_dec 0 (- g)); [reflexivity|lra].
  - destruct (Rlt_dec 0 (- g)); [reflexivity|lra].
  - destruct (Rlt_dec 0 g); [reflexivity|lra].
  - destruct (Rlt_dec 0 g); [lra|reflexivity].
Qed.

Lemma gen_noise_eq (g : R) (xi : rvec) (n : nat) : GenReservoir_LrS.noise xi n g = noise g xi n.
Proof. unfold GenReservoir_LrS.noise, noise. rewrite nabs_pos_iff. reflexivity. Qed.
Lemma gen_noise_eq_V (g : R) (xi : rvec) (n : nat) : GenReservoir_LrV.noise xi n g = noise g xi n.
Proof. unfold GenReservoir_LrV.noise, noise. rewrite nabs_pos_iff. reflexivity. Qed.

(* reservoir_kernel *)
Lemma gen_kernel_eq (c : rcfg R) (r : rvec) (x : rin R) :
  GenReservoir_LrS.reservoir_kernel (rW c) (rWin c) (rbias c) (c_has_fb c) (c_Wfb c) (rfbact c) (g_in c) (g_fb c)
                                    (i_fb x) (xi_in x) (xi_fb x) (i_u x) r
  = kernel c r x.
Proof.
  unfold GenReservoir_LrS.reservoir_kernel, kernel, c_has_fb, c_Wfb. rewrite !gen_noise_eq.
  destruct (rWfb c) as [Wfb|]; reflexivity.
Qed.
Lemma gen_kernel_eq_V (c : rcfg R) (r : rvec) (x : rin R) :
  GenReservoir_LrV.reservoir_kernel (rW c) (rWin c) (rbias c) (c_has_fb c) (c_Wfb c) (rfbact c) (g_in c) (g_fb c)
                                    (i_fb x) (xi_in x) (xi_fb x) (i_u x) r
  = kernel c r x.
Proof.
  unfold GenReservoir_LrV.reservoir_kernel, kernel, c_has_fb, c_Wfb. rewrite !gen_noise_eq_V.
  destruct (rWfb c) as [Wfb|]; reflexivity.
Qed.

(* forward_internal, python-scalar leak rate: the new Node state; params['internal_state'] is not written *)
Lemma gen_forward_internal_eq (c : rcfg R) (a : R) (s r : rvec) (x : rin R) : rlr c = LrS a ->
  GenReservoir_LrS.forward_internal (rW c) (rWin c) (rbias c) (c_has_fb c) (c_Wfb c) a (ract c) (rfbact c)
                                    (g_in c) (g_fb c) (g_rc c) r (i_fb x) (xi_in x) (xi_fb x) (xi_rc x) (i_u x)
  = snd (step_internal c (s, r) x)
  /\ fst (step_internal c (s, r) x) = s.
Proof.
  intros Hlr. unfold GenReservoir_LrS.forward_internal, step_internal. rewrite gen_kernel_eq, gen_noise_eq, Hlr.
  split; reflexivity.
Qed.
(* ... per-unit leak rates *)
Lemma gen_forward_internal_eq_V (c : rcfg R) (v : rvec) (s r : rvec) (x : rin R) : rlr c = LrV v ->
  GenReservoir_LrV.forward_internal (rW c) (rWin c) (rbias c) (c_has_fb c) (c_Wfb c) v (ract c) (rfbact c)
                                    (g_in c) (g_fb c) (g_rc c) r (i_fb x) (xi_in x) (xi_fb x) (xi_rc x) (i_u x)
  = snd (step_internal c (s, r) x)
  /\ fst (step_internal c (s, r) x) = s.
Proof.
  intros Hlr. unfold GenReservoir_LrV.forward_internal, step_internal. rewrite gen_kernel_eq_V, gen_noise_eq_V, Hlr.
  split; reflexivity.
Qed.

(* forward_external: (returned state, value written to params['internal_state']) *)
Lemma gen_forward_external_eq (c : rcfg R) (a : R) (s r : rvec) (x : rin R) : rlr c = LrS a ->
  GenReservoir_LrS.forward_external (rW c) (rWin c) (rbias c) (c_has_fb c) (c_Wfb c) a (ract c) (rfbact c)
                                    (g_in c) (g_fb c) (g_rc c) r (i_fb x) s (xi_in x) (xi_fb x) (xi_rc x) (i_u x)
  = (snd (step_external c (s, r) x), fst (step_external c (s, r) x)).
Proof.
  intros Hlr. unfold GenReservoir_LrS.forward_external, step_external. rewrite gen_kernel_eq, gen_noise_eq, Hlr. reflexivity.
Qed.
Lemma gen_forward_external_eq_V (c : rcfg R) (v : rvec) (s r : rvec) (x : rin R) : rlr c = LrV v ->
  GenReservoir_LrV.forward_external (rW c) (rWin c) (rbias c) (c_has_fb c) (c_Wfb c) v (ract c) (rfbact c)
                                    (g_in c) (g_fb c) (g_rc c) r (i_fb x) s (xi_in x) (xi_fb x) (xi_rc x) (i_u x)
  = (snd (step_external c (s, r) x), fst (step_external c (s, r) x)).
Proof.
  intros Hlr. unfold GenReservoir_LrV.forward_external, step_external. rewrite gen_kernel_eq_V, gen_noise_eq_V, Hlr. reflexivity.
Qed.
