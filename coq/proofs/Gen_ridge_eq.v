(* Tie (T) for C04 / C09: the definitions GENERATED on this run from the current source text of nodes/readouts/ridge.py and
   nodes/readouts/base.py (coq/gen/Gen_ridge.v, tools/vlib/py2coq_la.py) are the hand-written model/Ridge.v about which the
   C04 / C09 theorems are stated.  These equalities are structural (no arithmetic law is used), hence for EVERY Num instance:
   the reals of the theorems and the rationals of the correspondence runs.  The generated code carries no dimensions (numpy
   reads them off the arrays); the side conditions say that the arrays are non-empty and rectangular. *)
From Coq Require Import List Bool Arith Lia.
From RV Require Import base.Num base.LA base.GenPrelude gen.Gen_ridge model.Ridge.
Import ListNotations.

Section GenRidgeEq.
Context {F : Type} `{Num F}.
Notation vec := (list F).
Notation mat := (list (list F)).
Variable solve : mat -> mat -> mat.

Definition rect (c : nat) (A : mat) : Prop := A <> [] /\ Forall (fun r => length r = c) A.

Lemma mcols_rect c (A : mat) : rect c A -> mcols A = c.
Proof. intros [Hne Hf]. destruct A as [|r A]; [congruence|]. cbn. now inversion Hf. Qed.
Lemma rect_prep (b : bool) din (X : mat) : rect din X -> rect (aug_dim b din) (map (prep b) X).
Proof.
  intros [Hne Hf]. split; [destruct X; [congruence|discriminate]|].
  apply Forall_forall. intros r Hr. apply in_map_iff in Hr as [r0 [<- Hr0]]. rewrite Forall_forall in Hf.
  specialize (Hf r0 Hr0). unfold prep, aug_dim. destruct b; cbn; lia.
Qed.

(* _prepare_inputs_for_learning / add_bias *)
Lemma gen_prepare_eq (b : bool) (X Y : mat) : GenRidge.prepare_inputs X Y b = (map (prep b) X, Y).
Proof.
  unfold GenRidge.prepare_inputs, add_bias_mat, prep. destruct b; [reflexivity|]. now rewrite map_id.
Qed.

(* partial_backward + _accumulate on one sequence, with or without the lock: the new (XXT, YXT) buffers *)
Lemma gen_partial_backward_eq (b : bool) (din dout : nat) (acc : mat * mat) (X Y : mat) (lock : bool) :
  rect din X -> rect dout Y ->
  GenRidge.partial_backward b (fst acc) (snd acc) X Y lock = partial_backward b din dout acc X Y.
Proof.
  intros HX HY. unfold GenRidge.partial_backward, GenRidge.accumulate, partial_backward. rewrite gen_prepare_eq.
  unfold mmul, mT. rewrite (mcols_rect _ _ (rect_prep b din X HX)), (mcols_rect _ _ HY).
  destruct lock; reflexivity.
Qed.

(* backward: (Wout, bias) written by the solve; [Wo] is what the solver returned: non-empty, dout columns *)
Lemma gen_backward_eq (b : bool) (lam : F) (din dout : nat) (acc : mat * mat) :
  rect (aug_dim b din) (snd acc) ->
  let Wo := backward_raw solve b lam din acc in
  Wo <> [] -> mcols Wo = dout ->
  GenRidge.backward b lam din (fst acc) (snd acc) solve = split_wo b dout Wo.
Proof.
  intros HY Wo Hne Hc. unfold GenRidge.backward, GenRidge.solve_ridge, split_wo.
  assert (E : solve (madd (fst acc) (mscale lam (eye (if b then S din else din)))) (mT (snd acc)) = Wo).
  { unfold Wo, backward_raw, ridge_system, mT. rewrite (mcols_rect _ _ HY). unfold aug_dim. reflexivity. }
  rewrite E. destruct b.
  - f_equal. destruct Wo; [congruence|reflexivity].
  - now rewrite Hc.
Qed.

(* readout_forward *)
Lemma gen_ridge_forward_eq (dout : nat) (Wout : mat) (bv x : vec) : rect dout Wout ->
  GenRidge.readout_forward Wout bv x = forward dout Wout bv x.
Proof. intros HW. unfold GenRidge.readout_forward, forward, mT. now rewrite (mcols_rect _ _ HW). Qed.
End GenRidgeEq.
