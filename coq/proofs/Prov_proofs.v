(* C14: lemmas about the provenance semantics (model/Prov.v).  nat / lists only, no axioms. *)
From Coq Require Import List Arith Bool Lia.
From RV Require Import model.Prov.
Import ListNotations.
Set Warnings "-abstract-large-number".

(* ------------------------------------------------------------------ heap / map updates *)
Lemma gid_eqb_eq a b : gid_eqb a b = true <-> a = b.
Proof.
  destruct a, b; simpl; rewrite ?Nat.eqb_eq; split; intros H; try discriminate; try (inversion H; reflexivity);
    subst; reflexivity.
Qed.
Lemma gid_eqb_refl a : gid_eqb a a = true.
Proof. apply gid_eqb_eq; reflexivity. Qed.
Lemma gid_eqb_neq a b : a <> b -> gid_eqb a b = false.
Proof. intros H. destruct (gid_eqb a b) eqn:E; [apply gid_eqb_eq in E; contradiction | reflexivity]. Qed.
Lemma upd_heap_same h k v : upd_heap h k v k = v.
Proof. unfold upd_heap. rewrite gid_eqb_refl. reflexivity. Qed.
Lemma upd_heap_other h k v k' : k <> k' -> upd_heap h k v k' = h k'.
Proof. intros. unfold upd_heap. rewrite gid_eqb_neq; auto. Qed.
Lemma upd_same {A} (f : nat -> option A) k v : upd f k v k = Some v.
Proof. unfold upd. rewrite Nat.eqb_refl. reflexivity. Qed.
Lemma upd_other {A} (f : nat -> option A) k v k' : k <> k' -> upd f k v k' = f k'.
Proof. intros. unfold upd. destruct (k =? k') eqn:E; [apply Nat.eqb_eq in E; contradiction | reflexivity]. Qed.

(* ------------------------------------------------------------------ pure (generator-state passing) noise *)
Definition pnoise (g : gstate) (gain : nat) (r : req) : gstate * option draw :=
  if gain =? 0 then (g, None) else let '(g', d) := draw_from g r gain in (g', Some d).
Definition pstep_noise (g : gstate) (n : rnode) (din : nat) : gstate * list ndraw :=
  let c := n_cfg n in
  let '(g1, a) := pnoise g (c_gin c) (mkReq DNOISE din 1 (c_ndist c)) in
  let '(g2, b) := match n_wfb n with
                  | Some (_, dfb) => if c_fb c then pnoise g1 (c_gfb c) (mkReq DNOISE dfb 1 (c_ndist c)) else (g1, None)
                  | None => (g1, None)
                  end in
  let '(g3, r) := pnoise g2 (c_grc c) (mkReq DNOISE (c_units c) 1 (c_ndist c)) in
  (g3, ocons 0 a (ocons 1 b (ocons 2 r []))).
Fixpoint prun_noise (T : nat) (g : gstate) (n : rnode) (din : nat) : gstate * list ndraw :=
  match T with
  | O => (g, [])
  | S T' => let '(g1, l1) := pstep_noise g n din in
            let '(g2, l2) := prun_noise T' g1 n din in (g2, l1 ++ l2)
  end.

(* [st'] differs from [st] at most in the content of the generator object [p] *)
Definition frame (p : gid) (st st' : state) : Prop :=
  epoch st' = epoch st /\ nodes st' = nodes st /\ sks st' = sks st /\ ds_default st' = ds_default st /\
  forall k, k <> p -> heap st' k = heap st k.
Lemma frame_refl p st : frame p st st.
Proof. repeat split; auto. Qed.
Lemma frame_trans p a b c : frame p a b -> frame p b c -> frame p a c.
Proof.
  intros (e1 & n1 & s1 & d1 & h1) (e2 & n2 & s2 & d2 & h2).
  repeat split; try congruence. intros k Hk. rewrite h2, h1; auto.
Qed.
Lemma frame_set_heap p st v : frame p st (set_heap st p v).
Proof. repeat split; auto. intros k Hk. simpl. apply upd_heap_other. congruence. Qed.

Lemma noise_spec st p gain r :
  frame p st (fst (noise st p gain r)) /\
  heap (fst (noise st p gain r)) p = fst (pnoise (heap st p) gain r) /\
  snd (noise st p gain r) = snd (pnoise (heap st p) gain r).
Proof.
  unfold noise, pnoise. destruct (gain =? 0).
  - simpl. split; [apply frame_refl | auto].
  - simpl. split; [apply frame_set_heap | split; [apply upd_heap_same | reflexivity]].
Qed.

Lemma step_noise_spec st n din :
  frame (n_rng n) st (fst (step_noise st n din)) /\
  heap (fst (step_noise st n din)) (n_rng n) = fst (pstep_noise (heap st (n_rng n)) n din) /\
  snd (step_noise st n din) = snd (pstep_noise (heap st (n_rng n)) n din).
Proof.
  unfold step_noise, pstep_noise.
  set (p := n_rng n). set (c := n_cfg n).
  pose proof (noise_spec st p (c_gin c) (mkReq DNOISE din 1 (c_ndist c))) as (F1 & H1 & O1).
  destruct (noise st p (c_gin c) (mkReq DNOISE din 1 (c_ndist c))) as [st1 a] eqn:E1.
  destruct (pnoise (heap st p) (c_gin c) (mkReq DNOISE din 1 (c_ndist c))) as [g1 a'] eqn:P1.
  simpl in F1, H1, O1. subst a'.
  assert (X : exists st2 b g2,
     (match n_wfb n with
      | Some (_, dfb) => if c_fb c then noise st1 p (c_gfb c) (mkReq DNOISE dfb 1 (c_ndist c)) else (st1, None)
      | None => (st1, None) end) = (st2, b) /\
     (match n_wfb n with
      | Some (_, dfb) => if c_fb c then pnoise g1 (c_gfb c) (mkReq DNOISE dfb 1 (c_ndist c)) else (g1, None)
      | None => (g1, None) end) = (g2, b) /\ frame p st1 st2 /\ heap st2 p = g2).
  { destruct (n_wfb n) as [[m dfb]|].
    - destruct (c_fb c).
      + pose proof (noise_spec st1 p (c_gfb c) (mkReq DNOISE dfb 1 (c_ndist c))) as (F2 & H2 & O2).
        rewrite H1 in H2, O2.
        destruct (noise st1 p (c_gfb c) (mkReq DNOISE dfb 1 (c_ndist c))) as [st2 b].
        destruct (pnoise g1 (c_gfb c) (mkReq DNOISE dfb 1 (c_ndist c))) as [g2 b'].
        simpl in *. subst. eauto 10.
      + exists st1, None, g1. repeat split; auto; apply frame_refl.
    - exists st1, None, g1. repeat split; auto; apply frame_refl. }
  destruct X as (st2 & b & g2 & X1 & X2 & F2 & H2). rewrite X1, X2.
  pose proof (noise_spec st2 p (c_grc c) (mkReq DNOISE (c_units c) 1 (c_ndist c))) as (F3 & H3 & O3).
  rewrite H2 in H3, O3.
  destruct (noise st2 p (c_grc c) (mkReq DNOISE (c_units c) 1 (c_ndist c))) as [st3 rr].
  destruct (pnoise g2 (c_grc c) (mkReq DNOISE (c_units c) 1 (c_ndist c))) as [g3 rr'].
  simpl in *. subst rr'. split; [|split; auto].
  eapply frame_trans; [eapply frame_trans; eassumption | assumption].
Qed.

Lemma run_noise_spec T : forall st n din,
  frame (n_rng n) st (fst (run_noise T st n din)) /\
  heap (fst (run_noise T st n din)) (n_rng n) = fst (prun_noise T (heap st (n_rng n)) n din) /\
  snd (run_noise T st n din) = snd (prun_noise T (heap st (n_rng n)) n din).
Proof.
  induction T; intros st n din; simpl.
  - split; [apply frame_refl | auto].
  - pose proof (step_noise_spec st n din) as (F1 & H1 & O1).
    destruct (step_noise st n din) as [st1 l1]. destruct (pstep_noise (heap st (n_rng n)) n din) as [g1 l1'].
    simpl in *. subst l1'.
    pose proof (IHT st1 n din) as (F2 & H2 & O2). rewrite H1 in H2, O2.
    destruct (run_noise T st1 n din) as [st2 l2]. destruct (prun_noise T g1 n din) as [g2 l2'].
    simpl in *. subst l2'. split; [eapply frame_trans; eassumption | auto].
Qed.

(* ------------------------------------------------------------------ C14_zero_gain_no_noise *)
Lemma noise_zero_gain st p r : noise st p 0 r = (st, None).
Proof. reflexivity. Qed.

Definition quiet (c : rcfg) : Prop := c_gin c = 0 /\ c_gfb c = 0 /\ c_grc c = 0.
Lemma step_noise_quiet st n din : quiet (n_cfg n) -> step_noise st n din = (st, []).
Proof.
  intros (a & b & c). unfold step_noise. rewrite a, b, c. simpl.
  destruct (n_wfb n) as [[m d]|]; [destruct (c_fb (n_cfg n))|]; reflexivity.
Qed.
Lemma run_noise_quiet T st n din : quiet (n_cfg n) -> run_noise T st n din = (st, []).
Proof. intros Q. induction T; simpl; [reflexivity|]. rewrite step_noise_quiet, IHT by assumption. reflexivity. Qed.

(* a run of a reservoir whose three gains are zero: no generator object changes, and the trajectory term carries
   an empty noise list (it is the term of the noiseless recurrence) *)
Lemma run_zero_gain st i n x din T :
  nodes st i = Some n -> quiet (n_cfg n) -> n_params n <> None ->
  heap (fst (step st (ORun i x din T))) = heap st /\
  epoch (fst (step st (ORun i x din T))) = epoch st /\
  forall e, In e (snd (step st (ORun i x din T))) ->
    exists W Win b, e_term e = TRun (c_hyp (n_cfg n)) W Win b (wfb_mat n) (n_log n ++ [mkRun x T (fb_active n) []]).
Proof.
  intros Hn Q Hp. simpl. rewrite Hn. destruct (n_params n) as [[[[W Win] b] d]|] eqn:P; [|congruence].
  unfold do_run. rewrite P.
  destruct (c_fb (n_cfg n) && match n_wfb n with None => true | Some _ => false end).
  - simpl. repeat split; auto. intros e [].
  - rewrite run_noise_quiet by assumption. simpl. repeat split; auto.
    intros e [<-|[]]. simpl. eauto.
Qed.

(* ------------------------------------------------------------------ rooted terms (C14_seed_reaches_every_component) *)
Definition draw_rooted (s : nat) (d : draw) : Prop := d_root d = Seeded s.
Definition mat_rooted (s : nat) (m : mat) : Prop := match m with MDraw d => draw_rooted s d | _ => True end.
Definition log_rooted (s : nat) (l : list runrec) : Prop :=
  Forall (fun r => Forall (fun nd => draw_rooted s (nd_draw nd)) (rr_noise r)) l.
Definition term_rooted (s : nat) (t : term) : Prop :=
  match t with
  | TMat m => mat_rooted s m
  | TRun _ W Win b fb log => mat_rooted s W /\ mat_rooted s Win /\ mat_rooted s b /\
                              match fb with Some m => mat_rooted s m | None => True end /\ log_rooted s log
  | TSk _ rs _ => mat_rooted s rs
  end.
(* the term contains at least one draw *)
Definition mat_random (m : mat) : Prop := match m with MDraw _ => True | _ => False end.
Definition term_random (t : term) : Prop :=
  match t with TMat m => mat_random m | TRun _ W _ _ _ _ => mat_random W | TSk _ rs _ => mat_random rs end.

Lemma rooted_diff s1 s2 t1 t2 :
  s1 <> s2 -> term_rooted s1 t1 -> term_rooted s2 t2 -> term_random t1 -> t1 <> t2.
Proof.
  intros Hs R1 R2 Rd E. subst t2. destruct t1 as [m|h W Win b fb l|c rs f]; simpl in *.
  - destruct m; simpl in *; try contradiction. unfold draw_rooted in *. congruence.
  - destruct W; simpl in *; try contradiction. destruct R1 as (R1 & _), R2 as (R2 & _). unfold draw_rooted in *. congruence.
  - destruct rs; simpl in *; try contradiction. unfold draw_rooted in *. congruence.
Qed.

Lemma pnoise_root g gain r : fst (fst (pnoise g gain r)) = fst g.
Proof. unfold pnoise. destruct (gain =? 0); reflexivity. Qed.
Lemma pnoise_rooted s g gain r d : fst g = Seeded s -> snd (pnoise g gain r) = Some d -> draw_rooted s d.
Proof. unfold pnoise. destruct (gain =? 0); simpl; intros H E; inversion E; subst; exact H. Qed.

Lemma pstep_noise_rooted s g n din :
  fst g = Seeded s ->
  fst (fst (pstep_noise g n din)) = Seeded s /\ Forall (fun nd => draw_rooted s (nd_draw nd)) (snd (pstep_noise g n din)).
Proof.
  intros Hg. unfold pstep_noise. set (c := n_cfg n).
  pose proof (pnoise_root g (c_gin c) (mkReq DNOISE din 1 (c_ndist c))) as R1.
  pose proof (pnoise_rooted s g (c_gin c) (mkReq DNOISE din 1 (c_ndist c))) as D1.
  destruct (pnoise g (c_gin c) (mkReq DNOISE din 1 (c_ndist c))) as [g1 a]. simpl in R1, D1.
  assert (X : exists g2 b,
     (match n_wfb n with
      | Some (_, dfb) => if c_fb c then pnoise g1 (c_gfb c) (mkReq DNOISE dfb 1 (c_ndist c)) else (g1, None)
      | None => (g1, None) end) = (g2, b) /\ fst g2 = Seeded s /\ (forall d, b = Some d -> draw_rooted s d)).
  { destruct (n_wfb n) as [[m dfb]|]; [destruct (c_fb c)|].
    - pose proof (pnoise_root g1 (c_gfb c) (mkReq DNOISE dfb 1 (c_ndist c))) as R2.
      pose proof (pnoise_rooted s g1 (c_gfb c) (mkReq DNOISE dfb 1 (c_ndist c))) as D2.
      destruct (pnoise g1 (c_gfb c) (mkReq DNOISE dfb 1 (c_ndist c))) as [g2 b]. simpl in *.
      exists g2, b. repeat split; [congruence|]. intros d E. apply D2; congruence.
    - exists g1, None. repeat split; [congruence | discriminate].
    - exists g1, None. repeat split; [congruence | discriminate]. }
  destruct X as (g2 & b & -> & R2 & D2).
  pose proof (pnoise_root g2 (c_grc c) (mkReq DNOISE (c_units c) 1 (c_ndist c))) as R3.
  pose proof (pnoise_rooted s g2 (c_grc c) (mkReq DNOISE (c_units c) 1 (c_ndist c))) as D3.
  destruct (pnoise g2 (c_grc c) (mkReq DNOISE (c_units c) 1 (c_ndist c))) as [g3 rr]. simpl in *.
  split; [congruence|].
  destruct a, b, rr; simpl; repeat constructor; simpl; auto; try (apply D1; congruence).
Qed.

Lemma prun_noise_rooted s T : forall g n din,
  fst g = Seeded s ->
  fst (fst (prun_noise T g n din)) = Seeded s /\ Forall (fun nd => draw_rooted s (nd_draw nd)) (snd (prun_noise T g n din)).
Proof.
  induction T; intros g n din Hg; simpl; [auto|].
  pose proof (pstep_noise_rooted s g n din Hg) as (R1 & F1).
  destruct (pstep_noise g n din) as [g1 l1]. simpl in *.
  pose proof (IHT g1 n din R1) as (R2 & F2). destruct (prun_noise T g1 n din) as [g2 l2]. simpl in *.
  split; [assumption | apply Forall_app; auto].
Qed.

(* ------------------------------------------------------------------ public frames: private generators untouched *)
Definition pub (p : gid) : Prop := match p with GPriv _ => False | _ => True end.
Definition pframe (st st' : state) : Prop :=
  epoch st' = epoch st /\ nodes st' = nodes st /\ sks st' = sks st /\ ds_default st' = ds_default st /\
  forall i, heap st' (GPriv i) = heap st (GPriv i).
Lemma pframe_refl st : pframe st st.
Proof. repeat split; auto. Qed.
Lemma pframe_trans a b c : pframe a b -> pframe b c -> pframe a c.
Proof.
  intros (e1 & n1 & s1 & d1 & h1) (e2 & n2 & s2 & d2 & h2). repeat split; try congruence.
Qed.
Lemma frame_pframe p a b : pub p -> frame p a b -> pframe a b.
Proof.
  intros Hp (e & n & s & d & h). repeat split; auto. intros i. apply h. intros E. subst p. exact Hp.
Qed.
Lemma draw_src_pframe st sd r post : pframe st (fst (draw_src st sd r post)).
Proof.
  destruct sd as [|s|u]; simpl.
  - apply (frame_pframe (gptr st)); [exact I | apply frame_set_heap].
  - apply pframe_refl.
  - apply (frame_pframe (GUser u)); [exact I | apply frame_set_heap].
Qed.
Lemma draw_src_int st s r post : draw_src st (SInt s) r post = (st, mkDraw (Seeded s) [] r post).
Proof. reflexivity. Qed.

(* ------------------------------------------------------------------ initialisation with an integer seed *)
Definition init_bias_int (s : nat) (c : rcfg) : mat :=
  if c_bias c then MDraw (mkDraw (Seeded s) [] (mkReq DBERN (c_units c) 1 (fst (c_B c))) (snd (c_B c))) else MZero (c_units c) 1.
Definition init_W_int (s : nat) (c : rcfg) : mat :=
  MDraw (mkDraw (Seeded s) [] (mkReq DNORM (c_units c) (c_units c) (fst (c_W c))) (snd (c_W c))).
Definition init_Win_int (s : nat) (c : rcfg) (din : nat) : mat :=
  MDraw (mkDraw (Seeded s) [] (mkReq DBERN (c_units c) din (fst (c_Win c))) (snd (c_Win c))).
Definition init_Wfb_int (s : nat) (c : rcfg) (dfb : nat) : mat :=
  MDraw (mkDraw (Seeded s) [] (mkReq DBERN (c_units c) dfb (fst (c_Fb c))) (snd (c_Fb c))).

Lemma do_init_int st i n din s :
  c_src (n_cfg n) = SInt s ->
  do_init st i n din =
    (set_node st i (mkNode (n_cfg n) (n_rng n)
                      (Some (init_W_int s (n_cfg n), init_Win_int s (n_cfg n) din, init_bias_int s (n_cfg n), din)) (n_wfb n) (n_log n)),
     [mkEv (Some i) TAG_W (TMat (init_W_int s (n_cfg n))); mkEv (Some i) TAG_WIN (TMat (init_Win_int s (n_cfg n) din));
      mkEv (Some i) TAG_BIAS (TMat (init_bias_int s (n_cfg n)))]).
Proof.
  intros H. unfold do_init, init_bias_int, init_W_int, init_Win_int. rewrite H. simpl.
  destruct (c_bias (n_cfg n)); reflexivity.
Qed.
Lemma do_initfb_int st i n dfb s :
  c_src (n_cfg n) = SInt s ->
  do_initfb st i n dfb =
    (set_node st i (mkNode (n_cfg n) (n_rng n) (n_params n) (Some (init_Wfb_int s (n_cfg n) dfb, dfb)) (n_log n)),
     [mkEv (Some i) TAG_WFB (TMat (init_Wfb_int s (n_cfg n) dfb))]).
Proof. intros H. unfold do_initfb, init_Wfb_int. rewrite H. reflexivity. Qed.

(* do_run reads and writes only the node and its noise generator *)
Lemma do_run_spec st i n x T :
  let st' := fst (do_run st i n x T) in
  match n_params n with
  | Some (W, Win, b, din) =>
      if c_fb (n_cfg n) && (match n_wfb n with None => true | _ => false end) then st' = st /\ snd (do_run st i n x T) = []
      else let log := n_log n ++ [mkRun x T (fb_active n) (snd (prun_noise T (heap st (n_rng n)) n din))] in
           nodes st' = upd (nodes st) i (mkNode (n_cfg n) (n_rng n) (n_params n) (n_wfb n) log) /\
           heap st' (n_rng n) = fst (prun_noise T (heap st (n_rng n)) n din) /\
           (forall k, k <> n_rng n -> heap st' k = heap st k) /\
           epoch st' = epoch st /\ sks st' = sks st /\ ds_default st' = ds_default st /\
           snd (do_run st i n x T) = [mkEv (Some i) TAG_RUN (TRun (c_hyp (n_cfg n)) W Win b (wfb_mat n) log)]
  | None => st' = st /\ snd (do_run st i n x T) = []
  end.
Proof.
  unfold do_run. destruct (n_params n) as [[[[W Win] b] din]|]; [|simpl; auto].
  destruct (c_fb (n_cfg n) && match n_wfb n with None => true | Some _ => false end); [simpl; auto|].
  pose proof (run_noise_spec T st n din) as ((e & nn & s & d & h) & H & O).
  destruct (run_noise T st n din) as [st1 l]. simpl in *. subst l.
  repeat split; auto. rewrite nn. reflexivity.
Qed.

(* ------------------------------------------------------------------ C14_seeded_component_history_free *)
(* what the operations addressed to reservoir i can read: its record and its private noise generator *)
Definition view (i : nat) (st : state) : option (rnode * gstate) :=
  match nodes st i with Some n => Some (n, heap st (GPriv i)) | None => None end.
Lemma view_nodes i a b : view i a = view i b -> nodes a i = nodes b i.
Proof. unfold view. destruct (nodes a i), (nodes b i); intros H; inversion H; reflexivity. Qed.
Lemma view_heap i a b n : view i a = view i b -> nodes a i = Some n -> heap a (GPriv i) = heap b (GPriv i).
Proof. unfold view. intros H N. rewrite N in H. destruct (nodes b i); inversion H; reflexivity. Qed.
(* no other node shares i's private generator *)
Definition wf (i : nat) (st : state) : Prop := forall j n, nodes st j = Some n -> j <> i -> n_rng n <> GPriv i.
(* node i, when it exists, was built with an integer seed *)
Definition own_seeded (i : nat) (st : state) : Prop :=
  match nodes st i with None => True | Some n => (exists s, c_src (n_cfg n) = SInt s) /\ n_rng n = GPriv i end.
(* every (re)construction of node i in the history uses an integer seed *)
Definition seeded_op (i : nat) (o : op) : Prop :=
  match o with OConstruct j c => j = i -> exists s, c_src c = SInt s | _ => True end.

Lemma proj_app i a b : proj i (a ++ b) = proj i a ++ proj i b.
Proof. apply filter_app. Qed.
Lemma proj_all i l : Forall (fun e => e_node e = Some i) l -> proj i l = l.
Proof. induction 1; simpl; [reflexivity|]. rewrite H, Nat.eqb_refl, IHForall. reflexivity. Qed.
Lemma proj_none i l : Forall (fun e => e_node e <> Some i) l -> proj i l = [].
Proof.
  induction 1; simpl; [reflexivity|]. rewrite IHForall. destruct (e_node x) as [j|]; [|reflexivity].
  destruct (i =? j) eqn:E; [apply Nat.eqb_eq in E; subst; congruence | reflexivity].
Qed.

Lemma wf_pframe i a b : pframe a b -> wf i a -> wf i b.
Proof. intros (_ & n & _) W j m H. rewrite n in H. eauto. Qed.
Lemma view_pframe i a b : pframe a b -> view i b = view i a.
Proof. intros (_ & n & _ & _ & h). unfold view. rewrite n, h. reflexivity. Qed.

Lemma do_init_other i st j n din :
  j <> i ->
  let r := do_init st j n din in
  nodes (fst r) i = nodes st i /\ heap (fst r) (GPriv i) = heap st (GPriv i) /\
  (exists N, n_rng N = n_rng n /\ nodes (fst r) = upd (nodes st) j N) /\
  Forall (fun e => e_node e = Some j) (snd r).
Proof.
  intros Hj. unfold do_init. set (c := n_cfg n).
  pose proof (draw_src_pframe st (c_src c) (mkReq DNORM (c_units c) (c_units c) (fst (c_W c))) (snd (c_W c))) as F1.
  destruct (draw_src st (c_src c) (mkReq DNORM (c_units c) (c_units c) (fst (c_W c))) (snd (c_W c))) as [st1 dW].
  pose proof (draw_src_pframe st1 (c_src c) (mkReq DBERN (c_units c) din (fst (c_Win c))) (snd (c_Win c))) as F2.
  destruct (draw_src st1 (c_src c) (mkReq DBERN (c_units c) din (fst (c_Win c))) (snd (c_Win c))) as [st2 dWin].
  simpl in F1, F2.
  assert (X : exists st3 b, (if c_bias c
             then let '(s, d) := draw_src st2 (c_src c) (mkReq DBERN (c_units c) 1 (fst (c_B c))) (snd (c_B c)) in (s, MDraw d)
             else (st2, MZero (c_units c) 1)) = (st3, b) /\ pframe st2 st3).
  { destruct (c_bias c).
    - pose proof (draw_src_pframe st2 (c_src c) (mkReq DBERN (c_units c) 1 (fst (c_B c))) (snd (c_B c))) as F3.
      destruct (draw_src st2 (c_src c) (mkReq DBERN (c_units c) 1 (fst (c_B c))) (snd (c_B c))) as [s d]. eauto.
    - eexists _, _. split; [reflexivity | apply pframe_refl]. }
  destruct X as (st3 & b & -> & F3).
  pose proof (pframe_trans _ _ _ (pframe_trans _ _ _ F1 F2) F3) as (_ & nn & _ & _ & hh).
  simpl. repeat split.
  - rewrite nn. apply upd_other; assumption.
  - apply hh.
  - eexists. split; [|rewrite nn; reflexivity]. reflexivity.
  - repeat constructor.
Qed.

Lemma do_initfb_other i st j n dfb :
  j <> i ->
  let r := do_initfb st j n dfb in
  nodes (fst r) i = nodes st i /\ heap (fst r) (GPriv i) = heap st (GPriv i) /\
  (exists N, n_rng N = n_rng n /\ nodes (fst r) = upd (nodes st) j N) /\
  Forall (fun e => e_node e = Some j) (snd r).
Proof.
  intros Hj. unfold do_initfb. set (c := n_cfg n).
  pose proof (draw_src_pframe st (c_src c) (mkReq DBERN (c_units c) dfb (fst (c_Fb c))) (snd (c_Fb c))) as (_ & nn & _ & _ & hh).
  destruct (draw_src st (c_src c) (mkReq DBERN (c_units c) dfb (fst (c_Fb c))) (snd (c_Fb c))) as [st1 d].
  simpl in *. repeat split.
  - rewrite nn. apply upd_other; assumption.
  - apply hh.
  - eexists. split; [|rewrite nn; reflexivity]. reflexivity.
  - repeat constructor.
Qed.

Lemma do_run_other i st j n x T :
  j <> i -> n_rng n <> GPriv i ->
  let r := do_run st j n x T in
  nodes (fst r) i = nodes st i /\ heap (fst r) (GPriv i) = heap st (GPriv i) /\
  (fst r = st \/ exists N, n_rng N = n_rng n /\ nodes (fst r) = upd (nodes st) j N) /\
  Forall (fun e => e_node e = Some j) (snd r).
Proof.
  intros Hj Hr. pose proof (do_run_spec st j n x T) as S. simpl in *.
  destruct (n_params n) as [[[[W Win] b] din]|].
  - destruct (c_fb (n_cfg n) && match n_wfb n with None => true | Some _ => false end).
    + destruct S as (-> & ->). repeat split; auto.
    + destruct S as (nn & _ & hh & _ & _ & _ & ee). rewrite ee, nn. repeat split.
      * apply upd_other; assumption.
      * apply hh. congruence.
      * right. eexists. split; [|reflexivity]. reflexivity.
      * repeat constructor.
  - destruct S as (-> & ->). repeat split; auto.
Qed.

Lemma wf_upd i st st' j N :
  wf i st -> nodes st' = upd (nodes st) j N -> (j <> i -> n_rng N <> GPriv i) -> wf i st'.
Proof.
  intros W E H k m Hk Hki. rewrite E in Hk. unfold upd in Hk. destruct (j =? k) eqn:Q.
  - apply Nat.eqb_eq in Q. subst k. inversion Hk; subst. auto.
  - eauto.
Qed.

Lemma neqb_neq i j : (i =? j) = false -> j <> i.
Proof. intros H E. subst. rewrite Nat.eqb_refl in H. discriminate. Qed.

(* operations addressed to something else leave the view of node i unchanged and produce no array of node i *)
Lemma step_other i st o :
  touches i o = false -> wf i st ->
  view i (fst (step st o)) = view i st /\ proj i (snd (step st o)) = [] /\ wf i (fst (step st o)).
Proof.
  intros Ht W. destruct o as [s|g s|r|g r|j c|j din|j dfb|j x din T|sd r post|s|j rs hrs cfg|j data|j]; simpl in Ht; cbv beta iota zeta delta [step].
  - (* set_seed *) repeat split; auto.
  - (* new generator *) repeat split; auto.
  - pose proof (draw_src_pframe st SNone r 0) as F. destruct (draw_src st SNone r 0) as [st1 d]. simpl in *.
    split; [apply view_pframe; auto | split; [reflexivity | eapply wf_pframe; eauto]].
  - pose proof (draw_src_pframe st (SGen g) r 0) as F. destruct (draw_src st (SGen g) r 0) as [st1 d]. simpl in *.
    split; [apply view_pframe; auto | split; [reflexivity | eapply wf_pframe; eauto]].
  - (* construct j <> i *)
    apply neqb_neq in Ht. unfold construct, view.
    destruct (c_src c) as [|s|u]; simpl; rewrite ?upd_other by assumption;
      (split; [try reflexivity | split; [reflexivity|]]).
    + eapply wf_upd; [exact W | reflexivity | intros _; simpl; discriminate].
    + rewrite upd_heap_other; [reflexivity | congruence].
    + eapply wf_upd; [exact W | reflexivity | intros H; simpl; congruence].
    + eapply wf_upd; [exact W | reflexivity | intros _; simpl; discriminate].
  - (* initialize j *)
    apply neqb_neq in Ht. destruct (nodes st j) as [n|] eqn:N; [|repeat split; auto].
    destruct (n_params n); [repeat split; auto|].
    pose proof (do_init_other i st j n din Ht) as (A & B & (N' & R' & U) & E). unfold view. rewrite A, B.
    split; [reflexivity | split].
    + apply proj_none. eapply Forall_impl; [|exact E]. simpl. intros e He. rewrite He. congruence.
    + eapply wf_upd; [exact W | exact U | intros _; rewrite R'; eapply W; eauto].
  - (* initialize_feedback j *)
    apply neqb_neq in Ht. destruct (nodes st j) as [n|] eqn:N; [|repeat split; auto].
    destruct (c_fb (n_cfg n)); [|repeat split; auto].
    destruct (n_wfb n); [repeat split; auto|].
    pose proof (do_initfb_other i st j n dfb Ht) as (A & B & (N' & R' & U) & E). unfold view. rewrite A, B.
    split; [reflexivity | split].
    + apply proj_none. eapply Forall_impl; [|exact E]. simpl. intros e He. rewrite He. congruence.
    + eapply wf_upd; [exact W | exact U | intros _; rewrite R'; eapply W; eauto].
  - (* run j *)
    apply neqb_neq in Ht. destruct (nodes st j) as [n|] eqn:N; [|repeat split; auto].
    assert (Hr : n_rng n <> GPriv i) by (eapply W; eauto).
    destruct (n_params n) eqn:P.
    + pose proof (do_run_other i st j n x T Ht Hr) as (A & B & C & E). unfold view. rewrite A, B.
      split; [reflexivity | split].
      * apply proj_none. eapply Forall_impl; [|exact E]. simpl. intros e He. rewrite He. congruence.
      * destruct C as [-> | (N' & R' & U)]; [exact W|].
        eapply wf_upd; [exact W | exact U | intros _; rewrite R'; exact Hr].
    + pose proof (do_init_other i st j n din Ht) as (A & B & (N' & R' & U) & E).
      destruct (do_init st j n din) as [st1 ev1]. simpl in *.
      assert (W1 : wf i st1) by (eapply wf_upd; [exact W | exact U | intros _; rewrite R'; exact Hr]).
      assert (N1 : nodes st1 j = Some N') by (rewrite U; apply upd_same).
      rewrite N1.
      assert (Hr1 : n_rng N' <> GPriv i) by congruence.
      pose proof (do_run_other i st1 j N' x T Ht Hr1) as (A2 & B2 & C2 & E2).
      destruct (do_run st1 j N' x T) as [st2 ev2]. simpl in *. unfold view. rewrite A2, B2, A, B.
      split; [reflexivity | split].
      * apply proj_none. apply Forall_app. split; (eapply Forall_impl; [|eassumption]); simpl; intros e He; rewrite He; congruence.
      * destruct C2 as [-> | (N2 & R2 & U2)]; [exact W1|].
        eapply wf_upd; [exact W1 | exact U2 | intros _; rewrite R2; exact Hr1].
  - (* dataset *)
    set (sd' := match sd with SNone => SInt (ds_default st) | _ => sd end).
    pose proof (draw_src_pframe st sd' r post) as F. destruct (draw_src st sd' r post) as [st1 d]. simpl in *.
    split; [apply view_pframe; auto | split; [reflexivity | eapply wf_pframe; eauto]].
  - repeat split; auto.
  - (* ScikitLearnNode *)
    destruct rs; [repeat split; auto|]. destruct hrs; [|repeat split; auto].
    pose proof (draw_src_pframe st SNone (mkReq DINT 1 1 0) 0) as F.
    destruct (draw_src st SNone (mkReq DINT 1 1 0) 0) as [st1 d]. simpl in *.
    destruct F as (_ & nn & _ & _ & hh). unfold view. simpl. rewrite nn, hh.
    split; [reflexivity | split; [reflexivity|]]. intros k m Hk. simpl in Hk. rewrite nn in Hk. eauto.
  - destruct (sks st j); repeat split; auto.
  - (* attach feedback to j <> i *)
    apply neqb_neq in Ht. destruct (nodes st j) as [n|] eqn:N; [|repeat split; auto].
    unfold view. simpl. rewrite upd_other by assumption. split; [reflexivity | split; [reflexivity|]].
    eapply wf_upd; [exact W | reflexivity | intros _; simpl; eapply W; eauto].
Qed.

Lemma own_wf_upd i st st' N : wf i st -> nodes st' = upd (nodes st) i N -> wf i st'.
Proof. intros W U. eapply wf_upd; [exact W | exact U | intros H; congruence]. Qed.

(* a run of an integer-seeded node is a function of the node record and of its private generator *)
Lemma do_run_own i a b n x T :
  n_rng n = GPriv i -> view i a = view i b -> nodes a i = Some n ->
  view i (fst (do_run a i n x T)) = view i (fst (do_run b i n x T)) /\
  snd (do_run a i n x T) = snd (do_run b i n x T) /\
  (exists N, nodes (fst (do_run a i n x T)) i = Some N /\ n_cfg N = n_cfg n /\ n_rng N = n_rng n) /\
  (wf i a -> wf i (fst (do_run a i n x T))) /\ (wf i b -> wf i (fst (do_run b i n x T))).
Proof.
  intros Hr Hv Hn. pose proof (do_run_spec a i n x T) as SA. pose proof (do_run_spec b i n x T) as SB. simpl in *.
  assert (Hh : heap a (GPriv i) = heap b (GPriv i)) by (eapply view_heap; eauto).
  destruct (n_params n) as [[[[W Win] bb] din]|].
  - destruct (c_fb (n_cfg n) && match n_wfb n with None => true | Some _ => false end).
    + destruct SA as (-> & ->), SB as (-> & ->). repeat split; eauto.
    + destruct SA as (na & ha & _ & _ & _ & _ & ea), SB as (nb & hb & _ & _ & _ & _ & eb).
      rewrite Hr in *. rewrite ea, eb, Hh. unfold view. rewrite na, nb, ha, hb, !upd_same, Hh.
      repeat split; eauto.
      * intros Wa. eapply own_wf_upd; eauto.
      * intros Wb. eapply own_wf_upd; eauto.
  - destruct SA as (-> & ->), SB as (-> & ->). repeat split; eauto.
Qed.

Lemma own_seeded_view i a b : view i a = view i b -> own_seeded i a -> own_seeded i b.
Proof. unfold own_seeded. intros H. rewrite (view_nodes _ _ _ H). auto. Qed.

(* operations addressed to an integer-seeded node i: result and produced arrays depend on the view of i only *)
Lemma step_own i a b o :
  touches i o = true -> seeded_op i o -> view i a = view i b -> own_seeded i a -> wf i a -> wf i b ->
  view i (fst (step a o)) = view i (fst (step b o)) /\ snd (step a o) = snd (step b o) /\
  own_seeded i (fst (step a o)) /\ wf i (fst (step a o)) /\ wf i (fst (step b o)) /\
  Forall (fun e => e_node e = Some i) (snd (step a o)).
Proof.
  intros Ht Hs Hv Ho Wa Wb.
  assert (Hn : nodes a i = nodes b i) by (apply view_nodes; assumption).
  assert (Hh : forall n, nodes a i = Some n -> heap a (GPriv i) = heap b (GPriv i)) by (intros; eapply view_heap; eauto).
  destruct o as [s|g s|r|g r|j c|j din|j dfb|j x din T|sd r post|s|j rs hrs cfg|j data|j]; simpl in Ht; try discriminate;
    apply Nat.eqb_eq in Ht; subst j; cbv beta iota zeta delta [step].
  - (* construct *)
    destruct (Hs eq_refl) as (s & Hc). unfold construct. rewrite Hc. unfold view, own_seeded. simpl.
    rewrite !upd_same, !upd_heap_same. repeat split; eauto.
    + eapply own_wf_upd; [exact Wa | reflexivity].
    + eapply own_wf_upd; [exact Wb | reflexivity].
  - (* initialize *)
    rewrite <- Hn. unfold own_seeded in Ho. destruct (nodes a i) as [n|] eqn:N.
    + destruct Ho as ((s & Hc) & Hr). destruct (n_params n).
      * simpl. unfold own_seeded. rewrite N. repeat split; eauto.
      * rewrite !(do_init_int _ _ _ _ s Hc). unfold view, own_seeded. simpl. rewrite !upd_same, (Hh _ eq_refl).
        repeat split; eauto.
        -- eapply own_wf_upd; [exact Wa | reflexivity].
        -- eapply own_wf_upd; [exact Wb | reflexivity].
    + simpl. unfold own_seeded. rewrite N. repeat split; auto.
  - (* initialize_feedback *)
    rewrite <- Hn. unfold own_seeded in Ho. destruct (nodes a i) as [n|] eqn:N.
    + destruct Ho as ((s & Hc) & Hr). destruct (c_fb (n_cfg n)); [destruct (n_wfb n)|].
      * simpl. unfold own_seeded. rewrite N. repeat split; eauto.
      * rewrite !(do_initfb_int _ _ _ _ s Hc). unfold view, own_seeded. simpl. rewrite !upd_same, (Hh _ eq_refl).
        repeat split; eauto.
        -- eapply own_wf_upd; [exact Wa | reflexivity].
        -- eapply own_wf_upd; [exact Wb | reflexivity].
      * simpl. unfold own_seeded. rewrite N. repeat split; eauto.
    + simpl. unfold own_seeded. rewrite N. repeat split; auto.
  - (* run *)
    rewrite <- Hn. unfold own_seeded in Ho. destruct (nodes a i) as [n|] eqn:N.
    + destruct Ho as ((s & Hc) & Hr). destruct (n_params n) eqn:P.
      * pose proof (do_run_own i a b n x T Hr Hv N) as (V & E & (N' & N1 & C1 & R1) & W1 & W2).
        repeat split; auto.
        -- unfold own_seeded. rewrite N1, C1, R1. eauto.
        -- pose proof (do_run_spec a i n x T) as S. simpl in S. rewrite P in S. destruct p as [[[W Win] bb] d].
           destruct (c_fb (n_cfg n) && match n_wfb n with None => true | Some _ => false end).
           ++ destruct S as (_ & ->). constructor.
           ++ destruct S as (_ & _ & _ & _ & _ & _ & ->). repeat constructor.
      * rewrite !(do_init_int _ _ _ _ s Hc). cbv beta iota zeta. simpl nodes. rewrite !upd_same.
        set (n1 := mkNode (n_cfg n) (n_rng n) (Some (init_W_int s (n_cfg n), init_Win_int s (n_cfg n) din, init_bias_int s (n_cfg n), din)) (n_wfb n) (n_log n)).
        assert (V1 : view i (set_node a i n1) = view i (set_node b i n1)) by (unfold view; simpl; rewrite !upd_same, (Hh _ eq_refl); reflexivity).
        assert (N1 : nodes (set_node a i n1) i = Some n1) by (simpl; apply upd_same).
        assert (Wa1 : wf i (set_node a i n1)) by (eapply own_wf_upd; [exact Wa | reflexivity]).
        assert (Wb1 : wf i (set_node b i n1)) by (eapply own_wf_upd; [exact Wb | reflexivity]).
        pose proof (do_run_own i (set_node a i n1) (set_node b i n1) n1 x T Hr V1 N1) as (V & E & (N' & N2 & C2 & R2) & W1 & W2).
        pose proof (do_run_spec (set_node a i n1) i n1 x T) as S. simpl in S.
        destruct (do_run (set_node a i n1) i n1 x T) as [a2 ea2]. destruct (do_run (set_node b i n1) i n1 x T) as [b2 eb2].
        simpl in *. subst eb2. repeat split; auto.
        -- unfold own_seeded. rewrite N2, C2, R2. eauto.
        -- repeat constructor.
           destruct (c_fb (n_cfg n) && match n_wfb n with None => true | Some _ => false end).
           ++ destruct S as (_ & ->). constructor.
           ++ destruct S as (_ & _ & _ & _ & _ & _ & ->). repeat constructor.
    + simpl. unfold own_seeded. rewrite N. repeat split; auto.
  - (* attach feedback *)
    rewrite <- Hn. unfold own_seeded in Ho. destruct (nodes a i) as [n|] eqn:N.
    + destruct Ho as ((s & Hc) & Hr). unfold view, own_seeded. simpl. rewrite !upd_same, (Hh _ eq_refl). simpl.
      repeat split; eauto.
      * eapply own_wf_upd; [exact Wa | reflexivity].
      * eapply own_wf_upd; [exact Wb | reflexivity].
    + simpl. unfold own_seeded. rewrite N. repeat split; auto.
Qed.

Record rel (i : nat) (a b : state) : Prop := {
  rel_view : view i a = view i b; rel_seeded : own_seeded i a; rel_wfa : wf i a; rel_wfb : wf i b }.
Lemma rel_refl i a : own_seeded i a -> wf i a -> rel i a a.
Proof. intros; constructor; auto. Qed.
Lemma rel_sym i a b : rel i a b -> rel i b a.
Proof. intros [V S Wa Wb]. constructor; auto. eapply own_seeded_view; eauto. Qed.

(* the arrays of node i produced by a history are those produced by its own operations alone, from any related state *)
Lemma skip_others i : forall h a b,
  rel i a b -> Forall (seeded_op i) h ->
  proj i (snd (exec a h)) = snd (exec b (filter (touches i) h)).
Proof.
  induction h as [|o h IH]; intros a b R F; simpl; [reflexivity|].
  inversion F as [|? ? Fo Fh]; subst. destruct R as [V S Wa Wb].
  destruct (touches i o) eqn:T.
  - pose proof (step_own i a b o T Fo V S Wa Wb) as (V1 & E1 & S1 & Wa1 & Wb1 & All).
    simpl. destruct (step a o) as [a1 ea]. destruct (step b o) as [b1 eb]. simpl in *. subst eb.
    assert (R1 : rel i a1 b1) by (constructor; auto).
    specialize (IH a1 b1 R1 Fh).
    destruct (exec a1 h) as [a2 ea2]. destruct (exec b1 (filter (touches i) h)) as [b2 eb2]. simpl in *.
    rewrite proj_app, (proj_all i ea All), IH. reflexivity.
  - pose proof (step_other i a o T Wa) as (V1 & E1 & Wa1).
    destruct (step a o) as [a1 ea]. simpl in *.
    assert (R1 : rel i a1 b).
    { constructor; auto; [congruence|]. eapply own_seeded_view; [symmetry; exact V1 | exact S]. }
    specialize (IH a1 b R1 Fh). destruct (exec a1 h) as [a2 ea2]. simpl in *.
    rewrite proj_app, E1, IH. reflexivity.
Qed.

Theorem seeded_history_free i a b h1 h2 :
  rel i a b -> Forall (seeded_op i) h1 -> Forall (seeded_op i) h2 ->
  filter (touches i) h1 = filter (touches i) h2 ->
  proj i (snd (exec a h1)) = proj i (snd (exec b h2)).
Proof.
  intros R F1 F2 E.
  rewrite (skip_others i h1 a a (rel_refl i a (rel_seeded _ _ _ R) (rel_wfa _ _ _ R)) F1).
  rewrite (skip_others i h2 b a (rel_sym _ _ _ R) F2). rewrite E. reflexivity.
Qed.

(* initial states, and any state in which node i does not exist yet and no node uses its private generator *)
Lemma rel_fresh i a b :
  nodes a i = None -> nodes b i = None -> wf i a -> wf i b -> rel i a b.
Proof. intros Na Nb Wa Wb. constructor; auto; unfold view, own_seeded; rewrite ?Na, ?Nb; auto. Qed.
Lemma rel_init i k1 k2 : rel i (init_state k1) (init_state k2).
Proof. apply rel_fresh; try reflexivity; intros j n H; discriminate. Qed.

(* ------------------------------------------------------------------ C14_seed_reaches_every_component *)
Definition seeded_op_with (i s : nat) (o : op) : Prop :=
  match o with OConstruct j c => j = i -> c_src c = SInt s | _ => True end.
Definition params_rooted (s : nat) (p : option (mat * mat * mat * nat)) : Prop :=
  match p with Some (W, Win, b, _) => mat_rooted s W /\ mat_rooted s Win /\ mat_rooted s b | None => True end.
Definition wfb_rooted (s : nat) (p : option (mat * nat)) : Prop :=
  match p with Some (m, _) => mat_rooted s m | None => True end.
Definition inv (i s : nat) (st : state) : Prop :=
  match nodes st i with
  | None => True
  | Some n => c_src (n_cfg n) = SInt s /\ n_rng n = GPriv i /\ fst (heap st (GPriv i)) = Seeded s /\
              params_rooted s (n_params n) /\ wfb_rooted s (n_wfb n) /\ log_rooted s (n_log n)
  end.

Lemma init_bias_rooted s c : mat_rooted s (init_bias_int s c).
Proof. unfold init_bias_int. destruct (c_bias c); simpl; [reflexivity | exact I]. Qed.

Lemma do_run_inv i s st n x T :
  nodes st i = Some n -> inv i s st ->
  inv i s (fst (do_run st i n x T)) /\ Forall (fun e => term_rooted s (e_term e)) (snd (do_run st i n x T)).
Proof.
  intros N I. pose proof I as I0. unfold inv in I. rewrite N in I. destruct I as (Hc & Hr & Hg & Hp & Hf & Hl).
  pose proof (do_run_spec st i n x T) as S. simpl in S.
  destruct (n_params n) as [[[[W Win] b] din]|] eqn:P.
  - destruct (c_fb (n_cfg n) && match n_wfb n with None => true | Some _ => false end).
    + destruct S as (-> & ->). split; [assumption | constructor].
    + destruct S as (nn & hh & _ & _ & _ & _ & ee). rewrite ee. rewrite Hr in *.
      pose proof (prun_noise_rooted s T (heap st (GPriv i)) n din Hg) as (R1 & R2).
      assert (L : log_rooted s (n_log n ++ [mkRun x T (fb_active n) (snd (prun_noise T (heap st (GPriv i)) n din))])).
      { apply Forall_app. split; [exact Hl | repeat constructor; exact R2]. }
      split.
      * unfold inv. rewrite nn, upd_same. simpl. rewrite hh. repeat split; auto; apply Hp.
      * repeat constructor; simpl; try apply Hp; auto.
        unfold wfb_mat. destruct (n_wfb n) as [[m d]|]; simpl in *; auto.
  - destruct S as (-> & ->). split; [assumption | constructor].
Qed.

Lemma step_own_inv i s st o :
  touches i o = true -> seeded_op_with i s o -> inv i s st ->
  inv i s (fst (step st o)) /\ Forall (fun e => term_rooted s (e_term e)) (snd (step st o)).
Proof.
  intros Ht Hs I.
  destruct o as [s0|g s0|r|g r|j c|j din|j dfb|j x din T|sd r post|s0|j rs hrs cfg|j data|j]; simpl in Ht; try discriminate;
    apply Nat.eqb_eq in Ht; subst j; cbv beta iota zeta delta [step].
  - specialize (Hs eq_refl). unfold construct. rewrite Hs. unfold inv. simpl. rewrite upd_same, upd_heap_same. simpl.
    repeat split; auto. constructor.
  - pose proof I as I0. unfold inv in I. destruct (nodes st i) as [n|] eqn:N; [|split; [assumption | constructor]].
    destruct I as (Hc & Hr & Hg & Hp & Hf & Hl). destruct (n_params n) eqn:P; [split; [assumption | constructor]|].
    rewrite (do_init_int _ _ _ _ s Hc). simpl. split.
    + unfold inv. simpl. rewrite upd_same. simpl. repeat split; auto. apply init_bias_rooted.
    + repeat constructor; simpl; auto. apply init_bias_rooted.
  - pose proof I as I0. unfold inv in I. destruct (nodes st i) as [n|] eqn:N; [|split; [assumption | constructor]].
    destruct I as (Hc & Hr & Hg & Hp & Hf & Hl).
    destruct (c_fb (n_cfg n)); [|split; [assumption | constructor]].
    destruct (n_wfb n) eqn:P; [split; [assumption | constructor]|].
    rewrite (do_initfb_int _ _ _ _ s Hc). simpl. split.
    + unfold inv. simpl. rewrite upd_same. simpl. repeat split; auto.
    + repeat constructor.
  - pose proof I as I0. unfold inv in I. destruct (nodes st i) as [n|] eqn:N; [|split; [assumption | constructor]].
    destruct I as (Hc & Hr & Hg & Hp & Hf & Hl). destruct (n_params n) eqn:P.
    + apply do_run_inv; assumption.
    + rewrite (do_init_int _ _ _ _ s Hc). cbv beta iota zeta. simpl nodes. rewrite upd_same.
      set (n1 := mkNode (n_cfg n) (n_rng n) (Some (init_W_int s (n_cfg n), init_Win_int s (n_cfg n) din, init_bias_int s (n_cfg n), din)) (n_wfb n) (n_log n)).
      assert (N1 : nodes (set_node st i n1) i = Some n1) by (simpl; apply upd_same).
      assert (I1 : inv i s (set_node st i n1)).
      { unfold inv. rewrite N1. simpl. repeat split; auto. apply init_bias_rooted. }
      pose proof (do_run_inv i s (set_node st i n1) n1 x T N1 I1) as (I2 & E2).
      destruct (do_run (set_node st i n1) i n1 x T) as [st2 ev2]. simpl in *. split; [assumption|].
      repeat constructor; simpl; auto. apply init_bias_rooted.
  - pose proof I as I0. unfold inv in I. destruct (nodes st i) as [n|] eqn:N; [|split; [assumption | constructor]].
    destruct I as (Hc & Hr & Hg & Hp & Hf & Hl). simpl. split; [|constructor].
    unfold inv. simpl. rewrite upd_same. simpl. repeat split; auto.
Qed.

Lemma Forall_filter {A} (P : A -> Prop) f l : Forall P l -> Forall P (filter f l).
Proof. induction 1; simpl; [constructor|]. destruct (f x); [constructor|]; auto. Qed.
Lemma seeded_op_with_weaken i s o : seeded_op_with i s o -> seeded_op i o.
Proof. destruct o; simpl; auto. intros H E. eauto. Qed.

Lemma own_inv i s : forall h st,
  Forall (fun o => touches i o = true) h -> Forall (seeded_op_with i s) h -> inv i s st ->
  Forall (fun e => term_rooted s (e_term e)) (snd (exec st h)).
Proof.
  induction h as [|o h IH]; intros st T F I; simpl; [constructor|].
  inversion T; inversion F; subst.
  pose proof (step_own_inv i s st o H1 H5 I) as (I1 & E1).
  destruct (step st o) as [st1 e1]. simpl in *.
  specialize (IH st1 H2 H6 I1). destruct (exec st1 h) as [st2 e2]. simpl in *.
  apply Forall_app. auto.
Qed.

Lemma inv_own_seeded i s st : inv i s st -> own_seeded i st.
Proof. unfold inv, own_seeded. destruct (nodes st i); auto. intros (a & b & _). eauto. Qed.

Theorem seed_reaches_every_component i s st h :
  wf i st -> inv i s st -> Forall (seeded_op_with i s) h ->
  Forall (fun e => term_rooted s (e_term e)) (proj i (snd (exec st h))).
Proof.
  intros W I F.
  rewrite (skip_others i h st st).
  - apply (own_inv i s); auto.
    + clear. induction h; simpl; [constructor|]. destruct (touches i a) eqn:E; [constructor|]; auto.
    + apply Forall_filter; assumption.
  - apply rel_refl; [eapply inv_own_seeded; eauto | assumption].
  - eapply Forall_impl; [|exact F]. intros o. apply seeded_op_with_weaken.
Qed.

(* ------------------------------------------------------------------ C14_global_seed_reproducible *)
(* generator objects that exist and were not a global generator before the script's set_seed *)
Definition live (e0 ep : nat) (k : gid) : Prop := match k with GGlob e => e0 < e <= ep | _ => True end.
Record sim (e0 : nat) (a b : state) : Prop := {
  sim_epoch : epoch a = epoch b; sim_lt : e0 < epoch a; sim_ds : ds_default a = ds_default b;
  sim_nodes : forall i, nodes a i = nodes b i; sim_sks : forall i, sks a i = sks b i;
  sim_heap : forall k, live e0 (epoch a) k -> heap a k = heap b k;
  sim_live : forall i n, nodes a i = Some n -> live e0 (epoch a) (n_rng n) }.

Lemma sim_set_heap e0 a b k v : sim e0 a b -> sim e0 (set_heap a k v) (set_heap b k v).
Proof.
  intros [E L D N S H V]. constructor; simpl; auto.
  intros k' Hk. unfold upd_heap. destruct (gid_eqb k k'); auto.
Qed.
Lemma sim_set_node e0 a b i n : sim e0 a b -> live e0 (epoch a) (n_rng n) -> sim e0 (set_node a i n) (set_node b i n).
Proof.
  intros [E L D N S H V] Hl. constructor; simpl; auto.
  - intros j. unfold upd. destruct (i =? j); auto.
  - intros j m. unfold upd. destruct (i =? j); [intros X; inversion X; subst; assumption | apply V].
Qed.
Lemma sim_set_sk e0 a b i n : sim e0 a b -> sim e0 (set_sk a i n) (set_sk b i n).
Proof.
  intros [E L D N S H V]. constructor; simpl; auto. intros j. unfold upd. destruct (i =? j); auto.
Qed.
Lemma sim_gptr_live e0 a b : sim e0 a b -> live e0 (epoch a) (gptr a).
Proof. intros S. simpl. pose proof (sim_lt _ _ _ S). lia. Qed.
Lemma sim_gptr e0 a b : sim e0 a b -> gptr a = gptr b.
Proof. intros S. unfold gptr. rewrite (sim_epoch _ _ _ S). reflexivity. Qed.

Lemma sim_draw_src e0 a b sd r post :
  sim e0 a b -> sim e0 (fst (draw_src a sd r post)) (fst (draw_src b sd r post)) /\ snd (draw_src a sd r post) = snd (draw_src b sd r post).
Proof.
  intros S. destruct sd as [|s|u]; simpl.
  - rewrite <- (sim_gptr _ _ _ S), <- (sim_heap _ _ _ S _ (sim_gptr_live _ _ _ S)).
    split; [apply sim_set_heap; assumption | reflexivity].
  - auto.
  - rewrite <- (sim_heap _ _ _ S (GUser u) I). split; [apply sim_set_heap; assumption | reflexivity].
Qed.

Lemma sim_noise e0 a b p gain r :
  sim e0 a b -> live e0 (epoch a) p ->
  sim e0 (fst (noise a p gain r)) (fst (noise b p gain r)) /\ snd (noise a p gain r) = snd (noise b p gain r) /\
  epoch (fst (noise a p gain r)) = epoch a.
Proof.
  intros S L. unfold noise. destruct (gain =? 0); simpl; [auto|].
  rewrite <- (sim_heap _ _ _ S p L). split; [apply sim_set_heap; assumption | auto].
Qed.

Lemma sim_step_noise e0 a b n din :
  sim e0 a b -> live e0 (epoch a) (n_rng n) ->
  sim e0 (fst (step_noise a n din)) (fst (step_noise b n din)) /\ snd (step_noise a n din) = snd (step_noise b n din) /\
  epoch (fst (step_noise a n din)) = epoch a.
Proof.
  intros S L. unfold step_noise. set (c := n_cfg n). set (p := n_rng n) in *.
  pose proof (sim_noise e0 a b p (c_gin c) (mkReq DNOISE din 1 (c_ndist c)) S L) as (S1 & O1 & E1).
  destruct (noise a p (c_gin c) (mkReq DNOISE din 1 (c_ndist c))) as [a1 x1].
  destruct (noise b p (c_gin c) (mkReq DNOISE din 1 (c_ndist c))) as [b1 y1]. simpl in *. subst y1.
  assert (L1 : live e0 (epoch a1) p) by (rewrite E1; exact L).
  assert (X : exists a2 b2 x2,
     (match n_wfb n with
      | Some (_, dfb) => if c_fb c then noise a1 p (c_gfb c) (mkReq DNOISE dfb 1 (c_ndist c)) else (a1, None)
      | None => (a1, None) end) = (a2, x2) /\
     (match n_wfb n with
      | Some (_, dfb) => if c_fb c then noise b1 p (c_gfb c) (mkReq DNOISE dfb 1 (c_ndist c)) else (b1, None)
      | None => (b1, None) end) = (b2, x2) /\ sim e0 a2 b2 /\ epoch a2 = epoch a1).
  { destruct (n_wfb n) as [[m dfb]|]; [destruct (c_fb c)|].
    - pose proof (sim_noise e0 a1 b1 p (c_gfb c) (mkReq DNOISE dfb 1 (c_ndist c)) S1 L1) as (S2 & O2 & E2).
      destruct (noise a1 p (c_gfb c) (mkReq DNOISE dfb 1 (c_ndist c))) as [a2 x2].
      destruct (noise b1 p (c_gfb c) (mkReq DNOISE dfb 1 (c_ndist c))) as [b2 y2]. simpl in *. subst y2.
      exists a2, b2, x2. refine (conj eq_refl (conj eq_refl (conj _ _))); assumption.
    - exists a1, b1, None. refine (conj eq_refl (conj eq_refl (conj _ _))); auto.
    - exists a1, b1, None. refine (conj eq_refl (conj eq_refl (conj _ _))); auto. }
  destruct X as (a2 & b2 & x2 & -> & -> & S2 & E2).
  assert (L2 : live e0 (epoch a2) p) by (rewrite E2; exact L1).
  pose proof (sim_noise e0 a2 b2 p (c_grc c) (mkReq DNOISE (c_units c) 1 (c_ndist c)) S2 L2) as (S3 & O3 & E3).
  destruct (noise a2 p (c_grc c) (mkReq DNOISE (c_units c) 1 (c_ndist c))) as [a3 x3].
  destruct (noise b2 p (c_grc c) (mkReq DNOISE (c_units c) 1 (c_ndist c))) as [b3 y3]. simpl in *. subst y3.
  refine (conj S3 (conj eq_refl _)). congruence.
Qed.

Lemma sim_run_noise e0 T : forall a b n din,
  sim e0 a b -> live e0 (epoch a) (n_rng n) ->
  sim e0 (fst (run_noise T a n din)) (fst (run_noise T b n din)) /\ snd (run_noise T a n din) = snd (run_noise T b n din) /\
  epoch (fst (run_noise T a n din)) = epoch a.
Proof.
  induction T; intros a b n din S L; simpl; [auto|].
  pose proof (sim_step_noise e0 a b n din S L) as (S1 & O1 & E1).
  destruct (step_noise a n din) as [a1 x1]. destruct (step_noise b n din) as [b1 y1]. simpl in *. subst y1.
  assert (L1 : live e0 (epoch a1) (n_rng n)) by (rewrite E1; exact L).
  pose proof (IHT a1 b1 n din S1 L1) as (S2 & O2 & E2).
  destruct (run_noise T a1 n din) as [a2 x2]. destruct (run_noise T b1 n din) as [b2 y2]. simpl in *. subst y2.
  refine (conj S2 (conj eq_refl _)). congruence.
Qed.

Lemma draw_src_epoch st sd r post : epoch (fst (draw_src st sd r post)) = epoch st.
Proof. apply (draw_src_pframe st sd r post). Qed.

Lemma sim_do_init e0 a b i n din :
  sim e0 a b -> live e0 (epoch a) (n_rng n) ->
  sim e0 (fst (do_init a i n din)) (fst (do_init b i n din)) /\ snd (do_init a i n din) = snd (do_init b i n din).
Proof.
  intros S L. unfold do_init. set (c := n_cfg n).
  pose proof (sim_draw_src e0 a b (c_src c) (mkReq DNORM (c_units c) (c_units c) (fst (c_W c))) (snd (c_W c)) S) as (S1 & O1).
  pose proof (draw_src_epoch a (c_src c) (mkReq DNORM (c_units c) (c_units c) (fst (c_W c))) (snd (c_W c))) as E1.
  destruct (draw_src a (c_src c) (mkReq DNORM (c_units c) (c_units c) (fst (c_W c))) (snd (c_W c))) as [a1 x1].
  destruct (draw_src b (c_src c) (mkReq DNORM (c_units c) (c_units c) (fst (c_W c))) (snd (c_W c))) as [b1 y1].
  simpl in S1, O1, E1. subst y1.
  pose proof (sim_draw_src e0 a1 b1 (c_src c) (mkReq DBERN (c_units c) din (fst (c_Win c))) (snd (c_Win c)) S1) as (S2 & O2).
  pose proof (draw_src_epoch a1 (c_src c) (mkReq DBERN (c_units c) din (fst (c_Win c))) (snd (c_Win c))) as E2.
  destruct (draw_src a1 (c_src c) (mkReq DBERN (c_units c) din (fst (c_Win c))) (snd (c_Win c))) as [a2 x2].
  destruct (draw_src b1 (c_src c) (mkReq DBERN (c_units c) din (fst (c_Win c))) (snd (c_Win c))) as [b2 y2].
  simpl in S2, O2, E2. subst y2.
  assert (X : exists a3 b3 m,
     (if c_bias c then let '(s, d) := draw_src a2 (c_src c) (mkReq DBERN (c_units c) 1 (fst (c_B c))) (snd (c_B c)) in (s, MDraw d)
      else (a2, MZero (c_units c) 1)) = (a3, m) /\
     (if c_bias c then let '(s, d) := draw_src b2 (c_src c) (mkReq DBERN (c_units c) 1 (fst (c_B c))) (snd (c_B c)) in (s, MDraw d)
      else (b2, MZero (c_units c) 1)) = (b3, m) /\ sim e0 a3 b3 /\ epoch a3 = epoch a2).
  { destruct (c_bias c); [|eauto 10].
    pose proof (sim_draw_src e0 a2 b2 (c_src c) (mkReq DBERN (c_units c) 1 (fst (c_B c))) (snd (c_B c)) S2) as (S3 & O3).
    pose proof (draw_src_epoch a2 (c_src c) (mkReq DBERN (c_units c) 1 (fst (c_B c))) (snd (c_B c))) as E3.
    destruct (draw_src a2 (c_src c) (mkReq DBERN (c_units c) 1 (fst (c_B c))) (snd (c_B c))) as [a3 x3].
    destruct (draw_src b2 (c_src c) (mkReq DBERN (c_units c) 1 (fst (c_B c))) (snd (c_B c))) as [b3 y3].
    simpl in *. subst y3. eauto 10. }
  destruct X as (a3 & b3 & m & -> & -> & S3 & E3). simpl.
  split; [|reflexivity]. apply sim_set_node; [assumption|]. simpl. rewrite E3, E2, E1. exact L.
Qed.

Lemma sim_do_initfb e0 a b i n dfb :
  sim e0 a b -> live e0 (epoch a) (n_rng n) ->
  sim e0 (fst (do_initfb a i n dfb)) (fst (do_initfb b i n dfb)) /\ snd (do_initfb a i n dfb) = snd (do_initfb b i n dfb).
Proof.
  intros S L. unfold do_initfb. set (c := n_cfg n).
  pose proof (sim_draw_src e0 a b (c_src c) (mkReq DBERN (c_units c) dfb (fst (c_Fb c))) (snd (c_Fb c)) S) as (S1 & O1).
  pose proof (draw_src_epoch a (c_src c) (mkReq DBERN (c_units c) dfb (fst (c_Fb c))) (snd (c_Fb c))) as E1.
  destruct (draw_src a (c_src c) (mkReq DBERN (c_units c) dfb (fst (c_Fb c))) (snd (c_Fb c))) as [a1 x1].
  destruct (draw_src b (c_src c) (mkReq DBERN (c_units c) dfb (fst (c_Fb c))) (snd (c_Fb c))) as [b1 y1].
  simpl in *. subst y1. split; [|reflexivity]. apply sim_set_node; [assumption|]. simpl. rewrite E1. exact L.
Qed.

Lemma sim_do_run e0 a b i n x T :
  sim e0 a b -> live e0 (epoch a) (n_rng n) ->
  sim e0 (fst (do_run a i n x T)) (fst (do_run b i n x T)) /\ snd (do_run a i n x T) = snd (do_run b i n x T).
Proof.
  intros S L. unfold do_run. destruct (n_params n) as [[[[W Win] bb] din]|]; [|auto].
  destruct (c_fb (n_cfg n) && match n_wfb n with None => true | Some _ => false end); [auto|].
  pose proof (sim_run_noise e0 T a b n din S L) as (S1 & O1 & E1).
  destruct (run_noise T a n din) as [a1 x1]. destruct (run_noise T b n din) as [b1 y1]. simpl in *. subst y1.
  split; [|reflexivity]. apply sim_set_node; [assumption|]. simpl. rewrite E1. exact L.
Qed.

Lemma sim_step e0 a b o :
  sim e0 a b -> sim e0 (fst (step a o)) (fst (step b o)) /\ snd (step a o) = snd (step b o).
Proof.
  intros S. pose proof S as [E L D N K H V].
  destruct o as [s|g s|r|g r|j c|j din|j dfb|j x din T|sd r post|s|j rs hrs cfg|j data|j]; cbv beta iota zeta delta [step].
  - (* set_seed *) split; [|reflexivity]. unfold do_set_seed. constructor; simpl; auto; try lia.
    + intros k Hk. unfold upd_heap. rewrite E. destruct (gid_eqb (GGlob (Datatypes.S (epoch b))) k) eqn:Q; [reflexivity|].
      apply H. destruct k as [e| |]; simpl in *; auto. destruct (Nat.eq_dec e (Datatypes.S (epoch b))) as [->|Ne].
      * rewrite Nat.eqb_refl in Q. discriminate.
      * lia.
    + intros i n Hn. specialize (V i n Hn). destruct (n_rng n); simpl in *; auto. lia.
  - split; [apply sim_set_heap; assumption | reflexivity].
  - pose proof (sim_draw_src e0 a b SNone r 0 S) as (S1 & O1).
    destruct (draw_src a SNone r 0) as [a1 x1]. destruct (draw_src b SNone r 0) as [b1 y1]. simpl in *. subst. auto.
  - pose proof (sim_draw_src e0 a b (SGen g) r 0 S) as (S1 & O1).
    destruct (draw_src a (SGen g) r 0) as [a1 x1]. destruct (draw_src b (SGen g) r 0) as [b1 y1]. simpl in *. subst. auto.
  - (* construct *) split; [|reflexivity]. unfold construct. destruct (c_src c) as [|s|u].
    + rewrite <- (sim_gptr _ _ _ S). apply sim_set_node; [assumption | apply (sim_gptr_live _ _ _ S)].
    + apply sim_set_node; [apply sim_set_heap; assumption | exact I].
    + apply sim_set_node; [assumption | exact I].
  - rewrite <- N. destruct (nodes a j) as [n|] eqn:Nj; [|auto]. destruct (n_params n); [auto|].
    apply sim_do_init; eauto.
  - rewrite <- N. destruct (nodes a j) as [n|] eqn:Nj; [|auto]. destruct (c_fb (n_cfg n)); [|auto]. destruct (n_wfb n); [auto|].
    apply sim_do_initfb; eauto.
  - rewrite <- N. destruct (nodes a j) as [n|] eqn:Nj; [|auto]. destruct (n_params n).
    + apply sim_do_run; eauto.
    + pose proof (sim_do_init e0 a b j n din S (V _ _ Nj)) as (S1 & O1).
      destruct (do_init a j n din) as [a1 x1]. destruct (do_init b j n din) as [b1 y1]. simpl in S1, O1. subst y1.
      rewrite <- (sim_nodes _ _ _ S1). destruct (nodes a1 j) as [n1|] eqn:N1; [|auto].
      pose proof (sim_do_run e0 a1 b1 j n1 x T S1 (sim_live _ _ _ S1 _ _ N1)) as (S2 & O2).
      destruct (do_run a1 j n1 x T) as [a2 x2]. destruct (do_run b1 j n1 x T) as [b2 y2]. simpl in *. subst y2. auto.
  - rewrite <- D. set (sd' := match sd with SNone => SInt (ds_default a) | _ => sd end).
    pose proof (sim_draw_src e0 a b sd' r post S) as (S1 & O1).
    destruct (draw_src a sd' r post) as [a1 x1]. destruct (draw_src b sd' r post) as [b1 y1]. simpl in *. subst. auto.
  - split; [|reflexivity]. constructor; simpl; auto.
  - destruct rs; [split; [apply sim_set_sk; assumption | reflexivity]|].
    destruct hrs; [|split; [apply sim_set_sk; assumption | reflexivity]].
    pose proof (sim_draw_src e0 a b SNone (mkReq DINT 1 1 0) 0 S) as (S1 & O1).
    destruct (draw_src a SNone (mkReq DINT 1 1 0) 0) as [a1 x1]. destruct (draw_src b SNone (mkReq DINT 1 1 0) 0) as [b1 y1].
    simpl in *. subst. split; [apply sim_set_sk; assumption | reflexivity].
  - rewrite <- K. destruct (sks a j); [|auto]. split; [apply sim_set_sk; assumption | reflexivity].
  - rewrite <- N. destruct (nodes a j) as [n|] eqn:Nj; [|auto]. split; [|reflexivity].
    apply sim_set_node; [assumption | simpl; eauto].
Qed.

Lemma sim_exec e0 : forall h a b, sim e0 a b -> snd (exec a h) = snd (exec b h).
Proof.
  induction h as [|o h IH]; intros a b S; simpl; [reflexivity|].
  pose proof (sim_step e0 a b o S) as (S1 & O1).
  destruct (step a o) as [a1 x1]. destruct (step b o) as [b1 y1]. simpl in *. subst y1.
  specialize (IH a1 b1 S1). destruct (exec a1 h) as [a2 x2]. destruct (exec b1 h) as [b2 y2]. simpl in *. congruence.
Qed.

(* two program states that differ only in the content of (past and present) global generator objects, and in which no
   node captured such an object *)
Record same_but_global (a b : state) : Prop := {
  sg_epoch : epoch a = epoch b; sg_ds : ds_default a = ds_default b;
  sg_nodes : forall i, nodes a i = nodes b i; sg_sks : forall i, sks a i = sks b i;
  sg_heap : forall k, (forall e, k <> GGlob e) -> heap a k = heap b k;
  sg_nodes_seeded : forall i n e, nodes a i = Some n -> n_rng n <> GGlob e }.

Theorem global_seed_reproducible a b s h :
  same_but_global a b -> snd (exec a (OSetSeed s :: h)) = snd (exec b (OSetSeed s :: h)).
Proof.
  intros [E D N K H V].
  assert (S : sim (epoch a) (do_set_seed a s) (do_set_seed b s)).
  { constructor; simpl; auto.
    - intros k Hk. unfold upd_heap. rewrite E. destruct (gid_eqb (GGlob (S (epoch b))) k) eqn:Q; [reflexivity|].
      destruct k as [e| |]; simpl in *; try (apply H; intros; discriminate).
      assert (e = S (epoch b)) by lia. subst e. rewrite Nat.eqb_refl in Q. discriminate.
    - intros i n Hn. specialize (V i n). destruct (n_rng n) as [e| |]; simpl; auto. exfalso. eapply V; eauto. }
  simpl. pose proof (sim_exec (epoch a) h _ _ S) as X.
  destruct (exec (do_set_seed a s) h) as [a2 x2]. destruct (exec (do_set_seed b s) h) as [b2 y2]. simpl in *. congruence.
Qed.

Lemma init_same_but_global k1 k2 : same_but_global (init_state k1) (init_state k2).
Proof.
  constructor; simpl; auto; try discriminate.
  intros k Hk. destruct k as [e| |]; auto. destruct e; [exfalso; eapply Hk; reflexivity | reflexivity].
Qed.

Lemma seed_reaches_fresh i s st h :
  nodes st i = None -> wf i st -> Forall (seeded_op_with i s) h ->
  Forall (fun e => term_rooted s (e_term e)) (proj i (snd (exec st h))).
Proof. intros N W. apply seed_reaches_every_component; [assumption|]. unfold inv. rewrite N. exact I. Qed.

Theorem different_seeds_different_streams i j s1 s2 st h e1 e2 :
  s1 <> s2 -> nodes st i = None -> nodes st j = None -> wf i st -> wf j st ->
  Forall (seeded_op_with i s1) h -> Forall (seeded_op_with j s2) h ->
  In e1 (proj i (snd (exec st h))) -> In e2 (proj j (snd (exec st h))) -> term_random (e_term e1) ->
  e_term e1 <> e_term e2.
Proof.
  intros Hs Ni Nj Wi Wj Fi Fj I1 I2 R.
  pose proof (seed_reaches_fresh i s1 st h Ni Wi Fi) as A.
  pose proof (seed_reaches_fresh j s2 st h Nj Wj Fj) as B.
  rewrite Forall_forall in A, B. eapply rooted_diff; eauto.
Qed.
