(* C09 — data level: the accumulated sums depend only on the collection of retained rows. *)
From Coq Require Import List Arith Bool Lia Permutation Reals Lra.
From RV Require Import base.Num base.LA model.Conc model.BatchAcc proofs.Conc_proofs.
Import ListNotations.

(* ---- over any commutative monoid (matrices with entry-wise addition, numbers, pairs of them ...) ---- *)
Section MonoidLevel.
Variable A : Type.
Variable add : A -> A -> A.
Variable zero : A.
Hypothesis add_assoc : forall a b c, add a (add b c) = add (add a b) c.
Hypothesis add_comm : forall a b, add a b = add b a.
Hypothesis add_0_r : forall a, add a zero = a.
Variable S : Type.                 (* sequences *)
Variable contrib : S -> A.         (* per-sequence contribution, e.g. (X^T X, Y^T X) *)

Notation sum := (msum add zero).

Theorem acc_perm_invariant (seqs seqs' : list S) :
  Permutation seqs seqs' -> sum (map contrib seqs) = sum (map contrib seqs').
Proof. intros HP. apply (msum_perm A add zero add_assoc add_comm). apply Permutation_map. exact HP. Qed.

(* successive partial fits on batches, starting from the buffer a0 = one fit on the concatenation *)
Theorem acc_regroup (batches : list (list S)) (a0 : A) :
  fold_left (fun a b => add a (sum (map contrib b))) batches a0 = add a0 (sum (map contrib (concat batches))).
Proof.
  revert a0. induction batches as [|b bs IH]; intros a0; cbn [fold_left concat].
  - cbn. symmetry. apply add_0_r.
  - rewrite IH. rewrite map_app, (msum_app A add zero add_assoc add_comm add_0_r). symmetry. apply add_assoc.
Qed.

Corollary acc_regroup_perm (batches batches' : list (list S)) (a0 : A) :
  Permutation (concat batches) (concat batches') ->
  fold_left (fun a b => add a (sum (map contrib b))) batches a0 =
  fold_left (fun a b => add a (sum (map contrib b))) batches' a0.
Proof. intros HP. rewrite !acc_regroup. f_equal. apply acc_perm_invariant. exact HP. Qed.
End MonoidLevel.

Lemma Permutation_concat_map {X Y} (f : X -> list Y) l l' :
  Permutation l l' -> Permutation (concat (map f l)) (concat (map f l')).
Proof.
  induction 1 as [|x l l' _ IH|x y l|l l' l'' _ IH1 _ IH2]; cbn [map concat].
  - reflexivity.
  - apply Permutation_app_head. exact IH.
  - rewrite !app_assoc. apply Permutation_app_tail. apply Permutation_app_comm.
  - etransitivity; eassumption.
Qed.

(* ---- the executable entry-wise model at the real numbers ---- *)
Section AtR.
Notation row := (list R * list R)%type.
Open Scope R_scope.

Lemma rows_sum_cons (g : row -> R) r rows : rows_sum g (r :: rows) = g r + rows_sum g rows.
Proof. reflexivity. Qed.
Lemma rows_sum_app (g : row -> R) l1 l2 : rows_sum g (l1 ++ l2) = rows_sum g l1 + rows_sum g l2.
Proof. induction l1 as [|r l1 IH]; [rewrite app_nil_l; change (rows_sum g []) with 0; lra|]. rewrite <- app_comm_cons, !rows_sum_cons, IH. lra. Qed.
Lemma rows_sum_perm (g : row -> R) l l' : Permutation l l' -> rows_sum g l = rows_sum g l'.
Proof.
  induction 1 as [|x l l' _ IH|x y l|l l' l'' _ IH1 _ IH2]; [reflexivity| | |congruence].
  - rewrite !rows_sum_cons, IH. reflexivity.
  - rewrite !rows_sum_cons. lra.
Qed.

Lemma seqs_sum_cons (g : row -> R) w s seqs :
  seqs_sum g w (s :: seqs) = rows_sum g (retained w s) + seqs_sum g w seqs.
Proof. reflexivity. Qed.
Lemma seqs_sum_app (g : row -> R) w l1 l2 : seqs_sum g w (l1 ++ l2) = seqs_sum g w l1 + seqs_sum g w l2.
Proof. induction l1 as [|s l1 IH]; [rewrite app_nil_l; change (seqs_sum g w []) with 0; lra|]. rewrite <- app_comm_cons, !seqs_sum_cons, IH. lra. Qed.

(* a list of sequences contributes the sum over all its retained rows *)
Lemma seqs_sum_rows (g : row -> R) w seqs :
  seqs_sum g w seqs = rows_sum g (concat (map (retained w) seqs)).
Proof.
  induction seqs as [|s seqs IH]; [reflexivity|].
  rewrite seqs_sum_cons, IH. cbn [map concat]. rewrite rows_sum_app. reflexivity.
Qed.

(* successive partial fits accumulate the sum over all the retained rows of all the batches *)
Lemma batches_sum_concat (g : row -> R) w batches : forall a0,
  batches_sum g w batches a0 = a0 + seqs_sum g w (concat batches).
Proof.
  induction batches as [|b bs IH]; intros a0; [change (batches_sum g w [] a0) with a0; change (seqs_sum g w (concat [])) with 0; lra|].
  unfold batches_sum in *. cbn [fold_left concat]. rewrite IH, seqs_sum_app. numR. lra.
Qed.

Definition retained_rows (w : nat) (batches : list (list (list row))) : list row :=
  concat (map (retained w) (concat batches)).

Lemma batches_sum_rows (g : row -> R) w batches a0 :
  batches_sum g w batches a0 = a0 + rows_sum g (retained_rows w batches).
Proof. rewrite batches_sum_concat, seqs_sum_rows. reflexivity. Qed.

(* Two presentations (any grouping into partial fits, any split into sequences, any order, any warm-ups) whose
   retained rows are the same collection fill the buffers with the same numbers. *)
Theorem batches_sum_collection (g : row -> R) w w' batches batches' a0 :
  Permutation (retained_rows w batches) (retained_rows w' batches') ->
  batches_sum g w batches a0 = batches_sum g w' batches' a0.
Proof. intros HP. rewrite !batches_sum_rows. f_equal. apply rows_sum_perm. exact HP. Qed.

Lemma tabulate_ext r c (f f' : nat -> nat -> R) :
  (forall i j, f i j = f' i j) -> tabulate r c f = tabulate r c f'.
Proof. intros E. unfold tabulate. apply map_ext. intros i. apply map_ext. intros j. apply E. Qed.

Theorem buffers_collection bias din dout w w' (batches batches' : list (list (list row))) :
  Permutation (retained_rows w batches) (retained_rows w' batches') ->
  XXT_of bias din w batches = XXT_of bias din w' batches' /\
  YXT_of bias din dout w batches = YXT_of bias din dout w' batches'.
Proof.
  intros HP. unfold XXT_of, YXT_of. split; apply tabulate_ext; intros i j; apply batches_sum_collection; exact HP.
Qed.

(* special cases named in the property *)
Corollary buffers_perm_sequences bias din dout w (seqs seqs' : list (list row)) :
  Permutation seqs seqs' ->
  XXT_of bias din w [seqs] = XXT_of bias din w [seqs'] /\ YXT_of bias din dout w [seqs] = YXT_of bias din dout w [seqs'].
Proof.
  intros HP. apply buffers_collection. unfold retained_rows. cbn [concat]. rewrite !app_nil_r.
  apply Permutation_concat_map. exact HP.
Qed.
End AtR.
