(* C03 — proofs about entries/exits, cycle rejection, Concat insertion, link and merge (model/Graph.v). *)
From Coq Require Import List Arith Lia Bool Permutation.
From RV Require Import model.Graph proofs.Graph_proofs.
Import ListNotations.

(* ------------------------------------------------------------------ membership helpers *)
Lemma mem_In x l : mem x l = true <-> In x l.
Proof. unfold mem. rewrite existsb_exists. split.
  - intros [y [Hy He]]. apply Nat.eqb_eq in He. subst; auto.
  - intros H. exists x. split; auto. apply Nat.eqb_refl. Qed.

Lemma mem_false x l : mem x l = false <-> ~ In x l.
Proof. rewrite <- mem_In. destruct (mem x l); split; intros H; try reflexivity; try discriminate.
  exfalso; apply H; reflexivity. Qed.

Lemma in_senders u E : In u (senders E) <-> exists v, In (u, v) E.
Proof. unfold senders. rewrite in_map_iff. split.
  - intros [[a b] [Ha Hi]]. simpl in Ha. subst. eauto.
  - intros [v Hv]. exists (u, v). auto. Qed.

Lemma in_receivers v E : In v (receivers E) <-> exists u, In (u, v) E.
Proof. unfold receivers. rewrite in_map_iff. split.
  - intros [[a b] [Ha Hi]]. simpl in Ha. subst. eauto.
  - intros [u Hu]. exists (u, v). auto. Qed.

Lemma has_in_false_iff v E : has_in v E = false <-> ~ exists u, In (u, v) E.
Proof. rewrite has_in_false. split.
  - intros H [u Hu]. apply (H _ Hu). reflexivity.
  - intros H [a b] He Hs. simpl in Hs. subst. apply H. eauto. Qed.

Lemma parents_In E v p : In p (parents E v) <-> In (p, v) E.
Proof. unfold parents. rewrite in_map_iff. split.
  - intros [[a b] [Ha Hf]]. simpl in Ha. subst. apply filter_In in Hf as [Hi Hn]. simpl in Hn.
    apply Nat.eqb_eq in Hn. subst. auto.
  - intros H. exists (p, v). split; auto. apply filter_In. simpl. rewrite Nat.eqb_refl. auto. Qed.

Lemma parents_nodup E v : NoDup E -> NoDup (parents E v).
Proof. unfold parents. induction E as [|[a b] E IH]; intros H; simpl; [constructor|].
  inversion H as [|? ? Hx Hnd]; subst. destruct (Nat.eqb_spec b v); simpl; auto.
  subst. constructor; auto. intros Hi. apply Hx. apply in_map_iff in Hi as [[a' b'] [Hb Hf]]. simpl in Hb; subst.
  apply filter_In in Hf as [Hf Hn]. simpl in Hn. apply Nat.eqb_eq in Hn. subst. auto. Qed.

Definition wf (V : list node) (E : list edge) := forall e, In e E -> In (fst e) V /\ In (snd e) V.

(* ------------------------------------------------------------------ find_entries_and_exits *)
Lemma entries_spec V E : wf V E -> forall v, In v (entries V E) <-> In v V /\ ~ exists u, In (u, v) E.
Proof. intros Hwf v. unfold entries, lonely. rewrite nodup_In, in_app_iff, !filter_In, <- in_receivers. split.
  - intros [[Hs Hr]|[Hv Hr]].
    + apply negb_true_iff, mem_false in Hr. split; auto. apply in_senders in Hs as [w Hw]. apply (Hwf _ Hw).
    + apply andb_true_iff in Hr as [_ Hr]. apply negb_true_iff, mem_false in Hr. auto.
  - intros [Hv Hr]. apply mem_false in Hr. destruct (mem v (senders E)) eqn:Hs.
    + left. apply mem_In in Hs. rewrite Hr. auto.
    + right. rewrite Hr. auto. Qed.

Lemma exits_spec V E : wf V E -> forall v, In v (exits V E) <-> In v V /\ ~ exists w, In (v, w) E.
Proof. intros Hwf v. unfold exits, lonely. rewrite nodup_In, in_app_iff, !filter_In, <- in_senders. split.
  - intros [[Hs Hr]|[Hv Hr]].
    + apply negb_true_iff, mem_false in Hr. split; auto. apply in_receivers in Hs as [w Hw]. apply (Hwf _ Hw).
    + apply andb_true_iff in Hr as [Hr _]. apply negb_true_iff, mem_false in Hr. auto.
  - intros [Hv Hr]. apply mem_false in Hr. destruct (mem v (receivers E)) eqn:Hs.
    + left. apply mem_In in Hs. rewrite Hr. auto.
    + right. rewrite Hr. auto. Qed.

Lemma entries_nodup V E : NoDup (entries V E).
Proof. apply NoDup_nodup. Qed.
Lemma exits_nodup V E : NoDup (exits V E).
Proof. apply NoDup_nodup. Qed.

Lemma entries_for_topo V E : wf V E -> forall v, In v (entries V E) <-> In v V /\ has_in v E = false.
Proof. intros Hwf v. rewrite has_in_false_iff. apply entries_spec, Hwf. Qed.

(* ------------------------------------------------------------------ directed cycles *)
Inductive reach (E : list edge) : node -> node -> Prop :=
| reach1 u v : In (u, v) E -> reach E u v
| reachS u w v : In (u, w) E -> reach E w v -> reach E u v.

Lemma reach_trans E u w v : reach E u w -> reach E w v -> reach E u v.
Proof. induction 1; intros; eapply reachS; eauto. Qed.

Lemma idx_app_notin x l1 r : ~ In x l1 -> idx x (l1 ++ r) = length l1 + idx x r.
Proof. induction l1 as [|y l1 IH]; intros Hn; simpl; auto.
  destruct (Nat.eqb_spec x y); [subst; exfalso; apply Hn; simpl; auto|]. rewrite IH; auto. intros Hi. apply Hn; simpl; auto. Qed.

Lemma before_idx l u v : NoDup l -> before l u v -> idx u l < idx v l.
Proof. intros Hnd [l1 [l2 [l3 ->]]]. apply NoDup_app_iff in Hnd as [_ [Hnd2 Hd]].
  assert (Hu : ~ In u l1) by (intros Hi; apply (Hd _ Hi); simpl; auto).
  assert (Hv : ~ In v l1). { intros Hi. apply (Hd _ Hi). simpl. right. apply in_or_app. simpl; auto. }
  assert (Hne : v <> u). { intros ->. inversion Hnd2 as [|? ? Hx _]; subst. apply Hx. apply in_or_app. simpl; auto. }
  rewrite !idx_app_notin by assumption. simpl. rewrite Nat.eqb_refl.
  destruct (Nat.eqb_spec v u); [contradiction|]. lia. Qed.

Lemma sorted_forward_reach l E : NoDup l -> (forall u v, In (u, v) E -> before l u v) ->
  forall u v, reach E u v -> idx u l < idx v l.
Proof. intros Hnd Hf u v Hr. induction Hr as [u v H|u w v H _ IH].
  - apply before_idx; auto.
  - pose proof (before_idx l u w Hnd (Hf _ _ H)). lia. Qed.

Section TopLevel.
Variable V : list node.
Variable E0 : list edge.
Hypothesis HndE : NoDup E0.
Hypothesis HwfE : wf V E0.
Variable ents : list node.
Hypothesis HndEnts : NoDup ents.
Hypothesis Hents : forall v, In v ents <-> In v V /\ has_in v E0 = false.

Theorem topo_cycle_rejected : (exists v, reach E0 v v) -> topo ents V E0 = Cycle.
Proof. intros [v Hc]. destruct (topo ents V E0) as [l| |] eqn:Ht; auto.
  - destruct (topo_sound V E0 HndE HwfE ents HndEnts Hents l Ht) as [Hnd [_ Hf]].
    pose proof (sorted_forward_reach l E0 Hnd Hf v v Hc). lia.
  - exfalso. exact (topo_total V E0 HndE HwfE ents HndEnts Hents Ht). Qed.

Theorem topo_dag_accepted (rank : node -> nat) : (forall u v, In (u, v) E0 -> rank u < rank v) ->
  exists l, topo ents V E0 = Sorted l.
Proof. intros Hr. destruct (topo ents V E0) as [l| |] eqn:Ht; eauto.
  - exfalso. exact (topo_rejects_only_unrankable V E0 HndE HwfE ents HndEnts Hents Ht rank Hr).
  - exfalso. exact (topo_total V E0 HndE HwfE ents HndEnts Hents Ht). Qed.

Theorem topo_sound_perm l : NoDup V -> topo ents V E0 = Sorted l ->
  Permutation l V /\ (forall u v, In (u, v) E0 -> before l u v).
Proof. intros HndV Ht. destruct (topo_sound V E0 HndE HwfE ents HndEnts Hents l Ht) as [Hnd [Hm Hf]].
  split; auto. apply NoDup_Permutation; auto. Qed.
End TopLevel.

(* ------------------------------------------------------------------ concat_multi_inputs *)
Lemma cmi_edges_In isc nm V E p c : In (p, c) (cmi_edges isc nm V E) <->
  exists v, In v V /\ (if wrapped isc E v then (In (p, v) E /\ c = nm v) \/ (p = nm v /\ c = v)
                       else In (p, v) E /\ c = v).
Proof. unfold cmi_edges. rewrite in_flat_map. split.
  - intros [v [Hv Hi]]. exists v. split; auto. destruct (wrapped isc E v).
    + apply in_app_or in Hi as [Hi|[Hi|[]]].
      * apply in_map_iff in Hi as [q [Hq Hi]]. inversion Hq; subst. left. split; auto. now apply parents_In.
      * inversion Hi; subst. right; auto.
    + apply in_map_iff in Hi as [q [Hq Hi]]. inversion Hq; subst. split; auto. now apply parents_In.
  - intros [v [Hv Hi]]. exists v. split; auto. destruct (wrapped isc E v).
    + apply in_or_app. destruct Hi as [[Hi ->]|[-> ->]].
      * left. apply in_map_iff. exists p. split; auto. now apply parents_In.
      * right. simpl; auto.
    + destruct Hi as [Hi ->]. apply in_map_iff. exists p. split; auto. now apply parents_In.
Qed.

Lemma cmi_nodes_In isc nm V E x : In x (cmi_nodes isc nm V E) <->
  In x V \/ exists v, In v V /\ wrapped isc E v = true /\ x = nm v.
Proof. unfold cmi_nodes. rewrite in_flat_map. split.
  - intros [v [Hv Hi]]. destruct (wrapped isc E v) eqn:Hw.
    + destruct Hi as [<-|[<-|[]]]; [right; eauto| left; auto].
    + destruct Hi as [<-|[]]. auto.
  - intros [Hx|[v [Hv [Hw ->]]]].
    + exists x. split; auto. destruct (wrapped isc E x); simpl; auto.
    + exists v. split; auto. rewrite Hw. simpl; auto.
Qed.

Lemma nodup_singleton (l : list node) a : NoDup l -> (forall x, In x l <-> x = a) -> l = [a].
Proof. intros Hnd H. destruct l as [|x l].
  - exfalso. apply (proj2 (H a) eq_refl).
  - assert (x = a) by (apply H; simpl; auto). subst x. destruct l as [|y l]; auto.
    assert (y = a) by (apply H; simpl; auto). subst y. inversion Hnd as [|? ? Hx _]. exfalso. apply Hx. simpl; auto. Qed.

Lemma flat_map_keep (auto : node -> bool) l : (forall p, In p l -> auto p = false) ->
  flat_map (fun p => if auto p then [] else [p]) l = l.
Proof. induction l as [|q l IH]; intros Hall; simpl; auto.
  rewrite (Hall q) by (simpl; auto). simpl. f_equal. apply IH. intros p Hi. apply Hall. simpl; auto. Qed.

Section Cmi.
Variable isc : node -> bool.
Variable nm : node -> node.
Variable V : list node.
Variable E : list edge.
Hypothesis HwfE : wf V E.
Local Notation V' := (fst (cmi isc nm V E)).
Local Notation E' := (snd (cmi isc nm V E)).

Lemma cmi_E'_In p c : In (p, c) E' <->
  exists v, In v V /\ (if wrapped isc E v then (In (p, v) E /\ c = nm v) \/ (p = nm v /\ c = v)
                       else In (p, v) E /\ c = v).
Proof. simpl. rewrite nodup_In. apply cmi_edges_In. Qed.

Lemma cmi_V'_In x : In x V' <-> In x V \/ exists v, In v V /\ wrapped isc E v = true /\ x = nm v.
Proof. simpl. rewrite nodup_In. apply cmi_nodes_In. Qed.

Lemma cmi_nodup_nodes : NoDup V'.
Proof. simpl. apply NoDup_nodup. Qed.
Lemma cmi_nodup_edges : NoDup E'.
Proof. simpl. apply NoDup_nodup. Qed.

Lemma cmi_wf : wf V' E'.
Proof. intros [p c] He. apply cmi_E'_In in He as [v [Hv H]]. simpl. rewrite !cmi_V'_In.
  destruct (wrapped isc E v) eqn:Hw.
  - destruct H as [[Hi ->]|[-> ->]].
    + split; [left; apply (HwfE _ Hi) | right; eauto].
    + split; [right; eauto | left; auto].
  - destruct H as [Hi ->]. split; left; auto. apply (HwfE _ Hi). Qed.

(* every edge of the operand graph survives, possibly subdivided by the inserted Concat *)
Lemma cmi_edge_image p v : In (p, v) E ->
  if wrapped isc E v then In (p, nm v) E' /\ In (nm v, v) E' else In (p, v) E'.
Proof. intros Hi. pose proof (proj2 (HwfE _ Hi)) as Hv. simpl in Hv. destruct (wrapped isc E v) eqn:Hw.
  - split; apply cmi_E'_In; exists v; rewrite Hw; auto.
  - apply cmi_E'_In. exists v. rewrite Hw. auto. Qed.

Lemma cmi_reach u v : reach E u v -> reach E' u v.
Proof. intros Hr. induction Hr as [u v H|u w v H _ IH].
  - pose proof (cmi_edge_image _ _ H) as Hi. destruct (wrapped isc E v).
    + destruct Hi. eapply reachS; eauto. apply reach1; auto.
    + apply reach1; auto.
  - pose proof (cmi_edge_image _ _ H) as Hi. destruct (wrapped isc E w).
    + destruct Hi. eapply reachS; eauto. eapply reachS; eauto.
    + eapply reachS; eauto. Qed.

Hypothesis Hfresh : forall v, In v V -> ~ In (nm v) V.
Hypothesis Hinj : forall u v, In u V -> In v V -> nm u = nm v -> u = v.

Lemma cmi_wrapped_parent v p : In v V -> wrapped isc E v = true -> (In (p, v) E' <-> p = nm v).
Proof. intros Hv Hw. split.
  - intros H. apply cmi_E'_In in H as [v0 [Hv0 H]]. destruct (wrapped isc E v0) eqn:Hw0.
    + destruct H as [[_ Hc]|[Hp Hc]]; [|subst; auto]. exfalso. apply (Hfresh _ Hv0). rewrite <- Hc. exact Hv.
    + destruct H as [_ Hc]. subst v0. congruence.
  - intros ->. apply cmi_E'_In. exists v. rewrite Hw. auto. Qed.

Lemma cmi_concat_parents v p : In v V -> wrapped isc E v = true -> (In (p, nm v) E' <-> In (p, v) E).
Proof. intros Hv Hw. split.
  - intros H. apply cmi_E'_In in H as [v0 [Hv0 H]]. destruct (wrapped isc E v0) eqn:Hw0.
    + destruct H as [[Hi Hc]|[_ Hc]].
      * apply Hinj in Hc; auto. subst; auto.
      * exfalso. apply (Hfresh _ Hv). rewrite Hc. exact Hv0.
    + destruct H as [_ Hc]. exfalso. apply (Hfresh _ Hv). rewrite Hc. exact Hv0.
  - intros Hi. apply cmi_E'_In. exists v. rewrite Hw. auto. Qed.

Lemma cmi_concat_child v c : In v V -> wrapped isc E v = true -> (In (nm v, c) E' <-> c = v).
Proof. intros Hv Hw. split.
  - intros H. apply cmi_E'_In in H as [v0 [Hv0 H]]. destruct (wrapped isc E v0) eqn:Hw0.
    + destruct H as [[Hi _]|[Hp Hc]].
      * exfalso. apply (Hfresh _ Hv). apply (HwfE _ Hi).
      * apply Hinj in Hp; auto. congruence.
    + destruct H as [Hi _]. exfalso. apply (Hfresh _ Hv). apply (HwfE _ Hi).
  - intros ->. apply cmi_E'_In. exists v. rewrite Hw. auto. Qed.

Lemma cmi_unwrapped v p : In v V -> wrapped isc E v = false -> (In (p, v) E' <-> In (p, v) E).
Proof. intros Hv Hw. split.
  - intros H. apply cmi_E'_In in H as [v0 [Hv0 H]]. destruct (wrapped isc E v0) eqn:Hw0.
    + destruct H as [[_ Hc]|[_ Hc]].
      * exfalso. apply (Hfresh _ Hv0). rewrite <- Hc. exact Hv.
      * subst v0. congruence.
    + destruct H as [Hi Hc]. subst; auto.
  - intros Hi. apply cmi_E'_In. exists v. rewrite Hw. auto. Qed.

(* the statement of C03_fanin_once *)
Theorem cmi_fanin_once v : In v V -> isc v = false -> 1 < indeg E v ->
  In (nm v) V' /\ parents E' v = [nm v] /\ children E' (nm v) = [v] /\
  NoDup (parents E' (nm v)) /\ (forall p, In p (parents E' (nm v)) <-> In (p, v) E).
Proof. intros Hv Hc Hd.
  assert (Hw : wrapped isc E v = true).
  { unfold wrapped. rewrite Hc. apply Nat.ltb_lt in Hd. rewrite Hd. reflexivity. }
  split; [apply cmi_V'_In; right; eauto|]. split; [|split; [|split]].
  - apply nodup_singleton; [apply parents_nodup, cmi_nodup_edges|]. intros p. rewrite parents_In. now apply cmi_wrapped_parent.
  - apply nodup_singleton; [apply children_nodup, cmi_nodup_edges|]. intros c. rewrite children_In. now apply cmi_concat_child.
  - apply parents_nodup, cmi_nodup_edges.
  - intros p. rewrite parents_In. now apply cmi_concat_parents. Qed.

(* nodes that are not wrapped keep exactly their incoming edges; nothing else enters a node of V *)
Theorem cmi_other_edges_unchanged v p : In v V -> (isc v = true \/ indeg E v <= 1) -> (In (p, v) E' <-> In (p, v) E).
Proof. intros Hv H. apply cmi_unwrapped; auto. unfold wrapped. destruct H as [->|H].
  - apply andb_false_r.
  - apply Nat.ltb_ge in H. rewrite H. reflexivity. Qed.

(* after insertion no node that is not a Concat has more than one parent *)
Hypothesis Hcat : forall v, In v V -> isc (nm v) = true.
Theorem cmi_indeg_le_1 x : In x V' -> isc x = false -> indeg E' x <= 1.
Proof. intros Hx Hc. apply cmi_V'_In in Hx as [Hx|[v [Hv [_ ->]]]]; [|rewrite Hcat in Hc; [discriminate|auto]].
  destruct (wrapped isc E x) eqn:Hw.
  - unfold indeg. assert (parents E' x = [nm x]) as ->; [|simpl; lia].
    apply nodup_singleton; [apply parents_nodup, cmi_nodup_edges|]. intros p. rewrite parents_In. now apply cmi_wrapped_parent.
  - unfold wrapped in Hw. rewrite Hc in Hw. simpl in Hw. rewrite andb_true_r in Hw. apply Nat.ltb_ge in Hw.
    unfold indeg in *. etransitivity; [|exact Hw]. apply NoDup_incl_length; [apply parents_nodup, cmi_nodup_edges|].
    intros p Hp. apply parents_In. apply parents_In in Hp. apply cmi_unwrapped in Hp; auto.
    unfold wrapped. rewrite Hc. simpl. rewrite andb_true_r. now apply Nat.ltb_ge. Qed.

(* what a wrapped node finally receives through its Concat: its former parents, each exactly once — provided none of
   them is itself an automatically inserted Concat (the hypothesis that excludes the open finding
   fanin:predecessor-delivered-twice, see C03_fanin_twice_refuted) *)
Theorem cmi_feeds_once (auto : node -> bool) v : In v V -> isc v = false -> 1 < indeg E v ->
  auto (nm v) = true -> (forall p, In (p, v) E -> auto p = false) ->
  NoDup (feeds 2 auto E' v) /\ forall p, In p (feeds 2 auto E' v) <-> In (p, v) E.
Proof. intros Hv Hc Hd Ha Hp. destruct (cmi_fanin_once v Hv Hc Hd) as [_ [Hpar [_ [Hnd Hm]]]].
  assert (Heq : feeds 2 auto E' v = parents E' (nm v)).
  { change (feeds 2 auto E' v) with (flat_map (fun p => if auto p then feeds 1 auto E' p else [p]) (parents E' v)).
    rewrite Hpar. unfold flat_map at 1. rewrite Ha, app_nil_r.
    assert (Hall : forall p, In p (parents E' (nm v)) -> auto p = false) by (intros p Hi; apply Hp, Hm, Hi).
    exact (flat_map_keep auto _ Hall). }
  rewrite Heq. split; auto. Qed.
End Cmi.

(* ------------------------------------------------------------------ link / merge: the graph handed to Model(...) *)
Lemma link_graph_nodes ls rs n : In n (fst (link_graph ls rs)) <->
  exists l r, In l ls /\ In r rs /\ (In n (v_nodes l) \/ In n (v_nodes r)).
Proof. simpl. rewrite nodup_In, in_flat_map. split.
  - intros [l [Hl H]]. apply in_flat_map in H as [r [Hr H]]. simpl in H. apply in_app_or in H. eauto 6.
  - intros [l [r [Hl [Hr H]]]]. exists l. split; auto. apply in_flat_map. exists r. split; auto. simpl. apply in_or_app; auto. Qed.

Lemma link_graph_edges ls rs e : In e (snd (link_graph ls rs)) <->
  exists l r, In l ls /\ In r rs /\
    (In e (v_edges l) \/ In e (v_edges r) \/ (In (fst e) (v_outs l) /\ In (snd e) (v_ins r))).
Proof. simpl. rewrite nodup_In, in_flat_map. split.
  - intros [l [Hl H]]. apply in_flat_map in H as [r [Hr H]]. simpl in H. exists l, r. repeat split; auto.
    apply in_app_or in H as [H|H]; auto. apply in_app_or in H as [H|H]; auto. right; right. destruct e. apply in_prod_iff in H. auto.
  - intros [l [r [Hl [Hr H]]]]. exists l. split; auto. apply in_flat_map. exists r. split; auto. simpl.
    apply in_or_app. destruct H as [H|[H|H]]; auto; right; apply in_or_app; auto. right. destruct e. apply in_prod_iff. auto. Qed.

Lemma link_graph_nodup ls rs : NoDup (fst (link_graph ls rs)) /\ NoDup (snd (link_graph ls rs)).
Proof. split; apply NoDup_nodup. Qed.

Lemma merge_graph_spec a b : (forall n, In n (fst (merge_graph a b)) <-> In n (v_nodes a) \/ In n (v_nodes b)) /\
  (forall e, In e (snd (merge_graph a b)) <-> In e (v_edges a) \/ In e (v_edges b)) /\
  NoDup (fst (merge_graph a b)) /\ NoDup (snd (merge_graph a b)).
Proof. simpl. repeat split; try apply NoDup_nodup; rewrite nodup_In, in_app_iff; tauto. Qed.

(* ------------------------------------------------------------------ Model.__init__ : cmi, entries/exits, Kahn *)
Section MkModel.
Variable isc : node -> bool.
Variable nm : node -> node.
Variable V : list node.
Variable E : list edge.
Hypothesis HwfE : wf V E.

Lemma wrapped_has_parent v : wrapped isc E v = true -> exists q, In (q, v) E.
Proof. unfold wrapped, indeg. intros H. apply andb_true_iff in H as [H _]. apply Nat.ltb_lt in H.
  destruct (parents E v) as [|q l] eqn:Hp; [simpl in H; lia|]. exists q. apply parents_In. rewrite Hp. simpl; auto. Qed.

(* a directed cycle among the operand edges is always rejected, whatever names the inserted Concats get *)
Theorem mk_model_cycle_rejected : (exists v, reach E v v) -> mk_model isc nm V E = ErrCycle.
Proof. intros [v Hc]. pose proof (cmi_reach isc nm V E HwfE v v Hc) as Hr.
  pose proof (cmi_wf isc nm V E HwfE) as Hwf'. pose proof (cmi_nodup_edges isc nm V E) as HndE'.
  unfold mk_model. destruct (cmi isc nm V E) as [V' E'] eqn:Hcmi. simpl in Hr, Hwf', HndE'.
  assert (Hv : In v V'). { inversion Hr as [? ? H|? ? ? H _]; subst; apply (Hwf' _ H). }
  destruct V' as [|x W]; [destruct Hv|]. set (W' := x :: W) in *.
  rewrite (topo_cycle_rejected W' E' HndE' Hwf' (entries W' E') (entries_nodup _ _) (entries_for_topo _ _ Hwf')); eauto. Qed.

Theorem mk_model_no_fuel_error : mk_model isc nm V E <> ErrFuel.
Proof. pose proof (cmi_wf isc nm V E HwfE) as Hwf'. pose proof (cmi_nodup_edges isc nm V E) as HndE'.
  unfold mk_model. destruct (cmi isc nm V E) as [V' E'] eqn:Hcmi. simpl in Hwf', HndE'.
  destruct V' as [|x W]; [discriminate|]. set (W' := x :: W) in *.
  destruct (topo (entries W' E') W' E') eqn:Ht; try discriminate. exfalso.
  exact (topo_total W' E' HndE' Hwf' (entries W' E') (entries_nodup _ _) (entries_for_topo _ _ Hwf') Ht). Qed.

(* what a successfully built Model contains *)
Theorem mk_model_sound m : mk_model isc nm V E = Ok m ->
  mEdges m = snd (cmi isc nm V E) /\
  NoDup (mNodes m) /\ (forall x, In x (mNodes m) <-> In x (fst (cmi isc nm V E))) /\
  (forall u v, In (u, v) (mEdges m) -> before (mNodes m) u v) /\
  (NoDup (mIn m) /\ forall v, In v (mIn m) <-> In v (mNodes m) /\ ~ exists u, In (u, v) (mEdges m)) /\
  (NoDup (mOut m) /\ forall v, In v (mOut m) <-> In v (mNodes m) /\ ~ exists w, In (v, w) (mEdges m)).
Proof. pose proof (cmi_wf isc nm V E HwfE) as Hwf'. pose proof (cmi_nodup_edges isc nm V E) as HndE'.
  unfold mk_model. destruct (cmi isc nm V E) as [V' E'] eqn:Hcmi. simpl in *.
  destruct V' as [|x W].
  - intros H. inversion H; subst; clear H. simpl. assert (HE : forall e, ~ In e E') by (intros e He; apply (Hwf' _ He)).
    repeat split; try constructor; try tauto; try (intros u v Hi; destruct (HE _ Hi)); intros [[] _].
  - set (W' := x :: W) in *. destruct (topo (entries W' E') W' E') as [l| |] eqn:Ht; try discriminate.
    intros H. inversion H; subst; clear H. simpl.
    destruct (topo_sound W' E' HndE' Hwf' (entries W' E') (entries_nodup _ _) (entries_for_topo _ _ Hwf') l Ht) as [Hnd [Hm Hf]].
    repeat split; auto; try apply NoDup_nodup; try apply Hm.
    + apply entries_spec in H; tauto.
    + apply entries_spec in H; tauto.
    + intros [Hi Hn]. apply entries_spec; auto. split; auto. now apply Hm.
    + apply exits_spec in H; tauto.
    + apply exits_spec in H; tauto.
    + intros [Hi Hn]. apply exits_spec; auto. split; auto. now apply Hm. Qed.

Hypothesis Hfresh : forall v, In v V -> ~ In (nm v) V.
Hypothesis Hinj : forall u v, In u V -> In v V -> nm u = nm v -> u = v.

(* every rankable (= acyclic) operand graph is accepted *)
Theorem mk_model_dag_accepted (rank : node -> nat) : (forall u v, In (u, v) E -> rank u < rank v) ->
  exists m, mk_model isc nm V E = Ok m.
Proof. intros Hrank.
  pose proof (cmi_wf isc nm V E HwfE) as Hwf'. pose proof (cmi_nodup_edges isc nm V E) as HndE'.
  pose proof (cmi_E'_In isc nm V E) as HE'.
  unfold mk_model. destruct (cmi isc nm V E) as [V' E'] eqn:Hcmi. simpl in Hwf', HndE', HE'.
  destruct V' as [|x W]; [eauto|]. set (W' := x :: W) in *.
  set (rank' := fun y => match find (fun v => wrapped isc E v && Nat.eqb (nm v) y) V with
                         | Some v => 2 * rank v - 1 | None => 2 * rank y end).
  assert (Hfr : forall v, In v V -> wrapped isc E v = true -> rank' (nm v) = 2 * rank v - 1).
  { intros v Hv Hw. unfold rank'. destruct (find _ V) as [v0|] eqn:Hf.
    - apply find_some in Hf as [Hv0 Hp]. apply andb_true_iff in Hp as [_ Hp]. apply Nat.eqb_eq in Hp.
      apply Hinj in Hp; [subst; reflexivity|assumption|assumption].
    - exfalso. pose proof (find_none _ _ Hf v Hv) as Hn. simpl in Hn. rewrite Hw, Nat.eqb_refl in Hn. discriminate. }
  assert (Hold : forall p, In p V -> rank' p = 2 * rank p).
  { intros p Hp. unfold rank'. destruct (find _ V) as [v0|] eqn:Hf; auto.
    apply find_some in Hf as [Hv0 Hq]. apply andb_true_iff in Hq as [_ Hq]. apply Nat.eqb_eq in Hq.
    exfalso. apply (Hfresh _ Hv0). rewrite Hq. exact Hp. }
  destruct (topo_dag_accepted W' E' HndE' Hwf' (entries W' E') (entries_nodup _ _) (entries_for_topo _ _ Hwf') rank') as [l Hl].
  - intros p c He. apply HE' in He as [v [Hv H]]. destruct (wrapped isc E v) eqn:Hw.
    + destruct (wrapped_has_parent v Hw) as [q Hq]. pose proof (Hrank _ _ Hq).
      destruct H as [[Hi ->]|[-> ->]].
      * rewrite Hfr, Hold; auto; [|apply (HwfE _ Hi)]. pose proof (Hrank _ _ Hi). lia.
      * rewrite Hfr, Hold; auto. lia.
    + destruct H as [Hi ->]. rewrite !Hold; auto; [|apply (HwfE _ Hi)]. pose proof (Hrank _ _ Hi). lia.
  - rewrite Hl. eauto. Qed.
End MkModel.

(* ------------------------------------------------------------------ algebraic laws (graphs as sets of nodes / edges) *)
Lemma indeg_ext E1 E2 v : NoDup E1 -> NoDup E2 -> (forall e, In e E1 <-> In e E2) -> indeg E1 v = indeg E2 v.
Proof. intros H1 H2 HE. unfold indeg. apply Permutation_length. apply NoDup_Permutation; try now apply parents_nodup.
  intros p. rewrite !parents_In. apply HE. Qed.

Lemma wrapped_ext isc E1 E2 v : NoDup E1 -> NoDup E2 -> (forall e, In e E1 <-> In e E2) -> wrapped isc E1 v = wrapped isc E2 v.
Proof. intros H1 H2 HE. unfold wrapped. rewrite (indeg_ext E1 E2 v H1 H2 HE). reflexivity. Qed.

(* concat_multi_inputs depends only on the SETS of nodes and edges it is given (same naming of the new Concats) *)
Lemma cmi_ext isc nm V1 V2 E1 E2 :
  (forall x, In x V1 <-> In x V2) -> NoDup E1 -> NoDup E2 -> (forall e, In e E1 <-> In e E2) ->
  (forall x, In x (fst (cmi isc nm V1 E1)) <-> In x (fst (cmi isc nm V2 E2))) /\
  (forall e, In e (snd (cmi isc nm V1 E1)) <-> In e (snd (cmi isc nm V2 E2))).
Proof. intros HV H1 H2 HE. split.
  - intros x. rewrite !cmi_V'_In. split.
    + intros [H|[v [Hv [Hw ->]]]]; [left; apply HV; auto|]. right. exists v. rewrite <- (wrapped_ext isc E1 E2 v) by assumption.
      split; [apply HV; auto|auto].
    + intros [H|[v [Hv [Hw ->]]]]; [left; apply HV; auto|]. right. exists v. rewrite (wrapped_ext isc E1 E2 v) by assumption.
      split; [apply HV; auto|auto].
  - intros [p c]. rewrite !cmi_E'_In. split; intros [v [Hv H]]; exists v; (split; [apply HV; exact Hv|]).
    + rewrite <- (wrapped_ext isc E1 E2 v) by assumption. destruct (wrapped isc E1 v); rewrite <- (HE (p, v)); exact H.
    + rewrite (wrapped_ext isc E1 E2 v) by assumption. destruct (wrapped isc E2 v); rewrite (HE (p, v)); exact H.
Qed.

(* renaming the inserted Concats: the graph built with names nm2 is the image of the graph built with names nm1
   under any [rho] that fixes the operand nodes and sends nm1 v to nm2 v *)
Lemma cmi_rename isc nm1 nm2 (rho : node -> node) V E : wf V E ->
  (forall p, In p V -> rho p = p) -> (forall v, In v V -> rho (nm1 v) = nm2 v) ->
  (forall x, In x (fst (cmi isc nm2 V E)) <-> exists y, In y (fst (cmi isc nm1 V E)) /\ x = rho y) /\
  (forall p c, In (p, c) (snd (cmi isc nm2 V E)) <->
               exists p0 c0, In (p0, c0) (snd (cmi isc nm1 V E)) /\ p = rho p0 /\ c = rho c0).
Proof. intros Hwf Hfix Hmap. split.
  - intros x. rewrite cmi_V'_In. split.
    + intros [H|[v [Hv [Hw ->]]]].
      * exists x. rewrite cmi_V'_In. split; auto. symmetry; auto.
      * exists (nm1 v). rewrite cmi_V'_In. split; [right; eauto|]. symmetry; auto.
    + intros [y [Hy ->]]. apply cmi_V'_In in Hy as [H|[v [Hv [Hw ->]]]].
      * left. rewrite Hfix; auto.
      * right. exists v. rewrite Hmap; auto.
  - intros p c. rewrite cmi_E'_In. split.
    + intros [v [Hv H]]. destruct (wrapped isc E v) eqn:Hw.
      * destruct H as [[Hi ->]|[-> ->]].
        -- exists p, (nm1 v). rewrite cmi_E'_In. split; [exists v; rewrite Hw; auto|].
           split; [symmetry; apply Hfix, (Hwf _ Hi) | symmetry; auto].
        -- exists (nm1 v), v. rewrite cmi_E'_In. split; [exists v; rewrite Hw; auto|].
           split; symmetry; auto.
      * destruct H as [Hi ->]. exists p, v. rewrite cmi_E'_In. split; [exists v; rewrite Hw; auto|].
        split; symmetry; [apply Hfix, (Hwf _ Hi) | auto].
    + intros [p0 [c0 [H [-> ->]]]]. apply cmi_E'_In in H as [v [Hv H]]. exists v. split; auto.
      destruct (wrapped isc E v) eqn:Hw.
      * destruct H as [[Hi ->]|[-> ->]].
        -- left. rewrite (Hfix p0) by apply (Hwf _ Hi). auto.
        -- right. auto.
      * destruct H as [Hi ->]. rewrite (Hfix p0) by apply (Hwf _ Hi). auto.
Qed.

Lemma rename_exists nm1 nm2 V : (forall v, In v V -> ~ In (nm1 v) V) ->
  (forall u v, In u V -> In v V -> nm1 u = nm1 v -> u = v) ->
  exists rho : node -> node, (forall p, In p V -> rho p = p) /\ (forall v, In v V -> rho (nm1 v) = nm2 v).
Proof. intros Hfresh Hinj.
  exists (fun y => match find (fun v => Nat.eqb (nm1 v) y) V with Some v => nm2 v | None => y end). split.
  - intros p Hp. destruct (find _ V) as [v0|] eqn:Hf; auto. apply find_some in Hf as [Hv0 Hq]. apply Nat.eqb_eq in Hq.
    exfalso. apply (Hfresh _ Hv0). rewrite Hq. exact Hp.
  - intros v Hv. destruct (find _ V) as [v0|] eqn:Hf.
    + apply find_some in Hf as [Hv0 Hq]. apply Nat.eqb_eq in Hq. apply Hinj in Hq; [subst; reflexivity|assumption|assumption].
    + exfalso. pose proof (find_none _ _ Hf v Hv) as Hn. simpl in Hn. rewrite Nat.eqb_refl in Hn. discriminate.
Qed.

(* a & b  and  b & a : same graph up to the names of the inserted Concats *)
Theorem merge_comm isc nm1 nm2 (a b : value) :
  let G1 := merge_graph a b in let G2 := merge_graph b a in
  wf (fst G1) (snd G1) ->
  (forall v, In v (fst G1) -> ~ In (nm1 v) (fst G1)) ->
  (forall u v, In u (fst G1) -> In v (fst G1) -> nm1 u = nm1 v -> u = v) ->
  exists rho : node -> node,
    (forall p, In p (fst G1) -> rho p = p) /\
    (forall x, In x (fst (cmi isc nm2 (fst G2) (snd G2))) <-> exists y, In y (fst (cmi isc nm1 (fst G1) (snd G1))) /\ x = rho y) /\
    (forall p c, In (p, c) (snd (cmi isc nm2 (fst G2) (snd G2))) <->
                 exists p0 c0, In (p0, c0) (snd (cmi isc nm1 (fst G1) (snd G1))) /\ p = rho p0 /\ c = rho c0).
Proof. intros G1 G2 Hwf Hfresh Hinj.
  destruct (rename_exists nm1 nm2 (fst G1) Hfresh Hinj) as [rho [Hfix Hmap]]. exists rho. split; auto.
  destruct (merge_graph_spec a b) as [HV1 [HE1 [_ Hnd1]]]. destruct (merge_graph_spec b a) as [HV2 [HE2 [_ Hnd2]]].
  destruct (cmi_ext isc nm2 (fst G2) (fst G1) (snd G2) (snd G1)) as [HxV HxE]; auto.
  { intros x. unfold G1, G2. rewrite HV1, HV2. tauto. }
  { intros e. unfold G1, G2. rewrite HE1, HE2. tauto. }
  destruct (cmi_rename isc nm1 nm2 rho (fst G1) (snd G1) Hwf Hfix Hmap) as [HrV HrE].
  split; [intros x; rewrite HxV; apply HrV | intros p c; rewrite HxE; apply HrE]. Qed.

(* m & m = m : a model whose non-Concat nodes all have at most one parent (every model built by mk_model, see
   cmi_indeg_le_1) is reproduced exactly — no new Concat at all *)
Theorem merge_idem isc nm (m : model) :
  let V := mNodes m in let E := mEdges m in
  NoDup E -> wf V E -> (forall x, In x V -> isc x = false -> indeg E x <= 1) ->
  let G := merge_graph (VModel m) (VModel m) in
  (forall x, In x (fst (cmi isc nm (fst G) (snd G))) <-> In x V) /\
  (forall e, In e (snd (cmi isc nm (fst G) (snd G))) <-> In e E).
Proof. intros V E HndE Hwf Hdeg G.
  destruct (merge_graph_spec (VModel m) (VModel m)) as [HV1 [HE1 [_ Hnd1]]].
  destruct (cmi_ext isc nm (fst G) V (snd G) E) as [HxV HxE]; auto.
  { intros x. unfold G. rewrite HV1. simpl. tauto. }
  { intros e. unfold G. rewrite HE1. simpl. tauto. }
  assert (Hnw : forall v, In v V -> wrapped isc E v = false).
  { intros v Hv. unfold wrapped. destruct (isc v) eqn:Hc; [apply andb_false_r|].
    pose proof (Hdeg v Hv Hc) as Hd. apply Nat.ltb_ge in Hd. rewrite Hd. reflexivity. }
  split.
  - intros x. rewrite HxV, cmi_V'_In. split; [|auto]. intros [H|[v [Hv [Hw _]]]]; auto. rewrite Hnw in Hw; [discriminate|auto].
  - intros [p c]. rewrite HxE, cmi_E'_In. split.
    + intros [v [Hv H]]. rewrite Hnw in H by auto. destruct H as [Hi ->]. auto.
    + intros Hi. exists c. pose proof (proj2 (Hwf _ Hi)) as Hc. simpl in Hc. rewrite Hnw by auto. auto.
Qed.

(* acceptance depends only on the operand graph as a set: an accepted graph is rankable, a rankable one is accepted *)
Lemma mk_model_ok_rank isc nm V E m : wf V E -> mk_model isc nm V E = Ok m ->
  exists rank : node -> nat, forall u v, In (u, v) E -> rank u < rank v.
Proof. intros Hwf Hm. destruct (mk_model_sound isc nm V E Hwf m Hm) as [HE [Hnd [_ [Hf _]]]].
  exists (fun x => idx x (mNodes m)). intros u v Hi. pose proof (cmi_edge_image isc nm V E Hwf u v Hi) as H.
  rewrite <- HE in H. destruct (wrapped isc E v).
  - destruct H as [H1 H2]. pose proof (before_idx _ _ _ Hnd (Hf _ _ H1)). pose proof (before_idx _ _ _ Hnd (Hf _ _ H2)). lia.
  - apply before_idx; auto. Qed.

Theorem merge_comm_status isc nm1 nm2 (a b : value) :
  let G1 := merge_graph a b in let G2 := merge_graph b a in
  wf (fst G1) (snd G1) ->
  (forall v, In v (fst G2) -> ~ In (nm2 v) (fst G2)) ->
  (forall u v, In u (fst G2) -> In v (fst G2) -> nm2 u = nm2 v -> u = v) ->
  (exists m, merge isc nm1 a b = Ok m) -> exists m', merge isc nm2 b a = Ok m'.
Proof. cbv zeta. intros Hwf Hfresh Hinj [m Hm].
  destruct (merge_graph_spec a b) as [HV1 [HE1 _]]. destruct (merge_graph_spec b a) as [HV2 [HE2 _]].
  unfold merge in *. destruct (merge_graph a b) as [V1 E1]. destruct (merge_graph b a) as [V2 E2]. simpl in *.
  destruct (mk_model_ok_rank isc nm1 V1 E1 m Hwf Hm) as [rank Hr].
  assert (HEE : forall e, In e E2 -> In e E1) by (intros e; rewrite HE1, HE2; tauto).
  assert (HVV : forall x, In x V1 -> In x V2) by (intros x; rewrite HV1, HV2; tauto).
  apply (mk_model_dag_accepted isc nm2 V2 E2) with (rank := rank); [|assumption|assumption|].
  - intros e He. destruct (Hwf e (HEE e He)). auto.
  - intros u v Hi. apply Hr, HEE, Hi. Qed.

(* the boolean used by the correspondence runner on the OBSERVED order really says "topological order" *)
Lemma nodupb_NoDup l : nodupb l = true -> NoDup l.
Proof. induction l as [|x l IH]; simpl; intros H; constructor.
  - apply andb_true_iff in H as [H _]. apply negb_true_iff in H. now apply mem_false.
  - apply IH. apply andb_true_iff in H. tauto. Qed.

Lemma is_topo_sound l E : is_topo l E = true ->
  NoDup l /\ forall u v, In (u, v) E -> In u l /\ In v l /\ idx u l < idx v l.
Proof. unfold is_topo. intros H. apply andb_true_iff in H as [H1 H2]. split; [now apply nodupb_NoDup|].
  intros u v Hi. rewrite forallb_forall in H2. specialize (H2 _ Hi). simpl in H2.
  apply andb_true_iff in H2 as [H2 H3]. apply andb_true_iff in H2 as [H2 H4].
  apply mem_In in H2. apply mem_In in H4. apply Nat.ltb_lt in H3. auto. Qed.

(* ------------------------------------------------------------------ merge with (flattened) list operands; `&=` *)
Lemma merge_graph_l_spec a bs :
  (forall n, In n (fst (merge_graph_l a bs)) <-> In n (v_nodes a) \/ exists b, In b bs /\ In n (v_nodes b)) /\
  (forall e, In e (snd (merge_graph_l a bs)) <-> In e (v_edges a) \/ exists b, In b bs /\ In e (v_edges b)) /\
  NoDup (fst (merge_graph_l a bs)) /\ NoDup (snd (merge_graph_l a bs)).
Proof. simpl. split; [|split; [|split; apply NoDup_nodup]].
  - intros n. rewrite nodup_In, in_app_iff, in_flat_map. tauto.
  - intros e. rewrite nodup_In, in_app_iff, in_flat_map. tauto. Qed.

Lemma update_graph_rejected isc nm m bs : fst (update_graph isc nm m bs) = ErrCycle -> snd (update_graph isc nm m bs) = m.
Proof. unfold update_graph. destruct (merge_l isc nm (VModel m) bs); simpl; intros H; try reflexivity; discriminate. Qed.

Lemma update_graph_accepted isc nm m bs m' :
  (merge_l isc nm (VModel m) bs = Ok m' <-> fst (update_graph isc nm m bs) = Ok m') /\
  (merge_l isc nm (VModel m) bs = Ok m' -> update_graph isc nm m bs = (Ok m', m')).
Proof. unfold update_graph. destruct (merge_l isc nm (VModel m) bs); simpl; split; try split; intros H; try discriminate; try congruence. Qed.

Lemma update_graph_cycle isc nm m bs :
  wf (fst (merge_graph_l (VModel m) bs)) (snd (merge_graph_l (VModel m) bs)) ->
  (exists v, reach (snd (merge_graph_l (VModel m) bs)) v v) -> update_graph isc nm m bs = (ErrCycle, m).
Proof. intros Hwf Hc. unfold update_graph, merge_l. destruct (merge_graph_l (VModel m) bs) as [V E].
  rewrite (mk_model_cycle_rejected isc nm V E Hwf Hc). reflexivity. Qed.
