(* Proofs about model/Mapping.v: the data plumbing around Model.run (reservoirpy/utils/model_utils.py). *)
From Coq Require Import List Arith Bool Lia.
From RV Require Import base.Num base.LA model.ModelSem model.Mapping proofs.ModelSem_proofs.
Import ListNotations.

(* ------------------------------------------------------------------------------------------------ small list facts *)
Lemma map_nth_seq {A} (l : list A) d : map (fun j => nth j l d) (seq 0 (length l)) = l.
Proof.
  induction l as [|a l IH]; [reflexivity|].
  cbn [length seq map nth]. f_equal. rewrite <- seq_shift, map_map. exact IH.
Qed.

Lemma memb_true k l : memb k l = true <-> In k l.
Proof.
  unfold memb. rewrite existsb_exists. split.
  - intros [x [Hx E]]. apply Nat.eqb_eq in E. subst. exact Hx.
  - intros Hin. exists k. split; [exact Hin|apply Nat.eqb_refl].
Qed.
Lemma memb_false k l : memb k l = false <-> ~ In k l.
Proof.
  rewrite <- memb_true. destruct (memb k l); split.
  - discriminate.
  - intros Hn. exfalso. apply Hn. reflexivity.
  - intros _ Hn. discriminate.
  - reflexivity.
Qed.

Lemma keys_app {A} (a b : dict A) : keys (a ++ b) = keys a ++ keys b.
Proof. unfold keys. apply map_app. Qed.
Lemma keys_combine {A} (ks : list nat) (vs : list A) : length vs = length ks -> keys (combine ks vs) = ks.
Proof.
  revert vs. induction ks as [|k ks IH]; intros [|v vs] Hl; cbn in *; try discriminate; try reflexivity.
  f_equal. apply IH. lia.
Qed.
Lemma combine_keys_vals {A} (m : dict A) : combine (keys m) (map snd m) = m.
Proof. induction m as [|[k v] m IH]; cbn; [reflexivity|]. f_equal. exact IH. Qed.

Lemma lookup_in_keys {A} k (m : dict A) : In k (keys m) -> exists v, lookup k m = Some v.
Proof.
  unfold lookup. induction m as [|[k0 v0] m IH]; cbn; [tauto|].
  intros [E|Hin].
  - subst. rewrite Nat.eqb_refl. eauto.
  - destruct (Nat.eqb k0 k); eauto.
Qed.
Lemma lookup_not_in {A} k (m : dict A) : ~ In k (keys m) -> lookup k m = None.
Proof.
  unfold lookup. induction m as [|[k0 v0] m IH]; cbn; [reflexivity|].
  intros Hn. destruct (Nat.eqb k0 k) eqn:E.
  - apply Nat.eqb_eq in E. subst. tauto.
  - apply IH. tauto.
Qed.
Lemma lookup_combine_nth {A} (ks : list nat) (vs : list A) i d :
  NoDup ks -> length vs = length ks -> i < length ks -> lookup (nth i ks 0) (combine ks vs) = Some (nth i vs d).
Proof.
  revert vs i. induction ks as [|k ks IH]; intros [|v vs] i Hnd Hl Hi; cbn in *; try lia.
  unfold lookup. cbn. destruct i as [|i].
  - rewrite Nat.eqb_refl. reflexivity.
  - inversion Hnd; subst. destruct (Nat.eqb k (nth i ks 0)) eqn:E.
    + apply Nat.eqb_eq in E. exfalso. apply H1. rewrite E. apply nth_In. lia.
    + apply (IH vs i); [assumption|lia|lia].
Qed.

(* dedup: the keys of `{k: ... for k in l}` *)
Lemma dedup_in l k : In k (dedup l) <-> In k l.
Proof.
  induction l as [|a l IH]; cbn; [tauto|].
  rewrite filter_In, IH. destruct (Nat.eq_dec k a) as [E|E].
  - subst. tauto.
  - assert (negb (Nat.eqb k a) = true) by (apply negb_true_iff, Nat.eqb_neq; exact E).
    split; [intros [?|[? ?]]; auto|intros [?|?]; [left; congruence|right; split; assumption]].
Qed.
Lemma NoDup_filter {A} (f : A -> bool) l : NoDup l -> NoDup (filter f l).
Proof.
  induction 1 as [|a l Hn Hnd IH]; cbn; [constructor|].
  destruct (f a); [constructor; [rewrite filter_In; tauto|exact IH]|exact IH].
Qed.
Lemma dedup_NoDup l : NoDup (dedup l).
Proof.
  induction l as [|a l IH]; cbn; constructor.
  - rewrite filter_In. intros [_ E]. rewrite Nat.eqb_refl in E. discriminate.
  - apply NoDup_filter. exact IH.
Qed.
Lemma filter_all_id {A} (f : A -> bool) l : (forall x, In x l -> f x = true) -> filter f l = l.
Proof.
  induction l as [|a l IH]; cbn; intros Hf; [reflexivity|].
  rewrite (Hf a) by (left; reflexivity). f_equal. apply IH. intros; apply Hf; right; assumption.
Qed.
Lemma dedup_id l : NoDup l -> dedup l = l.
Proof.
  induction 1 as [|a l Hn Hnd IH]; cbn; [reflexivity|]. f_equal. rewrite IH.
  apply filter_all_id. intros x Hx. apply negb_true_iff, Nat.eqb_neq. intros E. subst. tauto.
Qed.

(* ------------------------------------------------------------------------------------------------ unfold_mapping *)
Section Unfold.
Context {row : Type}.
Notation sq := (list row).

(* every key has the same number k of sequences *)
Definition rectangular (k : nat) (dm : dict (list sq)) : Prop := forall p, In p dm -> length (snd p) = k.
(* the mapping of sequence index j *)
Definition slice (dm : dict (list sq)) (j : nat) : dict sq := map (fun p => (fst p, nth j (snd p) [])) dm.

Lemma unfold_rect k (dm : dict (list sq)) :
  dm <> [] -> rectangular k dm -> unfold_mapping dm = Some (map (slice dm) (seq 0 k)).
Proof.
  intros Hne Hr. destruct dm as [|[k0 l0] dm]; [congruence|].
  unfold unfold_mapping.
  assert (Hl0 : length l0 = k) by (apply (Hr (k0, l0)); left; reflexivity).
  replace (forallb _ _) with true; [rewrite Hl0; reflexivity|].
  symmetry. apply forallb_forall. intros p Hp. apply Nat.eqb_eq. rewrite (Hr p Hp). cbn. symmetry. exact Hl0.
Qed.

(* it answers only for rectangular mappings (ValueError / IndexError otherwise) *)
Lemma unfold_some (dm : dict (list sq)) ms :
  unfold_mapping dm = Some ms -> dm <> [] /\ exists k, rectangular k dm /\ ms = map (slice dm) (seq 0 k).
Proof.
  destruct dm as [|[k0 l0] dm]; [discriminate|]. unfold unfold_mapping.
  destruct (forallb _ _) eqn:E; [|discriminate]. intros Hs. inversion Hs; subst. split; [discriminate|].
  exists (length l0). split; [|reflexivity].
  intros p Hp. rewrite forallb_forall in E. apply Nat.eqb_eq. exact (E p Hp).
Qed.

Lemma slice_keys (dm : dict (list sq)) j : keys (slice dm j) = keys dm.
Proof. unfold slice, keys. rewrite map_map. reflexivity. Qed.
Lemma slice_lookup (dm : dict (list sq)) j n :
  lookup n (slice dm j) = match lookup n dm with Some l => Some (nth j l []) | None => None end.
Proof.
  unfold lookup, slice. induction dm as [|[k0 l0] dm IH]; cbn; [reflexivity|].
  destruct (Nat.eqb k0 n); [reflexivity|exact IH].
Qed.

(* unfold_mapping on a rectangular mapping: k mappings, the j-th maps each name (same keys, same order) to its
   j-th sequence *)
Theorem unfold_spec k (dm : dict (list sq)) :
  dm <> [] -> rectangular k dm ->
  exists ms, unfold_mapping dm = Some ms /\ length ms = k /\
             forall j, j < k -> nth j ms [] = slice dm j /\ keys (nth j ms []) = keys dm.
Proof.
  intros Hne Hr. exists (map (slice dm) (seq 0 k)). split; [apply unfold_rect; assumption|].
  split; [rewrite map_length, seq_length; reflexivity|].
  intros j Hj. assert (E : nth j (map (slice dm) (seq 0 k)) [] = slice dm j).
  { rewrite (nth_indep _ [] (slice dm 0)) by (rewrite map_length, seq_length; exact Hj).
    rewrite map_nth, seq_nth by exact Hj. reflexivity. }
  rewrite E. split; [reflexivity|apply slice_keys].
Qed.
End Unfold.

(* ------------------------------------------------------------------------------------------------ fold_many *)
Section FoldMany.
Context {A : Type}.

Definition add_all (s : dict A) (acc : dict (list A)) : dict (list A) :=
  fold_left (fun acc2 p => dd_add acc2 (fst p) (snd p)) s acc.
Lemma fold_many_eq (states : list (dict A)) : fold_many states = fold_left (fun acc s => add_all s acc) states [].
Proof. reflexivity. Qed.

(* the first state dict creates the keys, in its own order *)
Lemma add_all_fresh : forall (ks : list nat) (vs : list A) (pre : dict (list A)),
  NoDup ks -> length vs = length ks -> (forall k, In k ks -> ~ In k (keys pre)) ->
  add_all (combine ks vs) pre = pre ++ combine ks (map (fun v => [v]) vs).
Proof.
  unfold add_all. induction ks as [|k ks IH]; intros [|v vs] pre Hnd Hl Hdis; cbn in *; try discriminate;
    try (rewrite app_nil_r; reflexivity).
  inversion Hnd; subst.
  unfold dd_add at 2. cbn [fst snd].
  replace (memb k (keys pre)) with false by (symmetry; apply memb_false; apply Hdis; left; reflexivity).
  rewrite IH; [rewrite <- app_assoc; reflexivity|assumption|lia|].
  intros k' Hk'. rewrite keys_app. cbn. rewrite in_app_iff. intros [Hp|[E|[]]].
  - apply (Hdis k'); [right; exact Hk'|exact Hp].
  - subst. tauto.
Qed.

Fixpoint zipapp (ls : list (list A)) (vs : list A) : list (list A) :=
  match ls, vs with
  | l :: ls', v :: vs' => (l ++ [v]) :: zipapp ls' vs'
  | _, _ => []
  end.
Lemma zipapp_length ls vs : length vs = length ls -> length (zipapp ls vs) = length ls.
Proof. revert vs. induction ls as [|l ls IH]; intros [|v vs] Hl; cbn in *; try discriminate; try reflexivity. f_equal. apply IH. lia. Qed.
Lemma zipapp_nth ls vs i d :
  length vs = length ls -> i < length ls -> nth i (zipapp ls vs) [] = nth i ls [] ++ [nth i vs d].
Proof.
  revert vs i. induction ls as [|l ls IH]; intros [|v vs] i Hl Hi; cbn in *; try lia.
  destruct i; [reflexivity|]. apply IH; lia.
Qed.

Lemma map_upd_absent (k : nat) (v : A) (m : dict (list A)) :
  ~ In k (keys m) -> map (fun p => if Nat.eqb (fst p) k then (fst p, snd p ++ [v]) else p) m = m.
Proof.
  induction m as [|[k0 l0] m IH]; cbn; [reflexivity|]. intros Hn.
  destruct (Nat.eqb k0 k) eqn:E; [apply Nat.eqb_eq in E; subst; tauto|]. f_equal. apply IH. tauto.
Qed.

(* a later state dict with the same keys appends one entry to every list, keys and order unchanged *)
Lemma add_all_present : forall (ks : list nat) (vs : list A) (ls : list (list A)) (pre : dict (list A)),
  NoDup ks -> length vs = length ks -> length ls = length ks -> (forall k, In k ks -> ~ In k (keys pre)) ->
  add_all (combine ks vs) (pre ++ combine ks ls) = pre ++ combine ks (zipapp ls vs).
Proof.
  unfold add_all. induction ks as [|k ks IH]; intros [|v vs] [|l ls] pre Hnd Hv Hl Hdis; cbn in *; try discriminate;
    try reflexivity.
  inversion Hnd; subst.
  unfold dd_add at 2. cbn [fst snd].
  replace (memb k (keys (pre ++ (k, l) :: combine ks ls))) with true
    by (symmetry; apply memb_true; rewrite keys_app, in_app_iff; right; left; reflexivity).
  rewrite map_app. cbn [map fst snd]. rewrite Nat.eqb_refl.
  rewrite (map_upd_absent k v pre) by (apply Hdis; left; reflexivity).
  rewrite (map_upd_absent k v (combine ks ls)) by (rewrite keys_combine by lia; assumption).
  replace (pre ++ (k, l ++ [v]) :: combine ks ls) with ((pre ++ [(k, l ++ [v])]) ++ combine ks ls)
    by (rewrite <- app_assoc; reflexivity).
  rewrite IH; [rewrite <- app_assoc; reflexivity|assumption|lia|lia|].
  intros k' Hk'. rewrite keys_app. cbn. rewrite in_app_iff. intros [Hp|[E|[]]].
  - apply (Hdis k'); [right; exact Hk'|exact Hp].
  - subst. tauto.
Qed.

(* per-sequence dicts that all have the keys ks: given by their value columns *)
Definition cols0 (vs : list A) : list (list A) := map (fun v => [v]) vs.
Definition cols (vs1 : list A) (rest : list (list A)) : list (list A) := fold_left zipapp rest (cols0 vs1).

Lemma fold_many_uniform_pos (ks : list nat) (vs1 : list A) (rest : list (list A)) :
  NoDup ks -> length vs1 = length ks -> (forall vs, In vs rest -> length vs = length ks) ->
  fold_many (map (combine ks) (vs1 :: rest)) = combine ks (cols vs1 rest).
Proof.
  intros Hnd H1 Hrest. rewrite fold_many_eq. cbn [map fold_left].
  rewrite (add_all_fresh ks vs1 []); [|assumption|assumption|intros; cbn; tauto]. cbn [app].
  unfold cols. fold (cols0 vs1).
  assert (Hc : length (cols0 vs1) = length ks) by (unfold cols0; rewrite map_length; exact H1).
  revert Hc. generalize (cols0 vs1) as acc. induction rest as [|vs rest IH]; intros acc Hc; cbn [map fold_left]; [reflexivity|].
  assert (Hp := add_all_present ks vs acc [] Hnd (Hrest vs (or_introl eq_refl)) Hc (fun _ _ (F : In _ (keys [])) => F)).
  cbn [app] in Hp. rewrite Hp. apply IH.
  - intros vs' Hin. apply Hrest. right. exact Hin.
  - rewrite zipapp_length; [exact Hc|rewrite Hc; apply Hrest; left; reflexivity].
Qed.

Lemma cols_length (n : nat) (vs1 : list A) (rest : list (list A)) :
  length vs1 = n -> (forall vs, In vs rest -> length vs = n) -> length (cols vs1 rest) = n.
Proof.
  intros H1 Hrest. unfold cols.
  assert (Hc : length (cols0 vs1) = n) by (unfold cols0; rewrite map_length; exact H1).
  revert Hc. generalize (cols0 vs1) as acc. induction rest as [|vs rest IH]; intros acc Hc; cbn; [exact Hc|].
  apply IH; [intros; apply Hrest; right; assumption|].
  rewrite zipapp_length; [exact Hc|rewrite Hc; apply Hrest; left; reflexivity].
Qed.

(* column i of the folded result lists, sequence after sequence, the i-th value of every per-sequence dict *)
Lemma cols_nth (n : nat) (vs1 : list A) (rest : list (list A)) i d :
  length vs1 = n -> (forall vs, In vs rest -> length vs = n) -> i < n ->
  nth i (cols vs1 rest) [] = map (fun vs => nth i vs d) (vs1 :: rest).
Proof.
  intros H1 Hrest Hi. unfold cols.
  assert (Hc : length (cols0 vs1) = n) by (unfold cols0; rewrite map_length; exact H1).
  assert (H0 : nth i (cols0 vs1) [] = [nth i vs1 d]).
  { unfold cols0. rewrite (nth_indep _ [] [d]) by (rewrite map_length; lia). exact (map_nth (fun v : A => [v]) vs1 d i). }
  cbn [map]. change (nth i vs1 d :: map (fun vs => nth i vs d) rest) with ([nth i vs1 d] ++ map (fun vs => nth i vs d) rest).
  rewrite <- H0. clear H0. revert Hc. generalize (cols0 vs1) as acc.
  induction rest as [|vs rest IH]; intros acc Hc; cbn [fold_left map]; [rewrite app_nil_r; reflexivity|].
  rewrite IH.
  - rewrite (zipapp_nth acc vs i d); [rewrite <- app_assoc; reflexivity|rewrite Hc; apply Hrest; left; reflexivity|lia].
  - intros; apply Hrest; right; assumption.
  - rewrite zipapp_length; [exact Hc|rewrite Hc; apply Hrest; left; reflexivity].
Qed.

(* The general statement on dicts: when every per-sequence dict has the keys ks (pairwise distinct), the folded dict
   has exactly the keys ks, in that order, and under each key the list - as long as the list of sequences - of that
   key's values, sequence after sequence. *)
Theorem fold_many_uniform (ks : list nat) (states : list (dict A)) :
  NoDup ks -> states <> [] -> (forall s, In s states -> keys s = ks) ->
  keys (fold_many states) = ks /\
  forall k, In k ks -> exists l, lookup k (fold_many states) = Some l /\ length l = length states /\
                                 forall j, j < length states -> nth_error l j = lookup k (nth j states []).
Proof.
  intros Hnd Hne Hk.
  assert (Hrep : states = map (combine ks) (map (map snd) states)).
  { rewrite map_map. rewrite <- (map_id states) at 1. apply map_ext_in. intros s Hs.
    rewrite <- (Hk s Hs). symmetry. apply combine_keys_vals. }
  destruct states as [|s1 rest]; [congruence|].
  assert (Hlen : forall vs, In vs (map (map snd) (s1 :: rest)) -> length vs = length ks).
  { intros vs Hin. apply in_map_iff in Hin. destruct Hin as [s [E Hs]]. subst vs. rewrite map_length.
    rewrite <- (Hk s Hs). unfold keys. rewrite map_length. reflexivity. }
  cbn [map] in Hrep, Hlen.
  assert (Hf : fold_many (s1 :: rest) = combine ks (cols (map snd s1) (map (map snd) rest))).
  { rewrite Hrep at 1. apply fold_many_uniform_pos; [assumption|apply Hlen; left; reflexivity|intros; apply Hlen; right; assumption]. }
  assert (Hcl : length (cols (map snd s1) (map (map snd) rest)) = length ks).
  { apply cols_length; [apply Hlen; left; reflexivity|intros; apply Hlen; right; assumption]. }
  split; [rewrite Hf; apply keys_combine; exact Hcl|].
  intros k Hin. destruct (In_nth _ _ 0 Hin) as [i [Hi Ei]].
  exists (nth i (cols (map snd s1) (map (map snd) rest)) []).
  split; [rewrite Hf, <- Ei; apply lookup_combine_nth; assumption|].
  destruct s1 as [|p1 s1'] eqn:Es1.
  { exfalso. assert (E0 : keys (@nil (nat * A)) = ks) by (apply Hk; left; reflexivity). cbn in E0. subst ks. cbn in Hi. lia. }
  rewrite <- Es1 in *. clear Es1 p1 s1'.
  assert (Hd : exists d : A, True).
  { destruct s1 as [|[k0 a0] ?]; [|exists a0; exact I].
    exfalso. assert (E0 : keys (@nil (nat * A)) = ks) by (apply Hk; left; reflexivity). cbn in E0. subst ks. cbn in Hi. lia. }
  destruct Hd as [d _].
  rewrite (cols_nth (length ks) _ _ i d); [|apply Hlen; left; reflexivity|intros; apply Hlen; right; assumption|exact Hi].
  split; [cbn [map length]; rewrite !map_length; reflexivity|].
  intros j Hj.
  change (map snd s1 :: map (map snd) rest) with (map (map snd) (s1 :: rest)).
  rewrite map_map.
  rewrite (nth_error_nth' _ (nth i (map snd (@nil (nat * A))) d)) by (rewrite map_length; exact Hj).
  rewrite (map_nth (fun s => nth i (map snd s) d) (s1 :: rest) [] j).
  assert (Hsj : In (nth j (s1 :: rest) []) (s1 :: rest)) by (apply nth_In; exact Hj).
  set (sj := nth j (s1 :: rest) []) in *. change (nth j (s1 :: rest) []) with sj.
  assert (Hgoal : lookup k (combine (keys sj) (map snd sj)) = Some (nth i (map snd sj) d)).
  { rewrite (Hk sj Hsj). rewrite <- Ei. apply lookup_combine_nth; [assumption| |exact Hi].
    rewrite map_length. rewrite <- (Hk sj Hsj). unfold keys. rewrite map_length. reflexivity. }
  rewrite combine_keys_vals in Hgoal. symmetry. exact Hgoal.
Qed.
End FoldMany.

(* ------------------------------------------------------------------------------------------------ unfold then fold *)
Section UnfoldFold.
Context {row : Type}.
Notation sq := (list row).

Lemma slice_combine (dm : dict (list sq)) j :
  slice dm j = combine (keys dm) (map (fun l => nth j l []) (map snd dm)).
Proof. unfold slice, keys. induction dm as [|[k l] dm IH]; cbn; [reflexivity|]. f_equal. exact IH. Qed.

(* folding the per-sequence mappings of a rectangular mapping (defaultdict path of fold_mapping) gives the mapping
   back: same keys, same order, under every key the same list of sequences *)
Theorem fold_many_unfold k (dm : dict (list sq)) ms :
  NoDup (keys dm) -> rectangular k dm -> 0 < k -> unfold_mapping dm = Some ms -> fold_many ms = dm.
Proof.
  intros Hnd Hr Hk Hu. destruct (unfold_some dm ms Hu) as [Hne [k' [Hr' Ems]]].
  assert (k' = k).
  { destruct dm as [|p dm]; [congruence|]. rewrite <- (Hr p), <- (Hr' p); [reflexivity|left; reflexivity|left; reflexivity]. }
  subst k' ms. clear Hr' Hu.
  set (vals := map snd dm). set (col := fun j => map (fun l : list sq => nth j l []) vals).
  assert (Hm : map (slice dm) (seq 0 k) = map (combine (keys dm)) (map col (seq 0 k))).
  { rewrite map_map. apply map_ext. intros j. apply slice_combine. }
  rewrite Hm. destruct k as [|k]; [lia|].
  change (fold_many (map (combine (keys dm)) (col 0 :: map col (seq 1 k))) = dm).
  assert (Hcl : forall j, length (col j) = length (keys dm)) by (intros j; unfold col, vals, keys; rewrite !map_length; reflexivity).
  rewrite fold_many_uniform_pos; [|assumption|apply Hcl|intros vs Hin; apply in_map_iff in Hin; destruct Hin as [j [E _]]; subst; apply Hcl].
  rewrite <- (combine_keys_vals dm) at 2. f_equal. fold vals.
  assert (Hlv : length vals = length (keys dm)) by (unfold vals, keys; rewrite !map_length; reflexivity).
  apply (nth_ext _ _ [] []).
  - rewrite (cols_length (length (keys dm))); [symmetry; exact Hlv|apply Hcl|].
    intros vs Hin; apply in_map_iff in Hin; destruct Hin as [j [E _]]; subst; apply Hcl.
  - intros i Hi.
    rewrite (cols_length (length (keys dm))) in Hi; [|apply Hcl|intros vs Hin; apply in_map_iff in Hin; destruct Hin as [j [E _]]; subst; apply Hcl].
    rewrite (cols_nth (length (keys dm)) _ _ i []); [|apply Hcl|intros vs Hin; apply in_map_iff in Hin; destruct Hin as [j [E _]]; subst; apply Hcl|exact Hi].
    change (col 0 :: map col (seq 1 k)) with (map col (seq 0 (S k))). rewrite map_map.
    assert (Hli : length (nth i vals []) = S k).
    { assert (Hin : In (nth i vals []) vals) by (apply nth_In; lia).
      apply in_map_iff in Hin. destruct Hin as [p [E Hp]]. rewrite <- E. apply Hr. exact Hp. }
    rewrite <- (map_nth_seq (nth i vals []) []). rewrite Hli. apply map_ext. intros j.
    unfold col. rewrite (nth_indep _ [] (nth j (@nil sq) [])) by (rewrite map_length; lia).
    exact (map_nth (fun l : list sq => nth j l []) vals [] i).
Qed.
End UnfoldFold.

(* ------------------------------------------------------------------------------------------------ build_mapping *)
Section Build.
Context {row : Type}.
Notation sq := (list row).

(* an array / list input goes to every node it is built for - with input_nodes: exactly the entry nodes *)
Theorem build_mapping_array (nodes : list mnode) (v : value row) :
  build_mapping nodes (DVal v) IoInput = map (fun n => (mn_name n, ragged_of v)) nodes.
Proof. reflexivity. Qed.
Theorem build_mapping_array_keys (nodes : list mnode) (v : value row) :
  keys (build_mapping nodes (DVal v) IoInput) = map mn_name nodes /\
  forall k, In k (map mn_name nodes) -> lookup k (build_mapping nodes (DVal v) IoInput) = Some (ragged_of v).
Proof.
  rewrite build_mapping_array. split; [unfold keys; rewrite map_map; reflexivity|].
  intros k Hin. unfold lookup. induction nodes as [|n nodes IH]; cbn in *; [tauto|].
  destruct (Nat.eqb (mn_name n) k) eqn:E; [reflexivity|]. apply IH. destruct Hin as [E'|Hin]; [|exact Hin].
  apply Nat.eqb_neq in E. congruence.
Qed.

(* a target array goes to the nodes that are not `unsupervised` - with trainable_nodes: exactly the supervised
   trainable nodes *)
Theorem build_mapping_target (nodes : list mnode) (v : value row) :
  build_mapping nodes (DVal v) IoTarget = map (fun n => (mn_name n, ragged_of v)) (filter (fun n => negb (mn_unsup n)) nodes).
Proof. reflexivity. Qed.
Theorem build_mapping_target_keys (mm : mmodel) (v : value row) k :
  In k (keys (build_mapping (trainable_nodes mm) (DVal v) IoTarget)) <->
  exists n, In n (mm_nodes mm) /\ mn_name n = k /\ mn_trainable n = true /\ mn_unsup n = false.
Proof.
  rewrite build_mapping_target. unfold keys, trainable_nodes. rewrite map_map. cbn [fst]. rewrite in_map_iff. split.
  - intros [n [E Hin]]. apply filter_In in Hin. destruct Hin as [Hin Hu]. apply filter_In in Hin. destruct Hin as [Hin Ht].
    exists n. repeat split; try assumption. apply negb_true_iff. exact Hu.
  - intros [n [Hin [E [Ht Hu]]]]. exists n. split; [exact E|]. apply filter_In. split; [apply filter_In; split; assumption|].
    apply negb_true_iff. exact Hu.
Qed.

(* a mapping is kept as it is: exactly the named keys (in the written order), each with its own data *)
Theorem build_mapping_map (nodes : list mnode) (m : dict (value row)) io :
  build_mapping nodes (DMap m) io = map (fun p => (fst p, ragged_of (snd p))) m.
Proof. reflexivity. Qed.
Theorem build_mapping_map_keys (nodes : list mnode) (m : dict (value row)) io :
  keys (build_mapping nodes (DMap m) io) = keys m /\
  forall k, lookup k (build_mapping nodes (DMap m) io) = option_map ragged_of (lookup k m).
Proof.
  rewrite build_mapping_map. split; [unfold keys; rewrite map_map; reflexivity|].
  intros k. unfold lookup. induction m as [|[k0 v0] m IH]; cbn; [reflexivity|].
  destruct (Nat.eqb k0 k); [reflexivity|exact IH].
Qed.

Lemma check_io_array (nodes : list mnode) (v : value row) :
  check_io nodes (build_mapping nodes (DVal v) IoInput) IoInput = true.
Proof.
  unfold check_io. apply forallb_forall. intros n Hin. apply orb_true_iff. left. apply memb_true.
  rewrite (proj1 (build_mapping_array_keys nodes v)). apply in_map. exact Hin.
Qed.

(* to_data_mapping on an array / list X: one mapping per sequence of X, the j-th one gives every input node - and
   nobody else - the j-th sequence *)
Theorem to_data_mapping_array (mm : mmodel) (v : value row) :
  mm_inputs mm <> [] ->
  to_data_mapping mm (DVal v) None =
    Some (map (fun s => map (fun n => (mn_name n, s)) (mm_inputs mm)) (ragged_of v), repeat None (length (ragged_of v))).
Proof.
  intros Hne. unfold to_data_mapping. rewrite check_io_array. cbn [negb].
  rewrite (unfold_rect (length (ragged_of v))).
  - rewrite map_length, seq_length. f_equal. f_equal.
    rewrite <- (map_nth_seq (ragged_of v) []) at 2. rewrite map_map. apply map_ext. intros j.
    rewrite build_mapping_array. unfold slice. rewrite map_map. reflexivity.
  - rewrite build_mapping_array. destruct (mm_inputs mm); [congruence|discriminate].
  - intros p Hp. rewrite build_mapping_array in Hp. apply in_map_iff in Hp. destruct Hp as [n [E _]]. subst. reflexivity.
Qed.

(* to_data_mapping on a name-keyed X: accepted iff every input node is named and all names have the same number k
   of sequences; then k mappings, the j-th one gives exactly the named nodes their own j-th sequence *)
Theorem to_data_mapping_named (mm : mmodel) (m : dict (value row)) xs ys :
  to_data_mapping mm (DMap m) None = Some (xs, ys) ->
  (forall n, In n (mm_inputs mm) -> In (mn_name n) (keys m)) /\
  exists k, (forall p, In p m -> length (ragged_of (snd p)) = k) /\ length xs = k /\ ys = repeat None k /\
            forall j, j < k -> nth j xs [] = map (fun p => (fst p, nth j (ragged_of (snd p)) [])) m.
Proof.
  unfold to_data_mapping. rewrite build_mapping_map.
  destruct (check_io _ _ _) eqn:Ec; cbn [negb]; [|discriminate].
  destruct (unfold_mapping _) as [ms|] eqn:Eu; [|discriminate]. intros Hs. inversion Hs; subst. clear Hs. split.
  - intros n Hn. unfold check_io in Ec. rewrite forallb_forall in Ec. specialize (Ec n Hn). rewrite orb_false_r in Ec.
    apply memb_true in Ec. unfold keys in *. rewrite map_map in Ec. exact Ec.
  - destruct (unfold_some _ _ Eu) as [_ [k [Hr E]]]. subst xs. exists k.
    split; [intros p Hp; apply (Hr (fst p, ragged_of (snd p))); apply in_map_iff; exists p; split; [reflexivity|exact Hp]|].
    split; [rewrite map_length, seq_length; reflexivity|]. split; [rewrite map_length, seq_length; reflexivity|].
    intros j Hj. rewrite (nth_indep _ [] (slice (map (fun p => (fst p, ragged_of (snd p))) m) 0)) by (rewrite map_length, seq_length; exact Hj).
    rewrite map_nth, seq_nth by exact Hj. unfold slice. rewrite map_map. reflexivity.
Qed.
End Build.

(* ------------------------------------------------------------------------------------------------ result form *)
Lemma lookup_NoDup_in {B} (m : dict B) p : NoDup (keys m) -> In p m -> lookup (fst p) m = Some (snd p).
Proof.
  unfold lookup. induction m as [|[k0 v0] m IH]; cbn; [tauto|]. intros Hnd [E|Hin].
  - subst. cbn. rewrite Nat.eqb_refl. reflexivity.
  - inversion Hnd; subst. destruct (Nat.eqb k0 (fst p)) eqn:E.
    + apply Nat.eqb_eq in E. exfalso. apply H1. rewrite E. unfold keys. apply in_map. exact Hin.
    + apply IH; assumption.
Qed.

Section Form.
Context {A : Type}.


(* the shape of what Model.run returns, as a function of return_states [rs], the returned names [names]
   (allocate_returned_states) and the number [nseq] of input sequences *)
Definition single (rs : rstates) (names : list nat) : Prop := rs = RsNone /\ length names = 1.
Definition form_ok (rs : rstates) (names : list nat) (nseq : nat) (res : result A) : Prop :=
  match res with
  | RBare _ => nseq = 1 /\ single rs names
  | RBareList l => nseq <> 1 /\ single rs names /\ length l = nseq
  | RDict m => nseq = 1 /\ ~ single rs names /\ keys m = names
  | RDictList m => nseq <> 1 /\ ~ single rs names /\ keys m = names /\ forall p, In p m -> length (snd p) = nseq
  | RErr => False
  end.

Lemma single_dec (rs : rstates) (names : list nat) :
  (Nat.eqb (length names) 1 && rs_is_none rs = true -> single rs names) /\
  (Nat.eqb (length names) 1 && rs_is_none rs = false -> ~ single rs names).
Proof.
  unfold single. split.
  - intros Hb. apply andb_true_iff in Hb. destruct Hb as [Hl Hr]. apply Nat.eqb_eq in Hl. destruct rs; try discriminate. tauto.
  - intros Hb [Hr Hl]. subst rs. rewrite Hl in Hb. discriminate.
Qed.

(* fold_mapping on per-sequence states that are all keyed by [names]:
   one sequence -> arrays, several -> lists of that length; return_states=None and one output node -> bare, otherwise
   keyed by exactly [names], in that order *)
Theorem fold_mapping_form (mm : mmodel) (states : list (dict A)) (rs : rstates) (names : list nat) :
  NoDup names -> states <> [] -> (forall s, In s states -> keys s = names) ->
  (rs = RsNone -> names = map mn_name (mm_outputs mm)) ->
  form_ok rs names (length states) (fold_mapping mm states rs).
Proof.
  intros Hnd Hne Hk Hout. destruct (single_dec rs names) as [Hs1 Hs0].
  destruct states as [|s1 [|s2 rest]]; [congruence| |].
  - (* one sequence *)
    assert (Hk1 : keys s1 = names) by (apply Hk; left; reflexivity).
    assert (Hl1 : length s1 = length names) by (rewrite <- Hk1; unfold keys; rewrite map_length; reflexivity).
    unfold fold_mapping. rewrite Hl1.
    destruct (Nat.eqb (length names) 1 && rs_is_none rs) eqn:Eb.
    + destruct (Hs1 eq_refl) as [Hrs Hln]. specialize (Hout Hrs).
      destruct (mm_outputs mm) as [|o outs]; [subst names; discriminate|].
      destruct (lookup_in_keys (mn_name o) s1) as [a Ha]; [rewrite Hk1, Hout; left; reflexivity|].
      rewrite Ha. cbn. split; [reflexivity|split; assumption].
    + cbn. split; [reflexivity|]. split; [apply Hs0; reflexivity|exact Hk1].
  - (* several sequences *)
    set (states := s1 :: s2 :: rest) in *.
    destruct (fold_many_uniform names states Hnd Hne Hk) as [Hkeys Hlk].
    assert (Hlen : length (fold_many states) = length names) by (rewrite <- Hkeys; unfold keys; rewrite map_length; reflexivity).
    assert (Hn1 : length states <> 1) by (cbn; lia).
    unfold fold_mapping. fold states. change (match states with [s] => _ | _ => ?x end) with x.
    rewrite Hlen. destruct (Nat.eqb (length names) 1 && rs_is_none rs) eqn:Eb.
    + destruct (Hs1 eq_refl) as [Hrs Hln]. specialize (Hout Hrs).
      destruct (mm_outputs mm) as [|o outs]; [subst names; discriminate|].
      destruct (Hlk (mn_name o)) as [l [Hl [Hll _]]]; [rewrite Hout; left; reflexivity|].
      rewrite Hl. cbn -[states]. split; [exact Hn1|]. split; [split; assumption|exact Hll].
    + cbn -[states]. split; [exact Hn1|]. split; [apply Hs0; reflexivity|]. split; [exact Hkeys|].
      intros p Hp. assert (Hin : In (fst p) names) by (rewrite <- Hkeys; unfold keys; apply in_map; exact Hp).
      destruct (Hlk (fst p) Hin) as [l [Hl [Hll _]]].
      rewrite (lookup_NoDup_in _ p) in Hl; [|rewrite Hkeys; exact Hnd|exact Hp]. inversion Hl; subst. exact Hll.
Qed.

(* which names: return_states=None -> the output nodes; "all" -> every node of the model; a list -> exactly the
   listed names (each once, in the order of first mention), provided they all are nodes of the model *)
Theorem allocate_spec (mm : mmodel) (rs : rstates) names :
  allocate_returned_states mm rs = Some names ->
  match rs with
  | RsNone => names = map mn_name (mm_outputs mm)
  | RsAll => names = node_names mm
  | RsNames l => (forall k, In k names <-> In k l) /\ NoDup names /\ (forall k, In k l -> In k (node_names mm)) /\
                 (NoDup l -> names = l)
  end.
Proof.
  destruct rs as [| |l]; cbn; intros Hs.
  - inversion Hs; reflexivity.
  - inversion Hs; reflexivity.
  - destruct (forallb _ l) eqn:E; [|discriminate]. inversion Hs; subst. clear Hs.
    split; [intros k; apply dedup_in|]. split; [apply dedup_NoDup|]. split; [|apply dedup_id].
    intros k Hk. rewrite forallb_forall in E. apply memb_true. apply E. exact Hk.
Qed.
Lemma allocate_names_refused (mm : mmodel) l k :
  In k l -> ~ In k (node_names mm) -> allocate_returned_states mm (RsNames l) = None.
Proof.
  intros Hk Hn. cbn. destruct (forallb _ l) eqn:E; [|reflexivity]. exfalso.
  rewrite forallb_forall in E. apply Hn. apply memb_true. apply E. exact Hk.
Qed.
End Form.

(* ------------------------------------------------------------------------------------------------ Model.run *)
Section RunP.
Context {F : Type} `{Num F}.
Notation vec := (list F).
Notation env := (@env F).
Notation model := (@model F).
Notation steps := (list ((nat -> option vec) * (nat -> option vec))).

(* Model.run over the sequences a ++ b = Model.run over a, then Model.run over b from the environment reached *)
Theorem run_seqs_app (m : model) stateful reset from : forall (a b : list steps) (e : env),
  run_seqs m stateful reset from (a ++ b) e =
    let '(e1, oa, ok) := run_seqs m stateful reset from a e in
    if ok then let '(e2, ob, ok2) := run_seqs m stateful reset from b e1 in (e2, oa ++ ob, ok2)
    else (e1, oa, false).
Proof.
  induction a as [|s a IH]; intros b e; cbn [app run_seqs].
  - destruct (run_seqs m stateful reset from b e) as [[e2 ob] ok2]. reflexivity.
  - destruct (run_op m stateful reset from s e) as [[e1 o] ok] eqn:E. destruct ok; [|reflexivity].
    rewrite IH. destruct (run_seqs m stateful reset from a e1) as [[e1' oa] ok1]. destruct ok1; [|reflexivity].
    destruct (run_seqs m stateful reset from b e1') as [[e2 ob] ok2]. reflexivity.
Qed.

(* one sequence: the one-sequence operation of ModelSem *)
Lemma run_seqs_one (m : model) stateful reset from (s : steps) (e : env) :
  run_seqs m stateful reset from [s] e =
    let '(e1, o, ok) := run_op m stateful reset from s e in (e1, if ok then [o] else [], ok).
Proof. cbn. destruct (run_op m stateful reset from s e) as [[e1 o] ok]. destruct ok; reflexivity. Qed.

Lemma run_op_length (m : model) stateful reset from (s : steps) (e e' : env) o :
  run_op m stateful reset from s e = (e', o, true) -> length o = length s.
Proof.
  unfold run_op. destruct (run_steps m s (start_env m reset from e)) as [[e1 o1] ok] eqn:E. intros Hr. inversion Hr; subst.
  eapply run_steps_outputs_length. exact E.
Qed.

(* as many results as sequences, each with as many rows as its sequence has timesteps *)
Theorem run_seqs_lengths (m : model) stateful reset from : forall (seqs : list steps) (e e' : env) outs,
  run_seqs m stateful reset from seqs e = (e', outs, true) ->
  length outs = length seqs /\ forall j, j < length seqs -> length (nth j outs []) = length (nth j seqs []).
Proof.
  induction seqs as [|s seqs IH]; intros e e' outs Hr; cbn in Hr.
  - inversion Hr; subst. split; [reflexivity|]. cbn. intros; lia.
  - destruct (run_op m stateful reset from s e) as [[e1 o] ok] eqn:E. destruct ok; [|discriminate].
    destruct (run_seqs m stateful reset from seqs e1) as [[e2 os] ok2] eqn:E2. inversion Hr; subst.
    destruct (IH _ _ _ E2) as [Hl Hn]. split; [cbn; f_equal; exact Hl|].
    intros [|j] Hj; cbn in *; [eapply run_op_length; exact E|apply Hn; lia].
Qed.

(* plain stateful runs (no reset, no from_state): a run over a list of sequences is one run over their concatenation *)
Theorem run_seqs_plain_concat (m : model) : forall (seqs : list steps) (e e' : env) outs,
  run_seqs m true false (fun _ => None) seqs e = (e', outs, true) ->
  run_steps m (concat seqs) e = (e', concat outs, true).
Proof.
  induction seqs as [|s seqs IH]; intros e e' outs Hr; cbn in Hr.
  - inversion Hr; subst. reflexivity.
  - rewrite run_op_plain in Hr. destruct (run_steps m s e) as [[e1 o] ok] eqn:E. destruct ok; [|discriminate].
    destruct (run_seqs m true false (fun _ => None) seqs e1) as [[e2 os] ok2] eqn:E2. inversion Hr; subst.
    cbn [concat]. rewrite run_steps_app, E. rewrite (IH _ _ _ E2). reflexivity.
Qed.

(* --- what the nodes are given at step t of a sequence mapping (graphflow.dispatch) *)
Lemma steps_of_length (xm : dict (list vec)) :
  length (steps_of xm) = match xm with [] => 0 | (_, s) :: _ => length s end.
Proof. unfold steps_of. rewrite map_length, seq_length. reflexivity. Qed.

Lemma steps_of_nth (xm : dict (list vec)) t d : t < length (steps_of xm) ->
  nth t (steps_of xm) d =
    ((fun n => match lookup n xm with Some s => nth_error s t | None => None end), (fun _ => None)).
Proof.
  intros Ht. rewrite steps_of_length in Ht. unfold steps_of.
  set (f := fun t0 : nat => ((fun n => match lookup n xm with Some s => nth_error s t0 | None => None end), (fun _ : nat => @None vec))).
  rewrite (nth_indep _ d (f 0)) by (rewrite map_length, seq_length; exact Ht).
  rewrite map_nth, seq_nth by exact Ht. reflexivity.
Qed.

(* a name-keyed input reaches exactly the named nodes: a node gets external data at step t only if it is named,
   and then row t of the sequence written under its own name *)
Theorem steps_of_named (xm : dict (list vec)) t d n : t < length (steps_of xm) ->
  (~ In n (keys xm) -> fst (nth t (steps_of xm) d) n = None) /\
  (forall s, lookup n xm = Some s -> fst (nth t (steps_of xm) d) n = nth_error s t) /\
  snd (nth t (steps_of xm) d) n = None.
Proof.
  intros Ht. rewrite (steps_of_nth xm t d Ht). cbn [fst snd]. split; [|split; [|reflexivity]].
  - intros Hn. rewrite (lookup_not_in n xm Hn). reflexivity.
  - intros s Hs. rewrite Hs. reflexivity.
Qed.

(* an array input reaches exactly the input nodes: at step t every input node gets row t, every other node nothing *)
Theorem steps_of_array (inputs : list mnode) (s : list vec) t d n :
  inputs <> [] -> t < length s ->
  fst (nth t (steps_of (map (fun i => (mn_name i, s)) inputs)) d) n =
    if memb n (map mn_name inputs) then nth_error s t else None.
Proof.
  intros Hne Ht. set (xm := map (fun i => (mn_name i, s)) inputs).
  assert (Hk : keys xm = map mn_name inputs) by (unfold xm, keys; rewrite map_map; reflexivity).
  assert (Hl : t < length (steps_of xm)).
  { rewrite steps_of_length. unfold xm. destruct inputs; [congruence|exact Ht]. }
  destruct (steps_of_named xm t d n Hl) as [Hno [Hyes _]].
  destruct (memb n (map mn_name inputs)) eqn:E.
  - apply memb_true in E. rewrite <- Hk in E. destruct (lookup_in_keys n xm E) as [s' Hs'].
    rewrite (Hyes s' Hs'). f_equal.
    unfold lookup in Hs'. destruct (find _ xm) as [p|] eqn:Ef; [|discriminate]. inversion Hs'; subst.
    apply find_some in Ef. destruct Ef as [Hin _]. unfold xm in Hin. apply in_map_iff in Hin. destruct Hin as [i [E' _]].
    subst p. reflexivity.
  - apply memb_false in E. apply Hno. rewrite Hk. exact E.
Qed.

(* --- requested outputs come from exactly the named nodes *)
Lemma forward_from_with_outputs (m : model) names prev cl ext : forall ds (e : env),
  forward_from (with_outputs m names) prev cl ext ds e = forward_from m prev cl ext ds e.
Proof.
  induction ds as [|d ds IH]; intros e; cbn [forward_from]; [reflexivity|].
  assert (Hcn : call_node (with_outputs m names) prev cl ext e d = call_node m prev cl ext e d) by reflexivity.
  rewrite Hcn. destruct (call_node m prev cl ext e d) as [e1 ok]. destruct ok; [apply IH|reflexivity].
Qed.
Lemma step_with_outputs (m : model) names forced ext (e : env) :
  step (with_outputs m names) forced ext e = step m forced ext e.
Proof.
  unfold step, forward. rewrite forward_from_with_outputs. reflexivity.
Qed.

(* recording the states of [names] instead of the output nodes changes neither the environments nor success, and
   row t of the record is the list of the named nodes' states at the end of step t of the SAME run *)
Theorem run_steps_with_outputs (m : model) names : forall (ss : steps) (e : env),
  run_steps (with_outputs m names) ss e =
    let '(e1, o, ok) := run_steps m ss e in
    (e1, map (fun t => map (fun n => st (env_after m ss e (S t) n)) names) (seq 0 (length o)), ok).
Proof.
  induction ss as [|[ext forced] ss IH]; intros e; cbn [run_steps]; [reflexivity|].
  rewrite step_with_outputs. destruct (step m forced ext e) as [e1 ok] eqn:E. destruct ok; [|reflexivity].
  rewrite IH. destruct (run_steps m ss e1) as [[e2 o2] ok2].
  cbn [length seq map]. f_equal. f_equal. f_equal.
  - unfold out_states. cbn [outputs with_outputs env_after]. rewrite E. cbn [fst]. destruct ss as [|[? ?] ?]; reflexivity.
  - rewrite <- seq_shift, map_map. apply map_ext. intros t. cbn [env_after]. rewrite E. reflexivity.
Qed.

Lemma states_of_seq_keys (names : list nat) (outs : list (list vec)) : keys (states_of_seq names outs) = names.
Proof.
  unfold states_of_seq, keys. rewrite map_map. cbn [fst]. generalize 0 as a.
  induction names as [|k ks IH]; intros a; cbn; [reflexivity|]. f_equal. apply IH.
Qed.
(* the array returned under the i-th name is column i of the record: one row per timestep *)
Lemma states_of_seq_lookup (names : list nat) (outs : list (list vec)) i :
  NoDup names -> i < length names ->
  lookup (nth i names 0) (states_of_seq names outs) = Some (map (fun step => nth i step []) outs).
Proof.
  intros Hnd Hi. unfold states_of_seq.
  assert (E : map (fun ip : nat * nat => (snd ip, map (fun step : list vec => nth (fst ip) step []) outs)) (combine (seq 0 (length names)) names)
              = combine names (map (fun i0 => map (fun step : list vec => nth i0 step []) outs) (seq 0 (length names)))).
  { clear Hnd Hi. generalize 0 as a. induction names as [|k ks IH]; intros a; cbn; [reflexivity|]. f_equal. apply IH. }
  rewrite E. rewrite (lookup_combine_nth names _ i []); [|exact Hnd|rewrite map_length, seq_length; reflexivity|exact Hi].
  f_equal. rewrite (nth_indep _ [] ((fun i0 => map (fun step : list vec => nth i0 step []) outs) 0)) by (rewrite map_length, seq_length; exact Hi).
  rewrite (map_nth (fun i0 => map (fun step : list vec => nth i0 step []) outs) (seq 0 (length names)) 0 i).
  rewrite seq_nth by exact Hi. reflexivity.
Qed.

(* --- Model.run on an array / list of sequences: the sequences are run in turn, each given to the input nodes *)
Theorem model_run_array (mm : mmodel) (m : model) stateful reset from (v : value vec) rs (e : env) names :
  mm_inputs mm <> [] -> ragged_of v <> [] -> allocate_returned_states mm rs = Some names ->
  model_run mm m stateful reset from (DVal v) rs e =
    let '(e1, outs, ok) :=
      run_seqs (with_outputs m names) stateful reset from
               (map (fun s => steps_of (map (fun n => (mn_name n, s)) (mm_inputs mm))) (ragged_of v)) e in
    (e1, if ok then fold_mapping mm (map (states_of_seq names) outs) rs else RErr, ok).
Proof.
  intros Hin Hne Ha. unfold model_run. rewrite (to_data_mapping_array mm v Hin), Ha.
  destruct (ragged_of v) as [|s l] eqn:Er; [congruence|]. cbn [map]. rewrite map_map. reflexivity.
Qed.

(* --- the form of what Model.run returns *)
Definition mm_wf (mm : mmodel) : Prop := NoDup (node_names mm) /\ NoDup (map mn_name (mm_outputs mm)).

Theorem model_run_form (mm : mmodel) (m : model) stateful reset from (X : data vec) rs (e e' : env) res :
  mm_wf mm -> model_run mm m stateful reset from X rs e = (e', res, true) ->
  exists names xs ys, allocate_returned_states mm rs = Some names /\ to_data_mapping mm X None = Some (xs, ys) /\
                      form_ok rs names (length xs) res.
Proof.
  intros [Hwn Hwo] Hr. unfold model_run in Hr.
  destruct (to_data_mapping mm X None) as [[xs ys]|] eqn:Et; [|inversion Hr].
  destruct (allocate_returned_states mm rs) as [names|] eqn:Ea; [|inversion Hr].
  destruct xs as [|x0 xs'] eqn:Exs; [inversion Hr|]. rewrite <- Exs in *.
  destruct (run_seqs _ _ _ _ _ _) as [[e1 outs] ok] eqn:Es. inversion Hr; subst e1 res ok. clear Hr.
  exists names, xs, ys. split; [reflexivity|]. split; [reflexivity|].
  destruct (run_seqs_lengths _ _ _ _ _ _ _ _ Es) as [Hl _]. rewrite map_length in Hl.
  rewrite <- Hl, <- (map_length (states_of_seq names) outs).
  assert (Hnd : NoDup names).
  { pose proof (allocate_spec mm rs names Ea) as Hs. destruct rs; [subst; exact Hwo|subst; exact Hwn|tauto]. }
  apply fold_mapping_form.
  - exact Hnd.
  - intros E0. apply (f_equal (@length _)) in E0. rewrite map_length, Hl, Exs in E0. discriminate.
  - intros s Hs. apply in_map_iff in Hs. destruct Hs as [o [E0 _]]. subst s. apply states_of_seq_keys.
  - intros Hrs. subst rs. exact (allocate_spec mm RsNone names Ea).
Qed.
End RunP.
