(* C04: the model's OWN solution (check 1 of run/RunC04.chk_fit: Gauss-Jordan LA.qsolve in place of LAPACK), read at R.

   proofs/QR_bridge_C04.v reads at R the solver-independent checks of chk_fit (the OBSERVED weights satisfy the model's normal
   equations).  Here, with the soundness of the elimination (proofs/QSolve_proofs.v): on a dataset whose input rows have width
   din, the accumulated system is d x d (d = din + bias) and the right-hand side d x dout, so whenever LA.qsolve answers, the
   matrix [backward_raw qsolve_tot ...] that chk_fit compares with the observed Wout / bias is, embedded in R, an EXACT solution
   of the R-model's regularised normal equations [normal_eqs] -- hence (Ridge_proofs.normal_eqs_optimal / _unique, lam > 0) the
   ridge optimum the theorems of props/C04.v are about. *)
From Coq Require Import Reals QArith Qreals List Bool Arith Lia.
From RV Require Import base.Num base.LA base.NumHom model.Ridge proofs.Ridge_la proofs.Ridge_proofs
                       proofs.QSolve_proofs proofs.QR_bridge_C04 run.RunC04.
Import ListNotations.
Close Scope Q_scope.

(* ------------------------------------------------------------------ shapes of the accumulators, any Num instance *)
Section AccShape.
Context {F : Type} `{Num F}.
Lemma Forall_skipn' {A} (P : A -> Prop) w : forall l, Forall P l -> Forall P (skipn w l).
Proof. induction w as [|w IH]; intros [|a l] Hl; cbn; auto. apply IH. exact (Forall_inv_tail Hl). Qed.
Lemma length_madd (A B : list (list F)) : length (madd A B) = Nat.min (length A) (length B).
Proof. unfold madd. rewrite map_length, combine_length. reflexivity. Qed.
Lemma partial_backward_shape bias din dout (acc : list (list F) * list (list F)) X Y :
  shapeF (aug_dim bias din) (aug_dim bias din) (fst acc) -> length (snd acc) = dout -> rowsF din X ->
  shapeF (aug_dim bias din) (aug_dim bias din) (fst (partial_backward bias din dout acc X Y)) /\
  length (snd (partial_backward bias din dout acc X Y)) = dout.
Proof.
  intros S1 L2 RX. unfold partial_backward. cbv zeta. cbn [fst snd].
  assert (RX' : rowsF (aug_dim bias din) (map (prep bias) X)).
  { unfold rowsF in *. rewrite Forall_map. eapply Forall_impl; [|exact RX]. cbn beta. intros x E. destruct bias; cbn; congruence. }
  split.
  - apply shapeF_madd; [exact S1|].
    pose proof (shapeF_mm (transpose (map (prep bias) X) (aug_dim bias din)) _ _ RX') as Sm.
    rewrite (proj1 (shapeF_transpose _ _)) in Sm. exact Sm.
  - rewrite length_madd. unfold mm. rewrite map_length, (proj1 (shapeF_transpose _ _)). lia.
Qed.
Lemma partial_fit_shape bias din dout w : forall Xs Ys (acc acc' : list (list F) * list (list F)),
  Forall (rowsF din) Xs ->
  shapeF (aug_dim bias din) (aug_dim bias din) (fst acc) -> length (snd acc) = dout ->
  partial_fit bias din dout w acc Xs Ys = Some acc' ->
  shapeF (aug_dim bias din) (aug_dim bias din) (fst acc') /\ length (snd acc') = dout.
Proof.
  induction Xs as [|X Xs IH]; intros Ys acc acc' HX S1 L2 E.
  - cbn in E. injection E as <-. auto.
  - destruct Ys as [|Y Ys]; [cbn in E; injection E as <-; auto|].
    cbn [partial_fit] in E. destruct (length X <=? w); [discriminate|].
    pose proof (Forall_inv HX) as HX1. pose proof (Forall_inv_tail HX) as HX2.
    destruct (partial_backward_shape bias din dout acc (skipn w X) (skipn w Y) S1 L2 (Forall_skipn' _ w X HX1)) as [S1' L2'].
    apply (IH Ys _ acc' HX2 S1' L2' E).
Qed.
Lemma buffers0_shape bias din dout :
  shapeF (aug_dim bias din) (aug_dim bias din) (fst (buffers0 (F:=F) bias din dout)) /\ length (snd (buffers0 (F:=F) bias din dout)) = dout.
Proof. unfold buffers0. cbn [fst snd]. split; [apply shapeF_mzeros | apply (proj1 (shapeF_mzeros _ _))]. Qed.
(* the system of backward and its right-hand side *)
Lemma ridge_system_wf bias (lam : F) din dout (acc : list (list F) * list (list F)) :
  shapeF (aug_dim bias din) (aug_dim bias din) (fst acc) -> length (snd acc) = dout ->
  shapeF (aug_dim bias din) (aug_dim bias din) (ridge_system bias lam din (fst acc)) /\
  shapeF (aug_dim bias din) dout (transpose (snd acc) (aug_dim bias din)).
Proof.
  intros S1 L2. split.
  - unfold ridge_system. apply shapeF_madd; [exact S1 | apply shapeF_mscale, shapeF_eye].
  - rewrite <- L2. apply shapeF_transpose.
Qed.
End AccShape.

Definition rows_width (din : nat) (Xs : list (list (list Q))) : Prop := Forall (Forall (fun r => length r = din)) Xs.

(* ------------------------------------------------------------------ the solver step of backward, at Q, read at R *)
Lemma backward_raw_solves_R_system (bias : bool) (lam : Q) (w din dout : nat) (Xs Ys : list (list (list Q)))
      (acc : list (list Q) * list (list Q)) (Wq : list (list Q)) :
  rows_width din Xs -> partial_fit bias din dout w (buffers0 bias din dout) Xs Ys = Some acc ->
  qsolve (ridge_system bias lam din (fst acc)) (transpose (snd acc) (aug_dim bias din)) = Some Wq ->
  backward_raw qsolve_tot bias lam din acc = Wq /\
  shape (aug_dim bias din) dout (qm2r Wq) /\ normal_eqs bias (Q2R lam) din dout (acc2r acc) (qm2r Wq).
Proof.
  intros HX E Es. destruct (buffers0_shape (F:=Q) bias din dout) as [S0 L0].
  destruct (partial_fit_shape bias din dout w Xs Ys _ acc HX S0 L0 E) as [S1 L2].
  destruct (ridge_system_wf bias lam din dout acc S1 L2) as [SA SB].
  destruct (qsolve_sound_R _ _ _ _ _ (wf_shapes_of _ _ _ _ SA SB) Es) as [SW EW].
  split; [unfold backward_raw, qsolve_tot; rewrite Es; reflexivity|]. split; [exact SW|].
  unfold normal_eqs. destruct (Qridge_system_embeds bias lam din acc) as [HA HB]. rewrite <- HA, <- HB. exact EW.
Qed.

(* ------------------------------------------------------------------ chk_fit, check 1: the model's own solution *)
Lemma chk_fit_solution_is_about_R_model (bias : bool) (lam : Q) (w din dout : nat) (Xs Ys : list (list (list Q)))
      (Wout_obs : list (list Q)) (b_obs : list Q) (Xtest pred_obs : list (list Q)) :
  rows_width din Xs ->
  chk_fit bias lam w din dout Xs Ys Wout_obs b_obs Xtest pred_obs = true ->
  exists (acc : list (list Q) * list (list Q)) (Wo : list (list Q)),
    partial_fit bias din dout w (buffers0 bias din dout) (map qm2r Xs) (map qm2r Ys) = Some (acc2r acc) /\
    backward_raw qsolve_tot bias lam din acc = Wo /\
    mrclose (qm2r (fst (split_wo bias dout Wo))) (qm2r Wout_obs) /\ vrclose (qv2r (snd (split_wo bias dout Wo))) (qv2r b_obs) /\
    (qsolve (ridge_system bias lam din (fst acc)) (transpose (snd acc) (aug_dim bias din)) = None \/
     shape (aug_dim bias din) dout (qm2r Wo) /\ normal_eqs bias (Q2R lam) din dout (acc2r acc) (qm2r Wo)).
Proof.
  intros HX. unfold chk_fit. pose proof (Qaccumulators_embed bias din dout w Xs Ys) as Ha.
  destruct (partial_fit bias din dout w (buffers0 bias din dout) Xs Ys) as [acc|] eqn:E; [|discriminate].
  destruct (split_wo bias dout (backward_raw qsolve_tot bias lam din acc)) as [Wm bm] eqn:Esw. intros Hx.
  do 3 (apply andb_true_iff in Hx; destruct Hx as [Hx _]). apply andb_true_iff in Hx. destruct Hx as [Hx1 Hx2].
  exists acc, (backward_raw qsolve_tot bias lam din acc). split; [symmetry; exact Ha|]. split; [reflexivity|].
  rewrite Esw. cbn [fst snd]. split; [apply mclose_mrclose, Hx1|]. split; [apply vclose_vrclose, Hx2|].
  destruct (qsolve (ridge_system bias lam din (fst acc)) (transpose (snd acc) (aug_dim bias din))) as [Wq|] eqn:Es; [right | left; reflexivity].
  destruct (backward_raw_solves_R_system bias lam w din dout Xs Ys acc Wq HX E Es) as (-> & SW & EW). split; assumption.
Qed.

(* ------------------------------------------------------------------ lam > 0: the elimination always answers
   (QSolve_proofs.qsolve_none_singular_R: "None" exhibits a non-zero kernel vector of the embedded system; Ridge_proofs.
   sys_kernel_trivial: for lam > 0 the R-system XXT + lam I has none) *)
Definition wf_dataQ (din : nat) (Xs Ys : list (list (list Q))) : Prop :=
  Forall2 (fun X Y => length X = length Y /\ Forall (fun r => length r = din) X) Xs Ys.
Lemma wf_dataQ_R din Xs Ys : wf_dataQ din Xs Ys -> wf_data din (map qm2r Xs) (map qm2r Ys).
Proof.
  induction 1 as [|X Y Xs Ys [L R] _ IH]; cbn [map]; constructor; [|exact IH]. rewrite !map_length. split; [exact L|].
  rewrite Forall_map. eapply Forall_impl; [|exact R]. cbn beta. intros r E. rewrite map_length. exact E.
Qed.
Lemma wf_dataQ_rows din Xs Ys : wf_dataQ din Xs Ys -> rows_width din Xs.
Proof. induction 1 as [|X Y Xs Ys [L R] _ IH]; constructor; assumption. Qed.

Lemma ridge_qsolve_answers (bias : bool) (lam : Q) (w din dout : nat) (Xs Ys : list (list (list Q)))
      (acc : list (list Q) * list (list Q)) :
  wf_dataQ din Xs Ys -> (0 < lam)%Q -> partial_fit bias din dout w (buffers0 bias din dout) Xs Ys = Some acc ->
  exists Wq, qsolve (ridge_system bias lam din (fst acc)) (transpose (snd acc) (aug_dim bias din)) = Some Wq.
Proof.
  intros HW Hl E.
  destruct (qsolve (ridge_system bias lam din (fst acc)) (transpose (snd acc) (aug_dim bias din))) as [Wq|] eqn:Es; [exists Wq; reflexivity|].
  exfalso. destruct (buffers0_shape (F:=Q) bias din dout) as [S0 L0].
  destruct (partial_fit_shape bias din dout w Xs Ys _ acc (wf_dataQ_rows _ _ _ HW) S0 L0 E) as [S1 L2].
  destruct (ridge_system_wf bias lam din dout acc S1 L2) as [SA SB].
  destruct (qsolve_none_singular_R _ _ _ _ (wf_shapes_of _ _ _ _ SA SB) Es) as (y & Ly & Hnz & Hk).
  apply Hnz.
  assert (HlR : (0 < Q2R lam)%R).
  { apply Qlt_Rlt in Hl. change (Q2R 0) with (Q2R n0) in Hl. rewrite Q2R_n0 in Hl. exact Hl. }
  pose proof (Qaccumulators_embed bias din dout w Xs Ys) as Ha. rewrite E in Ha. cbn [option_map] in Ha.
  apply (sys_kernel_trivial bias (Q2R lam) din dout w (map qm2r Xs) (map qm2r Ys) (acc2r acc) (wf_dataQ_R _ _ _ HW) (eq_sym Ha) HlR (qv2r y)).
  - rewrite map_length. exact Ly.
  - destruct (Qridge_system_embeds bias lam din acc) as [HA _]. rewrite <- HA. exact Hk.
Qed.

(* chk_fit, check 1, for a well-formed dataset and lam > 0: the matrix the runner compares with the observed Wout / bias IS,
   embedded in R, the solution of the R-model's normal equations -- and so the minimiser of every coordinate's objective *)
Lemma chk_fit_solution_is_ridge_optimum (bias : bool) (lam : Q) (w din dout : nat) (Xs Ys : list (list (list Q)))
      (Wout_obs : list (list Q)) (b_obs : list Q) (Xtest pred_obs : list (list Q)) :
  wf_dataQ din Xs Ys -> (0 < lam)%Q ->
  chk_fit bias lam w din dout Xs Ys Wout_obs b_obs Xtest pred_obs = true ->
  exists (acc : list (list Q) * list (list Q)) (Wo : list (list Q)),
    partial_fit bias din dout w (buffers0 bias din dout) (map qm2r Xs) (map qm2r Ys) = Some (acc2r acc) /\
    backward_raw qsolve_tot bias lam din acc = Wo /\
    mrclose (qm2r (fst (split_wo bias dout Wo))) (qm2r Wout_obs) /\ vrclose (qv2r (snd (split_wo bias dout Wo))) (qv2r b_obs) /\
    shape (aug_dim bias din) dout (qm2r Wo) /\ normal_eqs bias (Q2R lam) din dout (acc2r acc) (qm2r Wo) /\
    forall (k : nat) (w' : list R), (k < dout)%nat -> length w' = aug_dim bias din ->
      (Jcol (Q2R lam) (RX bias w (map qm2r Xs)) (RY w (map qm2r Ys)) k (colv (qm2r Wo) k)
       <= Jcol (Q2R lam) (RX bias w (map qm2r Xs)) (RY w (map qm2r Ys)) k w')%R.
Proof.
  intros HW Hl. unfold chk_fit. pose proof (Qaccumulators_embed bias din dout w Xs Ys) as Ha.
  destruct (partial_fit bias din dout w (buffers0 bias din dout) Xs Ys) as [acc|] eqn:E; [|discriminate].
  destruct (split_wo bias dout (backward_raw qsolve_tot bias lam din acc)) as [Wm bm] eqn:Esw. intros Hx.
  do 3 (apply andb_true_iff in Hx; destruct Hx as [Hx _]). apply andb_true_iff in Hx. destruct Hx as [Hx1 Hx2].
  exists acc, (backward_raw qsolve_tot bias lam din acc). cbn [option_map] in Ha. split; [symmetry; exact Ha|]. split; [reflexivity|].
  rewrite Esw. cbn [fst snd]. split; [apply mclose_mrclose, Hx1|]. split; [apply vclose_vrclose, Hx2|].
  destruct (ridge_qsolve_answers bias lam w din dout Xs Ys acc HW Hl E) as [Wq Es].
  destruct (backward_raw_solves_R_system bias lam w din dout Xs Ys acc Wq (wf_dataQ_rows _ _ _ HW) E Es) as (-> & SW & EW).
  split; [exact SW|]. split; [exact EW|]. intros k w' Hk Lw'.
  assert (HlR : (0 < Q2R lam)%R).
  { apply Qlt_Rlt in Hl. change (Q2R 0) with (Q2R n0) in Hl. rewrite Q2R_n0 in Hl. exact Hl. }
  exact (normal_eqs_optimal bias (Q2R lam) din dout w (map qm2r Xs) (map qm2r Ys) (acc2r acc) (wf_dataQ_R _ _ _ HW) (eq_sym Ha) HlR
           (qm2r Wq) k w' SW EW Hk Lw').
Qed.

(* non-vacuity: the scenario of QR_bridge_C04.chk_fit_example; the elimination answers *)
Example chk_fit_solution_example :
  rows_width 2 exXs /\ wf_dataQ 2 exXs exYs /\ (0 < 1#2)%Q /\
  chk_fit true (1#2)%Q 1 2 1 exXs exYs [[(35723#109067)%Q]; [(30012#109067)%Q]] [(8397#218134)%Q] [[1%Q; 1%Q]] [[(19981#31162)%Q]] = true /\
  qsolve (ridge_system true (1#2)%Q 2 [[(3#1)%Q; (-1#4)%Q; (13#8)%Q]; [(-1#4)%Q; (53#16)%Q; (-3#16)%Q]; [(13#8)%Q; (-3#16)%Q; (273#64)%Q]])
         (transpose [[(1#2)%Q; (19#16)%Q; (21#16)%Q]] 3)
    = Some [[(8397#218134)%Q]; [(35723#109067)%Q]; [(30012#109067)%Q]].
Proof. split; [repeat constructor|]. split; [repeat constructor|]. split; [reflexivity|]. vm_compute. split; reflexivity. Qed.
