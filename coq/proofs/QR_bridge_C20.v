(* C20: the dataset helpers and map generators run at Q, then embedded in R, ARE the same functions run at R on the embedded data.

   model/Datasets.v: the helpers are STRUCTURAL -- [to_forecasting_rows] (slices with negated bounds, the train/test split) is
   polymorphic in the row type and commutes with [map f] for ANY function f (no algebra involved); [to_forecasting_2d] adds a
   transpose; [one_hot] / [one_hot_2d] / [one_hot_multi] compute on the LABELS (any type with a boolean order) and only pick
   rows of the identity matrix, so their result at any instance is the entry-wise image of the result at any other, classes
   untouched.  [test_len_of] / [round_half_even] are rational-only (no [Num] instance involved): nothing to bridge.
   The map generators are arithmetic: [logistic_map] (its guards use the strict comparison of the class, which a [NumHom]
   reflects), [henon_map], [narma] (the in-place array loop, any order / length / start) commute with every homomorphism
   [phi] of the class (base/NumHom.v), in particular [Q2R].  No shape hypothesis, no side condition.
   Then the verdicts of run/RunC20.v read at R. *)
From Coq Require Import Reals QArith Qreals List Bool Arith ZArith.
From Coq Require String.
From RV Require Import base.Num base.LA base.NumHom model.Datasets.
Import ListNotations.
Close Scope Q_scope.

(* ------------------------------------------------------------------ structural helpers: any row type, any function *)
Section Structural.
Context {A B : Type} (f : A -> B).
Lemma map_upto_neg k (l : list A) : map f (upto_neg k l) = upto_neg k (map f l).
Proof. unfold upto_neg. destruct (k =? 0); [reflexivity|]. rewrite firstn_map, map_length. reflexivity. Qed.
Lemma map_from_neg k (l : list A) : map f (from_neg k l) = from_neg k (map f l).
Proof. unfold from_neg. rewrite skipn_map, map_length. reflexivity. Qed.
Lemma map_forecast_rows fc tl (s : list A) : map (map f) (forecast_rows fc tl s) = forecast_rows fc tl (map f s).
Proof.
  unfold forecast_rows. cbv zeta. destruct (0 <? tl)%Z; cbn [map];
  rewrite ?map_upto_neg, ?map_from_neg, ?skipn_map, ?map_upto_neg; reflexivity.
Qed.
Lemma map_to_forecasting_rows fc ts (s : list A) :
  option_map (map (map f)) (to_forecasting_rows fc ts s) = to_forecasting_rows fc ts (map f s).
Proof.
  unfold to_forecasting_rows. rewrite map_length. destruct (test_len_of (length s) ts); [|reflexivity].
  cbn. rewrite map_forecast_rows. reflexivity.
Qed.
Lemma map_reshape_rows nr m (l : list A) : map (map f) (reshape_rows nr m l) = reshape_rows nr m (map f l).
Proof. revert l. induction nr as [|k IH]; intros l; cbn; [reflexivity|]. rewrite firstn_map, IH, skipn_map. reflexivity. Qed.
Lemma map_np_split prev idx (l : list A) : map (map f) (np_split prev idx l) = np_split prev idx (map f l).
Proof. revert prev l. induction idx as [|i idx IH]; intros prev l; cbn; [reflexivity|]. rewrite firstn_map, IH, skipn_map. reflexivity. Qed.
Lemma map_orbit {S S'} (g : S -> S') (step : S -> S) (step' : S' -> S') : (forall s, g (step s) = step' (g s)) ->
  forall n s, map g (orbit step n s) = orbit step' n (g s).
Proof. intros E n. induction n as [|n IH]; intros s; cbn; [reflexivity|]. rewrite IH, E. reflexivity. Qed.
End Structural.

Section BridgeC20.
Context {F G : Type} {NF : Num F} {NG : Num G} (phi : F -> G) {HH : NumHom phi}.
Local Notation ev := (map phi).
Local Notation em := (map (map phi)).

(* ---- to_forecasting on a 2-D series, either time axis ---- *)
Lemma e_to_forecasting_2d axis fc ts (series : list (list F)) :
  option_map (map em) (to_forecasting_2d axis fc ts series) = to_forecasting_2d axis fc ts (em series).
Proof.
  unfold to_forecasting_2d. destruct (axis =? 0); [apply map_to_forecasting_rows|]. cbv zeta.
  rewrite map_length. replace (length (hd [] (em series))) with (length (hd [] series)) by (destruct series; cbn; rewrite ?map_length; reflexivity).
  rewrite <- (em_transpose phi), <- map_to_forecasting_rows.
  destruct (to_forecasting_rows fc ts (transpose series (length (hd [] series)))) as [parts|]; [|reflexivity].
  cbn. f_equal. rewrite !map_map. apply map_ext. intros p. apply (em_transpose phi).
Qed.

(* ---- one_hot: the labels decide everything; numbers only enter through rows of the identity ---- *)
Section OneHotBridge.
Context {A : Type} (leb : A -> A -> bool).
Lemma ev_encode_with cls a : ev (encode_with leb (F:=F) cls a) = encode_with leb (F:=G) cls a.
Proof. unfold encode_with. rewrite (em_nth_row phi), (em_eye phi). reflexivity. Qed.
Lemma e_one_hot labels :
  one_hot leb (F:=G) labels = (em (fst (one_hot leb (F:=F) labels)), snd (one_hot leb (F:=F) labels)).
Proof.
  unfold one_hot. cbn [fst snd]. f_equal. rewrite map_map. apply map_ext. intros. symmetry. apply ev_encode_with.
Qed.
Definition e2d (r : (list (list F) + list (list (list F))) * list A) : (list (list G) + list (list (list G))) * list A :=
  (match fst r with inl e => inl (em e) | inr t => inr (map em t) end, snd r).
Lemma e_one_hot_2d rows : one_hot_2d leb (F:=G) rows = e2d (one_hot_2d leb (F:=F) rows).
Proof.
  unfold one_hot_2d. cbv zeta. rewrite e_one_hot. destruct (one_hot leb (F:=F) (concat rows)) as [enc cls]. cbn [fst snd].
  destruct (length (hd [] rows) =? 1); unfold e2d; cbn [fst snd]; [reflexivity|].
  rewrite (map_reshape_rows (map phi)). reflexivity.
Qed.
Lemma e_one_hot_multi seqs :
  one_hot_multi leb (F:=G) seqs = (map em (fst (one_hot_multi leb (F:=F) seqs)), snd (one_hot_multi leb (F:=F) seqs)).
Proof.
  unfold one_hot_multi. cbv zeta. rewrite e_one_hot. destruct (one_hot leb (F:=F) (concat seqs)) as [enc cls]. cbn [fst snd].
  rewrite (map_np_split (map phi)). reflexivity.
Qed.
End OneHotBridge.

(* ---- the discrete maps ---- *)
Lemma hom_logistic_step r x : phi (logistic_step r x) = logistic_step (phi r) (phi x).
Proof. unfold logistic_step. rewrite !(hom_mul phi), (hom_sub phi), (hom_1 phi). reflexivity. Qed.
Lemma e_logistic_map n r x0 : option_map em (logistic_map n r x0) = logistic_map n (phi r) (phi x0).
Proof.
  unfold logistic_map. rewrite <- (hom_0 phi), <- (hom_1 phi), <- !(hom_ltb phi).
  destruct (nltb n0 r && (nltb n0 x0 && nltb x0 n1)); [|reflexivity]. destruct n as [|n]; [reflexivity|].
  cbn [option_map]. f_equal. rewrite <- (map_orbit phi (logistic_step r) (logistic_step (phi r)) (hom_logistic_step r)).
  rewrite !map_map. reflexivity.
Qed.
Definition epair2 (s : F * F) : G * G := (phi (fst s), phi (snd s)).
Lemma hom_henon_step a b s : epair2 (henon_step a b s) = henon_step (phi a) (phi b) (epair2 s).
Proof.
  destruct s as [x y]. unfold henon_step, epair2. cbn [fst snd].
  rewrite (hom_add phi), (hom_sub phi), !(hom_mul phi), (hom_1 phi). reflexivity.
Qed.
Lemma e_henon_map n a b x0 y0 : option_map em (henon_map n a b x0 y0) = henon_map n (phi a) (phi b) (phi x0) (phi y0).
Proof.
  unfold henon_map. destruct n as [|n]; [reflexivity|]. cbn [option_map]. f_equal.
  change (phi x0, phi y0) with (epair2 (x0, y0)).
  rewrite <- (map_orbit epair2 (henon_step a b) (henon_step (phi a) (phi b)) (hom_henon_step a b)).
  rewrite !map_map. reflexivity.
Qed.

Lemma ev_upd i v l : ev (upd i v l) = upd i (phi v) (ev l).
Proof. revert i. induction l as [|x l IH]; intros [|i]; cbn; try reflexivity. rewrite IH. reflexivity. Qed.
Lemma hom_narma_rhs a1 a2 b c yt s u1 u2 :
  phi (narma_rhs a1 a2 b c yt s u1 u2) = narma_rhs (phi a1) (phi a2) (phi b) (phi c) (phi yt) (phi s) (phi u1) (phi u2).
Proof. unfold narma_rhs. rewrite !(hom_add phi), !(hom_mul phi). reflexivity. Qed.
Lemma ev_narma_body order a1 a2 b c u y t :
  ev (narma_body order a1 a2 b c u y t) = narma_body order (phi a1) (phi a2) (phi b) (phi c) (ev u) (ev y) t.
Proof.
  unfold narma_body. cbv zeta.
  rewrite ev_upd, hom_narma_rhs, (ev_vsum phi), !(ev_nth0 phi), <- firstn_map, <- skipn_map. reflexivity.
Qed.
Lemma ev_narma_body_old order a1 a2 b c u y t :
  ev (narma_body_old order a1 a2 b c u y t) = narma_body_old order (phi a1) (phi a2) (phi b) (phi c) (ev u) (ev y) t.
Proof.
  unfold narma_body_old. cbv zeta.
  rewrite ev_upd, hom_narma_rhs, (ev_vsum phi), !(ev_nth0 phi), <- firstn_map, <- skipn_map. reflexivity.
Qed.
Lemma ev_narma_init n order x0 : ev (narma_init n order x0) = narma_init n order (ev x0).
Proof. unfold narma_init. rewrite map_app, (ev_vzeros phi), map_length. reflexivity. Qed.
Lemma ev_fold_body (body : list F -> nat -> list F) (body' : list G -> nat -> list G) :
  (forall y t, ev (body y t) = body' (ev y) t) -> forall ts y, ev (fold_left body ts y) = fold_left body' ts (ev y).
Proof. intros E ts. induction ts as [|t ts IH]; intros y; cbn; [reflexivity|]. rewrite IH, E. reflexivity. Qed.
Lemma ev_narma_array n order a1 a2 b c x0 u :
  ev (narma_array n order a1 a2 b c x0 u) = narma_array n order (phi a1) (phi a2) (phi b) (phi c) (ev x0) (ev u).
Proof. unfold narma_array. rewrite (ev_fold_body _ _ (ev_narma_body order a1 a2 b c u)), ev_narma_init. reflexivity. Qed.
Lemma ev_narma_array_old n order a1 a2 b c x0 u :
  ev (narma_array_old n order a1 a2 b c x0 u) = narma_array_old n order (phi a1) (phi a2) (phi b) (phi c) (ev x0) (ev u).
Proof. unfold narma_array_old. rewrite (ev_fold_body _ _ (ev_narma_body_old order a1 a2 b c u)), ev_narma_init. reflexivity. Qed.
Lemma em_narma n order a1 a2 b c x0 u :
  em (narma n order a1 a2 b c x0 u) = narma n order (phi a1) (phi a2) (phi b) (phi c) (ev x0) (ev u).
Proof. unfold narma. rewrite <- ev_narma_array, skipn_map, !map_map. reflexivity. Qed.
End BridgeC20.

(* ================================================================== the instance Q -> R *)
Notation qt2r := (map (map (map Q2R))).

(* the map generators: None = the exception (bad r / x0, n = 0), on both sides *)
Lemma Qmaps_embed :
  (forall (n : nat) (r x0 : Q), logistic_map n (Q2R r) (Q2R x0) = option_map qm2r (logistic_map n r x0)) /\
  (forall (n : nat) (a b x0 y0 : Q), henon_map n (Q2R a) (Q2R b) (Q2R x0) (Q2R y0) = option_map qm2r (henon_map n a b x0 y0)) /\
  (forall (n order : nat) (a1 a2 b c : Q) (x0 u : list Q),
     narma n order (Q2R a1) (Q2R a2) (Q2R b) (Q2R c) (qv2r x0) (qv2r u) = qm2r (narma n order a1 a2 b c x0 u)) /\
  (forall (n order : nat) (a1 a2 b c : Q) (x0 u : list Q),
     narma_array_old n order (Q2R a1) (Q2R a2) (Q2R b) (Q2R c) (qv2r x0) (qv2r u) = qv2r (narma_array_old n order a1 a2 b c x0 u)).
Proof.
  repeat split; intros; symmetry.
  - apply (e_logistic_map Q2R). - apply (e_henon_map Q2R). - apply (em_narma Q2R). - apply (ev_narma_array_old Q2R).
Qed.

(* the helpers are structural: to_forecasting commutes with ANY function on the rows; one_hot ignores the number instance *)
Lemma Qhelpers_structural :
  (forall (A B : Type) (f : A -> B) (fc : nat) (ts : test_size) (s : list A),
     to_forecasting_rows fc ts (map f s) = option_map (map (map f)) (to_forecasting_rows fc ts s)) /\
  (forall (axis fc : nat) (ts : test_size) (series : list (list Q)),
     to_forecasting_2d axis fc ts (qm2r series) = option_map qt2r (to_forecasting_2d axis fc ts series)) /\
  (forall (A : Type) (leb : A -> A -> bool) (labels : list A),
     one_hot leb (F:=R) labels = (qm2r (fst (one_hot leb (F:=Q) labels)), snd (one_hot leb (F:=Q) labels))) /\
  (forall (A : Type) (leb : A -> A -> bool) (rows : list (list A)),
     one_hot_2d leb (F:=R) rows = e2d Q2R (one_hot_2d leb (F:=Q) rows)) /\
  (forall (A : Type) (leb : A -> A -> bool) (seqs : list (list A)),
     one_hot_multi leb (F:=R) seqs = (qt2r (fst (one_hot_multi leb (F:=Q) seqs)), snd (one_hot_multi leb (F:=Q) seqs))).
Proof.
  repeat split; intros.
  - symmetry. apply map_to_forecasting_rows. - symmetry. apply (e_to_forecasting_2d Q2R).
  - apply (e_one_hot Q2R). - apply (e_one_hot_2d Q2R). - apply (e_one_hot_multi Q2R).
Qed.

(* a concrete instance: 6 steps of the Henon map and NARMA of order 3 on 5 inputs, evaluated at R *)
Example Qmaps_henon_example :
  henon_map 4 (Q2R (7#5)%Q) (Q2R (3#10)%Q) (Q2R 0%Q) (Q2R 0%Q)
  = Some (qm2r [[0%Q; 0%Q]; [1%Q; 0%Q]; [(-2#5)%Q; (3#10)%Q]; [(269#250)%Q; (-3#25)%Q]]).
Proof. destruct Qmaps_embed as (_ & Hh & _). rewrite Hh. vm_compute (henon_map 4 (7#5)%Q (3#10)%Q 0%Q 0%Q). reflexivity. Qed.
Example Qmaps_narma_example :
  narma 3 2 (Q2R (3#10)%Q) (Q2R (1#20)%Q) (Q2R (3#2)%Q) (Q2R (1#10)%Q) (qv2r [(1#2)%Q; (1#4)%Q]) (qv2r [(1#2)%Q; (1#4)%Q; (1#2)%Q; (1#8)%Q; (1#4)%Q])
  = qm2r (narma 3 2 (3#10)%Q (1#20)%Q (3#2)%Q (1#10)%Q [(1#2)%Q; (1#4)%Q] [(1#2)%Q; (1#4)%Q; (1#2)%Q; (1#8)%Q; (1#4)%Q]).
Proof. destruct Qmaps_embed as (_ & _ & Hn & _). apply Hn. Qed.

(* ================================================================== the verdict of the correspondence runner, read at R *)
From RV Require Import run.RunC20.

Definition trclose (m o : list (list (list R))) : Prop := Forall2 mrclose m o.
Lemma tclose_trclose (m o : list (list (list Q))) : tclose m o = true <-> trclose (qt2r m) (qt2r o).
Proof.
  revert o. induction m as [|a m IH]; intros [|b o]; cbn; split; intros Hx; try discriminate; try constructor; try (inversion Hx; fail).
  - apply andb_true_iff in Hx. apply mclose_mrclose, Hx.
  - apply andb_true_iff in Hx. apply IH, Hx.
  - inversion Hx; subst. apply andb_true_iff. split; [apply mclose_mrclose | apply IH]; assumption.
Qed.

(* generic over the label type: the runner's one_hot tests (Z and string labels are instances) *)
Lemma chk_onehot_R {A} (leb eqb : A -> A -> bool) (labels : list A) (enc : list (list Q)) (cls : list A) :
  (let '(e, c) := one_hot (F:=Q) leb labels in mclose e enc && list_eqb eqb c cls) = true ->
  mrclose (fst (one_hot (F:=R) leb labels)) (qm2r enc) /\ list_eqb eqb (snd (one_hot (F:=R) leb labels)) cls = true.
Proof.
  rewrite (e_one_hot Q2R). destruct (one_hot (F:=Q) leb labels) as [e c]. cbn [fst snd]. intros Hx.
  apply andb_true_iff in Hx. split; [apply mclose_mrclose|]; apply Hx.
Qed.
Lemma chk_onehot_multi_R {A} (leb eqb : A -> A -> bool) (seqs : list (list A)) (enc : list (list (list Q))) (cls : list A) :
  (let '(e, c) := one_hot_multi (F:=Q) leb seqs in tclose e enc && list_eqb eqb c cls) = true ->
  trclose (fst (one_hot_multi (F:=R) leb seqs)) (qt2r enc) /\ list_eqb eqb (snd (one_hot_multi (F:=R) leb seqs)) cls = true.
Proof.
  rewrite (e_one_hot_multi Q2R). destruct (one_hot_multi (F:=Q) leb seqs) as [e c]. cbn [fst snd]. intros Hx.
  apply andb_true_iff in Hx. split; [apply tclose_trclose|]; apply Hx.
Qed.
Lemma chk_onehot_col_R {A} (leb eqb : A -> A -> bool) (rows : list (list A)) (enc : list (list Q)) (cls : list A) :
  match one_hot_2d (F:=Q) leb rows with (inl e, c) => mclose e enc && list_eqb eqb c cls | _ => false end = true ->
  exists e, one_hot_2d (F:=R) leb rows = (inl e, snd (one_hot_2d (F:=R) leb rows)) /\ mrclose e (qm2r enc)
            /\ list_eqb eqb (snd (one_hot_2d (F:=R) leb rows)) cls = true.
Proof.
  rewrite (e_one_hot_2d Q2R). destruct (one_hot_2d (F:=Q) leb rows) as [[e|t] c]; [|discriminate]. unfold e2d. cbn [fst snd].
  intros Hx. apply andb_true_iff in Hx. exists (qm2r e). split; [reflexivity|]. split; [apply mclose_mrclose|]; apply Hx.
Qed.
Lemma chk_onehot_grid_R {A} (leb eqb : A -> A -> bool) (rows : list (list A)) (enc : list (list (list Q))) (cls : list A) :
  match one_hot_2d (F:=Q) leb rows with (inr e, c) => tclose e enc && list_eqb eqb c cls | _ => false end = true ->
  exists e, one_hot_2d (F:=R) leb rows = (inr e, snd (one_hot_2d (F:=R) leb rows)) /\ trclose e (qt2r enc)
            /\ list_eqb eqb (snd (one_hot_2d (F:=R) leb rows)) cls = true.
Proof.
  rewrite (e_one_hot_2d Q2R). destruct (one_hot_2d (F:=Q) leb rows) as [[e|t] c]; [discriminate|]. unfold e2d. cbn [fst snd].
  intros Hx. apply andb_true_iff in Hx. exists (qt2r t). split; [reflexivity|]. split; [apply tclose_trclose|]; apply Hx.
Qed.

Lemma chk_maps_are_about_R_model :
  (forall n r x0 obs, chk_logistic n r x0 obs = true ->
     exists v, logistic_map n (Q2R r) (Q2R x0) = Some v /\ mrclose v (qm2r obs)) /\
  (forall n r x0, chk_logistic_rejects n r x0 = true -> logistic_map n (Q2R r) (Q2R x0) = None) /\
  (forall n a b x0 y0 obs, chk_henon n a b x0 y0 obs = true ->
     exists v, henon_map n (Q2R a) (Q2R b) (Q2R x0) (Q2R y0) = Some v /\ mrclose v (qm2r obs)) /\
  (forall n order a1 a2 b c x0 u obs, chk_narma n order a1 a2 b c x0 u obs = true ->
     mrclose (narma n order (Q2R a1) (Q2R a2) (Q2R b) (Q2R c) (qv2r x0) (qv2r u)) (qm2r obs)).
Proof.
  destruct Qmaps_embed as (Hl & Hh & Hn & _).
  split; [|split; [|split]].
  - intros n r x0 obs. unfold chk_logistic. rewrite Hl. destruct (logistic_map n r x0) as [v|]; cbn; [|discriminate].
    intros Hx. exists (qm2r v). split; [reflexivity | apply mclose_mrclose, Hx].
  - intros n r x0. unfold chk_logistic_rejects. rewrite Hl. destruct (logistic_map n r x0); [discriminate | reflexivity].
  - intros n a b x0 y0 obs. unfold chk_henon. rewrite Hh. destruct (henon_map n a b x0 y0) as [v|]; cbn; [|discriminate].
    intros Hx. exists (qm2r v). split; [reflexivity | apply mclose_mrclose, Hx].
  - intros n order a1 a2 b c x0 u obs. unfold chk_narma. rewrite Hn. apply mclose_mrclose.
Qed.

Lemma chk_helpers_are_about_R_model :
  (forall fc ts series obs, chk_fc1 fc ts series obs = true ->
     exists v, to_forecasting_rows fc ts (qv2r series) = Some v /\ mrclose v (qm2r obs)) /\
  (forall axis fc ts series obs, chk_fc2 axis fc ts series obs = true ->
     exists v, to_forecasting_2d axis fc ts (qm2r series) = Some v /\ trclose v (qt2r obs)) /\
  (forall labels enc cls, chk_onehot_z labels enc cls = true ->
     mrclose (fst (one_hot (F:=R) Z.leb labels)) (qm2r enc) /\ list_eqb Z.eqb (snd (one_hot (F:=R) Z.leb labels)) cls = true) /\
  (forall labels enc cls, chk_onehot_s labels enc cls = true ->
     mrclose (fst (one_hot (F:=R) String.leb labels)) (qm2r enc) /\ list_eqb String.eqb (snd (one_hot (F:=R) String.leb labels)) cls = true) /\
  (forall seqs enc cls, chk_onehot_multi_z seqs enc cls = true ->
     trclose (fst (one_hot_multi (F:=R) Z.leb seqs)) (qt2r enc) /\ list_eqb Z.eqb (snd (one_hot_multi (F:=R) Z.leb seqs)) cls = true) /\
  (forall seqs enc cls, chk_onehot_multi_s seqs enc cls = true ->
     trclose (fst (one_hot_multi (F:=R) String.leb seqs)) (qt2r enc) /\ list_eqb String.eqb (snd (one_hot_multi (F:=R) String.leb seqs)) cls = true) /\
  (forall rows enc cls, chk_onehot_col_z rows enc cls = true ->
     exists e, one_hot_2d (F:=R) Z.leb rows = (inl e, snd (one_hot_2d (F:=R) Z.leb rows)) /\ mrclose e (qm2r enc)
               /\ list_eqb Z.eqb (snd (one_hot_2d (F:=R) Z.leb rows)) cls = true) /\
  (forall rows enc cls, chk_onehot_col_s rows enc cls = true ->
     exists e, one_hot_2d (F:=R) String.leb rows = (inl e, snd (one_hot_2d (F:=R) String.leb rows)) /\ mrclose e (qm2r enc)
               /\ list_eqb String.eqb (snd (one_hot_2d (F:=R) String.leb rows)) cls = true) /\
  (forall rows enc cls, chk_onehot_grid_z rows enc cls = true ->
     exists e, one_hot_2d (F:=R) Z.leb rows = (inr e, snd (one_hot_2d (F:=R) Z.leb rows)) /\ trclose e (qt2r enc)
               /\ list_eqb Z.eqb (snd (one_hot_2d (F:=R) Z.leb rows)) cls = true) /\
  (forall rows enc cls, chk_onehot_grid_s rows enc cls = true ->
     exists e, one_hot_2d (F:=R) String.leb rows = (inr e, snd (one_hot_2d (F:=R) String.leb rows)) /\ trclose e (qt2r enc)
               /\ list_eqb String.eqb (snd (one_hot_2d (F:=R) String.leb rows)) cls = true).
Proof.
  split; [|split; [|split; [|split; [|split; [|split; [|split; [|split; [|split]]]]]]]].
  - intros fc ts series obs. unfold chk_fc1. rewrite <- (map_to_forecasting_rows Q2R).
    destruct (to_forecasting_rows fc ts series) as [v|]; cbn; [|discriminate].
    intros Hx. exists (qm2r v). split; [reflexivity | apply mclose_mrclose, Hx].
  - intros axis fc ts series obs. unfold chk_fc2. rewrite <- (e_to_forecasting_2d Q2R).
    destruct (to_forecasting_2d axis fc ts series) as [v|]; cbn; [|discriminate].
    intros Hx. exists (qt2r v). split; [reflexivity | apply tclose_trclose, Hx].
  - intros labels enc cls. apply chk_onehot_R.
  - intros labels enc cls. apply chk_onehot_R.
  - intros seqs enc cls. apply chk_onehot_multi_R.
  - intros seqs enc cls. apply chk_onehot_multi_R.
  - intros rows enc cls. apply chk_onehot_col_R.
  - intros rows enc cls. apply chk_onehot_col_R.
  - intros rows enc cls. apply chk_onehot_grid_R.
  - intros rows enc cls. apply chk_onehot_grid_R.
Qed.
