(* C17: the fan-in order of graphflow.find_parents_and_children (edges sorted by parent.name + child.name) does not
   depend on the order in which the edges were created: sort_keys is invariant under permutation of its input
   when the keys are pairwise distinct. *)
From Coq Require Import List Bool Permutation OrderedTypeEx.
From Coq Require String.
From RV Require Import base.Num base.LA model.Windows.
Import ListNotations.

Module S := String_as_OT.

Lemma ltb_lt a b : String.ltb a b = true <-> S.lt a b.
Proof.
  unfold String.ltb. rewrite <- S.cmp_lt. unfold S.cmp.
  destruct (String.compare a b); split; intros; try discriminate; auto.
Qed.
Lemma ltb_irrefl a : String.ltb a a = false.
Proof.
  destruct (String.ltb a a) eqn:E; [|reflexivity]. apply ltb_lt in E. exfalso. exact (S.lt_not_eq _ _ E eq_refl).
Qed.
Lemma ltb_trans a b c : String.ltb a b = true -> String.ltb b c = true -> String.ltb a c = true.
Proof. rewrite !ltb_lt. apply S.lt_trans. Qed.
Lemma ltb_asym a b : String.ltb a b = true -> String.ltb b a = false.
Proof.
  intros H1. destruct (String.ltb b a) eqn:H2; [|reflexivity].
  pose proof (ltb_trans _ _ _ H1 H2) as H3. rewrite ltb_irrefl in H3. discriminate.
Qed.
Lemma ltb_total a b : a <> b -> String.ltb a b = true \/ String.ltb b a = true.
Proof.
  intros Hne. unfold String.ltb. rewrite (String.compare_antisym b a).
  destruct (String.compare a b) eqn:E; cbn; auto.
  exfalso. apply Hne. apply String.compare_eq_iff. exact E.
Qed.

Section Sort.
Context {A : Type}.
Notation ins := (fun (p : String.string * A) acc => insert_key (fst p) (snd p) acc).

Lemma insert_commute (k1 k2 : String.string) (a1 a2 : A) : k1 <> k2 -> forall l,
  insert_key k1 a1 (insert_key k2 a2 l) = insert_key k2 a2 (insert_key k1 a1 l).
Proof.
  intros Hne. induction l as [|[k' a'] l IH].
  - cbn. destruct (ltb_total k1 k2 Hne) as [H|H]; rewrite H, (ltb_asym _ _ H); reflexivity.
  - cbn [insert_key].
    destruct (String.ltb k2 k') eqn:E2; destruct (String.ltb k1 k') eqn:E1; cbn [insert_key]; rewrite ?E1, ?E2.
    + destruct (ltb_total k1 k2 Hne) as [H|H]; rewrite H, (ltb_asym _ _ H); cbn [insert_key]; rewrite ?E1, ?E2; reflexivity.
    + (* k2 < k', not k1 < k' : then not k1 < k2 *)
      assert (H12 : String.ltb k1 k2 = false).
      { destruct (String.ltb k1 k2) eqn:H; [|reflexivity]. rewrite (ltb_trans _ _ _ H E2) in E1. discriminate. }
      rewrite H12. reflexivity.
    + assert (H21 : String.ltb k2 k1 = false).
      { destruct (String.ltb k2 k1) eqn:H; [|reflexivity]. rewrite (ltb_trans _ _ _ H E1) in E2. discriminate. }
      rewrite H21. reflexivity.
    + rewrite IH. reflexivity.
Qed.

Theorem sort_keys_perm_invariant (l l' : list (String.string * A)) :
  Permutation l l' -> NoDup (map fst l) -> sort_keys l = sort_keys l'.
Proof.
  unfold sort_keys. induction 1 as [| x l l' HP IH | x y l | l l' l'' HP1 IH1 HP2 IH2]; intros Hnd.
  - reflexivity.
  - cbn. cbn in Hnd. inversion Hnd; subst. rewrite IH by assumption. reflexivity.
  - cbn. cbn in Hnd. inversion Hnd as [|? ? Hy Hnd']; subst. apply insert_commute.
    intros Heq. apply Hy. left. symmetry. exact Heq.
  - rewrite IH1 by assumption. apply IH2.
    eapply Permutation_NoDup; [apply Permutation_map; exact HP1|exact Hnd].
Qed.

Lemma insert_key_perm k (a : A) l : Permutation (insert_key k a l) ((k, a) :: l).
Proof.
  induction l as [|[k' a'] l IH]; cbn; [reflexivity|].
  destruct (String.ltb k k'); [reflexivity|]. rewrite IH. apply perm_swap.
Qed.
Theorem sort_keys_perm (l : list (String.string * A)) : Permutation (sort_keys l) l.
Proof.
  unfold sort_keys. induction l as [|[k a] l IH]; cbn; [reflexivity|].
  rewrite insert_key_perm. apply perm_skip. exact IH.
Qed.
End Sort.

Section Fanin.
Context {F : Type} `{Num F}.
(* whatever the order in which the parents were linked, the child receives the same concatenation,
   and it contains every parent's output exactly once *)
Theorem fanin_concat_order_independent (child : String.string) (ps ps' : list (String.string * list F)) :
  Permutation ps ps' -> NoDup (map (fun p => String.append (fst p) child) ps) ->
  fanin_concat child ps = fanin_concat child ps'.
Proof.
  intros HP Hnd. unfold fanin_concat. f_equal. f_equal. apply sort_keys_perm_invariant.
  - apply Permutation_map. exact HP.
  - rewrite map_map. cbn. exact Hnd.
Qed.
Theorem fanin_concat_each_once (child : String.string) (ps : list (String.string * list F)) :
  Permutation (map snd (sort_keys (map (fun p => (String.append (fst p) child, snd p)) ps))) (map snd ps).
Proof.
  rewrite sort_keys_perm. rewrite map_map. cbn. reflexivity.
Qed.
End Fanin.
