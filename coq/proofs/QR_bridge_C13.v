(* C13: the numeric part of model/MatGen.v run at Q, then embedded in R, IS the same part run at R on the embedded data.

   Part 1 of the model (Initializer.__call__, kwargs, partial applications, the generator heap) contains no numbers of the
   [Num] class: there is no instance gap for it.  Parts 2 and 3 are terms over [Num F]; the theorems of props/C13.v are about
   F := R (C13_sr_scaling, C13_sr_null_not_blown_up, C13_degree_dense_entries) or any F, the correspondence run
   (run/RunC13.v: chk_sr, chk_is_scalar, chk_is_cols, chk_ring, chk_line, chk_degree) evaluates F := Q.
   For every homomorphism [phi] of the class (base/NumHom.v), in particular [Q2R]:
   the null-radius test -eps < rho < eps takes the same branch (strict comparison and opposite are preserved), hence
   [scale_sr] and the pre-fix [scale_sr_prefix] commute with the embedding, division sr/rho included (x/0 = 0 on both sides);
   scalar and per-column input scaling; COO assembly with duplicate summation, [coo_dense], [ring], [line], and the
   [_random_degree] entry lists for either direction and any choice function.  No shape hypothesis, no side condition. *)
From Coq Require Import Reals QArith Qreals List Bool Arith Lra.
From Coq Require String.
From RV Require Import base.Num base.LA base.NumHom model.MatGen.
Import ListNotations.
Close Scope Q_scope.

Lemma map_combine_snd {A B B'} (g : B -> B') (u : list A) (v : list B) :
  map (fun p => (fst p, g (snd p))) (combine u v) = combine u (map g v).
Proof. revert v. induction u as [|a u IH]; intros [|b v]; cbn; try reflexivity. rewrite IH. reflexivity. Qed.

Section BridgeC13.
Context {F G : Type} {NF : Num F} {NG : Num G} (phi : F -> G) {HH : NumHom phi}.
Local Notation ev := (map phi).
Local Notation em := (map (map phi)).

(* ---- Part 2: rescaling ---- *)
Lemma e_null_radius eps rho : null_radius (phi eps) (phi rho) = null_radius eps rho.
Proof. unfold null_radius. rewrite <- (hom_opp phi), <- !(hom_ltb phi). reflexivity. Qed.
Lemma em_scale_sr eps W0 rho sr : em (scale_sr eps W0 rho sr) = scale_sr (phi eps) (em W0) (phi rho) (phi sr).
Proof.
  unfold scale_sr. rewrite e_null_radius. destruct (null_radius eps rho); [reflexivity|].
  rewrite (em_mscale phi), (hom_div phi). reflexivity.
Qed.
Lemma em_scale_sr_prefix eps W0 rho sr : em (scale_sr_prefix eps W0 rho sr) = scale_sr_prefix (phi eps) (em W0) (phi rho) (phi sr).
Proof.
  unfold scale_sr_prefix. cbv zeta. rewrite e_null_radius, (em_mscale phi), (hom_div phi).
  destruct (null_radius eps rho); reflexivity.
Qed.
Lemma em_scale_inputs_scalar s W0 : em (scale_inputs_scalar s W0) = scale_inputs_scalar (phi s) (em W0).
Proof.
  unfold scale_inputs_scalar. rewrite !map_map. apply map_ext. intros row. rewrite !map_map. apply map_ext. intros x. apply (hom_mul phi).
Qed.
Lemma em_scale_inputs_cols s W0 : em (scale_inputs_cols s W0) = scale_inputs_cols (ev s) (em W0).
Proof. unfold scale_inputs_cols. rewrite !map_map. apply map_ext. intros row. apply (ev_vmul phi). Qed.

(* ---- Part 3: COO assembly and the structured matrices ---- *)
Definition ecoo (es : coo (F:=F)) : coo (F:=G) := map (fun e => (fst e, phi (snd e))) es.
Lemma e_coo_make rows cols vals : ecoo (coo_make rows cols vals) = coo_make rows cols (ev vals).
Proof. unfold ecoo, coo_make. apply map_combine_snd. Qed.
Lemma hom_coo_get es i j : phi (coo_get es i j) = coo_get (ecoo es) i j.
Proof.
  unfold coo_get, ecoo. induction es as [|e es IH]; cbn [fold_right map fst snd]; [apply (hom_0 phi)|].
  destruct ((fst (fst e) =? i) && (snd (fst e) =? j)); [rewrite (hom_add phi), IH; reflexivity | exact IH].
Qed.
Lemma em_coo_dense m n es : em (coo_dense m n es) = coo_dense m n (ecoo es).
Proof.
  unfold coo_dense. rewrite map_map. apply map_ext. intros i. rewrite map_map. apply map_ext. intros j. apply hom_coo_get.
Qed.
Lemma ecoo_rows es : map (fun e => fst (fst e)) (ecoo es) = map (fun e => fst (fst e)) es.
Proof. unfold ecoo. rewrite map_map. reflexivity. Qed.
Lemma ecoo_cols es : map (fun e => snd (fst e)) (ecoo es) = map (fun e => snd (fst e)) es.
Proof. unfold ecoo. rewrite map_map. reflexivity. Qed.
Lemma em_ring n w : em (ring n w) = ring n (ev w).
Proof. unfold ring, ring_coo. rewrite em_coo_dense, e_coo_make. reflexivity. Qed.
Lemma em_line n w : em (line n w) = line n (ev w).
Proof. unfold line, line_coo. rewrite em_coo_dense, e_coo_make. reflexivity. Qed.
Lemma e_degree_coo_out choice n d vals : ecoo (degree_coo_out choice n d vals) = degree_coo_out choice n d (ev vals).
Proof. unfold degree_coo_out. apply e_coo_make. Qed.
Lemma e_degree_coo_in choice m d vals : ecoo (degree_coo_in choice m d vals) = degree_coo_in choice m d (ev vals).
Proof. unfold degree_coo_in. apply e_coo_make. Qed.
End BridgeC13.

(* ================================================================== the instance Q -> R *)
Notation qcoo2r := (ecoo Q2R).

Lemma Qscaling_embed :
  (forall (eps : Q) (W0 : list (list Q)) (rho sr : Q),
     scale_sr (Q2R eps) (qm2r W0) (Q2R rho) (Q2R sr) = qm2r (scale_sr eps W0 rho sr) /\
     scale_sr_prefix (Q2R eps) (qm2r W0) (Q2R rho) (Q2R sr) = qm2r (scale_sr_prefix eps W0 rho sr) /\
     null_radius (Q2R eps) (Q2R rho) = null_radius eps rho) /\
  (forall (s : Q) (W0 : list (list Q)), scale_inputs_scalar (Q2R s) (qm2r W0) = qm2r (scale_inputs_scalar s W0)) /\
  (forall (s : list Q) (W0 : list (list Q)), scale_inputs_cols (qv2r s) (qm2r W0) = qm2r (scale_inputs_cols s W0)).
Proof.
  split; [|split]; intros.
  - split; [|split]; [symmetry; apply (em_scale_sr Q2R) | symmetry; apply (em_scale_sr_prefix Q2R) | apply (e_null_radius Q2R)].
  - symmetry. apply (em_scale_inputs_scalar Q2R).
  - symmetry. apply (em_scale_inputs_cols Q2R).
Qed.

Lemma Qstructured_embed :
  (forall (n : nat) (w : list Q), ring n (qv2r w) = qm2r (ring n w) /\ line n (qv2r w) = qm2r (line n w)) /\
  (forall (m n : nat) (es : coo (F:=Q)), coo_dense m n (qcoo2r es) = qm2r (coo_dense m n es)) /\
  (forall (choice : nat -> list nat) (k d : nat) (vals : list Q),
     degree_coo_out choice k d (qv2r vals) = qcoo2r (degree_coo_out choice k d vals) /\
     degree_coo_in choice k d (qv2r vals) = qcoo2r (degree_coo_in choice k d vals)).
Proof.
  split; [|split]; intros.
  - split; symmetry; [apply (em_ring Q2R) | apply (em_line Q2R)].
  - symmetry. apply (em_coo_dense Q2R).
  - split; symmetry; [apply (e_degree_coo_out Q2R) | apply (e_degree_coo_in Q2R)].
Qed.

(* mat_gen._epsilon at R *)
Lemma Q2R_eps8 : Q2R (1 # 100000000)%Q = (1 / 100000000)%R.
Proof. unfold Q2R. cbn. lra. Qed.

(* a concrete instance: a 2x2 draw of estimated radius 3/2 rescaled to sr = 9/10; a nilpotent draw of estimated radius 0
   left as drawn; a COO list with a duplicate entry, summed *)
Example Qscaling_example :
  scale_sr (Q2R (1 # 100000000)%Q) (qm2r [[(1#2)%Q; (-3#1)%Q]; [(1#4)%Q; (1#1)%Q]]) (Q2R (3#2)%Q) (Q2R (9#10)%Q)
    = qm2r [[(3#10)%Q; (-9#5)%Q]; [(3#20)%Q; (3#5)%Q]] /\
  scale_sr (Q2R (1 # 100000000)%Q) (qm2r [[0%Q; 1%Q]; [0%Q; 0%Q]]) (Q2R 0%Q) (Q2R (9#10)%Q) = qm2r [[0%Q; 1%Q]; [0%Q; 0%Q]] /\
  coo_dense 2 2 (qcoo2r [((0, 1), (1#2)%Q); ((1, 0), (3#1)%Q); ((0, 1), (1#4)%Q)]) = qm2r [[0%Q; (3#4)%Q]; [(3#1)%Q; 0%Q]].
Proof.
  destruct Qscaling_embed as (Hs & _). destruct Qstructured_embed as (_ & Hc & _).
  rewrite (proj1 (Hs _ _ _ _)), (proj1 (Hs _ _ _ _)), Hc. repeat split.
Qed.

(* ================================================================== the verdict of the correspondence runner, read at R *)
From RV Require Import run.RunC13.

Lemma chk_matgen_is_about_R_model :
  (forall W0 rho sr obs, chk_sr W0 rho sr obs = true ->
     mrclose (scale_sr (1 / 100000000)%R (qm2r W0) (Q2R rho) (Q2R sr)) (qm2r obs)) /\
  (forall W0 s obs, chk_is_scalar W0 s obs = true -> mrclose (scale_inputs_scalar (Q2R s) (qm2r W0)) (qm2r obs)) /\
  (forall W0 s obs, chk_is_cols W0 s obs = true -> mrclose (scale_inputs_cols (qv2r s) (qm2r W0)) (qm2r obs)) /\
  (forall n w obs, chk_ring n w obs = true -> mrclose (ring n (qv2r w)) (qm2r obs)) /\
  (forall n w obs, chk_line n w obs = true -> mrclose (line n (qv2r w)) (qm2r obs)) /\
  (forall out m n d choices vals obs_rows obs_cols obs, chk_degree out m n d choices vals obs_rows obs_cols obs = true ->
     let ch := fun k => nth k choices [] in
     let esR := if out then degree_coo_out (F:=R) ch n d (qv2r vals) else degree_coo_in (F:=R) ch m d (qv2r vals) in
     forallb (choice_okb (if out then m else n) d) choices = true /\
     (length choices =? (if out then n else m)) = true /\
     lnat_eqb (map (fun e => fst (fst e)) esR) obs_rows = true /\
     lnat_eqb (map (fun e => snd (fst e)) esR) obs_cols = true /\
     mrclose (coo_dense m n esR) (qm2r obs)).
Proof.
  destruct Qscaling_embed as (Hs & Hi & Hc). destruct Qstructured_embed as (Hr & Hd & Hg).
  split; [|split; [|split; [|split; [|split]]]].
  - intros W0 rho sr obs. unfold chk_sr. rewrite <- Q2R_eps8. fold eps8. rewrite (proj1 (Hs eps8 W0 rho sr)). apply mclose_mrclose.
  - intros W0 s obs. unfold chk_is_scalar. rewrite Hi. apply mclose_mrclose.
  - intros W0 s obs. unfold chk_is_cols. rewrite Hc. apply mclose_mrclose.
  - intros n w obs. unfold chk_ring. rewrite (proj1 (Hr n w)). apply mclose_mrclose.
  - intros n w obs. unfold chk_line. rewrite (proj2 (Hr n w)). apply mclose_mrclose.
  - intros out m n d choices vals orows ocols obs. unfold chk_degree. cbv zeta. intros Hx.
    repeat (apply andb_true_iff in Hx; destruct Hx as [Hx ?]).
    destruct out.
    + rewrite (proj1 (Hg _ _ _ _)), Hd, (ecoo_rows Q2R), (ecoo_cols Q2R). repeat split; try assumption. apply mclose_mrclose. assumption.
    + rewrite (proj2 (Hg _ _ _ _)), Hd, (ecoo_rows Q2R), (ecoo_cols Q2R). repeat split; try assumption. apply mclose_mrclose. assumption.
Qed.
