(* C02 / C05 / C07 / C08: the framework model run at Q, then embedded in R, IS the framework model run at R on the embedded data.

   model/ModelSem.v (the tidy state machine), model/ProxySem.v (the low-level proxy / clamp mechanism) and model/Kinds.v (the
   forward functions of the node kinds of the scenario language) are single terms over [Num F].  The theorems of props/C02.v,
   C05.v, C07.v, C08.v are about every instance (in particular R); the correspondence run of these four properties evaluates
   ONE shared runner, run/RunModel.v ([chk_hist_both] = [chk_hist] on ModelSem && [chk_hist_ll] on ProxySem), at F := Q.

   Here, for every homomorphism [phi] of the class (base/NumHom.v), in particular [Q2R]:
   (a) every node kind of Kinds.v commutes with the entry-wise embedding of (state, hidden memory, input, feedback) -- affine,
       accumulator, identity, Reservoir internal / external / with feedback (per-unit leak, the four exactly computable
       activations: [actk] has no table-replayed activation, so there is NO side condition on activations), Ridge forward,
       feedback adder, Delay, NVAR, and the failing node (its call counter and the comparison that makes it raise);
   (b) every function of ModelSem (gather, fbvalue, call_node, forward, clamps / proxies, step, run_steps, start_env,
       restore_st, run_op, reset_op) and of ProxySem (state_proxy, load / clean_proxys, fb_read, call_node_ll, forward_ll,
       fb_enter / fb_exit / with_feedback_ll, step_ll, run_steps_ll, run_ll, start_env_ll, restore_lst, run_op_ll,
       call_op_ll, reset_op_ll) maps related models, related environments and related inputs to related results with the
       SAME success flag -- including the [None] of a failing node and the stateful / reset / from_state flags.
       Environments ([nat -> nstate], [nat -> lnode]), inputs, forced feedback and from_state ([nat -> option vec]) are related
       POINT-WISE ([env_rel], [opt_rel]), so no functional extensionality is used; models are related node by node
       ([m_rel]: same ids, feedback sources, dimensions, fan-in and outputs; forward functions related by [fwd_rel]);
   (c) [chk_hist_is_about_R_model], [chk_hist_ll_is_about_R_model], [chk_hist_both_is_about_R_model]: a verdict [true] of the
       runner implies that the R-instance history (run_op / call_op_ll / reset_op ... of the R-model on the embedded data, from the
       embedded initial environment) has, operation by operation, the observed success flag, outputs within
       1e-9*max(1,|model|) of the observed ones when it succeeds, node states within the tolerance of the observed ones, and
       (low level) the observed at-rest flag.
   No shape hypothesis, no side condition. *)
From Coq Require Import Reals QArith Qreals List Bool Arith ZArith.
From RV Require Import base.Num base.LA base.NumHom model.Windows model.ModelSem model.ProxySem model.Kinds proofs.QR_bridge_C17.
Import ListNotations.
Close Scope Q_scope.

Section BridgeModel.
Context {F G : Type} {NF : Num F} {NG : Num G} (phi : F -> G) {HH : NumHom phi}.
Local Notation ev := (map phi).
Local Notation em := (map (map phi)).

(* ================================================================== (a) the node kinds *)
Definition ekind (k : @kind F) : @kind G :=
  match k with
  | KFun a b => KFun (phi a) (phi b)
  | KAcc => KAcc
  | KId => KId
  | KRes W Win bias lr f => KRes (em W) (em Win) (ev bias) (ev lr) f
  | KResExt W Win bias lr f => KResExt (em W) (em Win) (ev bias) (ev lr) f
  | KResFb W Win bias lr f Wfb g => KResFb (em W) (em Win) (ev bias) (ev lr) f (em Wfb) g
  | KLin Wout bias => KLin (em Wout) (ev bias)
  | KFbAdd c => KFbAdd (phi c)
  | KDelay => KDelay
  | KNvar o s => KNvar o s
  | KBoom k => KBoom k
  end.
(* result of a forward function *)
Definition eres (r : option (list F * @hidden F)) : option (list G * @hidden G) :=
  option_map (fun p => (ev (fst p), em (snd p))) r.

Lemma hom_act1 a x : phi (act1 a x) = act1 a (phi x).
Proof.
  destruct a; cbn [act1].
  - reflexivity.
  - rewrite (hom_ltb phi x n0), (hom_0 phi). destruct (nltb (phi x) n0); [apply (hom_0 phi) | reflexivity].
  - rewrite (hom_ltb phi x (nopp n1)), (hom_ltb phi n1 x), (hom_opp phi), (hom_1 phi).
    destruct (nltb (phi x) (nopp n1)); [rewrite (hom_opp phi), (hom_1 phi); reflexivity|].
    destruct (nltb n1 (phi x)); [apply (hom_1 phi) | reflexivity].
  - rewrite (hom_div phi), (hom_add phi), (hom_1 phi). reflexivity.
Qed.
Lemma ev_act a v : ev (act a v) = act a (ev v).
Proof. unfold act. rewrite !map_map. apply map_ext. intros; apply hom_act1. Qed.
Lemma ev_leak lr r fx : ev (leak lr r fx) = leak (ev lr) (ev r) (ev fx).
Proof.
  unfold leak. rewrite (ev_vadd phi), !(ev_vmul phi). do 2 f_equal.
  rewrite !map_map. apply map_ext. intros l. rewrite (hom_sub phi), (hom_1 phi). reflexivity.
Qed.
Lemma ev_kernel W Win bias r u : ev (kernel W Win bias r u) = kernel (em W) (em Win) (ev bias) (ev r) (ev u).
Proof. unfold kernel. rewrite !(ev_vadd phi), !(ev_mv phi). reflexivity. Qed.
Lemma hom_nat_to_F n : phi (nat_to_F n) = nat_to_F n.
Proof. apply (hom_ofZ phi). Qed.

Theorem e_kfwd (k : @kind F) s h x fb :
  kfwd (ekind k) (ev s) (em h) (ev x) (option_map ev fb) = eres (kfwd k s h x fb).
Proof.
  destruct k; cbn [ekind kfwd eres option_map fst snd].
  - (* KFun *) do 2 f_equal. rewrite !map_map. apply map_ext. intros v. rewrite (hom_add phi), (hom_mul phi). reflexivity.
  - (* KAcc *) rewrite (ev_vadd phi). reflexivity.
  - (* KId *) reflexivity.
  - (* KRes *) rewrite ev_leak, ev_act, ev_kernel. reflexivity.
  - (* KResExt *)
    assert (E : match em h with i :: _ => i | [] => vzeros (length (ev s)) end
                = ev (match h with i :: _ => i | [] => vzeros (length s) end)).
    { destruct h; cbn [map]; [|reflexivity]. rewrite (ev_vzeros phi), map_length. reflexivity. }
    rewrite E, <- ev_kernel, <- ev_leak, <- ev_act. reflexivity.
  - (* KResFb *)
    destruct fb as [y|]; cbn [option_map eres fst snd]; [|reflexivity].
    rewrite ev_leak, ev_act, (ev_vadd phi), ev_kernel, (ev_mv phi), ev_act. reflexivity.
  - (* KLin *) rewrite (ev_vadd phi), (ev_vm phi), map_length. reflexivity.
  - (* KFbAdd *)
    destruct fb as [y|]; cbn [option_map eres fst snd]; [|reflexivity].
    rewrite (ev_vadd phi), (ev_vscale phi). reflexivity.
  - (* KDelay *)
    rewrite <- (e_delay_step phi). destruct (delay_step h x) as [b o]. reflexivity.
  - (* KNvar *)
    rewrite <- (e_nvar_step phi). destruct (nvar_step order strides h x) as [s' o]. reflexivity.
  - (* KBoom *)
    assert (E : match em h with (c0 :: _) :: _ => c0 | _ => n0 end = phi (match h with (c0 :: _) :: _ => c0 | _ => n0 end)).
    { destruct h as [|[|c0 r] h']; cbn [map]; try reflexivity; symmetry; apply (hom_0 phi). }
    rewrite E, <- (hom_1 phi), <- (hom_add phi), <- !hom_nat_to_F, <- !(hom_leb phi).
    match goal with |- context [if ?b then _ else _] => destruct b end; cbn [option_map eres fst snd]; [reflexivity|].
    rewrite (ev_vadd phi). reflexivity.
Qed.

(* ================================================================== (b1) model/ModelSem.v *)
Definition ens (s : @nstate F) : @nstate G := mkNS (ev (st s)) (em (hid s)).
(* point-wise relations: no functional extensionality anywhere *)
Definition env_rel (e : @env F) (e' : @env G) : Prop := forall n, e' n = ens (e n).
Definition opt_rel (x : nat -> option (list F)) (x' : nat -> option (list G)) : Prop := forall n, x' n = option_map ev (x n).
Definition fwd_rel (f : list F -> @hidden F -> list F -> option (list F) -> option (list F * @hidden F))
                   (f' : list G -> @hidden G -> list G -> option (list G) -> option (list G * @hidden G)) : Prop :=
  forall s h x fb, f' (ev s) (em h) (ev x) (option_map ev fb) = eres (f s h x fb).
Definition nd_rel (d : @ndesc F) (d' : @ndesc G) : Prop :=
  nid d' = nid d /\ nfb d' = nfb d /\ odim d' = odim d /\ fwd_rel (nfwd d) (nfwd d').
Definition m_rel (m : @model F) (m' : @model G) : Prop :=
  Forall2 nd_rel (order m) (order m') /\ (forall n, parents m' n = parents m n) /\ outputs m' = outputs m.
Definition steps_rel (l : list ((nat -> option (list F)) * (nat -> option (list F))))
                     (l' : list ((nat -> option (list G)) * (nat -> option (list G)))) : Prop :=
  Forall2 (fun p p' => opt_rel (fst p) (fst p') /\ opt_rel (snd p) (snd p')) l l'.
(* results: (environment, success) and (environment, outputs, success) *)
Definition res2_rel (r : @env F * bool) (r' : @env G * bool) : Prop := env_rel (fst r) (fst r') /\ snd r' = snd r.
Definition res3_rel (r : @env F * list (list (list F)) * bool) (r' : @env G * list (list (list G)) * bool) : Prop :=
  env_rel (fst (fst r)) (fst (fst r')) /\ snd (fst r') = map em (snd (fst r)) /\ snd r' = snd r.

Lemma kfwd_rel k : fwd_rel (kfwd k) (kfwd (ekind k)).
Proof. intros s h x fb. apply e_kfwd. Qed.

Lemma upd_rel e e' n s s' : env_rel e e' -> s' = ens s -> env_rel (upd e n s) (upd e' n s').
Proof. intros He Hs k. unfold upd. destruct (Nat.eqb k n); [exact Hs | apply He]. Qed.
Lemma set_st_rel e e' n v : env_rel e e' -> env_rel (set_st e n v) (set_st e' n (ev v)).
Proof. intros He. unfold set_st. apply upd_rel; [exact He|]. rewrite (He n). reflexivity. Qed.
Lemma st_rel e e' n : env_rel e e' -> st (e' n) = ev (st (e n)).
Proof. intros He. rewrite (He n). reflexivity. Qed.
Lemma hid_rel e e' n : env_rel e e' -> hid (e' n) = em (hid (e n)).
Proof. intros He. rewrite (He n). reflexivity. Qed.
Lemma concat_st_rel e e' l : env_rel e e' -> concat (map (fun p => st (e' p)) l) = ev (concat (map (fun p => st (e p)) l)).
Proof. intros He. rewrite concat_map, map_map. f_equal. apply map_ext. intros p. apply st_rel, He. Qed.

Lemma gather_rel m m' e e' ext ext' n :
  m_rel m m' -> env_rel e e' -> opt_rel ext ext' -> gather m' e' ext' n = ev (gather m e ext n).
Proof.
  intros (_ & Hp & _) He Hx. unfold gather. rewrite map_app, Hp, (concat_st_rel e e' _ He), (Hx n).
  destruct (ext n); reflexivity.
Qed.
Lemma fbvalue_rel d d' prev prev' clamp clamp' :
  nd_rel d d' -> env_rel prev prev' -> opt_rel clamp clamp' -> fbvalue d' prev' clamp' = option_map ev (fbvalue d prev clamp).
Proof.
  intros (Hi & Hf & _) He Hc. unfold fbvalue. rewrite Hf, Hi, (Hc (nid d)).
  destruct (nfb d) as [src|]; [|reflexivity]. destruct (clamp (nid d)); cbn [option_map]; [reflexivity|].
  destruct src; [rewrite (st_rel _ _ s He) | rewrite (concat_st_rel _ _ outs He)]; reflexivity.
Qed.
Lemma call_node_rel m m' prev prev' clamp clamp' ext ext' e e' d d' :
  m_rel m m' -> env_rel prev prev' -> opt_rel clamp clamp' -> opt_rel ext ext' -> env_rel e e' -> nd_rel d d' ->
  res2_rel (call_node m prev clamp ext e d) (call_node m' prev' clamp' ext' e' d').
Proof.
  intros Hm Hp Hc Hx He Hd. unfold call_node.
  rewrite (fbvalue_rel d d' prev prev' clamp clamp' Hd Hp Hc).
  destruct Hd as (Hi & _ & _ & Hf). rewrite Hi, (gather_rel m m' e e' ext ext' _ Hm He Hx), (st_rel _ _ _ He), (hid_rel _ _ _ He), Hf.
  destruct (nfwd d _ _ _ _) as [[s1 h1]|]; cbn [eres option_map fst snd].
  - split; [|reflexivity]. cbn [fst]. apply upd_rel; [exact He | reflexivity].
  - split; [exact He | reflexivity].
Qed.
Lemma forward_from_rel m m' prev prev' clamp clamp' ext ext' ds ds' :
  m_rel m m' -> env_rel prev prev' -> opt_rel clamp clamp' -> opt_rel ext ext' -> Forall2 nd_rel ds ds' ->
  forall e e', env_rel e e' -> res2_rel (forward_from m prev clamp ext ds e) (forward_from m' prev' clamp' ext' ds' e').
Proof.
  intros Hm Hp Hc Hx Hds. induction Hds as [|d d' ds ds' Hd _ IH]; intros e e' He; cbn [forward_from].
  - split; [exact He | reflexivity].
  - pose proof (call_node_rel m m' prev prev' clamp clamp' ext ext' e e' d d' Hm Hp Hc Hx He Hd) as (H1 & H2).
    destruct (call_node m prev clamp ext e d) as [e1 ok], (call_node m' prev' clamp' ext' e' d') as [e1' ok'].
    cbn [fst snd] in H1, H2. subst ok'. destruct ok; [apply IH, H1 | split; [exact H1 | reflexivity]].
Qed.
Lemma forward_rel m m' prev prev' clamp clamp' ext ext' e e' :
  m_rel m m' -> env_rel prev prev' -> opt_rel clamp clamp' -> opt_rel ext ext' -> env_rel e e' ->
  res2_rel (forward m prev clamp ext e) (forward m' prev' clamp' ext' e').
Proof. intros Hm Hp Hc Hx He. apply forward_from_rel; try assumption. apply Hm. Qed.

(* the node found under an id *)
Lemma find_nd_rel ds ds' n : Forall2 nd_rel ds ds' ->
  match find (fun d => Nat.eqb (nid d) n) ds, find (fun d => Nat.eqb (nid d) n) ds' with
  | Some d, Some d' => nd_rel d d'
  | None, None => True
  | _, _ => False
  end.
Proof.
  induction 1 as [|d d' ds ds' Hd _ IH]; cbn [find]; [exact I|].
  destruct Hd as (Hi & Hr). rewrite Hi. destruct (Nat.eqb (nid d) n); [split; assumption | exact IH].
Qed.
Lemma forced_value_rel forced forced' d d' : opt_rel forced forced' -> nd_rel d d' ->
  forced_value forced' d' = option_map ev (forced_value forced d).
Proof.
  intros Hf (Hi & Hb & _). unfold forced_value. rewrite Hi, Hb, (Hf (nid d)).
  destruct (forced (nid d)); cbn [option_map]; [reflexivity|].
  destruct (nfb d) as [[s|outs]|]; try reflexivity. apply Hf.
Qed.
Lemma clamps_rel m m' forced forced' : m_rel m m' -> opt_rel forced forced' -> opt_rel (clamps m forced) (clamps m' forced').
Proof.
  intros (Ho & _) Hf n. unfold clamps. pose proof (find_nd_rel _ _ n Ho) as Hd.
  destruct (find _ (order m)) as [d|], (find _ (order m')) as [d'|]; try contradiction; [|reflexivity].
  pose proof (forced_value_rel forced forced' d d' Hf Hd) as Hv. destruct Hd as (_ & Hb & _). rewrite Hb.
  destruct (nfb d); [exact Hv | reflexivity].
Qed.
Lemma proxies_rel m m' forced forced' prev prev' :
  m_rel m m' -> opt_rel forced forced' -> env_rel prev prev' -> env_rel (proxies m forced prev) (proxies m' forced' prev').
Proof.
  intros (Ho & _) Hf He n. unfold proxies. pose proof (find_nd_rel _ _ n Ho) as Hd.
  destruct (find _ (order m)) as [d|], (find _ (order m')) as [d'|]; try contradiction; [|apply He].
  destruct Hd as (_ & Hb & _). rewrite Hb, (Hf n). destruct (nfb d); [apply He|].
  destruct (forced n); cbn [option_map]; [|apply He]. unfold ens. cbn [st hid]. rewrite (hid_rel _ _ n He). reflexivity.
Qed.
Lemma step_rel m m' forced forced' ext ext' e e' :
  m_rel m m' -> opt_rel forced forced' -> opt_rel ext ext' -> env_rel e e' ->
  res2_rel (step m forced ext e) (step m' forced' ext' e').
Proof.
  intros Hm Hf Hx He. unfold step. apply forward_rel; try assumption.
  - apply proxies_rel; assumption.
  - apply clamps_rel; assumption.
Qed.
Lemma out_states_rel m m' e e' : m_rel m m' -> env_rel e e' -> out_states m' e' = em (out_states m e).
Proof. intros (_ & _ & Ho) He. unfold out_states. rewrite Ho, map_map. apply map_ext. intros o. apply st_rel, He. Qed.
Lemma run_steps_rel m m' steps steps' : m_rel m m' -> steps_rel steps steps' ->
  forall e e', env_rel e e' -> res3_rel (run_steps m steps e) (run_steps m' steps' e').
Proof.
  intros Hm Hs. induction Hs as [|[ext forced] [ext' forced'] steps steps' (Hx & Hf) _ IH]; intros e e' He; cbn [run_steps].
  - repeat split; [exact He].
  - cbn [fst snd] in Hx, Hf.
    pose proof (step_rel m m' forced forced' ext ext' e e' Hm Hf Hx He) as (H1 & H2).
    destruct (step m forced ext e) as [e1 ok], (step m' forced' ext' e') as [e1' ok']. cbn [fst snd] in H1, H2. subst ok'.
    destruct ok; [|repeat split; exact H1].
    pose proof (IH e1 e1' H1) as (I1 & I2 & I3).
    destruct (run_steps m steps e1) as [[e2 outs] ok2], (run_steps m' steps' e1') as [[e2' outs'] ok2'].
    cbn [fst snd] in *. subst. repeat split; [exact I1|]. cbn [fst snd map]. rewrite (out_states_rel m m' e1 e1' Hm H1). reflexivity.
Qed.

(* dispatch of the forced feedback of a sequence *)
Lemma em_dispatch_fb b z ys : em (dispatch_fb b z ys) = dispatch_fb b (ev z) (em ys).
Proof.
  unfold dispatch_fb. destruct b; [|reflexivity]. unfold shift_with. destruct ys as [|y ys]; [reflexivity|].
  cbn [map]. f_equal. apply (map_removelast (map phi) (y :: ys)).
Qed.

Lemma restore_st_rel ids snap snap' : env_rel snap snap' ->
  forall e e', env_rel e e' -> env_rel (restore_st ids snap e) (restore_st ids snap' e').
Proof.
  intros Hs. unfold restore_st. induction ids as [|n ids IH]; intros e e' He; cbn [fold_left]; [exact He|].
  apply IH. rewrite (st_rel _ _ n Hs). apply set_st_rel, He.
Qed.
Lemma ids_of_rel m m' : m_rel m m' -> ids_of m' = ids_of m.
Proof.
  intros (Ho & _). unfold ids_of. induction Ho as [|d d' ds ds' Hd _ IH]; cbn [map]; [reflexivity|].
  destruct Hd as (Hi & _). rewrite Hi, IH. reflexivity.
Qed.
Lemma start_env_rel m m' reset from from' : m_rel m m' -> opt_rel from from' ->
  forall e e', env_rel e e' -> env_rel (start_env m reset from e) (start_env m' reset from' e').
Proof.
  intros (Ho & _) Hf. unfold start_env. induction Ho as [|d d' ds ds' Hd _ IH]; intros e e' He; cbn [fold_left]; [exact He|].
  apply IH. destruct Hd as (Hi & _ & Hod & _). rewrite Hi, Hod, (Hf (nid d)).
  destruct (from (nid d)); cbn [option_map]; [apply set_st_rel, He|].
  destruct reset; [|exact He]. rewrite <- (ev_vzeros phi). apply set_st_rel, He.
Qed.
Lemma run_op_rel m m' stateful reset from from' steps steps' e e' :
  m_rel m m' -> opt_rel from from' -> steps_rel steps steps' -> env_rel e e' ->
  res3_rel (run_op m stateful reset from steps e) (run_op m' stateful reset from' steps' e').
Proof.
  intros Hm Hf Hs He. unfold run_op.
  pose proof (run_steps_rel m m' steps steps' Hm Hs _ _ (start_env_rel m m' reset from from' Hm Hf e e' He)) as (H1 & H2 & H3).
  destruct (run_steps m steps _) as [[e1 outs] ok], (run_steps m' steps' _) as [[e1' outs'] ok']. cbn [fst snd] in *.
  repeat split; cbn [fst snd]; try assumption.
  destruct stateful; [exact H1|]. rewrite (ids_of_rel m m' Hm). apply restore_st_rel; assumption.
Qed.
Lemma reset_op_rel m m' : m_rel m m' -> forall e e', env_rel e e' -> env_rel (reset_op m e) (reset_op m' e').
Proof.
  intros (Ho & _). unfold reset_op. induction Ho as [|d d' ds ds' Hd _ IH]; intros e e' He; cbn [fold_left]; [exact He|].
  apply IH. destruct Hd as (Hi & _ & Hod & _). rewrite Hi, Hod, <- (ev_vzeros phi). apply set_st_rel, He.
Qed.

(* ================================================================== (b2) model/ProxySem.v *)
Definition eln (x : @lnode F) : @lnode G := mkLN (ev (lst x)) (em (lhid x)) (option_map ev (proxy x)) (option_map ev (clamp x)).
Definition lenv_rel (e : @lenv F) (e' : @lenv G) : Prop := forall n, e' n = eln (e n).
Definition lres2_rel (r : @lenv F * bool) (r' : @lenv G * bool) : Prop := lenv_rel (fst r) (fst r') /\ snd r' = snd r.
Definition lres3_rel (r : @lenv F * list (list (list F)) * bool) (r' : @lenv G * list (list (list G)) * bool) : Prop :=
  lenv_rel (fst (fst r)) (fst (fst r')) /\ snd (fst r') = map em (snd (fst r)) /\ snd r' = snd r.

Lemma lupd_rel e e' n x x' : lenv_rel e e' -> x' = eln x -> lenv_rel (lupd e n x) (lupd e' n x').
Proof. intros He Hs k. unfold lupd. destruct (Nat.eqb k n); [exact Hs | apply He]. Qed.
Lemma set_lst_rel e e' n v : lenv_rel e e' -> lenv_rel (set_lst e n v) (set_lst e' n (ev v)).
Proof. intros He. unfold set_lst. apply lupd_rel; [exact He|]. rewrite (He n). reflexivity. Qed.
Lemma set_proxy_rel e e' n p : lenv_rel e e' -> lenv_rel (set_proxy e n p) (set_proxy e' n (option_map ev p)).
Proof. intros He. unfold set_proxy. apply lupd_rel; [exact He|]. rewrite (He n). reflexivity. Qed.
Lemma set_clamp_rel e e' n c : lenv_rel e e' -> lenv_rel (set_clamp e n c) (set_clamp e' n (option_map ev c)).
Proof. intros He. unfold set_clamp. apply lupd_rel; [exact He|]. rewrite (He n). reflexivity. Qed.
Lemma lst_rel e e' n : lenv_rel e e' -> lst (e' n) = ev (lst (e n)).
Proof. intros He. rewrite (He n). reflexivity. Qed.
Lemma lhid_rel e e' n : lenv_rel e e' -> lhid (e' n) = em (lhid (e n)).
Proof. intros He. rewrite (He n). reflexivity. Qed.
Lemma proxy_rel e e' n : lenv_rel e e' -> proxy (e' n) = option_map ev (proxy (e n)).
Proof. intros He. rewrite (He n). reflexivity. Qed.
Lemma clamp_rel e e' n : lenv_rel e e' -> clamp (e' n) = option_map ev (clamp (e n)).
Proof. intros He. rewrite (He n). reflexivity. Qed.

(* `for node in nodes: <update node>` with related updates *)
Lemma map_nodes_rel (t : @ndesc F -> @lnode F -> @lnode F) (t' : @ndesc G -> @lnode G -> @lnode G) ds ds' :
  (forall d d' x, nd_rel d d' -> t' d' (eln x) = eln (t d x)) -> Forall2 nd_rel ds ds' ->
  forall e e', lenv_rel e e' -> lenv_rel (map_nodes t ds e) (map_nodes t' ds' e').
Proof.
  intros Ht Hds. unfold map_nodes. induction Hds as [|d d' ds ds' Hd _ IH]; intros e e' He; cbn [fold_left]; [exact He|].
  apply IH. pose proof Hd as (Hi & _). rewrite Hi. apply lupd_rel; [exact He|]. rewrite (He (nid d)). apply Ht, Hd.
Qed.
Lemma state_proxy_rel e e' n : lenv_rel e e' -> state_proxy e' n = ev (state_proxy e n).
Proof. intros He. unfold state_proxy. rewrite (proxy_rel _ _ n He), (lst_rel _ _ n He). destruct (proxy (e n)); reflexivity. Qed.
Lemma load_proxys_rel m m' keep : m_rel m m' -> forall e e', lenv_rel e e' -> lenv_rel (load_proxys m keep e) (load_proxys m' keep e').
Proof.
  intros (Ho & _). unfold load_proxys. apply map_nodes_rel; [|exact Ho]. intros d d' [s h [p|] c] _; cbn; destruct keep; reflexivity.
Qed.
Lemma clean_proxys_rel m m' : m_rel m m' -> forall e e', lenv_rel e e' -> lenv_rel (clean_proxys m e) (clean_proxys m' e').
Proof. intros (Ho & _). unfold clean_proxys. apply map_nodes_rel; [|exact Ho]. intros d d' [s h p c] _; reflexivity. Qed.

Lemma fb_read_rel d d' e e' : nd_rel d d' -> lenv_rel e e' ->
  fst (fb_read d' e') = option_map ev (fst (fb_read d e)) /\ lenv_rel (snd (fb_read d e)) (snd (fb_read d' e')).
Proof.
  intros (Hi & Hb & _) He. unfold fb_read. rewrite Hb, Hi, (clamp_rel _ _ (nid d) He).
  destruct (nfb d) as [src|]; [|split; [reflexivity | exact He]].
  destruct (clamp (e (nid d))) as [v|]; cbn [option_map fst snd].
  - split; [reflexivity|]. apply (set_clamp_rel e e' (nid d) None He).
  - split; [|exact He]. f_equal. destruct src as [s|outs]; [apply state_proxy_rel, He|].
    rewrite concat_map, map_map. f_equal. apply map_ext. intros o. apply state_proxy_rel, He.
Qed.
Lemma gather_ll_rel m m' e e' ext ext' n :
  m_rel m m' -> lenv_rel e e' -> opt_rel ext ext' -> gather_ll m' e' ext' n = ev (gather_ll m e ext n).
Proof.
  intros (_ & Hp & _) He Hx. unfold gather_ll. rewrite map_app, Hp, (Hx n), concat_map, map_map.
  f_equal; [|destruct (ext n); reflexivity]. f_equal. apply map_ext. intros p. apply lst_rel, He.
Qed.
Lemma call_node_ll_rel m m' ext ext' e e' d d' :
  m_rel m m' -> opt_rel ext ext' -> lenv_rel e e' -> nd_rel d d' ->
  lres2_rel (call_node_ll m ext e d) (call_node_ll m' ext' e' d').
Proof.
  intros Hm Hx He Hd. unfold call_node_ll.
  pose proof (fb_read_rel d d' e e' Hd He) as (H1 & H2).
  destruct (fb_read d e) as [fb e1], (fb_read d' e') as [fb' e1']. cbn [fst snd] in H1, H2. subst fb'.
  destruct Hd as (Hi & _ & _ & Hf).
  rewrite Hi, (gather_ll_rel m m' e1 e1' ext ext' _ Hm H2 Hx), (lst_rel _ _ _ H2), (lhid_rel _ _ _ H2), Hf.
  destruct (nfwd d _ _ _ _) as [[s1 h1]|]; cbn [eres option_map fst snd].
  - split; [|reflexivity]. cbn [fst]. apply lupd_rel; [exact H2|].
    rewrite (proxy_rel _ _ _ H2), (clamp_rel _ _ _ H2). reflexivity.
  - split; [exact H2 | reflexivity].
Qed.
Lemma forward_from_ll_rel m m' ext ext' ds ds' :
  m_rel m m' -> opt_rel ext ext' -> Forall2 nd_rel ds ds' ->
  forall e e', lenv_rel e e' -> lres2_rel (forward_from_ll m ext ds e) (forward_from_ll m' ext' ds' e').
Proof.
  intros Hm Hx Hds. induction Hds as [|d d' ds ds' Hd _ IH]; intros e e' He; cbn [forward_from_ll].
  - split; [exact He | reflexivity].
  - pose proof (call_node_ll_rel m m' ext ext' e e' d d' Hm Hx He Hd) as (H1 & H2).
    destruct (call_node_ll m ext e d) as [e1 ok], (call_node_ll m' ext' e' d') as [e1' ok'].
    cbn [fst snd] in H1, H2. subst ok'. destruct ok; [apply IH, H1 | split; [exact H1 | reflexivity]].
Qed.
Lemma forward_ll_rel m m' ext ext' e e' :
  m_rel m m' -> opt_rel ext ext' -> lenv_rel e e' -> lres2_rel (forward_ll m ext e) (forward_ll m' ext' e').
Proof. intros Hm Hx He. apply forward_from_ll_rel; try assumption. apply Hm. Qed.

Lemma fb_enter_rel forced forced' e e' d d' :
  opt_rel forced forced' -> lenv_rel e e' -> nd_rel d d' -> lenv_rel (fb_enter forced e d) (fb_enter forced' e' d').
Proof.
  intros Hf He Hd. unfold fb_enter. rewrite (forced_value_rel forced forced' d d' Hf Hd).
  destruct Hd as (Hi & Hb & _). rewrite Hb, Hi, (Hf (nid d)). destruct (nfb d).
  - destruct (forced_value forced d) as [v|]; cbn [option_map]; [|exact He]. apply (set_clamp_rel e e' (nid d) (Some v) He).
  - destruct (forced (nid d)) as [v|]; cbn [option_map]; [|exact He]. apply (set_proxy_rel e e' (nid d) (Some v) He).
Qed.
Lemma fb_exit_rel sf saved e e' d d' :
  lenv_rel e e' -> nd_rel d d' -> lenv_rel (fb_exit sf saved e d) (fb_exit sf (option_map ev saved) e' d').
Proof.
  intros He (Hi & Hb & _). unfold fb_exit. rewrite Hb, Hi. destruct (nfb d).
  - apply (set_clamp_rel e e' (nid d) None He).
  - destruct sf; [exact He | apply set_proxy_rel, He].
Qed.
Lemma with_feedback_ll_rel forced forced' sf ds ds' (body : @lenv F -> @lenv F * bool) (body' : @lenv G -> @lenv G * bool) :
  opt_rel forced forced' -> Forall2 nd_rel ds ds' ->
  (forall e e', lenv_rel e e' -> lres2_rel (body e) (body' e')) ->
  forall e e', lenv_rel e e' -> lres2_rel (with_feedback_ll forced sf ds body e) (with_feedback_ll forced' sf ds' body' e').
Proof.
  intros Hf Hds Hb. induction Hds as [|d d' ds ds' Hd _ IH]; intros e e' He; cbn [with_feedback_ll]; [apply Hb, He|].
  pose proof (IH _ _ (fb_enter_rel forced forced' e e' d d' Hf He Hd)) as (H1 & H2).
  destruct (with_feedback_ll forced sf ds body _) as [e2 ok], (with_feedback_ll forced' sf ds' body' _) as [e2' ok'].
  cbn [fst snd] in H1, H2. subst ok'. split; [|reflexivity]. cbn [fst].
  pose proof Hd as (Hi & _). rewrite Hi, (proxy_rel _ _ (nid d) He). apply fb_exit_rel; assumption.
Qed.
Lemma step_ll_rel m m' forced forced' ext ext' e e' :
  m_rel m m' -> opt_rel forced forced' -> opt_rel ext ext' -> lenv_rel e e' ->
  lres2_rel (step_ll m forced ext e) (step_ll m' forced' ext' e').
Proof.
  intros Hm Hf Hx He. unfold step_ll.
  pose proof (with_feedback_ll_rel forced forced' false (order m) (order m') (forward_ll m ext) (forward_ll m' ext') Hf (proj1 Hm)
                (fun a a' Ha => forward_ll_rel m m' ext ext' a a' Hm Hx Ha) e e' He) as (H1 & H2).
  destruct (with_feedback_ll forced false (order m) _ e) as [e1 ok], (with_feedback_ll forced' false (order m') _ e') as [e1' ok'].
  cbn [fst snd] in H1, H2. subst ok'. destruct ok; (split; [|reflexivity]); cbn [fst]; [apply load_proxys_rel; assumption | exact H1].
Qed.
Lemma out_states_ll_rel m m' e e' : m_rel m m' -> lenv_rel e e' -> out_states_ll m' e' = em (out_states_ll m e).
Proof. intros (_ & _ & Ho) He. unfold out_states_ll. rewrite Ho, map_map. apply map_ext. intros o. apply lst_rel, He. Qed.
Lemma run_steps_ll_rel m m' steps steps' : m_rel m m' -> steps_rel steps steps' ->
  forall e e', lenv_rel e e' -> lres3_rel (run_steps_ll m steps e) (run_steps_ll m' steps' e').
Proof.
  intros Hm Hs. induction Hs as [|[ext forced] [ext' forced'] steps steps' (Hx & Hf) _ IH]; intros e e' He; cbn [run_steps_ll].
  - repeat split; [exact He].
  - cbn [fst snd] in Hx, Hf.
    pose proof (step_ll_rel m m' forced forced' ext ext' e e' Hm Hf Hx He) as (H1 & H2).
    destruct (step_ll m forced ext e) as [e1 ok], (step_ll m' forced' ext' e') as [e1' ok']. cbn [fst snd] in H1, H2. subst ok'.
    destruct ok; [|repeat split; exact H1].
    pose proof (IH e1 e1' H1) as (I1 & I2 & I3).
    destruct (run_steps_ll m steps e1) as [[e2 outs] ok2], (run_steps_ll m' steps' e1') as [[e2' outs'] ok2'].
    cbn [fst snd] in *. subst. repeat split; [exact I1|]. cbn [fst snd map]. rewrite (out_states_ll_rel m m' e1 e1' Hm H1). reflexivity.
Qed.
Lemma run_ll_rel m m' steps steps' e e' : m_rel m m' -> steps_rel steps steps' -> lenv_rel e e' ->
  lres3_rel (run_ll m steps e) (run_ll m' steps' e').
Proof.
  intros Hm Hs He. unfold run_ll.
  pose proof (run_steps_ll_rel m m' steps steps' Hm Hs _ _ (load_proxys_rel m m' true Hm e e' He)) as (H1 & H2 & H3).
  destruct (run_steps_ll m steps _) as [[e1 outs] ok], (run_steps_ll m' steps' _) as [[e1' outs'] ok']. cbn [fst snd] in *.
  repeat split; cbn [fst snd]; try assumption. apply clean_proxys_rel; assumption.
Qed.
Lemma start_env_ll_rel m m' reset from from' : m_rel m m' -> opt_rel from from' ->
  forall e e', lenv_rel e e' -> lenv_rel (start_env_ll m reset from e) (start_env_ll m' reset from' e').
Proof.
  intros (Ho & _) Hf. unfold start_env_ll. apply map_nodes_rel; [|exact Ho].
  intros d d' x (Hi & _ & Hod & _). rewrite Hi, Hod, (Hf (nid d)). destruct (from (nid d)); cbn [option_map]; [reflexivity|].
  destruct reset; [|reflexivity]. unfold with_lst, eln. cbn [lst lhid proxy clamp]. rewrite (ev_vzeros phi). reflexivity.
Qed.
Lemma restore_lst_rel ids snap snap' : lenv_rel snap snap' ->
  forall e e', lenv_rel e e' -> lenv_rel (restore_lst ids snap e) (restore_lst ids snap' e').
Proof.
  intros Hs. unfold restore_lst. induction ids as [|n ids IH]; intros e e' He; cbn [fold_left]; [exact He|].
  apply IH. rewrite (lst_rel _ _ n Hs). apply set_lst_rel, He.
Qed.
Lemma run_op_ll_rel m m' stateful reset from from' steps steps' e e' :
  m_rel m m' -> opt_rel from from' -> steps_rel steps steps' -> lenv_rel e e' ->
  lres3_rel (run_op_ll m stateful reset from steps e) (run_op_ll m' stateful reset from' steps' e').
Proof.
  intros Hm Hf Hs He. unfold run_op_ll.
  pose proof (run_ll_rel m m' steps steps' _ _ Hm Hs (start_env_ll_rel m m' reset from from' Hm Hf e e' He)) as (H1 & H2 & H3).
  destruct (run_ll m steps _) as [[e1 outs] ok], (run_ll m' steps' _) as [[e1' outs'] ok']. cbn [fst snd] in *.
  repeat split; cbn [fst snd]; try assumption.
  destruct stateful; [exact H1|]. rewrite (ids_of_rel m m' Hm). apply restore_lst_rel; assumption.
Qed.
Lemma call_op_ll_rel m m' stateful reset from from' ext ext' forced forced' e e' :
  m_rel m m' -> opt_rel from from' -> opt_rel ext ext' -> opt_rel forced forced' -> lenv_rel e e' ->
  lres3_rel (call_op_ll m stateful reset from ext forced e) (call_op_ll m' stateful reset from' ext' forced' e').
Proof.
  intros Hm Hfr Hx Hf He. unfold call_op_ll.
  pose proof (with_feedback_ll_rel forced forced' stateful (order m) (order m') (forward_ll m ext) (forward_ll m' ext') Hf (proj1 Hm)
                (fun a a' Ha => forward_ll_rel m m' ext ext' a a' Hm Hx Ha) _ _
                (load_proxys_rel m m' true Hm _ _ (start_env_ll_rel m m' reset from from' Hm Hfr e e' He))) as (H1 & H2).
  destruct (with_feedback_ll forced stateful (order m) _ _) as [e1 ok], (with_feedback_ll forced' stateful (order m') _ _) as [e1' ok'].
  cbn [fst snd] in H1, H2. subst ok'. repeat split; cbn [fst snd].
  - apply clean_proxys_rel; [exact Hm|]. destruct stateful; [exact H1|]. rewrite (ids_of_rel m m' Hm). apply restore_lst_rel; assumption.
  - destruct ok; [|reflexivity]. cbn [map]. rewrite (out_states_ll_rel m m' e1 e1' Hm H1). reflexivity.
Qed.
Lemma reset_op_ll_rel m m' : m_rel m m' -> forall e e', lenv_rel e e' -> lenv_rel (reset_op_ll m e) (reset_op_ll m' e').
Proof.
  intros (Ho & _). unfold reset_op_ll. apply map_nodes_rel; [|exact Ho].
  intros d d' x (_ & _ & Hod & _). rewrite Hod. unfold with_lst, eln. cbn [lst lhid proxy clamp]. rewrite (ev_vzeros phi). reflexivity.
Qed.
(* forgetting / re-introducing the mechanism *)
Lemma inject_rel e e' : env_rel e e' -> lenv_rel (inject e) (inject e').
Proof. intros He n. unfold inject. rewrite (He n). reflexivity. Qed.
Lemma abs_rel e e' : lenv_rel e e' -> env_rel (abs e) (abs e').
Proof. intros He n. unfold abs. rewrite (He n). reflexivity. Qed.

End BridgeModel.

(* ================================================================== (c) the shared runner run/RunModel.v, read at R *)
From RV Require Import run.RunModel.

(* ---- the R-instance of the scenario interpreter: the same text as [run_one] / [run_one_ll], on the R-model of the scenario
        (forward functions [kfwd] at R of the embedded kinds) and on the embedded data of the operation ---- *)
Definition eal (l : list (nat * qv)) : list (nat * list R) := map (fun p => (fst p, qv2r (snd p))) l.
Definition eall (l : list (nat * list qv)) : list (nat * list (list R)) := map (fun p => (fst p, qm2r (snd p))) l.

Definition to_ndescR (s : snode) : ndesc (F:=R) := mkND (sid s) (kfwd (ekind Q2R (skind s))) (sfb s) (sodim s).
Definition to_modelR (nodes : list snode) (m : smodel) : model (F:=R) :=
  mkModel (flat_map (fun i => match find (fun s => Nat.eqb (sid s) i) nodes with
                              | Some s => [to_ndescR s] | None => [] end) (morder m))
          (assoc_list (mparents m)) (mouts m).
Definition init_envR (nodes : list snode) : env (F:=R) :=
  fun n => match find (fun s => Nat.eqb (sid s) n) nodes with
           | Some s => mkNS (vzeros (sodim s)) (qm2r (shid s))
           | None => mkNS [] []
           end.
Definition init_envR_ll (nodes : list snode) : lenv (F:=R) := inject (init_envR nodes).

Definition fb_stepsR (shift_fb : bool) (FB : list (nat * list (list R))) (T : nat) : list (list (nat * list R)) :=
  let disp := map (fun p => (fst p, dispatch_fb shift_fb (vzeros (length (hd [] (snd p)))) (snd p))) FB in
  map (fun t => flat_map (fun p => match nth_error (snd p) t with Some v => [(fst p, v)] | None => [] end) disp) (seq 0 T).
Definition stepsR (X : list (list (nat * qv))) (shift : bool) (FB : list (nat * list qv))
  : list ((nat -> option (list R)) * (nat -> option (list R))) :=
  let XR := map eal X in
  let fbs := fb_stepsR shift (eall FB) (length XR) in
  map (fun p => (assoc (fst p), assoc (snd p))) (combine XR (fbs ++ repeat [] (length XR))).

Definition run_oneR (nodes : list snode) (models : list smodel) (o : op) (e : env (F:=R))
  : env (F:=R) * list (list (list R)) * bool :=
  match o with
  | OpRun mi stateful reset from X shift FB =>
      match nth_error models mi with
      | Some sm => run_op (to_modelR nodes sm) stateful reset (assoc (eal from)) (stepsR X shift FB) e
      | None => (e, [], false)
      end
  | OpCall mi stateful reset from x fb =>
      match nth_error models mi with
      | Some sm => run_op (to_modelR nodes sm) stateful reset (assoc (eal from)) [(assoc (eal x), assoc (eal fb))] e
      | None => (e, [], false)
      end
  | OpReset mi =>
      match nth_error models mi with
      | Some sm => (reset_op (to_modelR nodes sm) e, [], true)
      | None => (e, [], false)
      end
  end.
Definition run_oneR_ll (nodes : list snode) (models : list smodel) (o : op) (e : lenv (F:=R))
  : lenv (F:=R) * list (list (list R)) * bool :=
  match o with
  | OpRun mi stateful reset from X shift FB =>
      match nth_error models mi with
      | Some sm => run_op_ll (to_modelR nodes sm) stateful reset (assoc (eal from)) (stepsR X shift FB) e
      | None => (e, [], false)
      end
  | OpCall mi stateful reset from x fb =>
      match nth_error models mi with
      | Some sm => call_op_ll (to_modelR nodes sm) stateful reset (assoc (eal from)) (assoc (eal x)) (assoc (eal fb)) e
      | None => (e, [], false)
      end
  | OpReset mi =>
      match nth_error models mi with
      | Some sm => (reset_op_ll (to_modelR nodes sm) e, [], true)
      | None => (e, [], false)
      end
  end.
Definition at_restbR (nodes : list snode) (e : lenv (F:=R)) : bool :=
  forallb (fun s => match proxy (e (sid s)), clamp (e (sid s)) with None, None => true | _, _ => false end) nodes.

(* ---- what a verdict [true] says about the R-instance history ---- *)
Definition mmrclose (a b : list (list (list R))) : Prop := Forall2 mrclose a b.
Definition states_okR (e : env (F:=R)) (l : list (nat * qv)) : Prop :=
  Forall (fun p => vrclose (st (e (fst p))) (qv2r (snd p))) l.
Definition states_okR_ll (e : lenv (F:=R)) (l : list (nat * qv)) : Prop :=
  Forall (fun p => vrclose (lst (e (fst p))) (qv2r (snd p))) l.
(* operation by operation: same success flag as observed; when it succeeds, outputs within the tolerance of the observed ones;
   states of the listed nodes afterwards within the tolerance (also after a failure); then the rest of the history from the
   environment this operation left *)
Fixpoint hist_okR (nodes : list snode) (models : list smodel) (l : list (op * obs)) (e : env (F:=R)) : Prop :=
  match l with
  | [] => True
  | (o, ob) :: rest =>
      let r := run_oneR nodes models o e in
      snd r = ook ob /\ (snd r = true -> mmrclose (snd (fst r)) (map qm2r (oouts ob))) /\
      states_okR (fst (fst r)) (ostates ob) /\ hist_okR nodes models rest (fst (fst r))
  end.
Fixpoint hist_okR_ll (nodes : list snode) (models : list smodel) (l : list (op * obs)) (e : lenv (F:=R)) : Prop :=
  match l with
  | [] => True
  | (o, ob) :: rest =>
      let r := run_oneR_ll nodes models o e in
      snd r = ook ob /\ (snd r = true -> mmrclose (snd (fst r)) (map qm2r (oouts ob))) /\
      states_okR_ll (fst (fst r)) (ostates ob) /\
      (forall b, orest ob = Some b -> at_restbR nodes (fst (fst r)) = b) /\
      hist_okR_ll nodes models rest (fst (fst r))
  end.

(* ---- data of an operation ---- *)
Lemma assoc_eal l : opt_rel Q2R (assoc l) (assoc (eal l)).
Proof.
  intros n. unfold assoc, eal. induction l as [|[k v] l IH]; cbn [map find fst snd]; [reflexivity|].
  destruct (Nat.eqb k n); [reflexivity | exact IH].
Qed.
Lemma fb_steps_eall shift FB T : fb_stepsR shift (eall FB) T = map eal (fb_steps shift FB T).
Proof.
  unfold fb_stepsR, fb_steps, eall. cbv zeta. rewrite !map_map. apply map_ext. intros t.
  induction FB as [|[k ys] FB IH]; cbn [map flat_map fst snd]; [reflexivity|].
  unfold eal in *. rewrite map_app, <- IH. f_equal.
  assert (E : dispatch_fb shift (vzeros (length (hd [] (qm2r ys)))) (qm2r ys)
              = qm2r (dispatch_fb shift (vzeros (length (hd [] ys))) ys)).
  { rewrite (em_dispatch_fb Q2R), (ev_vzeros Q2R). do 3 f_equal. destruct ys; cbn [hd map]; [reflexivity | rewrite map_length; reflexivity]. }
  rewrite E, nth_error_map. destruct (nth_error _ t); reflexivity.
Qed.
Lemma steps_relR X shift FB :
  steps_rel Q2R (map (fun p => (assoc (fst p), assoc (snd p))) (combine X (fb_steps shift FB (length X) ++ repeat [] (length X))))
            (stepsR X shift FB).
Proof.
  unfold stepsR. cbv zeta. rewrite map_length, fb_steps_eall.
  change (@nil (nat * list R)) with (eal []). rewrite <- (map_repeat' eal), <- map_app.
  generalize (fb_steps shift FB (length X) ++ repeat [] (length X)). intros Y. unfold steps_rel.
  revert Y. induction X as [|x X IH]; intros [|y Y]; cbn [map combine]; try constructor.
  - cbn [fst snd]. split; apply assoc_eal.
  - apply IH.
Qed.

(* ---- the R-model of a scenario is related to its Q-model; so are the initial environments ---- *)
Lemma to_model_rel nodes sm : m_rel Q2R (to_model nodes sm) (to_modelR nodes sm).
Proof.
  unfold to_model, to_modelR, m_rel. cbn [order parents outputs]. split; [|split; reflexivity].
  induction (morder sm) as [|i l IH]; cbn [flat_map]; [constructor|].
  destruct (find (fun s => Nat.eqb (sid s) i) nodes) as [s|]; [|exact IH]. cbn [app]. constructor; [|exact IH].
  unfold nd_rel, to_ndesc, to_ndescR. cbn [nid nfb odim nfwd]. repeat split. exact (kfwd_rel Q2R (skind s)).
Qed.
Lemma init_env_rel nodes : env_rel Q2R (init_env nodes) (init_envR nodes).
Proof.
  intros n. unfold init_env, init_envR. destruct (find _ nodes) as [s|]; [|reflexivity].
  unfold ens. cbn [st hid]. rewrite (ev_vzeros Q2R). reflexivity.
Qed.
Lemma init_env_ll_rel nodes : lenv_rel Q2R (init_env_ll nodes) (init_envR_ll nodes).
Proof. apply (inject_rel Q2R), init_env_rel. Qed.

(* ---- one operation ---- *)
Lemma run_one_rel nodes models o e eR : env_rel Q2R e eR ->
  res3_rel Q2R (run_one nodes models o e) (run_oneR nodes models o eR).
Proof.
  intros He. destruct o as [mi sf rs from X shift FB | mi sf rs from x fb | mi]; cbn [run_one run_oneR];
    (destruct (nth_error models mi) as [sm|]; [|repeat split; exact He]).
  - apply (run_op_rel Q2R); [apply to_model_rel | apply assoc_eal | apply steps_relR | exact He].
  - apply (run_op_rel Q2R); [apply to_model_rel | apply assoc_eal | | exact He].
    constructor; [|constructor]. cbn [fst snd]. split; apply assoc_eal.
  - repeat split. cbn [fst]. apply (reset_op_rel Q2R); [apply to_model_rel | exact He].
Qed.
Lemma run_one_ll_rel nodes models o e eR : lenv_rel Q2R e eR ->
  lres3_rel Q2R (run_one_ll nodes models o e) (run_oneR_ll nodes models o eR).
Proof.
  intros He. destruct o as [mi sf rs from X shift FB | mi sf rs from x fb | mi]; cbn [run_one_ll run_oneR_ll];
    (destruct (nth_error models mi) as [sm|]; [|repeat split; exact He]).
  - apply (run_op_ll_rel Q2R); [apply to_model_rel | apply assoc_eal | apply steps_relR | exact He].
  - apply (call_op_ll_rel Q2R); [apply to_model_rel | apply assoc_eal | apply assoc_eal | apply assoc_eal | exact He].
  - repeat split. cbn [fst]. apply (reset_op_ll_rel Q2R); [apply to_model_rel | exact He].
Qed.

(* ---- the comparisons ---- *)
Lemma mmclose_mmrclose a b : mmclose a b = true -> mmrclose (map qm2r a) (map qm2r b).
Proof.
  revert b. induction a as [|x a IH]; intros [|y b]; cbn [mmclose map]; intros Hx; try discriminate; [constructor|].
  apply andb_true_iff in Hx. constructor; [apply mclose_mrclose, Hx | apply IH, Hx].
Qed.
Lemma states_ok_R e eR l : env_rel Q2R e eR -> states_ok e l = true -> states_okR eR l.
Proof.
  intros He. unfold states_ok, states_okR. rewrite forallb_forall, Forall_forall. intros Hx p Hp.
  rewrite (st_rel Q2R _ _ _ He). apply vclose_vrclose, Hx, Hp.
Qed.
Lemma states_ok_ll_R e eR l : lenv_rel Q2R e eR -> states_ok_ll e l = true -> states_okR_ll eR l.
Proof.
  intros He. unfold states_ok_ll, states_okR_ll. rewrite forallb_forall, Forall_forall. intros Hx p Hp.
  rewrite (lst_rel Q2R _ _ _ He). apply vclose_vrclose, Hx, Hp.
Qed.
Lemma at_restb_R nodes e eR : lenv_rel Q2R e eR -> at_restbR nodes eR = at_restb nodes e.
Proof.
  intros He. unfold at_restbR, at_restb. induction nodes as [|s nodes IH]; cbn [forallb]; [reflexivity|]. rewrite IH. f_equal.
  rewrite (proxy_rel Q2R _ _ _ He), (clamp_rel Q2R _ _ _ He). destruct (proxy (e (sid s))), (clamp (e (sid s))); reflexivity.
Qed.

(* ---- whole histories ---- *)
Lemma chk_ops_R nodes models l : forall e eR, env_rel Q2R e eR -> chk_ops nodes models l e = true -> hist_okR nodes models l eR.
Proof.
  induction l as [|[o ob] l IH]; intros e eR He; cbn [chk_ops hist_okR]; [trivial|].
  unfold chk_op. pose proof (run_one_rel nodes models o e eR He) as (H1 & H2 & H3).
  destruct (run_one nodes models o e) as [[e1 outs] ok], (run_oneR nodes models o eR) as [[e1R outsR] okR].
  cbn [fst snd] in *. subst. intros Hx. apply andb_true_iff in Hx. destruct Hx as [Hx Hrest].
  apply andb_true_iff in Hx. destruct Hx as [Hx Hst]. apply andb_true_iff in Hx. destruct Hx as [Hok Houts].
  apply eqb_prop in Hok. subst ok. repeat split.
  - intros E. rewrite E in Houts. apply mmclose_mmrclose, Houts.
  - eapply states_ok_R; eassumption.
  - eapply IH; eassumption.
Qed.
Lemma chk_ops_ll_R nodes models l :
  forall e eR, lenv_rel Q2R e eR -> chk_ops_ll nodes models l e = true -> hist_okR_ll nodes models l eR.
Proof.
  induction l as [|[o ob] l IH]; intros e eR He; cbn [chk_ops_ll hist_okR_ll]; [trivial|].
  unfold chk_op_ll. pose proof (run_one_ll_rel nodes models o e eR He) as (H1 & H2 & H3).
  destruct (run_one_ll nodes models o e) as [[e1 outs] ok], (run_oneR_ll nodes models o eR) as [[e1R outsR] okR].
  cbn [fst snd] in *. subst. intros Hx. apply andb_true_iff in Hx. destruct Hx as [Hx Hrest].
  apply andb_true_iff in Hx. destruct Hx as [Hx Hat]. apply andb_true_iff in Hx. destruct Hx as [Hx Hst].
  apply andb_true_iff in Hx. destruct Hx as [Hok Houts].
  apply eqb_prop in Hok. subst ok. repeat split.
  - intros E. rewrite E in Houts. apply mmclose_mmrclose, Houts.
  - eapply states_ok_ll_R; eassumption.
  - intros b Eb. rewrite Eb in Hat. apply eqb_prop in Hat. rewrite (at_restb_R nodes e1 e1R H1). symmetry. exact Hat.
  - eapply IH; eassumption.
Qed.

Theorem chk_hist_is_about_R_model (nodes : list snode) (models : list smodel) (l : list (op * obs)) :
  chk_hist nodes models l = true -> topo_ok models = true /\ hist_okR nodes models l (init_envR nodes).
Proof.
  unfold chk_hist. intros Hx. apply andb_true_iff in Hx. destruct Hx as [Ht Hx]. split; [exact Ht|].
  eapply chk_ops_R; [apply init_env_rel | exact Hx].
Qed.
Theorem chk_hist_ll_is_about_R_model (nodes : list snode) (models : list smodel) (l : list (op * obs)) :
  chk_hist_ll nodes models l = true -> topo_ok models = true /\ hist_okR_ll nodes models l (init_envR_ll nodes).
Proof.
  unfold chk_hist_ll. intros Hx. apply andb_true_iff in Hx. destruct Hx as [Ht Hx]. split; [exact Ht|].
  eapply chk_ops_ll_R; [apply init_env_ll_rel | exact Hx].
Qed.
(* what the harness emits *)
Theorem chk_hist_both_is_about_R_model (nodes : list snode) (models : list smodel) (l : list (op * obs)) :
  chk_hist_both nodes models l = true ->
  topo_ok models = true /\ hist_okR nodes models l (init_envR nodes) /\ hist_okR_ll nodes models l (init_envR_ll nodes).
Proof.
  unfold chk_hist_both. intros Hx. apply andb_true_iff in Hx. destruct Hx as [H1 H2].
  split; [apply (chk_hist_is_about_R_model _ _ _ H1)|]. split; [apply (chk_hist_is_about_R_model _ _ _ H1) | apply (chk_hist_ll_is_about_R_model _ _ _ H2)].
Qed.

(* the lifting lemmas hold for every homomorphism of the class and are closed under the global context; the standard axioms
   of Coq's reals enter only through the instance [Q2R_hom] and the type R itself *)
Print Assumptions e_kfwd.
Print Assumptions run_op_rel.
Print Assumptions run_op_ll_rel.
Print Assumptions call_op_ll_rel.
Print Assumptions chk_hist_both_is_about_R_model.
