(* Tie (T) for Model.run (the loop over the SEQUENCES): the GENERATED coq/gen/Gen_mrun2.v (translated from reservoirpy/model.py by
   tools/vlib/py2coq_mrun2.py on every run of ./check C07) against the hand model model/ModelSem.v.

   Reading of the callees: `_run` IS the generated Model._run of gen/Gen_mrun.v under the reading of proofs/Gen_mrun_eq.v ([g_run]);
   `with self.with_state(reset=.., stateful=..)` = [sem_with_state] with no state mapping (start_env / restore_st); to_data_mapping = a
   partial function that leaves the states alone (None: it raises); `l[0]` raises on the empty list; _initialize_on_sequence leaves the
   states alone (the model is initialized); list(return_states) = the same selection; fold_mapping = a function of the per-sequence logs.
   Then the generated `run` IS the fold over the sequences of [seq_op] -- the OUTER with_state (reset, no mapping; restored at the end unless
   stateful) around run_op with reset = False and from_state on the sequence -- with the environment carried from one sequence to the next,
   for every flag and both outcomes; the first failing sequence ends the loop.  No axioms. *)
From Coq Require Import List Bool Arith Lia.
From RV Require Import base.Num base.LA base.PyColl base.PyColl2 base.PyColl3 base.MCallPrelude base.MRunPrelude.
From RV Require base.CtxPrelude.
From RV Require Import gen.Gen_mrun gen.Gen_mrun2 model.ModelSem proofs.Gen_dispatch_eq proofs.Gen_mcall_eq proofs.Gen_mrun_eq.
Import ListNotations.

Section MRun2.
Context {F : Type} `{Num F}.
Notation vec := (list F).
Notation env := (@env F).
Notation xs_t := (list (nat -> option vec)).
Variable m : @model F.
Variable RS : Type.
Variable sel : RS -> env -> selstate vec.
Variable out0 : node.
Variables XD FD OUT : Type.
Variable tdm : XD -> FD -> option (list xs_t * list xs_t).
Variable fm : list (wlog vec) -> RS -> OUT.

(* one sequence: `with self.with_state(reset=reset, stateful=stateful): self._run(.., from_state, stateful, ..)` *)
Definition seq_op (stateful reset : bool) (from : nat -> option vec) (steps : list ((nat -> option vec) * (nat -> option vec))) (e : env)
  : env * list (list vec) * bool :=
  let '(e1, outs, ok) := run_op m stateful false from steps (start_env m reset (fun _ => None) e) in
  ((if stateful then e1 else restore_st (ids_of m) e e1), outs, ok).
Fixpoint run_seqs2 (stateful reset : bool) from (seqs : list (list ((nat -> option vec) * (nat -> option vec)))) (e : env)
  : env * list (list (list vec)) * bool :=
  match seqs with
  | [] => (e, [], true)
  | s :: rest =>
      let '(e1, o, ok) := seq_op stateful reset from s e in
      if ok then let '(e2, os, ok2) := run_seqs2 stateful reset from rest e1 in (e2, o :: os, ok2)
      else (e1, [], false)
  end.

Definition idx0 {A : Type} (l : list A) : CtxPrelude.M (@cworld F) A :=
  match l with [] => CtxPrelude.raise CtxPrelude.RuntimeError | x :: _ => CtxPrelude.ret x end.

Definition g_model_run (X : XD) (FB : FD) (from : nat -> option vec) (stateful reset shift : bool) (rs : RS) : CtxPrelude.M cworld OUT :=
  GenMRun2.Model_run cworld XD FD xs_t xs_t (nat -> option vec) RS (wlog vec) OUT
    (fun X FB => match tdm X FB with Some p => CtxPrelude.ret p | None => CtxPrelude.raise CtxPrelude.TypeError end)
    idx0 idx0 (fun _ _ => CtxPrelude.ret tt) (fun r => r)
    (sem_with_state m (list (wlog vec)) (fun _ => None))
    (g_run m RS sel out0)
    (fun s r => CtxPrelude.ret (fm s r))
    X FB from stateful reset shift rs.

(* what one sequence writes: the rows of the states selected after step 0, 1, .. *)
Definition log_ok (rs : RS) (log : wlog vec) (outs : list (list vec)) : Prop :=
  exists envs, outs = map (out_states m) envs /\ length envs = length outs /\ log = log_from RS sel out0 rs 0 envs.

Lemma seqs_loop from stateful reset shift rs
  (body : list (wlog vec) -> xs_t * xs_t -> CtxPrelude.M cworld (list (wlog vec))) :
  (forall acc p, body acc p = sem_with_state m (list (wlog vec)) (fun _ => None) stateful reset
     (CtxPrelude.bind (g_run m RS sel out0 (fst p) (snd p) from stateful shift rs) (fun ss => CtxPrelude.ret (acc ++ [ss])))) ->
  forall l acc w,
    let '(w', r) := py_foldM l body acc w in
    let '(e', outs, ok) := run_seqs2 stateful reset from (map (fun p => combine (fst p) (snd p)) l) (cur w) in
    cur w' = e' /\ fbm w' = fbm w /\
    match r with
    | CtxPrelude.Ok s => ok = true /\ exists logs, s = acc ++ logs /\ Forall2 (log_ok rs) logs outs
    | CtxPrelude.Exc _ => ok = false
    end.
Proof.
  intros Hb. induction l as [|[x fb] l IH]; intros acc w.
  - cbn. repeat split. exists []. rewrite app_nil_r. split; [reflexivity|constructor].
  - cbn [py_foldM map run_seqs2 fst snd]. unfold CtxPrelude.bind at 1. rewrite Hb. cbn [fst snd].
    unfold sem_with_state, seq_op. unfold CtxPrelude.bind at 1.
    pose proof (gen_mrun_is_run_op m RS sel out0 x fb from stateful shift rs
                  (mkCW (start_env m reset (fun _ => None) (cur w)) (prx w) (fbm w))) as G.
    destruct (g_run m RS sel out0 x fb from stateful shift rs (mkCW (start_env m reset (fun _ => None) (cur w)) (prx w) (fbm w))) as [w1 r1].
    cbn [cur fbm] in G.
    destruct (run_op m stateful false from (combine x fb) (start_env m reset (fun _ => None) (cur w))) as [[e1 o] ok].
    destruct G as (G1 & G2 & G3).
    destruct r1 as [ss|ex].
    + destruct G3 as (-> & envs & G4 & G5 & G6). unfold CtxPrelude.ret.
      match goal with |- context [py_foldM l body ?a ?ww] => specialize (IH a ww); destruct (py_foldM l body a ww) as [w' r] end.
      assert (Hc : cur (if stateful then w1 else mkCW (restore_st (ids_of m) (cur w) (cur w1)) (prx w1) (fbm w1))
                   = (if stateful then e1 else restore_st (ids_of m) (cur w) e1)) by (destruct stateful; cbn [cur]; subst; reflexivity).
      assert (Hf : fbm (if stateful then w1 else mkCW (restore_st (ids_of m) (cur w) (cur w1)) (prx w1) (fbm w1)) = fbm w)
        by (destruct stateful; cbn [fbm]; exact G2).
      rewrite Hc in IH.
      destruct (run_seqs2 stateful reset from (map (fun p => combine (fst p) (snd p)) l) (if stateful then e1 else restore_st (ids_of m) (cur w) e1))
        as [[e2 os] ok2].
      destruct IH as (I1 & I2 & I3). split; [exact I1|split; [rewrite I2; exact Hf|]].
      destruct r as [s|ex]; [|exact I3]. destruct I3 as (-> & logs & -> & I4). split; [reflexivity|].
      exists (ss :: logs). rewrite <- app_assoc. split; [reflexivity|]. constructor; [|exact I4]. exists envs. repeat split; assumption.
    + subst ok. destruct stateful; cbn [cur fbm]; subst; repeat split; assumption.
Qed.

(* RUN: the generated Model.run is the fold of seq_op over the sequences *)
Theorem gen_model_run_is_run_seqs (X : XD) (FB : FD) from stateful reset shift rs (w : cworld) xs fbs :
  tdm X FB = Some (xs, fbs) -> xs <> [] -> fbs <> [] ->
  let '(w', r) := g_model_run X FB from stateful reset shift rs w in
  let '(e', outs, ok) := run_seqs2 stateful reset from (map (fun p => combine (fst p) (snd p)) (combine xs fbs)) (cur w) in
  cur w' = e' /\ fbm w' = fbm w /\
  match r with
  | CtxPrelude.Ok o => ok = true /\ exists logs, o = fm logs rs /\ Forall2 (log_ok rs) logs outs
  | CtxPrelude.Exc _ => ok = false
  end.
Proof.
  intros Ht Hx Hfb. unfold g_model_run, GenMRun2.Model_run. rewrite Ht.
  destruct xs as [|x0 xs']; [contradiction|]. destruct fbs as [|f0 fbs']; [contradiction|].
  match goal with |- context [py_foldM _ ?f _] => set (body := f) end.
  assert (Hb : forall acc p, body acc p = sem_with_state m (list (wlog vec)) (fun _ => None) stateful reset
     (CtxPrelude.bind (g_run m RS sel out0 (fst p) (snd p) from stateful shift rs) (fun ss => CtxPrelude.ret (acc ++ [ss]))))
    by (intros acc [a b]; reflexivity).
  pose proof (seqs_loop from stateful reset shift rs body Hb (combine (x0 :: xs') (f0 :: fbs')) [] w) as L. clearbody body.
  cbv beta iota delta [CtxPrelude.bind CtxPrelude.ret idx0].
  destruct (py_foldM (combine (x0 :: xs') (f0 :: fbs')) body [] w) as [w' r].
  destruct (run_seqs2 stateful reset from (map (fun p => combine (fst p) (snd p)) (combine (x0 :: xs') (f0 :: fbs'))) (cur w)) as [[e' outs] ok].
  destruct L as (A & B & C). destruct r as [s|ex]; (split; [exact A|split; [exact B|]]); [|exact C].
  destruct C as (C1 & logs & C2 & C3). split; [exact C1|]. exists logs. cbn in C2. subst. split; [reflexivity|exact C3].
Qed.
End MRun2.
