(* Proofs about model/SubSender.v (C05): the `_fb_flag` parity mechanism of sub-model feedback senders.
   G. general (any model, any node functions): while the flags of every sub-model sender agree whenever its receiver reads
      ("calm"), the mechanism IS ProxySem's (hence ModelSem's) and a complete step flips every flag once: in_sync is an
      invariant of complete steps / runs for receivers placed before or after all nodes of their sender, every node is
      entered exactly once per step, and the receiver is handed the sender's output of the previous step.
   S. symbolic (any node functions and states, fixed three-node topologies): what a STRADDLING receiver and the receiver of
      a sender lying PARTLY OUTSIDE the model are handed, step by step.
   W. computed witnesses at Q: the open findings (stand-alone call / aborted step) and the straddling first step. *)
From Coq Require Import List Arith Bool Lia.
From RV Require Import base.Num base.LA model.ModelSem model.ProxySem model.SubSender proofs.Refine_proofs.
Import ListNotations.

Section General.
Context {F : Type} `{Num F}.
Notation vec := (list F).
Notation ndesc := (@ndesc F).
Notation model := (@model F).
Notation lenv := (@lenv F).
Notation subm := (@subm F).
Notation sstate := (@sstate F).

Definition calm_at (f : nat -> bool) (sd : subm) : Prop := forall a b, In a (s_nodes sd) -> In b (s_nodes sd) -> f a = f b.
(* flags after the nodes of [pre] have each been called once *)
Definition flipped (pre : list ndesc) (f : nat -> bool) (n : nat) : bool := if memb n (map nid pre) then negb (f n) else f n.

Lemma memb_In n l : memb n l = true <-> In n l.
Proof.
  unfold memb. rewrite existsb_exists. split.
  - intros (x & Hx & He). apply Nat.eqb_eq in He. subst. assumption.
  - intros Hi. exists n. split; [assumption|apply Nat.eqb_refl].
Qed.
Lemma memb_not_In n l : ~ In n l -> memb n l = false.
Proof. intros Hn. destruct (memb n l) eqn:E; [|reflexivity]. apply memb_In in E. contradiction. Qed.

Lemma flags_equal_calm (s : sstate) sd : flags_equal s sd = true <-> calm_at (fl s) sd.
Proof.
  unfold flags_equal, calm_at. destruct (s_nodes sd) as [|n rest].
  - split; [intros _ a b []|reflexivity].
  - rewrite forallb_forall. split.
    + intros Hf a b Ha Hb.
      assert (Hn : forall k, In k (n :: rest) -> fl s k = fl s n).
      { intros k [<-|Hk]; [reflexivity|]. apply eqb_prop. apply Hf. assumption. }
      rewrite (Hn a Ha), (Hn b Hb). reflexivity.
    + intros Hc k Hk. rewrite (Hc k n); [apply eqb_reflx|right; assumption|left; reflexivity].
Qed.

Lemma in_sync_iff (s : sstate) sd : in_sync s sd <-> flags_equal s sd = true.
Proof. symmetry. apply flags_equal_calm. Qed.

Lemma fb_read_lst (d : ndesc) (e : lenv) p : lst (snd (fb_read d e) p) = lst (e p).
Proof.
  unfold fb_read. destruct (nfb d) as [src|]; [|reflexivity]. destruct (clamp (e (nid d))); [|reflexivity].
  cbn. unfold set_clamp, lupd. destruct (Nat.eqb p (nid d)) eqn:E; [apply Nat.eqb_eq in E; subst; reflexivity|reflexivity].
Qed.
Lemma gather_fb_read (m : model) (d : ndesc) (e : lenv) ext k : gather_ll m (snd (fb_read d e)) ext k = gather_ll m e ext k.
Proof. unfold gather_ll. f_equal. f_equal. apply map_ext. intros p. apply fb_read_lst. Qed.

Section Calm.
Variable m : model.
Variable sm : nat -> option subm.

(* the reading of a calm receiver is ProxySem's reading *)
Lemma cdn_calm (d : ndesc) (s : sstate) :
  (forall sd, sm (nid d) = Some sd -> nfb d = Some (FbModel (s_outs sd)) /\ calm_at (fl s) sd) ->
  cdn sm d s = (fst (fb_read d (le s)), mkSS (snd (fb_read d (le s))) (fl s) (cn s), true).
Proof.
  intros Hc. unfold cdn. destruct (sm (nid d)) as [sd|].
  - destruct (Hc sd eq_refl) as [Hfb Hcalm]. unfold fb_read. rewrite Hfb. destruct (clamp (le s (nid d))); [reflexivity|].
    rewrite (proj2 (flags_equal_calm s sd) Hcalm). destruct s; reflexivity.
  - destruct (fb_read d (le s)); reflexivity.
Qed.

Lemma call_calm ext (d : ndesc) (s : sstate) :
  (forall sd, sm (nid d) = Some sd -> nfb d = Some (FbModel (s_outs sd)) /\ calm_at (fl s) sd) ->
  call_node_s m sm ext s d =
  (mkSS (fst (call_node_ll m ext (le s) d)) (if snd (call_node_ll m ext (le s) d) then flip (fl s) (nid d) else fl s) (bump (cn s) (nid d)),
   snd (call_node_ll m ext (le s) d)).
Proof.
  intros Hc. unfold call_node_s, node_call, call_node_ll. rewrite (cdn_calm d s Hc).
  pose proof (gather_fb_read m d (le s) ext (nid d)) as Hg.
  destruct (fb_read d (le s)) as [fb e1]. cbn [fst snd] in *. unfold apply_node. cbn [le fl cn]. rewrite Hg.
  destruct (nfwd d (lst (e1 (nid d))) (lhid (e1 (nid d))) (gather_ll m (le s) ext (nid d)) fb) as [[s' h']|]; reflexivity.
Qed.

Lemma flipped_cons (d : ndesc) pre f n : ~ In (nid d) (map nid pre) -> flipped (d :: pre) f n = flipped pre (flip f (nid d)) n.
Proof.
  intros Hn. unfold flipped, flip. cbn [map memb existsb]. fold (memb n (map nid pre)).
  destruct (Nat.eqb n (nid d)) eqn:E.
  - apply Nat.eqb_eq in E. subst n. rewrite (memb_not_In _ _ Hn). reflexivity.
  - cbn. reflexivity.
Qed.

Lemma calm_ext f g sd : (forall n, f n = g n) -> calm_at f sd -> calm_at g sd.
Proof. intros He Hc a b Ha Hb. rewrite <- !He. apply Hc; assumption. Qed.

(* forward over a list of nodes along which every receiver is calm when it reads *)
Lemma forward_calm ext : forall ds (s : sstate), NoDup (map nid ds) ->
  (forall pre d suf sd, ds = pre ++ d :: suf -> sm (nid d) = Some sd ->
     nfb d = Some (FbModel (s_outs sd)) /\ calm_at (flipped pre (fl s)) sd) ->
  exists f c,
    forward_from_s m sm ext ds s = (mkSS (fst (forward_from_ll m ext ds (le s))) f c, snd (forward_from_ll m ext ds (le s))) /\
    (snd (forward_from_ll m ext ds (le s)) = true ->
     forall n, f n = flipped ds (fl s) n /\ c n = cn s n + (if memb n (map nid ds) then 1 else 0)).
Proof.
  induction ds as [|d rest IH]; intros s Hnd Hp.
  - exists (fl s), (cn s). cbn. destruct s. split; [reflexivity|]. intros _ n. cbn. split; [reflexivity|lia].
  - cbn [forward_from_s forward_from_ll]. inversion Hnd as [|? ? Hni Hnd']. subst.
    rewrite (call_calm ext d s).
    2:{ intros sd Hsd. destruct (Hp [] d rest sd eq_refl Hsd) as [Hfb Hc]. split; [assumption|].
        intros a b Ha Hb. apply (Hc a b Ha Hb). }
    destruct (call_node_ll m ext (le s) d) as [e1 ok]. cbn [fst snd]. destruct ok.
    + destruct (IH (mkSS e1 (flip (fl s) (nid d)) (bump (cn s) (nid d))) Hnd') as (f & c & Heq & Hq).
      { intros pre d' suf sd Hr Hsd. cbn [fl]. destruct (Hp (d :: pre) d' suf sd) as [Hfb Hc]; [rewrite Hr; reflexivity|assumption|].
        split; [assumption|]. apply (calm_ext (flipped (d :: pre) (fl s))); [|assumption].
        intros n. apply flipped_cons. intros Hi. apply Hni. rewrite Hr, map_app. apply in_or_app. left. assumption. }
      cbn [le fl cn] in *. exists f, c. split; [assumption|]. intros Hok n. destruct (Hq Hok n) as [Hf Hc].
      split; [rewrite Hf; symmetry; apply flipped_cons; assumption|]. rewrite Hc. unfold bump. cbn [map memb existsb]. fold (memb n (map nid rest)).
      destruct (Nat.eqb n (nid d)) eqn:E; [|cbn; reflexivity].
      apply Nat.eqb_eq in E. subst n. rewrite (memb_not_In _ _ Hni). cbn. lia.
    + exists (fl s), (bump (cn s) (nid d)). split; [reflexivity|discriminate].
Qed.

(* with_feedback only touches proxies and clamps *)
Lemma with_fb_sim forced sf (body_s : sstate -> sstate * bool) (body_l : lenv -> lenv * bool) f0 c0
      (Q : (nat -> bool) -> (nat -> nat) -> Prop) :
  (forall e, exists f c, body_s (mkSS e f0 c0) = (mkSS (fst (body_l e)) f c, snd (body_l e)) /\ (snd (body_l e) = true -> Q f c)) ->
  forall ds e, exists f c,
    with_feedback_s forced sf ds body_s (mkSS e f0 c0) =
      (mkSS (fst (with_feedback_ll forced sf ds body_l e)) f c, snd (with_feedback_ll forced sf ds body_l e)) /\
    (snd (with_feedback_ll forced sf ds body_l e) = true -> Q f c).
Proof.
  intros Hb. induction ds as [|d rest IH]; intros e; cbn [with_feedback_s with_feedback_ll]; [apply Hb|].
  unfold on_le at 1. cbn [le fl cn]. destruct (IH (fb_enter forced e d)) as (f & c & Heq & HQ). rewrite Heq.
  destruct (with_feedback_ll forced sf rest body_l (fb_enter forced e d)) as [e2 ok]. cbn [fst snd] in *.
  exists f, c. split; [reflexivity|assumption].
Qed.

(* every receiver of the model with a sub-model sender: feedback declared consistently, all nodes of the sender belong to
   the model, and the receiver is called before all of them or after all of them *)
Definition placed : Prop :=
  forall pre d suf sd, order m = pre ++ d :: suf -> sm (nid d) = Some sd ->
    nfb d = Some (FbModel (s_outs sd)) /\
    (forall n, In n (s_nodes sd) -> In n (ids_of m)) /\
    ((forall n, In n (s_nodes sd) -> In n (map nid pre)) \/ (forall n, In n (s_nodes sd) -> ~ In n (map nid pre))).
(* in_sync, for every such sender *)
Definition synced (f : nat -> bool) : Prop :=
  forall pre d suf sd, order m = pre ++ d :: suf -> sm (nid d) = Some sd -> calm_at f sd.

Lemma placed_calm f : placed -> synced f ->
  forall pre d suf sd, order m = pre ++ d :: suf -> sm (nid d) = Some sd ->
    nfb d = Some (FbModel (s_outs sd)) /\ calm_at (flipped pre f) sd.
Proof.
  intros Hpl Hsy pre d suf sd Ho Hsd. destruct (Hpl pre d suf sd Ho Hsd) as (Hfb & _ & Hpos). split; [assumption|].
  pose proof (Hsy pre d suf sd Ho Hsd) as Hc. intros a b Ha Hb. unfold flipped. destruct Hpos as [Hin|Hout].
  - rewrite (proj2 (memb_In _ _) (Hin a Ha)), (proj2 (memb_In _ _) (Hin b Hb)). f_equal. apply Hc; assumption.
  - rewrite (memb_not_In _ _ (Hout a Ha)), (memb_not_In _ _ (Hout b Hb)). apply Hc; assumption.
Qed.

Lemma synced_flipped f g : placed -> synced f -> (forall n, g n = flipped (order m) f n) -> synced g.
Proof.
  intros Hpl Hsy Hg pre d suf sd Ho Hsd a b Ha Hb. destruct (Hpl pre d suf sd Ho Hsd) as (_ & Hin & _).
  rewrite !Hg. unfold flipped. fold (ids_of m).
  rewrite (proj2 (memb_In _ _) (Hin a Ha)), (proj2 (memb_In _ _) (Hin b Hb)). f_equal. apply (Hsy pre d suf sd Ho Hsd); assumption.
Qed.

(* (a) one complete step of Model._run *)
Theorem step_calm forced ext e f0 c0 : NoDup (ids_of m) -> placed -> synced f0 ->
  exists f c,
    step_s m sm forced ext (mkSS e f0 c0) = (mkSS (fst (step_ll m forced ext e)) f c, snd (step_ll m forced ext e)) /\
    (snd (step_ll m forced ext e) = true ->
     synced f /\ forall n, c n = c0 n + (if memb n (ids_of m) then 1 else 0)).
Proof.
  intros Hnd Hpl Hsy. unfold step_s, step_ll.
  destruct (with_fb_sim forced false (forward_s m sm ext) (forward_ll m ext) f0 c0
              (fun f c => forall n, f n = flipped (order m) f0 n /\ c n = c0 n + (if memb n (ids_of m) then 1 else 0))) with (ds := order m) (e := e)
    as (f & c & Heq & HQ).
  { intros e'. unfold forward_s, forward_ll.
    destruct (forward_calm ext (order m) (mkSS e' f0 c0) Hnd) as (f & c & Heq & Hq); [apply placed_calm; assumption|].
    exists f, c. split; [exact Heq|exact Hq]. }
  rewrite Heq. destruct (with_feedback_ll forced false (order m) (forward_ll m ext) e) as [e1 ok]. cbn [fst snd] in *.
  exists f, c. destruct ok; (split; [reflexivity|]); [|discriminate].
  intros _. split; [apply (synced_flipped f0); [assumption|assumption|intros n; apply HQ; reflexivity]|intros n; apply HQ; reflexivity].
Qed.

Lemma run_steps_calm : NoDup (ids_of m) -> placed -> forall steps e f0 c0, synced f0 ->
  exists f c,
    run_steps_s m sm steps (mkSS e f0 c0) =
      (mkSS (fst (fst (run_steps_ll m steps e))) f c, snd (fst (run_steps_ll m steps e)), snd (run_steps_ll m steps e)) /\
    (snd (run_steps_ll m steps e) = true ->
     synced f /\ forall n, c n = c0 n + (if memb n (ids_of m) then length steps else 0)).
Proof.
  intros Hnd Hpl. induction steps as [|[ext forced] steps IH]; intros e f0 c0 Hsy; cbn [run_steps_s run_steps_ll].
  - exists f0, c0. split; [reflexivity|]. intros _. split; [assumption|]. intros n. cbn. destruct (memb n (ids_of m)); lia.
  - destruct (step_calm forced ext e f0 c0 Hnd Hpl Hsy) as (f1 & c1 & Heq & Hq). rewrite Heq.
    destruct (step_ll m forced ext e) as [e1 ok1]. cbn [fst snd] in *. destruct ok1.
    + destruct (Hq eq_refl) as [Hsy1 Hc1]. destruct (IH e1 f1 c1 Hsy1) as (f2 & c2 & Heq2 & Hq2). rewrite Heq2.
      destruct (run_steps_ll m steps e1) as [[e2 o2] ok2]. cbn [fst snd le] in *. exists f2, c2. split; [reflexivity|].
      intros Hok. destruct (Hq2 Hok) as [Hsy2 Hc2]. split; [assumption|]. intros n. rewrite Hc2, Hc1. cbn [length].
      destruct (memb n (ids_of m)); lia.
    + exists f1, c1. split; [reflexivity|discriminate].
Qed.

(* (a)+(b) Model.run on one sequence, from rest and in sync: the mechanism with the flag bits computes ModelSem's run - in which
   every receiver is handed [fbvalue], the sender's output nodes' states at the end of the previous step (C05_unforced_submodel_sender) -,
   ends at rest and in sync, and has entered the forward function of every node of the model exactly once per step. *)
Theorem run_calm steps (s : sstate) : NoDup (ids_of m) -> placed -> synced (fl s) -> at_rest (le s) ->
  let '(s', outs_s, ok_s) := run_s m sm steps s in
  let '(e', outs, ok) := run_steps m steps (abs (le s)) in
  outs_s = outs /\ ok_s = ok /\ R (le s') e' /\ at_rest (le s') /\
  (ok = true -> synced (fl s') /\ forall n, cn s' n = cn s n + (if memb n (ids_of m) then length steps else 0)).
Proof.
  intros Hnd Hpl Hsy Hrest. unfold run_s. destruct s as [e f0 c0]. unfold on_le at 1. cbn [le fl cn] in *.
  destruct (run_steps_calm Hnd Hpl steps (load_proxys m true e) f0 c0 Hsy) as (f & c & Heq & Hq). rewrite Heq.
  pose proof (run_ll_sim m steps e (abs e) Hnd Hrest (R_abs e)) as Hsim. unfold run_ll in Hsim.
  destruct (run_steps_ll m steps (load_proxys m true e)) as [[e1 o1] ok1]. cbn [fst snd] in *.
  destruct (run_steps m steps (abs e)) as [[e' outs] ok]. unfold on_le. cbn [le fl cn].
  destruct Hsim as (-> & -> & HR & Hr). repeat (split; [assumption || reflexivity|]). exact Hq.
Qed.

End Calm.

(* (b) the local fact: a calm receiver reached after any prefix of the step has run reads the proxies its sender's output nodes
   held when the step began (FbModel analogue of Refine_proofs.fb_read_frozen) *)
Lemma cdn_reads_frozen (m : model) sm ext pre (d : ndesc) sd (s : sstate) (elin elmid : lenv) ok :
  sm (nid d) = Some sd -> calm_at (fl s) sd -> clamp (elin (nid d)) = None ->
  (forall o, In o (s_outs sd) -> proxy (elin o) = Some (lst (elin o)) \/ (proxy (elin o) = None /\ ~ In o (map nid pre))) ->
  forward_from_ll m ext pre elin = (elmid, ok) -> le s = elmid ->
  fb_seen sm d s = Some (concat (map (fun o => lst (elin o)) (s_outs sd))).
Proof.
  intros Hsd Hc Hcl Ho Hf Hle. destruct (forward_from_ll_fields _ _ _ _ _ _ Hf) as (P & C & Fr).
  unfold fb_seen, cdn. rewrite Hsd, Hle, (C _ Hcl). rewrite <- Hle, (proj2 (flags_equal_calm s sd) Hc). cbn [fst]. rewrite Hle.
  f_equal. f_equal. apply map_ext_in. intros o Hin. unfold state_proxy. rewrite P.
  destruct (Ho o Hin) as [->|(-> & Hn)]; [reflexivity|]. rewrite (Fr o Hn). reflexivity.
Qed.

End General.

(* ---------------------------------------------------------------------------------------------------------------
   S. Three nodes R (0, the receiver), A (1), B (2); sender A >> B (input A, output B, reduced sender = B alone);
   ARBITRARY forward functions and node states. *)
Section Three.
Context {F : Type} `{Num F}.
Notation vec := (list F).
Notation hidden := (@hidden F).
Variables fr fa fb : vec -> hidden -> vec -> option vec -> option (vec * hidden).

Definition dR3 : @ndesc F := mkND 0 fr (Some (FbModel [2])) 1.
Definition dA3 : @ndesc F := mkND 1 fa None 1.
Definition dB3 : @ndesc F := mkND 2 fb None 1.
Definition sd3 : @subm F := mkSub [1; 2] [1] [2] [dB3] (fun n => match n with 2 => [1] | _ => [] end).
Definition sm3 (n : nat) : option (@subm F) := match n with 0 => Some sd3 | _ => None end.
Definition env3 (xr xa xb : @lnode F) : @lenv F :=
  fun n => match n with 0 => xr | 1 => xa | 2 => xb | _ => mkLN [] [] None None end.
Definition fl3 (a b c : bool) : nat -> bool := fun n => match n with 0 => a | 1 => b | 2 => c | _ => true end.
Definition cn3 (a b c : nat) : nat -> nat := fun n => match n with 0 => a | 1 => b | 2 => c | _ => 0 end.
(* what is observed of a result: success, the three node records, the three flags, the three entry counters *)
Definition obs3 (r : @sstate F * bool) :=
  (snd r, map (le (fst r)) [0; 1; 2], map (fl (fst r)) [0; 1; 2], map (cn (fst r)) [0; 1; 2]).
Definition nofb : nat -> option vec := fun _ => None.
Definition ext1 (x : vec) : nat -> option vec := fun n => match n with 1 => Some x | _ => None end.
Definition ext0 (x : vec) : nat -> option vec := fun n => match n with 0 => Some x | _ => None end.
(* between two steps of a run: a node of the model holds its state as proxy *)
Definition held (s : vec) (h : hidden) : @lnode F := mkLN s h (Some s) None.
Definition bare (s : vec) (h : hidden) : @lnode F := mkLN s h None None.

(* the model a >> R >> b: execution order A, R, B - the receiver sits BETWEEN the nodes of its sender *)
Definition m_straddle : @model F := mkModel [dA3; dR3; dB3] (fun n => match n with 0 => [1] | 2 => [0] | _ => [] end) [0; 1; 2].

(* STRADDLING, a step taken IN SYNC (fl A = fl B = q): A has flipped when R reads, so the reduced sender is re-run on A's
   PROXY [sa] (A's output of the previous step): R is handed B(sa), computed from B's state - NOT the sender's previous
   output [sb]; B is entered twice in the step (its second call starts from sb1), and the flags end up OUT of sync. *)
Ltac ev := lazy -[app]; rewrite ?app_nil_l, ?app_nil_r.
Ltac nx H := rewrite H; cbv beta iota; rewrite ?app_nil_l, ?app_nil_r.

Theorem straddle_sync_step x sr hr sa ha sb hb p q c0 c1 c2 sa' ha' sb1 hb1 sr' hr' sb2 hb2 :
  fa sa ha x None = Some (sa', ha') ->
  fb sb hb sa None = Some (sb1, hb1) ->
  fr sr hr sa' (Some sb1) = Some (sr', hr') ->
  fb sb1 hb1 sr' None = Some (sb2, hb2) ->
  obs3 (step_s m_straddle sm3 nofb (ext1 x) (mkSS (env3 (held sr hr) (held sa ha) (held sb hb)) (fl3 p q q) (cn3 c0 c1 c2))) =
  (true, [held sr' hr'; held sa' ha'; held sb2 hb2], [negb p; negb q; q], [S c0; S c1; S (S c2)]).
Proof.
  intros Ha Hb1 Hr Hb2. destruct q; ev; nx Ha; nx Hb1; nx Hr; nx Hb2; reflexivity.
Qed.

(* STRADDLING, a step taken OUT of sync (fl A <> fl B): once A has flipped the flags agree, R is handed B's frozen proxy [sb] =
   the sender's output of the previous step, every node is entered once, and the flags stay out of sync: this state is
   the stable one for a straddling receiver. *)
Theorem straddle_antisync_step x sr hr sa ha sb hb p q c0 c1 c2 sa' ha' sr' hr' sb' hb' :
  fa sa ha x None = Some (sa', ha') ->
  fr sr hr sa' (Some sb) = Some (sr', hr') ->
  fb sb hb sr' None = Some (sb', hb') ->
  obs3 (step_s m_straddle sm3 nofb (ext1 x) (mkSS (env3 (held sr hr) (held sa ha) (held sb hb)) (fl3 p q (negb q)) (cn3 c0 c1 c2))) =
  (true, [held sr' hr'; held sa' ha'; held sb' hb'], [negb p; negb q; q], [S c0; S c1; S c2]).
Proof.
  intros Ha Hr Hb. destruct q; ev; nx Ha; nx Hr; nx Hb; reflexivity.
Qed.

(* the model a >> R with B OUTSIDE the model (never called by the forward pass) *)
Definition m_outside_after : @model F := mkModel [dA3; dR3] (fun n => match n with 0 => [1] | _ => [] end) [0; 1].

(* PARTLY OUTSIDE, receiver after the inside node, step taken in sync: A's flip makes the flags differ, the reduced sender B
   is run ONCE on A's proxy [sa] - A's output of the previous step -: R is handed B(sa), the lazily recomputed output of
   the sender, B is entered once, and the flags are in sync again. *)
Theorem outside_after_step x sr hr sa ha sb hb p q c0 c1 c2 sa' ha' sb' hb' sr' hr' :
  fa sa ha x None = Some (sa', ha') ->
  fb sb hb sa None = Some (sb', hb') ->
  fr sr hr sa' (Some sb') = Some (sr', hr') ->
  obs3 (step_s m_outside_after sm3 nofb (ext1 x) (mkSS (env3 (held sr hr) (held sa ha) (bare sb hb)) (fl3 p q q) (cn3 c0 c1 c2))) =
  (true, [held sr' hr'; held sa' ha'; bare sb' hb'], [negb p; negb q; negb q], [S c0; S c1; S c2]).
Proof.
  intros Ha Hb Hr. destruct q; ev; nx Ha; nx Hb; nx Hr; reflexivity.
Qed.

(* the model R >> a with B outside: execution order R, A *)
Definition m_outside_before : @model F := mkModel [dR3; dA3] (fun n => match n with 1 => [0] | _ => [] end) [0; 1].

(* PARTLY OUTSIDE, receiver before the inside node.  In sync (first step after both were called equally often): R is handed B's
   state as it is (the pre-existing output), B is not entered; A's flip leaves the flags out of sync ... *)
Theorem outside_before_sync_step x sr hr sa ha sb hb p q c0 c1 c2 sr' hr' sa' ha' :
  fr sr hr x (Some sb) = Some (sr', hr') ->
  fa sa ha sr' None = Some (sa', ha') ->
  obs3 (step_s m_outside_before sm3 nofb (ext0 x) (mkSS (env3 (held sr hr) (held sa ha) (bare sb hb)) (fl3 p q q) (cn3 c0 c1 c2))) =
  (true, [held sr' hr'; held sa' ha'; bare sb hb], [negb p; negb q; q], [S c0; S c1; c2]).
Proof.
  intros Hr Ha. destruct q; ev; nx Hr; nx Ha; reflexivity.
Qed.
(* ... and out of sync (every later step): the reduced sender is run once on A's proxy: R is handed B(sa), and the flags are
   out of sync again after A's call: the stable state of this placement. *)
Theorem outside_before_antisync_step x sr hr sa ha sb hb p q c0 c1 c2 sb' hb' sr' hr' sa' ha' :
  fb sb hb sa None = Some (sb', hb') ->
  fr sr hr x (Some sb') = Some (sr', hr') ->
  fa sa ha sr' None = Some (sa', ha') ->
  obs3 (step_s m_outside_before sm3 nofb (ext0 x) (mkSS (env3 (held sr hr) (held sa ha) (bare sb hb)) (fl3 p q (negb q)) (cn3 c0 c1 c2))) =
  (true, [held sr' hr'; held sa' ha'; bare sb' hb'], [negb p; negb q; q], [S c0; S c1; S c2]).
Proof.
  intros Hb Hr Ha. destruct q; ev; nx Hb; nx Hr; nx Ha; reflexivity.
Qed.

End Three.

(* ---------------------------------------------------------------------------------------------------------------
   W. Computed witnesses at Q. *)
From Coq Require Import QArith.
From RV Require Import model.Kinds.
Close Scope Q_scope.

(* the scenario of the open findings `submodel-sender:flag-parity-desync:*` (tools/props/c05.py, _judge_flag_parity):
   model r >> a >> b, r <<= (a >> b), r: x + fb/8, a and b accumulators *)
Definition fpR : ndesc (F:=Q) := mkND 0 (kfwd (KFbAdd (1#8)%Q)) (Some (FbModel [2])) 1.
Definition fpA : ndesc (F:=Q) := mkND 1 (kfwd KAcc) None 1.
Definition fpB : ndesc (F:=Q) := mkND 2 (kfwd KAcc) None 1.
Definition fpBboom : ndesc (F:=Q) := mkND 2 (fun _ _ _ _ => None) None 1.          (* b's forward raises *)
Definition fp_par (n : nat) : list nat := match n with 1 => [0] | 2 => [1] | _ => [] end.
Definition fp_model : model (F:=Q) := mkModel [fpR; fpA; fpB] fp_par [0; 1; 2].
Definition fp_model_boom : model (F:=Q) := mkModel [fpR; fpA; fpBboom] fp_par [0; 1; 2].
Definition fp_sub (b : ndesc (F:=Q)) : subm (F:=Q) := mkSub [1; 2] [1] [2] [b] (fun n => match n with 2 => [1] | _ => [] end).
Definition fp_sm (n : nat) : option (subm (F:=Q)) := match n with 0 => Some (fp_sub fpB) | _ => None end.
Definition fp_sm_boom (n : nat) : option (subm (F:=Q)) := match n with 0 => Some (fp_sub fpBboom) | _ => None end.
Definition fp_steps (xs : list Q) : list ((nat -> option (list Q)) * (nat -> option (list Q))) :=
  map (fun x => ((fun n => match n with 0 => Some [x] | _ => None end), (fun _ : nat => @None (list Q)))) xs.
Definition fp_X := fp_steps [1%Q; 2%Q; 3%Q].
(* after a first complete run from freshly built nodes *)
Definition fp_s1 : sstate (F:=Q) := fst (fst (run_s fp_model fp_sm fp_X (fresh (fun _ => mkLN [0%Q] [] None None)))).
(* ... then ONE stand-alone call b(0) *)
Definition fp_s2 : sstate (F:=Q) := fst (node_call fp_sm fpB [0%Q] fp_s1).
(* ... or a run whose first step raises inside b, after r and a were called *)
Definition fp_s2' : sstate (F:=Q) := fst (fst (run_s fp_model_boom fp_sm_boom fp_X fp_s1)).
(* the value r is handed at the first step of the next run (r is called first), and how often b is entered by that run *)
Definition fp_first_read (s : sstate (F:=Q)) : option (list Q) := fb_seen fp_sm fpR (on_le (load_proxys fp_model true) s).
Definition fp_b_entries (s : sstate (F:=Q)) : nat := cn (fst (fst (run_s fp_model fp_sm fp_X s))) 2 - cn s 2.

Definition rest3 (s : sstate (F:=Q)) : bool :=
  forallb (fun n => match proxy (le s n), clamp (le s n) with None, None => true | _, _ => false end) [0; 1; 2].

(* in sync, the next run hands r the sender's pre-existing output and enters b once per step; after ONE stand-alone call of b the
   flags disagree (everything else is at rest), the next run's first step hands r something else and b is entered 4 times in 3 steps *)
Lemma fp_desync_standalone :
  flags_equal fp_s1 (fp_sub fpB) = true /\ fp_first_read fp_s1 = Some (lst (le fp_s1 2)) /\ fp_b_entries fp_s1 = 3 /\
  flags_equal fp_s2 (fp_sub fpB) = false /\ rest3 fp_s2 = true /\
  fp_first_read fp_s2 <> Some (lst (le fp_s2 2)) /\ fp_b_entries fp_s2 = 4.
Proof. vm_compute. repeat split; try reflexivity. discriminate. Qed.

(* the same after a step aborted inside b: the proxies are washed (at rest), the flags are not *)
Lemma fp_desync_failed_step :
  snd (run_s fp_model_boom fp_sm_boom fp_X fp_s1) = false /\
  flags_equal fp_s2' (fp_sub fpB) = false /\ rest3 fp_s2' = true /\
  fp_first_read fp_s2' <> Some (lst (le fp_s2' 2)) /\ fp_b_entries fp_s2' = 4.
Proof. vm_compute. repeat split; try reflexivity. discriminate. Qed.

(* STRADDLING receiver on freshly built nodes: model a >> r >> b, r <<= (a >> b), a: identity, b: 2x + 1, r: x + 100 fb.
   At the first step r is handed b(a's zero state) = 1 although the sender's pre-existing output is 0 (all states are zero), and
   b's forward is entered 4 times by a 3-step run; from the second step on r is handed b's previous output. *)
Definition stA : ndesc (F:=Q) := mkND 1 (kfwd (KFun 1%Q 0%Q)) None 1.
Definition stB : ndesc (F:=Q) := mkND 2 (kfwd (KFun 2%Q 1%Q)) None 1.
Definition stR : ndesc (F:=Q) := mkND 0 (kfwd (KFbAdd 100%Q)) (Some (FbModel [2])) 1.
Definition st_model : model (F:=Q) := mkModel [stA; stR; stB] (fun n => match n with 0 => [1] | 2 => [0] | _ => [] end) [0; 1; 2].
Definition st_sm (n : nat) : option (subm (F:=Q)) :=
  match n with 0 => Some (mkSub [1; 2] [1] [2] [stB] (fun n => match n with 2 => [1] | _ => [] end)) | _ => None end.
Definition st_X : list ((nat -> option (list Q)) * (nat -> option (list Q))) :=
  map (fun x => ((fun n => match n with 1 => Some [x] | _ => None end), (fun _ : nat => @None (list Q)))) [1%Q; 2%Q; 4%Q].
Definition st_s0 : sstate (F:=Q) := fresh (fun _ => mkLN [0%Q] [] None None).
(* the state in which r reads at the first step: proxies loaded, a called *)
Definition st_mid : sstate (F:=Q) :=
  fst (call_node_s st_model st_sm (fun n => match n with 1 => Some [1%Q] | _ => None end) (on_le (load_proxys st_model true) st_s0) stA).

Lemma straddle_witness :
  (forall a b, In a [1; 2] -> In b [1; 2] -> fl st_s0 a = fl st_s0 b) /\ lst (le st_s0 2) = [0%Q] /\
  fb_seen st_sm stR st_mid = Some [1%Q] /\
  (let '(s, outs, ok) := run_s st_model st_sm st_X st_s0 in
   (ok, outs, cn s 2, map (fl s) [1; 2])) =
  (true, [[[101%Q]; [1%Q]; [203%Q]]; [[20302%Q]; [2%Q]; [40605%Q]]; [[4060504%Q]; [4%Q]; [8121009%Q]]], 4, [false; true]).
Proof. split; [intros a b _ _; reflexivity|]. vm_compute. repeat split; reflexivity. Qed.

(* the same facts with in_sync as a proposition *)
Lemma desync_standalone_statement :
  in_sync fp_s1 (fp_sub fpB) /\ fp_first_read fp_s1 = Some (lst (le fp_s1 2)) /\ fp_b_entries fp_s1 = 3 /\
  fp_s2 = fst (node_call fp_sm fpB [0%Q] fp_s1) /\
  ~ in_sync fp_s2 (fp_sub fpB) /\ rest3 fp_s2 = true /\
  fp_first_read fp_s2 <> Some (lst (le fp_s2 2)) /\ fp_b_entries fp_s2 = 4.
Proof.
  destruct fp_desync_standalone as (H1 & H2 & H3 & H4 & H5 & H6 & H7).
  split; [apply in_sync_iff; exact H1|]. split; [exact H2|]. split; [exact H3|]. split; [reflexivity|].
  split; [intros Hs; apply in_sync_iff in Hs; exact (eq_true_false_abs _ Hs H4)|].
  split; [exact H5|]. split; [exact H6|exact H7].
Qed.
Lemma desync_failed_step_statement :
  fp_s2' = fst (fst (run_s fp_model_boom fp_sm_boom fp_X fp_s1)) /\ snd (run_s fp_model_boom fp_sm_boom fp_X fp_s1) = false /\
  ~ in_sync fp_s2' (fp_sub fpB) /\ rest3 fp_s2' = true /\
  fp_first_read fp_s2' <> Some (lst (le fp_s2' 2)) /\ fp_b_entries fp_s2' = 4.
Proof.
  destruct fp_desync_failed_step as (H1 & H2 & H3 & H4 & H5).
  split; [reflexivity|]. split; [exact H1|].
  split; [intros Hs; apply in_sync_iff in Hs; exact (eq_true_false_abs _ Hs H2)|].
  split; [exact H3|]. split; [exact H4|exact H5].
Qed.

(* non-vacuity of the general theorems on the findings' model *)
Lemma subsender_example :
  NoDup (ids_of fp_model) /\ placed fp_model fp_sm /\ synced fp_model fp_sm (fun _ => true) /\
  (let '(_, outs, ok) := run_s fp_model fp_sm fp_X (fresh (fun _ => mkLN [0%Q] [] None None)) in (ok, outs)) =
  (true, [[[1%Q]; [1%Q]; [1%Q]]; [[(17#8)%Q]; [(25#8)%Q]; [(33#8)%Q]]; [[(225#64)%Q]; [(425#64)%Q]; [(689#64)%Q]]]).
Proof.
  split; [repeat constructor; cbn; intuition congruence|].
  split.
  - intros pre d suf sd Ho Hsd.
    assert (Hd : d = fpR /\ pre = []).
    { destruct pre as [|p0 [|p1 [|p2 pre]]]; cbn in Ho; inversion Ho; subst; cbn in Hsd; try discriminate; [split; reflexivity|].
      destruct pre; discriminate. }
    destruct Hd as [-> ->]. cbn in Hsd. inversion Hsd; subst. split; [reflexivity|]. split.
    + intros n [<-|[<-|[]]]; cbn; auto.
    + right. intros n _ [].
  - split; [intros pre d suf sd _ _ a b _ _; reflexivity|]. vm_compute. reflexivity.
Qed.
