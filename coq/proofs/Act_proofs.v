(* C18 — lemmas about the GENERATED definitions gen/Gen_activations.v (translated from
   reservoirpy/activationsfunc.py by tools/vlib/py2coq_act.py).  The proofs are scripts against the shape the
   translator emits for the current source: a changed source changes the definitions and these scripts are re-checked. *)
From Coq Require Import Reals List Lra Lia.
From Coq Require String.
From RV Require Import model.ActPrelude gen.Gen_activations.
Import ListNotations.
Local Open Scope R_scope.

(* ------------------------------------------------------------------------------------------ list reductions *)
Lemma lsum_app (a b : list R) : lsum (a ++ b) = lsum a + lsum b.
Proof. induction a as [|x a IH]; simpl; [lra | rewrite IH; lra]. Qed.

Lemma lsum_map_div (l : list R) (s : R) : lsum (map (fun t => t / s) l) = lsum l / s.
Proof. induction l as [|a l IH]; simpl; [unfold Rdiv; lra | rewrite IH; unfold Rdiv; lra]. Qed.

Lemma lsum_map_mul (f : R -> R) (l : list R) (k : R) : lsum (map (fun t => f t * k) l) = lsum (map f l) * k.
Proof. induction l as [|a l IH]; simpl; [lra | rewrite IH; lra]. Qed.

Lemma lsum_nonneg (l : list R) : Forall (fun t => 0 <= t) l -> 0 <= lsum l.
Proof. induction 1; simpl; lra. Qed.

Lemma lsum_pos (l : list R) : l <> [] -> Forall (fun t => 0 < t) l -> 0 < lsum l.
Proof.
  intros Hne Hf. destruct Hf as [|a l Ha Hl]; [congruence|]. simpl.
  assert (0 <= lsum l) by (apply lsum_nonneg; eapply Forall_impl; [|exact Hl]; simpl; intros; lra). lra.
Qed.

Lemma lsum_le_length (l : list R) : Forall (fun t => t <= 1) l -> lsum l <= INR (length l).
Proof.
  induction 1 as [|a l Ha Hl IH]; [simpl; lra|].
  change (length (a :: l)) with (S (length l)). rewrite S_INR. simpl. lra.
Qed.

Lemma lsum_ge_member (l : list R) (m : R) : Forall (fun t => 0 <= t) l -> In m l -> m <= lsum l.
Proof.
  induction 1 as [|a l Ha Hl IH]; simpl; [tauto|]. intros [->|Hin].
  - assert (0 <= lsum l) by (apply lsum_nonneg; exact Hl). lra.
  - specialize (IH Hin). lra.
Qed.

Lemma lmax_cons (a b : R) (r : list R) : lmax (a :: b :: r) = Rmax a (lmax (b :: r)).
Proof. reflexivity. Qed.

Lemma lmax_ge (l : list R) (t : R) : In t l -> t <= lmax l.
Proof.
  induction l as [|a r IH]; [intros []|]. destruct r as [|b r].
  - simpl. intros [->|[]]. lra.
  - rewrite lmax_cons. intros [->|Hin]; [apply Rmax_l|]. eapply Rle_trans; [apply IH; exact Hin | apply Rmax_r].
Qed.

Lemma lmax_in (l : list R) : l <> [] -> In (lmax l) l.
Proof.
  induction l as [|a r IH]; [congruence|]. intros _. destruct r as [|b r]; [left; reflexivity|].
  rewrite lmax_cons. apply Rmax_case_strong; intros _; [left; reflexivity | right; apply IH; discriminate].
Qed.

Lemma lmax_shift (l : list R) (c : R) : l <> [] -> lmax (map (fun t => t + c) l) = lmax l + c.
Proof.
  induction l as [|a r IH]; [congruence|]. intros _. destruct r as [|b r]; [reflexivity|].
  change (map (fun t => t + c) (a :: b :: r)) with ((a + c) :: (b + c) :: map (fun t => t + c) r).
  rewrite !lmax_cons. change ((b + c) :: map (fun t => t + c) r) with (map (fun t => t + c) (b :: r)).
  rewrite IH by discriminate. unfold Rmax.
  destruct (Rle_dec (a + c) (lmax (b :: r) + c)), (Rle_dec a (lmax (b :: r))); lra.
Qed.

Lemma exp_le (a b : R) : a <= b -> exp a <= exp b.
Proof. intros [H| ->]; [left; apply exp_increasing; exact H | lra]. Qed.

Lemma exp_le_1 (a : R) : a <= 0 -> exp a <= 1.
Proof. intros H. rewrite <- exp_0. apply exp_le; exact H. Qed.

Lemma exp_le_iff (a b : R) : exp a <= exp b <-> a <= b.
Proof.
  split; [|apply exp_le]. intros H. destruct (Rle_dec a b) as [|n]; [assumption|].
  exfalso. assert (b < a) by lra. pose proof (exp_increasing _ _ H0). lra.
Qed.

Lemma nth_map_lt (f : R -> R) (l : list R) (i : nat) (d d' : R) :
  (i < length l)%nat -> nth i (map f l) d = f (nth i l d').
Proof.
  intros Hi. rewrite (nth_indep _ d (f d')) by (rewrite map_length; exact Hi). apply map_nth.
Qed.

(* ------------------------------------------------------------------------------------------ softmax *)
(* the shape emitted for the non-empty branch, with its own name *)
Definition smax_e (x : list R) (beta : R) : list R := map (fun t => exp (beta * (t - lmax x))) x.

Lemma softmax_unfold (x : list R) (beta : R) :
  act_softmax x beta = map (fun t => t / lsum (smax_e x beta)) (smax_e x beta).
Proof. unfold act_softmax, smax_e. destruct x; reflexivity. Qed.

Lemma smax_e_pos (x : list R) (beta : R) : Forall (fun t => 0 < t) (smax_e x beta).
Proof. unfold smax_e. apply Forall_forall. intros y Hy. apply in_map_iff in Hy as [t [<- _]]. apply exp_pos. Qed.

Lemma smax_e_ne (x : list R) (beta : R) : x <> [] -> smax_e x beta <> [].
Proof. destruct x; [congruence|discriminate]. Qed.

Lemma smax_sum_pos (x : list R) (beta : R) : x <> [] -> 0 < lsum (smax_e x beta).
Proof. intros H. apply lsum_pos; [apply smax_e_ne; exact H | apply smax_e_pos]. Qed.

Lemma softmax_length (x : list R) (beta : R) : length (act_softmax x beta) = length x.
Proof. rewrite softmax_unfold. unfold smax_e. rewrite !map_length. reflexivity. Qed.

Lemma softmax_default_beta : act_softmax_default_beta = 1.
Proof. reflexivity. Qed.

Lemma softmax_empty (beta : R) : act_softmax [] beta = [].
Proof. reflexivity. Qed.

Lemma softmax_pos (x : list R) (beta : R) : Forall (fun y => 0 < y) (act_softmax x beta).
Proof.
  destruct x as [|a r]; [constructor|]. rewrite softmax_unfold.
  assert (Hs : 0 < lsum (smax_e (a :: r) beta)) by (apply smax_sum_pos; discriminate).
  apply Forall_forall. intros y Hy. apply in_map_iff in Hy as [e [<- He]].
  pose proof (proj1 (Forall_forall _ _) (smax_e_pos (a :: r) beta) e He) as Hp. simpl in Hp.
  apply Rdiv_lt_0_compat; assumption.
Qed.

Lemma softmax_nonneg (x : list R) (beta : R) : Forall (fun y => 0 <= y) (act_softmax x beta).
Proof. eapply Forall_impl; [|apply softmax_pos]. simpl. intros; lra. Qed.

Lemma softmax_sum_one (x : list R) (beta : R) : x <> [] -> lsum (act_softmax x beta) = 1.
Proof.
  intros H. rewrite softmax_unfold, lsum_map_div. pose proof (smax_sum_pos x beta H). field. lra.
Qed.

Lemma softmax_le_one (x : list R) (beta : R) : Forall (fun y => y <= 1) (act_softmax x beta).
Proof.
  destruct x as [|a r]; [constructor|].
  pose proof (softmax_sum_one (a :: r) beta ltac:(discriminate)) as H1.
  apply Forall_forall. intros y Hy. rewrite <- H1. apply lsum_ge_member; [apply softmax_nonneg | exact Hy].
Qed.

Lemma softmax_shift (x : list R) (beta c : R) : act_softmax (map (fun t => t + c) x) beta = act_softmax x beta.
Proof.
  destruct x as [|a r]; [reflexivity|]. rewrite !softmax_unfold.
  assert (E : smax_e (map (fun t => t + c) (a :: r)) beta = smax_e (a :: r) beta).
  { unfold smax_e. rewrite lmax_shift by discriminate. rewrite map_map. apply map_ext. intros t. f_equal. ring. }
  rewrite E. reflexivity.
Qed.

Lemma softmax_nth (x : list R) (beta : R) (i : nat) : (i < length x)%nat ->
  nth i (act_softmax x beta) 0 = exp (beta * (nth i x 0 - lmax x)) / lsum (smax_e x beta).
Proof.
  intros Hi. rewrite softmax_unfold. unfold smax_e at 2.
  rewrite (nth_map_lt _ _ _ 0 0) by (unfold smax_e; rewrite map_length; exact Hi).
  rewrite (nth_map_lt _ _ _ 0 0) by exact Hi. reflexivity.
Qed.

(* textbook definition: y_k = exp(beta x_k) / sum_i exp(beta x_i) *)
Lemma softmax_textbook (x : list R) (beta : R) :
  act_softmax x beta = map (fun t => exp (beta * t) / lsum (map (fun u => exp (beta * u)) x)) x.
Proof.
  destruct x as [|a r]; [reflexivity|]. rewrite softmax_unfold. set (x := a :: r).
  assert (Hx : x <> []) by discriminate.
  set (k := exp (- (beta * lmax x))).
  assert (Hk : 0 < k) by apply exp_pos.
  assert (E : smax_e x beta = map (fun t => exp (beta * t) * k) x).
  { unfold smax_e. apply map_ext. intros t. unfold k. rewrite <- exp_plus. f_equal. ring. }
  assert (S : lsum (smax_e x beta) = lsum (map (fun u => exp (beta * u)) x) * k).
  { rewrite E. apply (lsum_map_mul (fun u => exp (beta * u))). }
  assert (Hs : 0 < lsum (map (fun u => exp (beta * u)) x)).
  { apply lsum_pos; [subst x; discriminate|]. apply Forall_forall. intros y Hy.
    apply in_map_iff in Hy as [t [<- _]]. apply exp_pos. }
  rewrite S, E, map_map. apply map_ext. intros t. field. lra.
Qed.

Lemma softmax_order (x : list R) (beta : R) (i j : nat) :
  0 < beta -> (i < length x)%nat -> (j < length x)%nat ->
  (nth i x 0 <= nth j x 0 <-> nth i (act_softmax x beta) 0 <= nth j (act_softmax x beta) 0).
Proof.
  intros Hb Hi Hj. rewrite !softmax_nth by assumption.
  assert (Hx : x <> []) by (destruct x; [simpl in Hi; lia | discriminate]).
  pose proof (smax_sum_pos x beta Hx) as Hs.
  set (s := lsum (smax_e x beta)) in *.
  split; intros H.
  - apply Rmult_le_compat_r; [left; apply Rinv_0_lt_compat; exact Hs|]. apply exp_le. nra.
  - assert (exp (beta * (nth i x 0 - lmax x)) <= exp (beta * (nth j x 0 - lmax x))).
    { apply (Rmult_le_reg_r (/ s)); [apply Rinv_0_lt_compat; exact Hs | exact H]. }
    apply (proj1 (exp_le_iff _ _)) in H0. apply (Rmult_le_reg_l beta) in H0; [|exact Hb]. lra.
Qed.

(* overflow freedom on the real-valued intermediates of softmax *)
Lemma softmax_exp_args_nonpos (x : list R) (beta : R) :
  0 <= beta -> Forall (fun a => a <= 0) (act_softmax_exp_args x beta).
Proof.
  intros Hb. unfold act_softmax_exp_args. destruct x as [|a r]; [constructor|].
  apply Forall_forall. intros y Hy. apply in_map_iff in Hy as [t [<- Ht]].
  pose proof (lmax_ge _ _ Ht). nra.
Qed.

Lemma smax_e_le_1 (x : list R) (beta : R) : 0 <= beta -> Forall (fun t => t <= 1) (smax_e x beta).
Proof.
  intros Hb. unfold smax_e. apply Forall_forall. intros y Hy. apply in_map_iff in Hy as [t [<- Ht]].
  apply exp_le_1. pose proof (lmax_ge _ _ Ht). nra.
Qed.

Lemma smax_sum_bounds (x : list R) (beta : R) :
  x <> [] -> 0 <= beta -> 1 <= lsum (smax_e x beta) <= INR (length x).
Proof.
  intros Hx Hb. split.
  - apply lsum_ge_member.
    + eapply Forall_impl; [|apply smax_e_pos]. simpl; intros; lra.
    + unfold smax_e. apply in_map_iff. exists (lmax x). split; [|apply lmax_in; exact Hx].
      replace (beta * (lmax x - lmax x)) with 0 by ring. apply exp_0.
  - replace (length x) with (length (smax_e x beta)) by (unfold smax_e; apply map_length).
    apply lsum_le_length. apply smax_e_le_1. exact Hb.
Qed.

Lemma softmax_divisors_ge_1 (x : list R) (beta : R) :
  0 <= beta -> Forall (fun d => 1 <= d <= INR (length x)) (act_softmax_divisors x beta).
Proof.
  intros Hb. unfold act_softmax_divisors. destruct x as [|a r]; [constructor|].
  apply Forall_forall. intros y Hy. apply in_map_iff in Hy as [t [<- _]].
  apply (smax_sum_bounds (a :: r) beta); [discriminate | exact Hb].
Qed.

Lemma softmax_exp_args_cover (x : list R) (beta : R) :
  x <> [] -> act_softmax x beta =
    let e := map exp (act_softmax_exp_args x beta) in map (fun t => t / lsum e) e.
Proof.
  intros Hx. destruct x as [|a r]; [congruence|].
  unfold act_softmax, act_softmax_exp_args. cbv zeta. rewrite !map_map. reflexivity.
Qed.

(* ------------------------------------------------------------------------------------------ elementwise functions *)
Lemma sigmoid_def (x : R) : act_sigmoid_s x = 1 / (1 + exp (- x)).
Proof.
  unfold act_sigmoid_s. pose proof (exp_pos x) as Hp. destruct (Rlt_dec x 0); [|reflexivity].
  cbv zeta. rewrite exp_Ropp. field. split; lra.
Qed.

Lemma sigmoid_branch_neg (x : R) : x < 0 -> act_sigmoid_s x = exp x / (exp x + 1).
Proof. intros H. unfold act_sigmoid_s. destruct (Rlt_dec x 0); [reflexivity | lra]. Qed.

Lemma sigmoid_branch_pos (x : R) : 0 <= x -> act_sigmoid_s x = 1 / (1 + exp (- x)).
Proof. intros H. unfold act_sigmoid_s. destruct (Rlt_dec x 0); [lra | reflexivity]. Qed.

Lemma sigmoid_range (x : R) : 0 < act_sigmoid_s x < 1.
Proof.
  rewrite sigmoid_def. pose proof (exp_pos (- x)) as Hp.
  split.
  - apply Rdiv_lt_0_compat; lra.
  - apply (Rmult_lt_reg_r (1 + exp (- x))); [lra|]. unfold Rdiv. rewrite Rmult_assoc, Rinv_l by lra. lra.
Qed.

Lemma sigmoid_exp_args_nonpos (x : R) : Forall (fun a => a <= 0) (act_sigmoid_exp_args x).
Proof. unfold act_sigmoid_exp_args. destruct (Rlt_dec x 0); (constructor; [lra | constructor]). Qed.

Lemma sigmoid_divisors_range (x : R) : Forall (fun d => 1 <= d <= 2) (act_sigmoid_divisors x).
Proof.
  unfold act_sigmoid_divisors. destruct (Rlt_dec x 0); cbv zeta; (constructor; [split | constructor]).
  - pose proof (exp_pos x); lra.
  - pose proof (exp_le_1 x ltac:(lra)); lra.
  - pose proof (exp_pos (- x)); lra.
  - pose proof (exp_le_1 (- x) ltac:(lra)); lra.
Qed.

Lemma softplus_def (x : R) : act_softplus_s x = ln (1 + exp x).
Proof.
  unfold act_softplus_s. destruct (Rle_dec 0 x) as [H|H].
  - rewrite Rmax_left by lra. rewrite Rabs_pos_eq by lra.
    rewrite <- (ln_exp x) at 1. pose proof (exp_pos x). pose proof (exp_pos (- x)).
    rewrite <- ln_mult by lra. f_equal. rewrite exp_Ropp. field. lra.
  - rewrite Rmax_right by lra. rewrite Rabs_left by lra. rewrite Ropp_involutive. lra.
Qed.

Lemma softplus_pos (x : R) : 0 < act_softplus_s x.
Proof.
  rewrite softplus_def. rewrite <- ln_1. apply ln_increasing; [lra|]. pose proof (exp_pos x). lra.
Qed.

Lemma softplus_exp_args_nonpos (x : R) : Forall (fun a => a <= 0) (act_softplus_exp_args x).
Proof. unfold act_softplus_exp_args. constructor; [|constructor]. pose proof (Rabs_pos x). lra. Qed.

Lemma softplus_log_args_range (x : R) : Forall (fun a => 1 <= a <= 2) (act_softplus_log_args x).
Proof.
  unfold act_softplus_log_args. constructor; [split | constructor].
  - pose proof (exp_pos (- Rabs x)); lra.
  - pose proof (exp_le_1 (- Rabs x)). pose proof (Rabs_pos x). lra.
Qed.

Lemma softplus_divisors_none (x : R) : act_softplus_divisors x = [].
Proof. reflexivity. Qed.

Lemma relu_def (x : R) : act_relu_s x = Rmax x 0.
Proof.
  unfold act_relu_s. destruct (Rlt_dec x 0); [rewrite Rmax_right by lra | rewrite Rmax_left by lra]; reflexivity.
Qed.

Lemma relu_cases (x : R) : (0 < x -> act_relu_s x = x) /\ (x <= 0 -> act_relu_s x = 0).
Proof. unfold act_relu_s. destruct (Rlt_dec x 0); split; intros; lra. Qed.

Lemma identity_def (x : R) : act_identity_s x = x.
Proof. reflexivity. Qed.

Lemma tanh_def (x : list R) :
  act_tanh x = map (fun t => (exp t - exp (- t)) / (exp t + exp (- t))) x.
Proof.
  unfold act_tanh. apply map_ext. intros t. unfold tanh, sinh, cosh.
  pose proof (exp_pos t). pose proof (exp_pos (- t)). field. lra.
Qed.

Lemma tanh_range (t : R) : -1 < tanh t < 1.
Proof.
  unfold tanh, sinh, cosh. pose proof (exp_pos t). pose proof (exp_pos (- t)).
  replace ((exp t - exp (- t)) / 2 / ((exp t + exp (- t)) / 2)) with ((exp t - exp (- t)) / (exp t + exp (- t)))
    by (field; lra).
  split.
  - apply (Rmult_lt_reg_r (exp t + exp (- t))); [lra|]. unfold Rdiv. rewrite Rmult_assoc, Rinv_l by lra. lra.
  - apply (Rmult_lt_reg_r (exp t + exp (- t))); [lra|]. unfold Rdiv. rewrite Rmult_assoc, Rinv_l by lra. lra.
Qed.

(* shape: every function returns exactly one output per input element *)
Lemma elementwise_length : forall xs : list R,
  length (act_softplus xs) = length xs /\ length (act_sigmoid xs) = length xs /\ length (act_tanh xs) = length xs /\
  length (act_identity xs) = length xs /\ length (act_relu xs) = length xs.
Proof.
  intros xs. unfold act_softplus, act_sigmoid, act_tanh, act_identity, act_relu. rewrite !map_length. tauto.
Qed.

Lemma elementwise_nth (xs : list R) (i : nat) : (i < length xs)%nat ->
  nth i (act_softplus xs) 0 = ln (1 + exp (nth i xs 0)) /\
  nth i (act_sigmoid xs) 0 = 1 / (1 + exp (- nth i xs 0)) /\
  nth i (act_tanh xs) 0 = tanh (nth i xs 0) /\
  nth i (act_identity xs) 0 = nth i xs 0 /\
  nth i (act_relu xs) 0 = Rmax (nth i xs 0) 0.
Proof.
  intros Hi. unfold act_softplus, act_sigmoid, act_tanh, act_identity, act_relu.
  rewrite !(nth_map_lt _ _ _ 0 0) by exact Hi.
  repeat split; [apply softplus_def | apply sigmoid_def | apply relu_def].
Qed.

(* functions without exp / division / log have empty instrumentation lists *)
Lemma no_transcendentals_in_relu_identity (x : R) :
  act_relu_exp_args x = [] /\ act_relu_divisors x = [] /\ act_relu_log_args x = [] /\
  act_identity_exp_args x = [] /\ act_identity_divisors x = [] /\ act_identity_log_args x = [].
Proof. repeat split. Qed.

(* ------------------------------------------------------------------------------------------ get_function *)
Module ActTable.
Import String.
Definition table_lookup (k : string) : option string :=
  option_map snd (find (fun p => String.eqb (fst p) k) act_table).

Lemma table_spec :
  map table_lookup
      ["softmax"; "softplus"; "sigmoid"; "tanh"; "identity"; "relu"; "smax"; "sp"; "sig"; "id"; "re"; "nope"]%string
  = [Some "softmax"; Some "softplus"; Some "sigmoid"; Some "tanh"; Some "identity"; Some "relu";
     Some "softmax"; Some "softplus"; Some "sigmoid"; Some "identity"; Some "relu"; None]%string.
Proof. reflexivity. Qed.

Lemma table_length : List.length act_table = 11%nat.
Proof. reflexivity. Qed.
End ActTable.

(* ------------------------------------------------------------------------------------------ history: the pre-fix formulas
   (reservoirpy before commits 7db2650 / 86f216b), written by hand; their exp arguments are unbounded. *)
Definition prefix_softmax (x : list R) (beta : R) : list R :=
  map (fun t => exp (beta * t) / lsum (map (fun u => exp (beta * u)) x)) x.
Definition prefix_softmax_exp_args (x : list R) (beta : R) : list R := map (fun t => beta * t) x.
Definition prefix_softplus (x : R) : R := ln (1 + exp x).
Definition prefix_softplus_exp_args (x : R) : list R := [x].

Lemma prefix_softmax_overflow :
  exists x beta, 0 < beta /\ In 1000 (prefix_softmax_exp_args x beta).
Proof. exists [1000; 0], 1. split; [lra|]. simpl. left. ring. Qed.

Lemma prefix_softplus_overflow : exists x, In 1000 (prefix_softplus_exp_args x).
Proof. exists 1000. simpl. left. reflexivity. Qed.

(* the repaired code computes the same real function as the old formula *)
Lemma prefix_softmax_same (x : list R) (beta : R) : act_softmax x beta = prefix_softmax x beta.
Proof. apply softmax_textbook. Qed.
Lemma prefix_softplus_same (x : R) : act_softplus_s x = prefix_softplus x.
Proof. apply softplus_def. Qed.
