(* Soundness, uniqueness of the answer and completeness of LA.qsolve, the Gauss-Jordan elimination over Q that the
   correspondence runners use in place of LAPACK's solve (run/RunC04.v, RunC09.v, RunC06.v, RunC11.v).
   Main results: [qsolve_sound], [qsolve_unique], [qsolve_none_singular], [qsolve_complete] (entry-wise Qeq), and their
   readings in R through Q2R: [qsolve_sound_R], [qsolve_unique_R], [qsolve_none_singular_R].

   LA.gj works on augmented rows (a_i | b_i).  At step c (k steps left): pick the first row of [todo] whose entry c is non-zero
   (pick_pivot; None = "singular"), divide it by that entry, subtract from EVERY other row (done and todo) its entry c times
   the normalised pivot row, move the pivot row to the end of [done].  Entries are normalised with Qred after every operation.
   After n steps the answer is the right block of [done].

   Proof plan.  [sat X (a|b)]: a . X == b  (entry-wise Qeq; the product is LA.vm at the Q instance, i.e. the row of LA.mm).
   1. one step changes the rows by invertible operations: X satisfies all rows after the step  <->  before the step
      ([gj_step_sat]; the backward direction needs the pivot to be non-zero, the forward one does not);
   2. invariant: [done] has c rows, its left block restricted to the columns < c is the identity, the rows of [todo] vanish on the
      columns < c ([gj_step_inv]);
   3. at the end the left block is the identity, so X := right block satisfies every final row ([vm_delta_nth]); by 1 (backward)
      it satisfies the rows of the input: A X == B;  by 1 (forward) any Y with A Y == B satisfies the final rows: Y == X;
   4. when the pivot search fails at column c, an explicit non-zero vector is killed by every current row, hence (1, backward,
      on the homogeneous system) by every row of A: "None" only for singular matrices.
   The Q part needs no Reals; the R readings are at the end of the file. *)
From Coq Require Import List Bool Arith QArith Lia Permutation.
From RV Require Import base.Num base.LA base.ListX.
Import ListNotations.

(* ------------------------------------------------------------------ vocabulary *)
Definition veq (a b : qvec) : Prop := Forall2 Qeq a b.
Definition meq (A B : qmat) : Prop := Forall2 veq A B.
Definition rowsOf (m : nat) (X : qmat) : Prop := Forall (fun r => length r = m) X.
(* A is n x n, B is n x m *)
Definition wf_shapes (n m : nat) (A B : qmat) : Prop :=
  length A = n /\ rowsOf n A /\ length B = n /\ rowsOf m B.

Lemma veq_nth (a b : qvec) : length a = length b -> (forall j, nth j a 0 == nth j b 0) -> veq a b.
Proof.
  revert b. induction a as [|x a IH]; intros [|y b] L Hn; try discriminate; constructor.
  - exact (Hn O).
  - apply IH; [injection L; auto | intros j; exact (Hn (S j))].
Qed.
Lemma veq_nth_eq (a b : qvec) : veq a b -> forall j, nth j a 0 == nth j b 0.
Proof. induction 1 as [|x y a b E _ IH]; intros [|j]; cbn; try reflexivity; [exact E | apply IH]. Qed.
Lemma veq_length (a b : qvec) : veq a b -> length a = length b.
Proof. induction 1; cbn; congruence. Qed.
Lemma meq_nth (A B : qmat) : length A = length B -> (forall i, (i < length A)%nat -> veq (nth i A []) (nth i B [])) -> meq A B.
Proof.
  revert B. induction A as [|a A IH]; intros [|b B] L Hn; try discriminate; constructor.
  - apply (Hn O). cbn; lia.
  - apply IH; [injection L; auto | intros i Hi; apply (Hn (S i)); cbn; lia].
Qed.

(* ------------------------------------------------------------------ entries of the vector operations (Q instance) *)
Lemma nth_qscale c v j : nth j (qscale c v) 0 == c * nth j v 0.
Proof. revert j. induction v as [|x v IH]; intros [|j]; cbn [nth qscale map]; try ring; [apply Qred_correct | apply IH]. Qed.
Lemma length_qscale c v : length (qscale c v) = length v.
Proof. apply map_length. Qed.
Lemma nth_qaxpy c x y j : length x = length y -> nth j (qaxpy c x y) 0 == nth j y 0 - c * nth j x 0.
Proof.
  revert y j. induction x as [|a x IH]; intros [|b y] j L; try discriminate.
  - destruct j; cbn [nth qaxpy combine map]; ring.
  - destruct j; cbn [nth qaxpy combine map fst snd]; [apply Qred_correct | apply IH; injection L; auto].
Qed.
Lemma length_qaxpy c x y : length x = length y -> length (qaxpy c x y) = length y.
Proof. intros L. unfold qaxpy. rewrite map_length, combine_length. lia. Qed.

Lemma nth_vzerosQ m j : nth j (vzeros (F:=Q) m) 0 = 0.
Proof. revert j. induction m as [|m IH]; intros [|j]; cbn; try reflexivity. apply IH. Qed.
Lemma length_vzerosQ m : length (vzeros (F:=Q) m) = m.
Proof. apply repeat_length. Qed.
Lemma nth_vscaleQ (c : Q) v j : nth j (vscale c v) 0 == c * nth j v 0.
Proof. revert j. induction v as [|x v IH]; intros [|j]; cbn [nth vscale map nmul NumQ]; try ring; [apply Qred_correct | apply IH]. Qed.
Lemma length_vscaleQ (c : Q) v : length (vscale c v) = length v.
Proof. apply map_length. Qed.
Lemma nth_vaddQ (a b : qvec) j : length a = length b -> nth j (vadd a b) 0 == nth j a 0 + nth j b 0.
Proof.
  revert b j. induction a as [|x a IH]; intros [|y b] j L; try discriminate.
  - destruct j; cbn [nth vadd vzip]; ring.
  - destruct j; cbn [nth vadd vzip nadd NumQ]; [apply Qred_correct | apply IH; injection L; auto].
Qed.
Lemma length_vaddQ (a b : qvec) : length a = length b -> length (vadd a b) = length a.
Proof.
  revert b. induction a as [|x a IH]; intros [|y b] L; try discriminate; [reflexivity|].
  cbn. f_equal. apply IH. injection L; auto.
Qed.

(* ------------------------------------------------------------------ the row-vector . matrix product of LA.mm at Q *)
Section VM.
Variable m : nat.

Lemma vm_nil (X : qmat) : vm [] X m = vzeros m.
Proof. reflexivity. Qed.
Lemma vm_cons_nil (x : Q) a : vm (x :: a) [] m = vzeros m.
Proof. reflexivity. Qed.
Lemma vm_cons (x : Q) a row (X : qmat) : vm (x :: a) (row :: X) m = vadd (vscale x row) (vm a X m).
Proof. reflexivity. Qed.

Lemma vm_len (a : qvec) (X : qmat) : rowsOf m X -> length (vm a X m) = m.
Proof.
  revert X. induction a as [|x a IH]; intros X HX; [apply length_vzerosQ|].
  destruct X as [|row X]; [apply length_vzerosQ|]. pose proof (Forall_inv HX) as Hr; pose proof (Forall_inv_tail HX) as HX'; cbn beta in Hr.
  rewrite vm_cons, length_vaddQ; rewrite length_vscaleQ; [exact Hr | rewrite IH; auto].
Qed.

Lemma nth_vm_cons (x : Q) a row (X : qmat) j : rowsOf m (row :: X) ->
  nth j (vm (x :: a) (row :: X) m) 0 == x * nth j row 0 + nth j (vm a X m) 0.
Proof.
  intros HX. pose proof (Forall_inv HX) as Hr; pose proof (Forall_inv_tail HX) as HX'; cbn beta in Hr.
  rewrite vm_cons, nth_vaddQ, nth_vscaleQ; [reflexivity|]. rewrite length_vscaleQ, vm_len; auto.
Qed.

Lemma vm_qaxpy_nth f (a p : qvec) (X : qmat) j : rowsOf m X -> length p = length a ->
  nth j (vm (qaxpy f p a) X m) 0 == nth j (vm a X m) 0 - f * nth j (vm p X m) 0.
Proof.
  revert p X. induction a as [|x a IH]; intros [|y p] X HX L; try discriminate.
  - cbn [qaxpy combine map]. rewrite !vm_nil, nth_vzerosQ. ring.
  - change (qaxpy f (y :: p) (x :: a)) with (Qred (x - f * y) :: qaxpy f p a).
    destruct X as [|row X]; [rewrite !vm_cons_nil, nth_vzerosQ; ring|].
    pose proof (Forall_inv HX) as Hr; pose proof (Forall_inv_tail HX) as HX'; cbn beta in Hr.
    rewrite !nth_vm_cons by assumption. rewrite IH by (auto; injection L; auto). rewrite Qred_correct. ring.
Qed.

Lemma vm_qscale_nth c (a : qvec) (X : qmat) j : rowsOf m X ->
  nth j (vm (qscale c a) X m) 0 == c * nth j (vm a X m) 0.
Proof.
  revert X. induction a as [|x a IH]; intros X HX.
  - cbn [qscale map]. rewrite !vm_nil, nth_vzerosQ. ring.
  - change (qscale c (x :: a)) with (Qred (c * x) :: qscale c a).
    destruct X as [|row X]; [rewrite !vm_cons_nil, nth_vzerosQ; ring|].
    pose proof (Forall_inv HX) as Hr; pose proof (Forall_inv_tail HX) as HX'; cbn beta in Hr.
    rewrite !nth_vm_cons by assumption. rewrite IH by auto. rewrite Qred_correct. ring.
Qed.

Lemma vm_zero_nth (a : qvec) (X : qmat) j : rowsOf m X -> (forall k, nth k a 0 == 0) -> nth j (vm a X m) 0 == 0.
Proof.
  revert X. induction a as [|x a IH]; intros X HX Hz; [rewrite vm_nil, nth_vzerosQ; reflexivity|].
  destruct X as [|row X]; [rewrite vm_cons_nil, nth_vzerosQ; reflexivity|].
  pose proof (Forall_inv HX) as Hr; pose proof (Forall_inv_tail HX) as HX'; cbn beta in Hr.
  rewrite nth_vm_cons by assumption. rewrite IH; [|assumption | intros k; exact (Hz (S k))].
  rewrite (Hz O). ring.
Qed.

(* a == the i-th unit vector: a . X is the i-th row of X *)
Definition delta (i j : nat) : Q := if (j =? i)%nat then 1 else 0.
Lemma vm_delta_nth (a : qvec) (X : qmat) i j : rowsOf m X -> (i < length X)%nat ->
  (forall k, nth k a 0 == delta i k) -> nth j (vm a X m) 0 == nth j (nth i X []) 0.
Proof.
  revert a i. induction X as [|row X IH]; intros a i HX Hi Hd; [cbn in Hi; lia|].
  pose proof (Forall_inv HX) as Hr; pose proof (Forall_inv_tail HX) as HX'; cbn beta in Hr.
  destruct a as [|x a].
  - exfalso. specialize (Hd i). unfold delta in Hd. rewrite Nat.eqb_refl in Hd. destruct i; cbn in Hd; discriminate Hd.
  - rewrite nth_vm_cons by assumption. destruct i as [|i].
    + rewrite vm_zero_nth; [|assumption | intros k; exact (Hd (S k))].
      pose proof (Hd O) as H0. cbn in H0. rewrite H0. cbn [nth]. ring.
    + rewrite (IH a i); [|assumption | cbn in Hi; lia | intros k; exact (Hd (S k))].
      pose proof (Hd O) as H0. cbn in H0. rewrite H0. cbn [nth]. ring.
Qed.

(* ------------------------------------------------------------------ a row of the augmented system is satisfied by X *)
(* [rhs] reads the right block: [rhs_id] for A X == B, [rhs_0] for the homogeneous system A X == 0 (used for completeness) *)
Definition sat (rhs : qvec -> nat -> Q) (X : qmat) (r : qvec * qvec) : Prop :=
  forall j, nth j (vm (fst r) X m) 0 == rhs (snd r) j.

End VM.
Definition rhs_id (b : qvec) (j : nat) : Q := nth j b 0.
Definition rhs_0 (b : qvec) (j : nat) : Q := 0.

(* ------------------------------------------------------------------ pick_pivot *)
Lemma qnz_true a : qnz a = true -> ~ a == 0.
Proof. unfold qnz. intros Hn E. apply Qeq_bool_iff in E. rewrite E in Hn. discriminate. Qed.
Lemma qnz_false a : qnz a = false -> a == 0.
Proof. unfold qnz. intros Hn. apply Qeq_bool_iff. destruct (Qeq_bool a 0); [reflexivity | discriminate]. Qed.

Lemma pick_pivot_some c rows p rest : pick_pivot c rows = Some (p, rest) ->
  ~ nth c (fst p) 0 == 0 /\ Permutation rows (p :: rest).
Proof.
  revert p rest. induction rows as [|r rows IH]; intros p rest E; [discriminate|].
  cbn [pick_pivot] in E. destruct (qnz (nth c (fst r) 0)) eqn:En.
  - injection E as <- <-. split; [apply qnz_true, En | apply Permutation_refl].
  - destruct (pick_pivot c rows) as [[p' rest']|] eqn:Ep; [|discriminate]. injection E as <- <-.
    destruct (IH p' rest' eq_refl) as [Hp HP]. split; [exact Hp|].
    eapply perm_trans; [apply perm_skip, HP | apply perm_swap].
Qed.
Lemma pick_pivot_none c rows : pick_pivot c rows = None -> forall r, In r rows -> nth c (fst r) 0 == 0.
Proof.
  induction rows as [|r rows IH]; intros E r' Hin; [destruct Hin|].
  cbn [pick_pivot] in E. destruct (qnz (nth c (fst r) 0)) eqn:En; [discriminate|].
  destruct (pick_pivot c rows) as [[p' rest']|] eqn:Ep; [discriminate|].
  destruct Hin as [<- | Hin]; [apply qnz_false, En | apply IH; auto].
Qed.

(* ------------------------------------------------------------------ one step of gj *)
Definition gj_elim (c : nat) (pa' pb' : qvec) (r : qvec * qvec) : qvec * qvec :=
  let f := nth c (fst r) 0 in (qaxpy f pa' (fst r), qaxpy f pb' (snd r)).
Definition gj_step (c : nat) (done todo : list (qvec * qvec)) : option (list (qvec * qvec) * list (qvec * qvec)) :=
  match pick_pivot c todo with
  | None => None
  | Some ((pa, pb), rest) =>
      let piv := nth c pa 0 in
      let pa' := qscale (/ piv) pa in
      let pb' := qscale (/ piv) pb in
      Some (map (gj_elim c pa' pb') done ++ [(pa', pb')], map (gj_elim c pa' pb') rest)
  end.
Lemma gj_unfold k c done todo :
  gj (S k) c done todo = match gj_step c done todo with None => None | Some (d, t) => gj k (S c) d t end.
Proof. unfold gj_step. cbn [gj]. destruct (pick_pivot c todo) as [[[pa pb] rest]|]; reflexivity. Qed.

Section Step.
Variables N m : nat.          (* left block: N columns, right block: m columns *)
Variable mx : nat.            (* number of columns of the candidate solutions X ([mx] = m for A X == B) *)
Variable rhs : qvec -> nat -> Q.
Hypothesis rhs_scale : forall c b j, rhs (qscale c b) j == c * rhs b j.
Hypothesis rhs_axpy : forall f p b j, length p = length b -> rhs (qaxpy f p b) j == rhs b j - f * rhs p j.
Local Notation sat := (sat mx rhs).
Definition WF (rows : list (qvec * qvec)) : Prop := Forall (fun r => length (fst r) = N /\ length (snd r) = m) rows.
(* left block of [done] on the columns < c: identity; rows of [todo] vanish on the columns < c *)
Definition Diag (c : nat) (done : list (qvec * qvec)) : Prop :=
  forall i j, (i < length done)%nat -> (j < c)%nat -> nth j (fst (nth i done ([], []))) 0 == delta i j.
Definition Zero (c : nat) (todo : list (qvec * qvec)) : Prop :=
  forall r, In r todo -> forall j, (j < c)%nat -> nth j (fst r) 0 == 0.

Lemma WF_In rows r : WF rows -> In r rows -> length (fst r) = N /\ length (snd r) = m.
Proof. intros H. apply (proj1 (Forall_forall _ _) H). Qed.

Lemma nth_map_lt' {A B} (f : A -> B) (l : list A) i d d' : (i < length l)%nat -> nth i (map f l) d' = f (nth i l d).
Proof. revert i. induction l as [|a l IH]; intros [|i] Hi; cbn in *; try lia; [reflexivity | apply IH; lia]. Qed.

(* the facts about one step, with the pivot row exposed *)
Lemma gj_step_inv c done todo d' t' :
  gj_step c done todo = Some (d', t') -> WF done -> WF todo -> length done = c -> Diag c done -> Zero c todo ->
  WF d' /\ WF t' /\ length d' = S c /\ Diag (S c) d' /\ Zero (S c) t' /\ length todo = S (length t').
Proof.
  unfold gj_step. destruct (pick_pivot c todo) as [[[pa pb] rest]|] eqn:Ep; [|discriminate].
  cbv zeta. intros E Wd Wt Ld Dg Zr. injection E as <- <-.
  destruct (pick_pivot_some _ _ _ _ Ep) as [Hpiv HP].
  set (piv := nth c pa 0) in *. set (pa' := qscale (/ piv) pa). set (pb' := qscale (/ piv) pb).
  assert (Hin : forall r, In r ((pa, pb) :: rest) -> In r todo) by (intros r Hr; eapply Permutation_in; [apply Permutation_sym, HP | exact Hr]).
  destruct (WF_In todo (pa, pb) Wt (Hin _ (or_introl eq_refl))) as [Lpa Lpb]. cbn [fst snd] in Lpa, Lpb.
  assert (Lpa' : length pa' = N) by (unfold pa'; rewrite length_qscale; exact Lpa).
  assert (Lpb' : length pb' = m) by (unfold pb'; rewrite length_qscale; exact Lpb).
  assert (Hp0 : forall j, (j < c)%nat -> nth j pa' 0 == 0).
  { intros j Hj. unfold pa'. rewrite nth_qscale. rewrite (Zr (pa, pb) (Hin _ (or_introl eq_refl)) j Hj). ring. }
  assert (Hp1 : nth c pa' 0 == 1).
  { unfold pa'. rewrite nth_qscale. fold piv. field. exact Hpiv. }
  assert (Helim : forall r j, length (fst r) = N -> nth j (fst (gj_elim c pa' pb' r)) 0 == nth j (fst r) 0 - nth c (fst r) 0 * nth j pa' 0).
  { intros r j Lr. unfold gj_elim. cbn [fst]. apply nth_qaxpy. congruence. }
  assert (WFelim : forall l, WF l -> WF (map (gj_elim c pa' pb') l)).
  { intros l Wl. unfold WF in *. rewrite Forall_map. eapply Forall_impl; [|exact Wl]. cbn beta. intros r [L1 L2].
    unfold gj_elim. cbn [fst snd]. split; (rewrite length_qaxpy; [assumption|]); [rewrite Lpa' | rewrite Lpb']; auto. }
  assert (Wrest : WF rest).
  { unfold WF. apply Forall_forall. intros r Hr. apply (WF_In todo r Wt), Hin. right; exact Hr. }
  split; [|split; [|split; [|split; [|split]]]].
  - unfold WF. apply Forall_app. split; [apply WFelim, Wd|]. constructor; [cbn; auto | constructor].
  - apply WFelim, Wrest.
  - rewrite app_length, map_length. cbn. lia.
  - intros i j Hi Hj. rewrite app_length, map_length in Hi. cbn [length] in Hi.
    destruct (Nat.eq_dec i c) as [->|Hic].
    + rewrite app_nth2 by (rewrite map_length; lia). rewrite map_length, Ld, Nat.sub_diag. cbn [nth fst].
      unfold delta. destruct (Nat.eqb_spec j c) as [->|Hjc]; [exact Hp1 | apply Hp0; lia].
    + assert (Hi' : (i < length done)%nat) by lia.
      rewrite app_nth1 by (rewrite map_length; lia). rewrite (nth_map_lt' (gj_elim c pa' pb') done i (@nil Q, @nil Q) (@nil Q, @nil Q)) by exact Hi'.
      assert (Lr : length (fst (nth i done ([], []))) = N) by (apply (WF_In done); [exact Wd | apply nth_In; exact Hi']).
      rewrite Helim by exact Lr.
      destruct (Nat.eq_dec j c) as [->|Hjc].
      * rewrite Hp1. unfold delta. destruct (Nat.eqb_spec c i); [lia|]. ring.
      * rewrite Hp0 by lia. rewrite (Dg i j) by lia. ring.
  - intros r' Hr' j Hj. apply in_map_iff in Hr'. destruct Hr' as (r & <- & Hr).
    assert (Hrt : In r todo) by (apply Hin; right; exact Hr).
    rewrite Helim by (apply (WF_In todo); assumption).
    destruct (Nat.eq_dec j c) as [->|Hjc].
    + rewrite Hp1. ring.
    + rewrite Hp0 by lia. rewrite (Zr r Hrt j) by lia. ring.
  - rewrite (Permutation_length HP), map_length. reflexivity.
Qed.

(* invertibility of the row operations, read on the solution set *)
Lemma gj_step_sat c done todo d' t' (X : qmat) :
  gj_step c done todo = Some (d', t') -> WF done -> WF todo -> rowsOf mx X ->
  ((forall r, In r (d' ++ t') -> sat X r) <-> (forall r, In r (done ++ todo) -> sat X r)).
Proof.
  unfold gj_step. destruct (pick_pivot c todo) as [[[pa pb] rest]|] eqn:Ep; [|discriminate].
  cbv zeta. intros E Wd Wt HX. injection E as <- <-.
  destruct (pick_pivot_some _ _ _ _ Ep) as [Hpiv HP].
  set (piv := nth c pa 0) in *. set (pa' := qscale (/ piv) pa). set (pb' := qscale (/ piv) pb).
  assert (Hin : forall r, In r todo <-> r = (pa, pb) \/ In r rest).
  { intros r. split; intros Hr.
    - apply (Permutation_in _ HP) in Hr. destruct Hr as [<-|Hr]; auto.
    - eapply Permutation_in; [apply Permutation_sym, HP|]. destruct Hr as [->|Hr]; [left; reflexivity | right; exact Hr]. }
  destruct (WF_In todo (pa, pb) Wt (proj2 (Hin _) (or_introl eq_refl))) as [Lpa Lpb]. cbn [fst snd] in Lpa, Lpb.
  assert (Lpa' : length pa' = N) by (unfold pa'; rewrite length_qscale; exact Lpa).
  assert (Lpb' : length pb' = m) by (unfold pb'; rewrite length_qscale; exact Lpb).
  (* pivot row: scaled by a non-zero number *)
  assert (Hpiv_sat : sat X (pa', pb') <-> sat X (pa, pb)).
  { unfold sat. cbn [fst snd]. split; intros Hs j; specialize (Hs j).
    - unfold pa', pb' in Hs. rewrite vm_qscale_nth, rhs_scale in Hs by exact HX.
      apply (Qmult_inj_l _ _ (/ piv)); [|exact Hs]. intros Hz. apply Hpiv.
      change (piv == 0). transitivity (/ / piv); [symmetry; apply Qinv_involutive | rewrite Hz; reflexivity].
    - unfold pa', pb'. rewrite vm_qscale_nth, rhs_scale by exact HX. rewrite Hs. reflexivity. }
  (* another row, given the pivot row *)
  assert (Helim_sat : forall r, length (fst r) = N -> length (snd r) = m -> sat X (pa', pb') ->
            (sat X (gj_elim c pa' pb' r) <-> sat X r)).
  { intros r L1 L2 Hp. unfold sat, gj_elim in *. cbn [fst snd] in *.
    assert (E1 : length pa' = length (fst r)) by (rewrite Lpa'; auto).
    assert (E2 : length pb' = length (snd r)) by (rewrite Lpb'; auto).
    split; intros Hs j; specialize (Hs j); specialize (Hp j).
    - rewrite (vm_qaxpy_nth mx _ _ _ X j HX E1), (rhs_axpy _ _ _ j E2) in Hs. rewrite Hp in Hs.
      apply (Qplus_inj_r _ _ (- (nth c (fst r) 0 * rhs pb' j))). exact Hs.
    - rewrite (vm_qaxpy_nth mx _ _ _ X j HX E1), (rhs_axpy _ _ _ j E2). rewrite Hp, Hs. reflexivity. }
  split; intros Hall.
  - assert (Hp : sat X (pa', pb')) by (apply Hall; apply in_or_app; left; apply in_or_app; right; left; reflexivity).
    intros r Hr. apply in_app_or in Hr. destruct Hr as [Hr|Hr].
    + destruct (WF_In done r Wd Hr) as [L1 L2]. apply (Helim_sat r L1 L2 Hp). apply Hall.
      apply in_or_app; left; apply in_or_app; left. apply in_map, Hr.
    + destruct (WF_In todo r Wt Hr) as [L1 L2]. apply Hin in Hr. destruct Hr as [->|Hr]; [apply Hpiv_sat, Hp|].
      apply (Helim_sat r L1 L2 Hp). apply Hall. apply in_or_app; right. apply in_map, Hr.
  - assert (Hp : sat X (pa', pb')) by (apply Hpiv_sat, Hall; apply in_or_app; right; apply Hin; left; reflexivity).
    intros r' Hr'. apply in_app_or in Hr'. destruct Hr' as [Hr'|Hr'].
    + apply in_app_or in Hr'. destruct Hr' as [Hr'|[<-|[]]]; [|exact Hp].
      apply in_map_iff in Hr'. destruct Hr' as (r & <- & Hr). destruct (WF_In done r Wd Hr) as [L1 L2].
      apply (Helim_sat r L1 L2 Hp). apply Hall. apply in_or_app; left; exact Hr.
    + apply in_map_iff in Hr'. destruct Hr' as (r & <- & Hr).
      assert (Hrt : In r todo) by (apply Hin; right; exact Hr). destruct (WF_In todo r Wt Hrt) as [L1 L2].
      apply (Helim_sat r L1 L2 Hp). apply Hall. apply in_or_app; right; exact Hrt.
Qed.

(* the whole elimination *)
Lemma gj_spec k : forall c done todo rows,
  gj k c done todo = Some rows -> WF done -> WF todo -> length done = c -> length todo = k -> Diag c done -> Zero c todo ->
  WF rows /\ length rows = (c + k)%nat /\ Diag (c + k) rows /\
  forall X, rowsOf mx X -> ((forall r, In r rows -> sat X r) <-> (forall r, In r (done ++ todo) -> sat X r)).
Proof.
  induction k as [|k IH]; intros c done todo rows E Wd Wt Ld Lt Dg Zr.
  - cbn in E. injection E as <-. destruct todo; [|discriminate]. rewrite Nat.add_0_r, app_nil_r.
    repeat split; auto.
  - rewrite gj_unfold in E. destruct (gj_step c done todo) as [[d' t']|] eqn:Es; [|discriminate].
    destruct (gj_step_inv _ _ _ _ _ Es Wd Wt Ld Dg Zr) as (Wd' & Wt' & Ld' & Dg' & Zr' & Lt').
    assert (Lt'' : length t' = k) by lia.
    destruct (IH _ _ _ _ E Wd' Wt' Ld' Lt'' Dg' Zr') as (Wr & Lr & Dr & Hs).
    replace (c + S k)%nat with (S c + k)%nat by lia. repeat split; auto.
    + intros Hall. apply (proj1 (gj_step_sat _ _ _ _ _ X Es Wd Wt H)). apply (proj1 (Hs X H)). exact Hall.
    + intros Hall. apply (proj2 (Hs X H)). apply (proj2 (gj_step_sat _ _ _ _ _ X Es Wd Wt H)). exact Hall.
Qed.
End Step.

(* ------------------------------------------------------------------ qsolve *)
Lemma WF_combine n m (A B : qmat) : rowsOf n A -> rowsOf m B -> WF n m (combine A B).
Proof.
  revert B. induction A as [|a A IH]; intros [|b B] HA HB; try constructor.
  - inversion HA; inversion HB; subst. cbn. auto.
  - inversion HA; inversion HB; subst. apply IH; assumption.
Qed.

(* what the successful run returns: the final rows (e_i | x_i) *)
Lemma qsolve_rows n m (A B X : qmat) : wf_shapes n m A B -> qsolve A B = Some X ->
  length X = n /\ rowsOf m X /\
  forall Y, rowsOf m Y -> (length Y = n)%nat ->
    ((forall i, (i < n)%nat -> veq (nth i Y []) (nth i X [])) <-> (forall r, In r (combine A B) -> sat m rhs_id Y r)).
Proof.
  intros (LA & RA & LB & RB) E. unfold qsolve in E.
  destruct (gj (length A) 0 [] (combine A B)) as [rows|] eqn:Eg; [|discriminate]. injection E as <-.
  assert (Lc : length (combine A B) = length A) by (rewrite combine_length; lia).
  destruct (gj_spec n m m rhs_id nth_qscale nth_qaxpy (length A) 0 [] (combine A B) rows Eg) as (Wr & Lr & Dr & Hs).
  - constructor. - apply WF_combine; assumption. - reflexivity. - exact Lc.
  - intros i j Hi; cbn in Hi; lia. - intros r _ j Hj; lia.
  - cbn [plus] in Lr, Dr. rewrite LA in Lr, Dr. cbn [app] in Hs.
    assert (RX : rowsOf m (map snd rows)).
    { unfold rowsOf. rewrite Forall_map. eapply Forall_impl; [|exact Wr]. cbn beta. intros r [_ L]; exact L. }
    split; [rewrite map_length; exact Lr|]. split; [exact RX|].
    intros Y RY LY. rewrite <- (Hs Y RY).
    (* a final row (a_i | x_i) has a_i == e_i *)
    assert (Hrow : forall i, (i < n)%nat -> forall j,
              nth j (vm (fst (nth i rows ([], []))) Y m) 0 == nth j (nth i Y []) 0).
    { intros i Hi j. apply vm_delta_nth; [exact RY | lia|]. intros k.
      destruct (Nat.lt_ge_cases k n) as [Hk|Hk].
      - apply Dr; lia.
      - rewrite nth_overflow.
        + unfold delta. destruct (Nat.eqb_spec k i); [lia | reflexivity].
        + assert (L : length (fst (nth i rows ([], []))) = n) by (apply (WF_In n m rows); [exact Wr | apply nth_In; lia]). lia. }
    assert (Hx : forall i, nth i (map snd rows) [] = snd (nth i rows ([], []))).
    { intros i. change (@nil Q) with (snd (@nil Q, @nil Q)) at 1. apply map_nth. }
    split.
    + intros Hy r Hr. destruct (In_nth _ _ ([], []) Hr) as (i & Hi & <-). intros j.
      assert (Hi' : (i < n)%nat) by (rewrite <- Lr; exact Hi). rewrite (Hrow i Hi' j). rewrite <- Hx. apply veq_nth_eq, Hy. lia.
    + intros Hall i Hi. apply veq_nth.
      * assert (L1 : length (nth i Y []) = m) by (apply (proj1 (Forall_forall _ _) RY), nth_In; lia).
        assert (L2 : length (nth i (map snd rows) []) = m) by (apply (proj1 (Forall_forall _ _) RX), nth_In; rewrite map_length; lia).
        congruence.
      * intros j. rewrite <- (Hrow i Hi j). rewrite Hx. apply (Hall (nth i rows ([], []))). apply nth_In. lia.
Qed.

(* rows of A . Y versus the rows of the augmented input *)
Lemma sat_combine_meq m (A B Y : qmat) : length A = length B -> rowsOf m B -> rowsOf m Y ->
  ((forall r, In r (combine A B) -> sat m rhs_id Y r) <-> meq (mm A Y m) B).
Proof.
  unfold mm. revert B. induction A as [|a A IH]; intros [|b B] L RB RY; try discriminate.
  - split; [constructor | intros _ r []].
  - pose proof (Forall_inv RB) as Lb; pose proof (Forall_inv_tail RB) as RB'; cbn beta in Lb. injection L as L. cbn [combine map]. split.
    + intros Hall. constructor.
      * apply veq_nth; [rewrite vm_len; auto | exact (Hall (a, b) (or_introl eq_refl))].
      * apply IH; auto. intros r Hr. apply Hall. right; exact Hr.
    + intros Hm. inversion Hm as [|? ? ? ? Hv Hm']; subst. intros r [<-|Hr].
      * intros j. apply veq_nth_eq, Hv.
      * apply (proj2 (IH B L RB' RY)); assumption.
Qed.

(* ================================================================== SOUNDNESS: a returned X solves the system *)
Theorem qsolve_sound (n m : nat) (A B X : qmat) :
  wf_shapes n m A B -> qsolve A B = Some X -> length X = n /\ rowsOf m X /\ meq (mm A X m) B.
Proof.
  intros W E. destruct (qsolve_rows n m A B X W E) as (LX & RX & H). destruct W as (LA & RA & LB & RB).
  split; [exact LX|]. split; [exact RX|].
  apply sat_combine_meq; [congruence | exact RB | exact RX|].
  apply (H X RX LX). intros i _. apply veq_nth; [reflexivity | reflexivity].
Qed.

(* ================================================================== UNIQUENESS: it is the only solution of that shape *)
Theorem qsolve_unique (n m : nat) (A B X Y : qmat) :
  wf_shapes n m A B -> qsolve A B = Some X -> length Y = n -> rowsOf m Y -> meq (mm A Y m) B -> meq Y X.
Proof.
  intros W E LY RY HY. destruct (qsolve_rows n m A B X W E) as (LX & RX & H). destruct W as (LA & RA & LB & RB).
  apply meq_nth; [congruence|]. intros i Hi. apply (proj2 (H Y RY LY)); [|lia].
  apply sat_combine_meq; [congruence | exact RB | exact RY | exact HY].
Qed.

(* in particular the matrix of a successful run has a trivial kernel: A y == 0 forces y == 0 (take B := 0 ... not needed:
   two solutions of the same right-hand side coincide) *)
Corollary qsolve_some_injective (n m : nat) (A B X Y Y' : qmat) :
  wf_shapes n m A B -> qsolve A B = Some X -> length Y = n -> rowsOf m Y -> length Y' = n -> rowsOf m Y' ->
  meq (mm A Y m) B -> meq (mm A Y' m) B -> meq Y Y'.
Proof.
  intros W E LY RY LY' RY' H1 H2.
  pose proof (qsolve_unique n m A B X Y W E LY RY H1) as E1. pose proof (qsolve_unique n m A B X Y' W E LY' RY' H2) as E2.
  clear - E1 E2. revert Y' E2. induction E1 as [|y x Y X Hyx _ IH]; intros Y' E2; inversion E2 as [|y' ? Y'' ? Hy'x E2']; subst; constructor.
  - clear - Hyx Hy'x. revert y' Hy'x. induction Hyx as [|a b y x Hab _ IH]; intros y' H; inversion H; subst; constructor.
    + rewrite Hab. symmetry. assumption.
    + apply IH. assumption.
  - apply IH. assumption.
Qed.

(* ================================================================== COMPLETENESS: "None" only for singular systems
   When the pivot search fails at column c, the rows of [todo] vanish on the columns <= c and the left block of [done] is the
   identity on the columns < c: the vector y = (-done_0[c], ..., -done_{c-1}[c], 1, 0, ..., 0) is killed by every current row,
   hence (the row operations are invertible: [gj_step_sat] on the homogeneous system, [rhs_0]) by every row of the input. *)
Definition col (y : qvec) : qmat := map (fun v => [v]) y.
Lemma rowsOf_col y : rowsOf 1 (col y).
Proof. unfold rowsOf, col. rewrite Forall_map. apply Forall_forall. intros; reflexivity. Qed.
(* a . y, as the single entry of a . (column y) *)
Definition dq (a y : qvec) : Q := nth 0 (vm a (col y) 1) 0.

Lemma dq_nil_l y : dq [] y == 0.
Proof. reflexivity. Qed.
Lemma dq_nil_r a : dq a [] == 0.
Proof. destruct a; reflexivity. Qed.
Lemma dq_cons x a v y : dq (x :: a) (v :: y) == x * v + dq a y.
Proof. unfold dq. cbn [col map]. rewrite nth_vm_cons by (apply (rowsOf_col (v :: y))). cbn [nth]. reflexivity. Qed.
Lemma dq_app a1 a2 y1 y2 : length a1 = length y1 -> dq (a1 ++ a2) (y1 ++ y2) == dq a1 y1 + dq a2 y2.
Proof.
  revert y1. induction a1 as [|x a1 IH]; intros [|v y1] L; try discriminate; cbn [app].
  - rewrite dq_nil_l. ring.
  - rewrite !dq_cons, IH by (injection L; auto). ring.
Qed.
Lemma dq_zeros a k : dq a (repeat 0 k) == 0.
Proof.
  revert k. induction a as [|x a IH]; intros [|k]; cbn [repeat].
  - apply dq_nil_l. - apply dq_nil_l. - apply dq_nil_r. - rewrite dq_cons, IH. ring.
Qed.
Lemma dq_zero_l a y : (forall k, nth k a 0 == 0) -> dq a y == 0.
Proof. intros Hz. apply (vm_zero_nth 1 a (col y) 0%nat (rowsOf_col y) Hz). Qed.
Lemma dq_delta a y i : (i < length y)%nat -> (forall k, nth k a 0 == delta i k) -> dq a y == nth i y 0.
Proof.
  intros Hi Hd. unfold dq. rewrite (vm_delta_nth 1 a (col y) i 0%nat (rowsOf_col y)); [| unfold col; rewrite map_length; exact Hi | exact Hd].
  unfold col, qvec. rewrite (nth_map_lt' (fun v : Q => [v]) y i 0 [] Hi). reflexivity.
Qed.
Lemma dq_dot a y : dq a y == dot a y.
Proof.
  revert y. induction a as [|x a IH]; intros [|v y]; try reflexivity.
  rewrite dq_cons. cbn [dot nadd nmul NumQ]. rewrite !Qred_correct, IH. reflexivity.
Qed.
Lemma split_at (a : qvec) : forall c, (c < length a)%nat -> a = firstn c a ++ nth c a 0 :: skipn (S c) a.
Proof. induction a as [|x a IH]; intros [|c] L; cbn in *; try lia; [reflexivity|]. f_equal. apply IH. lia. Qed.
Lemma kernel_row (c k : nat) (a ypre : qvec) : length a = (c + S k)%nat -> length ypre = c ->
  dq a (ypre ++ 1 :: repeat 0 k) == dq (firstn c a) ypre + nth c a 0.
Proof.
  intros La Ly. rewrite (split_at a c) at 1 by lia.
  rewrite dq_app by (rewrite firstn_length_le; lia). rewrite dq_cons, dq_zeros. ring.
Qed.
Lemma sat0_dq y r : dq (fst r) y == 0 <-> sat 1 rhs_0 (col y) r.
Proof.
  split.
  - intros Hd [|j]; [exact Hd|]. unfold rhs_0. rewrite nth_overflow; [reflexivity|]. rewrite vm_len by apply rowsOf_col. lia.
  - intros Hs. exact (Hs 0%nat).
Qed.
Lemma rhs_0_scale c b j : rhs_0 (qscale c b) j == c * rhs_0 b j.
Proof. unfold rhs_0. ring. Qed.
Lemma rhs_0_axpy f p b j : length p = length b -> rhs_0 (qaxpy f p b) j == rhs_0 b j - f * rhs_0 p j.
Proof. intros _. unfold rhs_0. ring. Qed.

Lemma gj_none N m k : forall c done todo,
  gj k c done todo = None -> WF N m done -> WF N m todo -> length done = c -> length todo = k -> (c + k)%nat = N ->
  Diag c done -> Zero c todo ->
  exists y, length y = N /\ (exists i, ~ nth i y 0 == 0) /\ forall r, In r (done ++ todo) -> dq (fst r) y == 0.
Proof.
  induction k as [|k IH]; intros c done todo E Wd Wt Ld Lt Hck Dg Zr; [discriminate|].
  rewrite gj_unfold in E. destruct (gj_step c done todo) as [[d' t']|] eqn:Es.
  - destruct (gj_step_inv N m _ _ _ _ _ Es Wd Wt Ld Dg Zr) as (Wd' & Wt' & Ld' & Dg' & Zr' & Lt').
    destruct (IH (S c) d' t' E Wd' Wt' Ld') as (y & Ly & Hnz & Hy); [lia | lia | exact Dg' | exact Zr' |].
    exists y. split; [exact Ly|]. split; [exact Hnz|]. intros r Hr. apply sat0_dq.
    apply (proj1 (gj_step_sat N m 1 rhs_0 rhs_0_scale rhs_0_axpy c done todo d' t' (col y) Es Wd Wt (rowsOf_col y))); [|exact Hr].
    intros r' Hr'. apply sat0_dq, Hy, Hr'.
  - unfold gj_step in Es. destruct (pick_pivot c todo) as [[[pa pb] rest]|] eqn:Ep; [discriminate|].
    pose proof (pick_pivot_none c todo Ep) as Hz.
    set (ypre := map (fun r : qvec * qvec => - nth c (fst r) 0) done).
    assert (Lp : length ypre = c) by (unfold ypre; rewrite map_length; exact Ld).
    exists (ypre ++ 1 :: repeat 0 k). split; [|split].
    + rewrite app_length, Lp. cbn [length]. rewrite repeat_length. lia.
    + exists c. rewrite app_nth2 by lia. rewrite Lp, Nat.sub_diag. cbn [nth]. intros H1. discriminate H1.
    + intros r Hr.
      assert (Lr : length (fst r) = (c + S k)%nat).
      { rewrite Hck. apply in_app_or in Hr. destruct Hr as [Hr|Hr]; [apply (WF_In N m done r Wd Hr) | apply (WF_In N m todo r Wt Hr)]. }
      rewrite (kernel_row c k (fst r) ypre Lr Lp).
      assert (Lf : length (firstn c (fst r)) = c) by (rewrite firstn_length_le; lia).
      apply in_app_or in Hr. destruct Hr as [Hr|Hr].
      * destruct (In_nth _ _ ([], []) Hr) as (i & Hi & <-).
        assert (Hi' : (i < length ypre)%nat) by (rewrite Lp, <- Ld; exact Hi).
        pose proof (Dg i) as Dgi. set (a := @fst qvec qvec (@nth (list Q * list Q) i done ([], []))) in *.
        assert (Hd : forall j, nth j (firstn c a) 0 == delta i j).
        { intros j. destruct (Nat.lt_ge_cases j c) as [Hj|Hj].
          - rewrite nth_firstn_lt by exact Hj. apply Dgi; assumption.
          - rewrite nth_overflow by lia. unfold delta. destruct (Nat.eqb_spec j i); [lia | reflexivity]. }
        rewrite (dq_delta _ ypre i Hi' Hd).
        unfold ypre. rewrite (nth_map_lt' (fun r : qvec * qvec => - nth c (fst r) 0) done i ([], []) 0 Hi).
        rewrite Qplus_comm. exact (Qplus_opp_r (nth c a 0)).
      * rewrite dq_zero_l.
        -- rewrite (Hz r Hr). ring.
        -- intros j. destruct (Nat.lt_ge_cases j c) as [Hj|Hj].
           ++ rewrite nth_firstn_lt by exact Hj. apply (Zr r Hr j Hj).
           ++ rewrite nth_overflow by lia. reflexivity.
Qed.

(* "None" exhibits a non-zero rational vector of the kernel of A *)
Theorem qsolve_none_singular (n m : nat) (A B : qmat) : wf_shapes n m A B -> qsolve A B = None ->
  exists y : qvec, length y = n /\ (exists i, ~ nth i y 0 == 0) /\ forall a, In a A -> dot a y == 0.
Proof.
  intros (LA & RA & LB & RB) E. unfold qsolve in E.
  destruct (gj (length A) 0 [] (combine A B)) as [rows|] eqn:Eg; [discriminate|].
  destruct (gj_none n m (length A) 0 [] (combine A B) Eg) as (y & Ly & Hnz & Hy).
  - constructor. - apply WF_combine; assumption. - reflexivity. - rewrite combine_length; lia. - cbn; exact LA.
  - intros i j Hi; cbn in Hi; lia. - intros r _ j Hj; lia.
  - exists y. split; [exact Ly|]. split; [exact Hnz|]. intros a Ha. rewrite <- dq_dot.
    destruct (In_nth _ _ [] Ha) as (i & Hi & <-).
    apply (Hy (nth i A [], nth i B [])). cbn [app]. rewrite <- combine_nth by congruence. apply nth_In. rewrite combine_length. unfold qmat, qvec in *. lia.
Qed.
(* hence: a square system with a trivial kernel always gets an answer (which is sound and unique: above) *)
Theorem qsolve_complete (n m : nat) (A B : qmat) : wf_shapes n m A B ->
  (forall y : qvec, length y = n -> (forall a, In a A -> dot a y == 0) -> forall i, nth i y 0 == 0) ->
  exists X, qsolve A B = Some X.
Proof.
  intros W K. destruct (qsolve A B) as [X|] eqn:E; [exists X; reflexivity|]. exfalso.
  destruct (qsolve_none_singular n m A B W E) as (y & Ly & [i Hi] & Hy). apply Hi. apply (K y Ly Hy).
Qed.

(* ------------------------------------------------------------------ shapes of the LA operations, any Num instance
   (what the callers need to discharge [wf_shapes] on the systems they build) *)
Section Shapes.
Context {F : Type} `{Num F}.
Definition rowsF (c : nat) (A : list (list F)) : Prop := Forall (fun r => length r = c) A.
Definition shapeF (r c : nat) (A : list (list F)) : Prop := length A = r /\ rowsF c A.

Lemma length_vzip (f : F -> F -> F) a b : length (vzip f a b) = Nat.min (length a) (length b).
Proof. revert b. induction a as [|x a IH]; intros [|y b]; cbn; auto. Qed.
Lemma length_vzerosF n : length (vzeros (F:=F) n) = n.
Proof. apply repeat_length. Qed.
Lemma length_unitvF n : forall i, length (unitv (F:=F) n i) = n.
Proof. induction n as [|n IH]; intros [|i]; cbn; auto. rewrite length_vzerosF. reflexivity. Qed.
Lemma shapeF_eye n : shapeF n n (eye n).
Proof.
  unfold shapeF, eye. rewrite map_length, seq_length. split; [reflexivity|].
  unfold rowsF. rewrite Forall_map. apply Forall_forall. intros i _. apply length_unitvF.
Qed.
Lemma shapeF_mscale (c : F) A r k : shapeF r k A -> shapeF r k (mscale c A).
Proof.
  intros [L R]. unfold shapeF, mscale. rewrite map_length. split; [exact L|].
  unfold rowsF in *. rewrite Forall_map. eapply Forall_impl; [|exact R]. cbn beta. intros a E. unfold vscale. rewrite map_length. exact E.
Qed.
Lemma shapeF_madd A B r c : shapeF r c A -> shapeF r c B -> shapeF r c (madd A B).
Proof.
  intros [LA RA] [LB RB]. unfold shapeF, madd. rewrite map_length, combine_length. split; [lia|].
  unfold rowsF in *. rewrite Forall_map. apply Forall_forall. intros [a b] Hin. cbn [fst snd].
  unfold vadd. rewrite length_vzip.
  rewrite (proj1 (Forall_forall _ _) RA a (in_combine_l _ _ _ _ Hin)), (proj1 (Forall_forall _ _) RB b (in_combine_r _ _ _ _ Hin)). lia.
Qed.
Lemma shapeF_transpose nc : forall A : list (list F), shapeF nc (length A) (transpose A nc).
Proof.
  induction nc as [|nc IH]; intros A; [split; constructor|].
  destruct (IH (map (@tl F) A)) as [L R]. rewrite map_length in R. cbn [transpose]. split; [cbn; congruence|].
  constructor; [apply map_length | exact R].
Qed.
Lemma shapeF_mzeros r c : shapeF r c (mzeros (F:=F) r c).
Proof. unfold shapeF, mzeros. rewrite repeat_length. split; [reflexivity|]. apply Forall_forall. intros x Hx. apply repeat_spec in Hx. subst. apply length_vzerosF. Qed.
Lemma length_vmF m : forall (a : list F) X, rowsF m X -> length (vm a X m) = m.
Proof.
  induction a as [|x a IH]; intros X HX; [apply length_vzerosF|].
  destruct X as [|row X]; [apply length_vzerosF|].
  pose proof (Forall_inv HX) as Hr; pose proof (Forall_inv_tail HX) as HX'; cbn beta in Hr.
  cbn [vm]. unfold vadd. rewrite length_vzip. unfold vscale. rewrite map_length, IH, Hr by exact HX'. lia.
Qed.
Lemma shapeF_mm A X m : rowsF m X -> shapeF (length A) m (mm A X m).
Proof.
  intros HX. unfold shapeF, mm. rewrite map_length. split; [reflexivity|].
  unfold rowsF. rewrite Forall_map. apply Forall_forall. intros a _. apply length_vmF, HX.
Qed.
End Shapes.

(* ------------------------------------------------------------------ the same, read in R through the embedding Q2R
   (Qeq becomes Leibniz equality of reals; LA.mm commutes with the embedding: base/NumHom.v) *)
From Coq Require Import Reals Qreals.
From RV Require Import base.NumHom.
Close Scope Q_scope.

Lemma veq_qv2r (a b : qvec) : veq a b -> qv2r a = qv2r b.
Proof. induction 1 as [|x y a b E _ IH]; cbn; [reflexivity|]. rewrite (Qeq_eqR _ _ E), IH. reflexivity. Qed.
Lemma meq_qm2r (A B : qmat) : meq A B -> qm2r A = qm2r B.
Proof. induction 1 as [|a b A B E _ IH]; cbn; [reflexivity|]. rewrite (veq_qv2r _ _ E), IH. reflexivity. Qed.
Lemma qv2r_veq (a b : qvec) : qv2r a = qv2r b -> veq a b.
Proof.
  revert b. induction a as [|x a IH]; intros [|y b] E; try discriminate; constructor.
  - apply eqR_Qeq. injection E; auto.
  - apply IH. injection E; auto.
Qed.
Lemma qm2r_meq (A B : qmat) : qm2r A = qm2r B -> meq A B.
Proof.
  revert B. induction A as [|a A IH]; intros [|b B] E; try discriminate; constructor.
  - apply qv2r_veq. injection E; auto.
  - apply IH. injection E; auto.
Qed.
Lemma shapeF_qm2r r c (A : qmat) : shapeF r c A -> shapeF r c (qm2r A).
Proof.
  intros [L R]. unfold shapeF. rewrite map_length. split; [exact L|].
  unfold rowsF in *. rewrite Forall_map. eapply Forall_impl; [|exact R]. cbn beta. intros a E. rewrite map_length. exact E.
Qed.

(* a returned X, embedded, solves the embedded system exactly over R *)
Theorem qsolve_sound_R (n m : nat) (A B X : qmat) :
  wf_shapes n m A B -> qsolve A B = Some X ->
  shapeF n m (qm2r X) /\ mm (qm2r A) (qm2r X) m = qm2r B.
Proof.
  intros W E. destruct (qsolve_sound n m A B X W E) as (LX & RX & HX). split.
  - apply shapeF_qm2r. split; assumption.
  - rewrite <- (em_mm Q2R). apply meq_qm2r, HX.
Qed.
(* ... and is the only rational solution of that shape *)
Theorem qsolve_unique_R (n m : nat) (A B X Y : qmat) :
  wf_shapes n m A B -> qsolve A B = Some X -> shapeF n m Y -> mm (qm2r A) (qm2r Y) m = qm2r B -> qm2r Y = qm2r X.
Proof.
  intros W E [LY RY] HY. apply meq_qm2r. apply (qsolve_unique n m A B X Y W E LY RY).
  apply qm2r_meq. rewrite (em_mm Q2R). exact HY.
Qed.
Lemma wf_shapes_of (n m : nat) (A B : qmat) : shapeF n n A -> shapeF n m B -> wf_shapes n m A B.
Proof. intros [LA RA] [LB RB]. repeat split; assumption. Qed.

(* "None", read in R: the embedded matrix has a non-zero (rational) kernel vector, i.e. the R-system is singular *)
Lemma nth_qv2r (y : qvec) i : nth i (qv2r y) 0%R = Q2R (nth i y 0%Q).
Proof. revert i. induction y as [|x y IH]; intros [|i]; cbn [map nth]; auto; symmetry; exact Q2R_n0. Qed.
Lemma nth_vzerosR n i : nth i (vzeros (F:=R) n) 0%R = 0%R.
Proof. revert i. induction n as [|n IH]; intros [|i]; cbn; auto. Qed.
Theorem qsolve_none_singular_R (n m : nat) (A B : qmat) : wf_shapes n m A B -> qsolve A B = None ->
  exists y : qvec, length y = n /\ qv2r y <> vzeros n /\ mv (qm2r A) (qv2r y) = vzeros n.
Proof.
  intros W E. destruct (qsolve_none_singular n m A B W E) as (y & Ly & [i Hi] & Hy). exists y. split; [exact Ly|]. split.
  - intros Ez. apply Hi. apply eqR_Qeq. rewrite <- nth_qv2r, Ez, nth_vzerosR. symmetry. exact Q2R_n0.
  - rewrite <- (ev_mv Q2R). destruct W as (LA & _). rewrite <- LA. clear - Hy. unfold mv. rewrite map_map.
    induction A as [|a A IH]; [reflexivity|]. cbn [map length]. change (vzeros (S (length A))) with (0%R :: vzeros (F:=R) (length A)).
    f_equal.
    + rewrite (Qeq_eqR _ _ (Hy a (or_introl eq_refl))). exact Q2R_n0.
    + apply IH. intros a' Ha'. apply Hy. right; exact Ha'.
Qed.
