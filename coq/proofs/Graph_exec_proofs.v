(* C03 x C02 integration: the order computed by the Kahn model (model/Graph.v, [topo]) satisfies the hypothesis
   [well_formed] under which the execution model (model/ModelSem.v) is proved to compute the unique solution of the
   graph equations (proofs/ModelSem_proofs.v: forward_is_solution, solution_unique). *)
From Coq Require Import List Arith Lia Bool Permutation.
From RV Require Import base.Num base.LA model.Graph proofs.Graph_proofs proofs.Graph_ops_proofs.
From RV Require model.ModelSem proofs.ModelSem_proofs.
Import ListNotations.

Section Exec.
Context {F : Type} `{Num F}.
Notation ndesc := (@ModelSem.ndesc F).
Notation nid := (@ModelSem.nid F).

(* if every parent of every node sits strictly earlier in the id list, the list of descriptors is topo_ok *)
Lemma topo_ok_of_idx (par : nat -> list nat) : forall (ds pre : list ndesc),
  NoDup (map nid (pre ++ ds)) ->
  (forall d p, In d ds -> In p (par (nid d)) -> idx p (map nid (pre ++ ds)) < idx (nid d) (map nid (pre ++ ds))) ->
  ModelSem_proofs.topo_ok par ds.
Proof.
  induction ds as [|d rest IH]; intros pre Hnd Hlt; simpl; [exact I|]. split.
  - intros p Hp. specialize (Hlt d p (or_introl eq_refl) Hp).
    rewrite map_app in Hlt, Hnd. simpl in Hlt, Hnd.
    apply NoDup_app_iff in Hnd as [_ [Hnd2 Hdisj]].
    assert (Hd : ~ In (nid d) (map nid pre)) by (intros Hi; apply (Hdisj _ Hi); simpl; auto).
    rewrite (idx_app_notin (nid d)) in Hlt by assumption. simpl in Hlt. rewrite Nat.eqb_refl in Hlt.
    split.
    + intros Heq. subst p. rewrite (idx_app_notin (nid d)) in Hlt by assumption. simpl in Hlt.
      rewrite Nat.eqb_refl in Hlt. lia.
    + intros Hin. assert (Hp' : ~ In p (map nid pre)) by (intros Hi; apply (Hdisj _ Hi); simpl; auto).
      rewrite (idx_app_notin p) in Hlt by assumption. simpl in Hlt.
      destruct (Nat.eqb_spec p (nid d)); lia.
  - apply (IH (pre ++ [d])); rewrite <- app_assoc; simpl; auto.
    intros d0 p Hd0 Hp. apply Hlt; simpl; auto.
Qed.

(* the order returned by topological_sort is executable *)
Theorem kahn_order_well_formed (V : list node) (E : list edge) (ents l : list node) (m : @ModelSem.model F) :
  NoDup E -> wf V E ->
  NoDup ents -> (forall v, In v ents <-> In v V /\ has_in v E = false) ->
  topo ents V E = Sorted l ->
  map nid (ModelSem.order m) = l ->
  (forall n p, In p (ModelSem.parents m n) -> In (p, n) E) ->
  ModelSem_proofs.well_formed m.
Proof.
  intros HndE Hwf Hnde Hents Ht Hord Hpar.
  destruct (topo_sound V E HndE Hwf ents Hnde Hents l Ht) as [Hnd [_ Hf]].
  split; [rewrite Hord; exact Hnd|].
  apply (topo_ok_of_idx (ModelSem.parents m) (ModelSem.order m) []); simpl; rewrite Hord; auto.
  intros d p Hd Hp. apply before_idx; auto.
Qed.
End Exec.
