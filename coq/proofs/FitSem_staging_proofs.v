(* C06: unbounded facts about the staging computed by get_offline_subgraphs (model/FitSem.v, part 1), for EVERY graph
   whose node list is a duplicate-free topological order of its edges (wf_dagb), of any size:
     1. the `while trained != offlines` loop terminates within (number of offline nodes) iterations, so the fuel of the
        model never runs out, and a staging is returned exactly when there is an offline node;
     2. every offline node is trained in exactly one stage (train_sets: the sets Model.fit / build_forward_sumodels
        computes stage after stage);
     3. an offline ancestor of an offline node is trained in a strictly earlier stage;
     4. every ancestor of a node trained in stage j runs as a forward node of some stage i <= j.
   B. chains n0 >> ... >> nk of any length with any labelling of offline nodes among n1..nk: closed form of the staging
      (chain_get_offline_subgraphs), its validity (chain_valid: Model.fit executed symbolically stage by stage), and the
      end-to-end corollary for every value algebra (chain_fit_explicit).
   train_sets is tied to Model.fit's own `trained` set by fit_trained.
   Nothing here edits the model: only characterisation lemmas. *)
From Coq Require Import List Arith Bool Lia.
From RV Require Import model.FitSem.
Import ListNotations.

(* ------------------------------------------------------------------------------------------------ well-formedness *)
(* g_nodes is a duplicate-free topological order: every parent of a node is listed before it *)
Fixpoint topo_okb (es : list (nat * nat)) (seen l : list nat) : bool :=
  match l with
  | [] => true
  | v :: r => negb (mem v seen) && forallb (fun p => mem p seen) (parents_in es v) && topo_okb es (v :: seen) r
  end.
Definition wf_dagb (g : graph) : bool := topo_okb (g_edges g) [] (g_nodes g).

(* a is a (strict) ancestor of b *)
Inductive anc (g : graph) : nat -> nat -> Prop :=
| anc_edge a b : In (a, b) (g_edges g) -> anc g a b
| anc_step a c b : anc g a c -> In (c, b) (g_edges g) -> anc g a b.

(* the offline nodes Model.fit trains stage after stage: build_forward_sumodels takes, in each stage, the offline nodes
   of the stage that are not in `trained` yet, then `trained |= offlines` (run_stage in model/FitSem.v) *)
Fixpoint train_sets (g : graph) (trained : list nat) (subs : list (list nat)) : list (list nat) :=
  match subs with
  | [] => []
  | s :: r => let o := filter (fun n => offline g n && negb (mem n trained)) s in o :: train_sets g (o ++ trained) r
  end.

(* ------------------------------------------------------------------------------------------------ generic *)
Lemma mem_In n l : mem n l = true <-> In n l.
Proof.
  unfold mem. rewrite existsb_exists. split.
  - intros [x [Hin E]]. apply Nat.eqb_eq in E. subst. exact Hin.
  - intros Hin. exists n. split; [exact Hin|apply Nat.eqb_refl].
Qed.
Lemma mem_false n l : mem n l = false <-> ~ In n l.
Proof. rewrite <- mem_In. destruct (mem n l); split; intros H; try congruence. Qed.
Lemma subset_In a b : subset a b = true <-> (forall x, In x a -> In x b).
Proof.
  unfold subset. rewrite forallb_forall. split; intros H x Hx.
  - apply mem_In. apply H. exact Hx.
  - apply mem_In. apply H. exact Hx.
Qed.

Lemma parents_in_In es p c : In p (parents_in es c) <-> In (p, c) es.
Proof.
  unfold parents_in. rewrite in_map_iff. split.
  - intros [[a b] [E Hin]]. simpl in E. subst. apply filter_In in Hin as [Hin Hb]. simpl in Hb.
    apply Nat.eqb_eq in Hb. subst. exact Hin.
  - intros Hin. exists (p, c). split; [reflexivity|]. apply filter_In. split; [exact Hin|]. simpl. apply Nat.eqb_refl.
Qed.
Lemma is_input_parents g n : is_input g n = true <-> parents g n = [].
Proof.
  unfold is_input, parents, parents_in. induction (g_edges g) as [|[a b] es IH]; simpl; [tauto|].
  destruct (b =? n); simpl; [split; discriminate|exact IH].
Qed.
Lemma is_output_false g a : is_output g a = false <-> exists c, In (a, c) (g_edges g).
Proof.
  unfold is_output. rewrite negb_false_iff, existsb_exists. split.
  - intros [[x c] [Hin E]]. simpl in E. apply Nat.eqb_eq in E. subst. exists c. exact Hin.
  - intros [c Hin]. exists (a, c). split; [exact Hin|]. simpl. apply Nat.eqb_refl.
Qed.

Lemma fold_left_prefix_ind {A B} (f : A -> B -> A) (Q : list B -> A -> Prop) :
  (forall done a x, Q done a -> Q (done ++ [x]) (f a x)) ->
  forall l done a, Q done a -> Q (done ++ l) (fold_left f l a).
Proof.
  intros Hs l. induction l as [|x l IH]; intros done a H; simpl.
  - rewrite app_nil_r. exact H.
  - replace (done ++ x :: l) with ((done ++ [x]) ++ l) by (rewrite <- app_assoc; reflexivity).
    apply IH. apply Hs. exact H.
Qed.

Lemma first_split {A} (P : A -> bool) l :
  existsb P l = true -> exists pre u post, l = pre ++ u :: post /\ P u = true /\ forall a, In a pre -> P a = false.
Proof.
  induction l as [|x l IH]; simpl; [discriminate|]. destruct (P x) eqn:E; simpl.
  - intros _. exists [], x, l. repeat split; [exact E|intros a []].
  - intros H. destruct (IH H) as [pre [u [post [-> [Hu Hpre]]]]]. exists (x :: pre), u, post.
    repeat split; [exact Hu|]. intros a [<-|Ha]; [exact E|apply Hpre; exact Ha].
Qed.

Lemma filter_length_le {A} (P P' : A -> bool) l :
  (forall x, In x l -> P' x = true -> P x = true) -> length (filter P' l) <= length (filter P l).
Proof.
  induction l as [|x l IH]; intros H; simpl; [lia|].
  assert (IH' := IH (fun y Hy => H y (or_intror Hy))).
  destruct (P' x) eqn:E'; [rewrite (H x (or_introl eq_refl) E'); simpl; lia|].
  destruct (P x); simpl; lia.
Qed.
Lemma filter_length_lt {A} (P P' : A -> bool) l u :
  (forall x, In x l -> P' x = true -> P x = true) -> In u l -> P u = true -> P' u = false ->
  length (filter P' l) < length (filter P l).
Proof.
  induction l as [|x l IH]; intros H Hu Pu P'u; [destruct Hu|]. simpl.
  assert (Hl := filter_length_le P P' l (fun y Hy => H y (or_intror Hy))).
  destruct Hu as [->|Hu].
  - rewrite Pu, P'u. simpl. lia.
  - assert (IH' := IH (fun y Hy => H y (or_intror Hy)) Hu Pu P'u).
    destruct (P' x) eqn:E'; [rewrite (H x (or_introl eq_refl) E'); simpl; lia|].
    destruct (P x); simpl; lia.
Qed.

Lemma NoDup_app_snoc {A} (l : list A) x : NoDup l -> ~ In x l -> NoDup (l ++ [x]).
Proof.
  induction l as [|y l IH]; intros Hnd Hx; simpl; [constructor; [intros []|constructor]|].
  inversion Hnd as [|? ? Hy Hnd']; subst. constructor.
  - intros Hin. apply in_app_or in Hin as [Hin|[<-|[]]]; [exact (Hy Hin)|apply Hx; left; reflexivity].
  - apply IH; [exact Hnd'|]. intros Hin. apply Hx. right. exact Hin.
Qed.

(* ------------------------------------------------------------------------------------------------ topological order *)
Lemma topo_okb_split es : forall l seen, topo_okb es seen l = true ->
  forall l1 v l2, l = l1 ++ v :: l2 ->
    ~ In v l1 /\ ~ In v seen /\ (forall p, In p (parents_in es v) -> In p l1 \/ In p seen).
Proof.
  induction l as [|x l IH]; intros seen H l1 v l2 E; [destruct l1; discriminate|].
  simpl in H. apply andb_prop in H as [H H3]. apply andb_prop in H as [H1 H2].
  destruct l1 as [|y l1]; simpl in E; inversion E; subst.
  - split; [intros []|]. split; [apply mem_false; apply negb_true_iff; exact H1|].
    intros p Hp. right. rewrite forallb_forall in H2. apply mem_In. apply H2. exact Hp.
  - destruct (IH _ H3 l1 v l2 eq_refl) as [A [B C]]. split; [|split].
    + intros [->|Hin]; [apply B; left; reflexivity|exact (A Hin)].
    + intros Hin. apply B. right. exact Hin.
    + intros p Hp. destruct (C p Hp) as [Hl|[<-|Hs]]; [left; right; exact Hl|left; left; reflexivity|right; exact Hs].
Qed.

Lemma topo_okb_NoDup es : forall l seen, topo_okb es seen l = true -> NoDup l.
Proof.
  induction l as [|x l IH]; intros seen H; [constructor|].
  simpl in H. apply andb_prop in H as [H H3]. constructor; [|exact (IH _ H3)].
  intros Hin. apply in_split in Hin as [l1 [l2 E]].
  destruct (topo_okb_split es l (x :: seen) H3 l1 x l2 E) as [_ [B _]]. apply B. left. reflexivity.
Qed.

(* ------------------------------------------------------------------------------------------------ one scan *)
Section Scan.
Variable g : graph.
Notation st := (list nat * list nat * list nat)%type.

Lemma ready_spec incl n :
  is_input g n || forallb (fun p => mem p incl) (parents g n) = true <-> (forall p, In p (parents g n) -> In p incl).
Proof.
  split.
  - intros H p Hp. apply orb_prop in H as [H|H].
    + apply is_input_parents in H. rewrite H in Hp. destruct Hp.
    + rewrite forallb_forall in H. apply mem_In. apply H. exact Hp.
  - intros H. apply orb_true_iff. right. apply forallb_forall. intros p Hp. apply mem_In. apply H. exact Hp.
Qed.

(* what one `for node in _nodes:` pass does, from the state ([], incl0, trn0), after the nodes [done] *)
Definition scan_body (incl0 trn0 done : list nat) (s : st) : Prop :=
  let '(sub, incl, trn) := s in
  (forall x, In x incl0 -> In x incl) /\
  (forall x, In x trn0 -> In x trn) /\
  (forall x, In x incl -> In x incl0 \/
     (In x done /\ (offline g x = false \/ In x trn0) /\ (forall p, In p (parents g x) -> In p incl) /\
      (is_output g x = false -> In x sub))) /\
  (forall x, In x trn -> In x trn0 \/
     (In x done /\ offline g x = true /\ ~ In x trn0 /\ (forall p, In p (parents g x) -> In p incl) /\ In x sub)) /\
  (forall x, In x sub -> In x done /\ ((In x trn /\ ~ In x trn0) \/ (In x incl /\ ~ In x incl0))) /\
  NoDup sub.
Definition scan_Q (incl0 trn0 done : list nat) (s : st) : Prop :=
  NoDup done -> (forall x, In x done -> ~ In x incl0) -> scan_body incl0 trn0 done s.

Lemma scan_Q_step incl0 trn0 done s x : scan_Q incl0 trn0 done s -> scan_Q incl0 trn0 (done ++ [x]) (scan_step g s x).
Proof.
  intros HQ Hnd Hdis. destruct s as [[sub incl] trn].
  assert (Hnd' : NoDup done /\ ~ In x done).
  { apply NoDup_remove in Hnd. rewrite app_nil_r in Hnd. exact Hnd. }
  destruct Hnd' as [Hnd' Hx].
  assert (Hx0 : ~ In x incl0) by (apply Hdis; apply in_or_app; right; left; reflexivity).
  specialize (HQ Hnd' (fun y Hy => Hdis y (in_or_app _ _ _ (or_introl Hy)))).
  destruct HQ as [B1 [B2 [B3 [B4 [B5 B6]]]]].
  assert (Hxs : ~ In x sub) by (intros Hin; apply Hx; apply (B5 x Hin)).
  unfold scan_step.
  destruct (is_input g x || forallb (fun p => mem p incl) (parents g x)) eqn:Er.
  2:{ (* not ready: state unchanged *)
    repeat split; try assumption.
    - intros y Hy. destruct (B3 y Hy) as [H|[H1 H2]]; [left; exact H|right]. split; [apply in_or_app; left; exact H1|exact H2].
    - intros y Hy. destruct (B4 y Hy) as [H|[H1 H2]]; [left; exact H|right]. split; [apply in_or_app; left; exact H1|exact H2].
    - apply in_or_app. left. apply (B5 x0 H).
    - apply (B5 x0 H). }
  rewrite ready_spec in Er.
  destruct (offline g x && negb (mem x trn)) eqn:Eo.
  - (* trained *)
    apply andb_prop in Eo as [Eo1 Eo2]. apply negb_true_iff, mem_false in Eo2.
    repeat split.
    + exact B1.
    + intros y Hy. right. apply B2. exact Hy.
    + intros y Hy. destruct (B3 y Hy) as [H|[H1 [H2 [H3 H4]]]]; [left; exact H|right].
      split; [apply in_or_app; left; exact H1|]. split; [exact H2|]. split; [exact H3|].
      intros Ho. apply in_or_app. left. exact (H4 Ho).
    + intros y [<-|Hy].
      * right. split; [apply in_or_app; right; left; reflexivity|]. split; [exact Eo1|].
        split; [intros H; apply Eo2; apply B2; exact H|]. split; [exact Er|]. apply in_or_app. right. left. reflexivity.
      * destruct (B4 y Hy) as [H|[H1 [H2 [H3 [H4 H5]]]]]; [left; exact H|right].
        split; [apply in_or_app; left; exact H1|]. split; [exact H2|]. split; [exact H3|]. split; [exact H4|].
        apply in_or_app. left. exact H5.
    + apply in_app_or in H as [H|[<-|[]]]; apply in_or_app; [left; apply (B5 x0 H)|right; left; reflexivity].
    + apply in_app_or in H as [H|[<-|[]]].
      * destruct (B5 x0 H) as [_ [[H1 H2]|H1]]; [left; split; [right; exact H1|exact H2]|right; exact H1].
      * left. split; [left; reflexivity|]. intros H. apply Eo2. apply B2. exact H.
    + apply NoDup_app_snoc; assumption.
  - (* included *)
    assert (Ho : offline g x = false \/ In x trn0).
    { apply andb_false_iff in Eo as [Eo|Eo]; [left; exact Eo|]. apply negb_false_iff, mem_In in Eo.
      destruct (B4 x Eo) as [H|[H _]]; [right; exact H|contradiction]. }
    assert (Hsub : forall y, In y sub -> In y (if is_output g x then sub else sub ++ [x])).
    { intros y Hy. destruct (is_output g x); [exact Hy|apply in_or_app; left; exact Hy]. }
    repeat split.
    + intros y Hy. right. apply B1. exact Hy.
    + exact B2.
    + intros y [<-|Hy].
      * right. split; [apply in_or_app; right; left; reflexivity|]. split; [exact Ho|].
        split; [intros p Hp; right; apply Er; exact Hp|].
        intros Hout. rewrite Hout. apply in_or_app. right. left. reflexivity.
      * destruct (B3 y Hy) as [H|[H1 [H2 [H3 H4]]]]; [left; exact H|right].
        split; [apply in_or_app; left; exact H1|]. split; [exact H2|].
        split; [intros p Hp; right; apply H3; exact Hp|]. intros Hout. apply Hsub. exact (H4 Hout).
    + intros y Hy. destruct (B4 y Hy) as [H|[H1 [H2 [H3 [H4 H5]]]]]; [left; exact H|right].
      split; [apply in_or_app; left; exact H1|]. split; [exact H2|]. split; [exact H3|].
      split; [intros p Hp; right; apply H4; exact Hp|]. apply Hsub. exact H5.
    + destruct (is_output g x); [apply in_or_app; left; apply (B5 x0 H)|].
      apply in_app_or in H as [H|[<-|[]]]; apply in_or_app; [left; apply (B5 x0 H)|right; left; reflexivity].
    + assert (H' : In x0 sub \/ x0 = x).
      { destruct (is_output g x); [left; exact H|]. apply in_app_or in H as [H|[<-|[]]]; [left; exact H|right; reflexivity]. }
      destruct H' as [H'| ->].
      * destruct (B5 x0 H') as [_ [H1|[H1 H2]]]; [left; exact H1|right; split; [right; exact H1|exact H2]].
      * right. split; [left; reflexivity|exact Hx0].
    + destruct (is_output g x); [exact B6|]. apply NoDup_app_snoc; assumption.
Qed.
End Scan.

(* ------------------------------------------------------------------------------------------------ the while loop *)
Section Loop.
Variable g : graph.
Hypothesis Hwf : wf_dagb g = true.

Definition todo_of (incl : list nat) : list nat := filter (fun n => negb (mem n incl)) (g_nodes g).
Definition untrained (trn : list nat) (v : nat) : bool := offline g v && negb (mem v trn).
Definition cnt (trn : list nat) : nat := length (filter (untrained trn) (g_nodes g)).

(* invariant of the loop at the top of every iteration *)
Definition Inv (incl trn : list nat) : Prop :=
  (forall v, In v incl -> (forall p, In p (parents g v) -> In p incl) /\ (offline g v = true -> In v trn)) /\
  (forall v, In v trn -> In v (g_nodes g) /\ offline g v = true).

Lemma nodes_NoDup : NoDup (g_nodes g).
Proof. exact (topo_okb_NoDup _ _ _ Hwf). Qed.

Lemma nodes_split l1 v l2 : g_nodes g = l1 ++ v :: l2 -> ~ In v l1 /\ (forall p, In p (parents g v) -> In p l1).
Proof.
  intros E. destruct (topo_okb_split _ _ _ Hwf l1 v l2 E) as [A [_ C]]. split; [exact A|].
  intros p Hp. destruct (C p Hp) as [H|[]]. exact H.
Qed.

Lemma scan_facts incl0 trn0 sub incl trn :
  fold_left (scan_step g) (todo_of incl0) ([], incl0, trn0) = (sub, incl, trn) ->
  scan_body g incl0 trn0 (todo_of incl0) (sub, incl, trn).
Proof.
  intros E.
  assert (H := fold_left_prefix_ind (scan_step g) (scan_Q g incl0 trn0) (scan_Q_step g incl0 trn0)
                                    (todo_of incl0) [] ([], incl0, trn0)).
  simpl app in H. rewrite E in H. apply H.
  - intros _ _. split; [auto|]. split; [auto|]. split; [intros x Hx; left; exact Hx|].
    split; [intros x Hx; left; exact Hx|]. split; [intros x []|constructor].
  - apply NoDup_filter. exact nodes_NoDup.
  - intros x Hx. apply filter_In in Hx as [_ Hx]. apply negb_true_iff, mem_false in Hx. exact Hx.
Qed.

Lemma todo_In incl x : In x (todo_of incl) -> In x (g_nodes g).
Proof. intros H. apply filter_In in H. apply H. Qed.

Lemma scan_Inv incl0 trn0 sub incl trn :
  Inv incl0 trn0 -> scan_body g incl0 trn0 (todo_of incl0) (sub, incl, trn) ->
  Inv incl trn /\ (forall v, In v incl -> offline g v = true -> In v trn0).
Proof.
  intros [I1 I2] [B1 [B2 [B3 [B4 [B5 B6]]]]]. split; [split|].
  - intros v Hv. destruct (B3 v Hv) as [H|[H1 [H2 [H3 H4]]]].
    + destruct (I1 v H) as [Ha Hb]. split; [intros p Hp; apply B1; apply Ha; exact Hp|intros Ho; apply B2; apply Hb; exact Ho].
    + split; [exact H3|]. intros Ho. destruct H2 as [H2|H2]; [congruence|apply B2; exact H2].
  - intros v Hv. destruct (B4 v Hv) as [H|[H1 [H2 _]]]; [apply I2; exact H|]. split; [exact (todo_In _ _ H1)|exact H2].
  - intros v Hv Ho. destruct (B3 v Hv) as [H|[_ [H2 _]]]; [apply (I1 v H); exact Ho|]. destruct H2 as [H2|H2]; [congruence|exact H2].
Qed.

Lemma scan_trn_mono x : forall l (s : list nat * list nat * list nat),
  In x (snd s) -> In x (snd (fold_left (scan_step g) l s)).
Proof.
  induction l as [|n l IH]; intros s H; [exact H|]. simpl. apply IH.
  destruct s as [[sub incl] trn]. unfold scan_step.
  destruct (is_input g n || forallb (fun p => mem p incl) (parents g n)); [|exact H].
  destruct (offline g n && negb (mem n trn)); [right; exact H|exact H].
Qed.

(* a stretch of nodes that are all runnable (non-offline or already trained) is included entirely *)
Lemma scan_prefix_included incl_f : forall pre sub incl trn,
  (forall x, In x incl_f -> In x incl) ->
  (forall l1 a l2, pre = l1 ++ a :: l2 ->
     (forall p, In p (parents g a) -> In p l1 \/ In p incl) /\ (offline g a = false \/ In a trn)) ->
  exists sub' incl',
    fold_left (scan_step g) (filter (fun n => negb (mem n incl_f)) pre) (sub, incl, trn) = (sub', incl', trn)
    /\ (forall x, In x incl -> In x incl') /\ (forall x, In x pre -> In x incl').
Proof.
  induction pre as [|a pre IH]; intros sub incl trn Hf H.
  - exists sub, incl. simpl. repeat split; auto. intros x [].
  - destruct (H [] a pre eq_refl) as [Hp Ho]. simpl filter. destruct (mem a incl_f) eqn:Ea; simpl negb; cbv iota.
    + apply mem_In in Ea. destruct (IH sub incl trn Hf) as [sub' [incl' [E [M P]]]].
      { intros l1 b l2 ->. destruct (H (a :: l1) b l2 eq_refl) as [Hp' Ho']. split; [|exact Ho'].
        intros p Hpp. destruct (Hp' p Hpp) as [[<-|Hl]|Hi]; [right; apply Hf; exact Ea|left; exact Hl|right; exact Hi]. }
      exists sub', incl'. split; [exact E|]. split; [exact M|]. intros x [<-|Hx]; [apply M; apply Hf; exact Ea|apply P; exact Hx].
    + simpl fold_left.
      assert (Er : is_input g a || forallb (fun p => mem p incl) (parents g a) = true).
      { apply ready_spec. intros p Hpp. destruct (Hp p Hpp) as [[]|Hi]. exact Hi. }
      rewrite Er.
      assert (Eo : offline g a && negb (mem a trn) = false).
      { destruct Ho as [Ho|Ho]; [rewrite Ho; reflexivity|]. apply mem_In in Ho. rewrite Ho. apply andb_false_r. }
      rewrite Eo.
      destruct (IH (if is_output g a then sub else sub ++ [a]) (a :: incl) trn) as [sub' [incl' [E [M P]]]].
      { intros x Hx. right. apply Hf. exact Hx. }
      { intros l1 b l2 ->. destruct (H (a :: l1) b l2 eq_refl) as [Hp' Ho']. split; [|exact Ho'].
        intros p Hpp. destruct (Hp' p Hpp) as [[<-|Hl]|Hi]; [right; left; reflexivity|left; exact Hl|right; right; exact Hi]. }
      exists sub', incl'. split; [exact E|]. split; [intros x Hx; apply M; right; exact Hx|].
      intros x [<-|Hx]; [apply M; left; reflexivity|apply P; exact Hx].
Qed.

(* progress: as long as an offline node is untrained, one pass trains at least one more *)
Lemma scan_progress incl0 trn0 sub incl trn :
  Inv incl0 trn0 ->
  fold_left (scan_step g) (todo_of incl0) ([], incl0, trn0) = (sub, incl, trn) ->
  existsb (untrained trn0) (g_nodes g) = true ->
  exists u, In u (g_nodes g) /\ offline g u = true /\ ~ In u trn0 /\ In u trn.
Proof.
  intros [I1 I2] E Hex. apply first_split in Hex as [pre [u [post [En [Hu Hpre]]]]].
  unfold untrained in Hu. apply andb_prop in Hu as [Hu1 Hu2]. apply negb_true_iff, mem_false in Hu2.
  unfold todo_of in E. rewrite En, filter_app, fold_left_app in E.
  destruct (scan_prefix_included incl0 pre [] incl0 trn0 (fun x H => H)) as [sub' [incl' [E1 [M P]]]].
  { intros l1 a l2 Ep. split.
    - intros p Hp. left. rewrite Ep, <- app_assoc in En. simpl in En. apply (nodes_split _ _ _ En). exact Hp.
    - assert (Ha : untrained trn0 a = false) by (apply Hpre; rewrite Ep; apply in_or_app; right; left; reflexivity).
      unfold untrained in Ha. apply andb_false_iff in Ha as [Ha|Ha]; [left; exact Ha|right].
      apply negb_false_iff, mem_In in Ha. exact Ha. }
  rewrite E1 in E. simpl filter in E.
  assert (Eu : mem u incl0 = false).
  { apply mem_false. intros Hin. apply Hu2. apply (I1 u Hin). exact Hu1. }
  rewrite Eu in E. simpl in E.
  assert (Er : is_input g u || forallb (fun p => mem p incl') (parents g u) = true).
  { apply ready_spec. intros p Hp. apply P. apply (nodes_split _ _ _ En). exact Hp. }
  rewrite Er in E.
  assert (Eo : offline g u && negb (mem u trn0) = true).
  { rewrite Hu1. apply mem_false in Hu2. rewrite Hu2. reflexivity. }
  rewrite Eo in E.
  exists u. split; [rewrite En; apply in_or_app; right; left; reflexivity|]. split; [exact Hu1|]. split; [exact Hu2|].
  assert (Hm := scan_trn_mono u (filter (fun n => negb (mem n incl0)) post) (sub' ++ [u], incl', u :: trn0) (or_introl eq_refl)).
  rewrite E in Hm. exact Hm.
Qed.

Lemma loop_S fuel todo incl trn acc :
  stages_loop g (S fuel) todo incl trn acc =
  if set_eqb trn (filter (offline g) (g_nodes g)) then Some (rev acc) else
    let '(sub, incl', trn') := fold_left (scan_step g) todo ([], incl, trn) in
    stages_loop g fuel (todo_of incl') incl' trn'
                ((sub, filter (fun e => mem (fst e) sub && mem (snd e) sub) (g_edges g)) :: acc).
Proof. reflexivity. Qed.

Lemma loop_done incl trn : Inv incl trn ->
  (set_eqb trn (filter (offline g) (g_nodes g)) = true <-> existsb (untrained trn) (g_nodes g) = false).
Proof.
  intros [_ I2]. unfold set_eqb. split.
  - intros H. apply andb_prop in H as [_ H]. rewrite subset_In in H.
    destruct (existsb (untrained trn) (g_nodes g)) eqn:E; [|reflexivity].
    apply existsb_exists in E as [u [Hin Hu]]. unfold untrained in Hu. apply andb_prop in Hu as [Hu1 Hu2].
    apply negb_true_iff, mem_false in Hu2. exfalso. apply Hu2. apply H. apply filter_In. split; assumption.
  - intros H. apply andb_true_iff. split; apply subset_In; intros x Hx.
    + apply filter_In. apply I2. exact Hx.
    + apply filter_In in Hx as [Hin Ho]. destruct (mem x trn) eqn:E; [apply mem_In; exact E|].
      assert (existsb (untrained trn) (g_nodes g) = true); [|congruence].
      apply existsb_exists. exists x. split; [exact Hin|]. unfold untrained. rewrite Ho, E. reflexivity.
Qed.

(* 1. termination: the fuel never runs out when it is at least the number of untrained offline nodes *)
Lemma loop_total : forall fuel incl trn acc, Inv incl trn -> cnt trn <= fuel ->
  exists r, stages_loop g fuel (todo_of incl) incl trn acc = Some r.
Proof.
  induction fuel as [|fuel IH]; intros incl trn acc HI Hc.
  - simpl. destruct (set_eqb trn (filter (offline g) (g_nodes g))) eqn:E; [eexists; reflexivity|].
    exfalso. destruct (existsb (untrained trn) (g_nodes g)) eqn:Ex; [|apply (loop_done _ _ HI) in Ex; congruence].
    apply existsb_exists in Ex as [u [Hin Hu]]. unfold cnt in Hc.
    assert (In u (filter (untrained trn) (g_nodes g))) by (apply filter_In; split; assumption).
    destruct (filter (untrained trn) (g_nodes g)); [contradiction|simpl in Hc; lia].
  - rewrite loop_S. destruct (set_eqb trn (filter (offline g) (g_nodes g))) eqn:E; [eexists; reflexivity|].
    destruct (fold_left (scan_step g) (todo_of incl) ([], incl, trn)) as [[sub incl'] trn'] eqn:Es.
    assert (Ex : existsb (untrained trn) (g_nodes g) = true).
    { destruct (existsb (untrained trn) (g_nodes g)) eqn:Ex; [reflexivity|apply (loop_done _ _ HI) in Ex; congruence]. }
    assert (HB := scan_facts _ _ _ _ _ Es). destruct (scan_Inv _ _ _ _ _ HI HB) as [HI' _].
    destruct (scan_progress _ _ _ _ _ HI Es Ex) as [u [Hin [Ho [Hn Ht]]]].
    apply IH; [exact HI'|]. unfold cnt in *.
    assert (length (filter (untrained trn') (g_nodes g)) < length (filter (untrained trn) (g_nodes g))); [|lia].
    destruct HB as [_ [B2 _]].
    apply (filter_length_lt _ _ _ u); [|exact Hin| |].
    + intros x _ Hx. unfold untrained in *. apply andb_prop in Hx as [Hx1 Hx2]. rewrite Hx1. simpl.
      apply negb_true_iff, mem_false in Hx2. apply negb_true_iff, mem_false. intros H. apply Hx2. apply B2. exact H.
    + unfold untrained. rewrite Ho. apply mem_false in Hn. rewrite Hn. reflexivity.
    + unfold untrained. apply mem_In in Ht. rewrite Ht, Ho. reflexivity.
Qed.
End Loop.

(* ------------------------------------------------------------------------------------------------ what the loop returns *)
Lemma anc_child g a b : anc g a b -> exists c, In (a, c) (g_edges g).
Proof. induction 1 as [a b H|a c b _ IH _]; [exists b; exact H|exact IH]. Qed.

Lemma anc_closed g (incl : list nat) :
  (forall v, In v incl -> forall p, In p (parents g v) -> In p incl) ->
  forall a b, anc g a b -> (forall p, In p (parents g b) -> In p incl) -> In a incl.
Proof.
  intros Hc a b H. induction H as [a b H|a c b _ IH H]; intros Hb.
  - apply Hb. apply parents_in_In. exact H.
  - apply IH. apply Hc. apply Hb. apply parents_in_In. exact H.
Qed.

Lemma In_dec_nat (x : nat) l : In x l \/ ~ In x l.
Proof. destruct (in_dec Nat.eq_dec x l); [left|right]; assumption. Qed.

Section Post.
Variable g : graph.
Hypothesis Hwf : wf_dagb g = true.

Lemma loop_acc : forall fuel todo incl trn acc,
  stages_loop g fuel todo incl trn acc = option_map (fun r => rev acc ++ r) (stages_loop g fuel todo incl trn []).
Proof.
  induction fuel as [|fuel IH]; intros todo incl trn acc.
  - simpl. destruct (set_eqb trn (filter (offline g) (g_nodes g))); simpl; [rewrite app_nil_r|]; reflexivity.
  - rewrite !loop_S. destruct (set_eqb trn (filter (offline g) (g_nodes g))); simpl; [rewrite app_nil_r; reflexivity|].
    destruct (fold_left (scan_step g) todo ([], incl, trn)) as [[sub incl'] trn'].
    rewrite (IH _ _ _ (_ :: acc)), (IH _ _ _ [_]).
    destruct (stages_loop g fuel (todo_of g incl') incl' trn' []); simpl; [rewrite <- app_assoc|]; reflexivity.
Qed.

(* the facts about the stages still to come, from a loop state (incl, trn); [trained] is Model.fit's own `trained` set *)
Definition Post (incl trn trained : list nat) (subs : list (list nat)) : Prop :=
  let T := train_sets g trained subs in
  (forall s, In s subs -> NoDup s) /\
  (forall x, (In x (concat T) \/ In x trn) <-> (In x (g_nodes g) /\ offline g x = true)) /\
  (forall j Tb b a, nth_error T j = Some Tb -> In b Tb -> anc g a b -> offline g a = true ->
     In a trn \/ exists i Ta, i < j /\ nth_error T i = Some Ta /\ In a Ta) /\
  (forall j Tb b a, nth_error T j = Some Tb -> In b Tb -> anc g a b ->
     In a incl \/ exists i s Ti, i <= j /\ nth_error subs i = Some s /\ nth_error T i = Some Ti /\ In a s /\ ~ In a Ti).

Lemma post_done incl trn trained :
  Inv g incl trn -> set_eqb trn (filter (offline g) (g_nodes g)) = true -> Post incl trn trained [].
Proof.
  intros [_ I2] H. unfold set_eqb in H. apply andb_prop in H as [_ H]. rewrite subset_In in H.
  unfold Post. simpl. split; [intros s []|]. split.
  - intros x. split; [intros [[]|Hx]; apply I2; exact Hx|]. intros [Hn Ho]. right. apply H. apply filter_In. split; assumption.
  - split; intros [|j]; simpl; discriminate.
Qed.

Lemma loop_post : forall fuel incl trn r,
  Inv g incl trn -> stages_loop g fuel (todo_of g incl) incl trn [] = Some r ->
  forall trained, (forall x, In x trained <-> In x trn) -> Post incl trn trained (map fst r).
Proof.
  induction fuel as [|fuel IH]; intros incl trn r HI H trained Ht.
  - simpl in H. destruct (set_eqb trn (filter (offline g) (g_nodes g))) eqn:E; [|discriminate].
    inversion H; subst. apply post_done; assumption.
  - rewrite loop_S in H. destruct (set_eqb trn (filter (offline g) (g_nodes g))) eqn:E.
    { inversion H; subst. apply post_done; assumption. }
    destruct (fold_left (scan_step g) (todo_of g incl) ([], incl, trn)) as [[sub incl'] trn'] eqn:Es.
    rewrite loop_acc in H. destruct (stages_loop g fuel (todo_of g incl') incl' trn' []) as [r'|] eqn:El; [|discriminate].
    simpl in H. inversion H; subst r. clear H. simpl map.
    assert (HB := scan_facts g Hwf _ _ _ _ _ Es).
    destruct (scan_Inv g _ _ _ _ _ HI HB) as [HI' Hfine].
    destruct HB as [B1 [B2 [B3 [B4 [B5 B6]]]]].
    set (T0 := filter (fun n => offline g n && negb (mem n trained)) sub).
    assert (K : forall x, In x T0 <-> (In x trn' /\ ~ In x trn)).
    { intros x. unfold T0. rewrite filter_In. split.
      - intros [Hs Hx]. apply andb_prop in Hx as [Hx1 Hx2]. apply negb_true_iff, mem_false in Hx2.
        destruct (B5 x Hs) as [_ [Hc|[Hc1 Hc2]]]; [exact Hc|]. exfalso.
        destruct (B3 x Hc1) as [Hc|[_ [[Hc|Hc] _]]]; [exact (Hc2 Hc)|congruence|apply Hx2; apply Ht; exact Hc].
      - intros [Hx1 Hx2]. destruct (B4 x Hx1) as [Hc|[_ [Ho [_ [_ Hs]]]]]; [contradiction|]. split; [exact Hs|].
        rewrite Ho. simpl. apply negb_true_iff, mem_false. intros Hc. apply Hx2. apply Ht. exact Hc. }
    assert (Ht' : forall x, In x (T0 ++ trained) <-> In x trn').
    { intros x. rewrite in_app_iff, K, Ht. split.
      - intros [[Hx _]|Hx]; [exact Hx|apply B2; exact Hx].
      - intros Hx. destruct (In_dec_nat x trn) as [Hd|Hd]; [right; exact Hd|left; split; assumption]. }
    specialize (IH incl' trn' r' HI' El (T0 ++ trained) Ht').
    destruct IH as [P1 [P2 [P3 P4]]].
    assert (Hnew : forall a b, anc g a b -> In a incl' -> In a incl \/ (In a sub /\ ~ In a T0)).
    { intros a b Hab Ha. destruct (B3 a Ha) as [Hc|[_ [Hc1 [_ Hc2]]]]; [left; exact Hc|right]. split.
      - apply Hc2. apply is_output_false. exact (anc_child g a b Hab).
      - intros Hin. apply K in Hin as [Hin1 Hin2]. destruct Hc1 as [Hc1|Hc1]; [|exact (Hin2 Hc1)].
        destruct (B4 a Hin1) as [Hc|[_ [Hc _]]]; [exact (Hin2 Hc)|congruence]. }
    assert (Hanc0 : forall a b, In b T0 -> anc g a b -> In a incl').
    { intros a b Hb Hab. apply K in Hb as [Hb1 Hb2].
      destruct (B4 b Hb1) as [Hc|[_ [_ [_ [Hp _]]]]]; [contradiction|].
      apply (anc_closed g incl' (fun v Hv => proj1 (proj1 HI' v Hv)) a b Hab Hp). }
    unfold Post. simpl train_sets. fold T0. split; [|split; [|split]].
    + intros s [<-|Hs]; [exact B6|apply P1; exact Hs].
    + intros x. simpl concat. rewrite in_app_iff. rewrite <- P2. split.
      * intros [[Hx|Hx]|Hx]; [right; apply K in Hx; apply Hx|left; exact Hx|right; apply B2; exact Hx].
      * intros [Hx|Hx]; [left; right; exact Hx|]. destruct (In_dec_nat x trn) as [Hd|Hd]; [right; exact Hd|].
        left. left. apply K. split; assumption.
    + intros [|j] Tb b a Hn Hb Hab Ho; simpl in Hn.
      * inversion Hn; subst Tb. left. apply Hfine; [|exact Ho]. exact (Hanc0 a b Hb Hab).
      * destruct (P3 j Tb b a Hn Hb Hab Ho) as [Hc|[i [Ta [Hi [Hn' Ha]]]]].
        -- destruct (In_dec_nat a trn) as [Hd|Hd]; [left; exact Hd|right].
           exists 0, T0. split; [lia|]. split; [reflexivity|]. apply K. split; assumption.
        -- right. exists (S i), Ta. split; [lia|]. split; [exact Hn'|exact Ha].
    + intros [|j] Tb b a Hn Hb Hab; simpl in Hn.
      * inversion Hn; subst Tb. destruct (Hnew a b Hab (Hanc0 a b Hb Hab)) as [Hc|[Hc1 Hc2]]; [left; exact Hc|right].
        exists 0, sub, T0. repeat split; auto.
      * destruct (P4 j Tb b a Hn Hb Hab) as [Hc|[i [s [Ti [Hi [Hn1 [Hn2 [Ha1 Ha2]]]]]]]].
        -- destruct (Hnew a b Hab Hc) as [Hc'|[Hc1 Hc2]]; [left; exact Hc'|right].
           exists 0, sub, T0. repeat split; auto. lia.
        -- right. exists (S i), s, Ti. repeat split; auto. lia.
Qed.
End Post.

(* ------------------------------------------------------------------------------------------------ get_offline_subgraphs *)
Lemma NoDup_app_intro {A} (l1 l2 : list A) :
  NoDup l1 -> NoDup l2 -> (forall x, In x l1 -> ~ In x l2) -> NoDup (l1 ++ l2).
Proof.
  induction l1 as [|x l1 IH]; intros H1 H2 Hd; [exact H2|]. inversion H1 as [|? ? Hx H1']; subst. simpl. constructor.
  - intros Hin. apply in_app_or in Hin as [Hin|Hin]; [exact (Hx Hin)|exact (Hd x (or_introl eq_refl) Hin)].
  - apply IH; [exact H1'|exact H2|]. intros y Hy. apply Hd. right. exact Hy.
Qed.

Lemma train_sets_NoDup g : forall subs trained, (forall s, In s subs -> NoDup s) ->
  NoDup (concat (train_sets g trained subs)) /\ (forall x, In x (concat (train_sets g trained subs)) -> ~ In x trained).
Proof.
  induction subs as [|s subs IH]; intros trained Hs; simpl; [split; [constructor|intros x []]|].
  set (T0 := filter (fun n => offline g n && negb (mem n trained)) s).
  destruct (IH (T0 ++ trained) (fun s' H => Hs s' (or_intror H))) as [N D]. split.
  - apply NoDup_app_intro; [apply NoDup_filter; apply Hs; left; reflexivity|exact N|].
    intros x Hx Hin. apply (D x Hin). apply in_or_app. left. exact Hx.
  - intros x Hx. apply in_app_or in Hx as [Hx|Hx].
    + unfold T0 in Hx. apply filter_In in Hx as [_ Hx]. apply andb_prop in Hx as [_ Hx].
      apply negb_true_iff, mem_false in Hx. exact Hx.
    + intros Hin. apply (D x Hx). apply in_or_app. right. exact Hin.
Qed.

Lemma length_required_from g : forall subs fitted, length (required_from g fitted subs) = length subs.
Proof.
  induction subs as [|s subs IH]; intros fitted; [reflexivity|]. destruct subs as [|s' subs]; [reflexivity|].
  change (S (length (required_from g (filter (offline g) s ++ fitted) (s' :: subs))) = S (length (s' :: subs))).
  rewrite IH. reflexivity.
Qed.

Lemma combine_fst_nodes {A B C} : forall (subs : list (A * B)) (req : list C), length req = length subs ->
  map (fun p => fst (fst p)) (combine subs req) = map fst subs.
Proof.
  induction subs as [|x subs IH]; intros [|r req] H; simpl in *; try discriminate; [reflexivity|].
  f_equal. apply IH. lia.
Qed.

Lemma filter_none {A} (P : A -> bool) l : (forall x, In x l -> P x = false) -> filter P l = [].
Proof. induction l as [|x l IH]; intros H; simpl; [reflexivity|]. rewrite (H x (or_introl eq_refl)). apply IH. intros y Hy. apply H. right. exact Hy. Qed.
Lemma filter_all_in {A} (P : A -> bool) l : (forall x, In x l -> P x = true) -> filter P l = l.
Proof. induction l as [|x l IH]; intros H; simpl; [reflexivity|]. rewrite (H x (or_introl eq_refl)). f_equal. apply IH. intros y Hy. apply H. right. exact Hy. Qed.
Lemma filter_all {A} (P : A -> bool) l : (forall x, P x = true) -> filter P l = l.
Proof. intros H. induction l as [|x l IH]; simpl; [reflexivity|]. rewrite H, IH. reflexivity. Qed.

Section Top.
Variable g : graph.
Hypothesis Hwf : wf_dagb g = true.

Lemma inv_init : Inv g [] [].
Proof. split; intros v []. Qed.
Lemma todo_nil : todo_of g [] = g_nodes g.
Proof. apply filter_all. reflexivity. Qed.

Definition stages_of (subs : list (list nat * list (nat * nat))) : list stage :=
  map (fun p => mkStage (fst (fst p)) (snd (fst p)) (snd p)) (combine subs (required_from g [] (map fst subs))).
Lemma stages_of_nodes subs : map s_nodes (stages_of subs) = map fst subs.
Proof.
  unfold stages_of. rewrite map_map. simpl. apply combine_fst_nodes. rewrite length_required_from, map_length. reflexivity.
Qed.

(* 1. the loop of the model never runs out of fuel on a DAG; it yields no stage iff there is no offline node *)
Lemma loop_result :
  exists subs, stages_loop g (S (length (g_nodes g))) (g_nodes g) [] [] [] = Some subs /\
               (subs = [] <-> filter (offline g) (g_nodes g) = []) /\
               get_offline_subgraphs g = match subs with [] => None | _ => Some (stages_of subs) end.
Proof.
  destruct (loop_total g Hwf (S (length (g_nodes g))) [] [] [] inv_init) as [r Hr].
  { unfold cnt. etransitivity; [apply (filter_length_le (fun _ => true)); reflexivity|]. rewrite filter_all by reflexivity. lia. }
  rewrite todo_nil in Hr. exists r. split; [exact Hr|]. split.
  - rewrite loop_S in Hr. unfold set_eqb in Hr. simpl subset in Hr.
    destruct (filter (offline g) (g_nodes g)) as [|o F] eqn:EF.
    + simpl in Hr. inversion Hr. tauto.
    + simpl in Hr. destruct (fold_left (scan_step g) (g_nodes g) ([], [], [])) as [[sub incl'] trn'].
      rewrite loop_acc in Hr. destruct (stages_loop g (length (g_nodes g)) (todo_of g incl') incl' trn' []); [|discriminate].
      simpl in Hr. inversion Hr. split; discriminate.
  - unfold get_offline_subgraphs. rewrite Hr. destruct r; reflexivity.
Qed.

Theorem staging_terminates :
  (exists subs, stages_loop g (S (length (g_nodes g))) (g_nodes g) [] [] [] = Some subs) /\
  (get_offline_subgraphs g = None <-> filter (offline g) (g_nodes g) = []).
Proof.
  destruct loop_result as [subs [H1 [H2 H3]]]. split; [exists subs; exact H1|]. rewrite H3, <- H2.
  destruct subs; split; intros; try reflexivity; discriminate.
Qed.

Lemma staging_post stg :
  get_offline_subgraphs g = Some stg -> Post g [] [] [] (map s_nodes stg).
Proof.
  intros H. destruct loop_result as [subs [H1 [_ H3]]]. rewrite H3 in H. destruct subs as [|s0 subs]; [discriminate|].
  inversion H; subst stg. rewrite stages_of_nodes. rewrite <- todo_nil in H1.
  apply (loop_post g Hwf _ _ _ _ inv_init H1). intros x. tauto.
Qed.

(* 2. every offline node is trained in exactly one stage *)
Theorem staging_trains_each_once stg :
  get_offline_subgraphs g = Some stg ->
  let T := train_sets g [] (map s_nodes stg) in
  NoDup (concat T) /\ (forall v, In v (concat T) <-> (In v (g_nodes g) /\ offline g v = true)).
Proof.
  intros H T. destruct (staging_post stg H) as [P1 [P2 _]]. split.
  - apply (train_sets_NoDup g _ [] P1).
  - intros v. rewrite <- P2. simpl. tauto.
Qed.

(* 3. an offline ancestor is trained in a strictly earlier stage *)
Theorem staging_respects_ancestors stg :
  get_offline_subgraphs g = Some stg ->
  let T := train_sets g [] (map s_nodes stg) in
  forall j Tb a b, nth_error T j = Some Tb -> In b Tb -> anc g a b -> offline g a = true ->
    exists i Ta, i < j /\ nth_error T i = Some Ta /\ In a Ta.
Proof.
  intros H T j Tb a b Hn Hb Hab Ho. destruct (staging_post stg H) as [_ [_ [P3 _]]].
  destruct (P3 j Tb b a Hn Hb Hab Ho) as [[]|Hx]. exact Hx.
Qed.

(* 4. every ancestor of a node trained in stage j runs as a forward node (listed, not trained) in a stage i <= j *)
Theorem staging_ancestors_run stg :
  get_offline_subgraphs g = Some stg ->
  let T := train_sets g [] (map s_nodes stg) in
  forall j Tb a b, nth_error T j = Some Tb -> In b Tb -> anc g a b ->
    exists i s Ti, i <= j /\ nth_error stg i = Some s /\ nth_error T i = Some Ti /\ In a (s_nodes s) /\ ~ In a Ti.
Proof.
  intros H T j Tb a b Hn Hb Hab. destruct (staging_post stg H) as [_ [_ [_ P4]]].
  destruct (P4 j Tb b a Hn Hb Hab) as [[]|[i [s [Ti [Hi [Hn1 [Hn2 [Ha1 Ha2]]]]]]]].
  rewrite nth_error_map in Hn1. destruct (nth_error stg i) as [st|] eqn:Es; [|discriminate]. simpl in Hn1. inversion Hn1; subst s.
  exists i, st, Ti. repeat split; auto.
Qed.
End Top.

(* non-vacuity: a 7-node deep model with a shortcut and a fan-in:  0 >> 1 >> 2(offline) >> 3 >> 5 >> 6(offline), 0 >> 4 >> 5 *)
Definition g_seven : graph := mkG [0; 1; 2; 3; 4; 5; 6] [(0, 1); (0, 4); (1, 2); (2, 3); (3, 5); (4, 5); (5, 6)] [2; 6].
Lemma g_seven_wf : wf_dagb g_seven = true.
Proof. vm_compute. reflexivity. Qed.

(* ------------------------------------------------------------------------------------------------ train_sets IS what Model.fit trains *)
Section FitTrained.
Variables D P : Type.
Variable a_run : nat -> list D -> D.
Variable a_fit : nat -> list D -> D -> P.
Variable a_pred : nat -> P -> list D -> D.
Variable g : graph.
Variable Y0 : list (nat * D).
Notation run_stage := (run_stage D P a_run a_fit a_pred g Y0).

Lemma run_stage_trained Xs ps tr s Xs' ps' tr' :
  run_stage (Some (Xs, ps, tr)) s = Some (Xs', ps', tr') ->
  tr' = filter (fun n => offline g n && negb (mem n tr)) (s_nodes s) ++ tr
  /\ map fst ps' = filter (fun n => offline g n && negb (mem n tr)) (s_nodes s) ++ map fst ps.
Proof.
  unfold FitSem.run_stage.
  set (offl := filter (fun n => offline g n && negb (mem n tr)) (s_nodes s)).
  destruct (match filter (fun n => negb (mem n offl)) (s_nodes s) with [] => Some Xs | _ => _ end) as [dm|]; [|discriminate].
  destruct (fit_nodes D P a_fit Y0 dm offl) as [newp|] eqn:Ef; [|discriminate].
  intros H. inversion H; subst. split; [reflexivity|]. rewrite map_app. f_equal.
  clear H. revert newp Ef. induction offl as [|v rest IH]; intros newp Ef; simpl in Ef.
  - inversion Ef. reflexivity.
  - destruct (lookup dm v); [|discriminate]. destruct (lookup Y0 v); [|discriminate].
    destruct (fit_nodes D P a_fit Y0 dm rest) as [l|]; [|discriminate]. inversion Ef. simpl. f_equal. apply IH. reflexivity.
Qed.

Lemma fold_run_stage_none stg : fold_left run_stage stg None = None.
Proof. induction stg; simpl; auto. Qed.

(* the `trained` set and the fitted nodes of Model.fit after all the stages are the train_sets, stage after stage *)
Lemma fit_trained : forall stg Xs ps tr Xs' ps' tr',
  fold_left run_stage stg (Some (Xs, ps, tr)) = Some (Xs', ps', tr') ->
  tr' = concat (rev (train_sets g tr (map s_nodes stg))) ++ tr
  /\ map fst ps' = concat (rev (train_sets g tr (map s_nodes stg))) ++ map fst ps.
Proof.
  induction stg as [|s stg IH]; intros Xs ps tr Xs' ps' tr' H; cbn [fold_left] in H.
  - inversion H. split; reflexivity.
  - destruct (run_stage (Some (Xs, ps, tr)) s) as [[[X1 p1] t1]|] eqn:E; [|rewrite fold_run_stage_none in H; discriminate].
    apply run_stage_trained in E as [E1 E2]. apply IH in H as [H1 H2]. simpl map. simpl train_sets. simpl rev.
    rewrite concat_app. simpl concat. rewrite app_nil_r, <- !app_assoc, <- E1, <- E2. split; assumption.
Qed.
End FitTrained.

(* ================================================================================================================ *)
(* B. chains n0 >> n1 >> ... >> nk of ANY length with ANY labelling of offline nodes among n1..nk (deep ESNs):
      closed form of the staging, and its validity. *)
Lemma parents_in_filter (Q : nat * nat -> bool) es v :
  parents_in (filter Q es) v = filter (fun p => Q (p, v)) (parents_in es v).
Proof.
  unfold parents_in. induction es as [|[a b] es IH]; simpl; [reflexivity|].
  destruct (Q (a, b)) eqn:EQ; simpl; destruct (b =? v) eqn:Eb; simpl; try exact IH.
  - apply Nat.eqb_eq in Eb. subst. rewrite EQ. f_equal. exact IH.
  - apply Nat.eqb_eq in Eb. subst. rewrite EQ. exact IH.
Qed.

Lemma filter_cons_split {A} (P : A -> bool) : forall l b r, filter P l = b :: r ->
  exists pre post, l = pre ++ b :: post /\ (forall x, In x pre -> P x = false) /\ P b = true /\ filter P post = r.
Proof.
  induction l as [|x l IH]; intros b r H; simpl in H; [discriminate|]. destruct (P x) eqn:E.
  - inversion H; subst. exists [], l. repeat split; auto. intros y [].
  - destruct (IH b r H) as [pre [post [-> [H1 [H2 H3]]]]]. exists (x :: pre), post. repeat split; auto.
    intros y [<-|Hy]; auto.
Qed.

Lemma seq_split_eq : forall pre s n b post, seq s n = pre ++ b :: post ->
  pre = seq s (b - s) /\ post = seq (S b) (s + n - S b) /\ s <= b < s + n.
Proof.
  induction pre as [|x pre IH]; intros s n b post H; destruct n as [|n]; simpl in H; try discriminate; inversion H; subst.
  - replace (b - b) with 0 by lia. replace (b + S n - S b) with n by lia. repeat split; auto; lia.
  - destruct (IH _ _ _ _ H2) as [E1 [E2 E3]]. replace (b - x) with (S (b - S x)) by lia. simpl.
    replace (x + S n - S b) with (S x + n - S b) by lia. repeat split; try lia; congruence.
Qed.

Lemma parents_in_cons a b es v : parents_in ((a, b) :: es) v = if b =? v then a :: parents_in es v else parents_in es v.
Proof. unfold parents_in. simpl. destruct (b =? v); reflexivity. Qed.

Section Chain.
Variable k : nat.
Variable off : list nat.
Hypothesis off0 : mem 0 off = false.                 (* the entry node is fed by the data: not a readout *)

Definition chain_edges : list (nat * nat) := map (fun i => (i, S i)) (seq 0 k).
Definition chain : graph := mkG (seq 0 (S k)) chain_edges off.
Notation g := chain.
Notation o := (fun v => mem v off).

Lemma chain_parents_gen v : forall n s,
  parents_in (map (fun i => (i, S i)) (seq s n)) v = if (s <? v) && (v <=? s + n) then [v - 1] else [].
Proof.
  induction n as [|n IH]; intros s.
  - simpl. destruct (Nat.ltb_spec s v), (Nat.leb_spec v (s + 0)); simpl; try reflexivity; lia.
  - cbn [seq map]. rewrite parents_in_cons, IH. destruct (Nat.eqb_spec (S s) v) as [<-|Hne].
    + rewrite Nat.ltb_irrefl. cbn [andb].
      assert (X : (s <? S s) && (S s <=? s + S n) = true)
        by (apply andb_true_iff; split; [apply Nat.ltb_lt|apply Nat.leb_le]; lia).
      rewrite X. f_equal. lia.
    + assert (X : (S s <? v) && (v <=? S s + n) = (s <? v) && (v <=? s + S n)).
      { destruct (Nat.ltb_spec (S s) v), (Nat.leb_spec v (S s + n)), (Nat.ltb_spec s v), (Nat.leb_spec v (s + S n));
          try reflexivity; lia. }
      rewrite X. reflexivity.
Qed.
Lemma chain_parents v : parents g v = if (0 <? v) && (v <=? k) then [v - 1] else [].
Proof. exact (chain_parents_gen v k 0). Qed.
Lemma chain_parents_in v : 1 <= v <= k -> parents g v = [v - 1].
Proof.
  intros H. rewrite chain_parents. destruct (Nat.ltb_spec 0 v), (Nat.leb_spec v k); simpl; try reflexivity; lia.
Qed.
Lemma chain_is_output v : v < k -> is_output g v = false.
Proof. intros H. apply is_output_false. exists (S v). unfold chain, chain_edges. simpl. apply in_map_iff. exists v. split; [reflexivity|apply in_seq; lia]. Qed.

(* a runnable stretch is included, in order *)
Lemma chain_scan_run : forall n a sub incl trn,
  (a = 0 \/ In (a - 1) incl) -> a + n <= k -> (forall v, a <= v < a + n -> offline g v = false \/ In v trn) ->
  fold_left (scan_step g) (seq a n) (sub, incl, trn) = (sub ++ seq a n, rev (seq a n) ++ incl, trn).
Proof.
  induction n as [|n IH]; intros a sub incl trn Ha Hk Ho; simpl; [rewrite app_nil_r; reflexivity|].
  assert (Er : is_input g a || forallb (fun p => mem p incl) (parents g a) = true).
  { apply ready_spec. intros p Hp. rewrite chain_parents in Hp.
    destruct (Nat.ltb_spec 0 a), (Nat.leb_spec a k); simpl in Hp; try contradiction. destruct Hp as [<-|[]].
    destruct Ha as [Ha|Ha]; [lia|exact Ha]. }
  rewrite Er.
  assert (Eo : offline g a && negb (mem a trn) = false).
  { destruct (Ho a ltac:(lia)) as [H|H]; [rewrite H; reflexivity|]. apply mem_In in H. rewrite H. apply andb_false_r. }
  rewrite Eo, chain_is_output by lia.
  rewrite IH; [|right; simpl; left; lia|lia|intros v Hv; apply Ho; lia].
  rewrite <- !app_assoc. reflexivity.
Qed.

(* nodes whose parent is not included are skipped *)
Lemma chain_scan_blocked : forall l sub incl trn, (forall v, In v l -> 1 <= v <= k /\ ~ In (v - 1) incl) ->
  fold_left (scan_step g) l (sub, incl, trn) = (sub, incl, trn).
Proof.
  induction l as [|v l IH]; intros sub incl trn H; [reflexivity|]. simpl.
  destruct (is_input g v || forallb (fun p => mem p incl) (parents g v)) eqn:Er.
  - exfalso. rewrite ready_spec in Er. destruct (H v (or_introl eq_refl)) as [Hv Hn]. apply Hn. apply Er.
    rewrite chain_parents_in by exact Hv. left. reflexivity.
  - apply IH. intros u Hu. apply H. right. exact Hu.
Qed.

Lemma mem_rev_seq v a : mem v (rev (seq 0 a)) = (v <? a).
Proof.
  destruct (Nat.ltb_spec v a).
  - apply mem_In. rewrite <- in_rev. apply in_seq. lia.
  - apply mem_false. rewrite <- in_rev. intros Hin. apply in_seq in Hin. lia.
Qed.

Lemma chain_todo a : a <= S k -> todo_of g (rev (seq 0 a)) = seq a (S k - a).
Proof.
  intros Ha. unfold todo_of, chain. cbn [g_nodes]. replace (S k) with (a + (S k - a)) at 1 by lia.
  rewrite seq_app, filter_app. simpl. rewrite filter_none, filter_all_in; [reflexivity| |].
  - intros x Hx. apply in_seq in Hx. rewrite mem_rev_seq. destruct (Nat.ltb_spec x a); [lia|reflexivity].
  - intros x Hx. apply in_seq in Hx. rewrite mem_rev_seq. destruct (Nat.ltb_spec x a); [reflexivity|lia].
Qed.

(* one iteration of the while loop on a chain: from the head a of a segment up to the next offline node b *)
Lemma chain_iter a b trn :
  a < b <= k -> (offline g a = false \/ In a trn) -> (forall v, a < v < b -> offline g v = false) ->
  offline g b = true -> ~ In b trn ->
  fold_left (scan_step g) (seq a (S k - a)) ([], rev (seq 0 a), trn) = (seq a (S b - a), rev (seq 0 b), b :: trn).
Proof.
  intros Hab Ha Hmid Hb Hbt.
  replace (S k - a) with ((b - a) + S (k - b)) by lia. rewrite seq_app, fold_left_app.
  replace (a + (b - a)) with b by lia.
  rewrite chain_scan_run.
  - cbn [seq fold_left app].
    assert (Er : is_input g b || forallb (fun p => mem p (rev (seq a (b - a)) ++ rev (seq 0 a))) (parents g b) = true).
    { apply ready_spec. intros p Hp. rewrite chain_parents_in in Hp by lia. destruct Hp as [<-|[]].
      apply in_or_app. left. rewrite <- in_rev. apply in_seq. lia. }
    unfold scan_step at 2. rewrite Er.
    assert (Eo : offline g b && negb (mem b trn) = true).
    { rewrite Hb. apply mem_false in Hbt. rewrite Hbt. reflexivity. }
    rewrite Eo. rewrite chain_scan_blocked.
    + assert (E1 : seq a (b - a) ++ [b] = seq a (S b - a)).
      { replace (S b - a) with ((b - a) + 1) by lia. rewrite seq_app. replace (a + (b - a)) with b by lia. reflexivity. }
      assert (E2 : rev (seq a (b - a)) ++ rev (seq 0 a) = rev (seq 0 b)).
      { rewrite <- rev_app_distr. replace (seq 0 b) with (seq 0 (a + (b - a))) by (f_equal; lia). rewrite seq_app. reflexivity. }
      rewrite E1, E2. reflexivity.
    + intros v Hv. apply in_seq in Hv. split; [lia|]. intros Hin. apply in_app_or in Hin as [Hin|Hin];
        rewrite <- in_rev in Hin; apply in_seq in Hin; lia.
  - destruct a as [|a']; [left; reflexivity|right]. rewrite <- in_rev. apply in_seq. lia.
  - lia.
  - intros v Hv. destruct (Nat.eq_dec v a) as [->|Hne]; [exact Ha|left; apply Hmid; lia].
Qed.

(* closed form: the segments between consecutive offline nodes *)
Fixpoint segs (a : nat) (offs : list nat) : list (list nat) :=
  match offs with [] => [] | b :: r => seq a (S b - a) :: segs b r end.
Definition with_edges (s : list nat) : list nat * list (nat * nat) :=
  (s, filter (fun e => mem (fst e) s && mem (snd e) s) chain_edges).

Lemma chain_off0 : offline g 0 = false.
Proof. exact off0. Qed.

Lemma chain_loop : forall offs fuel a trn,
  a <= k -> length offs <= fuel -> filter (offline g) (seq (S a) (k - a)) = offs ->
  (offline g a = false \/ In a trn) -> (forall x, In x trn <-> (offline g x = true /\ 1 <= x <= a)) ->
  stages_loop g fuel (seq a (S k - a)) (rev (seq 0 a)) trn [] = Some (map with_edges (segs a offs)).
Proof.
  induction offs as [|b r IH]; intros fuel a trn Ha Hf Hoffs Hao Htrn.
  - assert (E : set_eqb trn (filter (offline g) (g_nodes g)) = true).
    { unfold set_eqb. apply andb_true_iff. split; apply subset_In; intros x Hx.
      - apply Htrn in Hx as [H1 H2]. apply filter_In. split; [|exact H1]. unfold chain. cbn [g_nodes]. apply in_seq. lia.
      - apply filter_In in Hx as [H1 H2]. unfold chain in H1. cbn [g_nodes] in H1. apply in_seq in H1.
        destruct (Nat.eq_dec x 0) as [->|Hx0]; [rewrite chain_off0 in H2; discriminate|].
        destruct (le_lt_dec x a) as [Hle|Hgt]; [apply Htrn; split; [exact H2|lia]|].
        assert (Hin : In x (filter (offline g) (seq (S a) (k - a)))) by (apply filter_In; split; [apply in_seq; lia|exact H2]).
        rewrite Hoffs in Hin. destruct Hin. }
    destruct fuel as [|fuel]; [cbn [stages_loop]|rewrite loop_S]; rewrite E; reflexivity.
  - destruct fuel as [|fuel]; [simpl in Hf; lia|]. rewrite loop_S.
    apply filter_cons_split in Hoffs as [pre [post [Es [Hpre [Hb Hpost]]]]].
    apply seq_split_eq in Es as [Epre [Epost Hrange]].
    assert (Hbt : ~ In b trn) by (intros Hin; apply Htrn in Hin; lia).
    destruct (set_eqb trn (filter (offline g) (g_nodes g))) eqn:E.
    { exfalso. unfold set_eqb in E. apply andb_prop in E as [_ E]. rewrite subset_In in E. apply Hbt. apply E.
      apply filter_In. split; [|exact Hb]. unfold chain. cbn [g_nodes]. apply in_seq. lia. }
    rewrite (chain_iter a b trn); [| lia | exact Hao | | exact Hb | exact Hbt].
    2:{ intros v Hv. apply Hpre. rewrite Epre. apply in_seq. lia. }
    rewrite chain_todo by lia. rewrite loop_acc.
    rewrite (IH fuel b (b :: trn)).
    + reflexivity.
    + lia.
    + simpl in Hf. lia.
    + rewrite <- Hpost, Epost. f_equal. f_equal. lia.
    + right. left. reflexivity.
    + intros x. split.
      * intros [<-|Hx]; [split; [exact Hb|lia]|]. apply Htrn in Hx. split; [apply Hx|lia].
      * intros [H1 H2]. destruct (Nat.eq_dec x b) as [->|Hne]; [left; reflexivity|right].
        apply Htrn. split; [exact H1|]. destruct (le_lt_dec x a) as [Hle|Hgt]; [lia|]. exfalso.
        assert (Hf' : offline g x = false) by (apply Hpre; rewrite Epre; apply in_seq; lia). congruence.
Qed.

Definition chain_offs : list nat := filter (offline g) (seq 1 k).

Lemma chain_stages_loop :
  stages_loop g (S (length (g_nodes g))) (g_nodes g) [] [] [] = Some (map with_edges (segs 0 chain_offs)).
Proof.
  assert (H := chain_loop chain_offs (S (length (g_nodes g))) 0 []).
  rewrite Nat.sub_0_r in H. apply H.
  - lia.
  - unfold chain_offs, chain. cbn [g_nodes]. rewrite seq_length.
    etransitivity; [apply (filter_length_le (fun _ => true)); reflexivity|]. rewrite filter_all by reflexivity. rewrite seq_length. lia.
  - reflexivity.
  - left. exact chain_off0.
  - intros x. split; [intros []|intros [_ Hx]; lia].
Qed.

(* ---- relations ---- *)
Lemma children_in_cons a b es v : children_in ((a, b) :: es) v = if a =? v then b :: children_in es v else children_in es v.
Proof. unfold children_in. simpl. destruct (a =? v); reflexivity. Qed.
Lemma chain_children_gen v : forall n s,
  children_in (map (fun i => (i, S i)) (seq s n)) v = if (s <=? v) && (v <? s + n) then [S v] else [].
Proof.
  induction n as [|n IH]; intros s.
  - simpl. destruct (Nat.leb_spec s v), (Nat.ltb_spec v (s + 0)); simpl; try reflexivity; lia.
  - cbn [seq map]. rewrite children_in_cons, IH. destruct (Nat.eqb_spec s v) as [<-|Hne].
    + assert (X : (S s <=? s) && (s <? S s + n) = false) by (destruct (Nat.leb_spec (S s) s); [lia|reflexivity]).
      assert (Y : (s <=? s) && (s <? s + S n) = true)
        by (apply andb_true_iff; split; [apply Nat.leb_le|apply Nat.ltb_lt]; lia).
      rewrite X, Y. reflexivity.
    + assert (X : (S s <=? v) && (v <? S s + n) = (s <=? v) && (v <? s + S n)).
      { destruct (Nat.leb_spec (S s) v), (Nat.ltb_spec v (S s + n)), (Nat.leb_spec s v), (Nat.ltb_spec v (s + S n));
          try reflexivity; lia. }
      rewrite X. reflexivity.
Qed.
Lemma chain_children v : v < k -> children g v = [S v].
Proof.
  intros H. unfold children, chain, chain_edges. cbn [g_edges]. rewrite chain_children_gen.
  destruct (Nat.leb_spec 0 v), (Nat.ltb_spec v (0 + k)); simpl; try reflexivity; lia.
Qed.

Lemma flat_map_nil {A B} (f : A -> list B) l : (forall x, In x l -> f x = []) -> flat_map f l = [].
Proof. induction l as [|x l IH]; intros H; simpl; [reflexivity|]. rewrite (H x (or_introl eq_refl)). apply IH. intros y Hy. apply H. right. exact Hy. Qed.

(* links from the forward part a..b-1 of a segment to anything containing b and none of a..b-1 *)
Lemma chain_links a b nexts :
  a < b <= k -> (forall n, a <= n < b -> ~ In n nexts) -> In b nexts ->
  get_links g (seq a (b - a)) nexts = [(b - 1, [b])].
Proof.
  intros Hab Hn Hb. unfold get_links. replace (b - a) with ((b - 1 - a) + 1) by lia. rewrite seq_app, flat_map_app.
  replace (a + (b - 1 - a)) with (b - 1) by lia. rewrite flat_map_nil.
  - simpl. assert (E : mem (b - 1) nexts = false) by (apply mem_false; apply Hn; lia). rewrite E.
    rewrite chain_children by lia. replace (S (b - 1)) with b by lia. simpl. apply mem_In in Hb. rewrite Hb. reflexivity.
  - intros n Hin. apply in_seq in Hin. destruct (mem n nexts); [reflexivity|]. rewrite chain_children by lia. simpl.
    assert (E : mem (S n) nexts = false) by (apply mem_false; apply Hn; lia). rewrite E. reflexivity.
Qed.

Fixpoint segs_ok (a : nat) (offs : list nat) : Prop :=
  match offs with
  | [] => True
  | b :: r => a < b <= k /\ (forall v, a < v < b -> offline g v = false) /\ offline g b = true /\ segs_ok b r
  end.
Lemma segs_ok_filter : forall offs a, a <= k -> filter (offline g) (seq (S a) (k - a)) = offs -> segs_ok a offs.
Proof.
  induction offs as [|b r IH]; intros a Ha H; [exact I|].
  apply filter_cons_split in H as [pre [post [Es [Hpre [Hb Hpost]]]]].
  apply seq_split_eq in Es as [Epre [Epost Hrange]]. simpl. split; [lia|]. split; [|split; [exact Hb|]].
  - intros v Hv. apply Hpre. rewrite Epre. apply in_seq. lia.
  - apply IH; [lia|]. rewrite <- Hpost, Epost. f_equal. f_equal. lia.
Qed.

Lemma seg_snoc a b : a <= b -> seq a (S b - a) = seq a (b - a) ++ [b].
Proof. intros H. replace (S b - a) with ((b - a) + 1) by lia. rewrite seq_app. replace (a + (b - a)) with b by lia. reflexivity. Qed.

Lemma chain_required : forall offs a fitted,
  segs_ok a offs -> (offline g a = false \/ In a fitted) -> (forall x, In x fitted -> x <= a) ->
  required_from g fitted (segs a offs) = map (fun b => [(b - 1, [b])]) offs.
Proof.
  induction offs as [|b r IH]; intros a fitted Hok Ha Hfit; [reflexivity|].
  destruct Hok as [Hab [Hmid [Hb Hok]]]. destruct r as [|c r].
  - (* last group *)
    cbn [segs required_from map]. f_equal. rewrite seg_snoc by lia. rewrite !filter_app.
    assert (Hbf : mem b fitted = false) by (apply mem_false; intros Hin; apply Hfit in Hin; lia).
    rewrite (filter_none (fun n => offline g n && negb (mem n fitted)) (seq a (b - a))).
    2:{ intros x Hx. apply in_seq in Hx. destruct (Nat.eq_dec x a) as [->|Hne].
        - destruct Ha as [Ha|Ha]; [rewrite Ha; reflexivity|]. apply mem_In in Ha. rewrite Ha. apply andb_false_r.
        - rewrite Hmid by lia. reflexivity. }
    rewrite (filter_all_in (fun n => negb (offline g n) || mem n fitted) (seq a (b - a))).
    2:{ intros x Hx. apply in_seq in Hx. destruct (Nat.eq_dec x a) as [->|Hne].
        - destruct Ha as [Ha|Ha]; [rewrite Ha; reflexivity|]. apply mem_In in Ha. rewrite Ha. apply orb_true_r.
        - rewrite Hmid by lia. reflexivity. }
    simpl. rewrite Hb, Hbf. simpl. rewrite app_nil_r. apply chain_links; [lia| |left; reflexivity].
    intros n Hn [<-|[]]. lia.
  - cbn [segs] in *. cbn [required_from map]. destruct Hok as [Hbc Hok'].
    f_equal.
    + rewrite (seg_snoc a b) by lia. unfold get_links. rewrite flat_map_app. fold (get_links g (seq a (b - a)) (seq b (S c - b))).
      rewrite chain_links; [|lia| |apply in_seq; lia].
      * assert (E : mem b (seq b (S c - b)) = true) by (apply mem_In; apply in_seq; lia). cbn [flat_map]. rewrite E. reflexivity.
      * intros n Hn Hin. apply in_seq in Hin. lia.
    + apply (IH b); [split; assumption| |].
      * right. apply in_or_app. left. apply filter_In. split; [apply in_seq; lia|exact Hb].
      * intros x Hx. apply in_app_or in Hx as [Hx|Hx]; [apply filter_In in Hx as [Hx _]; apply in_seq in Hx; lia|].
        apply Hfit in Hx. lia.
Qed.

(* the staging of a chain, in closed form: one stage per offline node b, made of the nodes from the previous offline node
   (or the entry node) up to b, with the single relation (b-1 -> b) *)
Definition chain_staging : list stage :=
  map (fun p => mkStage (fst (fst p)) (snd (fst p)) (snd p))
      (combine (map with_edges (segs 0 chain_offs)) (map (fun b => [(b - 1, [b])]) chain_offs)).

Lemma chain_get_offline_subgraphs : chain_offs <> [] -> get_offline_subgraphs g = Some chain_staging.
Proof.
  intros Hne. unfold get_offline_subgraphs. rewrite chain_stages_loop.
  assert (Hm : map fst (map with_edges (segs 0 chain_offs)) = segs 0 chain_offs).
  { rewrite map_map. simpl. apply map_id. }
  rewrite Hm. rewrite (chain_required chain_offs 0 []).
  - unfold chain_staging. destruct chain_offs; [congruence|reflexivity].
  - apply segs_ok_filter; [lia|]. rewrite Nat.sub_0_r. reflexivity.
  - left. exact chain_off0.
  - intros x [].
Qed.
End Chain.

(* ---- validity of the chain staging: Model.fit executed symbolically, stage by stage ---- *)
Lemma tm_eqb_refl : forall t, tm_eqb t t = true.
Proof.
  fix IH 1. intros [k v|k v l]; simpl; rewrite !Nat.eqb_refl; [reflexivity|]. simpl.
  induction l as [|x xs IHl]; [reflexivity|]. rewrite IH, IHl. reflexivity.
Qed.

Lemma lookup_sym (f : nat -> tm) l v :
  lookup (map (fun n => (n, f n)) l) v = if mem v l then Some (f v) else None.
Proof.
  unfold lookup. induction l as [|n l IH]; simpl; [reflexivity|]. rewrite (Nat.eqb_sym v n).
  destruct (Nat.eqb_spec n v) as [->|Hne]; simpl; [reflexivity|exact IH].
Qed.
Lemma lookup_cons_eq {A} (m : list (nat * A)) v a : lookup ((v, a) :: m) v = Some a.
Proof. unfold lookup. simpl. rewrite Nat.eqb_refl. reflexivity. Qed.
Lemma lookup_cons_ne {A} (m : list (nat * A)) u v a : u <> v -> lookup ((u, a) :: m) v = lookup m v.
Proof. intros H. unfold lookup. simpl. destruct (Nat.eqb_spec u v); [contradiction|reflexivity]. Qed.

Section ChainValid.
Variable k : nat.
Variable off : list nat.
Hypothesis off0 : mem 0 off = false.
Notation g := (chain k off).
Notation X0 := (sym_X (filter (is_input g) (g_nodes g))).
Notation Y0 := (sym_Y (filter (offline g) (g_nodes g))).

(* the term the explicit procedure gives node v: its output over the data; F v: the parameters of an offline node v *)
Fixpoint T (v : nat) : tm :=
  match v with
  | 0 => s_run 0 [TExt 0]
  | S u => if mem (S u) off then s_pred (S u) (s_fit (S u) [T u] (TTgt (S u))) [T u] else s_run (S u) [T u]
  end.
Definition F (v : nat) : tm := s_fit v [T (v - 1)] (TTgt v).
Lemma T_off v : 1 <= v -> offline g v = true -> T v = s_pred v (F v) [T (v - 1)].
Proof. intros Hv Ho. destruct v as [|u]; [lia|]. unfold F. simpl. rewrite Nat.sub_0_r. unfold offline in Ho. simpl in Ho. rewrite Ho. reflexivity. Qed.
Lemma T_fwd v : 1 <= v -> offline g v = false -> T v = s_run v [T (v - 1)].
Proof. intros Hv Ho. destruct v as [|u]; [lia|]. simpl. rewrite Nat.sub_0_r. unfold offline in Ho. simpl in Ho. rewrite Ho. reflexivity. Qed.

Lemma X0_0 : lookup X0 0 = Some (TExt 0).
Proof.
  unfold sym_X. rewrite lookup_sym.
  assert (E : mem 0 (filter (is_input g) (g_nodes g)) = true); [|rewrite E; reflexivity].
  apply mem_In. apply filter_In. split; [unfold chain; cbn [g_nodes]; apply in_seq; lia|]. apply is_input_parents. rewrite chain_parents. reflexivity.
Qed.
Lemma X0_pos v : 1 <= v <= k -> lookup X0 v = None.
Proof.
  intros Hv. unfold sym_X. rewrite lookup_sym.
  assert (E : mem v (filter (is_input g) (g_nodes g)) = false); [|rewrite E; reflexivity].
  apply mem_false. intros Hin. apply filter_In in Hin as [_ Hin]. apply is_input_parents in Hin.
  rewrite chain_parents_in in Hin by exact Hv. discriminate.
Qed.
Lemma Y0_off v : v <= k -> offline g v = true -> lookup Y0 v = Some (TTgt v).
Proof.
  intros Hv Ho. unfold sym_Y. rewrite lookup_sym.
  assert (E : mem v (filter (offline g) (g_nodes g)) = true); [|rewrite E; reflexivity].
  apply mem_In. apply filter_In. split; [unfold chain; cbn [g_nodes]; apply in_seq; lia|exact Ho].
Qed.

(* ---- the explicit procedure ---- *)
Lemma chain_explicit : forall n, n <= S k ->
  forall tr ps, fold_left (explicit_step tm tm s_run s_fit s_pred g X0 Y0) (seq 0 n) ([], []) = (tr, ps) ->
  (forall u, u < n -> lookup tr u = Some (T u)) /\ (forall u, u < n -> offline g u = true -> lookup ps u = Some (F u)).
Proof.
  induction n as [|n IH]; intros Hn tr ps H.
  - split; intros; lia.
  - rewrite seq_S, fold_left_app in H. simpl plus in H.
    destruct (fold_left (explicit_step tm tm s_run s_fit s_pred g X0 Y0) (seq 0 n) ([], [])) as [tr0 ps0] eqn:E0.
    destruct (IH ltac:(lia) tr0 ps0 eq_refl) as [I1 I2]. cbn [fold_left] in H. unfold explicit_step in H.
    assert (Hs : sources tm g X0 tr0 n = [match n with 0 => TExt 0 | S u => T u end]).
    { unfold sources. destruct n as [|u].
      - rewrite chain_parents. simpl flat_map. rewrite X0_0. reflexivity.
      - rewrite chain_parents_in by lia. cbn [flat_map]. replace (S u - 1) with u by lia. rewrite (I1 u) by lia.
        rewrite X0_pos by lia. reflexivity. }
    rewrite Hs in H. destruct (offline g n) eqn:Eo.
    + destruct n as [|u]; [rewrite chain_off0 in Eo; [discriminate|exact off0]|].
      rewrite Y0_off in H by (lia || exact Eo). inversion H; subst tr ps. clear H.
      assert (ET : T (S u) = s_pred (S u) (F (S u)) [T u]).
      { rewrite T_off by (lia || exact Eo). replace (S u - 1) with u by lia. reflexivity. }
      assert (EF : F (S u) = s_fit (S u) [T u] (TTgt (S u))) by (unfold F; replace (S u - 1) with u by lia; reflexivity).
      split; intros v Hv.
      * destruct (Nat.eq_dec v (S u)) as [->|Hne]; [rewrite lookup_cons_eq, ET, EF; reflexivity|].
        rewrite lookup_cons_ne by lia. apply I1. lia.
      * intros Ho. destruct (Nat.eq_dec v (S u)) as [->|Hne]; [rewrite lookup_cons_eq, EF; reflexivity|].
        rewrite lookup_cons_ne by lia. apply I2; [lia|exact Ho].
    + inversion H; subst tr ps. clear H. split; intros v Hv.
      * destruct (Nat.eq_dec v n) as [->|Hne]; [|rewrite lookup_cons_ne by lia; apply I1; lia].
        rewrite lookup_cons_eq. destruct n as [|u]; [reflexivity|]. rewrite (T_fwd (S u)) by (lia || exact Eo).
        replace (S u - 1) with u by lia. reflexivity.
      * intros Ho. destruct (Nat.eq_dec v n) as [->|Hne]; [congruence|]. apply I2; [lia|exact Ho].
Qed.

(* ---- Model.fit, one stage ---- *)
Definition stage_ab (a b : nat) : stage :=
  mkStage (seq a (S b - a)) (snd (with_edges k (seq a (S b - a)))) [(b - 1, [b])].
Definition head_in (a : nat) : tm := match a with 0 => TExt 0 | S u => T u end.
Definition fedges_ab (a b : nat) : list (nat * nat) :=
  filter (fun e => negb (mem (snd e) [b])) (snd (with_edges k (seq a (S b - a)))).

Lemma fedges_parents a b v : a < b <= k -> a <= v < b ->
  parents_in (fedges_ab a b) v = if a <? v then [v - 1] else [].
Proof.
  intros Hab Hv. unfold fedges_ab, with_edges. cbn [snd]. rewrite !parents_in_filter.
  change (parents_in (chain_edges k) v) with (parents g v).
  destruct (Nat.ltb_spec a v) as [Hlt|Hge].
  - rewrite chain_parents_in by lia. cbn [filter fst snd].
    assert (E1 : mem (v - 1) (seq a (S b - a)) = true) by (apply mem_In; apply in_seq; lia).
    assert (E2 : mem v (seq a (S b - a)) = true) by (apply mem_In; apply in_seq; lia).
    assert (E3 : mem v [b] = false) by (apply mem_false; intros [<-|[]]; lia).
    rewrite E1, E2, E3. reflexivity.
  - assert (v = a) by lia. subst v. destruct a as [|a'].
    + rewrite chain_parents. reflexivity.
    + rewrite chain_parents_in by lia. cbn [filter fst snd]. replace (S a' - 1) with a' by lia.
      assert (E1 : mem a' (seq (S a') (S b - S a')) = false) by (apply mem_false; intros Hin; apply in_seq in Hin; lia).
      rewrite E1. reflexivity.
Qed.

Section OneStage.
Variables a b : nat.
Variables (Xs ps : list (nat * tm)) (trained : list nat).
Hypothesis Hab : a < b <= k.
Hypothesis Hmid : forall v, a < v < b -> offline g v = false.
Hypothesis Hb : offline g b = true.
Hypothesis HXa : lookup Xs a = Some (head_in a).
Hypothesis HXr : forall v, a < v <= k -> lookup Xs v = None.
Hypothesis Hpa : a <> 0 -> offline g a = true /\ lookup ps a = Some (F a) /\ In a trained.
Hypothesis Hbt : ~ In b trained.

Lemma chain_run_fwd : forall n, a + n < b ->
  exists tr, fold_left (fwd_step tm tm s_run s_pred g (fedges_ab a b) Xs ps) (seq a (S n)) (Some []) = Some tr
             /\ forall u, a <= u <= a + n -> lookup tr u = Some (T u).
Proof.
  induction n as [|n IH]; intros Hn.
  - cbn [seq fold_left]. unfold fwd_step. rewrite fedges_parents by lia. rewrite Nat.ltb_irrefl. cbn [lookups app].
    rewrite HXa. cbn [opt_list]. unfold run_node. exists [(a, T a)]. split.
    + destruct a as [|a'].
      * rewrite chain_off0 by exact off0. reflexivity.
      * destruct (Hpa ltac:(lia)) as [Ho [Hp _]]. rewrite Ho, Hp. rewrite (T_off (S a')) by (lia || exact Ho).
        replace (S a' - 1) with a' by lia. reflexivity.
    + intros u Hu. replace u with a by lia. apply lookup_cons_eq.
  - destruct (IH ltac:(lia)) as [tr [Etr Htr]]. rewrite seq_S, fold_left_app, Etr. cbn [fold_left].
    set (v := a + S n). unfold fwd_step. rewrite fedges_parents by (unfold v; lia).
    assert (E : a <? v = true) by (apply Nat.ltb_lt; unfold v; lia). rewrite E. cbn [lookups].
    rewrite (Htr (v - 1)) by (unfold v; lia). rewrite HXr by (unfold v; lia). cbn [opt_list app]. unfold run_node.
    rewrite Hmid by (unfold v; lia). exists ((v, T v) :: tr). split.
    + rewrite (T_fwd v) by (unfold v; try lia; apply Hmid; lia). reflexivity.
    + intros u Hu. destruct (Nat.eq_dec u v) as [->|Hne]; [apply lookup_cons_eq|].
      rewrite lookup_cons_ne by lia. apply Htr. unfold v in *. lia.
Qed.

Lemma chain_run_stage :
  run_stage tm tm s_run s_fit s_pred g Y0 (Some (Xs, ps, trained)) (stage_ab a b)
  = Some ((b, T (b - 1)) :: Xs, (b, F b) :: ps, b :: trained).
Proof.
  unfold run_stage, stage_ab. cbn [s_nodes s_edges s_rel].
  assert (Eoffl : filter (fun n => offline g n && negb (mem n trained)) (seq a (S b - a)) = [b]).
  { rewrite seg_snoc by lia. rewrite filter_app. rewrite filter_none.
    - simpl. rewrite Hb. apply mem_false in Hbt. rewrite Hbt. reflexivity.
    - intros x Hx. apply in_seq in Hx. destruct (Nat.eq_dec x a) as [->|Hne]; [|rewrite Hmid by lia; reflexivity].
      destruct a as [|a']; [rewrite chain_off0 by exact off0; reflexivity|].
      destruct (Hpa ltac:(lia)) as [_ [_ Hin]]. apply mem_In in Hin. rewrite Hin. apply andb_false_r. }
  rewrite Eoffl.
  assert (Efwd : filter (fun n => negb (mem n [b])) (seq a (S b - a)) = seq a (b - a)).
  { rewrite seg_snoc by lia. rewrite filter_app, filter_all_in.
    - simpl. rewrite Nat.eqb_refl. simpl. apply app_nil_r.
    - intros x Hx. apply in_seq in Hx. apply negb_true_iff, mem_false. intros [<-|[]]. lia. }
  rewrite Efwd. fold (fedges_ab a b).
  destruct (chain_run_fwd (b - a - 1) ltac:(lia)) as [tr [Etr Htr]].
  replace (S (b - a - 1)) with (b - a) in Etr by lia.
  destruct (seq a (b - a)) as [|x fw] eqn:Efw.
  { exfalso. assert (Hl : length (seq a (b - a)) = 0) by (rewrite Efw; reflexivity). rewrite seq_length in Hl. lia. }
  unfold run_fwd. rewrite Etr. unfold dist_states. cbn [fold_left dist_step fst snd].
  rewrite (Htr (b - 1)) by lia. cbn [fold_left dist_add]. unfold has_key at 1. cbn [lookup find].
  cbn [fit_nodes]. rewrite lookup_cons_eq. rewrite Y0_off by (lia || exact Hb). reflexivity.
Qed.
End OneStage.

(* ---- Model.fit, all the stages ---- *)
Fixpoint stages_from (a : nat) (offs : list nat) : list stage :=
  match offs with [] => [] | b :: r => stage_ab a b :: stages_from b r end.

Lemma chain_staging_from : forall offs a,
  map (fun p => mkStage (fst (fst p)) (snd (fst p)) (snd p))
      (combine (map (with_edges k) (segs a offs)) (map (fun b => [(b - 1, [b])]) offs)) = stages_from a offs.
Proof. induction offs as [|b r IH]; intros a; [reflexivity|]. cbn [segs map combine stages_from]. rewrite IH. reflexivity. Qed.

Lemma chain_fit_fold : forall offs a Xs ps trained,
  segs_ok k off a offs ->
  lookup Xs a = Some (head_in a) -> (forall v, a < v <= k -> lookup Xs v = None) ->
  (a <> 0 -> offline g a = true /\ lookup ps a = Some (F a) /\ In a trained) -> (forall v, In v trained -> v <= a) ->
  exists Xs' ps' trained',
    fold_left (run_stage tm tm s_run s_fit s_pred g Y0) (stages_from a offs) (Some (Xs, ps, trained)) = Some (Xs', ps', trained')
    /\ (forall v, In v offs -> lookup ps' v = Some (F v))
    /\ (forall v, v <= a -> lookup ps' v = lookup ps v).
Proof.
  induction offs as [|b r IH]; intros a Xs ps trained Hok HXa HXr Hpa Htr.
  - exists Xs, ps, trained. split; [reflexivity|]. split; [intros v []|reflexivity].
  - destruct Hok as [Hab [Hmid [Hb Hok]]]. cbn [stages_from fold_left].
    rewrite (chain_run_stage a b Xs ps trained Hab Hmid Hb HXa HXr Hpa).
    2:{ intros Hin. apply Htr in Hin. lia. }
    destruct (IH b ((b, T (b - 1)) :: Xs) ((b, F b) :: ps) (b :: trained) Hok) as [Xs' [ps' [tr' [E [H1 H2]]]]].
    + rewrite lookup_cons_eq. destruct b as [|u]; [lia|]. simpl. rewrite Nat.sub_0_r. reflexivity.
    + intros v Hv. rewrite lookup_cons_ne by lia. apply HXr. lia.
    + intros _. split; [exact Hb|]. split; [apply lookup_cons_eq|left; reflexivity].
    + intros v [<-|Hv]; [lia|]. apply Htr in Hv. lia.
    + exists Xs', ps', tr'. split; [exact E|]. split.
      * intros v [<-|Hv]; [rewrite H2 by lia; apply lookup_cons_eq|apply H1; exact Hv].
      * intros v Hv. rewrite H2 by lia. apply lookup_cons_ne. lia.
Qed.

(* the staging get_offline_subgraphs computes for a chain of any length is valid *)
Theorem chain_valid :
  chain_offs k off <> [] ->
  exists stg, get_offline_subgraphs g = Some stg /\
              valid_stagingb g (filter (is_input g) (g_nodes g)) (filter (offline g) (g_nodes g)) stg = true.
Proof.
  intros Hne. exists (chain_staging k off). split; [apply chain_get_offline_subgraphs; assumption|].
  unfold valid_stagingb, fit_with_staging, chain_staging. rewrite chain_staging_from.
  destruct (chain_fit_fold (chain_offs k off) 0 X0 [] []) as [Xs' [ps' [tr' [E [H1 _]]]]].
  - apply segs_ok_filter; [lia|]. rewrite Nat.sub_0_r. reflexivity.
  - exact X0_0.
  - intros v Hv. apply X0_pos. lia.
  - intros H. congruence.
  - intros v [].
  - rewrite E. apply forallb_forall. intros v Hv. unfold chain in Hv. cbn [g_nodes] in Hv. apply in_seq in Hv.
    destruct (offline g v) eqn:Eo; [|reflexivity]. cbn [negb orb].
    assert (Hv0 : v <> 0) by (intros ->; rewrite chain_off0 in Eo; [discriminate|exact off0]).
    rewrite H1 by (apply filter_In; split; [apply in_seq; lia|exact Eo]).
    unfold explicit_fit.
    destruct (fold_left (explicit_step tm tm s_run s_fit s_pred g X0 Y0) (g_nodes g) ([], [])) as [tr ps] eqn:Ex.
    unfold chain in Ex at 4. cbn [g_nodes] in Ex.
    destruct (chain_explicit (S k) (le_n _) tr ps Ex) as [_ I2]. cbn [snd]. rewrite I2 by (lia || exact Eo).
    cbn [otm_eqb]. apply tm_eqb_refl.
Qed.
End ChainValid.

(* ---- end to end on chains: for ANY nodes, learners and data, Model.fit = the explicit procedure ---- *)
From RV Require Import proofs.FitSem_proofs.
Theorem chain_fit_explicit (D P : Type) (a_run : nat -> list D -> D) (a_fit : nat -> list D -> D -> P)
        (a_pred : nat -> P -> list D -> D) (d0 : D) (k : nat) (off : list nat) (X0 Y0 : list (nat * D)) :
  let g := chain k off in
  mem 0 off = false -> chain_offs k off <> [] ->
  map fst X0 = filter (is_input g) (g_nodes g) -> map fst Y0 = filter (offline g) (g_nodes g) ->
  exists stg ps, get_offline_subgraphs g = Some stg /\
                 fit_with_staging D P a_run a_fit a_pred g X0 Y0 stg = Some ps /\
                 forall v, In v (g_nodes g) -> offline g v = true ->
                           exists p, lookup ps v = Some p /\ lookup (explicit_fit D P a_run a_fit a_pred g X0 Y0) v = Some p.
Proof.
  intros g H0 Hne HX HY. destruct (chain_valid k off H0 Hne) as [stg [Hs Hv]]. fold g in Hs, Hv.
  rewrite <- HX, <- HY in Hv.
  destruct (fit_valid_staging D P a_run a_fit a_pred d0 X0 Y0 g stg) as [ps [Hf Hp]].
  - rewrite HX. apply NoDup_filter. apply seq_NoDup.
  - rewrite HY. apply NoDup_filter. apply seq_NoDup.
  - exact Hv.
  - exists stg, ps. split; [exact Hs|]. split; [exact Hf|exact Hp].
Qed.
