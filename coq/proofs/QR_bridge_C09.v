(* C09: the accumulation of the ridge sufficient statistics run at Q, then embedded in R, IS the accumulation run at R on the
   embedded rows.

   model/BatchAcc.v (which numbers end up in XXT / YXT for a given presentation of the data set: rows, sequences, warm-up,
   batches = successive partial_fit calls) is one term over [Num F]; model/Conc.v (the schedule-level model of the workers'
   read-add-write sections) is polymorphic in the type of contributions and its addition.  The correspondence run
   (run/RunC09.v: chk_buffers, chk_sched, chk_order, chk_solution) evaluates them at Q.  For every homomorphism [phi] of the
   class (base/NumHom.v), in particular [Q2R]:
   * every scalar sum of BatchAcc (row contribution, rows of a sequence after warm-up, sequences of a call, any list of calls
     from any start value) and the tabulated buffers XXT_of / YXT_of commute with the entry-wise embedding of the rows;
   * Conc.run over ANY schedule is preserved by any map h of contributions that commutes with the addition (a simulation,
     stated as a relation on states: no functional extensionality needed), lock and program counters included;
   * sort_and_unpack is structural (commutes with any map of the payloads).
   No shape hypothesis, no side condition.
   NOT bridged: [chk_solution] / [chk_solutions] compare with LA.qsolve, a Gauss-Jordan elimination written over Q only (the
   stand-in for LAPACK); only the system and right-hand side handed to it are embedded here ([Qsolver_inputs_embed]). *)
From Coq Require Import Reals QArith Qreals List Bool Arith.
From RV Require Import base.Num base.LA base.NumHom model.Conc model.BatchAcc.
Import ListNotations.
Close Scope Q_scope.

(* ------------------------------------------------------------------ Conc: a simulation for any additive map *)
Section ConcSim.
Context {A B : Type} (h : A -> B) (addA : A -> A -> A) (addB : B -> B -> B).
Hypothesis h_add : forall x y, h (addA x y) = addB (h x) (h y).
Variable use_lock : bool.
Variables (cA dA : nat -> A) (cB dB : nat -> B).
Hypothesis h_c : forall w, h (cA w) = cB w.
Hypothesis h_d : forall w, h (dA w) = dB w.

Definition epc (p : pc A) : pc B :=
  match p with
  | Start => Start | Held => Held | ReadX t => ReadX (h t) | WroteX => WroteX | ReadY t => ReadY (h t) | WroteY => WroteY | Done => Done
  end.
Definition sim (s : st A) (s' : st B) : Prop :=
  XXT s' = h (XXT s) /\ YXT s' = h (YXT s) /\ lock s' = lock s /\ forall w, pcs s' w = epc (pcs s w).

Lemma sim_upd (f : nat -> pc A) (f' : nat -> pc B) w p :
  (forall v, f' v = epc (f v)) -> forall v, upd f' w (epc p) v = epc (upd f w p v).
Proof. intros E v. unfold upd. destruct (Nat.eqb v w); [reflexivity | apply E]. Qed.
Lemma sim_step s s' w : sim s s' -> sim (step addA use_lock cA dA s w) (step addB use_lock cB dB s' w).
Proof.
  intros (HX & HY & HL & HP). unfold sim, step. rewrite (HP w), HL.
  destruct (pcs s w) eqn:E; cbn [epc].
  - destruct use_lock.
    + destruct (lock s) eqn:EL; cbn; repeat split; try assumption; try congruence; apply (sim_upd _ _ w Held HP).
    + cbn; repeat split; try assumption; apply (sim_upd _ _ w Held HP).
  - cbn; repeat split; try assumption. rewrite HX. apply (sim_upd _ _ w (ReadX (XXT s)) HP).
  - cbn; repeat split; try assumption. + rewrite h_add, h_c. reflexivity. + apply (sim_upd _ _ w WroteX HP).
  - cbn; repeat split; try assumption. rewrite HY. apply (sim_upd _ _ w (ReadY (YXT s)) HP).
  - cbn; repeat split; try assumption. + rewrite h_add, h_d. reflexivity. + apply (sim_upd _ _ w WroteY HP).
  - cbn; repeat split; try assumption; try (destruct use_lock; [reflexivity | assumption]; fail). apply (sim_upd _ _ w Done HP).
  - repeat split; assumption.
Qed.
Lemma sim_run sched : forall s s', sim s s' -> sim (run addA use_lock cA dA s sched) (run addB use_lock cB dB s' sched).
Proof. induction sched as [|w sched IH]; intros s s' Hs; [exact Hs|]. cbn. apply IH, sim_step, Hs. Qed.
Lemma sim_init X0 Y0 : sim (init X0 Y0) (init (h X0) (h Y0)).
Proof. repeat split. Qed.
Lemma sim_all_done n s s' : sim s s' -> all_done n s' = all_done n s.
Proof.
  intros (_ & _ & _ & HP). unfold all_done. induction (seq 0 n) as [|w l IH]; cbn; [reflexivity|].
  rewrite IH, HP. destruct (pcs s w); reflexivity.
Qed.
End ConcSim.

(* _sort_and_unpack is structural *)
Section SortStructural.
Context {A B : Type} (f : A -> B).
Definition esnd (p : nat * A) : nat * B := (fst p, f (snd p)).
Lemma map_insert_by_idx p l : map esnd (insert_by_idx p l) = insert_by_idx (esnd p) (map esnd l).
Proof.
  induction l as [|q l IH]; [reflexivity|]. cbn [insert_by_idx map]. change (fst (esnd p)) with (fst p). change (fst (esnd q)) with (fst q).
  destruct (fst p <=? fst q); cbn [map]; [reflexivity | rewrite IH; reflexivity].
Qed.
Lemma map_sort_by_idx l : map esnd (sort_by_idx l) = sort_by_idx (map esnd l).
Proof. induction l as [|p l IH]; [reflexivity|]. cbn [sort_by_idx map]. rewrite map_insert_by_idx, IH. reflexivity. Qed.
Lemma map_sort_and_unpack l : map f (sort_and_unpack l) = sort_and_unpack (map esnd l).
Proof. unfold sort_and_unpack. rewrite <- map_sort_by_idx, !map_map. reflexivity. Qed.
End SortStructural.

(* ------------------------------------------------------------------ BatchAcc *)
Section BridgeC09.
Context {F G : Type} {NF : Num F} {NG : Num G} (phi : F -> G) {HH : NumHom phi}.
Local Notation ev := (map phi).
Local Notation em := (map (map phi)).

Definition erow (r : list F * list F) : list G * list G := (ev (fst r), ev (snd r)).
Notation eseq := (map erow).
Notation eseqs := (map (map erow)).
Notation ebatches := (map (map (map erow))).

Lemma ev_xb bias x : ev (xb bias x) = xb bias (ev x).
Proof. destruct bias; cbn; [rewrite (hom_1 phi)|]; reflexivity. Qed.
Lemma hom_row_xx bias i j r : phi (row_xx bias i j r) = row_xx bias i j (erow r).
Proof. unfold row_xx, erow. cbn [fst snd]. rewrite (hom_mul phi), !(ev_vget phi), ev_xb. reflexivity. Qed.
Lemma hom_row_yx bias i j r : phi (row_yx bias i j r) = row_yx bias i j (erow r).
Proof. unfold row_yx, erow. cbn [fst snd]. rewrite (hom_mul phi), !(ev_vget phi), ev_xb. reflexivity. Qed.

Section Sums.
Variables (g : list F * list F -> F) (g' : list G * list G -> G).
Hypothesis Hg : forall r, phi (g r) = g' (erow r).
Lemma hom_rows_sum rows : phi (rows_sum g rows) = rows_sum g' (eseq rows).
Proof. unfold rows_sum. induction rows as [|r rows IH]; cbn; [apply (hom_0 phi)|]. rewrite (hom_add phi), Hg, IH. reflexivity. Qed.
Lemma e_retained w (s : list (list F * list F)) : eseq (retained w s) = retained w (eseq s).
Proof. unfold retained. symmetry. apply skipn_map. Qed.
Lemma hom_seqs_sum w seqs : phi (seqs_sum g w seqs) = seqs_sum g' w (eseqs seqs).
Proof.
  unfold seqs_sum. induction seqs as [|s seqs IH]; cbn; [apply (hom_0 phi)|].
  rewrite (hom_add phi), hom_rows_sum, e_retained, IH. reflexivity.
Qed.
Lemma hom_batches_sum w batches a0 : phi (batches_sum g w batches a0) = batches_sum g' w (ebatches batches) (phi a0).
Proof.
  unfold batches_sum. revert a0. induction batches as [|b batches IH]; intros a0; cbn; [reflexivity|].
  rewrite IH, (hom_add phi), hom_seqs_sum. reflexivity.
Qed.
End Sums.

Lemma em_tabulate r c (f : nat -> nat -> F) (f' : nat -> nat -> G) : (forall i j, phi (f i j) = f' i j) ->
  em (tabulate r c f) = tabulate r c f'.
Proof. intros E. unfold tabulate. rewrite map_map. apply map_ext. intros i. rewrite map_map. apply map_ext. intros j. apply E. Qed.
Lemma em_XXT_of bias din w batches : em (XXT_of bias din w batches) = XXT_of bias din w (ebatches batches).
Proof.
  unfold XXT_of. cbv zeta. apply em_tabulate. intros i j.
  rewrite (hom_batches_sum _ _ (hom_row_xx bias i j)), (hom_0 phi). reflexivity.
Qed.
Lemma em_YXT_of bias din dout w batches : em (YXT_of bias din dout w batches) = YXT_of bias din dout w (ebatches batches).
Proof.
  unfold YXT_of. cbv zeta. apply em_tabulate. intros i j.
  rewrite (hom_batches_sum _ _ (hom_row_yx bias i j)), (hom_0 phi). reflexivity.
Qed.
Lemma nth_eseqs w (tasks : list (list (list F * list F))) : nth w (eseqs tasks) [] = eseq (nth w tasks []).
Proof. apply (map_nth (map erow) tasks [] w). Qed.
End BridgeC09.

(* ================================================================== the instance Q -> R *)
Notation qrow2r := (erow Q2R).
Notation qseq2r := (map (erow Q2R)).
Notation qseqs2r := (map (map (erow Q2R))).
Notation qbatches2r := (map (map (map (erow Q2R)))).
Notation qrowT := (list Q * list Q)%type.

(* the scalar sums the permutation / regrouping theorems of props/C09.v are about, and the tabulated buffers *)
Lemma Qbatchacc_embed :
  (forall (bias : bool) (i j w : nat) (batches : list (list (list qrowT))) (a0 : Q),
     Q2R (batches_sum (row_xx bias i j) w batches a0) = batches_sum (row_xx bias i j) w (qbatches2r batches) (Q2R a0) /\
     Q2R (batches_sum (row_yx bias i j) w batches a0) = batches_sum (row_yx bias i j) w (qbatches2r batches) (Q2R a0)) /\
  (forall (bias : bool) (din w : nat) (batches : list (list (list qrowT))),
     qm2r (XXT_of bias din w batches) = XXT_of bias din w (qbatches2r batches)) /\
  (forall (bias : bool) (din dout w : nat) (batches : list (list (list qrowT))),
     qm2r (YXT_of bias din dout w batches) = YXT_of bias din dout w (qbatches2r batches)).
Proof.
  split; [|split]; intros.
  - split; [apply (hom_batches_sum Q2R _ _ (hom_row_xx Q2R bias i j)) | apply (hom_batches_sum Q2R _ _ (hom_row_yx Q2R bias i j))].
  - apply (em_XXT_of Q2R).
  - apply (em_YXT_of Q2R).
Qed.

(* the replayed schedule: matrix contributions of the tasks, entry-wise addition, any schedule, lock or no lock *)
Definition task_c {F} `{Num F} (bias : bool) (din : nat) (tasks : list (list (list F * list F))) (w : nat) : list (list F) :=
  XXT_of bias din 0 [[nth w tasks []]].
Definition task_d {F} `{Num F} (bias : bool) (din dout : nat) (tasks : list (list (list F * list F))) (w : nat) : list (list F) :=
  YXT_of bias din dout 0 [[nth w tasks []]].
Definition sched_run {F} `{Num F} (use_lock bias : bool) (din dout : nat) (tasks : list (list (list F * list F))) (sched : list nat)
  : st (list (list F)) :=
  let n := if bias then S din else din in
  run (@madd F _) use_lock (task_c bias din tasks) (task_d bias din dout tasks) (init (mzeros n n) (mzeros dout n)) sched.

Lemma Qsched_embed (use_lock bias : bool) (din dout : nat) (tasks : list (list qrowT)) (sched : list nat) :
  let sQ := sched_run use_lock bias din dout tasks sched in
  let sR := sched_run use_lock bias din dout (qseqs2r tasks) sched in
  XXT sR = qm2r (XXT sQ) /\ YXT sR = qm2r (YXT sQ) /\ lock sR = lock sQ /\
  (forall w, pcs sR w = epc qm2r (pcs sQ w)) /\ (forall n, all_done n sR = all_done n sQ).
Proof.
  cbv zeta. unfold sched_run.
  assert (Hs : sim qm2r (run (@madd Q _) use_lock (task_c bias din tasks) (task_d bias din dout tasks)
                           (init (mzeros (if bias then S din else din) (if bias then S din else din)) (mzeros dout (if bias then S din else din))) sched)
                        (run (@madd R _) use_lock (task_c bias din (qseqs2r tasks)) (task_d bias din dout (qseqs2r tasks))
                           (init (mzeros (if bias then S din else din) (if bias then S din else din)) (mzeros dout (if bias then S din else din))) sched)).
  { apply sim_run.
    - apply (em_madd Q2R).
    - intros w. unfold task_c. rewrite (em_XXT_of Q2R). cbn [map]. rewrite (nth_eseqs Q2R). reflexivity.
    - intros w. unfold task_d. rewrite (em_YXT_of Q2R). cbn [map]. rewrite (nth_eseqs Q2R). reflexivity.
    - rewrite <- !(em_mzeros Q2R). apply sim_init. }
  destruct Hs as (HX & HY & HL & HP). repeat split; try assumption.
  intros n. apply (sim_all_done qm2r). repeat split; assumption.
Qed.

(* what is handed to the (rational-only) solver of the runner: the regularised system and the right-hand side *)
Lemma Qsolver_inputs_embed (bias : bool) (din dout w : nat) (batches : list (list (list qrowT))) (ridge : Q) :
  let n := if bias then S din else din in
  qm2r (madd (XXT_of bias din w batches) (mscale ridge (eye n)))
    = madd (XXT_of bias din w (qbatches2r batches)) (mscale (Q2R ridge) (eye n)) /\
  qm2r (transpose (YXT_of bias din dout w batches) n) = transpose (YXT_of bias din dout w (qbatches2r batches)) n.
Proof.
  cbv zeta. split.
  - rewrite (em_madd Q2R), (em_mscale Q2R), (em_eye Q2R), (em_XXT_of Q2R). reflexivity.
  - rewrite (em_transpose Q2R), (em_YXT_of Q2R). reflexivity.
Qed.

(* a concrete instance: bias on, 2 inputs, 1 output, warm-up 1, two calls (the second with two sequences) *)
Definition c09_ex : list (list (list qrowT)) :=
  [[[([(1#2)%Q; (-1#1)%Q], [(7#1)%Q]); ([(1#4)%Q; (2#1)%Q], [(3#4)%Q]); ([(-3#2)%Q; (1#8)%Q], [(-1#2)%Q])]];
   [[([(5#1)%Q; (5#1)%Q], [(9#1)%Q]); ([(1#1)%Q; (-1#2)%Q], [(1#4)%Q])]; [([(2#1)%Q; (2#1)%Q], [(1#1)%Q])]]].
Example Qbatchacc_example :
  XXT_of true 2 1 (qbatches2r c09_ex) = qm2r [[(3#1)%Q; (-1#4)%Q; (13#8)%Q]; [(-1#4)%Q; (53#16)%Q; (-3#16)%Q]; [(13#8)%Q; (-3#16)%Q; (273#64)%Q]] /\
  YXT_of true 2 1 1 (qbatches2r c09_ex) = qm2r [[(1#2)%Q; (19#16)%Q; (21#16)%Q]].
Proof.
  destruct Qbatchacc_embed as (_ & HX & HY). rewrite <- HX, <- HY. split.
  - vm_compute (XXT_of true 2 1 c09_ex). reflexivity.
  - vm_compute (YXT_of true 2 1 1 c09_ex). reflexivity.
Qed.

(* ================================================================== the verdict of the correspondence runner, read at R *)
From RV Require Import run.RunC09.

Definition lmrclose (m o : list (list (list R))) : Prop := Forall2 mrclose m o.
Lemma lmclose_lmrclose (m o : list (list (list Q))) : lmclose m o = true <-> lmrclose (map qm2r m) (map qm2r o).
Proof.
  revert o. induction m as [|a m IH]; intros [|b o]; cbn; split; intros Hx; try discriminate; try constructor; try (inversion Hx; fail).
  - apply andb_true_iff in Hx. apply mclose_mrclose, Hx.
  - apply andb_true_iff in Hx. apply IH, Hx.
  - inversion Hx; subst. apply andb_true_iff. split; [apply mclose_mrclose | apply IH]; assumption.
Qed.

Lemma chk_buffers_are_about_R_model :
  (forall bias din dout w batches obsXXT obsYXT, chk_buffers bias din dout w batches obsXXT obsYXT = true ->
     mrclose (XXT_of bias din w (qbatches2r batches)) (qm2r obsXXT) /\
     mrclose (YXT_of bias din dout w (qbatches2r batches)) (qm2r obsYXT)) /\
  (forall use_lock bias din dout tasks sched obsXXT obsYXT, chk_sched use_lock bias din dout tasks sched obsXXT obsYXT = true ->
     let sR := sched_run use_lock bias din dout (qseqs2r tasks) sched in
     forallb (fun w => w <? length tasks) sched = true /\ all_done (length tasks) sR = true /\
     mrclose (XXT sR) (qm2r obsXXT) /\ mrclose (YXT sR) (qm2r obsYXT)) /\
  (forall arrived obs, chk_order arrived obs = true ->
     lmrclose (sort_and_unpack (map (esnd qm2r) arrived)) (map qm2r obs)).
Proof.
  split; [|split].
  - intros bias din dout w batches oX oY. unfold chk_buffers. intros Hx. apply andb_true_iff in Hx.
    rewrite <- (em_XXT_of Q2R), <- (em_YXT_of Q2R). split; apply mclose_mrclose, Hx.
  - intros use_lock bias din dout tasks sched oX oY. cbv zeta.
    destruct (Qsched_embed use_lock bias din dout tasks sched) as (HX & HY & _ & _ & HD).
    unfold chk_sched. cbv zeta. fold (task_c bias din tasks). fold (task_d bias din dout tasks).
    change (run (@madd Q _) use_lock (task_c bias din tasks) (task_d bias din dout tasks)
              (init (mzeros (if bias then S din else din) (if bias then S din else din)) (mzeros dout (if bias then S din else din))) sched)
      with (sched_run use_lock bias din dout tasks sched).
    intros Hx. repeat (apply andb_true_iff in Hx; destruct Hx as [Hx ?]).
    rewrite HX, HY, HD. repeat split; try assumption; apply mclose_mrclose; assumption.
  - intros arrived obs. unfold chk_order. rewrite <- (map_sort_and_unpack qm2r). apply lmclose_lmrclose.
Qed.

(* ---- chk_solution: PARTIAL.  The runner solves the model's regularised system with LA.qsolve (Gauss-Jordan over Q, written
   for Q only: it is the executable stand-in for LAPACK and has no R counterpart).  What is proved: the system and right-hand
   side it is handed embed onto the R-model's, and the verdict says its exact rational output is close to the observed
   weights.  What is NOT proved (kept as a Definition): that this output solves the embedded system over R. *)
Definition sysQ (bias : bool) (din w : nat) (batches : list (list (list qrowT))) (ridge : Q) : list (list Q) :=
  madd (XXT_of bias din w batches) (mscale ridge (eye (if bias then S din else din))).
Definition rhsQ (bias : bool) (din dout w : nat) (batches : list (list (list qrowT))) : list (list Q) :=
  transpose (YXT_of bias din dout w batches) (if bias then S din else din).
Definition sysR (bias : bool) (din w : nat) (batches : list (list (list (list R * list R)))) (ridge : R) : list (list R) :=
  madd (XXT_of bias din w batches) (mscale ridge (eye (if bias then S din else din))).
Definition rhsR (bias : bool) (din dout w : nat) (batches : list (list (list (list R * list R)))) : list (list R) :=
  transpose (YXT_of bias din dout w batches) (if bias then S din else din).
Definition weights_close (bias : bool) (W : list (list R)) (obsW obsB : list (list Q)) : Prop :=
  if bias then mrclose (tl W) (qm2r obsW) /\ mrclose (firstn 1 W) (qm2r obsB) else mrclose W (qm2r obsW).

Lemma chk_solution_partial (bias : bool) (din dout w : nat) (batches : list (list (list qrowT))) (ridge : Q) (obsW obsB : list (list Q)) :
  chk_solution bias din dout w batches ridge obsW obsB = true ->
  exists Wq : list (list Q),
    qsolve (sysQ bias din w batches ridge) (rhsQ bias din dout w batches) = Some Wq /\
    qm2r (sysQ bias din w batches ridge) = sysR bias din w (qbatches2r batches) (Q2R ridge) /\
    qm2r (rhsQ bias din dout w batches) = rhsR bias din dout w (qbatches2r batches) /\
    weights_close bias (qm2r Wq) obsW obsB.
Proof.
  unfold chk_solution, model_solution. cbv zeta. fold (sysQ bias din w batches ridge). fold (rhsQ bias din dout w batches).
  destruct (qsolve (sysQ bias din w batches ridge) (rhsQ bias din dout w batches)) as [Wq|]; [|discriminate].
  intros Hx. exists Wq. split; [reflexivity|].
  destruct (Qsolver_inputs_embed bias din dout w batches ridge) as [HA HB]. split; [exact HA|]. split; [exact HB|].
  unfold weights_close. destruct bias.
  - apply andb_true_iff in Hx. rewrite <- (map_tl (map Q2R)), firstn_map. split; apply mclose_mrclose, Hx.
  - apply mclose_mrclose, Hx.
Qed.
(* the full reading, NOT proved: needs the soundness of Gauss-Jordan (gj) -- every row operation is invertible and after n
   pivots the left block is the identity -- which is a proof about LA.qsolve, not about the embedding *)
Definition chk_solution_full_statement : Prop :=
  forall (bias : bool) (din dout w : nat) (batches : list (list (list qrowT))) (ridge : Q) (obsW obsB : list (list Q)),
    chk_solution bias din dout w batches ridge obsW obsB = true ->
    exists WR : list (list R),
      mm (sysR bias din w (qbatches2r batches) (Q2R ridge)) WR dout = rhsR bias din dout w (qbatches2r batches) /\
      weights_close bias WR obsW obsB.
