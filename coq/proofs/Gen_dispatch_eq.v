(* Tie (T) of C02: the data dispatcher and the forward pass of a model, as translated from the CURRENT source by
   tools/vlib/py2coq_dispatch.py into gen/Gen_dispatch.v (class DataDispatcher of reservoirpy/utils/graphflow.py: __init__,
   _check_inputs, get, __getitem__, load; forward(model, x) of reservoirpy/model.py), are proved equal to closed forms and then to
   the hand model model/ModelSem.v (gather / call_node / forward), for every model whose node list has no repeated node.

   Part A (any array type, any node behaviour: [datum], [world], [node_state], [base_call] are arbitrary):
     load      the parents dictionary after `load(X)` holds, for every node n, the node's parents (as [SrcNode]) in the order of
               `find_parents_and_children` FOLLOWED by the external datum addressed to n: an array input goes to the entry nodes
               and to no other node; a mapping goes to every node of the model it names (entry node or not); a mapping that does
               not name an entry node is refused with KeyError and nothing else is; what a previous load left is overwritten.
     get       `get(n)` = ([unwrap] of the parents' CURRENT states followed by that datum, teacher): a BARE array when there is
               exactly one source ([XBare]), the list otherwise ([XList], also for no source).
     forward   the nodes of `model.nodes` are called once each, left to right, each on `get` of the world left by the calls before
               it; the result is the list of the output nodes' states after the last call.
   Part B (ModelSem): with [datum := vec], [world := env], [node_state e n := st (e n)] and [base_call] := one [call_node] of the hand
     model, the generated forward pass IS [ModelSem.forward].  Representation changes, stated in the lemmas: the hand model hands a
     node ONE vector, the side-by-side concatenation [gather] -- the generated code hands it [XBare v] / [XList l], and
     [flat (XBare v) = v], [flat (XList l) = concat l]; an exception of the generated code carries no environment, the hand model's
     failing run returns the environment at the raise point ([gen_result]). *)
From Coq Require Import List Arith Bool ZArith Lia.
From RV Require Import base.Num base.LA base.PyColl base.PyColl2 base.PyColl3 model.ModelSem proofs.ModelSem_proofs gen.Gen_dispatch.
Import ListNotations.

(* ------------------------------------------------------------------------------------------------ monad / dictionary lemmas *)
Lemma py_for_val {A S} (g : S -> A -> S) (body : S -> A -> py S) :
  (forall s x, body s x = Val (g s x)) -> forall l s, py_for l body s = Val (fold_left g l s).
Proof. intros Hb l. induction l as [|x l IH]; intros s; cbn; [reflexivity|]. rewrite Hb. apply IH. Qed.

Lemma py_eqb_refl {K} `{PyEq K} (k : K) : py_eqb k k = true.
Proof. destruct (py_eqb_spec k k); congruence. Qed.

Section DDLemmas.
Context {V : Type}.
Notation dd := (ddict node V).

Lemma dd_lookup_set (d : dd) k v n : dd_lookup (dd_set d k v) n = if Nat.eqb n k then Some v else dd_lookup d n.
Proof.
  induction d as [|[k' v'] d IH]; cbn.
  - reflexivity.
  - destruct (Nat.eqb_spec k k') as [E|NE]; cbn.
    + subst k'. destruct (Nat.eqb_spec n k); reflexivity.
    + rewrite IH. destruct (Nat.eqb_spec n k') as [E2|NE2]; [|reflexivity].
      subst k'. destruct (Nat.eqb_spec n k); [congruence|reflexivity].
Qed.

Lemma dd_get_iadd (d : dd) k l n :
  dd_get (dd_iadd d k l) n [] = if Nat.eqb n k then dd_get d k [] ++ l else dd_get d n [].
Proof. unfold dd_get, dd_iadd, dd_getitem, dd_get. rewrite dd_lookup_set. destruct (Nat.eqb n k); reflexivity. Qed.
End DDLemmas.

Lemma dd_get_copy {D} (P : ddict node node) n :
  dd_get (safe_defaultdict_copy (D := D) P) n [] = map SrcNode (dd_get P n []).
Proof.
  unfold dd_get, safe_defaultdict_copy. induction P as [|[k v] P IH]; cbn; [reflexivity|].
  destruct (Nat.eqb n k); [reflexivity|exact IH].
Qed.

(* ================================================================================================ Part A: closed forms *)
Section Generic.
Variable datum : Type.
Variable world : Type.
Variable node_state : world -> node -> datum.
Variable base_call : node -> xval datum -> world -> py world.
Variable model_nodes model_input_nodes model_output_nodes model_trainable_nodes : list node.
Variable model_edges : list edge.
Variable sorted_by_name : list edge -> list edge.

Notation obj := (GenDispatch.DataDispatcher datum).
Notation mk := (GenDispatch.mkDataDispatcher datum).
Notation f_nodes := (GenDispatch.f_nodes datum).
Notation f_trainables := (GenDispatch.f_trainables datum).
Notation f_inputs := (GenDispatch.f_inputs datum).
Notation f__parents := (GenDispatch.f__parents datum).
Notation f_parents := (GenDispatch.f_parents datum).
Notation f_teachers := (GenDispatch.f_teachers datum).
Notation gen_init := (GenDispatch.DataDispatcher___init__ datum model_nodes model_input_nodes model_trainable_nodes model_edges sorted_by_name).
Notation gen_check := (GenDispatch.DataDispatcher__check_inputs datum).
Notation gen_get := (GenDispatch.DataDispatcher_get datum world node_state).
Notation gen_getitem := (GenDispatch.DataDispatcher___getitem__ datum world node_state).
Notation gen_load := (GenDispatch.DataDispatcher_load datum).
Notation gen_forward := (GenDispatch.forward datum world node_state base_call model_nodes model_input_nodes model_output_nodes
                                             model_trainable_nodes model_edges sorted_by_name).

(* the parents of every node, as DataDispatcher.__init__ computes them (utils/graphflow.py find_parents_and_children) *)
Definition parents_dict : ddict node node := fst (GenDispatch.find_parents_and_children sorted_by_name model_edges).

(* the dispatcher's fan-in order: the parents of n are the senders of the edges into n, in the order of the name-sorted edge list *)
Theorem parents_dict_spec n :
  dd_get parents_dict n [] = map fst (filter (fun ed => Nat.eqb (snd ed) n) (sorted_by_name model_edges)).
Proof.
  unfold parents_dict, GenDispatch.find_parents_and_children, pure_for.
  set (body := fun '((parents, children) : ddict node node * ddict node node) (edge_ : edge) =>
                 let '(parent, child) := edge_ in
                 (dd_iadd parents child [parent], dd_iadd children parent [child])).
  assert (E : forall l P C, dd_get (fst (fold_left body l (P, C))) n [] = dd_get P n [] ++ map fst (filter (fun ed => Nat.eqb (snd ed) n) l)).
  { induction l as [|[a b] l IH]; intros P C; cbn [fold_left filter map]; [rewrite app_nil_r; reflexivity|].
    cbn [body snd]. rewrite IH, dd_get_iadd. destruct (Nat.eqb_spec b n) as [Eb|NE].
    - subst b. rewrite Nat.eqb_refl. cbn [map fst]. rewrite <- app_assoc. reflexivity.
    - destruct (Nat.eqb_spec n b); [congruence|reflexivity]. }
  match goal with |- context [fold_left ?f _ _] => change f with body end.
  specialize (E (sorted_by_name model_edges) [] []).
  assert (Eta : forall pc : ddict node node * ddict node node, (let '(p, c) := pc in (p, c)) = pc) by (intros [? ?]; reflexivity).
  rewrite Eta, E. reflexivity.
Qed.

(* ---- what an input means *)
(* the datum an input X offers to a node: an array is offered to everyone, a mapping to the nodes it names *)
Definition data_of (X : pyinput datum) : node -> option datum :=
  match X with InArr a => fun _ => Some a | InMap m => m end.
(* the nodes `load` visits with it: the entry nodes for an array, all the nodes for a mapping *)
Definition visited (inputs nodes : list node) (X : pyinput datum) : list node :=
  match X with InArr _ => inputs | InMap _ => nodes end.
(* the external datum that reaches node n *)
Definition ext_of (inputs nodes : list node) (X : pyinput datum) (n : node) : option datum :=
  if py_in n (visited inputs nodes X) then data_of X n else None.
(* `_check_inputs`: a mapping must name every entry node *)
Definition inputs_named (inputs : list node) (X : pyinput datum) : bool :=
  match X with InArr _ => true | InMap m => forallb (fun n => negb (is_none (m n))) inputs end.

Definition add_datum (m : node -> option datum) (fp : ddict node (src datum)) (n : node) : ddict node (src datum) :=
  match m n with Some a => dd_iadd fp n [SrcData a] | None => fp end.
Definition loaded (P : ddict node node) (inputs nodes : list node) (X : pyinput datum) : ddict node (src datum) :=
  fold_left (add_datum (data_of X)) (visited inputs nodes X) (safe_defaultdict_copy P).

Definition opt_list {A} (o : option A) : list A := match o with Some a => [a] | None => [] end.

Lemma fold_add_datum m : forall l (d : ddict node (src datum)) n, NoDup l ->
  dd_get (fold_left (add_datum m) l d) n [] = dd_get d n [] ++ opt_list (if py_in n l then option_map SrcData (m n) else None).
Proof.
  induction l as [|k l IH]; intros d n Hnd; cbn.
  - rewrite app_nil_r. reflexivity.
  - inversion Hnd as [|? ? Hk Hl]; subst. rewrite IH by assumption. unfold add_datum.
    destruct (Nat.eqb_spec n k) as [E|NE]; cbn.
    + subst k. assert (Hn : py_in n l = false).
      { unfold py_in. destruct (existsb (py_eqb n) l) eqn:Ex; [|reflexivity].
        apply existsb_exists in Ex. destruct Ex as [y [Hy Hey]]. cbn in Hey. apply Nat.eqb_eq in Hey. subst y. contradiction. }
      rewrite Hn. destruct (m n) as [a|]; cbn.
      * rewrite dd_get_iadd, Nat.eqb_refl, app_nil_r. reflexivity.
      * rewrite app_nil_r. reflexivity.
    + destruct (m k) as [a|]; [|reflexivity].
      rewrite dd_get_iadd. destruct (Nat.eqb_spec n k); [contradiction|reflexivity].
Qed.

(* LOAD, the dictionary: parents first, then the external datum -- array: entry nodes only; mapping: every named node of the model *)
Theorem loaded_get P inputs nodes X n : NoDup (visited inputs nodes X) ->
  dd_get (loaded P inputs nodes X) n [] = map SrcNode (dd_get P n []) ++ opt_list (option_map SrcData (ext_of inputs nodes X n)).
Proof.
  intros Hnd. unfold loaded. rewrite fold_add_datum by assumption. rewrite dd_get_copy. unfold ext_of.
  destruct (py_in n (visited inputs nodes X)); reflexivity.
Qed.

(* ---- _check_inputs *)
Lemma check_inputs_spec (self : obj) X :
  gen_check self X = if inputs_named (f_inputs self) X then Val tt else Exc KeyError.
Proof.
  destruct self as [ns ts ins P fp tc]. destruct X as [a|m]; cbn; [reflexivity|].
  induction ins as [|k ins IH]; cbn; [reflexivity|].
  unfold map_get, node_name. destruct (m k) as [a|]; cbn; [exact IH|reflexivity].
Qed.

(* ---- load *)
Theorem load_spec (self : obj) X :
  gen_load self (Some X) =
    if inputs_named (f_inputs self) X
    then Val (mk (f_nodes self) (f_trainables self) (f_inputs self) (f__parents self)
                 (loaded (f__parents self) (f_inputs self) (f_nodes self) X) [])
    else Exc KeyError.
Proof.
  unfold GenDispatch.DataDispatcher_load. destruct self as [ns ts ins P fp tc]. cbv beta iota.
  rewrite check_inputs_spec. cbn [GenDispatch.f_inputs GenDispatch.f_nodes GenDispatch.f_trainables GenDispatch.f__parents].
  destruct (inputs_named ins X) eqn:Hin; [|reflexivity]. cbn [py_bind].
  unfold loaded. destruct X as [a|m]; cbn [visited data_of].
  - rewrite (py_for_val (add_datum (fun _ => Some a))); [reflexivity|]. intros s x. reflexivity.
  - rewrite (py_for_val (add_datum m)); [reflexivity|]. intros s x. unfold add_datum, map_get, node_name.
    destruct (m x); reflexivity.
Qed.

(* `load()` without data: the parents dictionary is the copy *)
Lemma load_none (self : obj) :
  gen_load self None = Val (mk (f_nodes self) (f_trainables self) (f_inputs self) (f__parents self)
                               (safe_defaultdict_copy (f__parents self)) []).
Proof. destruct self; reflexivity. Qed.

(* what a previous load (or anything else) left in `_parents` / `_teachers` does not matter *)
Theorem load_overwrites ns ts ins P fp tc fp' tc' X : gen_load (mk ns ts ins P fp tc) X = gen_load (mk ns ts ins P fp' tc') X.
Proof. destruct X as [X|]; [rewrite !load_spec|rewrite !load_none]; reflexivity. Qed.

(* ---- __init__ *)
Lemma init_spec :
  gen_init = Val (mk model_nodes model_trainable_nodes model_input_nodes parents_dict (safe_defaultdict_copy parents_dict) []).
Proof.
  unfold GenDispatch.DataDispatcher___init__, parents_dict.
  destruct (GenDispatch.find_parents_and_children sorted_by_name model_edges) as [P C]. reflexivity.
Qed.

(* ---- get *)
Definition src_val (w : world) (s : src datum) : datum := match s with SrcNode n => node_state w n | SrcData a => a end.
(* the data `get(n)` collects: the parents' CURRENT states, then the external datum *)
Definition sources (fp : ddict node (src datum)) (w : world) (n : node) : list datum := map (src_val w) (dd_get fp n []).
(* bare when there is exactly one source, a list otherwise *)
Definition unwrap (l : list datum) : xval datum := match l with [a] => XBare a | _ => XList l end.

Theorem get_spec (self : obj) w n :
  gen_get self w n = Val (unwrap (sources (f_parents self) w n), pd_lookup (f_teachers self) n).
Proof.
  unfold GenDispatch.DataDispatcher_get. destruct self as [ns ts ins P fp tc]. cbv beta iota.
  cbn [GenDispatch.f_parents GenDispatch.f_teachers]. unfold sources.
  rewrite (py_for_val (fun x p => x ++ [src_val w p])).
  2:{ intros s [p|a]; reflexivity. }
  assert (E : forall l acc, fold_left (fun x p => x ++ [src_val w p]) l acc = acc ++ map (src_val w) l).
  { induction l as [|p l IH]; intros acc; cbn; [rewrite app_nil_r; reflexivity|]. rewrite IH, <- app_assoc. reflexivity. }
  rewrite E. cbn [app py_bind]. destruct (map (src_val w) (dd_get fp n [])) as [|a [|b l]]; reflexivity.
Qed.

Lemma getitem_spec (self : obj) w n : gen_getitem self w n = gen_get self w n.
Proof. destruct self; reflexivity. Qed.

(* ---- forward: every node once, left to right, each on `get` of the world left by the calls before it *)
Fixpoint calls (fp : ddict node (src datum)) (ns : list node) (w : world) : py world :=
  match ns with
  | [] => Val w
  | n :: r => py_bind (base_call n (unwrap (sources fp w n)) w) (calls fp r)
  end.

Theorem forward_spec w X :
  gen_forward w X =
    if inputs_named model_input_nodes X
    then py_bind (calls (loaded parents_dict model_input_nodes model_nodes X) model_nodes w)
                 (fun w' => Val (w', map (node_state w') model_output_nodes))
    else Exc KeyError.
Proof.
  unfold GenDispatch.forward. rewrite init_spec. cbn [py_bind]. rewrite load_spec.
  cbn [GenDispatch.f_inputs GenDispatch.f_nodes GenDispatch.f_trainables GenDispatch.f__parents].
  destruct (inputs_named model_input_nodes X); [|reflexivity]. cbn [py_bind].
  set (fp := loaded parents_dict model_input_nodes model_nodes X).
  set (d := mk model_nodes model_trainable_nodes model_input_nodes parents_dict fp []).
  assert (E : forall ns w0,
    py_for ns (fun w1 n => py_bind (gen_getitem d w1 n) (fun r => py_bind (base_call n (dp_x r) w1) (fun w2 => Val w2))) w0
    = calls fp ns w0).
  { induction ns as [|n ns IH]; intros w0; cbn [py_for calls]; [reflexivity|].
    rewrite getitem_spec, get_spec. cbn [py_bind dp_x fst GenDispatch.f_parents]. subst d. cbn [GenDispatch.f_parents].
    destruct (base_call n (unwrap (sources fp w0 n)) w0) as [w2|e|]; cbn [py_bind]; [apply IH|reflexivity|reflexivity]. }
  rewrite E. reflexivity.
Qed.
End Generic.

(* ================================================================================================ Part B: ModelSem *)
Section Sem.
Context {F : Type} `{Num F}.
Notation vec := (list F).
Notation env := (@env F).
Notation model := (@model F).
Notation ndesc := (@ndesc F).

(* representation: the hand model hands a node the side-by-side concatenation of what the generated code hands it *)
Definition flat (x : xval vec) : vec := match x with XBare a => a | XList l => concat l end.
Definition st_of (e : env) (n : node) : vec := st (e n).

(* `_base.call(n, x)` read in the hand model: one [call_node] of the node named n, on the flattened input *)
Definition sem_call (m : model) (prev : env) (clamp : nat -> option vec) (n : node) (x : xval vec) (e : env) : py env :=
  match find (fun d => Nat.eqb (nid d) n) (order m) with
  | Some d => match nfwd d (st (e (nid d))) (hid (e (nid d))) (flat x) (fbvalue d prev clamp) with
              | Some (s', h') => Val (upd e (nid d) (mkNS s' h'))
              | None => Exc RuntimeError
              end
  | None => Exc KeyError
  end.

(* a failing run of the hand model returns the environment at the raise point; an exception carries none *)
Definition gen_result (m : model) (r : env * bool) : py (env * list vec) :=
  if snd r then Val (fst r, out_states m (fst r)) else Exc RuntimeError.

Lemma flat_unwrap (l : list vec) : flat (unwrap vec l) = concat l.
Proof. destruct l as [|a [|b l]]; cbn; [reflexivity|rewrite app_nil_r; reflexivity|reflexivity]. Qed.

Lemma find_nid (ds : list ndesc) d : NoDup (map nid ds) -> In d ds -> find (fun d' => Nat.eqb (nid d') (nid d)) ds = Some d.
Proof.
  induction ds as [|a ds IH]; intros Hnd Hin; [destruct Hin|]. cbn in *. inversion Hnd as [|? ? Ha Hds]; subst.
  destruct Hin as [E|Hin].
  - subst a. rewrite Nat.eqb_refl. reflexivity.
  - destruct (Nat.eqb_spec (nid a) (nid d)) as [E|NE]; [|apply IH; assumption].
    exfalso. apply Ha. rewrite E. apply in_map. assumption.
Qed.

Variable m : model.
Variable inputs : list node.
Variable edges : list edge.
Variable sorted_by_name : list edge -> list edge.
Variable trainables : list node.
Let nodes := map nid (order m).
Let P := parents_dict edges sorted_by_name.

(* GET = gather: what the generated `get` hands to node n, flattened, is the hand model's [gather] *)
Theorem sources_gather (X : pyinput vec) (e : env) n :
  NoDup (visited vec inputs nodes X) -> parents m n = dd_get P n [] ->
  flat (unwrap vec (sources vec env st_of (loaded vec P inputs nodes X) e n)) = gather m e (ext_of vec inputs nodes X) n.
Proof.
  intros Hnd Hp. rewrite flat_unwrap. unfold sources. rewrite loaded_get by assumption. unfold gather. rewrite Hp.
  rewrite map_app, map_map, concat_app. cbn [src_val]. f_equal.
  destruct (ext_of vec inputs nodes X n) as [x|]; cbn; [rewrite app_nil_r|]; reflexivity.
Qed.

Lemma calls_forward_from prev clamp (X : pyinput vec) :
  NoDup nodes -> NoDup (visited vec inputs nodes X) -> (forall n, In n nodes -> parents m n = dd_get P n []) ->
  forall ds (e : env), incl ds (order m) ->
  py_bind (calls vec env st_of (sem_call m prev clamp) (loaded vec P inputs nodes X) (map nid ds) e)
          (fun e' => Val (e', out_states m e'))
  = gen_result m (forward_from m prev clamp (ext_of vec inputs nodes X) ds e).
Proof.
  intros Hn Hv Hp. induction ds as [|d ds IH]; intros e Hincl; [reflexivity|].
  assert (Hd : In d (order m)) by (apply Hincl; left; reflexivity).
  assert (Hds : incl ds (order m)) by (intros x Hx; apply Hincl; right; exact Hx).
  cbn [map calls forward_from]. unfold sem_call at 1, call_node. rewrite (find_nid (order m) d Hn Hd).
  rewrite sources_gather; [|assumption|apply Hp; unfold nodes; apply in_map; assumption].
  destruct (nfwd d (st (e (nid d))) (hid (e (nid d))) (gather m e (ext_of vec inputs nodes X) (nid d)) (fbvalue d prev clamp))
    as [[s' h']|]; cbn [py_bind]; [apply IH; assumption|reflexivity].
Qed.

(* FORWARD: the generated forward pass, run on the hand model's environments, IS ModelSem.forward with the external input map
   [ext_of X] (array: the entry nodes get it; mapping: the named nodes of the model get their own entry); a mapping that does not
   name every entry node is refused before any node is called *)
Theorem gen_forward_eq prev clamp (X : pyinput vec) (e : env) :
  NoDup nodes -> NoDup inputs -> (forall n, In n nodes -> parents m n = dd_get P n []) ->
  GenDispatch.forward vec env st_of (sem_call m prev clamp) nodes inputs (outputs m) trainables edges sorted_by_name e X
  = if inputs_named vec inputs X then gen_result m (forward m prev clamp (ext_of vec inputs nodes X) e) else Exc KeyError.
Proof.
  intros Hn Hi Hp. rewrite forward_spec. destruct (inputs_named vec inputs X); [|reflexivity].
  unfold forward. fold P. change (out_states m) with (fun e' : env => map (st_of e') (outputs m)).
  apply (calls_forward_from prev clamp X Hn); [destruct X; assumption|assumption|apply incl_refl].
Qed.

(* forward looks at the external input map only at the model's own nodes ... *)
Lemma forward_from_ext_ext prev clamp (ext1 ext2 : nat -> option vec) : forall ds (e : env),
  (forall d, In d ds -> ext1 (nid d) = ext2 (nid d)) ->
  forward_from m prev clamp ext1 ds e = forward_from m prev clamp ext2 ds e.
Proof.
  induction ds as [|d ds IH]; intros e Hx; [reflexivity|]. cbn [forward_from]. unfold call_node, gather.
  rewrite (Hx d (or_introl eq_refl)).
  destruct (nfwd d (st (e (nid d))) (hid (e (nid d))) _ (fbvalue d prev clamp)) as [[s' h']|]; [|reflexivity].
  apply IH. intros d' Hd'. apply Hx. right. exact Hd'.
Qed.

Lemma py_in_In n (l : list node) : In n l -> py_in n l = true.
Proof. intros Hn. unfold py_in. apply existsb_exists. exists n. split; [assumption|]. cbn. apply Nat.eqb_refl. Qed.

(* ... so a MAPPING input is the hand model's external input map itself (`ext n` = what the mapping holds under n's name), and an
   ARRAY input is the map that gives the array to the entry nodes and nothing to any other node *)
Theorem gen_forward_eq_mapping prev clamp (mp : pymap vec) (e : env) :
  NoDup nodes -> NoDup inputs -> (forall n, In n nodes -> parents m n = dd_get P n []) ->
  GenDispatch.forward vec env st_of (sem_call m prev clamp) nodes inputs (outputs m) trainables edges sorted_by_name e (InMap mp)
  = if forallb (fun k => negb (is_none (mp k))) inputs then gen_result m (forward m prev clamp mp e) else Exc KeyError.
Proof.
  intros Hn Hi Hp. rewrite gen_forward_eq by assumption. cbn [inputs_named].
  destruct (forallb (fun k => negb (is_none (mp k))) inputs); [|reflexivity]. f_equal. unfold forward.
  apply forward_from_ext_ext. intros d Hd. unfold ext_of. cbn [visited data_of].
  rewrite py_in_In; [reflexivity|]. unfold nodes. apply in_map. exact Hd.
Qed.

Theorem gen_forward_eq_array prev clamp (a : vec) (e : env) :
  NoDup nodes -> NoDup inputs -> (forall n, In n nodes -> parents m n = dd_get P n []) ->
  GenDispatch.forward vec env st_of (sem_call m prev clamp) nodes inputs (outputs m) trainables edges sorted_by_name e (InArr a)
  = gen_result m (forward m prev clamp (fun n => if py_in n inputs then Some a else None) e).
Proof. intros Hn Hi Hp. rewrite gen_forward_eq by assumption. reflexivity. Qed.

(* ... hence C02_forward_is_solution holds of the generated forward pass *)
Theorem gen_forward_is_solution prev clamp (X : pyinput vec) (e0 e' : env) outs :
  well_formed m -> NoDup inputs -> (forall n, In n nodes -> parents m n = dd_get P n []) ->
  GenDispatch.forward vec env st_of (sem_call m prev clamp) nodes inputs (outputs m) trainables edges sorted_by_name e0 X
    = Val (e', outs) ->
  is_solution m prev clamp (ext_of vec inputs nodes X) e0 e' /\ outs = out_states m e'.
Proof.
  intros Hwf Hi Hp Hg. rewrite gen_forward_eq in Hg; [|exact (proj1 Hwf)|assumption|assumption].
  destruct (inputs_named vec inputs X); [|discriminate]. unfold gen_result in Hg.
  destruct (forward m prev clamp (ext_of vec inputs nodes X) e0) as [e1 ok] eqn:Hf. cbn in Hg.
  destruct ok; [|discriminate]. injection Hg as E1 E2. subst e1 outs. split; [|reflexivity].
  apply forward_is_solution; assumption.
Qed.
End Sem.
